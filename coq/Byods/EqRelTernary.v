(* C10 — the ternary `#[ds(eqrel)]` provider r(K, T, T).
   (1) lifted: per-key map of the proved binary provider with a merge that keeps every key's versions
       satisfies P1-P5 with the per-key equivalence closure (instance of Byods/Ternary.v);
   (2) real: EqRel2IndCommon as written (EqRelModel.v t_merge / t_merge_protocol) does NOT: computed witnesses. *)
From Coq Require Import List Arith Bool ZArith Lia.
From AV Require Import Byods.EqRelModel.
From AV Require Import Byods.Closure.
From AV Require Import Byods.Provider.
From AV Require Import Byods.EqRelProofs.
From AV Require Import Byods.Ternary.
Import ListNotations.
Open Scope Z_scope.

Definition T3z : Type := T3 T2.
(* equivalence closure per first column *)
Definition eqv3 : list T3z -> list T3z := cl3 T2 eqv.

Definition eqrel_ternary_lifted : provider T3z := lift T2 eqrel_binary.

Theorem eqv3_closure_op : closure_op T3z eqv3.
Proof. apply cl3_closure_op. exact eqv_closure_op. Qed.
Theorem eqrel_ternary_lifted_ok : provider_ok T3z eqrel_ternary_lifted eqv3.
Proof. apply lift_provider_ok; [exact eqv_closure_op|exact eqrel_binary_provider_ok]. Qed.

(* ------------------------------------------------------------------ the real structure as a provider *)
Inductive tview := TVFull (k x y : Z) | TVNone | TV0 (k : Z) | TV01 (k x : Z) | TV02 (k y : Z) | TV1 (x : Z) | TV12 (x y : Z).
Inductive tix := TIFull | TINone | TI0 | TI01 | TI02 | TI1 | TI12.
Definition tup (t : Z * Z * Z) : T3z := (fst (fst t), (snd (fst t), snd t)).
Definition tver (s : tstate) (v : ver) : eq2 := match v with VTotal => ts_total s | VDelta => ts_delta s end.
Definition tsel (v : tview) (t : T3z) : bool :=
  let k := fst t in let x := fst (snd t) in let y := snd (snd t) in
  match v with
  | TVFull k' x' y' => Z.eqb k k' && Z.eqb x x' && Z.eqb y y'
  | TVNone => true
  | TV0 k' => Z.eqb k k'
  | TV01 k' x' => Z.eqb k k' && Z.eqb x x'
  | TV02 k' y' => Z.eqb k k' && Z.eqb y y'
  | TV1 x' => Z.eqb x x'
  | TV12 x' y' => Z.eqb x x' && Z.eqb y y'
  end.
Definition tix_of (v : tview) : tix :=
  match v with TVFull _ _ _ => TIFull | TVNone => TINone | TV0 _ => TI0 | TV01 _ _ => TI01 | TV02 _ _ => TI02 | TV1 _ => TI1 | TV12 _ _ => TI12 end.
(* a panic while reading (Option::unwrap on None in the reverse-map views) serves nothing *)
Definition tget (s : tstate) (v : ver) (vk : tview) : option (list T3z) :=
  let t := tver s v in
  match vk with
  | TVFull k x y => option_map (map (fun _ => (k, (x, y)))) (tv_full_get t k x y)
  | TVNone => option_map (map tup) (tv_none_get t)
  | TV0 k => option_map (map (fun p => (k, p))) (tv_ind0_get t k)
  | TV01 k x => option_map (map (fun y => (k, (x, y)))) (tv_ind01_get t k x)
  | TV02 k y => option_map (map (fun x => (k, (x, y)))) (tv_ind01_get t k y)
  | TV1 x => match tv_ind1_get t x with Some (Ok l) => Some (map (fun ky => (fst ky, (x, snd ky))) l) | _ => None end
  | TV12 x y => match tv_ind12_get t x y with Some (Ok l) => Some (map (fun k => (k, (x, y))) l) | _ => None end
  end.
Definition tall (s : tstate) (v : ver) (ix : tix) : list (tview * list T3z) :=
  let t := tver s v in
  match ix with
  | TIFull => map (fun e => (TVFull (fst (fst (fst e))) (snd (fst (fst e))) (snd (fst e)), map (fun _ => tup (fst e)) (snd e))) (tv_full_all t)
  | TINone => match tv_none_get t with Some l => [(TVNone, map tup l)] | None => [] end
  | TI0 => map (fun e => (TV0 (fst e), map (fun p => (fst e, p)) (snd e))) (tv_ind0_all t)
  | TI01 => map (fun e => (TV01 (fst (fst e)) (snd (fst e)), map (fun y => (fst (fst e), (snd (fst e), y))) (snd e))) (tv_ind01_all t)
  | TI02 => map (fun e => (TV02 (fst (fst e)) (snd (fst e)), map (fun x => (fst (fst e), (x, snd (fst e)))) (snd e))) (tv_ind01_all t)
  | TI1 => match tv_ind1_all t with
           | Ok l => map (fun e => (TV1 (fst e), map (fun ky => (fst ky, (fst e, snd ky))) (snd e))) l
           | Panic => [] end
  | TI12 => map (fun e => (TV12 (fst (fst e)) (snd (fst e)), map (fun k => (k, fst e)) (snd e))) (tv_ind12_all t)
  end.
Definition tins (s : tstate) (t : T3z) : tstate * bool :=
  let '(n, b) := t_insert (ts_new s) (fst t) (fst (snd t)) (snd (snd t)) in (mkTS n (ts_delta s) (ts_total s), b).

(* protocol = true: driven as generated code does (the full-index write view merges a second time);
   protocol = false: the merge of the common structure alone *)
Definition eqrel_ternary_real (protocol : bool) : provider T3z :=
  {| St := tstate; p_init := t_init; p_ins := tins;
     p_merge := if protocol then t_merge_protocol else t_merge; p_restart := t_restart;
     p_read := fun s v => map tup (t_iter_all_added (tver s v));
     p_contains := fun s v t => t_contains (tver s v) (fst t) (fst (snd t)) (snd (snd t));
     View := tview; Ix := tix; p_get := tget; p_all := tall; v_sel := tsel; v_ix := tix_of |}.

(* ------------------------------------------------------------------ witnesses *)
Ltac in_list := vm_compute; repeat (first [left; reflexivity | right]).
Ltac notin_list H := vm_compute in H; repeat (destruct H as [H|H]; [discriminate H|]); try exact H.

(* F1: the merge as written drops the merged delta of a key that is in delta and in new: the fact (0,1,2),
   inserted for key 0 one round after (0,0,1), is served neither by total nor by delta (law P2) *)
Definition h_f1 : list (pop T3z) := [PIns (0, (0, 1)); PMerge; PIns (0, (1, 2)); PMerge].
Lemma f1_in_closure : In (0, (1, 2)) (eqv3 (g_td T3z (ghost_of T3z h_f1))).
Proof. in_list. Qed.
Lemma f1_not_served : ~ In (0, (1, 2)) (served T3z (eqrel_ternary_real false) (run T3z (eqrel_ternary_real false) h_f1)).
Proof. intros H. notin_list H. Qed.
Theorem ternary_merge_refuted : ~ provider_ok T3z (eqrel_ternary_real false) eqv3.
Proof. intros H. destruct (ok_P2 T3z _ eqv3 H h_f1) as [_ H2]. exact (f1_not_served (H2 _ f1_in_closure)). Qed.

(* ... and after one more merge the tuple is not in total either: it is lost for good *)
Lemma f1_lost : ~ In (0, (1, 2)) (p_read T3z (eqrel_ternary_real false) (run T3z (eqrel_ternary_real false) (h_f1 ++ [PMerge])) VTotal).
Proof. intros H. notin_list H. Qed.

(* generated code: the second merge through the full-index write view moves what was inserted straight to
   total; (0,1,1) is readable from total although nothing was ever served as delta (law P3) *)
Definition h_twice : list (pop T3z) := [PIns (0, (1, 1)); PMerge].
Lemma twice_in_total : In (0, (1, 1)) (p_read T3z (eqrel_ternary_real true) (run T3z (eqrel_ternary_real true) h_twice) VTotal).
Proof. in_list. Qed.
Theorem ternary_protocol_refuted : ~ provider_ok T3z (eqrel_ternary_real true) eqv3.
Proof.
  intros H. destruct (ok_P3 T3z _ eqv3 H h_twice) as [H1 _]. specialize (H1 _ twice_in_total). vm_compute in H1. exact H1.
Qed.
(* ... and facts for one key arriving in two rounds: the total of the key is replaced by the last round *)
Definition h_twice2 : list (pop T3z) := [PIns (0, (0, 1)); PMerge; PIns (0, (1, 2)); PMerge; PMerge].
Lemma twice_loses : In (0, (0, 1)) (eqv3 (g_td T3z (ghost_of T3z h_twice2)))
  /\ ~ In (0, (0, 1)) (served T3z (eqrel_ternary_real true) (run T3z (eqrel_ternary_real true) h_twice2)).
Proof. split; [in_list|intros H; notin_list H]. Qed.

(* iter_all of the view on columns [1,2] serves (1,0,1): 0 and 1 are both mentioned under key 1 (2~0, 1~3) but
   are not equivalent (law P4, soundness of iter_all) *)
Definition h_i12 : list (pop T3z) := [PIns (1, (2, 0)); PIns (1, (1, 3)); PMerge; PMerge].
Lemma i12_entry b : exists l, In (TV12 0 1, l) (p_all T3z (eqrel_ternary_real b) (run T3z (eqrel_ternary_real b) h_i12) VTotal TI12) /\ In (1, (0, 1)) l.
Proof. exists [(1, (0, 1))]. split; [destruct b; in_list|left; reflexivity]. Qed.
Lemma i12_not_served b : ~ In (1, (0, 1)) (served T3z (eqrel_ternary_real b) (run T3z (eqrel_ternary_real b) h_i12)).
Proof. intros H. destruct b; notin_list H. Qed.
Theorem ternary_i12_refuted b : ~ (forall h v ix vk l t, In (vk, l) (p_all T3z (eqrel_ternary_real b) (run T3z (eqrel_ternary_real b) h) v ix) -> In t l ->
    v_ix T3z (eqrel_ternary_real b) vk = ix /\ v_sel T3z (eqrel_ternary_real b) vk t = true /\ In t (served T3z (eqrel_ternary_real b) (run T3z (eqrel_ternary_real b) h))).
Proof.
  intros H. destruct (i12_entry b) as [l [He Hl]]. destruct (H h_i12 VTotal TI12 _ l _ He Hl) as [_ [_ Hs]]. exact (i12_not_served b Hs).
Qed.

(* the lifted provider serves the tuples the real one loses (same histories) *)
Example lifted_keeps_f1 : In (0, (1, 2)) (served T3z eqrel_ternary_lifted (run T3z eqrel_ternary_lifted h_f1)).
Proof. apply (ok_P2 T3z _ eqv3 eqrel_ternary_lifted_ok h_f1). exact f1_in_closure. Qed.

Print Assumptions eqrel_ternary_lifted_ok.
Print Assumptions ternary_merge_refuted.
Print Assumptions ternary_protocol_refuted.
