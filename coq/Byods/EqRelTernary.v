(* C10 — the ternary `#[ds(eqrel)]` provider r(K, T, T): EqRel2IndCommon (per-key map of binary structures +
   reverse map) as it is after the repairs 0f251c7, 539a1e3, 187eab3, c6810ff, modelled in EqRelModel.v, meets
   the provider laws P1-P5 with the per-key equivalence closure, for every history, in every view:
   [0,1,2], none, [0], [0,1], [0,2] (keyed by the first column) and [1], [2], [1,2] (through the reverse map).
   Route: every key of the real structure is, step for step, the proved binary provider run on the key's
   projection of the history (the per-key lifting of Byods/Ternary.v: hproj, ghost_proj, cl3). *)
From Coq Require Import List Arith Bool ZArith Lia.
From AV Require Import Byods.EqRelModel.
From AV Require Import Byods.EqRelUF.
From AV Require Import Byods.Closure.
From AV Require Import Byods.Provider.
From AV Require Import Byods.EqRelProofs.
From AV Require Import Byods.Ternary.
Import ListNotations.
Open Scope Z_scope.

Definition T3z : Type := T3 T2.
Definition eqv3 : list T3z -> list T3z := cl3 T2 eqv.
Theorem eqv3_closure_op : closure_op T3z eqv3.
Proof. apply cl3_closure_op. exact eqv_closure_op. Qed.

(* the generic lifting instantiated: per-key map of binary providers with a merge applied to every key *)
Definition eqrel_ternary_lifted : provider T3z := lift T2 eqrel_binary.
Theorem eqrel_ternary_lifted_ok : provider_ok T3z eqrel_ternary_lifted eqv3.
Proof. apply lift_provider_ok; [exact eqv_closure_op|exact eqrel_binary_provider_ok]. Qed.

(* ------------------------------------------------------------------ association lists *)
Definition keys {V} (m : list (Z * V)) : list Z := map fst m.
Definition gd := get_or_default.

Lemma zget_none_keys {V} k (m : list (Z * V)) : zget k m = None <-> ~ In k (keys m).
Proof.
  induction m as [|[k' v] m IH]; cbn [zget keys map fst In]; [tauto|].
  destruct (Z.eqb_spec k k') as [->|Hne].
  - split; [discriminate|]. intros H. exfalso. apply H. left. reflexivity.
  - rewrite IH. unfold keys. split; [intros H [E|H']; [congruence|contradiction]|intros H H'; apply H; right; exact H'].
Qed.
Lemma zget_some_in {V} k (m : list (Z * V)) v : zget k m = Some v -> In (k, v) m.
Proof.
  induction m as [|[k' v'] m IH]; cbn [zget]; [discriminate|].
  destruct (Z.eqb_spec k k') as [->|Hne]; [intros [= ->]; left; reflexivity|intros H; right; apply IH; exact H].
Qed.
Lemma in_keys_some {V} k (m : list (Z * V)) : In k (keys m) <-> exists v, zget k m = Some v.
Proof.
  split.
  - intros H. destruct (zget k m) as [v|] eqn:E; [exists v; reflexivity|]. apply zget_none_keys in E. contradiction.
  - intros [v H] . destruct (in_dec Z.eq_dec k (keys m)) as [Hi|Hn]; [exact Hi|]. apply zget_none_keys in Hn. congruence.
Qed.
Lemma nodup_in_zget {V} k (m : list (Z * V)) v : NoDup (keys m) -> In (k, v) m -> zget k m = Some v.
Proof.
  induction m as [|[k' v'] m IH]; cbn [keys map fst zget In]; [intros _ []|].
  intros Hn [E|Hin].
  - injection E as -> ->. rewrite Z.eqb_refl. reflexivity.
  - inversion Hn as [|a l Hk Hn']; subst. destruct (Z.eqb_spec k k') as [->|_].
    + exfalso. apply Hk. apply in_map_iff. exists (k', v). split; [reflexivity|exact Hin].
    + apply IH; assumption.
Qed.
Lemma keys_zset {V} k (v : V) m j : In j (keys (zset k v m)) <-> j = k \/ In j (keys m).
Proof. rewrite !in_keys_some. rewrite zget_zset. destruct (Z.eqb_spec j k) as [->|Hne]; split; eauto; intros [H|H]; [congruence|exact H]. Qed.
Lemma nodup_zset {V} k (v : V) m : NoDup (keys m) -> NoDup (keys (zset k v m)).
Proof.
  induction m as [|[k' v'] m IH]; cbn [zset keys map fst]; intros Hn.
  - constructor; [intros []|constructor].
  - destruct (Z.eqb_spec k k') as [->|Hne]; cbn [map fst]; [exact Hn|].
    inversion Hn as [|a l Hk Hn']; subst. constructor; [|apply IH; exact Hn'].
    intros H. apply (keys_zset k v m k') in H. destruct H as [H|H]; [congruence|contradiction].
Qed.
Lemma zget_zrem {V} k (m : list (Z * V)) j : zget j (zrem k m) = if Z.eqb j k then None else zget j m.
Proof.
  unfold zrem. induction m as [|[k' v'] m IH]; cbn [filter fst zget]; [destruct (Z.eqb j k); reflexivity|].
  destruct (Z.eqb_spec k k') as [->|Hne]; cbn [negb].
  - rewrite IH. destruct (Z.eqb_spec j k'); reflexivity.
  - cbn [zget]. rewrite IH. destruct (Z.eqb_spec j k') as [->|_]; [|reflexivity].
    destruct (Z.eqb_spec k' k); [congruence|reflexivity].
Qed.
Lemma nodup_zrem {V} k (m : list (Z * V)) : NoDup (keys m) -> NoDup (keys (zrem k m)).
Proof.
  unfold zrem. induction m as [|[k' v'] m IH]; cbn [filter fst keys map]; intros Hn; [constructor|].
  inversion Hn as [|a l Hk Hn']; subst. destruct (negb (Z.eqb k k')); [|apply IH; exact Hn'].
  cbn [map fst]. constructor; [|apply IH; exact Hn'].
  intros H. apply Hk. apply in_map_iff in H. destruct H as [[a b] [E H]]. apply filter_In in H. cbn [fst] in E. subst.
  apply in_map_iff. exists (k', b). split; [reflexivity|apply H].
Qed.
Lemma nodup_keys_nodup {V} (m : list (Z * V)) : NoDup (keys m) -> NoDup m.
Proof.
  induction m as [|[k v] m IH]; cbn [keys map fst]; intros Hn; [constructor|]. inversion Hn; subst.
  constructor; [|apply IH; assumption]. intros H. apply H1. apply in_map_iff. exists (k, v). split; [reflexivity|exact H].
Qed.
Lemma gd_zset k v m j : gd j (zset k v m) = if Z.eqb j k then v else gd j m.
Proof. unfold gd, get_or_default. rewrite zget_zset. destruct (Z.eqb j k); reflexivity. Qed.
Lemma gd_none k m : zget k m = None -> gd k m = c_empty.
Proof. unfold gd, get_or_default. intros ->. reflexivity. Qed.
Lemma gd_some k m c : zget k m = Some c -> gd k m = c.
Proof. unfold gd, get_or_default. intros ->. reflexivity. Qed.

(* ------------------------------------------------------------------ the merge, key by key *)
Definition bof (st : maps3) (k : Z) : bstate := mkB (gd k (m_n st)) (gd k (m_d st)) (gd k (m_t st)).

Lemma step_keys_char : forall ks st, NoDup ks ->
  forall j, (In j ks -> zget j (m_n (fold_left t_step_key ks st)) = None
                        /\ zget j (m_d (fold_left t_step_key ks st)) = Some (b_delta (b_merge (bof st j)))
                        /\ zget j (m_t (fold_left t_step_key ks st)) = Some (b_total (b_merge (bof st j))))
         /\ (~ In j ks -> zget j (m_n (fold_left t_step_key ks st)) = zget j (m_n st)
                          /\ zget j (m_d (fold_left t_step_key ks st)) = zget j (m_d st)
                          /\ zget j (m_t (fold_left t_step_key ks st)) = zget j (m_t st)).
Proof.
  induction ks as [|k ks IH]; intros st Hn j; cbn [fold_left].
  - split; [intros []|intros _; repeat split].
  - inversion Hn as [|a l Hk Hn']; subst. specialize (IH (t_step_key st k) Hn' j). destruct IH as [IH1 IH2].
    assert (Hsame : j <> k -> bof (t_step_key st k) j = bof st j).
    { intros Hne. unfold bof, t_step_key. cbn [m_n m_d m_t]. unfold gd at 1, get_or_default. rewrite zget_zrem, !gd_zset.
      destruct (Z.eqb_spec j k); [contradiction|]. reflexivity. }
    split.
    + intros [<-|Hin].
      * destruct (IH2 Hk) as [E1 [E2 E3]]. rewrite E1, E2, E3. unfold t_step_key. cbn [m_n m_d m_t].
        rewrite zget_zrem, !zget_zset, Z.eqb_refl. repeat split.
      * assert (j <> k) by (intros ->; contradiction). rewrite <- (Hsame H). apply IH1. exact Hin.
    + intros Hnot. assert (Hjk : j <> k) by (intros ->; apply Hnot; left; reflexivity).
      destruct IH2 as [E1 [E2 E3]]; [intros H; apply Hnot; right; exact H|]. rewrite E1, E2, E3.
      unfold t_step_key. cbn [m_n m_d m_t]. rewrite zget_zrem, !zget_zset. destruct (Z.eqb_spec j k); [contradiction|]. repeat split.
Qed.
Lemma step_keys_nodup : forall ks st, NoDup (keys (m_d st)) -> NoDup (keys (m_t st)) ->
  NoDup (keys (m_d (fold_left t_step_key ks st))) /\ NoDup (keys (m_t (fold_left t_step_key ks st))).
Proof.
  induction ks as [|k ks IH]; intros st H1 H2; cbn [fold_left]; [split; assumption|].
  apply IH; unfold t_step_key; cbn [m_d m_t]; apply nodup_zset; assumption.
Qed.
Lemma merge_keys_in nm dm j : In j (t_merge_keys_of nm dm) <-> In j (keys dm) \/ In j (keys nm).
Proof.
  unfold t_merge_keys_of. rewrite in_app_iff, filter_In, negb_true_iff, zmem_false. fold (keys dm). fold (keys nm).
  destruct (in_dec Z.eq_dec j (keys dm)); tauto.
Qed.
Lemma merge_keys_nodup (nm dm : list (Z * eqc)) : NoDup (keys nm) -> NoDup (keys dm) -> NoDup (t_merge_keys_of nm dm).
Proof.
  intros Hn Hd. unfold t_merge_keys_of. apply NoDup_app_disj; [exact Hd|apply NoDup_filter; exact Hn|].
  intros b Hb Hf. apply filter_In in Hf. destruct Hf as [_ Hf]. apply negb_true_iff, zmem_false in Hf. contradiction.
Qed.

(* ------------------------------------------------------------------ reverse maps *)
Definition rlook (x : Z) (r : list (Z * list Z)) : list Z := match zget x r with Some l => l | None => [] end.
(* every registered key satisfies P, and the sets are duplicate free *)
Definition rgood (r : list (Z * list Z)) (P : Z -> Prop) : Prop :=
  forall x s, In (x, s) r -> NoDup s /\ forall k, In k s -> P k.

Lemma zset_binding {V} k (v : V) m x s : In (x, s) (zset k v m) -> (x = k /\ s = v) \/ In (x, s) m.
Proof.
  induction m as [|[k' v'] m IH]; cbn [zset In].
  - intros [E|[]]. injection E as <- <-. left. split; reflexivity.
  - destruct (Z.eqb_spec k k') as [->|Hne]; cbn [In].
    + intros [E|H]; [injection E as <- <-; left; split; reflexivity|right; right; exact H].
    + intros [E|H]; [right; left; exact E|]. destruct (IH H) as [H1|H1]; [left; exact H1|right; right; exact H1].
Qed.
Lemma rlook_in x r k : In k (rlook x r) -> exists s, In (x, s) r /\ In k s.
Proof. unfold rlook. destruct (zget x r) as [l|] eqn:E; [|intros []]. intros H. exists l. split; [apply zget_some_in; exact E|exact H]. Qed.

Lemma rev_ins_look x k r x' k' : In k' (rlook x' (rev_ins x k r)) <-> (x' = x /\ k' = k) \/ In k' (rlook x' r).
Proof.
  unfold rev_ins, rlook. destruct (zget x r) as [ks|] eqn:E; rewrite zget_zset; destruct (Z.eqb_spec x' x) as [->|Hne].
  - rewrite E, zins_spec. tauto.
  - split; [intros H; right; exact H|intros [[H _]|H]; [contradiction|exact H]].
  - rewrite E. cbn [In]. split; [intros [<-|[]]; left; split; reflexivity|intros [[_ ->]|[]]; left; reflexivity].
  - split; [intros H; right; exact H|intros [[H _]|H]; [contradiction|exact H]].
Qed.
Lemma rev_ins_good x k r (P : Z -> Prop) : rgood r P -> P k -> rgood (rev_ins x k r) P.
Proof.
  intros G Pk x' s Hin. unfold rev_ins in Hin. destruct (zget x r) as [ks|] eqn:E; apply zset_binding in Hin; destruct Hin as [[-> ->]|Hin]; try exact (G _ _ Hin).
  - destruct (G x ks (zget_some_in _ _ _ E)) as [Hn Hp]. split; [apply zins_nodup; exact Hn|].
    intros k' Hk'. apply zins_spec in Hk'. destruct Hk' as [->|Hk']; [exact Pk|apply Hp; exact Hk'].
  - split; [constructor; [intros []|constructor]|]. intros k' [<-|[]]. exact Pk.
Qed.

Lemma rev_move_mono : forall from to x k, In k (rlook x from) \/ In k (rlook x to) -> In k (rlook x (rev_move from to)).
Proof.
  unfold rev_move. induction from as [|[x0 s0] f IH]; intros to x k H; cbn [fold_left fst snd].
  - destruct H as [H|H]; [unfold rlook in H; cbn in H; destruct H|exact H].
  - apply IH. destruct (Z.eqb_spec x x0) as [->|Hne].
    + right. unfold rlook in *. cbn [zget] in H. rewrite Z.eqb_refl in H.
      destruct (zget x0 to) as [t0|] eqn:E; rewrite zget_zset, Z.eqb_refl.
      * apply zunion_spec. tauto.
      * destruct H as [H|[]]. exact H.
    + unfold rlook in *. cbn [zget] in H. destruct (Z.eqb_spec x x0); [contradiction|].
      destruct H as [H|H]; [left; exact H|right].
      destruct (zget x0 to) as [t0|]; rewrite zget_zset; destruct (Z.eqb_spec x x0); try contradiction; exact H.
Qed.
Lemma rev_move_good (P : Z -> Prop) : forall from to, rgood from P -> rgood to P -> rgood (rev_move from to) P.
Proof.
  unfold rev_move. induction from as [|[x0 s0] f IH]; intros to Gf Gt; cbn [fold_left fst snd]; [exact Gt|].
  apply IH; [intros x s H; exact (Gf x s (or_intror H))|].
  destruct (Gf x0 s0 (or_introl eq_refl)) as [Hn0 Hp0].
  intros x s Hin. destruct (zget x0 to) as [t0|] eqn:E; apply zset_binding in Hin; destruct Hin as [[-> ->]|Hin]; try exact (Gt _ _ Hin).
  - destruct (Gt x0 t0 (zget_some_in _ _ _ E)) as [Hn Hp]. split; [apply zunion_nodup; exact Hn|].
    intros k Hk. apply zunion_spec in Hk. destruct Hk as [Hk|Hk]; [apply Hp|apply Hp0]; exact Hk.
  - split; assumption.
Qed.
Lemma rgood_weaken r (P Q : Z -> Prop) : (forall k, P k -> Q k) -> rgood r P -> rgood r Q.
Proof. intros H G x s Hin. destruct (G x s Hin) as [Hn Hp]. split; [exact Hn|]. intros k Hk. apply H, Hp, Hk. Qed.

(* ------------------------------------------------------------------ the real structure as a provider *)
Inductive tview := TVFull (k x y : Z) | TVNone | TV0 (k : Z) | TV01 (k x : Z) | TV02 (k y : Z) | TV1 (x : Z) | TV2 (y : Z) | TV12 (x y : Z).
Inductive tix := TIFull | TINone | TI0 | TI01 | TI02 | TI1 | TI2 | TI12.
Definition tup (t : Z * Z * Z) : T3z := (fst (fst t), (snd (fst t), snd t)).
Definition tver (s : tstate) (v : ver) : eq2 := match v with VTotal => ts_total s | VDelta => ts_delta s end.
Definition tsel (v : tview) (t : T3z) : bool :=
  let k := fst t in let x := fst (snd t) in let y := snd (snd t) in
  match v with
  | TVFull k' x' y' => Z.eqb k k' && Z.eqb x x' && Z.eqb y y'
  | TVNone => true
  | TV0 k' => Z.eqb k k'
  | TV01 k' x' => Z.eqb k k' && Z.eqb x x'
  | TV02 k' y' => Z.eqb k k' && Z.eqb y y'
  | TV1 x' => Z.eqb x x'
  | TV2 y' => Z.eqb y y'
  | TV12 x' y' => Z.eqb x x' && Z.eqb y y'
  end.
Definition tix_of (v : tview) : tix :=
  match v with TVFull _ _ _ => TIFull | TVNone => TINone | TV0 _ => TI0 | TV01 _ _ => TI01 | TV02 _ _ => TI02
             | TV1 _ => TI1 | TV2 _ => TI2 | TV12 _ _ => TI12 end.
(* index_get / iter_all with the values rebuilt into full tuples; a panic (Option::unwrap on None in the reverse-map
   views) would serve nothing — eqrel_ternary_never_panics shows it cannot happen *)
Definition tget (s : tstate) (v : ver) (vk : tview) : option (list T3z) :=
  let t := tver s v in
  match vk with
  | TVFull k x y => option_map (map (fun _ => (k, (x, y)))) (tv_full_get t k x y)
  | TVNone => option_map (map tup) (tv_none_get t)
  | TV0 k => option_map (map (fun p => (k, p))) (tv_ind0_get t k)
  | TV01 k x => option_map (map (fun y => (k, (x, y)))) (tv_ind01_get t k x)
  | TV02 k y => option_map (map (fun x => (k, (x, y)))) (tv_ind01_get t k y)
  | TV1 x => match tv_ind1_get t x with Some (Ok l) => Some (map (fun ky => (fst ky, (x, snd ky))) l) | _ => None end
  | TV2 y => match tv_ind1_get t y with Some (Ok l) => Some (map (fun kx => (fst kx, (snd kx, y))) l) | _ => None end
  | TV12 x y => match tv_ind12_get t x y with Some (Ok l) => Some (map (fun k => (k, (x, y))) l) | _ => None end
  end.
Definition tall (s : tstate) (v : ver) (ix : tix) : list (tview * list T3z) :=
  let t := tver s v in
  match ix with
  | TIFull => map (fun e => (TVFull (fst (fst (fst e))) (snd (fst (fst e))) (snd (fst e)), map (fun _ => tup (fst e)) (snd e))) (tv_full_all t)
  | TINone => match tv_none_get t with Some l => [(TVNone, map tup l)] | None => [] end
  | TI0 => map (fun e => (TV0 (fst e), map (fun p => (fst e, p)) (snd e))) (tv_ind0_all t)
  | TI01 => map (fun e => (TV01 (fst (fst e)) (snd (fst e)), map (fun y => (fst (fst e), (snd (fst e), y))) (snd e))) (tv_ind01_all t)
  | TI02 => map (fun e => (TV02 (fst (fst e)) (snd (fst e)), map (fun x => (fst (fst e), (x, snd (fst e)))) (snd e))) (tv_ind01_all t)
  | TI1 => match tv_ind1_all t with
           | Ok l => map (fun e => (TV1 (fst e), map (fun ky => (fst ky, (fst e, snd ky))) (snd e))) l
           | Panic => [] end
  | TI2 => match tv_ind1_all t with
           | Ok l => map (fun e => (TV2 (fst e), map (fun kx => (fst kx, (snd kx, fst e))) (snd e))) l
           | Panic => [] end
  | TI12 => map (fun e => (TV12 (fst (fst e)) (snd (fst e)), map (fun k => (k, fst e)) (snd e))) (tv_ind12_all t)
  end.
Definition tins (s : tstate) (t : T3z) : tstate * bool :=
  let r := t_insert (ts_new s) (fst t) (fst (snd t)) (snd (snd t)) in (mkTS (fst r) (ts_delta s) (ts_total s), snd r).

(* generated code: one merge of the common structure per iteration (the index write views are no-ops) *)
Definition eqrel_ternary : provider T3z :=
  {| St := tstate; p_init := t_init; p_ins := tins; p_merge := t_merge_protocol; p_restart := t_restart;
     p_read := fun s v => map tup (t_iter_all_added (tver s v));
     p_contains := fun s v t => t_contains (tver s v) (fst t) (fst (snd t)) (snd (snd t));
     View := tview; Ix := tix; p_get := tget; p_all := tall; v_sel := tsel; v_ix := tix_of |}.

(* ------------------------------------------------------------------ invariant: every key is the binary provider *)
Definition ksb (s : tstate) (k : Z) : bstate :=
  mkB (gd k (t_map (ts_new s))) (gd k (t_map (ts_delta s))) (gd k (t_map (ts_total s))).
Definition ment3 (k : Z) (g : list T3z) (x : Z) : Prop := In x (mentioned (proj T2 k g)).

Record tinv (h : list (pop T3z)) (s : tstate) : Prop := {
  ti_nn : NoDup (keys (t_map (ts_new s)));
  ti_nd : NoDup (keys (t_map (ts_delta s)));
  ti_nt : NoDup (keys (t_map (ts_total s)));
  ti_sim : forall k, ksb s k = run T2 eqrel_binary (hproj T2 k h);
  ti_sub : forall k, In k (keys (t_map (ts_total s))) -> In k (keys (t_map (ts_delta s)));
  ti_rn : forall k x, ment3 k (g_new T3z (ghost_of T3z h)) x -> In k (rlook x (t_rev (ts_new s)));
  ti_rd : forall k x, ment3 k (g_td T3z (ghost_of T3z h)) x -> In k (rlook x (t_rev (ts_delta s)));
  ti_rt : forall k x, ment3 k (g_t T3z (ghost_of T3z h)) x -> In k (rlook x (t_rev (ts_total s)));
  ti_gn : rgood (t_rev (ts_new s)) (fun k => In k (keys (t_map (ts_new s))));
  ti_gd : rgood (t_rev (ts_delta s)) (fun k => In k (keys (t_map (ts_delta s))));
  ti_gt : rgood (t_rev (ts_total s)) (fun k => In k (keys (t_map (ts_total s)))) }.

Lemma mentioned_app l1 l2 x : In x (mentioned (l1 ++ l2)) <-> In x (mentioned l1) \/ In x (mentioned l2).
Proof.
  rewrite !mentioned_spec. split.
  - intros [y [H|H]]; apply in_app_iff in H; destruct H as [H|H]; [left|right|left|right]; exists y; auto.
  - intros [[y [H|H]]|[y [H|H]]]; exists y; [left|right|left|right]; apply in_or_app; auto.
Qed.
Lemma mentioned_one x y z : In z (mentioned [(x, y)]) <-> z = x \/ z = y.
Proof.
  rewrite mentioned_spec. cbn [In]. split.
  - intros [w [[E|[]]|[E|[]]]]; injection E as -> ->; auto.
  - intros [->| ->]; [exists y; left; left; reflexivity|exists x; right; left; reflexivity].
Qed.

Lemma t_insert_char t k x y :
  fst (t_insert t k x y) = mkT (zset k (fst (c_insert (gd k (t_map t)) x y)) (t_map t)) (rev_ins y k (rev_ins x k (t_rev t)))
  /\ snd (t_insert t k x y) = snd (c_insert (gd k (t_map t)) x y).
Proof.
  unfold t_insert, gd, get_or_default. destruct (zget k (t_map t)) as [c|].
  - destruct (c_insert c x y) as [c' b]. split; reflexivity.
  - split; reflexivity.
Qed.

Lemma b_merge_init : b_merge b_init = b_init.
Proof. reflexivity. Qed.
Lemma b_eta b : mkB (b_new b) (b_delta b) (b_total b) = b.
Proof. destruct b; reflexivity. Qed.

Lemma run3_snoc' (h : list (pop T3z)) o : run T3z eqrel_ternary (h ++ [o]) = step T3z eqrel_ternary (run T3z eqrel_ternary h) o.
Proof. unfold run. rewrite fold_left_app. reflexivity. Qed.
Lemma ghost3_snoc' (h : list (pop T3z)) o : ghost_of T3z (h ++ [o]) = ghost_step T3z (ghost_of T3z h) o.
Proof. unfold ghost_of. rewrite fold_left_app. reflexivity. Qed.
Lemma hproj_snoc k (h : list (pop T3z)) o : hproj T2 k (h ++ [o]) = hproj T2 k h ++ hproj1 T2 k o.
Proof. rewrite hproj_app. unfold hproj at 2. cbn [flat_map]. rewrite app_nil_r. reflexivity. Qed.

Lemma tinv_run h : tinv h (run T3z eqrel_ternary h).
Proof.
  induction h as [|o h IH] using rev_ind.
  - constructor; cbn; try constructor; try (intros; contradiction).
    all: try (intros k; reflexivity); try (intros k x H; exact H).
  - rewrite run3_snoc'. destruct IH as [Inn Ind Int Isim Isub Irn Ird Irt Ign Igd Igt].
    set (s := run T3z eqrel_ternary h) in *.
    destruct o as [[k [x y]]| |]; cbn [step p_ins p_merge p_restart eqrel_ternary fst snd].
    + (* insert *)
      unfold tins. cbn [fst snd]. destruct (t_insert_char (ts_new s) k x y) as [E1 _]. rewrite E1.
      constructor; cbn [ts_new ts_delta ts_total t_map t_rev]; try assumption.
      * apply nodup_zset. exact Inn.
      * intros j. rewrite hproj_snoc. cbn [hproj1 fst snd]. unfold ksb. cbn [ts_new ts_delta ts_total t_map].
        rewrite gd_zset. rewrite Z.eqb_sym. destruct (Z.eqb_spec k j) as [->|Hne].
        -- rewrite run_snoc'. cbn [step p_ins eqrel_binary fst snd]. rewrite <- Isim. unfold b_insert, ksb. cbn [b_new b_delta b_total].
           destruct (c_insert (gd j (t_map (ts_new s))) x y) as [c' b]. reflexivity.
        -- rewrite app_nil_r. apply Isim.
      * intros j z. unfold ment3. rewrite ghost3_snoc'. cbn [ghost_step g_new]. rewrite proj_snoc.
        rewrite !rev_ins_look. destruct (Z.eqb_spec k j) as [->|Hne].
        -- rewrite mentioned_app, mentioned_one. intros [H|[->| ->]]; [right; right; apply Irn; exact H|right; left; split; reflexivity|left; split; reflexivity].
        -- rewrite app_nil_r. intros H. right. right. apply Irn. exact H.
      * intros j z. rewrite ghost3_snoc'. cbn [ghost_step g_td]. apply Ird.
      * intros j z. rewrite ghost3_snoc'. cbn [ghost_step g_t]. apply Irt.
      * apply rev_ins_good; [apply rev_ins_good|]; try (apply keys_zset; left; reflexivity).
        eapply rgood_weaken; [|exact Ign]. intros j Hj. apply keys_zset. right. exact Hj.
    + (* merge *)
      unfold t_merge_protocol, t_merge.
      set (ks := t_merge_keys_of (t_map (ts_new s)) (t_map (ts_delta s))).
      set (st0 := mkM (t_map (ts_new s)) (t_map (ts_delta s)) (t_map (ts_total s))).
      assert (Hks : NoDup ks) by (apply merge_keys_nodup; assumption).
      pose proof (step_keys_char ks st0 Hks) as Hchar.
      destruct (step_keys_nodup ks st0 Ind Int) as [Hnd' Hnt'].
      assert (Hin_ks : forall j, In j ks <-> In j (keys (t_map (ts_delta s))) \/ In j (keys (t_map (ts_new s)))) by (intros j; apply merge_keys_in).
      assert (Hkd : forall j, In j (keys (m_d (fold_left t_step_key ks st0))) <-> In j ks \/ In j (keys (t_map (ts_delta s)))).
      { intros j. rewrite in_keys_some. destruct (in_dec Z.eq_dec j ks) as [Hi|Hn].
        - destruct (proj1 (Hchar j) Hi) as [_ [E _]]. rewrite E. split; [intros _; left; exact Hi|intros _; eexists; reflexivity].
        - destruct (proj2 (Hchar j) Hn) as [_ [E _]]. rewrite E. cbn [st0 m_d]. rewrite <- in_keys_some. tauto. }
      assert (Hkt : forall j, In j (keys (m_t (fold_left t_step_key ks st0))) <-> In j ks \/ In j (keys (t_map (ts_total s)))).
      { intros j. rewrite in_keys_some. destruct (in_dec Z.eq_dec j ks) as [Hi|Hn].
        - destruct (proj1 (Hchar j) Hi) as [_ [_ E]]. rewrite E. split; [intros _; left; exact Hi|intros _; eexists; reflexivity].
        - destruct (proj2 (Hchar j) Hn) as [_ [_ E]]. rewrite E. cbn [st0 m_t]. rewrite <- in_keys_some. tauto. }
      constructor; cbn [ts_new ts_delta ts_total t_map t_rev]; try assumption.
      * constructor.
      * (* every key is merged by the binary merge *)
        intros j. rewrite hproj_snoc. cbn [hproj1]. rewrite run_snoc'. cbn [step p_merge eqrel_binary]. rewrite <- Isim.
        unfold ksb at 1. cbn [ts_new ts_delta ts_total t_map]. destruct (in_dec Z.eq_dec j ks) as [Hi|Hn].
        -- destruct (proj1 (Hchar j) Hi) as [_ [E2 E3]]. rewrite (gd_some _ _ _ E2), (gd_some _ _ _ E3).
           change (bof st0 j) with (ksb s j).
           assert (Hnew : b_new (b_merge (ksb s j)) = c_empty).
           { unfold b_merge. cbn [b_new]. rewrite Isim. rewrite (bi_nold _ _ (inv (hproj T2 j h))). reflexivity. }
           change (gd j []) with c_empty. rewrite <- Hnew. apply b_eta.
        -- destruct (proj2 (Hchar j) Hn) as [_ [E2 E3]]. cbn [st0 m_d m_t] in E2, E3.
           assert (Hd0 : zget j (t_map (ts_delta s)) = None) by (apply zget_none_keys; intros H; apply Hn, Hin_ks; left; exact H).
           assert (Hn0 : zget j (t_map (ts_new s)) = None) by (apply zget_none_keys; intros H; apply Hn, Hin_ks; right; exact H).
           assert (Ht0 : zget j (t_map (ts_total s)) = None) by (apply zget_none_keys; intros H; apply Hn, Hin_ks; left; apply Isub; exact H).
           unfold ksb. rewrite (gd_none _ _ Hd0), (gd_none _ _ Hn0), (gd_none _ _ Ht0).
           unfold gd, get_or_default. rewrite E2, E3, Hd0, Ht0. reflexivity.
      * intros j Hj. apply Hkd. apply Hkt in Hj. destruct Hj as [Hj|Hj]; [left; exact Hj|right; apply Isub; exact Hj].
      * intros j z. rewrite ghost3_snoc'. cbn [ghost_step g_new]. unfold ment3. cbn. intros [].
      * intros j z. rewrite ghost3_snoc'. cbn [ghost_step g_td]. unfold ment3. rewrite proj_app, mentioned_app.
        intros [H|H]; apply rev_move_mono; [right; apply rev_move_mono; left; apply Ird; exact H|left; apply Irn; exact H].
      * intros j z. rewrite ghost3_snoc'. cbn [ghost_step g_t]. intros H. apply rev_move_mono. left. apply Ird. exact H.
      * intros z l [].
      * apply rev_move_good; [|apply rev_move_good].
        -- eapply rgood_weaken; [|exact Ign]. intros j Hj. apply Hkd. left. apply Hin_ks. right. exact Hj.
        -- eapply rgood_weaken; [|exact Igd]. intros j Hj. apply Hkd. right. exact Hj.
        -- eapply rgood_weaken; [|exact Igt]. intros j Hj. apply Hkd. right. apply Isub. exact Hj.
      * apply rev_move_good.
        -- eapply rgood_weaken; [|exact Igd]. intros j Hj. apply Hkt. left. apply Hin_ks. left. exact Hj.
        -- eapply rgood_weaken; [|exact Igt]. intros j Hj. apply Hkt. right. exact Hj.
    + (* stratum boundary *)
      unfold t_restart. constructor; cbn [ts_new ts_delta ts_total t_map t_rev t_empty]; try assumption.
      * constructor.
      * constructor.
      * intros j. rewrite hproj_snoc. cbn [hproj1]. rewrite run_snoc'. cbn [step p_restart eqrel_binary]. rewrite <- Isim. reflexivity.
      * intros j [].
      * intros j z. rewrite ghost3_snoc'. cbn [ghost_step g_new]. unfold ment3. cbn. intros [].
      * intros j z. rewrite ghost3_snoc'. cbn [ghost_step g_td]. apply Irt.
      * intros j z. rewrite ghost3_snoc'. cbn [ghost_step g_t]. unfold ment3. cbn. intros [].
      * intros z l [].
      * intros z l [].
Qed.

(* ------------------------------------------------------------------ what the views return *)
Lemma seq_res_map_ok {A B} (f : A -> res B) (g : A -> B) l : (forall a, In a l -> f a = Ok (g a)) -> seq_res (map f l) = Ok (map g l).
Proof.
  induction l as [|a l IH]; intros H; cbn [map seq_res]; [reflexivity|].
  rewrite (H a (or_introl eq_refl)). cbn [bind]. rewrite IH; [reflexivity|]. intros b Hb. apply H. right. exact Hb.
Qed.
Lemma concat_filter_single {A} (p : A -> bool) l : concat (map (fun k => if p k then [k] else []) l) = filter p l.
Proof. induction l as [|a l IH]; cbn [map concat filter]; [reflexivity|]. rewrite IH. destruct (p a); reflexivity. Qed.
Lemma added_empty x y : ~ added c_empty x y.
Proof. intros [H _]. exact (erel_empty x y H). Qed.
Lemma in_map_tup L k x y : In (k, (x, y)) (map tup L) <-> In (k, x, y) L.
Proof.
  rewrite in_map_iff. split.
  - intros [[[k' x'] y'] [E H]]. unfold tup in E. cbn [fst snd] in E. injection E as -> -> ->. exact H.
  - intros H. exists (k, x, y). split; [reflexivity|exact H].
Qed.

Section AtState3.
Variable h : list (pop T3z).
Let s := run T3z eqrel_ternary h.
Let I : tinv h s := tinv_run h.

Definition cof (v : ver) (k : Z) : eqc := gd k (t_map (tver s v)).
Definition A (v : ver) (k x y : Z) : Prop := added (cof v k) x y.
Definition rl (v : ver) (x : Z) : list Z := rlook x (t_rev (tver s v)).
Definition sa (v : ver) (k x : Z) : list Z := match c_set_of_added (cof v k) x with Some l => l | None => [] end.

Lemma cof_ver v k : cof v k = ver_of (run T2 eqrel_binary (hproj T2 k h)) v.
Proof. unfold cof. rewrite <- (ti_sim h s I k). destruct v; reflexivity. Qed.
Lemma cof_cwf v k : cwf (cof v k).
Proof. rewrite cof_ver. apply ver_cwf. Qed.
Lemma A_vrel v k x y : A v k x y <-> vrel (hproj T2 k h) v x y.
Proof. unfold A. rewrite cof_ver. apply added_vrel. Qed.
Lemma A_sym v k x y : A v k x y -> A v k y x.
Proof. apply added_sym. apply cof_cwf. Qed.
Lemma map_nodup v : NoDup (keys (t_map (tver s v))).
Proof. destruct v; [exact (ti_nt h s I)|exact (ti_nd h s I)]. Qed.
Lemma binding_cof v k c : In (k, c) (t_map (tver s v)) -> c = cof v k.
Proof. intros H. unfold cof. symmetry. apply gd_some. apply nodup_in_zget; [apply map_nodup|exact H]. Qed.
Lemma A_binding v k x y : A v k x y -> In (k, cof v k) (t_map (tver s v)).
Proof.
  intros H. unfold A, cof in *. destruct (zget k (t_map (tver s v))) as [c|] eqn:E.
  - rewrite (gd_some _ _ _ E). apply zget_some_in. exact E.
  - rewrite (gd_none _ _ E) in H. destruct (added_empty x y H).
Qed.

Lemma iter3 v k x y : In (k, x, y) (t_iter_all_added (tver s v)) <-> A v k x y.
Proof.
  unfold t_iter_all_added. rewrite in_flat_map. split.
  - intros [[k' c] [Hb Hin]]. apply in_map_iff in Hin. destruct Hin as [[x' y'] [E Hin]]. cbn [fst snd] in E. injection E as -> -> ->.
    rewrite (binding_cof v k c Hb) in Hin. apply (c_iter_all_added_spec _ x y (cof_cwf v k)). exact Hin.
  - intros H. exists (k, cof v k). split; [eapply A_binding; exact H|]. apply in_map_iff. exists (x, y). split; [reflexivity|].
    apply (c_iter_all_added_spec _ x y (cof_cwf v k)). exact H.
Qed.
Lemma read3 v k x y : In (k, (x, y)) (p_read T3z eqrel_ternary s v) <-> A v k x y.
Proof. cbn [p_read eqrel_ternary]. rewrite in_map_tup. apply iter3. Qed.
Lemma iter3_nodup v : NoDup (t_iter_all_added (tver s v)).
Proof.
  unfold t_iter_all_added. apply NoDup_flat_map_disjoint.
  - intros [k c] Hb. cbn [fst snd]. apply NoDup_map_inj; [intros [a b] [a' b'] E; injection E as -> ->; reflexivity|].
    rewrite (binding_cof v k c Hb). apply c_iter_all_added_nodup. apply cof_cwf.
  - apply nodup_keys_nodup. apply map_nodup.
  - intros [k c] [k' c'] [[j x] y] Hb Hb' H1 H2. cbn [fst snd] in *.
    apply in_map_iff in H1. destruct H1 as [p [E1 _]]. apply in_map_iff in H2. destruct H2 as [p' [E2 _]].
    injection E1 as -> _ _. injection E2 as -> _ _. rewrite (binding_cof v _ c Hb), (binding_cof v _ c' Hb'). reflexivity.
Qed.

(* the real structure serves exactly what the lifted provider serves *)
Lemma read3_lift v t : In t (p_read T3z eqrel_ternary s v) <-> In t (p_read T3z eqrel_ternary_lifted (run T3z eqrel_ternary_lifted h) v).
Proof.
  destruct t as [k [x y]]. rewrite read3. unfold A. rewrite <- (c_iter_all_added_spec _ x y (cof_cwf v k)), cof_ver.
  cbn [p_read eqrel_ternary_lifted lift]. rewrite (l_read_in T2 eqrel_binary eqv eqv_closure_op eqrel_binary_provider_ok h v k (x, y)).
  rewrite l_of_run. reflexivity.
Qed.
Lemma served3_lift t : In t (served T3z eqrel_ternary s) <-> In t (served T3z eqrel_ternary_lifted (run T3z eqrel_ternary_lifted h)).
Proof. unfold served. rewrite !in_app_iff, !read3_lift. reflexivity. Qed.
Lemma A_served v k x y : A v k x y -> In (k, (x, y)) (served T3z eqrel_ternary s).
Proof. intros H. unfold served. apply in_or_app. destruct v; [left|right]; apply read3; exact H. Qed.

Lemma contains3 v k x y : t_contains (tver s v) k x y = true <-> A v k x y.
Proof.
  unfold t_contains, A, cof. destruct (zget k (t_map (tver s v))) as [c|] eqn:E.
  - rewrite (gd_some _ _ _ E). apply c_added_contains_spec. rewrite <- (gd_some _ _ _ E). apply cof_cwf.
  - rewrite (gd_none _ _ E). split; [discriminate|]. intros H. destruct (added_empty x y H).
Qed.

Lemma sa_spec v k x : NoDup (sa v k x) /\ forall y, In y (sa v k x) <-> A v k x y.
Proof.
  unfold sa, A. pose proof (c_set_of_added_spec (cof v k) x (cof_cwf v k)) as H.
  destruct (c_set_of_added (cof v k) x) as [l|]; [exact H|]. split; [constructor|].
  intros y. split; [intros []|]. intros [Hc _]. exact (H y Hc).
Qed.

(* reverse map: complete, every registered key has its structure, the sets are duplicate free *)
Lemma A_reg v k x y : A v k x y -> In k (rl v x).
Proof.
  intros H. apply A_vrel in H. unfold rl.
  assert (Hm : forall g, eqv_rel g x y -> In x (mentioned g)) by (intros g Hg; apply (eqv_rel_mentioned g x y Hg)).
  destruct (ghost_proj T2 h k) as [E1 [E2 _]]. destruct v; cbn [vrel tver] in *.
  - apply (ti_rt h s I). unfold ment3, T3z. rewrite E1. apply Hm. exact H.
  - apply (ti_rd h s I). unfold ment3, T3z. rewrite E2. apply Hm. apply H.
Qed.
Lemma rl_good v x : NoDup (rl v x) /\ forall k, In k (rl v x) -> exists c, zget k (t_map (tver s v)) = Some c /\ c = cof v k.
Proof.
  unfold rl, rlook. destruct (zget x (t_rev (tver s v))) as [l|] eqn:E; [|split; [constructor|intros k []]].
  apply zget_some_in in E.
  assert (G : rgood (t_rev (tver s v)) (fun k => In k (keys (t_map (tver s v))))) by (destruct v; [exact (ti_gt h s I)|exact (ti_gd h s I)]).
  destruct (G x l E) as [Hn Hp]. split; [exact Hn|]. intros k Hk. apply Hp in Hk. apply in_keys_some in Hk. destruct Hk as [c Hc].
  exists c. split; [exact Hc|]. unfold cof. symmetry. apply gd_some. exact Hc.
Qed.

Definition row1 (v : ver) (x : Z) : list (Z * Z) := flat_map (fun k => map (pair k) (sa v k x)) (rl v x).
Lemma row1_in v x k y : In (k, y) (row1 v x) <-> A v k x y.
Proof.
  unfold row1. rewrite in_flat_map. split.
  - intros [k' [Hk H]]. apply in_map_iff in H. destruct H as [y' [E Hy]]. injection E as -> ->. apply (sa_spec v k x). exact Hy.
  - intros H. exists k. split; [eapply A_reg; exact H|]. apply in_map. apply (sa_spec v k x). exact H.
Qed.
Lemma row1_nodup v x : NoDup (row1 v x).
Proof.
  unfold row1. apply NoDup_flat_map_disjoint.
  - intros k _. apply NoDup_map_inj; [intros a b E; injection E as ->; reflexivity|apply sa_spec].
  - apply rl_good.
  - intros k k' [j y] _ _ H1 H2. apply in_map_iff in H1. apply in_map_iff in H2. destruct H1 as [a [E1 _]]. destruct H2 as [b [E2 _]].
    injection E1 as -> _. injection E2 as -> _. reflexivity.
Qed.

Lemma ind1_get_char v x : tv_ind1_get (tver s v) x = option_map (fun _ => Ok (row1 v x)) (zget x (t_rev (tver s v))).
Proof.
  unfold tv_ind1_get. destruct (zget x (t_rev (tver s v))) as [ks|] eqn:E; cbn [option_map]; [|reflexivity].
  assert (Hks : ks = rl v x) by (unfold rl, rlook; rewrite E; reflexivity).
  rewrite (seq_res_map_ok _ (fun k => map (pair k) (sa v k x)) ks).
  - cbn [bind]. unfold row1. rewrite <- Hks, flat_map_concat_map. reflexivity.
  - intros k Hk. rewrite Hks in Hk. destruct (proj2 (rl_good v x) k Hk) as [c [Hc ->]]. rewrite Hc. reflexivity.
Qed.
Lemma ind1_all_char v : tv_ind1_all (tver s v) = Ok (map (fun xk => (fst xk, row1 v (fst xk))) (t_rev (tver s v))).
Proof.
  unfold tv_ind1_all. apply seq_res_map_ok. intros [x l] Hb. cbn [fst]. rewrite ind1_get_char.
  destruct (zget x (t_rev (tver s v))) as [l0|] eqn:E; [reflexivity|]. apply zget_none_keys in E. exfalso. apply E.
  apply in_map_iff. exists (x, l). split; [reflexivity|exact Hb].
Qed.
Lemma ind12_get_char v x y : tv_ind12_get (tver s v) x y
  = option_map (fun _ => Ok (filter (fun k => c_added_contains (cof v k) x y) (rl v x))) (zget x (t_rev (tver s v))).
Proof.
  unfold tv_ind12_get. destruct (zget x (t_rev (tver s v))) as [ks|] eqn:E; cbn [option_map]; [|reflexivity].
  assert (Hks : ks = rl v x) by (unfold rl, rlook; rewrite E; reflexivity).
  rewrite (seq_res_map_ok _ (fun k => if c_added_contains (cof v k) x y then [k] else []) ks).
  - cbn [bind]. rewrite concat_filter_single, Hks. reflexivity.
  - intros k Hk. rewrite Hks in Hk. destruct (proj2 (rl_good v x) k Hk) as [c [Hc ->]]. rewrite Hc. reflexivity.
Qed.
Lemma rl_some v x k : In k (rl v x) -> exists l, zget x (t_rev (tver s v)) = Some l.
Proof. unfold rl, rlook. destruct (zget x (t_rev (tver s v))) as [l|]; [intros _; exists l; reflexivity|intros []]. Qed.
End AtState3.

(* ------------------------------------------------------------------ the laws *)
Notation RUN h := (run T3z eqrel_ternary h).
Notation READ h v := (p_read T3z eqrel_ternary (run T3z eqrel_ternary h) v).

Ltac sel_eqs H := cbn [tsel fst snd] in H; repeat rewrite andb_true_iff in H; repeat rewrite Z.eqb_eq in H.

Lemma ind01_char h v k x : tv_ind01_get (tver (RUN h) v) k x = c_set_of_added (cof h v k) x.
Proof.
  unfold tv_ind01_get, cof. destruct (zget k (t_map (tver (RUN h) v))) as [c|] eqn:E.
  - rewrite (gd_some _ _ _ E). reflexivity.
  - rewrite (gd_none _ _ E). reflexivity.
Qed.
Lemma tup_inj a b : tup a = tup b -> a = b.
Proof. destruct a as [[k x] y], b as [[k' x'] y']. unfold tup. cbn [fst snd]. intros E. injection E as -> -> ->. reflexivity. Qed.

Lemma tget_char h v vk :
  match tget (RUN h) v vk with
  | Some l => NoDup l /\ forall t, In t l <-> (tsel vk t = true /\ In t (READ h v))
  | None => forall t, tsel vk t = true -> ~ In t (READ h v)
  end.
Proof.
  destruct vk as [k x y| |k|k x|k y|x|y|x y]; cbn [tget].
  - unfold tv_full_get. destruct (t_contains (tver (RUN h) v) k x y) eqn:E; cbn [option_map map].
    + split; [constructor; [intros []|constructor]|]. intros [k' [x' y']]. cbn [In]. split.
      * intros [E'|[]]. injection E' as <- <- <-. cbn [tsel fst snd]. rewrite !Z.eqb_refl. split; [reflexivity|].
        apply read3, contains3. exact E.
      * intros [Hs _]. sel_eqs Hs. destruct Hs as [[-> ->] ->]. left. reflexivity.
    + intros [k' [x' y']] Hs Hin. sel_eqs Hs. destruct Hs as [[-> ->] ->]. apply read3, contains3 in Hin. congruence.
  - unfold tv_none_get. cbn [option_map]. split.
    + apply NoDup_map_inj; [exact tup_inj|apply iter3_nodup].
    + intros t. cbn [tsel p_read eqrel_ternary]. tauto.
  - unfold tv_ind0_get. destruct (zget k (t_map (tver (RUN h) v))) as [c|] eqn:E; cbn [option_map].
    + assert (Hc : c = cof h v k) by (unfold cof; rewrite (gd_some _ _ _ E); reflexivity). subst c. split.
      * apply NoDup_map_inj; [intros a b E'; injection E' as ->; reflexivity|apply c_iter_all_added_nodup, cof_cwf].
      * intros [k' [x y]]. rewrite in_map_iff. split.
        -- intros [[x' y'] [E' Hin]]. injection E' as <- <- <-. cbn [tsel fst]. rewrite Z.eqb_refl. split; [reflexivity|].
           apply read3. apply (c_iter_all_added_spec _ x' y' (cof_cwf h v k)). exact Hin.
        -- intros [Hs Hin]. sel_eqs Hs. subst k'. exists (x, y). split; [reflexivity|].
           apply (c_iter_all_added_spec _ x y (cof_cwf h v k)). apply read3 in Hin. exact Hin.
    + intros [k' [x y]] Hs Hin. sel_eqs Hs. subst k'. apply read3 in Hin. unfold A, cof in Hin. rewrite (gd_none _ _ E) in Hin.
      exact (added_empty x y Hin).
  - rewrite ind01_char. pose proof (c_set_of_added_spec (cof h v k) x (cof_cwf h v k)) as Hs.
    destruct (c_set_of_added (cof h v k) x) as [l|]; cbn [option_map].
    + destruct Hs as [Hn Hl]. split; [apply NoDup_map_inj; [intros a b E'; injection E' as ->; reflexivity|exact Hn]|].
      intros [k' [x' y]]. rewrite in_map_iff. split.
      * intros [y' [E' Hin]]. injection E' as <- <- <-. cbn [tsel fst snd]. rewrite !Z.eqb_refl. split; [reflexivity|]. apply read3, Hl. exact Hin.
      * intros [Hsel Hin]. sel_eqs Hsel. destruct Hsel as [-> ->]. exists y. split; [reflexivity|]. apply Hl. apply read3 in Hin. exact Hin.
    + intros [k' [x' y]] Hsel Hin. sel_eqs Hsel. destruct Hsel as [-> ->]. apply read3 in Hin. destruct Hin as [Hc _]. exact (Hs y Hc).
  - rewrite ind01_char. pose proof (c_set_of_added_spec (cof h v k) y (cof_cwf h v k)) as Hs.
    destruct (c_set_of_added (cof h v k) y) as [l|]; cbn [option_map].
    + destruct Hs as [Hn Hl]. split; [apply NoDup_map_inj; [intros a b E'; injection E' as ->; reflexivity|exact Hn]|].
      intros [k' [x y']]. rewrite in_map_iff. split.
      * intros [x' [E' Hin]]. injection E' as <- <- <-. cbn [tsel fst snd]. rewrite !Z.eqb_refl. split; [reflexivity|].
        apply read3, A_sym. apply Hl. exact Hin.
      * intros [Hsel Hin]. sel_eqs Hsel. destruct Hsel as [-> ->]. exists x. split; [reflexivity|]. apply Hl. apply read3, A_sym in Hin. exact Hin.
    + intros [k' [x y']] Hsel Hin. sel_eqs Hsel. destruct Hsel as [-> ->]. apply read3, A_sym in Hin. destruct Hin as [Hc _]. exact (Hs x Hc).
  - rewrite ind1_get_char. destruct (zget x (t_rev (tver (RUN h) v))) as [l0|] eqn:E; cbn [option_map].
    + split; [apply NoDup_map_inj; [intros [a b] [a' b'] E'; cbn [fst snd] in E'; injection E' as -> ->; reflexivity|apply row1_nodup]|].
      intros [k [x' y]]. rewrite in_map_iff. split.
      * intros [[k' y'] [E' Hin]]. cbn [fst snd] in E'. injection E' as <- <- <-. cbn [tsel fst snd]. rewrite Z.eqb_refl. split; [reflexivity|].
        apply read3. apply row1_in. exact Hin.
      * intros [Hsel Hin]. sel_eqs Hsel. subst x'. exists (k, y). split; [reflexivity|]. apply row1_in. apply read3 in Hin. exact Hin.
    + intros [k [x' y]] Hsel Hin. sel_eqs Hsel. subst x'. apply read3, A_reg, rl_some in Hin. destruct Hin as [l Hl]. congruence.
  - rewrite ind1_get_char. destruct (zget y (t_rev (tver (RUN h) v))) as [l0|] eqn:E; cbn [option_map].
    + split; [apply NoDup_map_inj; [intros [a b] [a' b'] E'; cbn [fst snd] in E'; injection E' as -> ->; reflexivity|apply row1_nodup]|].
      intros [k [x y']]. rewrite in_map_iff. split.
      * intros [[k' x'] [E' Hin]]. cbn [fst snd] in E'. injection E' as <- <- <-. cbn [tsel fst snd]. rewrite Z.eqb_refl. split; [reflexivity|].
        apply read3, A_sym. apply row1_in. exact Hin.
      * intros [Hsel Hin]. sel_eqs Hsel. subst y'. exists (k, x). split; [reflexivity|]. apply row1_in. apply read3, A_sym in Hin. exact Hin.
    + intros [k [x y']] Hsel Hin. sel_eqs Hsel. subst y'. apply read3, A_sym, A_reg, rl_some in Hin. destruct Hin as [l Hl]. congruence.
  - rewrite ind12_get_char. destruct (zget x (t_rev (tver (RUN h) v))) as [l0|] eqn:E; cbn [option_map].
    + split; [apply NoDup_map_inj; [intros a b E'; injection E' as ->; reflexivity|apply NoDup_filter, rl_good]|].
      intros [k [x' y']]. rewrite in_map_iff. split.
      * intros [k' [E' Hin]]. injection E' as <- <- <-. cbn [tsel fst snd]. rewrite !Z.eqb_refl. split; [reflexivity|].
        apply filter_In in Hin. destruct Hin as [_ Hc]. apply read3. apply (c_added_contains_spec _ x y (cof_cwf h v k')). exact Hc.
      * intros [Hsel Hin]. sel_eqs Hsel. destruct Hsel as [-> ->]. exists k. split; [reflexivity|]. apply read3 in Hin.
        apply filter_In. split; [eapply A_reg; exact Hin|]. apply (c_added_contains_spec _ x y (cof_cwf h v k)). exact Hin.
    + intros [k [x' y']] Hsel Hin. sel_eqs Hsel. destruct Hsel as [-> ->]. apply read3, A_reg, rl_some in Hin. destruct Hin as [l Hl]. congruence.
Qed.

Lemma tall_sound h v ix vk l t : In (vk, l) (tall (RUN h) v ix) -> In t l -> tix_of vk = ix /\ tsel vk t = true /\ In t (READ h v).
Proof.
  destruct ix; cbn [tall]; intros He Hin.
  - apply in_map_iff in He. destruct He as [[[[k x] y] us] [E He]]. cbn [fst snd] in E. injection E as <- <-.
    unfold tv_full_all in He. apply in_map_iff in He. destruct He as [p [E Hp]]. injection E as E1 E2. subst p us.
    cbn [map] in Hin. destruct Hin as [<-|[]]. split; [reflexivity|]. unfold tup. cbn [tsel fst snd]. rewrite !Z.eqb_refl.
    split; [reflexivity|]. apply read3, iter3. exact Hp.
  - unfold tv_none_get in He. destruct He as [E|[]]. injection E as <- <-. split; [reflexivity|]. split; [reflexivity|exact Hin].
  - apply in_map_iff in He. destruct He as [[k l0] [E He]]. cbn [fst snd] in E. injection E as <- <-.
    unfold tv_ind0_all in He. apply in_map_iff in He. destruct He as [[k' c] [E Hb]]. cbn [fst snd] in E. injection E as -> <-.
    apply in_map_iff in Hin. destruct Hin as [[x y] [<- Hin]]. split; [reflexivity|]. cbn [tsel fst]. rewrite Z.eqb_refl. split; [reflexivity|].
    apply read3. rewrite (binding_cof h v k c Hb) in Hin. apply (c_iter_all_added_spec _ x y (cof_cwf h v k)). exact Hin.
  - apply in_map_iff in He. destruct He as [[[k x] l0] [E He]]. cbn [fst snd] in E. injection E as <- <-.
    unfold tv_ind01_all in He. apply in_flat_map in He. destruct He as [[k' c] [Hb He]]. apply in_map_iff in He.
    destruct He as [[x' y'] [E Hp]]. cbn [fst snd] in E. injection E as -> -> <-. cbn [map] in Hin. destruct Hin as [<-|[]].
    split; [reflexivity|]. cbn [tsel fst snd]. rewrite !Z.eqb_refl. split; [reflexivity|].
    apply read3. rewrite (binding_cof h v k c Hb) in Hp. apply (c_iter_all_added_spec _ x y' (cof_cwf h v k)). exact Hp.
  - apply in_map_iff in He. destruct He as [[[k a] l0] [E He]]. cbn [fst snd] in E. injection E as <- <-.
    unfold tv_ind01_all in He. apply in_flat_map in He. destruct He as [[k' c] [Hb He]]. apply in_map_iff in He.
    destruct He as [[a' b'] [E Hp]]. cbn [fst snd] in E. injection E as -> -> <-. cbn [map] in Hin. destruct Hin as [<-|[]].
    split; [reflexivity|]. cbn [tsel fst snd]. rewrite !Z.eqb_refl. split; [reflexivity|].
    apply read3, A_sym. rewrite (binding_cof h v k c Hb) in Hp. apply (c_iter_all_added_spec _ a b' (cof_cwf h v k)). exact Hp.
  - rewrite ind1_all_char in He. apply in_map_iff in He. destruct He as [[x r] [E He]]. cbn [fst snd] in E. injection E as <- <-.
    apply in_map_iff in He. destruct He as [[x' l0] [E _]]. cbn [fst] in E. injection E as -> <-.
    apply in_map_iff in Hin. destruct Hin as [[k y] [<- Hin]]. cbn [fst snd]. split; [reflexivity|]. cbn [tsel fst snd]. rewrite Z.eqb_refl.
    split; [reflexivity|]. apply read3, row1_in. exact Hin.
  - rewrite ind1_all_char in He. apply in_map_iff in He. destruct He as [[y r] [E He]]. cbn [fst snd] in E. injection E as <- <-.
    apply in_map_iff in He. destruct He as [[y' l0] [E _]]. cbn [fst] in E. injection E as -> <-.
    apply in_map_iff in Hin. destruct Hin as [[k x] [<- Hin]]. cbn [fst snd]. split; [reflexivity|]. cbn [tsel fst snd]. rewrite Z.eqb_refl.
    split; [reflexivity|]. apply read3, A_sym, row1_in. exact Hin.
  - apply in_map_iff in He. destruct He as [[[x y] l0] [E He]]. cbn [fst snd] in E. injection E as <- <-.
    unfold tv_ind12_all in He. apply in_flat_map in He. destruct He as [[x' kx] [_ He]]. apply in_map_iff in He.
    destruct He as [[y' ky] [E _]]. cbn [fst snd] in E. injection E as -> -> <-.
    apply in_map_iff in Hin. destruct Hin as [k [<- Hin]]. split; [reflexivity|]. cbn [tsel fst snd]. rewrite !Z.eqb_refl. split; [reflexivity|].
    apply filter_In in Hin. destruct Hin as [_ Hc]. apply andb_true_iff in Hc. apply read3, contains3. apply Hc.
Qed.

Lemma tall_complete h v vk t : In t (READ h v) -> tsel vk t = true -> exists l, In (vk, l) (tall (RUN h) v (tix_of vk)) /\ In t l.
Proof.
  destruct t as [k [x y]]. intros Hin Hsel. pose proof Hin as Hr. apply read3 in Hin.
  destruct vk as [k' x' y'| |k'|k' x'|k' y'|x'|y'|x' y']; sel_eqs Hsel; cbn [tall tix_of].
  - destruct Hsel as [[-> ->] ->]. exists [(k', (x', y'))]. split; [|left; reflexivity]. apply in_map_iff.
    exists ((k', x', y'), [tt]). split; [reflexivity|]. unfold tv_full_all. apply in_map_iff. exists (k', x', y'). split; [reflexivity|]. apply iter3. exact Hin.
  - unfold tv_none_get. eexists. split; [left; reflexivity|exact Hr].
  - subst k'. exists (map (fun p => (k, p)) (c_iter_all_added (cof h v k))). split.
    + apply in_map_iff. exists (k, c_iter_all_added (cof h v k)). split; [reflexivity|]. unfold tv_ind0_all.
      apply in_map_iff. exists (k, cof h v k). split; [reflexivity|eapply A_binding; exact Hin].
    + apply in_map_iff. exists (x, y). split; [reflexivity|]. apply (c_iter_all_added_spec _ x y (cof_cwf h v k)). exact Hin.
  - destruct Hsel as [-> ->]. exists [(k', (x', y))]. split; [|left; reflexivity]. apply in_map_iff.
    exists ((k', x'), [y]). split; [reflexivity|]. unfold tv_ind01_all. apply in_flat_map. exists (k', cof h v k').
    split; [eapply A_binding; exact Hin|]. apply in_map_iff. exists (x', y). split; [reflexivity|].
    apply (c_iter_all_added_spec _ x' y (cof_cwf h v k')). exact Hin.
  - destruct Hsel as [-> ->]. exists [(k', (x, y'))]. split; [|left; reflexivity]. apply in_map_iff.
    exists ((k', y'), [x]). split; [reflexivity|]. unfold tv_ind01_all. apply in_flat_map. exists (k', cof h v k').
    split; [eapply A_binding; exact Hin|]. apply in_map_iff. exists (y', x). split; [reflexivity|].
    apply (c_iter_all_added_spec _ y' x (cof_cwf h v k')). apply A_sym. exact Hin.
  - subst x'. rewrite ind1_all_char. destruct (rl_some h v x k (A_reg h v k x y Hin)) as [l0 Hl0].
    exists (map (fun ky => (fst ky, (x, snd ky))) (row1 h v x)). split.
    + apply in_map_iff. exists (x, row1 h v x). split; [reflexivity|]. apply in_map_iff. exists (x, l0). split; [reflexivity|apply zget_some_in; exact Hl0].
    + apply in_map_iff. exists (k, y). split; [reflexivity|]. apply row1_in. exact Hin.
  - subst y'. rewrite ind1_all_char. apply A_sym in Hin. destruct (rl_some h v y k (A_reg h v k y x Hin)) as [l0 Hl0].
    exists (map (fun kx => (fst kx, (snd kx, y))) (row1 h v y)). split.
    + apply in_map_iff. exists (y, row1 h v y). split; [reflexivity|]. apply in_map_iff. exists (y, l0). split; [reflexivity|apply zget_some_in; exact Hl0].
    + apply in_map_iff. exists (k, x). split; [reflexivity|]. apply row1_in. exact Hin.
  - destruct Hsel as [-> ->]. pose proof (A_reg h v k x' y' Hin) as Hkx. pose proof (A_reg h v k y' x' (A_sym h v k x' y' Hin)) as Hky.
    destruct (rl_some h v x' k Hkx) as [lx Hlx]. destruct (rl_some h v y' k Hky) as [ly Hly].
    assert (Ex : lx = rl h v x') by (unfold rl, rlook; rewrite Hlx; reflexivity).
    assert (Ey : ly = rl h v y') by (unfold rl, rlook; rewrite Hly; reflexivity).
    exists (map (fun k0 => (k0, (x', y'))) (filter (fun k0 => zmem k0 ly && t_contains (tver (RUN h) v) k0 x' y') lx)). split.
    + apply in_map_iff. exists ((x', y'), filter (fun k0 => zmem k0 ly && t_contains (tver (RUN h) v) k0 x' y') lx). split; [reflexivity|].
      unfold tv_ind12_all. apply in_flat_map. exists (x', lx). split; [apply zget_some_in; exact Hlx|].
      apply in_map_iff. exists (y', ly). split; [reflexivity|apply zget_some_in; exact Hly].
    + apply in_map_iff. exists k. split; [reflexivity|]. apply filter_In. split; [rewrite Ex; exact Hkx|].
      apply andb_true_iff. split; [apply zmem_spec; rewrite Ey; exact Hky|apply contains3; exact Hin].
Qed.

(* ------------------------------------------------------------------ the theorems *)
Theorem eqrel_ternary_provider_ok : provider_ok T3z eqrel_ternary eqv3.
Proof.
  pose proof eqrel_ternary_lifted_ok as L.
  constructor.
  - (* P1 *)
    intros h [k [x y]] s'. cbn [p_ins eqrel_ternary]. unfold tins. cbn [fst snd]. intros E. injection E as _ Hb.
    destruct (t_insert_char (ts_new (RUN h)) k x y) as [_ E2]. rewrite E2 in Hb.
    apply (cl3_in T2 eqv eqv_closure_op). destruct (ghost_proj T2 h k) as [_ [_ E3]]. unfold T3z. rewrite E3.
    apply (ok_P1 T2 eqrel_binary eqv eqrel_binary_provider_ok (hproj T2 k h) (x, y) (fst (b_insert (run T2 eqrel_binary (hproj T2 k h)) x y))).
    cbn [p_ins eqrel_binary fst snd]. rewrite <- (ti_sim h _ (tinv_run h) k). unfold b_insert, ksb. cbn [b_new b_delta b_total].
    change (gd k (t_map (ts_new (RUN h)))) with (gd k (t_map (ts_new (RUN h)))) in *.
    destruct (c_insert (gd k (t_map (ts_new (RUN h)))) x y) as [c' b]. cbn [snd] in Hb. subst b. reflexivity.
  - intros h. destruct (ok_P2 T3z _ eqv3 L h) as [H1 H2]. split; intros t Ht; [apply H1, served3_lift|apply served3_lift, H2]; exact Ht.
  - intros h. destruct (ok_P3 T3z _ eqv3 L h) as [H1 H2]. split; intros t Ht; [apply H1, (read3_lift h VTotal)|apply (read3_lift h VTotal), H2]; exact Ht.
  - intros h v vk t Hin Hsel. pose proof (tget_char h v vk) as H. cbn [p_get eqrel_ternary].
    destruct (tget (RUN h) v vk) as [l|]; [|exfalso; exact (H t Hsel Hin)]. exists l. split; [reflexivity|]. apply H. split; assumption.
  - intros h v vk l t Hg Hin. cbn [p_get eqrel_ternary] in Hg. pose proof (tget_char h v vk) as H. rewrite Hg in H.
    destruct H as [_ H]. apply H in Hin. destruct Hin as [Hs Hr]. split; [exact Hs|]. unfold served. apply in_or_app. destruct v; [left|right]; exact Hr.
  - intros h v vk t. apply tall_complete.
  - intros h v ix vk l t He Hin. destruct (tall_sound h v ix vk l t He Hin) as [H1 [H2 H3]]. split; [exact H1|]. split; [exact H2|].
    unfold served. apply in_or_app. destruct v; [left|right]; exact H3.
  - intros h vk l Hg. cbn [p_get eqrel_ternary] in Hg. pose proof (tget_char h VTotal vk) as H. rewrite Hg in H. apply H.
  - intros h v [k [x y]]. cbn [p_contains eqrel_ternary fst snd]. rewrite contains3, read3. reflexivity.
Qed.

(* no Option::unwrap on None in the reverse-map views, on any reachable state *)
Theorem eqrel_ternary_never_panics h v :
  (forall x, exists l, tv_ind1_get (tver (RUN h) v) x = None \/ tv_ind1_get (tver (RUN h) v) x = Some (Ok l))
  /\ (exists l, tv_ind1_all (tver (RUN h) v) = Ok l)
  /\ (forall x y, exists l, tv_ind12_get (tver (RUN h) v) x y = None \/ tv_ind12_get (tver (RUN h) v) x y = Some (Ok l)).
Proof.
  split; [|split].
  - intros x. rewrite ind1_get_char. destruct (zget x (t_rev (tver (RUN h) v))); cbn [option_map]; [eexists; right; reflexivity|exists []; left; reflexivity].
  - rewrite ind1_all_char. eexists. reflexivity.
  - intros x y. rewrite ind12_get_char. destruct (zget x (t_rev (tver (RUN h) v))); cbn [option_map]; [eexists; right; reflexivity|exists []; left; reflexivity].
Qed.

Print Assumptions eqrel_ternary_provider_ok.
Print Assumptions eqrel_ternary_never_panics.
