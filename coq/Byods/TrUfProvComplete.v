(* C12 — completeness of one merge of the binary trrel_uf provider (Byods/TrUfProvModel.v), over C18's weak invariant.

   Part A  class level: the inner semi-naive loop of the merge keeps [linv] (TrUfProvProofs.round_ok) and ends with an
           empty delta_delta; at that fixpoint the relation  (=) + set_connections + delta_total  on class ids is
           transitive and contains every class pair of `new`.
   Part B  the class pairs recorded while the elements of `new` are added as nodes (new_classes_map and its reverse):
           converse of each other, duplicate-free keys, a pair for every pair of `new`, a self pair for every class created.
   Part C  element level: after the merge (structure t2 = total' with generating pairs E2, delta_total map dt)
             rtc (E2 ++ new) x y  ->  rtc E2 x y  \/  (x, y) is served by the delta,
           everything the delta serves is in rtc (E2 ++ new), and what total' serves beyond total + the old delta's precursor
           are reflexive pairs of elements first mentioned by `new`, which the delta serves as well (weak P3). *)
From Coq Require Import List Arith Bool Lia ZArith.
From AV Require Import UF.UfBase.
From AV Require Import UF.TrUfModel.
From AV Require Import UF.TrUfInv.
From AV Require Import UF.TrUfLemmas.
From AV Require Import UF.TrUfQueries.
From AV Require Import UF.TrUfCases.
From AV Require Import UF.TrUfStep.
From AV Require Import UF.TrUfProofs.
From AV Require Import Byods.TrUfProvModel.
From AV Require Import Byods.TrUfProvProofs.
Import ListNotations.

(* ================================================================== Part A: the loop reaches a fixpoint of the class relation *)

Lemma nodup_mmove : forall from to, NoDup (map fst to) -> NoDup (map fst (mmove from to)).
Proof.
  intros from to H. unfold mmove. apply fold_left_inv; [exact H|]. intros a kv _ Ha. apply nodup_keys_aset; exact Ha.
Qed.

Lemma dloop_linv : forall tot ncm,
  (forall a b, a <> b -> (Rm (t_conn tot) a b <-> Rm (t_rev tot) b a)) ->
  NoDup (map fst (t_conn tot)) -> NoDup (map fst ncm) ->
  forall fuel dd ddr dt dtr r,
    linv (t_conn tot) ncm dd ddr dt dtr -> NoDup (map fst dt) -> NoDup (map fst dtr) ->
    dloop fuel tot ncm dd ddr dt dtr = Ok r ->
    (exists ddr', linv (t_conn tot) ncm [] ddr' (fst r) (snd r)) /\ NoDup (map fst (fst r)) /\ NoDup (map fst (snd r)).
Proof.
  intros tot ncm Hcv Hnd Hncm. induction fuel as [|f IH]; intros dd ddr dt dtr r L Ndt Ndtr H; [discriminate|].
  cbn [dloop] in H. cbv zeta in H.
  pose proof (round_ok _ _ _ Hcv Hnd Hncm _ _ _ _ L) as R. cbv zeta in R.
  destruct (join (fun x y => negb (mhas x y dd) && negb (mhas x y dt) && negb (mhas x y (t_conn tot))) ncm ddr
             (join (fun x y => negb (mhas x y dd) && negb (mhas x y dt) && negb (mhas x y (t_conn tot))) (t_conn tot) ddr
               (join (fun x y => negb (mhas x y dd) && negb (mhas x y dt) && negb (mhas x y (t_conn tot))) dd (t_rev tot) ([], [], false))))
    as [[dn dnr] ch] eqn:J.
  cbn [fst snd] in R. destruct R as [L' Hz].
  assert (Ndt' : NoDup (map fst (mmove dd dt))) by (apply nodup_mmove; exact Ndt).
  assert (Ndtr' : NoDup (map fst (mmove ddr dtr))) by (apply nodup_mmove; exact Ndtr).
  destruct ch.
  - apply (IH _ _ _ _ _ L' Ndt' Ndtr' H).
  - inversion H; subst r. cbn [fst snd]. rewrite (Hz eq_refl) in L'. split; [eexists; exact L'|split; [exact Ndt'|exact Ndtr']].
Qed.

Section FixClosed.
  Variables conn ncm ddr dt dtr : mset.
  Notation T := (Rm conn).
  Notation N := (Rm ncm).
  Notation D := (Rm dt).
  Hypothesis T_trans : forall a b c, T a b -> T b c -> a <> c -> T a c.
  Hypothesis T_anti : forall a b, a <> b -> T a b -> ~ T b a.
  Hypothesis L : linv conn ncm [] ddr dt dtr.

  Lemma kn_fix : forall x y, Kn conn [] dt x y -> D x y \/ T x y.
  Proof. intros x y [H|[H|H]]; [discriminate H|left; exact H|right; exact H]. Qed.

  Lemma sub_fix : forall a b, N a b -> D a b.
  Proof. intros a b H. destruct (l_sub _ _ _ _ _ _ L a b H) as [H1|H1]; [discriminate H1|exact H1]. Qed.

  (* at the fixpoint every derivable class pair is known: in delta_total or in set_connections *)
  Lemma der_known : forall a b, der conn ncm a b -> D a b \/ T a b.
  Proof.
    intros a b Hd. induction Hd as [a b Hn|c a b Hca _ IH|a b c _ IH Hbc|a b c _ IH Hbc].
    - left. apply sub_fix; exact Hn.
    - destruct IH as [IH|IH].
      + apply kn_fix. apply (proj1 (l_sat _ _ _ _ _ _ L a b IH) c Hca).
      + destruct (Nat.eq_dec c b) as [->|Hne].
        * destruct (Nat.eq_dec a b) as [->|Hab]; [right; exact Hca|]. exfalso. exact (T_anti a b Hab IH Hca).
        * right. apply (T_trans c a b Hca IH Hne).
    - destruct IH as [IH|IH].
      + apply kn_fix. apply (proj1 (proj2 (l_sat _ _ _ _ _ _ L a b IH)) c Hbc).
      + destruct (Nat.eq_dec a c) as [->|Hne].
        * destruct (Nat.eq_dec c b) as [->|Hcb]; [right; exact Hbc|]. exfalso. exact (T_anti c b Hcb IH Hbc).
        * right. apply (T_trans a b c IH Hbc Hne).
    - destruct IH as [IH|IH].
      + apply kn_fix. apply (proj2 (proj2 (l_sat _ _ _ _ _ _ L a b IH)) c Hbc).
      + apply kn_fix. apply (proj1 (l_sat _ _ _ _ _ _ L b c (sub_fix _ _ Hbc)) a IH).
  Qed.

  Lemma der_comp : forall a b c, der conn ncm a b -> der conn ncm b c -> der conn ncm a c.
  Proof.
    intros a b c Hab Hbc. revert a Hab. induction Hbc as [b c Hn|b b' c Hbb' _ IH|b c' c _ IH Hcc|b c' c _ IH Hcc]; intros a Hab.
    - eapply der_nn; eassumption.
    - apply IH. eapply der_tr; eassumption.
    - eapply der_tr; [apply IH; exact Hab|exact Hcc].
    - eapply der_nn; [apply IH; exact Hab|exact Hcc].
  Qed.

  Definition Kc (a b : nat) : Prop := a = b \/ T a b \/ D a b.

  Lemma Kc_trans : forall a b c, Kc a b -> Kc b c -> Kc a c.
  Proof.
    intros a b c [->|[Hab|Hab]] Hbc; [exact Hbc| |]; destruct Hbc as [<-|[Hbc|Hbc]].
    - right; left; exact Hab.
    - destruct (Nat.eq_dec a c) as [->|Hne]; [left; reflexivity|]. right; left. apply (T_trans a b c Hab Hbc Hne).
    - destruct (kn_fix _ _ (proj1 (l_sat _ _ _ _ _ _ L b c Hbc) a Hab)) as [H|H]; [right; right; exact H|right; left; exact H].
    - right; right; exact Hab.
    - destruct (kn_fix _ _ (proj1 (proj2 (l_sat _ _ _ _ _ _ L a b Hab)) c Hbc)) as [H|H]; [right; right; exact H|right; left; exact H].
    - assert (Hd : der conn ncm a c).
      { apply (der_comp a b c); apply (l_der _ _ _ _ _ _ L); right; assumption. }
      destruct (der_known _ _ Hd) as [H|H]; [right; right; exact H|right; left; exact H].
  Qed.
End FixClosed.

(* ================================================================== Part B: the class pairs of `new` *)

(* a map of sets and its converse *)
Definition cvp (m mr : mset) : Prop :=
  NoDup (map fst m) /\ NoDup (map fst mr) /\ forall a b, mhas a b m = mhas b a mr.

Lemma cvp_nil : cvp [] [].
Proof. split; [constructor|]. split; [constructor|reflexivity]. Qed.

Lemma cvp_ins : forall m mr w y, cvp m mr -> cvp (mins w y m) (mins y w mr).
Proof.
  intros m mr w y [N1 [N2 Hc]]. split; [apply nodup_mins; exact N1|]. split; [apply nodup_mins; exact N2|].
  intros a b. rewrite !mhas_mins, Hc. rewrite (andb_comm (Nat.eqb a w)). reflexivity.
Qed.

Lemma cvp_self : forall id fr cr, cvp (fst cr) (snd cr) -> cvp (fst (self_conn id fr cr)) (snd (self_conn id fr cr)).
Proof. intros id fr cr H. unfold self_conn. destruct fr; [cbn [fst snd]; apply cvp_ins; exact H|exact H]. Qed.

Lemma self_conn_mono : forall id fr cr a b, mhas a b (fst cr) = true -> mhas a b (fst (self_conn id fr cr)) = true.
Proof.
  intros id fr cr a b H. unfold self_conn. destruct fr; [|exact H]. cbn [fst]. rewrite mhas_mins, H. apply orb_true_r.
Qed.

Lemma self_conn_fresh : forall id cr, mhas id id (fst (self_conn id true cr)) = true.
Proof. intros id cr. unfold self_conn. cbn [fst]. rewrite mhas_mins, !Nat.eqb_refl. reflexivity. Qed.

Lemma add_node_new_old : forall st x st' id, add_node_new st x = Ok (st', id, false) -> aget x (t_ids st) <> None.
Proof.
  intros st x st' id H Hn. unfold add_node_new, elem_set_update in H. rewrite Hn in H. cbn [bind] in H.
  destruct (dbgt _) in H; cbn [bind] in H; [inversion H|discriminate].
Qed.

Lemma mentioned_app : forall A B x, mentioned (A ++ B) x <-> mentioned A x \/ mentioned B x.
Proof.
  intros A B x. unfold mentioned. split.
  - intros [y [H|H]]; apply in_app_iff in H; destruct H as [H|H]; [left|right|left|right]; exists y; auto.
  - intros [[y [H|H]]|[y [H|H]]]; exists y; [left|right|left|right]; apply in_app_iff; auto.
Qed.

(* what the pass over `new` leaves: the structure grew by reflexive pairs only, and the class pairs are recorded *)
Lemma add_nodes_spec : forall nrel E st ncm ncrm,
  tinv_weak E st -> cvp ncm ncrm ->
  exists st' ncm' ncrm' E',
    foldM add_nodes_step nrel (st, ncm, ncrm) = Ok (st', ncm', ncrm') /\
    tinv_weak E' st' /\ ext st st' /\ t_conn st' = t_conn st /\ t_rev st' = t_rev st /\
    cvp ncm' ncrm' /\
    (forall a b, mhas a b ncm = true -> mhas a b ncm' = true) /\
    (forall p, In p E -> In p E') /\
    (forall p, In p E' -> In p E \/ exists x, p = (x, x) /\ mentioned nrel x) /\
    (forall x y, In (x, y) nrel -> exists a b, mem_of st' a x /\ mem_of st' b y /\ mhas a b ncm' = true) /\
    (forall x, mentioned nrel x -> mentioned E x \/ exists a, mem_of st' a x /\ mhas a a ncm' = true) /\
    (nrel = [] -> st' = st /\ ncm' = ncm /\ E' = E).
Proof.
  induction nrel as [|[x y] nrel IH]; intros E st ncm ncrm HE Hcv.
  - exists st, ncm, ncrm, E. cbn [foldM]. split; [reflexivity|]. split; [exact HE|]. split; [apply ext_refl|].
    split; [reflexivity|]. split; [reflexivity|]. split; [exact Hcv|]. split; [auto|]. split; [auto|]. split; [auto|].
    split; [intros a b []|]. split; [intros a [b [[]|[]]]|]. auto.
  - destruct (ann_weak E st x HE) as [st1 [xid [xn [Ha1 [HE1 [_ [Mx [Hc1 [Hr1 [Hle1 Hnth1]]]]]]]]]].
    destruct (ann_weak _ st1 y HE1) as [st2 [yid [yn [Ha2 [HE2 [_ [My [Hc2 [Hr2 [Hle2 Hnth2]]]]]]]]]].
    assert (He1 : ext st st1) by (split; assumption). assert (He2 : ext st1 st2) by (split; assumption).
    pose proof (ext_mem st1 st2 xid x He2 Mx) as Mx2.
    set (cr0 := (mins xid yid ncm, mins yid xid ncrm)).
    set (cr1 := self_conn xid xn cr0). set (cr2 := self_conn yid yn cr1).
    assert (Hcv2 : cvp (fst cr2) (snd cr2)).
    { unfold cr2, cr1. apply cvp_self, cvp_self. unfold cr0. cbn [fst snd]. apply cvp_ins; exact Hcv. }
    destruct (IH _ st2 (fst cr2) (snd cr2) HE2 Hcv2)
      as [st' [ncm' [ncrm' [E' [Hf [HE' [He' [Hc' [Hr' [Hcv' [Hmono [Hinc [Hsrc [Hpairs [Hment _]]]]]]]]]]]]]]].
    exists st', ncm', ncrm', E'.
    assert (Hxy2 : mhas xid yid (fst cr2) = true).
    { unfold cr2, cr1. apply self_conn_mono, self_conn_mono. unfold cr0. cbn [fst]. rewrite mhas_mins, !Nat.eqb_refl. reflexivity. }
    split.
    { cbn [foldM]. unfold add_nodes_step at 1. cbn [fst snd]. rewrite Ha1. cbn [bind]. rewrite Ha2. cbn [bind]. exact Hf. }
    split; [exact HE'|]. split; [eapply ext_trans; [exact He1|eapply ext_trans; [exact He2|exact He']]|].
    split; [congruence|]. split; [congruence|]. split; [exact Hcv'|].
    split.
    { intros a b H. apply Hmono. unfold cr2, cr1. apply self_conn_mono, self_conn_mono. unfold cr0. cbn [fst].
      rewrite mhas_mins, H. apply orb_true_r. }
    split.
    { intros p Hp. apply Hinc. apply in_app_iff. left. apply in_app_iff. left. exact Hp. }
    split.
    { intros p Hp. destruct (Hsrc p Hp) as [Hp'|[z [-> Hz]]].
      - apply in_app_iff in Hp'. destruct Hp' as [Hp'|[<-|[]]].
        + apply in_app_iff in Hp'. destruct Hp' as [Hp'|[<-|[]]]; [left; exact Hp'|].
          right. exists x. split; [reflexivity|]. exists y. left. left. reflexivity.
        + right. exists y. split; [reflexivity|]. exists x. right. left. reflexivity.
      - right. exists z. split; [reflexivity|]. destruct Hz as [w [Hw|Hw]]; exists w; [left|right]; right; exact Hw. }
    split.
    { intros u v [Huv|Huv].
      - inversion Huv; subst u v. exists xid, yid. split; [eapply ext_mem; eassumption|]. split; [eapply ext_mem; eassumption|].
        apply Hmono. exact Hxy2.
      - apply Hpairs. exact Huv. }
    split.
    { assert (Hx : mentioned E x \/ exists a, mem_of st' a x /\ mhas a a ncm' = true).
      { destruct xn.
        - right. exists xid. split; [eapply ext_mem; eassumption|]. apply Hmono. unfold cr2. apply self_conn_mono. unfold cr1. apply self_conn_fresh.
        - left. apply (m_ids _ _ HE). eapply add_node_new_old. exact Ha1. }
      assert (Hy : mentioned E y \/ exists a, mem_of st' a y /\ mhas a a ncm' = true).
      { destruct yn.
        - right. exists yid. split; [eapply ext_mem; eassumption|]. apply Hmono. unfold cr2. apply self_conn_fresh.
        - pose proof (add_node_new_old _ _ _ _ Ha2) as Hy. apply (m_ids _ _ HE1) in Hy. apply mentioned_snoc in Hy.
          destruct Hy as [Hy|[->| ->]]; [left; exact Hy|exact Hx|exact Hx]. }
      intros z [w [Hz|Hz]].
      - destruct Hz as [Hz|Hz]; [inversion Hz; subst; exact Hx|].
        destruct (Hment z (ex_intro _ w (or_introl Hz))) as [H|H]; [|right; exact H].
        apply mentioned_snoc in H. destruct H as [H|[->| ->]]; [|exact Hy|exact Hy].
        apply mentioned_snoc in H. destruct H as [H|[->| ->]]; [left; exact H|exact Hx|exact Hx].
      - destruct Hz as [Hz|Hz]; [inversion Hz; subst; exact Hy|].
        destruct (Hment z (ex_intro _ w (or_intror Hz))) as [H|H]; [|right; exact H].
        apply mentioned_snoc in H. destruct H as [H|[->| ->]]; [|exact Hy|exact Hy].
        apply mentioned_snoc in H. destruct H as [H|[->| ->]]; [left; exact H|exact Hx|exact Hx]. }
    discriminate.
Qed.

(* ================================================================== Part C: element level *)

(* the pairs a Delta with structure st and connection map m serves *)
Definition dsv (st : truf) (m : mset) (x y : nat) : Prop :=
  exists a b, mem_of st a x /\ mem_of st b y /\ mhas a b m = true.

Lemma cn_mhas : forall st a b, cn st a b <-> mhas a b (t_conn st) = true.
Proof. intros st a b. unfold cn, mhas. symmetry. apply smem_in. Qed.
Lemma rv_mhas : forall st a b, rv st a b <-> mhas a b (t_rev st) = true.
Proof. intros st a b. unfold rv, mhas. symmetry. apply smem_in. Qed.

Lemma mem_dominant : forall E st (H : tinv_weak E st) a x, mem_of st a x -> dominant st a.
Proof.
  intros E st H a x Hm. split; [eapply mem_of_lt; exact Hm|].
  destruct (aget a (t_subs st)) as [f|] eqn:Hf; [|reflexivity]. exfalso.
  pose proof (w_subsumed_empty _ _ H a f Hf) as He. destruct Hm as [l [Hl Hx]]. rewrite He in Hl. inversion Hl; subst. destruct Hx.
Qed.

Lemma mem_mentioned : forall E st (H : tinv_weak E st) a x, mem_of st a x -> mentioned E x.
Proof. intros E st H a x Hm. apply (m_ids _ _ H). apply (w_mem_ids _ _ H a x Hm). Qed.

Section MergeComplete.
  Variables (E nrel : list (nat * nat)) (st : truf) (ncm ddr dt dtr : mset).
  Hypothesis HE : tinv_weak E st.
  Hypothesis L : linv (t_conn st) ncm [] ddr dt dtr.
  Hypothesis Hpairs : forall x y, In (x, y) nrel -> exists a b, mem_of st a x /\ mem_of st b y /\ mhas a b ncm = true.

  Lemma mc_T_trans : forall a b c, Rm (t_conn st) a b -> Rm (t_conn st) b c -> a <> c -> Rm (t_conn st) a c.
  Proof. intros a b c H1 H2 Hne. apply cn_mhas. apply (g_trans _ _ HE a b c); [apply cn_mhas; exact H1|apply cn_mhas; exact H2|exact Hne]. Qed.
  Lemma mc_T_anti : forall a b, a <> b -> Rm (t_conn st) a b -> ~ Rm (t_conn st) b a.
  Proof. intros a b Hne H1 H2. apply (g_antisym _ _ HE a b Hne); apply cn_mhas; assumption. Qed.

  Definition Sv (x y : nat) : Prop := exists a b, mem_of st a x /\ mem_of st b y /\ Kc (t_conn st) dt a b.

  Lemma Sv_refl_E : forall x, mentioned E x -> Sv x x.
  Proof.
    intros x Hx. destruct (mentioned_class E st HE x Hx) as [d [_ Hm]]. exists d, d. split; [exact Hm|]. split; [exact Hm|left; reflexivity].
  Qed.

  Lemma Sv_refl_new : forall x, mentioned nrel x -> Sv x x.
  Proof.
    intros x [y [H|H]]; destruct (Hpairs _ _ H) as [a [b [Ma [Mb _]]]].
    - exists a, a. split; [exact Ma|]. split; [exact Ma|left; reflexivity].
    - exists b, b. split; [exact Mb|]. split; [exact Mb|left; reflexivity].
  Qed.

  Lemma rtc_Sv : forall x y, rtc (E ++ nrel) x y -> Sv x y.
  Proof.
    intros x y H. induction H as [x y Hi|x y Hi|x y Hi|x y z _ IH1 _ IH2].
    - apply in_app_iff in Hi. destruct Hi as [Hi|Hi]; [apply Sv_refl_E; exists y; left; exact Hi|apply Sv_refl_new; exists y; left; exact Hi].
    - apply in_app_iff in Hi. destruct Hi as [Hi|Hi]; [apply Sv_refl_E; exists x; right; exact Hi|apply Sv_refl_new; exists x; right; exact Hi].
    - apply in_app_iff in Hi. destruct Hi as [Hi|Hi].
      + assert (Hx : mentioned E x) by (exists y; left; exact Hi). assert (Hy : mentioned E y) by (exists x; right; exact Hi).
        destruct (mentioned_class E st HE x Hx) as [a [Da Ma]]. destruct (mentioned_class E st HE y Hy) as [b [Db Mb]].
        exists a, b. split; [exact Ma|]. split; [exact Mb|].
        destruct (m_complete _ _ HE a b x y Da Db Ma Mb (rtc_e _ _ _ Hi)) as [->|Hc]; [left; reflexivity|].
        right; left. apply cn_mhas; exact Hc.
      + destruct (Hpairs _ _ Hi) as [a [b [Ma [Mb Hn]]]]. exists a, b. split; [exact Ma|]. split; [exact Mb|].
        right; right. apply (sub_fix _ _ _ _ _ L); exact Hn.
    - destruct IH1 as [a [b [Ma [Mb K1]]]]. destruct IH2 as [b' [c [Mb' [Mc K2]]]].
      assert (b' = b) by (eapply (mem_disj E st HE); eassumption). subst b'.
      exists a, c. split; [exact Ma|]. split; [exact Mc|].
      apply (Kc_trans (t_conn st) ncm ddr dt dtr mc_T_trans mc_T_anti L a b c K1 K2).
  Qed.

  (* completeness of total' + delta' for the pairs merged so far and those of `new` *)
  Theorem merge_complete : forall x y, rtc (E ++ nrel) x y -> rtc E x y \/ dsv st dt x y.
  Proof.
    intros x y H. destruct (rtc_Sv x y H) as [a [b [Ma [Mb [->|[K|K]]]]]].
    - left. apply (m_class _ _ HE b x y Ma Mb).
    - left. apply (m_conn _ _ HE a b x y); [apply cn_mhas; exact K|exact Ma|exact Mb].
    - right. exists a, b. auto.
  Qed.
End MergeComplete.
