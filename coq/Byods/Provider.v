(* The interface the engine proof consumes from a custom (`#[ds(..)]`) relation, as laws P1-P5 over what the
   provider's VIEWS return (DESIGN section 5 / C10), for an arbitrary closure operator `cl` on finite sets of
   tuples (extensive, monotone, idempotent, empty on the empty set).  Shared by eqrel (C10), trrel (C11) and
   trrel_uf (C12).

   A provider is driven by generated code through three operations:
     PIns t      `insert_if_not_present(new, t)`
     PMerge      one `merge_delta_to_total_new_to_delta` per loop iteration
     PRestart    a stratum boundary: `field := total; delta := take field; total, new := default` (+ init)
   The meaning of a history is tracked by three ghost generator sets: g_t (what total is the closure of),
   g_td (total + delta), g_new (inserted since the last merge).  The laws say what every view must return
   in terms of `cl` of these sets — for EVERY history. *)
From Coq Require Import List Bool.
Import ListNotations.

Section Provider.
Variable T : Type.

Definition same_set (a b : list T) : Prop := incl a b /\ incl b a.

Record closure_op (cl : list T -> list T) : Prop := {
  cl_ext : forall s, incl s (cl s);
  cl_mono : forall s s', incl s s' -> incl (cl s) (cl s');
  cl_idem : forall s, incl (cl (cl s)) (cl s);
  cl_nil : cl [] = [] }.

Inductive pop := PIns (t : T) | PMerge | PRestart.
Inductive ver := VTotal | VDelta.

Record provider : Type := {
  St : Type;
  p_init : St;                                         (* the three versions at the start of the first stratum *)
  p_ins : St -> T -> St * bool;
  p_merge : St -> St;
  p_restart : St -> St;
  p_read : St -> ver -> list T;                        (* everything a version serves (the view without key) *)
  p_contains : St -> ver -> T -> bool;                 (* contains_key of the full index *)
  View : Type;                                         (* an index together with a key *)
  Ix : Type;                                           (* an index *)
  p_get : St -> ver -> View -> option (list T);        (* index_get: None, or the values as full tuples *)
  p_all : St -> ver -> Ix -> list (View * list T);     (* iter_all: the (key, values) entries *)
  v_sel : View -> T -> bool;                           (* the tuples selected by an index + key *)
  v_ix : View -> Ix }.

Record ghost := mkG { g_t : list T; g_td : list T; g_new : list T }.
Definition ghost_init : ghost := mkG [] [] [].
Definition ghost_step (g : ghost) (o : pop) : ghost :=
  match o with
  | PIns t => mkG (g_t g) (g_td g) (g_new g ++ [t])
  | PMerge => mkG (g_td g) (g_td g ++ g_new g) []
  | PRestart => mkG [] (g_t g) []
  end.
Definition ghost_of (h : list pop) : ghost := fold_left ghost_step h ghost_init.

Definition step (P : provider) (s : St P) (o : pop) : St P :=
  match o with
  | PIns t => fst (p_ins P s t)
  | PMerge => p_merge P s
  | PRestart => p_restart P s
  end.
Definition run (P : provider) (h : list pop) : St P := fold_left (step P) h (p_init P).

Definition served (P : provider) (s : St P) : list T := p_read P s VTotal ++ p_read P s VDelta.

(* the laws, for every history h; s = state after h, g = its ghost *)
Record provider_ok (P : provider) (cl : list T -> list T) : Prop := {
  (* P1: an insertion is refused only for a tuple already in the closure of what new holds *)
  ok_P1 : forall h t s', p_ins P (run P h) t = (s', false) -> In t (cl (g_new (ghost_of h)));
  (* P2: total + delta serve exactly the closure of everything merged so far *)
  ok_P2 : forall h, same_set (served P (run P h)) (cl (g_td (ghost_of h)));
  (* P3: total serves exactly what total + delta served before the last merge: nothing becomes readable from
     total without having been served as delta one round earlier, and nothing served is forgotten *)
  ok_P3 : forall h, same_set (p_read P (run P h) VTotal) (cl (g_t (ghost_of h)));
  (* P4: every keyed view of a version returns, for its key, at least the version's tuples with that key and at
     most tuples of total + delta with that key (over-approximating delta is allowed, under-approximating not) *)
  ok_P4_get_complete : forall h v vk t, In t (p_read P (run P h) v) -> v_sel P vk t = true ->
                       exists l, p_get P (run P h) v vk = Some l /\ In t l;
  ok_P4_get_sound : forall h v vk l t, p_get P (run P h) v vk = Some l -> In t l ->
                    v_sel P vk t = true /\ In t (served P (run P h));
  ok_P4_all_complete : forall h v vk t, In t (p_read P (run P h) v) -> v_sel P vk t = true ->
                       exists l, In (vk, l) (p_all P (run P h) v (v_ix P vk)) /\ In t l;
  ok_P4_all_sound : forall h v ix vk l t, In (vk, l) (p_all P (run P h) v ix) -> In t l ->
                    v_ix P vk = ix /\ v_sel P vk t = true /\ In t (served P (run P h));
  (* aggregates read total: a lookup in total returns every tuple once *)
  ok_P4_total_nodup : forall h vk l, p_get P (run P h) VTotal vk = Some l -> NoDup l;
  (* P5: contains_key decides membership *)
  ok_P5 : forall h v t, p_contains P (run P h) v t = true <-> In t (p_read P (run P h) v) }.

(* ------------------------------------------------------------------ what the engine derives from the laws *)
Section Consequences.
Variable P : provider.
Variable cl : list T -> list T.
Hypothesis Hcl : closure_op cl.
Hypothesis Hok : provider_ok P cl.

Lemma ghost_of_snoc h o : ghost_of (h ++ [o]) = ghost_step (ghost_of h) o.
Proof. unfold ghost_of. rewrite fold_left_app. reflexivity. Qed.
Lemma run_snoc h o : run P (h ++ [o]) = step P (run P h) o.
Proof. unfold run. rewrite fold_left_app. reflexivity. Qed.

Lemma same_set_trans a b c : same_set a b -> same_set b c -> same_set a c.
Proof. intros [H1 H2] [H3 H4]. split; eapply incl_tran; eassumption. Qed.
Lemma same_set_sym a b : same_set a b -> same_set b a.
Proof. intros [H1 H2]. split; assumption. Qed.

(* (semi-naive invariant for the closure rules) after a merge, total is exactly total + delta of before *)
Theorem merge_total h : same_set (p_read P (run P (h ++ [PMerge])) VTotal) (served P (run P h)).
Proof.
  eapply same_set_trans. apply (ok_P3 P cl Hok).
  rewrite ghost_of_snoc. cbn [ghost_step g_t]. apply same_set_sym. apply (ok_P2 P cl Hok).
Qed.

(* total + delta is closed at every loop head *)
Theorem served_closed h : incl (cl (served P (run P h))) (served P (run P h)).
Proof.
  destruct (ok_P2 P cl Hok h) as [H1 H2].
  eapply incl_tran; [apply (cl_mono cl Hcl _ _ H1)|]. eapply incl_tran; [apply (cl_idem cl Hcl)|]. exact H2.
Qed.

(* everything inserted in a round is served after the merge *)
Theorem inserted_served h : incl (g_new (ghost_of h)) (served P (run P (h ++ [PMerge]))).
Proof.
  destruct (ok_P2 P cl Hok (h ++ [PMerge])) as [_ H2]. rewrite ghost_of_snoc in H2. cbn [ghost_step g_td] in H2.
  intros t Ht. apply H2. apply (cl_ext cl Hcl). apply in_or_app. right. exact Ht.
Qed.

(* exit condition of a stratum loop: if nothing was inserted in the round (`changed` stayed false: the first
   insertion into an empty `new` cannot be refused, by P1 and cl [] = []), the merge moves everything to
   total: delta adds nothing and the stored total is the whole closure *)
Theorem first_insert_succeeds h t s' b : g_new (ghost_of h) = [] -> p_ins P (run P h) t = (s', b) -> b = true.
Proof.
  intros Hn Hi. destruct b; [reflexivity|]. pose proof (ok_P1 P cl Hok h t s' Hi) as H. rewrite Hn, (cl_nil cl Hcl) in H. destruct H.
Qed.
Theorem quiescent_exit h : g_new (ghost_of h) = [] ->
  same_set (p_read P (run P (h ++ [PMerge])) VTotal) (served P (run P (h ++ [PMerge]))).
Proof.
  intros Hn. eapply same_set_trans; [apply merge_total|].
  eapply same_set_trans; [apply (ok_P2 P cl Hok)|]. apply same_set_sym.
  eapply same_set_trans; [apply (ok_P2 P cl Hok)|]. rewrite ghost_of_snoc. cbn [ghost_step g_td]. rewrite Hn, app_nil_r.
  split; apply incl_refl.
Qed.

(* a stratum boundary hands the stored total to the next stratum as its first delta *)
Theorem restart_serves h : same_set (served P (run P (h ++ [PRestart]))) (p_read P (run P h) VTotal)
                           /\ p_read P (run P (h ++ [PRestart])) VTotal = [].
Proof.
  split.
  - eapply same_set_trans; [apply (ok_P2 P cl Hok)|]. rewrite ghost_of_snoc. cbn [ghost_step g_td].
    apply same_set_sym. apply (ok_P3 P cl Hok).
  - destruct (ok_P3 P cl Hok (h ++ [PRestart])) as [H1 _]. rewrite ghost_of_snoc in H1. cbn [ghost_step g_t] in H1.
    rewrite (cl_nil cl Hcl) in H1. destruct (p_read P (run P (h ++ [PRestart])) VTotal) as [|a l]; [reflexivity|].
    exfalso. apply (H1 a). left. reflexivity.
Qed.
End Consequences.
End Provider.

Arguments same_set {T} a b.
Arguments PIns {T} t.
Arguments PMerge {T}.
Arguments PRestart {T}.
