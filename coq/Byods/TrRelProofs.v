(* C11 — proofs about the binary trrel provider model (Byods/TrRelModel.v):
   the inner semi-naive loop of merge_delta_to_total_new_to_delta computes, for a total that is closed
   under composition (modulo the anti_reflexive filter), exactly the closure of total + delta + new;
   the merge never runs out of fuel; histories of the engine protocol keep
   total + delta = cl(inserted); the shipped flag (true) loses exactly the non-inserted pairs (x,x). *)
From Coq Require Import List ZArith Bool Lia.
From AV Require Import Byods.TrRelModel.
From AV Require Byods.Closure.
Import ListNotations.
Open Scope Z_scope.

(* ------------------------------------------------------------------ basic facts *)

Lemma pair_eqb_spec p q : pair_eqb p q = true <-> p = q.
Proof.
  destruct p as [a b], q as [c d]; unfold pair_eqb; cbn [fst snd].
  rewrite andb_true_iff, !Z.eqb_eq. split; [intros [-> ->]; reflexivity | intros H; inversion H; auto].
Qed.

Lemma pmem_spec p l : pmem p l = true <-> In p l.
Proof.
  unfold pmem. rewrite existsb_exists. split.
  - intros [q [Hq He]]. apply pair_eqb_spec in He. subst; exact Hq.
  - intros H. exists p. split; [exact H | apply pair_eqb_spec; reflexivity].
Qed.

Lemma pmem_false p l : pmem p l = false <-> ~ In p l.
Proof.
  rewrite <- pmem_spec. destruct (pmem p l); split; intro H.
  - discriminate.
  - exfalso; apply H; reflexivity.
  - intro; discriminate.
  - reflexivity.
Qed.

Lemma In_dec_pair (p : pair) l : {In p l} + {~ In p l}.
Proof. destruct (pmem p l) eqn:E; [left; apply pmem_spec; exact E | right; apply pmem_false; exact E]. Qed.

Lemma compose_spec r2 r1 w y :
  In (w, y) (compose r2 r1) <-> exists x, In (w, x) r2 /\ In (x, y) r1.
Proof.
  unfold compose. rewrite in_flat_map. split.
  - intros [[w' x] [H2 H]]. apply in_map_iff in H. destruct H as [[x' y'] [E H1]].
    apply filter_In in H1. destruct H1 as [H1 Ex]. cbn [fst snd] in *. apply Z.eqb_eq in Ex. subst x'.
    inversion E; subst. exists x. split; assumption.
  - intros [x [H2 H1]]. exists (w, x). split; [exact H2|]. apply in_map_iff. exists (x, y). split; [reflexivity|].
    apply filter_In. split; [exact H1 | cbn; apply Z.eqb_refl].
Qed.

Lemma NoDup_snoc {A} (l : list A) a : NoDup l -> ~ In a l -> NoDup (l ++ [a]).
Proof.
  intros ND Hn. apply NoDup_rev in ND. rewrite <- (rev_involutive (l ++ [a])). apply NoDup_rev.
  rewrite rev_app_distr. cbn. constructor; [rewrite <- in_rev; exact Hn | exact ND].
Qed.

(* ------------------------------------------------------------------ join *)

Lemma join_fold_spec f cands : forall t c t' c',
  fold_left (join_step f) cands (t, c) = (t', c') ->
  (forall p, In p t' <-> In p t \/ (In p cands /\ f p = true)) /\
  (NoDup t -> NoDup t') /\
  (c = true -> c' = true) /\
  (c' = true -> c = true \/ exists p, In p t' /\ ~ In p t) /\
  (c' = false -> t' = t).
Proof.
  induction cands as [|q cands IH]; intros t c t' c' H; cbn [fold_left] in H.
  - inversion H; subst. repeat split; auto; try tauto. intros [?|[[] _]]; auto.
  - unfold join_step at 2 in H. cbn [fst] in H.
    destruct (f q) eqn:Fq.
    + destruct (pmem q t) eqn:Mq.
      * apply IH in H. destruct H as (A & B & C & D & E). repeat split; auto.
        -- intros Hp. apply A in Hp. destruct Hp as [?|[? ?]]; [left; auto | right; split; [right|]; auto].
        -- intros [Hp|[[->|Hp] Fp]]; apply A; auto. left. apply pmem_spec; exact Mq.
      * apply IH in H. destruct H as (A & B & C & D & E).
        assert (Hnq : ~ In q t) by (apply pmem_false; exact Mq).
        repeat split.
        -- intros Hp. apply A in Hp. destruct Hp as [Hp|[Hp Fp]].
           ++ apply in_app_or in Hp. destruct Hp as [Hp|[<-|[]]]; [left; auto | right; split; [left; reflexivity | exact Fq]].
           ++ right; split; [right|]; auto.
        -- intros [Hp|[[->|Hp] Fp]]; apply A.
           ++ left; apply in_or_app; left; exact Hp.
           ++ left; apply in_or_app; right; left; reflexivity.
           ++ right; split; assumption.
        -- intros ND. apply B. apply NoDup_snoc; assumption.
        -- intros _. apply C. reflexivity.
        -- intros _. right. exists q. split; [apply A; left; apply in_or_app; right; left; reflexivity | exact Hnq].
        -- intros Hc. specialize (C eq_refl). congruence.
    + apply IH in H. destruct H as (A & B & C & D & E). repeat split; auto.
      * intros Hp. apply A in Hp. destruct Hp as [?|[? ?]]; [left; auto | right; split; [right|]; auto].
      * intros [Hp|[[->|Hp] Fp]]; apply A; auto. congruence.
Qed.

(* ------------------------------------------------------------------ closures *)

(* transitive closure of a finite pair list (right-linear presentation) *)
Inductive tc (R : list pair) : Z -> Z -> Prop :=
| tc_one x y : In (x, y) R -> tc R x y
| tc_step x y z : tc R x y -> In (y, z) R -> tc R x z.

Lemma tc_trans R x y z : tc R x y -> tc R y z -> tc R x z.
Proof. intros Hxy Hyz. induction Hyz as [y z H | y z w H IH Hzw]; [eapply tc_step; eauto | eapply tc_step; [apply IH; exact Hxy | exact Hzw]]. Qed.

(* tc R is the least transitive relation containing R *)
Lemma tc_least R (S : Z -> Z -> Prop) :
  (forall x y, In (x, y) R -> S x y) -> (forall x y z, S x y -> S y z -> S x z) ->
  forall x y, tc R x y -> S x y.
Proof. intros HR HS x y H. induction H; eauto. Qed.

Lemma tc_sub R R' : (forall x y, In (x, y) R -> tc R' x y) -> forall x y, tc R x y -> tc R' x y.
Proof. intros H. apply tc_least; [exact H | intros; eapply tc_trans; eauto]. Qed.

Lemma tc_mono R R' : incl R R' -> forall x y, tc R x y -> tc R' x y.
Proof. intros H. apply tc_sub. intros; apply tc_one; apply H; assumption. Qed.

Lemma tc_src R x y : tc R x y -> exists y', In (x, y') R.
Proof. induction 1; eauto. Qed.
Lemma tc_dst R x y : tc R x y -> exists x', In (x', y) R.
Proof. induction 1; eauto. Qed.

(* the anti_reflexive filter: a derived pair (x,y) may be added iff the flag is off or x <> y *)
Definition ok (b : bool) (p : pair) : Prop := b = false \/ fst p <> snd p.

Lemma ok_dec b p : {ok b p} + {b = true /\ fst p = snd p}.
Proof.
  destruct b; [|left; left; reflexivity].
  destruct (Z.eq_dec (fst p) (snd p)); [right; auto | left; right; assumption].
Qed.

Lemma ok_negb b p : negb (b && (fst p =? snd p)) = true <-> ok b p.
Proof.
  unfold ok. destruct b; cbn.
  - rewrite negb_true_iff, Z.eqb_neq. split; [intros; right; assumption | intros [?|?]; [discriminate | assumption]].
  - split; auto.
Qed.

(* what the provider computes from a set of inserted pairs: the pairs themselves plus the derived
   pairs that pass the filter.  cl false = tc. *)
Definition cl (b : bool) (R : list pair) (p : pair) : Prop := In p R \/ (tc R (fst p) (snd p) /\ ok b p).

Lemma cl_false_tc R p : cl false R p <-> tc R (fst p) (snd p).
Proof.
  unfold cl. split.
  - intros [H|[H _]]; [destruct p; apply tc_one; exact H | exact H].
  - intros H. right. split; [exact H | left; reflexivity].
Qed.

Lemma cl_tc b R p : cl b R p -> tc R (fst p) (snd p).
Proof. intros [H|[H _]]; [destruct p; apply tc_one; exact H | exact H]. Qed.

(* closed under composition, modulo the filter *)
Definition bclosed (b : bool) (S : list pair) : Prop :=
  forall x y z, In (x, y) S -> In (y, z) S -> ok b (x, z) -> In (x, z) S.

Lemma bclosed_tc b S : bclosed b S -> forall x y, tc S x y -> ok b (x, y) -> In (x, y) S.
Proof.
  intros HS x y H. induction H as [x y H | x y z H IH Hyz]; intros Hok; [exact H|].
  destruct (ok_dec b (x, y)) as [Hxy | [_ E]].
  - eapply HS; eauto.
  - cbn in E. subst y. exact Hyz.
Qed.

Lemma cl_bclosed_set b R S : (forall p, In p S <-> cl b R p) -> bclosed b S.
Proof.
  intros H x y z Hxy Hyz Hok. apply H. right. split; [|exact Hok]. cbn.
  apply H in Hxy. apply H in Hyz. apply cl_tc in Hxy. apply cl_tc in Hyz. eapply tc_trans; eauto.
Qed.

Lemma cl_of_closed b S p : bclosed b S -> (cl b S p <-> In p S).
Proof.
  intros HS. split; [|intros; left; assumption].
  intros [H|[H Hok]]; [exact H|]. destruct p as [x y]. apply (bclosed_tc b S HS x y H Hok).
Qed.

Lemma cl_sub b A B : (forall p, In p A -> cl b B p) -> forall p, cl b A p -> cl b B p.
Proof.
  intros H p [Hp|[Hp Hok]]; [apply H; exact Hp|]. right. split; [|exact Hok].
  revert Hp. apply tc_sub. intros x y Hxy. apply (cl_tc b B (x, y)). apply H. exact Hxy.
Qed.

Lemma cl_app_congr b A B C : (forall p, cl b A p <-> cl b B p) -> forall p, cl b (A ++ C) p <-> cl b (B ++ C) p.
Proof.
  assert (G : forall A B, (forall p, cl b A p -> cl b B p) -> forall p, cl b (A ++ C) p -> cl b (B ++ C) p).
  { intros A0 B0 H. apply cl_sub. intros p Hp. apply in_app_or in Hp. destruct Hp as [Hp|Hp].
    - assert (Hc : cl b B0 p) by (apply H; left; exact Hp).
      revert Hc. apply cl_sub. intros q Hq. left. apply in_or_app; left; exact Hq.
    - left. apply in_or_app; right; exact Hp. }
  intros H p. split; apply G; intros q; apply H.
Qed.

Lemma cl_same_elements b A B : (forall p, In p A <-> In p B) -> forall p, cl b A p <-> cl b B p.
Proof. intros H p. split; apply cl_sub; intros q Hq; left; apply H; exact Hq. Qed.

(* ------------------------------------------------------------------ the inner loop *)

Lemma can_add_spec b dd dt total p :
  can_add b dd dt total p = true <-> ok b p /\ ~ In p dd /\ ~ In p dt /\ ~ In p total.
Proof.
  unfold can_add. rewrite !andb_true_iff, !negb_true_iff, !pmem_false.
  rewrite <- ok_negb, negb_true_iff. tauto.
Qed.

Section Loop.
  Variable b : bool.
  Variable T N : list pair.
  Hypothesis HT : bclosed b T.

  (* the pairs the merge is supposed to add *)
  Definition target (p : pair) : Prop := In p N \/ (tc (T ++ N) (fst p) (snd p) /\ ok b p /\ ~ In p T).

  Record Inv (dd dt : list pair) : Prop := {
    inv_new : incl N (dt ++ dd);
    inv_sound : forall p, In p (dt ++ dd) -> target p;
    inv_l : forall x y z, In (x, y) T -> In (y, z) dt -> ok b (x, z) -> In (x, z) (T ++ dt ++ dd);
    inv_r : forall x y z, In (x, y) dt -> In (y, z) T -> ok b (x, z) -> In (x, z) (T ++ dt ++ dd);
    inv_n : forall x y z, In (x, y) dt -> In (y, z) N -> ok b (x, z) -> In (x, z) (T ++ dt ++ dd) }.

  Lemma target_tc p : target p -> tc (T ++ N) (fst p) (snd p).
  Proof. intros [H|[H _]]; [destruct p; apply tc_one; apply in_or_app; right; exact H | exact H]. Qed.

  Lemma Inv_init : Inv N [].
  Proof.
    constructor; cbn.
    - apply incl_refl.
    - intros p Hp. left. exact Hp.
    - intros x y z _ [].
    - intros x y z [].
    - intros x y z [].
  Qed.

  (* one round of the three joins *)
  Lemma joins_spec dd dt dn1 c1 dn2 c2 dn3 c3 :
    join (can_add b dd dt T) [] dd T = (dn1, c1) ->
    join (can_add b dd dt T) dn1 T dd = (dn2, c2) ->
    join (can_add b dd dt T) dn2 N dd = (dn3, c3) ->
    (forall p, In p dn3 <-> (In p (compose T dd) \/ In p (compose dd T) \/ In p (compose dd N)) /\ can_add b dd dt T p = true) /\
    NoDup dn3 /\
    (c1 || c2 || c3 = true -> dn3 <> []) /\
    (c1 || c2 || c3 = false -> dn3 = []).
  Proof.
    unfold join. intros H1 H2 H3.
    apply join_fold_spec in H1. destruct H1 as (A1 & B1 & C1 & D1 & E1).
    apply join_fold_spec in H2. destruct H2 as (A2 & B2 & C2 & D2 & E2).
    apply join_fold_spec in H3. destruct H3 as (A3 & B3 & C3 & D3 & E3).
    split; [|split; [|split]].
    - intros p. split.
      + intros Hp. apply A3 in Hp. destruct Hp as [Hp|[? ?]]; [|tauto].
        apply A2 in Hp. destruct Hp as [Hp|[? ?]]; [|tauto].
        apply A1 in Hp. destruct Hp as [[]|[? ?]]. tauto.
      + intros [[H|[H|H]] F]; apply A3.
        * left. apply A2. left. apply A1. right. tauto.
        * left. apply A2. right. tauto.
        * right. tauto.
    - apply B3, B2, B1. constructor.
    - intros Hc E. subst dn3.
      assert (M2 : forall p, In p dn2 -> False) by (intros p Hp; apply (A3 p); left; exact Hp).
      assert (M1 : forall p, In p dn1 -> False) by (intros p Hp; apply (M2 p); apply A2; left; exact Hp).
      apply orb_true_iff in Hc. destruct Hc as [Hc|Hc]; [apply orb_true_iff in Hc; destruct Hc as [Hc|Hc]|].
      + apply D1 in Hc. destruct Hc as [?|[p [Hp _]]]; [discriminate | exact (M1 p Hp)].
      + apply D2 in Hc. destruct Hc as [?|[p [Hp _]]]; [discriminate | exact (M2 p Hp)].
      + apply D3 in Hc. destruct Hc as [?|[p [[] _]]]. discriminate.
    - intros Hc. apply orb_false_iff in Hc. destruct Hc as [Hc H3]. apply orb_false_iff in Hc. destruct Hc as [H1 H2].
      rewrite (E3 H3), (E2 H2), (E1 H1). reflexivity.
  Qed.

  Lemma Inv_step dd dt dn :
    Inv dd dt ->
    (forall p, In p dn <-> (In p (compose T dd) \/ In p (compose dd T) \/ In p (compose dd N)) /\ can_add b dd dt T p = true) ->
    Inv dn (dt ++ dd).
  Proof.
    intros I Hdn.
    assert (Hin : forall x z, (In (x, z) (compose T dd) \/ In (x, z) (compose dd T) \/ In (x, z) (compose dd N)) ->
                  ok b (x, z) -> In (x, z) (T ++ (dt ++ dd) ++ dn)).
    { intros x z Hc Hok. destruct (can_add b dd dt T (x, z)) eqn:Ca.
      - apply in_or_app; right. apply in_or_app; right. apply Hdn. split; assumption.
      - destruct (In_dec_pair (x, z) dd) as [?|N1]; [apply in_or_app; right; apply in_or_app; left; apply in_or_app; right; assumption|].
        destruct (In_dec_pair (x, z) dt) as [?|N2]; [apply in_or_app; right; apply in_or_app; left; apply in_or_app; left; assumption|].
        destruct (In_dec_pair (x, z) T) as [?|N3]; [apply in_or_app; left; assumption|].
        exfalso. assert (can_add b dd dt T (x, z) = true) by (apply can_add_spec; tauto). congruence. }
    assert (Hw : forall p, In p (T ++ dt ++ dd) -> In p (T ++ (dt ++ dd) ++ dn)).
    { intros p Hp. apply in_app_or in Hp. destruct Hp as [Hp|Hp]; apply in_or_app; [left; exact Hp | right; apply in_or_app; left; exact Hp]. }
    constructor.
    - intros p Hp. apply in_or_app; left. apply (inv_new _ _ I). exact Hp.
    - intros p Hp. apply in_app_or in Hp. destruct Hp as [Hp|Hp]; [apply (inv_sound _ _ I); exact Hp|].
      apply Hdn in Hp. destruct Hp as [Hc Ca]. apply can_add_spec in Ca. destruct Ca as (Hok & _ & _ & HnT).
      right. split; [|split; assumption]. destruct p as [w y]. cbn [fst snd].
      assert (Hdd : forall u v, In (u, v) dd -> tc (T ++ N) u v).
      { intros u v Huv. apply (target_tc (u, v)). apply (inv_sound _ _ I). apply in_or_app; right; exact Huv. }
      destruct Hc as [Hc|[Hc|Hc]]; apply compose_spec in Hc; destruct Hc as [x [H2 H1]].
      + eapply tc_trans; [apply tc_one; apply in_or_app; left; exact H2 | apply Hdd; exact H1].
      + eapply tc_step; [apply Hdd; exact H2 | apply in_or_app; left; exact H1].
      + eapply tc_step; [apply Hdd; exact H2 | apply in_or_app; right; exact H1].
    - intros x y z Hxy Hyz Hok. apply in_app_or in Hyz. destruct Hyz as [Hyz|Hyz].
      + apply Hw. eapply (inv_l _ _ I); eauto.
      + apply Hin; [|exact Hok]. left. apply compose_spec. exists y. split; assumption.
    - intros x y z Hxy Hyz Hok. apply in_app_or in Hxy. destruct Hxy as [Hxy|Hxy].
      + apply Hw. eapply (inv_r _ _ I); eauto.
      + apply Hin; [|exact Hok]. right; left. apply compose_spec. exists y. split; assumption.
    - intros x y z Hxy Hyz Hok. apply in_app_or in Hxy. destruct Hxy as [Hxy|Hxy].
      + apply Hw. eapply (inv_n _ _ I); eauto.
      + apply Hin; [|exact Hok]. right; right. apply compose_spec. exists y. split; assumption.
  Qed.

  (* at the exit (delta_delta empty) everything derivable has been added *)
  Lemma Inv_final K : Inv [] K -> forall x y, tc (T ++ N) x y -> ok b (x, y) -> In (x, y) T \/ In (x, y) K.
  Proof.
    intros I x y H. induction H as [x y H | x y z H IH Hyz]; intros Hok.
    - apply in_app_or in H. destruct H as [H|H]; [left; exact H | right].
      pose proof (inv_new _ _ I _ H) as H'. rewrite app_nil_r in H'. exact H'.
    - assert (Fin : forall p, In p (T ++ K ++ []) -> In p T \/ In p K).
      { intros p Hp. rewrite app_nil_r in Hp. apply in_app_or in Hp. exact Hp. }
      assert (HNK : forall p, In p N -> In p K).
      { intros p Hp. pose proof (inv_new _ _ I _ Hp) as H'. rewrite app_nil_r in H'. exact H'. }
      destruct (ok_dec b (x, y)) as [Hxy | [_ E]].
      + specialize (IH Hxy). apply in_app_or in Hyz. destruct IH as [IH|IH]; destruct Hyz as [Hyz|Hyz].
        * left. eapply HT; eauto.
        * apply Fin. eapply (inv_l _ _ I); eauto.
        * apply Fin. eapply (inv_r _ _ I); eauto.
        * apply Fin. eapply (inv_n _ _ I); eauto.
      + cbn in E. subst y. apply in_app_or in Hyz. destruct Hyz as [Hyz|Hyz]; [left; exact Hyz | right; apply HNK; exact Hyz].
  Qed.

  Lemma inner_loop_spec : forall fuel dd dt r,
    Inv dd dt -> inner_loop fuel b T N dd dt = Some r -> forall p, In p r <-> target p.
  Proof.
    induction fuel as [|fuel IH]; intros dd dt r I H; [discriminate|].
    cbn [inner_loop] in H.
    destruct (join (can_add b dd dt T) [] dd T) as [dn1 c1] eqn:J1.
    destruct (join (can_add b dd dt T) dn1 T dd) as [dn2 c2] eqn:J2.
    destruct (join (can_add b dd dt T) dn2 N dd) as [dn3 c3] eqn:J3.
    destruct (joins_spec _ _ _ _ _ _ _ _ J1 J2 J3) as (Hdn & _ & _ & Hnil).
    pose proof (Inv_step dd dt dn3 I Hdn) as I'.
    destruct (c1 || c2 || c3) eqn:Ch.
    - eapply IH; eauto.
    - inversion H; subst r. rewrite (Hnil eq_refl) in I'.
      intros p. split.
      + intros Hp. apply (inv_sound _ _ I'). rewrite app_nil_r. exact Hp.
      + intros Ht. destruct Ht as [Hn | (Htc & Hok & HnT)].
        * pose proof (inv_new _ _ I' _ Hn) as H'. rewrite app_nil_r in H'. exact H'.
        * destruct p as [x y]. destruct (Inv_final _ I' x y Htc Hok) as [?|?]; [contradiction | assumption].
  Qed.
End Loop.

(* ------------------------------------------------------------------ the merge *)

Theorem bmerge_spec b st st' :
  bclosed b (b_total st ++ b_delta st) ->
  bmerge b st = Some st' ->
  b_new st' = [] /\ b_total st' = b_total st ++ b_delta st /\
  (forall p, In p (b_delta st') <-> target b (b_total st ++ b_delta st) (b_new st) p).
Proof.
  intros HT H. unfold bmerge in H.
  destruct (inner_loop _ b _ (b_new st) (b_new st) []) as [d|] eqn:L; [|discriminate].
  inversion H; subst st'; cbn. repeat split; try reflexivity.
  - intros Hp. eapply (inner_loop_spec b _ _ HT) in L; [apply L; exact Hp | apply Inv_init].
  - intros Hp. eapply (inner_loop_spec b _ _ HT) in L; [apply L; exact Hp | apply Inv_init].
Qed.

(* total' ++ delta' is exactly cl of (total ++ delta) ++ new *)
Theorem bmerge_cl b st st' :
  bclosed b (b_total st ++ b_delta st) ->
  bmerge b st = Some st' ->
  forall p, In p (b_total st' ++ b_delta st') <-> cl b ((b_total st ++ b_delta st) ++ b_new st) p.
Proof.
  intros HT H. destruct (bmerge_spec b st st' HT H) as (_ & Et & Hd). intros p. rewrite Et. split.
  - intros Hp. apply in_app_or in Hp. destruct Hp as [Hp|Hp].
    + left. apply in_or_app; left; exact Hp.
    + apply Hd in Hp. destruct Hp as [Hp|(Htc & Hok & _)]; [left; apply in_or_app; right; exact Hp | right; split; assumption].
  - intros [Hp|[Htc Hok]].
    + apply in_app_or in Hp. destruct Hp as [Hp|Hp]; apply in_or_app; [left; exact Hp | right; apply Hd; left; exact Hp].
    + destruct (In_dec_pair p (b_total st ++ b_delta st)) as [Hi|Hn]; apply in_or_app; [left; exact Hi | right].
      apply Hd. right. repeat split; assumption.
Qed.

(* the headline: with anti_reflexive = false and a transitively closed total, the merge computes the closure *)
Definition transitive_list (S : list pair) : Prop := forall x y z, In (x, y) S -> In (y, z) S -> In (x, z) S.

Theorem trrel_merge_closure st st' :
  transitive_list (b_total st ++ b_delta st) ->
  bmerge false st = Some st' ->
  forall x y, In (x, y) (b_delta st' ++ b_total st') <-> tc (b_total st ++ b_delta st ++ b_new st) x y.
Proof.
  intros HT H x y.
  assert (HB : bclosed false (b_total st ++ b_delta st)) by (intros a c d H1 H2 _; eapply HT; eauto).
  pose proof (bmerge_cl false st st' HB H (x, y)) as E. rewrite cl_false_tc in E. cbn [fst snd] in E.
  rewrite app_assoc. rewrite <- E. split; intros Hp; apply in_app_or in Hp; apply in_or_app; tauto.
Qed.

(* ------------------------------------------------------------------ the merge never runs out of fuel *)

Lemma NoDup_app_intro {A} (l l' : list A) :
  NoDup l -> NoDup l' -> (forall x, In x l -> ~ In x l') -> NoDup (l ++ l').
Proof.
  induction l as [|a l IH]; intros H1 H2 H; cbn; [exact H2|].
  inversion H1; subst. constructor.
  - intros Hin. apply in_app_or in Hin. destruct Hin as [?|Hin]; [contradiction|]. apply (H a); [left; reflexivity | exact Hin].
  - apply IH; auto. intros x Hx. apply H. right; exact Hx.
Qed.

Definition endpoints (l : list pair) : list Z := map fst l ++ map snd l.
Definition universe (l : list pair) : list pair := list_prod (endpoints l) (endpoints l).

Lemma in_universe l x y : In x (endpoints l) -> In y (endpoints l) -> In (x, y) (universe l).
Proof. intros; apply in_prod; assumption. Qed.
Lemma universe_inv l x y : In (x, y) (universe l) -> In x (endpoints l) /\ In y (endpoints l).
Proof. intros H; apply in_prod_iff in H; exact H. Qed.
Lemma endpoints_l l x y : In (x, y) l -> In x (endpoints l).
Proof. intros H. apply in_or_app; left. apply (in_map fst) in H. exact H. Qed.
Lemma endpoints_r l x y : In (x, y) l -> In y (endpoints l).
Proof. intros H. apply in_or_app; right. apply (in_map snd) in H. exact H. Qed.

Lemma universe_length l : length (universe l) = ((2 * length l) * (2 * length l))%nat.
Proof. unfold universe, pair. rewrite prod_length. unfold endpoints. rewrite app_length, !map_length. lia. Qed.

Lemma inner_loop_total b T N : forall fuel dd dt,
  NoDup (dt ++ dd) -> incl (dt ++ dd) (universe (T ++ N)) ->
  (length (universe (T ++ N)) - length (dt ++ dd) < fuel)%nat ->
  exists r, inner_loop fuel b T N dd dt = Some r.
Proof.
  induction fuel as [|fuel IH]; intros dd dt ND Hin Hf; [lia|].
  cbn [inner_loop].
  destruct (join (can_add b dd dt T) [] dd T) as [dn1 c1] eqn:J1.
  destruct (join (can_add b dd dt T) dn1 T dd) as [dn2 c2] eqn:J2.
  destruct (join (can_add b dd dt T) dn2 N dd) as [dn3 c3] eqn:J3.
  destruct (joins_spec b T N _ _ _ _ _ _ _ _ J1 J2 J3) as (Hdn & NDn & Hne & _).
  destruct (c1 || c2 || c3) eqn:Ch; [|eexists; reflexivity].
  specialize (Hne eq_refl).
  assert (ND' : NoDup ((dt ++ dd) ++ dn3)).
  { apply NoDup_app_intro; auto. intros p Hp Hq. apply Hdn in Hq. destruct Hq as [_ Ca].
    apply can_add_spec in Ca. apply in_app_or in Hp. tauto. }
  assert (Hin' : incl ((dt ++ dd) ++ dn3) (universe (T ++ N))).
  { intros p Hp. apply in_app_or in Hp. destruct Hp as [Hp|Hp]; [apply Hin; exact Hp|].
    apply Hdn in Hp. destruct Hp as [Hc _]. destruct p as [w y].
    assert (Hdd : forall u v, In (u, v) dd -> In u (endpoints (T ++ N)) /\ In v (endpoints (T ++ N))).
    { intros u v Huv. apply universe_inv. apply Hin. apply in_or_app; right; exact Huv. }
    assert (HT : forall u v, In (u, v) T -> In u (endpoints (T ++ N)) /\ In v (endpoints (T ++ N))).
    { intros u v Huv. split; [eapply endpoints_l | eapply endpoints_r]; apply in_or_app; left; exact Huv. }
    assert (HN : forall u v, In (u, v) N -> In u (endpoints (T ++ N)) /\ In v (endpoints (T ++ N))).
    { intros u v Huv. split; [eapply endpoints_l | eapply endpoints_r]; apply in_or_app; right; exact Huv. }
    destruct Hc as [Hc|[Hc|Hc]]; apply compose_spec in Hc; destruct Hc as [x [H2 H1]]; apply in_universe.
    - apply (HT _ _ H2). - apply (Hdd _ _ H1).
    - apply (Hdd _ _ H2). - apply (HT _ _ H1).
    - apply (Hdd _ _ H2). - apply (HN _ _ H1). }
  apply IH; auto.
  pose proof (NoDup_incl_length ND' Hin') as L.
  rewrite app_length in L |- *.
  assert (length dn3 > 0)%nat by (destruct dn3; [congruence | cbn; lia]).
  lia.
Qed.

Theorem bmerge_total b st : NoDup (b_new st) -> exists st', bmerge b st = Some st'.
Proof.
  intros ND. unfold bmerge.
  destruct (inner_loop_total b (b_total st ++ b_delta st) (b_new st) (merge_fuel (b_total st ++ b_delta st) (b_new st)) (b_new st) []) as [r Hr].
  - exact ND.
  - cbn. intros [x y] Hp. apply in_universe; [eapply endpoints_l | eapply endpoints_r]; apply in_or_app; right; exact Hp.
  - unfold merge_fuel. rewrite universe_length. lia.
  - rewrite Hr. eexists; reflexivity.
Qed.

(* ------------------------------------------------------------------ histories of the engine protocol *)

(* insertions (head update), merges, SCC boundaries; `ins` collects every tuple a rule tried to insert.
   An SCC ends only after a merge that found `new` empty (so delta is empty): anything else is not a
   history of generated code and yields None. *)
Fixpoint brun (b : bool) (st : bstate) (ins : list pair) (ops : list bop) : option (bstate * list pair) :=
  match ops with
  | [] => Some (st, ins)
  | BIns x y :: rest => brun b (fst (binsert (x, y) st)) (ins ++ [(x, y)]) rest
  | BMerge :: rest => match bmerge b st with Some st' => brun b st' ins rest | None => None end
  | BRestart :: rest =>
      if isnil (b_new st) && isnil (b_delta st) then brun b (brestart st) ins rest else None
  end.

Definition reads (st : bstate) : list pair := b_total st ++ b_delta st.   (* Tread ++ Dread *)

Record J (b : bool) (st : bstate) (ins : list pair) : Prop := {
  j_closed : bclosed b (reads st);
  j_nodup : NoDup (b_new st);
  j_cl : forall p, cl b ins p <-> cl b (reads st ++ b_new st) p }.

Lemma J_init b : J b bempty [].
Proof. constructor; cbn; [intros x y z [] | constructor | tauto]. Qed.

Lemma isnil_true {A} (l : list A) : isnil l = true -> l = [].
Proof. destruct l; [reflexivity | discriminate]. Qed.

(* complete description of the head update (law P1 and the two contains_key tests, law P5) *)
Lemma binsert_spec p st :
  let '(st', o) := binsert p st in
  b_total st' = b_total st /\ b_delta st' = b_delta st /\
  ((In p (reads st) /\ st' = st /\ o = [Z.b2z (pmem p (b_total st)); Z.b2z (pmem p (b_delta st)); 2]) \/
   (~ In p (reads st) /\ In p (b_new st) /\ st' = st /\ o = [0; 0; 0]) \/
   (~ In p (reads st) /\ ~ In p (b_new st) /\ b_new st' = b_new st ++ [p] /\ o = [0; 0; 1])).
Proof.
  unfold binsert, reads.
  destruct (pmem p (b_total st)) eqn:Et; cbn [orb].
  - repeat split; auto. left. repeat split; auto. apply in_or_app; left; apply pmem_spec; exact Et.
  - destruct (pmem p (b_delta st)) eqn:Ed; cbn [orb].
    + repeat split; auto. left. repeat split; auto. apply in_or_app; right; apply pmem_spec; exact Ed.
    + assert (Hn : ~ In p (b_total st ++ b_delta st)).
      { intros H. apply in_app_or in H. apply pmem_false in Et. apply pmem_false in Ed. tauto. }
      unfold brel_insert. destruct (pmem p (b_new st)) eqn:En; cbn.
      * repeat split; auto. right; left. repeat split; auto; [apply pmem_spec; exact En | destruct st; reflexivity].
      * repeat split; auto. right; right. repeat split; auto. apply pmem_false; exact En.
Qed.

Lemma J_insert b st ins p : J b st ins -> J b (fst (binsert p st)) (ins ++ [p]).
Proof.
  intros [Hc Hn Hcl]. pose proof (binsert_spec p st) as S. destruct (binsert p st) as [st' o]. cbn [fst].
  destruct S as (Et & Ed & S).
  assert (Er : reads st' = reads st) by (unfold reads; rewrite Et, Ed; reflexivity).
  destruct S as [(Hin & -> & _) | [(Hnin & Hin & -> & _) | (Hnin & Hnn & En & _)]].
  - constructor; auto. intros q. rewrite (cl_app_congr b _ _ [p] Hcl q).
    apply cl_same_elements. intros r. rewrite !in_app_iff. cbn. intuition (subst; auto).
  - constructor; auto. intros q. rewrite (cl_app_congr b _ _ [p] Hcl q).
    apply cl_same_elements. intros r. rewrite !in_app_iff. cbn. intuition (subst; auto).
  - constructor.
    + rewrite Er; exact Hc.
    + rewrite En. apply NoDup_snoc; assumption.
    + intros q. rewrite (cl_app_congr b _ _ [p] Hcl q). rewrite Er, En, app_assoc. tauto.
Qed.

Lemma J_merge b st st' ins : J b st ins -> bmerge b st = Some st' ->
  J b st' ins /\ b_new st' = [] /\ b_total st' = reads st /\ forall p, In p (reads st') <-> cl b ins p.
Proof.
  intros [Hc Hn Hcl] H. pose proof (bmerge_cl b st st' Hc H) as E.
  destruct (bmerge_spec b st st' Hc H) as (En & Et & _).
  assert (R : forall p, In p (reads st') <-> cl b ins p) by (intros p; rewrite Hcl; apply E).
  split; [|split; [exact En | split; [exact Et | exact R]]].
  constructor.
  - eapply cl_bclosed_set. exact R.
  - rewrite En. constructor.
  - intros p. rewrite En, app_nil_r. rewrite (cl_of_closed b (reads st') p); [symmetry; apply R | eapply cl_bclosed_set; exact R].
Qed.

Lemma J_restart b st ins : J b st ins -> b_new st = [] -> b_delta st = [] -> J b (brestart st) ins.
Proof.
  intros [Hc Hn Hcl] En Ed. unfold reads in *. constructor; unfold reads, brestart; cbn.
  - rewrite Ed, app_nil_r in Hc. exact Hc.
  - constructor.
  - intros p. rewrite Hcl, En, Ed, !app_nil_r. reflexivity.
Qed.

Theorem brun_inv b : forall ops st ins st' ins',
  J b st ins -> brun b st ins ops = Some (st', ins') -> J b st' ins'.
Proof.
  induction ops as [|o ops IH]; intros st ins st' ins' HJ H; cbn [brun] in H.
  - inversion H; subst; exact HJ.
  - destruct o as [x y| |].
    + eapply IH; [|exact H]. apply J_insert; exact HJ.
    + destruct (bmerge b st) as [st1|] eqn:M; [|discriminate].
      eapply IH; [|exact H]. eapply J_merge; eauto.
    + destruct (isnil (b_new st) && isnil (b_delta st)) eqn:C; [|discriminate].
      apply andb_true_iff in C. destruct C as [C1 C2]. apply isnil_true in C1, C2.
      eapply IH; [|exact H]. apply J_restart; auto.
Qed.

(* at every loop head (new empty) the relation served by total and delta is cl of everything inserted *)
Theorem brun_reads b ops st ins :
  brun b bempty [] ops = Some (st, ins) -> b_new st = [] ->
  forall p, In p (reads st) <-> cl b ins p.
Proof.
  intros H En p. pose proof (brun_inv b ops _ _ _ _ (J_init b) H) as [Hc _ Hcl].
  rewrite Hcl, En, app_nil_r. symmetry. apply cl_of_closed. exact Hc.
Qed.

(* no merge of a reachable state runs out of fuel *)
Theorem brun_merge_defined b ops st ins :
  brun b bempty [] ops = Some (st, ins) -> exists st', bmerge b st = Some st'.
Proof. intros H. apply bmerge_total. apply (j_nodup _ _ _ (brun_inv b ops _ _ _ _ (J_init b) H)). Qed.

(* ------------------------------------------------------------------ the property, the defect, the guard *)

(* with anti_reflexive = false (the shipped value) the provider is exactly the explicit transitive closure
   (law P2 with cl = tc) *)
Theorem trrel_closure_flag_off ops st ins :
  brun false bempty [] ops = Some (st, ins) -> b_new st = [] ->
  forall x y, In (x, y) (reads st) <-> tc ins x y.
Proof. intros H En x y. rewrite (brun_reads false ops st ins H En (x, y)). apply cl_false_tc. Qed.

Theorem trrel_closure ops st ins :
  brun shipped_arefl bempty [] ops = Some (st, ins) -> b_new st = [] ->
  forall x y, In (x, y) (reads st) <-> tc ins x y.
Proof. exact (trrel_closure_flag_off ops st ins). Qed.

(* ---- the behaviour before commit 2cd049f (anti_reflexive created `true`), kept as statements about the model
   with the flag parameter set to true.  Class of the lost tuples (former finding F3): the tuple is (x,x),
   derivable (x lies on a cycle) and not inserted itself *)
Definition known_c11 (ins : list pair) (p : pair) : bool := (fst p =? snd p) && negb (pmem p ins).

Theorem trrel_flag_on_guarded ops st ins :
  brun true bempty [] ops = Some (st, ins) -> b_new st = [] ->
  forall p, (In p (reads st) -> tc ins (fst p) (snd p)) /\
            (tc ins (fst p) (snd p) -> known_c11 ins p = false -> In p (reads st)).
Proof.
  intros H En p. pose proof (brun_reads _ ops st ins H En p) as R. split.
  - intros Hp. apply R in Hp. eapply cl_tc; exact Hp.
  - intros Htc Hk. apply R. unfold known_c11 in Hk. apply andb_false_iff in Hk. destruct Hk as [Hk|Hk].
    + right. split; [exact Htc | right; apply Z.eqb_neq; exact Hk].
    + left. apply negb_false_iff in Hk. apply pmem_spec; exact Hk.
Qed.

(* exactly what is lost: the shipped provider misses p iff p is in the known class *)
Theorem trrel_flag_on_exact ops st ins :
  brun true bempty [] ops = Some (st, ins) -> b_new st = [] ->
  forall p, tc ins (fst p) (snd p) -> (~ In p (reads st) <-> known_c11 ins p = true).
Proof.
  intros H En p Htc. pose proof (brun_reads _ ops st ins H En p) as R. unfold known_c11. split.
  - intros Hn. apply andb_true_iff. split.
    + destruct (Z.eqb_spec (fst p) (snd p)); [reflexivity|]. exfalso. apply Hn, R. right. split; [exact Htc | right; assumption].
    + apply negb_true_iff, pmem_false. intros Hi. apply Hn, R. left; exact Hi.
  - intros Hk Hp. apply andb_true_iff in Hk. destruct Hk as [He Hm]. apply Z.eqb_eq in He.
    apply negb_true_iff, pmem_false in Hm. apply R in Hp. destruct Hp as [Hp|[_ [Hf|Hne]]]; [contradiction | discriminate | contradiction].
Qed.

Definition cycle_witness : list bop := [BIns 1 2; BIns 2 1; BMerge; BMerge].

Theorem trrel_flag_on_refuted :
  exists ops st ins p, brun true bempty [] ops = Some (st, ins) /\ b_new st = [] /\
                       tc ins (fst p) (snd p) /\ ~ In p (reads st).
Proof.
  exists cycle_witness.
  destruct (brun true bempty [] cycle_witness) as [[st ins]|] eqn:E; [|vm_compute in E; discriminate].
  exists st, ins, (1, 1). vm_compute in E. inversion E; subst. cbn.
  repeat split.
  - eapply tc_step; [apply tc_one; left; reflexivity | right; left; reflexivity].
  - intros [H|[H|[]]]; discriminate.
Qed.

(* ------------------------------------------------------------------ views (laws P4, P5) *)

Lemma v_i0_get1_spec r x p : In p (v_i0_get1 r x) <-> In p r /\ fst p = x.
Proof. unfold v_i0_get1. rewrite filter_In, Z.eqb_eq. tauto. Qed.
Lemma v_i1_get1_spec r y p : In p (v_i1_get1 r y) <-> In p r /\ snd p = y.
Proof. unfold v_i1_get1. rewrite filter_In, Z.eqb_eq. tauto. Qed.

Lemma zdedup_In l x : In x (zdedup l) <-> In x l.
Proof. unfold zdedup. apply nodup_In. Qed.

Lemma v_i0_iter_spec r p : In p (v_i0_iter r) <-> In p r.
Proof.
  unfold v_i0_iter. rewrite in_flat_map. split.
  - intros [x [_ H]]. apply v_i0_get1_spec in H. tauto.
  - intros H. exists (fst p). split; [apply zdedup_In; apply in_map; exact H | apply v_i0_get1_spec; tauto].
Qed.
Lemma v_i1_iter_spec r p : In p (v_i1_iter r) <-> In p r.
Proof.
  unfold v_i1_iter. rewrite in_flat_map. split.
  - intros [x [_ H]]. apply v_i1_get1_spec in H. tauto.
  - intros H. exists (snd p). split; [apply zdedup_In; apply in_map; exact H | apply v_i1_get1_spec; tauto].
Qed.

Lemma range_In n x : In x (range n) <-> 0 <= x < Z.of_nat n.
Proof.
  unfold range. rewrite in_map_iff. split.
  - intros [k [<- Hk]]. apply in_seq in Hk. lia.
  - intros H. exists (Z.to_nat x). split; [lia | apply in_seq; lia].
Qed.

Lemma grid_In n p : In p (grid n) <-> 0 <= fst p < Z.of_nat n /\ 0 <= snd p < Z.of_nat n.
Proof. destruct p as [x y]. unfold grid. cbn [fst snd]. rewrite <- !range_In. apply in_prod_iff. Qed.

Lemma v_full_contains_spec n r p : In p (v_full_contains n r) <-> In p r /\ In p (grid n).
Proof. unfold v_full_contains. rewrite filter_In, pmem_spec. tauto. Qed.
Lemma v_i0_get_spec n r p : In p (v_i0_get n r) <-> In p r /\ In (fst p) (range n).
Proof.
  unfold v_i0_get. rewrite in_flat_map. split.
  - intros [x [Hx H]]. apply v_i0_get1_spec in H. destruct H as [H E]. subst x. tauto.
  - intros [H Hx]. exists (fst p). split; [exact Hx | apply v_i0_get1_spec; tauto].
Qed.
Lemma v_i1_get_spec n r p : In p (v_i1_get n r) <-> In p r /\ In (snd p) (range n).
Proof.
  unfold v_i1_get. rewrite in_flat_map. split.
  - intros [x [Hx H]]. apply v_i1_get1_spec in H. destruct H as [H E]. subst x. tauto.
  - intros [H Hx]. exists (snd p). split; [exact Hx | apply v_i1_get1_spec; tauto].
Qed.

(* law P3, unconditionally: the merge moves exactly the old delta into total *)
Lemma bmerge_total_eq b st st' : bmerge b st = Some st' -> b_total st' = b_total st ++ b_delta st /\ b_new st' = [].
Proof.
  unfold bmerge. destruct (inner_loop _ _ _ _ _ _); [|discriminate]. intros H; inversion H; subst; cbn. split; reflexivity.
Qed.

(* ------------------------------------------------------------------ the shared specification (Byods/Closure.v, C10) *)

(* the right-linear tc used here is the tc_rel of the shared closure file, hence its executable Closure.tc *)
Lemma tc_iff_shared R x y : tc R x y <-> Closure.tc_rel R x y.
Proof.
  split.
  - induction 1 as [x y H | x y z H IH Hyz]; [apply Closure.tc_base; exact H | eapply Closure.tc_trans; [exact IH | apply Closure.tc_base; exact Hyz]].
  - induction 1 as [x y H | x y z _ IH1 _ IH2]; [apply tc_one; exact H | eapply tc_trans; eauto].
Qed.

Theorem trrel_closure_shared ops st ins :
  brun shipped_arefl bempty [] ops = Some (st, ins) -> b_new st = [] ->
  forall x y, In (x, y) (reads st) <-> In (x, y) (Closure.tc ins).
Proof. intros H En x y. rewrite (trrel_closure ops st ins H En), Closure.tc_spec. apply tc_iff_shared. Qed.
