(* C12 — the ternary adaptor (BinRelToTernary over TrRelIndCommon, with or without reverse maps) never fails, on EVERY sequence
   of operations: stratum starts, stratum ends, merges, inserts and head updates in any order, keys pausing and resuming.

   The quiescent-history development (TrUfProvTernary.v / TrUfProvViews.v / TrUfProvRevViews.v) follows, per key, a state of the
   binary provider together with a ghost history; it needs a stratum boundary to follow a merge that moved nothing.  Here the
   per-key statement is the one of the binary form on every history (TrUfProvProofs.v part 5: shapes + soundness), generalised to
   absent entries:
     new[k] absent   = the default value (a Total-shaped empty relation, which unwrap_new_mut turns into an empty New)
     total[k] absent = the default value
     delta[k] absent = the default value: the merge of TrRelIndCommon accepts a Total-shaped EMPTY delta next to any total
                       ([kok]: "delta Total-shaped -> total is the empty Total OR delta is empty")
   plus, for each readable version (delta, total, the stored relation), [rs_ok]: every key listed in a reverse map has an entry in
   the version's map (the unwraps of the views [1], [2], [1,2]).
   Theorems:
     pst_step_ok / pst_run_ok     every operation runs from every state satisfying the invariant, and keeps it; the step includes
                                  reading EVERY view of delta and total (read_ter: none / [0] / [0,1] / [0,2] / [1] / [2] / [1,2] /
                                  full index, index_get over the finite domain and iter_all, contains_key, len_estimate of [1,2])
     ter_sound                    every history runs to a state
     ter_never_panics             forall has1 has2 dom kdom ops n e, ~ In (RPanic n e) (run_ter has1 has2 dom kdom ops)
   The modelled failure points are listed in the header of TrUfProvModel.v (asserts, "expected Delta / Total", "unexpected New",
   Vec indexing, the unwraps on reverse maps and map entries, everything inside TrRelUnionFind, fuel of the inner loop). *)
From Coq Require Import List Arith Bool Lia ZArith.
From AV Require Import UF.UfBase.
From AV Require Import UF.TrUfModel.
From AV Require Import UF.TrUfInv.
From AV Require Import UF.TrUfLemmas.
From AV Require Import UF.TrUfQueries.
From AV Require Import UF.TrUfCases.
From AV Require Import UF.TrUfProofs.
From AV Require Import Byods.TrUfProvLaws.
From AV Require Import Byods.TrUfProvTernary.
From AV Require Import Byods.TrUfProvRevViews.
From AV Require Import Byods.TrUfProvModel.
From AV Require Import Byods.TrUfProvProofs.
Import ListNotations.

(* ================================================================== generic: a chain of binds succeeds when every link does *)
Lemma bind_ok : forall A B (r : res A) (k : A -> res B),
  (exists a, r = Ok a) -> (forall a, exists b, k a = Ok b) -> exists b, bind r k = Ok b.
Proof. intros A B r k [a ->] Hk. cbn [bind]. apply Hk. Qed.

Lemma mapM_total_in : forall A B (f : A -> res B) l, (forall a, In a l -> exists b, f a = Ok b) -> exists bs, mapM f l = Ok bs.
Proof. exact mapM_total. Qed.

Lemma optM_total : forall A (r : res (option (list A))), (exists o, r = Ok o) -> exists p, optM r = Ok p.
Proof. intros A r [o ->]. unfold optM. cbn [bind]. destruct o; eexists; reflexivity. Qed.

Lemma keyed_get2_total : forall ks xs get mk, (forall k x, exists o, get k x = Ok o) -> exists r, keyed_get2 ks xs get mk = Ok r.
Proof.
  intros ks xs get mk H. unfold keyed_get2. apply bind_ok; [|intros rows; eexists; reflexivity].
  apply mapM_total. intros kx _. apply bind_ok; [apply optM_total, H|intros r; eexists; reflexivity].
Qed.

(* ================================================================== one key *)
Notation WI := (tinvP (fun _ : nat => True)).
Definition HWI : truf_iface WI := tinv_weak_iface.

Definition kok (Ins : list (nat * nat)) (n d t : common) : Prop :=
  new_ok Ins n /\ ver_ok WI Ins d /\ ver_ok WI Ins t /\ (exists tt, t = CTotal tt) /\
  match d with
  | CTotal dt => t = CTotal tr_empty \/ tr_is_empty dt = true
  | CDelta _ => True
  | CNew _ => False
  end.

Lemma ver_default : forall Ins, ver_ok WI Ins c_default.
Proof. intros Ins. exists []. split; [apply tr_empty_inv|intros x y []]. Qed.

Lemma new_default : forall Ins, new_ok Ins c_default.
Proof. intros Ins. right. reflexivity. Qed.

Lemma bin_kok : forall Ins n d t, bin_ok WI Ins n d t -> kok Ins n d t.
Proof.
  intros Ins n d t [Hn [Hd [Ht [Htt Hsh]]]]. split; [exact Hn|]. split; [exact Hd|]. split; [exact Ht|]. split; [exact Htt|].
  destruct d; [exact Hsh|exact I|left; exact Hsh].
Qed.

Lemma kok_mono : forall Ins Ins' n d t, kok Ins n d t -> (forall p, In p Ins -> In p Ins') -> kok Ins' n d t.
Proof.
  intros Ins Ins' n d t [Hn [Hd [Ht [Htt Hsh]]]] Hi. split; [|split; [|split; [|split]]]; try assumption.
  - destruct Hn as [[r [-> Hr]]| ->]; [left; exists r; split; [reflexivity|auto]|right; reflexivity].
  - eapply ver_ok_mono; eassumption.
  - eapply ver_ok_mono; eassumption.
Qed.

Lemma kok_readable : forall Ins n d t, kok Ins n d t -> methods_total d /\ methods_total t.
Proof.
  intros Ins n d t [_ [Hd [Ht [[tt ->] Hsh]]]]. split.
  - eapply sound_methods_total, (readable_sound WI HWI Ins d Hd). intros r ->. exact Hsh.
  - eapply sound_methods_total, (total_sound WI HWI Ins tt Ht).
Qed.

(* the merge of one key *)
Lemma kok_merge : forall Ins n d t, kok Ins n d t ->
  exists n' d' t', c_merge n d t = Ok (n', d', t') /\ bin_ok WI Ins n' d' t'.
Proof.
  intros Ins n d t [Hn [Hd [Ht [[tt Htt] Hsh]]]].
  assert (Hb : forall sh, sh -> bin_ok WI Ins n d t -> exists n' d' t', c_merge n d t = Ok (n', d', t') /\ bin_ok WI Ins n' d' t')
    by (intros sh _ Hb; apply (merge_ok WI HWI Ins n d t Hb)).
  destruct d as [r|dd|dt]; [destruct Hsh| |].
  - apply (Hb True I). split; [exact Hn|]. split; [exact Hd|]. split; [exact Ht|]. split; [exists tt; exact Htt|exact I].
  - destruct Hsh as [Hsh|Hemp].
    + apply (Hb True I). split; [exact Hn|]. split; [exact Hd|]. split; [exact Ht|]. split; [exists tt; exact Htt|exact Hsh].
    + (* an empty Total-shaped delta (the default value) next to any total: nothing is moved *)
      subst t. destruct (unwrap_new_ok _ _ Hn) as [nrel [Hun Hnrel]].
      assert (Heq : c_merge n (CTotal dt) (CTotal tt) = merge_body nrel [] tt).
      { unfold c_merge, merge_body. rewrite Hemp. cbn [bind d_default d_prec]. rewrite Hun. cbn [bind]. reflexivity. }
      rewrite Heq. destruct Ht as [Et [HE Hs]].
      apply (merge_body_ok WI HWI Ins nrel [] tt Et Hnrel (fun p (H : In p []) => match H with end) HE Hs).
Qed.

(* ================================================================== one version of the ternary relation *)
Definition rdv (V : tern) : Prop :=
  NoDup (map fst (tm V)) /\ (forall i, rs_ok i V) /\ forall k c, aget k (tm V) = Some c -> methods_total c.

Lemma rdv_in : forall V k c, rdv V -> In (k, c) (tm V) -> methods_total c.
Proof. intros V k c [Hnd [_ Hm]] Hin. apply (Hm k c). apply in_aget; assumption. Qed.

Lemma t_all_total : forall V, rdv V -> exists L, t_all V = Ok L.
Proof.
  intros V HV. unfold t_all. apply mapM_total. intros [k c] Hin. cbn [fst snd].
  destruct (rdv_in V k c HV Hin) as [_ [[l Hl] _]]. rewrite Hl. cbn [bind]. eexists; reflexivity.
Qed.

Lemma t_i0_get_total : forall V k, rdv V -> exists o, t_i0_get V k = Ok o.
Proof.
  intros V k [_ [_ Hm]]. unfold t_i0_get. destruct (aget k (tm V)) as [c|] eqn:Hc; [|eexists; reflexivity].
  destruct (Hm k c Hc) as [_ [[l Hl] _]]. rewrite Hl. cbn [bind]. eexists; reflexivity.
Qed.

Lemma t_i0x_get_total : forall rev V k x, rdv V -> exists o, t_i0x_get rev V k x = Ok o.
Proof.
  intros rev V k x [_ [_ Hm]]. unfold t_i0x_get. destruct (aget k (tm V)) as [c|] eqn:Hc; [|eexists; reflexivity].
  destruct (Hm k c Hc) as [_ [_ [Hg _]]]. apply Hg.
Qed.

Lemma t_i0x_all_total : forall rev V, rdv V -> exists L, t_i0x_all rev V = Ok L.
Proof.
  intros rev V HV. unfold t_i0x_all. apply bind_ok; [|intros ls; eexists; reflexivity].
  apply mapM_total. intros [k c] Hin. cbn [fst snd].
  destruct (rdv_in V k c HV Hin) as [_ [_ [_ Ha]]]. destruct (Ha rev) as [l Hl]. rewrite Hl. cbn [bind]. eexists; reflexivity.
Qed.

Lemma t_contains_total : forall V k x y, rdv V -> exists b, t_contains V k x y = Ok b.
Proof.
  intros V k x y [_ [_ Hm]]. unfold t_contains. destruct (aget k (tm V)) as [c|] eqn:Hc; [|eexists; reflexivity].
  destruct (Hm k c Hc) as [Hcc _]. apply Hcc.
Qed.

(* the views through a reverse map: every listed key has an entry *)
Lemma listed_entry : forall V i m x ks k, rdv V -> rmsel i V = Some m -> aget x m = Some ks -> In k ks ->
  exists c, aget k (tm V) = Some c /\ methods_total c.
Proof.
  intros V i m x ks k [_ [Hrs Hm]] Hsel Hx Hk. destruct (Hrs i m Hsel) as [_ Hent].
  assert (Hh : mhas x k m = true) by (apply (mhas_aget x k m ks Hx); exact Hk).
  specialize (Hent x k Hh). destruct (aget k (tm V)) as [c|] eqn:Hc; [|congruence]. exists c. split; [reflexivity|apply (Hm k c Hc)].
Qed.

Lemma t_i12x_get_total : forall rev V m x, rdv V -> rmsel rev V = Some m ->
  exists o, t_i12x_get rev V x = Ok o /\ (aget x m <> None -> o <> None).
Proof.
  intros rev V m x HV Hsel. unfold t_i12x_get. change (if rev then rm2 V else rm1 V) with (rmsel rev V). rewrite Hsel. cbn [of_opt bind].
  destruct (aget x m) as [ks|] eqn:Hx; [|eexists; split; [reflexivity|congruence]].
  match goal with |- context [mapM ?f ks] => destruct (mapM_total _ _ f ks) as [ls Hls] end.
  { intros k Hk. destruct (listed_entry V rev m x ks k HV Hsel Hx Hk) as [c [Hc [_ [_ [Hg _]]]]]. rewrite Hc. cbn [of_opt bind].
    destruct (Hg rev x) as [o Ho]. rewrite Ho. cbn [bind]. eexists; reflexivity. }
  rewrite Hls. cbn [bind]. eexists; split; [reflexivity|discriminate].
Qed.

Lemma t_i12x_all_total : forall rev V m, rdv V -> rmsel rev V = Some m -> exists L, t_i12x_all rev V = Ok L.
Proof.
  intros rev V m HV Hsel. unfold t_i12x_all. change (if rev then rm2 V else rm1 V) with (rmsel rev V). rewrite Hsel. cbn [of_opt bind].
  apply mapM_total. intros [x ks] Hin. cbn [fst].
  destruct (t_i12x_get_total rev V m x HV Hsel) as [o [Ho Hsome]]. rewrite Ho. cbn [bind].
  assert (Hx : aget x m <> None) by (apply aget_some_in_keys; apply in_map_iff; exists (x, ks); auto).
  destruct o as [l|]; [|exfalso; apply (Hsome Hx); reflexivity]. cbn [of_opt bind]. eexists; reflexivity.
Qed.

(* the keys of a set listed under x1 in reverse_map1 *)
Definition listed (m : mset) (x : nat) (ks : list nat) : Prop := forall k, In k ks -> mhas x k m = true.

Lemma t_i12_keys_total : forall V m1 x1 x2 k1 k2, rdv V -> rm1 V = Some m1 -> listed m1 x1 k1 ->
  exists l, t_i12_keys V x1 x2 k1 k2 = Ok l.
Proof.
  intros V m1 x1 x2 k1 k2 [_ [Hrs Hm]] H1 Hl. unfold t_i12_keys. apply bind_ok; [|intros ls; eexists; reflexivity].
  apply mapM_total. intros k Hk. apply in_sinter in Hk. destruct Hk as [Hk _].
  destruct (Hrs false m1 H1) as [_ Hent]. specialize (Hent x1 k (Hl k Hk)).
  destruct (aget k (tm V)) as [c|] eqn:Hc; [|congruence]. cbn [of_opt bind].
  destruct (Hm k c Hc) as [Hcc _]. destruct (Hcc x1 x2) as [b Hb]. rewrite Hb. cbn [bind]. eexists; reflexivity.
Qed.

Lemma t_i12_get_total : forall V m1 m2 x1 x2, rdv V -> rm1 V = Some m1 -> rm2 V = Some m2 -> exists o, t_i12_get V x1 x2 = Ok o.
Proof.
  intros V m1 m2 x1 x2 HV H1 H2. unfold t_i12_get. rewrite H1, H2. cbn [of_opt bind].
  destruct (aget x1 m1) as [k1|] eqn:Hx1; [|eexists; reflexivity].
  destruct (aget x2 m2) as [k2|] eqn:Hx2; [|eexists; reflexivity].
  apply bind_ok; [|intros l; eexists; reflexivity].
  apply (t_i12_keys_total V m1 x1 x2 k1 k2 HV H1). intros k Hk. apply (mhas_aget x1 k m1 k1 Hx1). exact Hk.
Qed.

Lemma t_i12_all_total : forall V m1 m2, rdv V -> rm1 V = Some m1 -> rm2 V = Some m2 -> exists L, t_i12_all V = Ok L.
Proof.
  intros V m1 m2 HV H1 H2. unfold t_i12_all. rewrite H1, H2. cbn [of_opt bind].
  apply bind_ok; [|intros ls; eexists; reflexivity].
  apply mapM_total. intros [a ka] Ha. apply mapM_total. intros [b kb] Hb. cbn [fst snd].
  apply bind_ok; [|intros l; eexists; reflexivity].
  apply (t_i12_keys_total V m1 a b ka kb HV H1). intros k Hk.
  destruct HV as [_ [Hrs _]]. destruct (Hrs false m1 H1) as [Hnd _]. apply (binding_mhas a ka k m1 Hnd Ha Hk).
Qed.

(* reading every view of a version (what the harness does after a stratum start and after every merge) *)
Lemma read_ter_total : forall dom kdom V, rdv V -> exists vs, read_ter dom kdom V = Ok vs.
Proof.
  intros dom kdom V HV. unfold read_ter. cbv zeta.
  apply bind_ok; [apply t_all_total; exact HV|intros al].
  apply bind_ok; [|intros g0].
  { apply mapM_total. intros k _. apply bind_ok; [apply optM_total, t_i0_get_total; exact HV|intros r; eexists; reflexivity]. }
  apply bind_ok; [apply keyed_get2_total; intros k x; apply t_i0x_get_total; exact HV|intros g01].
  apply bind_ok; [apply t_i0x_all_total; exact HV|intros a01].
  apply bind_ok; [apply keyed_get2_total; intros k x; apply t_i0x_get_total; exact HV|intros g02].
  apply bind_ok; [apply t_i0x_all_total; exact HV|intros a02].
  apply bind_ok; [|intros revs].
  { destruct (rm1 V) as [m1|] eqn:H1; [|eexists; reflexivity]. destruct (rm2 V) as [m2|] eqn:H2; [|eexists; reflexivity].
    apply bind_ok; [|intros g1].
    { apply mapM_total. intros x _. apply bind_ok; [|intros r; eexists; reflexivity].
      apply optM_total. destruct (t_i12x_get_total false V m1 x HV H1) as [o [Ho _]]. exists o; exact Ho. }
    apply bind_ok; [apply (t_i12x_all_total false V m1 HV H1)|intros a1].
    apply bind_ok; [|intros g2].
    { apply mapM_total. intros x _. apply bind_ok; [|intros r; eexists; reflexivity].
      apply optM_total. destruct (t_i12x_get_total true V m2 x HV H2) as [o [Ho _]]. exists o; exact Ho. }
    apply bind_ok; [apply (t_i12x_all_total true V m2 HV H2)|intros a2].
    apply bind_ok; [apply keyed_get2_total; intros x1 x2; apply (t_i12_get_total V m1 m2 x1 x2 HV H1 H2)|intros g12].
    apply bind_ok; [apply (t_i12_all_total V m1 m2 HV H1 H2)|intros a12].
    eexists; reflexivity. }
  apply bind_ok; [|intros ct; eexists; reflexivity].
  apply mapM_total. intros kp _. apply bind_ok; [apply t_contains_total; exact HV|intros b; eexists; reflexivity].
Qed.

(* ================================================================== the state of the adaptor *)
Section Safe.
Variables has1 has2 : bool.
Notation twfh := (twf has1 has2).

Definition tok (Ins : list (nat * nat)) (N D T : tern) : Prop :=
  twfh N /\ twfh D /\ twfh T /\ (forall i, rs_ok i D) /\ (forall i, rs_ok i T) /\
  forall k, kok Ins (nget (aget k (tm N))) (nget (aget k (tm D))) (nget (aget k (tm T))).

(* the stored relation: what a stratum end leaves and the next stratum start takes as its delta *)
Definition sok (Ins : list (nat * nat)) (S : tern) : Prop :=
  twfh S /\ (forall i, rs_ok i S) /\
  forall k c, aget k (tm S) = Some c -> (exists tt, c = CTotal tt) /\ ver_ok WI Ins c.

Definition pst_ok (Ins : list (nat * nat)) (st : pstate tern) : Prop :=
  tok Ins (s_new st) (s_delta st) (s_total st) /\ sok Ins (s_stored st).

Lemma tok_rdv : forall Ins N D T, tok Ins N D T -> rdv D /\ rdv T.
Proof.
  intros Ins N D T [_ [[Nd _] [[Nt _] [Rd [Rt HK]]]]]. split.
  - split; [exact Nd|]. split; [exact Rd|]. intros k c Hc. specialize (HK k). rewrite Hc in HK. cbn [nget] in HK.
    apply (kok_readable _ _ _ _ HK).
  - split; [exact Nt|]. split; [exact Rt|]. intros k c Hc. specialize (HK k). rewrite Hc in HK. cbn [nget] in HK.
    apply (kok_readable _ _ _ _ HK).
Qed.

Lemma sok_default : forall Ins, sok Ins (t_default has1 has2).
Proof.
  intros Ins. split; [apply twf_default|]. split; [intros i; apply rs_ok_default|]. intros k c Hc. unfold t_default in Hc. cbn in Hc. discriminate.
Qed.

Lemma tok_mono : forall Ins Ins' N D T, tok Ins N D T -> (forall p, In p Ins -> In p Ins') -> tok Ins' N D T.
Proof.
  intros Ins Ins' N D T [W1 [W2 [W3 [R2 [R3 HK]]]]] Hi. repeat (split; [assumption|]). intros k. eapply kok_mono; [apply HK|exact Hi].
Qed.

Lemma sok_mono : forall Ins Ins' S, sok Ins S -> (forall p, In p Ins -> In p Ins') -> sok Ins' S.
Proof.
  intros Ins Ins' S [W [R HS]] Hi. split; [exact W|]. split; [exact R|]. intros k c Hc. destruct (HS k c Hc) as [Ht Hv].
  split; [exact Ht|eapply ver_ok_mono; eassumption].
Qed.

Lemma read_both_ok3 : forall dom kdom Ins st, pst_ok Ins st -> exists it, read_both (ter_prov has1 has2 dom kdom) st = Ok it.
Proof.
  intros dom kdom Ins st [Ht _]. destruct (tok_rdv _ _ _ _ Ht) as [HD HT]. unfold read_both. cbn [p_read ter_prov].
  apply bind_ok; [apply read_ter_total; exact HD|intros d]. apply bind_ok; [apply read_ter_total; exact HT|intros t]. eexists; reflexivity.
Qed.

(* ---- insert *)
Lemma tok_insert : forall Ins N D T k x y, tok Ins N D T ->
  exists N' b, t_insert N k x y = Ok (N', b) /\ tok (Ins ++ [(x, y)]) N' D T.
Proof.
  intros Ins N D T k x y Htok. pose proof Htok as [[Nn [F1 F2]] [W2 [W3 [R2 [R3 HK]]]]].
  assert (Hinc : forall p, In p Ins -> In p (Ins ++ [(x, y)])) by (intros p Hp; apply in_app_iff; now left).
  unfold t_insert. fold (nget (aget k (tm N))).
  destruct (HK k) as [Hn _]. destruct (insert_ok Ins _ x y Hn) as [n' [b [Hi Hn']]]. rewrite Hi. cbn [bind].
  assert (G : forall r1 r2, osome r1 = has1 -> osome r2 = has2 -> tok (Ins ++ [(x, y)]) (mkT (aset k n' (tm N)) r1 r2) D T).
  { intros r1 r2 G1 G2. split; [split; [cbn [tm]; apply nodup_keys_aset; exact Nn|cbn [rm1 rm2]; split; assumption]|].
    split; [exact W2|]. split; [exact W3|]. split; [exact R2|]. split; [exact R3|]. intros k'. cbn [tm].
    destruct (Nat.eq_dec k' k) as [->|Hne].
    - rewrite aget_aset_eq. cbn [nget]. destruct (kok_mono _ _ _ _ _ (HK k) Hinc) as [_ Hrest]. split; [exact Hn'|exact Hrest].
    - rewrite (aget_aset_ne _ _ _ _ _ Hne). eapply kok_mono; [apply HK|exact Hinc]. }
  destruct b; eexists _, _; (split; [reflexivity|]); apply G; try assumption.
  - destruct (rm1 N); cbn in *; assumption.
  - destruct (rm2 N); cbn in *; assumption.
Qed.

(* ---- the merge: two loops over delta.map and what is left of new.map, then the reverse maps *)
Lemma c_merge_fun : forall n d t r r', c_merge n d t = Ok r -> c_merge n d t = Ok r' -> r = r'.
Proof. intros n d t r r' H H'. rewrite H in H'. inversion H'. reflexivity. Qed.

Lemma osome_some : forall (o : option mset), osome o = true -> exists m, o = Some m.
Proof. intros [m|] H; [eexists; reflexivity|discriminate]. Qed.

Lemma rs_ok_rebuilt : forall i ndm rb r1 r2, NoDup (map fst ndm) -> rebuild_rev i ndm = Ok rb ->
  rmsel i (mkT ndm r1 r2) = Some rb -> rs_ok i (mkT ndm r1 r2).
Proof.
  intros i ndm rb r1 r2 Hnd Hrb Hsel m Hm. rewrite Hsel in Hm. inversion Hm; subst m.
  destruct (rebuild_rev_spec i ndm rb Hnd Hrb) as [N1 Hspec]. split; [exact N1|].
  intros z k Hzk. apply Hspec in Hzk. destruct Hzk as [c [L [ys [Hin _]]]]. cbn [tm].
  apply aget_some_in_keys. apply in_map_iff. exists (k, c). auto.
Qed.

Lemma rs_ok_union : forall i D T totm2 d1 t1 r1 r2, rs_ok i D -> rs_ok i T -> rmsel i D = Some d1 -> rmsel i T = Some t1 ->
  (forall k, aget k (tm D) <> None \/ aget k (tm T) <> None -> aget k totm2 <> None) ->
  rmsel i (mkT totm2 r1 r2) = Some (munion d1 t1) -> rs_ok i (mkT totm2 r1 r2).
Proof.
  intros i D T totm2 d1 t1 r1 r2 RD RT HD HT HP Hsel m Hm. rewrite Hsel in Hm. inversion Hm; subst m.
  destruct (RD d1 HD) as [Nd1 Ed1]. destruct (RT t1 HT) as [Nt1 Et1]. split; [apply nodup_munion; exact Nt1|].
  intros z k Hzk. rewrite (mhas_munion d1 t1 z k Nd1) in Hzk. apply orb_true_iff in Hzk. cbn [tm]. apply HP.
  destruct Hzk as [H|H]; [right; eapply Et1; exact H|left; eapply Ed1; exact H].
Qed.

Lemma rs_ok_none : forall i V, rmsel i V = None -> rs_ok i V.
Proof. intros i V H m Hm. congruence. Qed.

Lemma tok_merge : forall Ins N D T, tok Ins N D T ->
  exists N' D' T', t_merge N D T = Ok (N', D', T') /\ tok Ins N' D' T'.
Proof.
  intros Ins N D T [[Nn [Fn1 Fn2]] [[Nd [Fd1 Fd2]] [[Nt [Ft1 Ft2]] [RD [RT HK]]]]]. unfold t_merge.
  (* first loop *)
  destruct (loop1_spec (tm D) (tm N) (tm T) [] Nd) as [newm1 [totm1 [ndm1 [Hf1 [O1 [I1 [NN1 [NT1 NM1]]]]]]]].
  { intros k d Hkd. pose proof (in_aget _ _ _ _ Nd Hkd) as Hd. pose proof (HK k) as Hk. rewrite Hd in Hk. cbn [nget] in Hk.
    destruct (kok_merge _ _ _ _ Hk) as [n1 [d1 [t1 [Hm _]]]]. eexists; exact Hm. }
  rewrite Hf1. cbn [bind]. specialize (NN1 Nn). specialize (NT1 Nt). specialize (NM1 (NoDup_nil _)).
  assert (HinD : forall k, In k (map fst (tm D)) -> exists d, In (k, d) (tm D)).
  { intros k Hk. apply in_map_iff in Hk. destruct Hk as [[k' d] [E H]]. cbn in E. subst k'. exists d; exact H. }
  assert (HoutD : forall k nw, In (k, nw) newm1 -> ~ In k (map fst (tm D))).
  { intros k nw Hkn Hk. pose proof (in_aget _ _ _ _ NN1 Hkn) as Hnw. destruct (HinD k Hk) as [d Hd].
    destruct (I1 k d Hd) as [_ [_ [_ [_ [E _]]]]]. congruence. }
  (* second loop *)
  destruct (loop2_spec newm1 totm1 ndm1 NN1) as [totm2 [ndm2 [Hf2 [O2 [I2 [NT2 NM2]]]]]].
  { intros k nw Hkn. pose proof (in_aget _ _ _ _ NN1 Hkn) as Hnw. pose proof (HoutD k nw Hkn) as HkD.
    destruct (O1 k HkD) as [E1 [E2 _]]. rewrite E2. rewrite E1 in Hnw.
    pose proof (HK k) as Hk. rewrite Hnw, (proj2 (aget_none_keys _ _ _) HkD) in Hk. cbn [nget] in Hk.
    destruct (kok_merge _ _ _ _ Hk) as [n1 [d1 [t1 [Hm _]]]]. eexists; exact Hm. }
  rewrite Hf2. cbn [bind]. specialize (NT2 NT1). specialize (NM2 NM1).
  (* every key of the old delta or total has an entry in the new total *)
  assert (HP : forall k, aget k (tm D) <> None \/ aget k (tm T) <> None -> aget k totm2 <> None).
  { intros k Hk. destruct (aget k (tm D)) as [d|] eqn:Hd.
    - pose proof (aget_in _ _ _ _ Hd) as Hin. destruct (I1 k d Hin) as [n1 [d1 [t1 [_ [E1 [E2 _]]]]]].
      assert (Hk2 : ~ In k (map fst newm1)) by (apply aget_none_keys; exact E1).
      destruct (O2 k Hk2) as [E4 _]. rewrite E4, E2. discriminate.
    - destruct Hk as [Hk|Hk]; [congruence|].
      assert (HkD : ~ In k (map fst (tm D))) by (apply aget_none_keys; exact Hd).
      destruct (O1 k HkD) as [E1 [E2 _]].
      destruct (aget k newm1) as [nw|] eqn:Hnw.
      + destruct (I2 k nw (aget_in _ _ _ _ Hnw)) as [n1 [d1 [t1 [_ [E4 _]]]]]. rewrite E4, E2.
        destruct (aget k (tm T)); [discriminate|congruence].
      + assert (Hk2 : ~ In k (map fst newm1)) by (apply aget_none_keys; exact Hnw).
        destruct (O2 k Hk2) as [E4 _]. rewrite E4, E2. exact Hk. }
  (* the three maps, key by key *)
  assert (HK' : forall k, kok Ins c_default (nget (aget k ndm2)) (nget (aget k totm2))).
  { intros k. pose proof (HK k) as Hk.
    destruct (aget k (tm D)) as [d|] eqn:Hd.
    - pose proof (aget_in _ _ _ _ Hd) as Hin. destruct (I1 k d Hin) as [n1 [d1 [t1 [Hm [E1 [E2 E3]]]]]].
      assert (Hk2 : ~ In k (map fst newm1)) by (apply aget_none_keys; exact E1).
      destruct (O2 k Hk2) as [E4 E5]. rewrite E4, E5, E2, E3. cbn [aget nget] in *.
      destruct (kok_merge _ _ _ _ Hk) as [n1' [d1' [t1' [Hm' Hb]]]]. pose proof (c_merge_fun _ _ _ _ _ Hm Hm') as E. inversion E; subst n1' d1' t1'.
      destruct (bin_kok _ _ _ _ Hb) as [_ [Hvd [Hvt [Htt Hsh]]]].
      destruct (temp d1).
      + split; [apply new_default|]. split; [apply ver_default|]. split; [exact Hvt|]. split; [exact Htt|]. right. reflexivity.
      + split; [apply new_default|]. split; [exact Hvd|]. split; [exact Hvt|]. split; [exact Htt|exact Hsh].
    - assert (HkD : ~ In k (map fst (tm D))) by (apply aget_none_keys; exact Hd).
      destruct (O1 k HkD) as [E1 [E2 E3]]. cbn [aget] in E3. cbn [nget] in Hk.
      destruct (aget k (tm N)) as [nw|] eqn:Hnw.
      + assert (Hin : In (k, nw) newm1) by (apply aget_in; rewrite E1; reflexivity).
        destruct (I2 k nw Hin) as [n1 [d1 [t1 [Hm [E4 E5]]]]]. rewrite E2 in Hm, E4. rewrite E4, E5. cbn [nget] in *.
        destruct (kok_merge _ _ _ _ Hk) as [n1' [d1' [t1' [Hm' Hb]]]]. pose proof (c_merge_fun _ _ _ _ _ Hm Hm') as E. inversion E; subst n1' d1' t1'.
        destruct (bin_kok _ _ _ _ Hb) as [_ [Hvd [Hvt [Htt Hsh]]]].
        destruct (aget k (tm T)) as [tc|]; cbn [nget].
        * split; [apply new_default|]. split; [exact Hvd|]. split; [exact Hvt|]. split; [exact Htt|exact Hsh].
        * (* the temporary total of a key without an entry is dropped: it is the empty Total *)
          split; [apply new_default|]. split; [exact Hvd|]. split; [apply ver_default|]. split; [eexists; reflexivity|].
          destruct d1; [exact Hsh|exact I|left; reflexivity].
      + assert (Hk2 : ~ In k (map fst newm1)) by (apply aget_none_keys; rewrite E1; reflexivity).
        destruct (O2 k Hk2) as [E4 E5]. rewrite E4, E5, E2, E3. cbn [nget] in *.
        destruct Hk as [_ [_ [Hvt [Htt _]]]].
        split; [apply new_default|]. split; [apply ver_default|]. split; [exact Hvt|]. split; [exact Htt|]. right. reflexivity. }
  (* the delta's reverse maps are rebuilt from maps that can be read *)
  assert (Hrb : forall rev, exists r, rebuild_rev rev ndm2 = Ok r).
  { intros rev. apply rebuild_rev_ok. intros k c Hkc. pose proof (in_aget _ _ _ _ NM2 Hkc) as Hc.
    pose proof (HK' k) as Hk. rewrite Hc in Hk. cbn [nget] in Hk. destruct (kok_readable _ _ _ _ Hk) as [[_ [_ [_ Ha]]] _]. apply Ha. }
  destruct (Hrb false) as [rb1 Hrb1]. destruct (Hrb true) as [rb2 Hrb2].
  assert (Hnone : forall (o : option mset) b, osome o = b -> b = false -> o = None).
  { intros [m|] b H1 H2; [cbn in H1; congruence|reflexivity]. }
  assert (Hsome : forall (o : option mset) b, osome o = b -> b = true -> exists m, o = Some m).
  { intros o b H1 H2. apply osome_some. congruence. }
  assert (Hfin : forall r1n r1d r1t r2n r2d r2t,
            osome r1n = has1 -> osome r1d = has1 -> osome r1t = has1 -> osome r2n = has2 -> osome r2d = has2 -> osome r2t = has2 ->
            (forall i, rs_ok i (mkT ndm2 r1d r2d)) -> (forall i, rs_ok i (mkT totm2 r1t r2t)) ->
            tok Ins (mkT [] r1n r2n) (mkT ndm2 r1d r2d) (mkT totm2 r1t r2t)).
  { intros r1n r1d r1t r2n r2d r2t G1 G2 G3 G4 G5 G6 R1 R2.
    split; [split; [cbn; constructor|cbn [rm1 rm2]; auto]|]. split; [split; [exact NM2|cbn [rm1 rm2]; auto]|].
    split; [split; [exact NT2|cbn [rm1 rm2]; auto]|]. split; [exact R1|]. split; [exact R2|]. intros k. cbn [tm aget nget]. apply HK'. }
  destruct has1 eqn:H1; destruct has2 eqn:H2.
  - destruct (Hsome _ _ Fn1 eq_refl) as [a1 Ea1]. destruct (Hsome _ _ Fd1 eq_refl) as [b1 Eb1]. destruct (Hsome _ _ Ft1 eq_refl) as [c1 Ec1].
    destruct (Hsome _ _ Fn2 eq_refl) as [a2 Ea2]. destruct (Hsome _ _ Fd2 eq_refl) as [b2 Eb2]. destruct (Hsome _ _ Ft2 eq_refl) as [c2 Ec2].
    rewrite Ea1, Eb1, Ec1, Ea2, Eb2, Ec2. cbn [of_opt bind]. rewrite Hrb1, Hrb2. cbn [bind]. eexists _, _, _. split; [reflexivity|].
    apply Hfin; try reflexivity.
    + intros [|]; [apply (rs_ok_rebuilt true ndm2 rb2 _ _ NM2 Hrb2); reflexivity|apply (rs_ok_rebuilt false ndm2 rb1 _ _ NM2 Hrb1); reflexivity].
    + intros [|]; [apply (rs_ok_union true D T totm2 b2 c2 _ _ (RD true) (RT true) Eb2 Ec2 HP); reflexivity
                  |apply (rs_ok_union false D T totm2 b1 c1 _ _ (RD false) (RT false) Eb1 Ec1 HP); reflexivity].
  - destruct (Hsome _ _ Fn1 eq_refl) as [a1 Ea1]. destruct (Hsome _ _ Fd1 eq_refl) as [b1 Eb1]. destruct (Hsome _ _ Ft1 eq_refl) as [c1 Ec1].
    rewrite Ea1, Eb1, Ec1, (Hnone _ _ Fn2 eq_refl), (Hnone _ _ Fd2 eq_refl), (Hnone _ _ Ft2 eq_refl).
    cbn [of_opt bind]. rewrite Hrb1. cbn [bind]. eexists _, _, _. split; [reflexivity|].
    apply Hfin; try reflexivity.
    + intros [|]; [apply rs_ok_none; reflexivity|apply (rs_ok_rebuilt false ndm2 rb1 _ _ NM2 Hrb1); reflexivity].
    + intros [|]; [apply rs_ok_none; reflexivity
                  |apply (rs_ok_union false D T totm2 b1 c1 _ _ (RD false) (RT false) Eb1 Ec1 HP); reflexivity].
  - destruct (Hsome _ _ Fn2 eq_refl) as [a2 Ea2]. destruct (Hsome _ _ Fd2 eq_refl) as [b2 Eb2]. destruct (Hsome _ _ Ft2 eq_refl) as [c2 Ec2].
    rewrite (Hnone _ _ Fn1 eq_refl), (Hnone _ _ Fd1 eq_refl), (Hnone _ _ Ft1 eq_refl), Ea2, Eb2, Ec2.
    cbn [of_opt bind]. rewrite Hrb2. cbn [bind]. eexists _, _, _. split; [reflexivity|].
    apply Hfin; try reflexivity.
    + intros [|]; [apply (rs_ok_rebuilt true ndm2 rb2 _ _ NM2 Hrb2); reflexivity|apply rs_ok_none; reflexivity].
    + intros [|]; [apply (rs_ok_union true D T totm2 b2 c2 _ _ (RD true) (RT true) Eb2 Ec2 HP); reflexivity
                  |apply rs_ok_none; reflexivity].
  - rewrite (Hnone _ _ Fn1 eq_refl), (Hnone _ _ Fd1 eq_refl), (Hnone _ _ Ft1 eq_refl).
    rewrite (Hnone _ _ Fn2 eq_refl), (Hnone _ _ Fd2 eq_refl), (Hnone _ _ Ft2 eq_refl).
    cbn [of_opt bind]. eexists _, _, _. split; [reflexivity|].
    apply Hfin; try reflexivity; intros [|]; apply rs_ok_none; reflexivity.
Qed.

(* ---- one operation *)
Lemma pst_step_ok : forall dom kdom Ins st o, pst_ok Ins st ->
  exists st' it, step (ter_prov has1 has2 dom kdom) st o = Ok (st', it) /\ pst_ok (Ins ++ op_pair o) st'.
Proof.
  intros dom kdom Ins st o Hst. pose proof Hst as [Htok Hsok].
  assert (Hinc : forall l p, In p Ins -> In p (Ins ++ l)) by (intros l p Hp; apply in_app_iff; now left).
  destruct o as [| | |k x y|k x y]; cbn [op_pair]; try rewrite app_nil_r.
  - (* stratum start: delta = the stored relation, total = new = default *)
    cbn [step ter_prov p_init p_default].
    set (st1 := mkPS (t_default has1 has2) (t_default has1 has2) (s_stored st) (t_default has1 has2)).
    assert (H1 : pst_ok Ins st1).
    { split; [|apply sok_default]. unfold st1. cbn [s_new s_delta s_total]. destruct Hsok as [WS [RS HS]].
      split; [apply twf_default|]. split; [exact WS|]. split; [apply twf_default|]. split; [exact RS|].
      split; [intros i; apply rs_ok_default|]. intros k'. unfold t_default. cbn [tm aget nget].
      split; [apply new_default|].
      destruct (aget k' (tm (s_stored st))) as [c|] eqn:Hc; cbn [nget].
      - destruct (HS k' c Hc) as [[tt ->] Hv]. split; [exact Hv|]. split; [apply ver_default|]. split; [eexists; reflexivity|]. left. reflexivity.
      - split; [apply ver_default|]. split; [apply ver_default|]. split; [eexists; reflexivity|]. left. reflexivity. }
    destruct (read_both_ok3 dom kdom Ins st1 H1) as [it Hit]. fold st1. rewrite Hit. cbn [bind]. eexists _, _. split; [reflexivity|exact H1].
  - (* stratum end: the stored relation = total; total = default *)
    cbn [step ter_prov p_default]. eexists _, _. split; [reflexivity|].
    destruct Htok as [W1 [W2 [W3 [R2 [R3 HK]]]]]. split.
    + cbn [s_new s_delta s_total]. split; [exact W1|]. split; [exact W2|]. split; [apply twf_default|]. split; [exact R2|].
      split; [intros i; apply rs_ok_default|]. intros k'. unfold t_default. cbn [tm aget nget].
      destruct (HK k') as [Hn [Hd [_ [_ Hsh]]]]. split; [exact Hn|]. split; [exact Hd|]. split; [apply ver_default|]. split; [eexists; reflexivity|].
      destruct (nget (aget k' (tm (s_delta st)))); [exact Hsh|exact I|left; reflexivity].
    + cbn [s_stored]. split; [exact W3|]. split; [exact R3|]. intros k' c Hc. specialize (HK k'). rewrite Hc in HK. cbn [nget] in HK.
      destruct HK as [_ [_ [Hvt [Htt _]]]]. split; assumption.
  - (* merge *)
    cbn [step ter_prov p_merge].
    destruct (tok_merge Ins _ _ _ Htok) as [N' [D' [T' [Hm Htok']]]]. rewrite Hm. cbn [bind].
    set (st1 := mkPS (s_stored st) N' D' T').
    assert (H1 : pst_ok Ins st1) by (split; [exact Htok'|exact Hsok]).
    destruct (read_both_ok3 dom kdom Ins st1 H1) as [it Hit]. fold st1. rewrite Hit. cbn [bind]. eexists _, _. split; [reflexivity|exact H1].
  - (* insert *)
    cbn [step ter_prov p_insert].
    destruct (tok_insert Ins _ _ _ k x y Htok) as [N' [b [Hi Htok']]]. rewrite Hi. cbn [bind]. eexists _, _. split; [reflexivity|].
    split; [exact Htok'|eapply sok_mono; [exact Hsok|apply Hinc]].
  - (* head update: contains_key(total), contains_key(delta), insert_if_not_present(new) *)
    cbn [step ter_prov p_contains p_insert].
    destruct (tok_rdv _ _ _ _ Htok) as [HD HT].
    assert (Hmono : pst_ok (Ins ++ [(x, y)]) st) by (split; [eapply tok_mono; [exact Htok|apply Hinc]|eapply sok_mono; [exact Hsok|apply Hinc]]).
    destruct (t_contains_total _ k x y HT) as [bt Hbt]. rewrite Hbt. cbn [bind].
    destruct bt; [eexists _, _; split; [reflexivity|exact Hmono]|].
    destruct (t_contains_total _ k x y HD) as [bd Hbd]. rewrite Hbd. cbn [bind].
    destruct bd; [eexists _, _; split; [reflexivity|exact Hmono]|].
    destruct (tok_insert Ins _ _ _ k x y Htok) as [N' [b [Hi Htok']]]. rewrite Hi. cbn [bind]. eexists _, _. split; [reflexivity|].
    split; [exact Htok'|eapply sok_mono; [exact Hsok|apply Hinc]].
Qed.

Lemma pst_run_ok : forall dom kdom ops Ins st, pst_ok Ins st ->
  exists st', run_state (ter_prov has1 has2 dom kdom) st ops = Ok st' /\ pst_ok (Ins ++ args ops) st'.
Proof.
  intros dom kdom. induction ops as [|o ops IH]; intros Ins st Hst.
  - exists st. split; [reflexivity|]. cbn. rewrite app_nil_r. exact Hst.
  - cbn [run_state]. destruct (pst_step_ok dom kdom Ins st o Hst) as [st1 [it [Hs H1]]]; rewrite Hs; cbn [bind].
    destruct (IH _ _ H1) as [st' [Hr H']].
    exists st'. split; [exact Hr|]. cbn [args flat_map]. rewrite app_assoc. exact H'.
Qed.

Lemma pst_init_ok : forall dom kdom, pst_ok [] (ps_init (ter_prov has1 has2 dom kdom)).
Proof.
  intros dom kdom. split; [|apply sok_default]. cbn [ps_init s_new s_delta s_total ter_prov p_default].
  split; [apply twf_default|]. split; [apply twf_default|]. split; [apply twf_default|].
  split; [intros i; apply rs_ok_default|]. split; [intros i; apply rs_ok_default|].
  intros k. unfold t_default. cbn [tm aget nget]. split; [apply new_default|]. split; [apply ver_default|]. split; [apply ver_default|].
  split; [eexists; reflexivity|]. left. reflexivity.
Qed.

(* every history of the ternary form runs to a state, whose delta and total can be read through every view *)
Theorem ter_sound : forall dom kdom ops,
  exists st, run_state (ter_prov has1 has2 dom kdom) (ps_init (ter_prov has1 has2 dom kdom)) ops = Ok st /\ pst_ok (args ops) st.
Proof. intros dom kdom ops. destruct (pst_run_ok dom kdom ops [] _ (pst_init_ok dom kdom)) as [st [Hr Hst]]. exists st. auto. Qed.

(* Theorem (ternary form, every sequence of operations): no operation of the adaptor or of the per-key relations fails *)
Theorem ter_never_panics : forall dom kdom ops n e, ~ In (RPanic n e) (run_ter has1 has2 dom kdom ops).
Proof.
  intros dom kdom ops n e Hin. unfold run_ter in Hin.
  destruct (run_hist_panics _ _ _ _ _ _ _ _ Hin) as [[]|Hr].
  destruct (ter_sound dom kdom ops) as [st [Hok _]]. congruence.
Qed.
End Safe.
