(* C12 — multiplicities at the level of the observations of a history: at every read of every history (binary and ternary form,
   any sequence of operations), each view of the delta and of the total version lists each tuple once.
   The observation functions read_bin / read_ter (TrUfProvModel.v) evaluate every index view the way the harness does — index_get for
   every key of a finite domain, iter_all — and flatten the answers to tuples in column order; the tie compares exactly these lists
   (sorted, WITH multiplicity) with the real provider's.  So [bin_reads_once] / [ter_reads_once] say: what the tie compares is
   duplicate-free, at every read. *)
From Coq Require Import List Arith Bool Lia ZArith.
From AV Require Import UF.UfBase.
From AV Require Import UF.TrUfModel.
From AV Require Import UF.TrUfInv.
From AV Require Import UF.TrUfLemmas.
From AV Require Import UF.TrUfQueries.
From AV Require Import Byods.TrUfProvLaws.
From AV Require Import Byods.TrUfProvTernary.
From AV Require Import Byods.TrUfProvRevViews.
From AV Require Import Byods.TrUfProvModel.
From AV Require Import Byods.TrUfProvProofs.
From AV Require Import Byods.TrUfProvTernarySafe.
From AV Require Import Byods.TrUfProvMult.
Import ListNotations.

(* ================================================================== the reads of a history are reads of reachable states *)
Lemma step_read : forall St (P : prov St) st o st' d t, step P st o = Ok (st', RRead d t) ->
  p_read P (s_delta st') = Ok d /\ p_read P (s_total st') = Ok t.
Proof.
  intros St P st o st' d t H.
  assert (RB : forall s r, read_both P s = Ok r -> r = RRead d t -> p_read P (s_delta s) = Ok d /\ p_read P (s_total s) = Ok t).
  { intros s r Hr ->. unfold read_both in Hr. destruct (p_read P (s_delta s)) as [d0|]; cbn [bind] in Hr; [|discriminate].
    destruct (p_read P (s_total s)) as [t0|]; cbn [bind] in Hr; [|discriminate]. inversion Hr; subst. auto. }
  destruct o; cbn [step] in H.
  - destruct (p_init P (p_default P) (s_stored st) (p_default P)) as [[n0 d0] t0].
    destruct (read_both P _) as [r|] eqn:Er; cbn [bind] in H; [|discriminate]. inversion H; subst. apply (RB _ _ Er eq_refl).
  - inversion H.
  - destruct (p_merge P _ _ _) as [[[n0 d0] t0]|]; cbn [bind] in H; [|discriminate].
    destruct (read_both P _) as [r|] eqn:Er; cbn [bind] in H; [|discriminate]. inversion H; subst. apply (RB _ _ Er eq_refl).
  - destruct (p_insert P _ _ _ _) as [[n0 b]|]; cbn [bind] in H; [|discriminate]. inversion H.
  - destruct (p_contains P (s_total st) _ _ _) as [[|]|]; cbn [bind] in H; [inversion H| |discriminate].
    destruct (p_contains P (s_delta st) _ _ _) as [[|]|]; cbn [bind] in H; [inversion H| |discriminate].
    destruct (p_insert P _ _ _ _) as [[n0 b]|]; cbn [bind] in H; [|discriminate]. inversion H.
Qed.

Lemma run_hist_reads : forall St (P : prov St) (Inv : pstate St -> Prop),
  (forall st o st' it, step P st o = Ok (st', it) -> Inv st -> Inv st') ->
  forall ops st i acc d t, Inv st -> In (RRead d t) (run_hist P st ops i acc) ->
    In (RRead d t) acc \/ exists st1, Inv st1 /\ p_read P (s_delta st1) = Ok d /\ p_read P (s_total st1) = Ok t.
Proof.
  intros St P Inv Hstep. induction ops as [|o ops IH]; intros st i acc d t Hi Hin; cbn [run_hist] in Hin.
  - left. apply in_rev in Hin. exact Hin.
  - destruct (step P st o) as [[st1 it]|e] eqn:Hs.
    + pose proof (Hstep _ _ _ _ Hs Hi) as Hi1. destruct (IH st1 (S i) (it :: acc) d t Hi1 Hin) as [[Heq|Hacc]|Hex]; [|left; exact Hacc|right; exact Hex].
      subst it. right. exists st1. split; [exact Hi1|]. apply (step_read _ P st o st1 d t Hs).
    + apply in_rev in Hin. destruct Hin as [Heq|Hacc]; [discriminate|left; exact Hacc].
Qed.

(* ================================================================== flattening keeps lists duplicate-free *)
Lemma nodup_map_inj : forall A B (f : A -> B) l, (forall a b, f a = f b -> a = b) -> NoDup l -> NoDup (map f l).
Proof. intros A B f l Hf N. apply FinFun.Injective_map_NoDup; [exact Hf|exact N]. Qed.

(* rows (key, values) with distinct keys, flattened by an encoding that is injective in the key and in the value *)
Lemma nodup_rows : forall K Vv C (mk : K -> Vv -> C) (rows : list (K * list Vv)),
  (forall k v k' v', mk k v = mk k' v' -> k = k' /\ v = v') ->
  NoDup (map fst rows) -> (forall k vs, In (k, vs) rows -> NoDup vs) ->
  NoDup (concat (map (fun kv => map (fun v => mk (fst kv) v) (snd kv)) rows)).
Proof.
  intros K Vv C mk rows Hmk Nk Nv. apply NoDup_concat_map.
  - eapply NoDup_map_inv; exact Nk.
  - intros [k vs] Hin. cbn [fst snd]. apply nodup_map_inj; [intros a b Hab; apply (Hmk k a k b Hab)|apply (Nv k vs Hin)].
  - intros [k vs] [k' vs'] x Ha Hb Hx Hy. cbn [fst snd] in *. apply in_map_iff in Hx, Hy. destruct Hx as [v [E1 _]]. destruct Hy as [v' [E2 _]].
    assert (k = k') by (apply (Hmk k v k' v'); congruence). subst k'.
    apply (nodup_map_inj_in _ _ fst rows (k, vs) (k, vs') Nk Ha Hb eq_refl).
Qed.

Lemma keyed_get_nd : forall dom get mk r,
  (forall x y x' y', mk x y = mk x' y' -> x = x' /\ y = y') ->
  (forall x l, get x = Ok (Some l) -> NoDup l) ->
  keyed_get dom get mk = Ok r -> NoDup (fst r).
Proof.
  intros dom get mk r Hmk Hn H. unfold keyed_get in H.
  destruct (mapM _ (seq 0 dom)) as [rows|e] eqn:EM; cbn [bind] in H; [|discriminate]. inversion H; subst r. cbn [fst]. clear H.
  apply (mapM_eq_map _ _ _ (fun x => match get x with Ok (Some l) => (map (mk x) l, [[x]]) | _ => ([], []) end)) in EM.
  2:{ intros x b _ Hb. unfold optM in Hb. destruct (get x) as [[l|]|e]; cbn [bind fst snd] in Hb; inversion Hb; reflexivity. }
  subst rows. rewrite map_map. apply NoDup_concat_map; [apply seq_NoDup| |].
  - intros x _. destruct (get x) as [[l|]|e] eqn:E; cbn [fst]; try constructor.
    apply nodup_map_inj; [intros a b Hab; apply (Hmk x a x b Hab)|apply (Hn x l E)].
  - intros a b x _ _ Ha Hb. destruct (get a) as [[la|]|ea]; cbn [fst] in Ha; try destruct Ha.
    destruct (get b) as [[lb|]|eb]; cbn [fst] in Hb; try destruct Hb.
    apply in_map_iff in Ha, Hb. destruct Ha as [y [E1 _]]. destruct Hb as [y' [E2 _]]. apply (Hmk a y b y'). congruence.
Qed.

Lemma choose_nd : forall A C (F : A -> res bool) (h : A -> C) l ct,
  (forall a b, h a = h b -> a = b) -> NoDup l ->
  mapM (fun p => do b <- F p; Ok (if b then [h p] else [])) l = Ok ct -> NoDup (concat ct).
Proof.
  intros A C F h l ct Hh N H.
  apply (mapM_eq_map _ _ _ (fun p => if (match F p with Ok b => b | Err _ => false end) then [h p] else [])) in H.
  2:{ intros p b _ Hb. destruct (F p) as [bb|e]; cbn [bind] in Hb; inversion Hb; reflexivity. }
  subst ct. apply NoDup_concat_map; [exact N| |].
  - intros a _. destruct (match F a with Ok b => b | Err _ => false end); [constructor; [intros []|constructor]|constructor].
  - intros a b x _ _ Ha Hb. destruct (match F a with Ok b => b | Err _ => false end); [|destruct Ha].
    destruct (match F b with Ok b => b | Err _ => false end); [|destruct Hb].
    destruct Ha as [<-|[]]. destruct Hb as [Hb|[]]. apply Hh. congruence.
Qed.

Lemma pr_inj : forall p q, pr p = pr q -> p = q.
Proof. intros [a b] [c d] H. unfold pr in H. cbn [fst snd] in H. inversion H. reflexivity. Qed.

(* ================================================================== the binary form *)
Lemma read_bin_nd : forall dom c vs, nodup_version c -> read_bin dom c = Ok vs -> forall v, In v vs -> NoDup (vtuples v).
Proof.
  intros dom c vs [N1 [N2 N3]] H. unfold read_bin in H.
  destruct (c_iter_all c) as [ia|e] eqn:Eia; cbn [bind] in H; [|discriminate].
  assert (Nia : NoDup (map pr ia)) by (apply nodup_map_inj; [exact pr_inj|first [apply N1; reflexivity|apply (N1 _ Eia)]]).
  unfold c_trait_is_empty in H. cbn [bind] in H. cbv zeta in H.
  destruct (keyed_get dom (c_ind_get false c) _) as [g0|e] eqn:Eg0; cbn [bind] in H; [|discriminate].
  destruct (c_ind_iter_all false c) as [a0|e] eqn:Ea0; cbn [bind] in H; [|discriminate].
  destruct (keyed_get dom (c_ind_get true c) _) as [g1|e] eqn:Eg1; cbn [bind] in H; [|discriminate].
  destruct (c_ind_iter_all true c) as [a1|e] eqn:Ea1; cbn [bind] in H; [|discriminate].
  destruct (mapM _ (list_prod (seq 0 dom) (seq 0 dom))) as [ct|e] eqn:Ect; cbn [bind] in H; [|discriminate].
  inversion H; subst vs. clear H.
  assert (Ng0 : NoDup (fst g0)).
  { apply (keyed_get_nd _ _ _ _ (fun x y x' y' (Hq : [x; y] = [x'; y']) => ltac:(inversion Hq; auto)) (N2 false) Eg0). }
  assert (Ng1 : NoDup (fst g1)).
  { apply (keyed_get_nd _ _ _ _ (fun y x y' x' (Hq : [x; y] = [x'; y']) => ltac:(inversion Hq; auto)) (N2 true) Eg1). }
  destruct (N3 false a0 Ea0) as [K0 V0]. destruct (N3 true a1 Ea1) as [K1 V1].
  assert (Na0 : NoDup (concat (map (fun kv : nat * list nat => map (fun y => [fst kv; y]) (snd kv)) a0))).
  { apply (nodup_rows _ _ _ (fun k v => [k; v]) a0); [intros k v k' v' Hq; inversion Hq; auto|exact K0|exact V0]. }
  assert (Na1 : NoDup (concat (map (fun kv : nat * list nat => map (fun x => [x; fst kv]) (snd kv)) a1))).
  { apply (nodup_rows _ _ _ (fun k v => [v; k]) a1); [intros k v k' v' Hq; inversion Hq; auto|exact K1|exact V1]. }
  assert (Nct : NoDup (concat ct)).
  { revert Ect. apply (choose_nd _ _ (fun p => c_contains c (fst p) (snd p)) pr); [exact pr_inj|].
    apply NoDup_list_prod_gen; apply seq_NoDup. }
  intros v Hv. cbn [In] in Hv.
  destruct Hv as [<-|[<-|[<-|[<-|[<-|[<-|[<-|[<-|[<-|[]]]]]]]]]]; unfold vtuples; cbn [fst]; assumption.
Qed.

Definition Ib (st : pstate common) : Prop := (exists Ins, st_ok WI Ins st) /\ D3 st.

Lemma Ib_step : forall dom st o st' it, step (bin_prov dom) st o = Ok (st', it) -> Ib st -> Ib st'.
Proof.
  intros dom st o st' it H [[Ins Hst] Hd]. split; [|eapply bin_step_D3; eassumption].
  destruct (step_ok WI HWI dom Ins st o Hst) as [st2 [it2 [H2 Hst2]]]. rewrite H in H2. inversion H2; subst. eexists; exact Hst2.
Qed.

Lemma Ib_nodup : forall st, Ib st -> nodup_version (s_delta st) /\ nodup_version (s_total st).
Proof.
  intros st [[Ins [Hb _]] [Dd [Dt _]]]. pose proof (delta_readable _ _ _ _ _ Hb) as Hnd. destruct Hb as [_ [Hd [Ht [[tt Htt] _]]]]. split.
  - apply (ver_nodup _ _ Hd Dd Hnd).
  - apply (ver_nodup _ _ Ht Dt). intros r. rewrite Htt. discriminate.
Qed.

(* Theorem (binary form, EVERY sequence of operations): at every read, every view of delta and of total lists each tuple once *)
Theorem bin_reads_once : forall dom ops d t, In (RRead d t) (run_bin dom ops) -> forall v, In v d \/ In v t -> NoDup (vtuples v).
Proof.
  intros dom ops d t Hin v Hv. unfold run_bin in Hin.
  assert (H0 : Ib (ps_init (bin_prov dom))) by (split; [exists []; apply (init_ok WI HWI dom)|apply D3_init]).
  destruct (run_hist_reads _ (bin_prov dom) Ib (Ib_step dom) ops _ 0 [] d t H0 Hin) as [[]|[st1 [Hi [Hd Ht]]]].
  destruct (Ib_nodup st1 Hi) as [Nd Nt]. cbn [p_read bin_prov] in Hd, Ht.
  destruct Hv as [Hv|Hv]; [apply (read_bin_nd dom _ d Nd Hd v Hv)|apply (read_bin_nd dom _ t Nt Ht v Hv)].
Qed.

(* ================================================================== the ternary form *)
Lemma keyed_rows_nd : forall A Vv (get : A -> res (option (list Vv))) (mk : A -> Vv -> list nat) (tagk : A -> list (list nat)) l rows,
  (forall x y x' y', mk x y = mk x' y' -> x = x' /\ y = y') ->
  (forall x lst, get x = Ok (Some lst) -> NoDup lst) -> NoDup l ->
  mapM (fun x => do r <- optM (get x); Ok (map (mk x) (fst r), if snd r then tagk x else [])) l = Ok rows ->
  NoDup (concat (map fst rows)).
Proof.
  intros A Vv get mk tagk l rows Hmk Hn Nl EM.
  apply (mapM_eq_map _ _ _ (fun x => match get x with Ok (Some lst) => (map (mk x) lst, tagk x) | _ => ([], []) end)) in EM.
  2:{ intros x b _ Hb. unfold optM in Hb. destruct (get x) as [[lst|]|e]; cbn [bind fst snd] in Hb; inversion Hb; reflexivity. }
  subst rows. rewrite map_map. apply NoDup_concat_map; [exact Nl| |].
  - intros x _. destruct (get x) as [[lst|]|e] eqn:E; cbn [fst]; try constructor.
    apply nodup_map_inj; [intros a b Hab; apply (Hmk x a x b Hab)|apply (Hn x lst E)].
  - intros a b x _ _ Ha Hb. destruct (get a) as [[la|]|ea]; cbn [fst] in Ha; try destruct Ha.
    destruct (get b) as [[lb|]|eb]; cbn [fst] in Hb; try destruct Hb.
    apply in_map_iff in Ha, Hb. destruct Ha as [y [E1 _]]. destruct Hb as [y' [E2 _]]. apply (Hmk a y b y'). congruence.
Qed.

Lemma keyed_get2_nd : forall ks xs get mk r,
  (forall k x y k' x' y', mk k x y = mk k' x' y' -> k = k' /\ x = x' /\ y = y') ->
  (forall k x l, get k x = Ok (Some l) -> NoDup l) -> NoDup ks -> NoDup xs ->
  keyed_get2 ks xs get mk = Ok r -> NoDup (fst r).
Proof.
  intros ks xs get mk r Hmk Hn Nk Nx H. unfold keyed_get2 in H.
  destruct (mapM _ (list_prod ks xs)) as [rows|e] eqn:EM; cbn [bind] in H; [|discriminate]. inversion H; subst r. cbn [fst]. clear H.
  revert EM. apply (keyed_rows_nd (nat * nat) nat (fun kx => get (fst kx) (snd kx)) (fun kx => mk (fst kx) (snd kx)) (fun kx => [[fst kx; snd kx]])).
  - intros [k x] y [k' x'] y' Hq. cbn [fst snd] in Hq. destruct (Hmk _ _ _ _ _ _ Hq) as [-> [-> ->]]. auto.
  - intros [k x] lst. cbn [fst snd]. apply Hn.
  - apply NoDup_list_prod_gen; assumption.
Qed.

Lemma tr3_inj : forall k p k' p', tr3 k p = tr3 k' p' -> k = k' /\ p = p'.
Proof. intros k [a b] k' [c d] H. unfold tr3 in H. cbn [fst snd] in H. inversion H. auto. Qed.

Lemma read_ter_nd : forall dom kdom V vs, nodup_tern V -> read_ter dom kdom V = Ok vs -> forall v, In v vs -> NoDup (vtuples v).
Proof.
  intros dom kdom V vs [T1 [T2 [T3 [T4 [T5 [T6 [T7 T8]]]]]]] H. unfold read_ter in H. cbv zeta in H.
  pose proof (seq_NoDup kdom 0) as Nks. pose proof (seq_NoDup dom 0) as Nxs.
  destruct (t_all V) as [al|e] eqn:Eal in H; cbn [bind] in H; [|discriminate].
  assert (Nalt : NoDup (concat (map (fun kl : nat * list (nat * nat) => map (tr3 (fst kl)) (snd kl)) al))).
  { assert (Hfl : NoDup (flat3 al)) by (apply (T1 _ Eal)).
    replace (concat (map (fun kl : nat * list (nat * nat) => map (tr3 (fst kl)) (snd kl)) al))
      with (map (fun kp : nat * (nat * nat) => tr3 (fst kp) (snd kp)) (flat3 al)).
    - apply nodup_map_inj; [|exact Hfl]. intros [k p] [k' p'] Hq. cbn [fst snd] in Hq. destruct (tr3_inj _ _ _ _ Hq) as [-> ->]. reflexivity.
    - unfold flat3. rewrite concat_map, map_map. f_equal. apply map_ext. intros kl. rewrite map_map. reflexivity. }
  destruct (mapM _ (seq 0 kdom)) as [g0|e] eqn:Eg0; cbn [bind] in H; [|discriminate].
  assert (Ng0 : NoDup (concat (map fst g0))).
  { revert Eg0. apply (keyed_rows_nd nat (nat * nat) (t_i0_get V) tr3 (fun k => [[k]])); [apply tr3_inj|exact T2|exact Nks]. }
  destruct (keyed_get2 _ _ (t_i0x_get false V) _) as [g01|e] eqn:Eg01; cbn [bind] in H; [|discriminate].
  assert (Ng01 : NoDup (fst g01)).
  { revert Eg01. apply keyed_get2_nd; [intros k x y k' x' y' Hq; inversion Hq; auto|apply (T3 false)|exact Nks|exact Nxs]. }
  destruct (t_i0x_all false V) as [a01|e] eqn:Ea01; cbn [bind] in H; [|discriminate].
  destruct (T4 false a01 Ea01) as [K01 V01].
  assert (Na01 : NoDup (concat (map (fun e : nat * nat * list nat => map (fun y => [fst (fst e); snd (fst e); y]) (snd e)) a01))).
  { apply (nodup_rows _ _ _ (fun (kx : nat * nat) y => [fst kx; snd kx; y]) a01); [|exact K01|exact V01].
    intros [k x] y [k' x'] y' Hq. cbn [fst snd] in Hq. inversion Hq. auto. }
  destruct (keyed_get2 _ _ (t_i0x_get true V) _) as [g02|e] eqn:Eg02; cbn [bind] in H; [|discriminate].
  assert (Ng02 : NoDup (fst g02)).
  { revert Eg02. apply keyed_get2_nd; [intros k x y k' x' y' Hq; inversion Hq; auto|apply (T3 true)|exact Nks|exact Nxs]. }
  destruct (t_i0x_all true V) as [a02|e] eqn:Ea02; cbn [bind] in H; [|discriminate].
  destruct (T4 true a02 Ea02) as [K02 V02].
  assert (Na02 : NoDup (concat (map (fun e : nat * nat * list nat => map (fun x => [fst (fst e); x; snd (fst e)]) (snd e)) a02))).
  { apply (nodup_rows _ _ _ (fun (kx : nat * nat) x => [fst kx; x; snd kx]) a02); [|exact K02|exact V02].
    intros [k x] y [k' x'] y' Hq. cbn [fst snd] in Hq. inversion Hq. auto. }
  match type of H with bind ?r _ = _ => destruct r as [revs|e] eqn:Erevs; cbn [bind] in H; [|discriminate] end.
  destruct (mapM _ (list_prod (seq 0 kdom) (list_prod (seq 0 dom) (seq 0 dom)))) as [ct|e] eqn:Ect; cbn [bind] in H; [|discriminate].
  assert (Nct : NoDup (concat ct)).
  { revert Ect. apply (choose_nd _ _ (fun kp : nat * (nat * nat) => t_contains V (fst kp) (fst (snd kp)) (snd (snd kp))) (fun kp => tr3 (fst kp) (snd kp))).
    - intros [k p] [k' p'] Hq. cbn [fst snd] in Hq. destruct (tr3_inj _ _ _ _ Hq) as [-> ->]. reflexivity.
    - apply NoDup_list_prod_gen; [exact Nks|apply NoDup_list_prod_gen; exact Nxs]. }
  assert (Nrevs : forall v, In v revs -> NoDup (vtuples v)).
  { destruct (rm1 V) as [m1|]; [|inversion Erevs; subst; intros v []]. destruct (rm2 V) as [m2|]; [|inversion Erevs; subst; intros v []].
    destruct (mapM _ (seq 0 dom)) as [g1|e] eqn:Eg1 in Erevs; cbn [bind] in Erevs; [|discriminate].
    assert (Ng1 : NoDup (concat (map fst g1))).
    { revert Eg1. apply (keyed_rows_nd nat (nat * nat) (t_i12x_get false V) (fun x kv => [fst kv; x; snd kv]) (fun x => [[x]])); [|apply (T5 false)|exact Nxs].
      intros x [k y] x' [k' y'] Hq. cbn [fst snd] in Hq. inversion Hq. auto. }
    destruct (t_i12x_all false V) as [a1|e] eqn:Ea1; cbn [bind] in Erevs; [|discriminate].
    destruct (T6 false a1 Ea1) as [K1 V1].
    assert (Na1 : NoDup (concat (map (fun xl : nat * list (nat * nat) => map (fun kv => [fst kv; fst xl; snd kv]) (snd xl)) a1))).
    { apply (nodup_rows _ _ _ (fun x (kv : nat * nat) => [fst kv; x; snd kv]) a1); [|exact K1|exact V1].
      intros x [k y] x' [k' y'] Hq. cbn [fst snd] in Hq. inversion Hq. auto. }
    destruct (mapM _ (seq 0 dom)) as [g2|e] eqn:Eg2 in Erevs; cbn [bind] in Erevs; [|discriminate].
    assert (Ng2 : NoDup (concat (map fst g2))).
    { revert Eg2. apply (keyed_rows_nd nat (nat * nat) (t_i12x_get true V) (fun y kv => [fst kv; snd kv; y]) (fun y => [[y]])); [|apply (T5 true)|exact Nxs].
      intros x [k y] x' [k' y'] Hq. cbn [fst snd] in Hq. inversion Hq. auto. }
    destruct (t_i12x_all true V) as [a2|e] eqn:Ea2; cbn [bind] in Erevs; [|discriminate].
    destruct (T6 true a2 Ea2) as [K2 V2].
    assert (Na2 : NoDup (concat (map (fun yl : nat * list (nat * nat) => map (fun kv => [fst kv; snd kv; fst yl]) (snd yl)) a2))).
    { apply (nodup_rows _ _ _ (fun y (kv : nat * nat) => [fst kv; snd kv; y]) a2); [|exact K2|exact V2].
      intros x [k y] x' [k' y'] Hq. cbn [fst snd] in Hq. inversion Hq. auto. }
    destruct (keyed_get2 _ _ (t_i12_get V) _) as [g12|e] eqn:Eg12; cbn [bind] in Erevs; [|discriminate].
    assert (Ng12 : NoDup (fst g12)).
    { revert Eg12. apply keyed_get2_nd; [intros k x y k' x' y' Hq; inversion Hq; auto|exact T7|exact Nxs|exact Nxs]. }
    destruct (t_i12_all V) as [a12|e] eqn:Ea12 in Erevs; cbn [bind] in Erevs; [|discriminate].
    destruct (T8 a12 Ea12) as [K12 V12].
    assert (Na12 : NoDup (concat (map (fun e : nat * nat * list nat => map (fun k => [k; fst (fst e); snd (fst e)]) (snd e)) a12))).
    { apply (nodup_rows _ _ _ (fun (xx : nat * nat) k => [k; fst xx; snd xx]) a12); [|exact K12|exact V12].
      intros [x y] k [x' y'] k' Hq. cbn [fst snd] in Hq. inversion Hq. auto. }
    inversion Erevs; subst revs. intros v Hv. cbn [In] in Hv.
    destruct Hv as [<-|[<-|[<-|[<-|[<-|[<-|[]]]]]]]; unfold vtuples; cbn [fst]; assumption. }
  inversion H; subst vs. clear H. intros v Hv. cbn [In app] in Hv.
  destruct Hv as [<-|[<-|[<-|[<-|[<-|[<-|[<-|[<-|Hv]]]]]]]]; try (unfold vtuples; cbn [fst]; assumption).
  apply in_app_iff in Hv. destruct Hv as [Hv|Hv]; [apply Nrevs; exact Hv|].
  cbn [In] in Hv. destruct Hv as [<-|[<-|[<-|[]]]]; unfold vtuples; cbn [fst]; assumption.
Qed.

Section TerReads.
Variables has1 has2 : bool.

Definition It (st : pstate tern) : Prop := (exists Ins, pst_ok has1 has2 Ins st) /\ T3w st.

Lemma It_step : forall dom kdom st o st' it, step (ter_prov has1 has2 dom kdom) st o = Ok (st', it) -> It st -> It st'.
Proof.
  intros dom kdom st o st' it H [[Ins Hst] Hd]. split; [|eapply ter_step_T3w; eassumption].
  destruct (pst_step_ok has1 has2 dom kdom Ins st o Hst) as [st2 [it2 [H2 Hst2]]]. rewrite H in H2. inversion H2; subst. eexists; exact Hst2.
Qed.

Lemma It_nodup : forall st, It st -> nodup_tern (s_delta st) /\ nodup_tern (s_total st).
Proof.
  intros st [[Ins [Htok _]] [[ED RD] [[ET RT] _]]]. destruct Htok as [_ [[Nd _] [[Nt _] [_ [_ HK]]]]].
  split; apply tern_nodup; (split; [assumption|split; [|assumption]]).
  - intros k c Hin. pose proof (in_aget _ _ _ _ Nd Hin) as Hc. pose proof (HK k) as Hk. rewrite Hc in Hk. cbn [nget] in Hk.
    apply (kok_nodup _ _ _ _ Hk); [apply (ED k c Hin)|].
    destruct (aget k (tm (s_total st))) as [tc|] eqn:Htc; cbn [nget]; [apply (ET k tc); apply aget_in; exact Htc|exact I].
  - intros k c Hin. pose proof (in_aget _ _ _ _ Nt Hin) as Hc. pose proof (HK k) as Hk. rewrite Hc in Hk. cbn [nget] in Hk.
    apply (kok_nodup _ _ _ _ Hk); [|apply (ET k c Hin)].
    destruct (aget k (tm (s_delta st))) as [dc|] eqn:Hdc; cbn [nget]; [apply (ED k dc); apply aget_in; exact Hdc|exact I].
Qed.

(* Theorem (ternary form, with or without reverse maps, EVERY sequence of operations): at every read, every view of delta and of
   total lists each tuple once *)
Theorem ter_reads_once : forall dom kdom ops d t, In (RRead d t) (run_ter has1 has2 dom kdom ops) ->
  forall v, In v d \/ In v t -> NoDup (vtuples v).
Proof.
  intros dom kdom ops d t Hin v Hv. unfold run_ter in Hin.
  assert (H0 : It (ps_init (ter_prov has1 has2 dom kdom))) by (split; [exists []; apply pst_init_ok|apply T3w_init]).
  destruct (run_hist_reads _ (ter_prov has1 has2 dom kdom) It (It_step dom kdom) ops _ 0 [] d t H0 Hin) as [[]|[st1 [Hi [Hd Ht]]]].
  destruct (It_nodup st1 Hi) as [Nd Nt]. cbn [p_read ter_prov] in Hd, Ht.
  destruct Hv as [Hv|Hv]; [apply (read_ter_nd dom kdom _ d Nd Hd v Hv)|apply (read_ter_nd dom kdom _ t Nt Ht v Hv)].
Qed.
End TerReads.
