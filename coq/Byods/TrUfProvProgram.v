(* C12 — the binary trrel_uf provider inside the engine.

   TrUfProvLaws.PU (the model's operations as a provider over pairs of naturals) is carried to a provider over the
   engine's `tuple := list Z` by the adapter of Byods/TrRelAdapter.v (tuples that are not pairs are "junk", kept in a plain
   set protocol; a validated program never produces them) along a bijection between Z and nat (the Rust element type is
   generic, the model's elements are naturals and only their equality is used).  The laws of TrUfProvEngine.qengine_laws are
   proved for it with cl = the reflexive transitive closure on mentioned elements, and the program-level theorem follows
   through TrUfProvEngine.prun_plan_correct_q: a program whose relation r0 is tagged #[ds(trrel_uf)], run by the engine model
   on a validated plan, computes the least model of the program extended with the explicit rules
       r0(x, x) <-- r0(x, _);     r0(y, y) <-- r0(_, y);     r0(x, z) <-- r0(x, y), r0(y, z). *)
From Coq Require Import List ZArith Bool Arith Lia.
From AV Require Import UF.TrUfInv.
From AV Require Import UF.TrUfQueries.
From AV Require Import UF.TrUfStep.
From AV Require Import Byods.TrUfProvProofs.
From AV Require Import Engine.Core Engine.Sem Engine.Eval Engine.Validate Engine.Naive Engine.Interface Engine.NaiveLemmas.
From AV Require Import Byods.Provider Engine.EvalProv Engine.InterfaceProv.
From AV Require Byods.Closure.
From AV Require Import Byods.TrRelAdapter.
From AV Require Import Byods.TrUfProvLaws.
From AV Require Import Byods.TrUfProvTernary.
From AV Require Import Byods.TrUfProvEngine.
Import ListNotations.

(* ================================================================== the adapter of TrRelAdapter.v, for laws over q-histories *)
Section QAdapter.
Variable T : Type.
Variable P : provider T.
Variable enc : T -> tuple.
Variable dec : tuple -> option T.
Hypothesis dec_enc : forall x, dec (enc x) = Some x.
Hypothesis enc_dec : forall t x, dec t = Some x -> enc x = t.

Inductive qguardedT : list (pop T) -> Prop :=
| qgT_nil : qguardedT []
| qgT_merge h : qguardedT h -> qguardedT (h ++ [PMerge])
| qgT_restart h : qguardedT h -> g_new T (ghost_of T h) = [] -> incl (g_td T (ghost_of T h)) (g_t T (ghost_of T h)) ->
    qguardedT (h ++ [PRestart])
| qgT_ins h t : qguardedT h ->
    p_contains T P (run T P h) VTotal t = false -> p_contains T P (run T P h) VDelta t = false ->
    qguardedT (h ++ [PIns t]).

Record qlawsT (clT : list T -> list T) : Prop := {
  qt_contains : forall h v t, qguardedT h -> (p_contains T P (run T P h) v t = true <-> In t (p_read T P (run T P h) v));
  qt_served : forall h, qguardedT h -> same_set (served T P (run T P h)) (clT (g_td T (ghost_of T h)));
  qt_first_insert : forall h t, qguardedT h ->
    p_contains T P (run T P h) VTotal t = false -> p_contains T P (run T P h) VDelta t = false ->
    g_new T (ghost_of T h) = [] -> snd (p_ins T P (run T P h) t) = true;
  qt_merge_total : forall h, qguardedT h ->
    incl (p_read T P (run T P (h ++ [PMerge])) VTotal) (served T P (run T P h) ++ p_read T P (run T P (h ++ [PMerge])) VDelta);
  qt_quiescent : forall h, qguardedT h -> g_new T (ghost_of T h) = [] ->
    incl (served T P (run T P (h ++ [PMerge]))) (p_read T P (run T P (h ++ [PMerge])) VTotal);
  qt_restart_serves : forall h, qguardedT h ->
    incl (p_read T P (run T P h) VTotal) (served T P (run T P (h ++ [PRestart])));
  qt_restart_total : forall h, qguardedT h ->
    incl (p_read T P (run T P (h ++ [PRestart])) VTotal) (p_read T P (run T P (h ++ [PRestart])) VDelta) }.

Notation AD := (adapt T P enc dec).
Variable clT : list T -> list T.
Notation ACL := (acl T enc dec clT).

Lemma qguarded_transfer h : qguarded AD h -> qguardedT (projT T dec h).
Proof.
  induction 1 as [|h G IH|h G IH Hn Hi|h t G IH C1 C2]; rewrite ?projT_snoc; cbn [proj1op].
  - constructor.
  - constructor; exact IH.
  - destruct (sim T P enc dec h) as (_ & _ & E3). constructor; [exact IH| |]; rewrite E3; cbn [decsG g_new g_td g_t].
    + rewrite Hn. reflexivity.
    + intros x Hx. apply (decs_in T enc dec dec_enc enc_dec). apply Hi. apply (decs_in T enc dec dec_enc enc_dec). exact Hx.
  - destruct (dec t) as [x|] eqn:D; [|rewrite app_nil_r; exact IH].
    destruct (sim T P enc dec h) as (E1 & _ & _). cbn [adapt p_contains] in C1, C2. unfold a_contains in C1, C2. rewrite D, E1 in C1, C2.
    constructor; assumption.
Qed.

Ltac fin H E := first [exact H | rewrite E in H; exact H | rewrite <- E in H; exact H | rewrite E; exact H | rewrite <- E; exact H].

Theorem adapt_qengine_laws : qlawsT clT -> qengine_laws AD ACL.
Proof.
  intros L. constructor.
  - (* contains *)
    intros h v t G. destruct (sim T P enc dec h) as (E1 & J & _). pose proof (qguarded_transfer h G) as GT.
    cbn [adapt p_contains p_read]. unfold a_contains. rewrite a_read_in. destruct (dec t) as [x|] eqn:D.
    + rewrite E1, (qt_contains clT L _ v x GT). split.
      * intros H. left. exists x. split; [symmetry; apply enc_dec; exact D | fin H E1].
      * intros [[y [E H]]|H].
        -- subst t. rewrite dec_enc in D. inversion D; subst. fin H E1.
        -- pose proof (junk_only T dec _ _ v t J H). congruence.
    + rewrite mem_tuple_spec. split; [intros H; right; exact H|]. intros [[y [E _]]|H]; [|exact H].
      subst t. rewrite dec_enc in D. discriminate.
  - (* served *)
    intros h G. destruct (sim T P enc dec h) as (E1 & J & E3). pose proof (qguarded_transfer h G) as GT.
    destruct (qt_served clT L _ GT) as [S1 S2]. rewrite E3 in S1, S2. cbn [decsG g_td] in S1, S2.
    destruct (run tuple AD h) as [s [[jn jd] jt]] eqn:R. cbn [fst snd] in *. destruct J as (Jn & Jt & Jtd).
    unfold served. cbn [adapt p_read]. split; intros t Ht.
    + apply acl_in. apply in_app_or in Ht. destruct Ht as [Ht|Ht]; apply a_read_in in Ht; cbn [fst snd jver] in Ht;
        destruct Ht as [[x [-> Hx]]|Hj].
      * left. exists x. split; [reflexivity|]. apply S1. unfold served. rewrite <- E1. apply in_or_app; left; exact Hx.
      * right. apply (junk_in T dec). apply Jtd. apply in_or_app; left; exact Hj.
      * left. exists x. split; [reflexivity|]. apply S1. unfold served. rewrite <- E1. apply in_or_app; right; exact Hx.
      * right. apply (junk_in T dec). apply Jtd. apply in_or_app; right; exact Hj.
    + apply acl_in in Ht. destruct Ht as [[x [-> Hx]]|Hj].
      * apply S2 in Hx. unfold served in Hx. rewrite <- E1 in Hx. apply in_app_or in Hx.
        apply in_or_app. destruct Hx as [Hx|Hx]; [left | right]; apply a_read_in; left; exists x; split; auto.
      * apply (junk_in T dec) in Hj. apply Jtd in Hj. apply in_app_or in Hj.
        apply in_or_app. destruct Hj as [Hj|Hj]; [left | right]; apply a_read_in; right; exact Hj.
  - (* first insert *)
    intros h t G C1 C2 Hn. destruct (sim T P enc dec h) as (E1 & J & E3). pose proof (qguarded_transfer h G) as GT.
    cbn [adapt p_ins p_contains] in *. unfold a_ins, a_contains in *. destruct (dec t) as [x|] eqn:D.
    + rewrite E1 in *. pose proof (qt_first_insert clT L _ x GT C1 C2) as F. rewrite E3 in F. cbn [decsG g_new] in F.
      rewrite Hn in F. specialize (F eq_refl). destruct (p_ins T P (run T P (projT T dec h)) x) as [s' b]. exact F.
    + destruct (run tuple AD h) as [s [[jn jd] jt]] eqn:R. cbn [fst snd] in *. destruct J as (Jn & _ & _).
      destruct (mem_tuple t jn) eqn:M; [|reflexivity]. apply mem_tuple_spec in M. apply Jn in M. rewrite Hn in M. destruct M.
  - (* merge total *)
    intros h G. destruct (sim T P enc dec h) as (E1 & J & _). pose proof (qguarded_transfer h G) as GT.
    pose proof (qt_merge_total clT L _ GT) as M. rewrite !run_snoc in *. cbn [step adapt p_merge] in *.
    destruct (run tuple AD h) as [s [[jn jd] jt]] eqn:R. cbn [fst snd] in *. unfold a_merge. cbn [fst snd].
    unfold served. cbn [adapt p_read]. intros t Ht. apply a_read_in in Ht. cbn [fst snd jver] in Ht. destruct Ht as [[x [-> Hx]]|Hj].
    + rewrite E1 in Hx. apply M in Hx. apply in_app_or in Hx. destruct Hx as [Hx|Hx].
      * apply in_or_app; left. unfold served in Hx. rewrite <- E1 in Hx. apply in_app_or in Hx.
        apply in_or_app. destruct Hx as [Hx|Hx]; [left | right]; apply a_read_in; left; exists x; split; auto.
      * apply in_or_app; right. apply a_read_in. left. exists x. split; [reflexivity|]. cbn [fst]. rewrite E1. exact Hx.
    + apply in_or_app; left. apply in_app_or in Hj. apply in_or_app. destruct Hj as [Hj|Hj]; [left | right]; apply a_read_in; right; exact Hj.
  - (* quiescent *)
    intros h G Hn. destruct (sim T P enc dec h) as (E1 & J & E3). pose proof (qguarded_transfer h G) as GT.
    assert (HnT : g_new T (ghost_of T (projT T dec h)) = []) by (rewrite E3; cbn [decsG g_new]; rewrite Hn; reflexivity).
    pose proof (qt_quiescent clT L _ GT HnT) as Q. rewrite !run_snoc in *. cbn [step adapt p_merge] in *.
    destruct (run tuple AD h) as [s [[jn jd] jt]] eqn:R. cbn [fst snd] in *. destruct J as (Jn & _ & _). unfold a_merge. cbn [fst snd].
    unfold served. cbn [adapt p_read]. intros t Ht. apply in_app_or in Ht. destruct Ht as [Ht|Ht]; [exact Ht|].
    apply a_read_in in Ht. cbn [fst snd jver] in Ht. destruct Ht as [[x [-> Hx]]|Hj].
    + apply a_read_in. left. exists x. split; [reflexivity|]. cbn [fst]. rewrite E1 in *. apply Q. unfold served. apply in_or_app; right; exact Hx.
    + apply Jn in Hj. rewrite Hn in Hj. destruct Hj.
  - (* restart serves *)
    intros h G. destruct (sim T P enc dec h) as (E1 & J & _). pose proof (qguarded_transfer h G) as GT.
    pose proof (qt_restart_serves clT L _ GT) as Q. rewrite !run_snoc in *. cbn [step adapt p_restart] in *.
    destruct (run tuple AD h) as [s [[jn jd] jt]] eqn:R. cbn [fst snd] in *. unfold a_restart. cbn [fst snd].
    unfold served. cbn [adapt p_read]. intros t Ht. apply a_read_in in Ht. cbn [fst snd jver] in Ht. destruct Ht as [[x [-> Hx]]|Hj].
    + rewrite E1 in Hx. apply Q in Hx. unfold served in Hx. apply in_app_or in Hx.
      apply in_or_app. destruct Hx as [Hx|Hx]; [left | right]; apply a_read_in; left; exists x; (split; [reflexivity|]); cbn [fst]; rewrite E1; exact Hx.
    + apply in_or_app; right. apply a_read_in. right. exact Hj.
  - (* restart total *)
    intros h G. destruct (sim T P enc dec h) as (E1 & J & _). pose proof (qguarded_transfer h G) as GT.
    pose proof (qt_restart_total clT L _ GT) as Q. rewrite !run_snoc in *. cbn [step adapt p_restart] in *.
    destruct (run tuple AD h) as [s [[jn jd] jt]] eqn:R. cbn [fst snd] in *. unfold a_restart. cbn [fst snd].
    cbn [adapt p_read]. intros t Ht. apply a_read_in in Ht. cbn [fst snd jver] in Ht. destruct Ht as [[x [-> Hx]]|[]].
    apply a_read_in. left. exists x. split; [reflexivity|]. cbn [fst] in *. rewrite E1 in *. apply Q. exact Hx.
Qed.
End QAdapter.

(* ================================================================== the closure operator on pairs of naturals *)
Definition zp (p : nat * nat) : Z * Z := (Z.of_nat (fst p), Z.of_nat (snd p)).
Definition np (p : Z * Z) : nat * nat := (Z.to_nat (fst p), Z.to_nat (snd p)).
(* the executable reflexive transitive closure of Byods/Closure.v, computed on the image in Z *)
Definition rtcl (l : list (nat * nat)) : list (nat * nat) := map np (Closure.rtc (map zp l)).

Lemma np_zp p : np (zp p) = p.
Proof. destruct p as [a b]. unfold np, zp. cbn [fst snd]. rewrite !Nat2Z.id. reflexivity. Qed.

Lemma zp_in l a b : In (a, b) (map zp l) <-> exists x y, a = Z.of_nat x /\ b = Z.of_nat y /\ In (x, y) l.
Proof.
  rewrite in_map_iff. split.
  - intros [[x y] [E H]]. unfold zp in E. cbn [fst snd] in E. inversion E; subst. exists x, y. auto.
  - intros (x & y & -> & -> & H). exists (x, y). split; [reflexivity|exact H].
Qed.

Lemma rtc_to_rel l x y : rtc l x y -> Closure.rtc_rel (map zp l) (Z.of_nat x) (Z.of_nat y).
Proof.
  induction 1 as [x y H|x y H|x y H|x y z _ IH1 _ IH2].
  - apply Closure.rtc_refl. apply Closure.mentioned_spec. exists (Z.of_nat y). left. apply zp_in. exists x, y. auto.
  - apply Closure.rtc_refl. apply Closure.mentioned_spec. exists (Z.of_nat x). right. apply zp_in. exists x, y. auto.
  - apply Closure.rtc_base. apply zp_in. exists x, y. auto.
  - eapply Closure.rtc_trans; eassumption.
Qed.

Lemma rel_to_rtc l a b : Closure.rtc_rel (map zp l) a b -> exists x y, a = Z.of_nat x /\ b = Z.of_nat y /\ rtc l x y.
Proof.
  induction 1 as [a b H|a H|a b c _ IH1 _ IH2].
  - apply zp_in in H. destruct H as (x & y & -> & -> & H). exists x, y. split; [reflexivity|]. split; [reflexivity|apply rtc_e; exact H].
  - apply Closure.mentioned_spec in H. destruct H as [b [H|H]]; apply zp_in in H; destruct H as (x & y & E1 & E2 & H); subst.
    + exists x, x. split; [reflexivity|]. split; [reflexivity|eapply rtc_l; exact H].
    + exists y, y. split; [reflexivity|]. split; [reflexivity|eapply rtc_r; exact H].
  - destruct IH1 as (x & y & -> & -> & H1). destruct IH2 as (y' & z & E & -> & H2). apply Nat2Z.inj in E. subst y'.
    exists x, z. split; [reflexivity|]. split; [reflexivity|eapply rtc_t; eassumption].
Qed.

Lemma rtcl_spec l x y : In (x, y) (rtcl l) <-> rtc l x y.
Proof.
  unfold rtcl. rewrite in_map_iff. split.
  - intros [[a b] [E H]]. apply Closure.rtc_spec in H. apply rel_to_rtc in H. destruct H as (x' & y' & -> & -> & H).
    change (np (zp (x', y')) = (x, y)) in E. rewrite np_zp in E. inversion E; subst. exact H.
  - intros H. exists (zp (x, y)). split; [apply np_zp|]. apply Closure.rtc_spec. apply rtc_to_rel. exact H.
Qed.

Lemma rtcl_closure_op : closure_op T2 rtcl.
Proof.
  constructor.
  - intros s [x y] H. apply rtcl_spec. apply rtc_e. exact H.
  - intros s s' Hi [x y] H. apply rtcl_spec. apply rtcl_spec in H. eapply rtc_mono; [|exact H]. intros p; apply Hi.
  - intros s [x y] H. apply rtcl_spec. apply rtcl_spec in H. revert H. apply rtc_closed. intros a b Hab. apply rtcl_spec. exact Hab.
  - reflexivity.
Qed.

(* ================================================================== the laws for PU *)
Lemma qguardedT_qhist h : qguardedT T2 PU h -> qhist h.
Proof. induction 1; constructor; assumption. Qed.

Theorem trufprov_binary_qlaws : qlawsT T2 PU rtcl.
Proof.
  constructor.
  - intros h v t G. apply pu_contains_iff. apply qguardedT_qhist; exact G.
  - intros h G. pose proof (pu_served h (qguardedT_qhist h G)) as S. split; intros [x y] H.
    + apply rtcl_spec. apply S. exact H.
    + apply S. apply rtcl_spec. exact H.
  - intros h t G _ _ Hn. apply pu_first_insert; [apply qguardedT_qhist; exact G|exact Hn].
  - intros h G. apply pu_merge_total. apply qguardedT_qhist; exact G.
  - intros h G Hn. apply pu_quiescent; [apply qguardedT_qhist; exact G|exact Hn].
  - intros h _. apply pu_restart_serves.
  - intros h _. rewrite pu_restart_total. intros t [].
Qed.

(* ================================================================== packaged over list Z *)
Local Open Scope nat_scope.
(* a bijection between Z and nat: 0, -1, 1, -2, 2, ... *)
Definition zn (z : Z) : nat := if (0 <=? z)%Z then 2 * Z.to_nat z else 2 * Z.to_nat (- z) - 1.
Definition nz (n : nat) : Z := if Nat.even n then Z.of_nat (Nat.div2 n) else (- Z.of_nat (S (Nat.div2 n)))%Z.

Lemma nz_zn z : nz (zn z) = z.
Proof.
  unfold zn, nz. destruct (Z.leb_spec 0 z) as [Hz|Hz].
  - rewrite Nat.even_mul. cbn [Nat.even orb]. rewrite Nat.div2_double. apply Z2Nat.id. exact Hz.
  - set (k := Z.to_nat (- z)). assert (Hk : 1 <= k) by (unfold k; lia).
    replace (2 * k - 1) with (S (2 * (k - 1))) by lia.
    rewrite Nat.even_succ, Nat.odd_mul. cbn [Nat.odd Nat.even negb andb]. rewrite Nat.div2_succ_double.
    replace (S (k - 1)) with k by lia. unfold k. rewrite Z2Nat.id by lia. lia.
Qed.

Lemma zn_nz n : zn (nz n) = n.
Proof.
  unfold zn, nz. pose proof (Nat.div2_odd n) as Hn. rewrite <- Nat.negb_even in Hn. destruct (Nat.even n); cbn [negb Nat.b2n] in Hn.
  - destruct (Z.leb_spec 0 (Z.of_nat (Nat.div2 n))) as [Hz|Hz]; [|lia]. rewrite Nat2Z.id. lia.
  - destruct (Z.leb_spec 0 (- Z.of_nat (S (Nat.div2 n)))) as [Hz|Hz]; [lia|]. rewrite Z.opp_involutive, Nat2Z.id. lia.
Qed.

Definition encu (p : T2) : tuple := [nz (fst p); nz (snd p)].
Definition decu (t : tuple) : option T2 := match t with [a; b] => Some (zn a, zn b) | _ => None end.
Lemma decu_encu x : decu (encu x) = Some x.
Proof. destruct x as [a b]. unfold decu, encu. cbn [fst snd]. rewrite !zn_nz. reflexivity. Qed.
Lemma encu_decu t x : decu t = Some x -> encu x = t.
Proof.
  destruct t as [|a [|b [|c t]]]; cbn; try discriminate. intros H; inversion H; subst. unfold encu. cbn [fst snd]. rewrite !nz_zn. reflexivity.
Qed.

(* the binary #[ds(trrel_uf)] relation as the engine sees it, and its closure operator *)
Definition trrel_uf_binary : provider tuple := adapt T2 PU encu decu.
Definition rtc2 : list tuple -> list tuple := acl T2 encu decu rtcl.

Theorem rtc2_closure_op : closure_op tuple rtc2.
Proof. apply acl_closure_op; [exact decu_encu | exact encu_decu | exact rtcl_closure_op]. Qed.
Theorem rtc2_arity : cl_arity rtc2 2.
Proof. apply acl_arity. intros [x y]; reflexivity. Qed.
Theorem trrel_uf_binary_qengine_laws : qengine_laws trrel_uf_binary rtc2.
Proof. apply adapt_qengine_laws; first [exact decu_encu | exact encu_decu | exact trufprov_binary_qlaws]. Qed.

(* ================================================================== the explicit rules *)
Definition rtc_rules (r0 : rel) : list rule :=
  [ {| heads := [(r0, [TVar 0%nat; TVar 0%nat])]; body := [BClause r0 [TVar 0%nat; TVar 1%nat] []] |};
    {| heads := [(r0, [TVar 1%nat; TVar 1%nat])]; body := [BClause r0 [TVar 0%nat; TVar 1%nat] []] |};
    {| heads := [(r0, [TVar 0%nat; TVar 2%nat])];
       body := [BClause r0 [TVar 0%nat; TVar 1%nat] []; BClause r0 [TVar 1%nat; TVar 2%nat] []] |} ].

Section Bridge.
Variable I : interp.

Lemma derive_refl_l db r0 f :
  In f (derive_rule I db {| heads := [(r0, [TVar 0%nat; TVar 0%nat])]; body := [BClause r0 [TVar 0%nat; TVar 1%nat] []] |}) <->
  exists a b, In [a; b] (db r0) /\ f = (r0, [a; a]).
Proof.
  unfold derive_rule. cbn [body heads all_envs]. rewrite in_flat_map. split.
  - intros [e [He Hf]]. apply in_flat_map in He. destruct He as [tup [Ht He]].
    destruct tup as [|a [|b [|c r]]]; cbn in He; try destruct He as [He|He]; try destruct He.
    exists a, b. split; [exact Ht|]. cbn in Hf. destruct Hf as [<-|[]]. reflexivity.
  - intros [a [b [Ht ->]]]. exists [Some a; Some b]. split.
    + apply in_flat_map. exists [a; b]. split; [exact Ht|]. cbn. left. reflexivity.
    + cbn. left. reflexivity.
Qed.

Lemma derive_refl_r db r0 f :
  In f (derive_rule I db {| heads := [(r0, [TVar 1%nat; TVar 1%nat])]; body := [BClause r0 [TVar 0%nat; TVar 1%nat] []] |}) <->
  exists a b, In [a; b] (db r0) /\ f = (r0, [b; b]).
Proof.
  unfold derive_rule. cbn [body heads all_envs]. rewrite in_flat_map. split.
  - intros [e [He Hf]]. apply in_flat_map in He. destruct He as [tup [Ht He]].
    destruct tup as [|a [|b [|c r]]]; cbn in He; try destruct He as [He|He]; try destruct He.
    exists a, b. split; [exact Ht|]. cbn in Hf. destruct Hf as [<-|[]]. reflexivity.
  - intros [a [b [Ht ->]]]. exists [Some a; Some b]. split.
    + apply in_flat_map. exists [a; b]. split; [exact Ht|]. cbn. left. reflexivity.
    + cbn. left. reflexivity.
Qed.

Lemma derive_trans db r0 f :
  In f (derive_rule I db {| heads := [(r0, [TVar 0%nat; TVar 2%nat])];
                           body := [BClause r0 [TVar 0%nat; TVar 1%nat] []; BClause r0 [TVar 1%nat; TVar 2%nat] []] |}) <->
  exists x y z, f = (r0, [x; z]) /\ In [x; y] (db r0) /\ In [y; z] (db r0).
Proof.
  unfold derive_rule. cbn [body heads all_envs]. rewrite in_flat_map. split.
  - intros [e [He Hf]]. apply in_flat_map in He. destruct He as [t1 [H1 He]].
    destruct t1 as [|x [|y [|c t1]]]; cbn in He; try (destruct He; fail).
    apply in_flat_map in He. destruct He as [t2 [H2 He]].
    destruct t2 as [|a [|z [|c t2]]]; cbn in He; try (destruct He; fail);
      destruct (y =? a)%Z eqn:E; cbn in He; try (destruct He; fail).
    apply Z.eqb_eq in E. subst a. destruct He as [<-|[]]. cbn in Hf. destruct Hf as [<-|[]]. exists x, y, z. auto.
  - intros (x & y & z & -> & H1 & H2). exists [Some x; Some y; Some z]. split; [|left; reflexivity].
    apply in_flat_map. exists [x; y]. split; [exact H1|]. cbn. apply in_flat_map. exists [y; z]. split; [exact H2|].
    cbn. rewrite Z.eqb_refl. left; reflexivity.
Qed.

Lemma closed_rtc_rules r0 M : closed I (rtc_rules r0) M <->
  (forall a b, In (r0, [a; b]) M -> In (r0, [a; a]) M /\ In (r0, [b; b]) M)
  /\ (forall a b c, In (r0, [a; b]) M -> In (r0, [b; c]) M -> In (r0, [a; c]) M).
Proof.
  unfold closed, derives. split.
  - intros H. split.
    + intros a b Hab. apply in_db_of in Hab. split; apply H; eexists.
      * split; [left; reflexivity|]. apply derive_refl_l. exists a, b. auto.
      * split; [right; left; reflexivity|]. apply derive_refl_r. exists a, b. auto.
    + intros a b c Hab Hbc. apply in_db_of in Hab. apply in_db_of in Hbc. apply H. eexists. split; [right; right; left; reflexivity|].
      apply derive_trans. exists a, b, c. auto.
  - intros [H1 H2] f [r [Hr Hf]]. destruct Hr as [<-|[<-|[<-|[]]]].
    + apply derive_refl_l in Hf. destruct Hf as [a [b [Hab ->]]]. apply in_db_of in Hab. apply (H1 a b Hab).
    + apply derive_refl_r in Hf. destruct Hf as [a [b [Hab ->]]]. apply in_db_of in Hab. apply (H1 a b Hab).
    + apply derive_trans in Hf. destruct Hf as (x & y & z & -> & Hxy & Hyz). apply in_db_of in Hxy. apply in_db_of in Hyz. eapply H2; eassumption.
Qed.

Lemma decs_pair M r0 x y : In (x, y) (decs T2 decu (db_of M r0)) <-> In (r0, [nz x; nz y]) M.
Proof. rewrite (decs_in T2 encu decu decu_encu encu_decu). unfold encu. cbn [fst snd]. apply in_db_of. Qed.

Theorem rtc2_closed_iff_rules r0 M : cl_closed rtc2 r0 M <-> closed I (rtc_rules r0) M.
Proof.
  rewrite closed_rtc_rules. unfold cl_closed, rtc2. split.
  - intros H.
    assert (Hc : forall x y, rtc (decs T2 decu (db_of M r0)) x y -> In (r0, [nz x; nz y]) M).
    { intros x y Hxy. apply in_db_of. apply H. apply (acl_in T2 encu decu). left. exists (x, y). split; [reflexivity|].
      apply rtcl_spec. exact Hxy. }
    split.
    + intros a b Hab. rewrite <- (nz_zn a), <- (nz_zn b) in Hab. apply decs_pair in Hab.
      rewrite <- (nz_zn a), <- (nz_zn b). split; apply Hc; [eapply rtc_l|eapply rtc_r]; exact Hab.
    + intros a b c Hab Hbc. rewrite <- (nz_zn a), <- (nz_zn b) in Hab. rewrite <- (nz_zn b), <- (nz_zn c) in Hbc.
      apply decs_pair in Hab. apply decs_pair in Hbc. rewrite <- (nz_zn a), <- (nz_zn c). apply Hc.
      eapply rtc_t; apply rtc_e; eassumption.
  - intros [H1 H2] t Ht. apply (acl_in T2 encu decu) in Ht. destruct Ht as [[[x y] [-> Hxy]]|[Ht _]]; [|exact Ht].
    apply rtcl_spec in Hxy. unfold encu. cbn [fst snd]. apply in_db_of.
    induction Hxy as [x y Hi|x y Hi|x y Hi|x y z _ IH1 _ IH2].
    + apply decs_pair in Hi. apply (H1 _ _ Hi).
    + apply decs_pair in Hi. apply (H1 _ _ Hi).
    + apply decs_pair in Hi. exact Hi.
    + eapply H2; eassumption.
Qed.

Lemma closed_app P Q M : closed I (P ++ Q) M <-> closed I P M /\ closed I Q M.
Proof.
  unfold closed, derives. split.
  - intros H. split; intros f [r [Hr Hf]]; apply H; exists r; (split; [apply in_or_app; auto | exact Hf]).
  - intros [H1 H2] f [r [Hr Hf]]. apply in_app_or in Hr. destruct Hr as [Hr|Hr]; [apply H1 | apply H2]; exists r; auto.
Qed.

Theorem least_model_rtc2_iff P r0 F0 M :
  least_model_cl I P rtc2 r0 F0 M <-> least_model I (P ++ rtc_rules r0) F0 M.
Proof.
  unfold least_model_cl, least_model. split.
  - intros (A & B & C & D). split; [exact A|]. split; [apply closed_app; split; [exact B | apply rtc2_closed_iff_rules; exact C]|].
    intros M' H1 H2. apply closed_app in H2. destruct H2 as [H2 H3]. apply D; auto. apply rtc2_closed_iff_rules; exact H3.
  - intros (A & B & D). apply closed_app in B. destruct B as [B C]. split; [exact A|]. split; [exact B|].
    split; [apply rtc2_closed_iff_rules; exact C|]. intros M' H1 H2 H3. apply D; auto. apply closed_app. split; [exact H2 | apply rtc2_closed_iff_rules; exact H3].
Qed.
End Bridge.

(* ================================================================== the program-level statement for the binary form *)
Theorem trrel_uf_program_binary : forall I swap r0 arities P pl fuel F0 st,
  In (r0, 2%nat) arities -> arities_functional arities -> wf_facts arities F0 = true -> no_agg P = true ->
  (forall f, In f F0 -> fst f <> r0) -> validate arities P pl = true ->
  prun_plan I swap trrel_uf_binary r0 fuel pl F0 = Some st ->
  least_model I (P ++ rtc_rules r0) F0 (pfacts trrel_uf_binary r0 st).
Proof.
  intros I swap r0 arities P pl fuel F0 st H1 H2 H3 H4 H5 H6 H7. apply least_model_rtc2_iff.
  eapply (prun_plan_correct_q I swap trrel_uf_binary rtc2 r0 2%nat arities P pl fuel F0 st); eauto.
  - exact rtc2_closure_op.
  - exact trrel_uf_binary_qengine_laws.
  - exact rtc2_arity.
Qed.

(* ================================================================== the ternary form *)
(* the closure per key: reflexive transitive closure of the pairs recorded under each value of column 0 *)
Definition keys_of3 (l : list T3) : list nat := nodup Nat.eq_dec (map fst l).
Definition cl3n (l : list T3) : list T3 := flat_map (fun k => map (pair k) (rtcl (proj k l))) (keys_of3 l).

Lemma cl3n_in k p l : In (k, p) (cl3n l) <-> In p (rtcl (proj k l)).
Proof.
  unfold cl3n. rewrite in_flat_map. split.
  - intros [k' [Hk H]]. apply in_map_iff in H. destruct H as [p' [E Hp]]. inversion E; subst. exact Hp.
  - intros H. exists k. split; [|apply in_map; exact H]. unfold keys_of3. apply nodup_In. apply in_map_iff.
    destruct p as [x y]. apply rtcl_spec in H. destruct (rtc_mentioned _ _ _ H) as [[z [Hz|Hz]] _]; apply proj_in in Hz; eexists; (split; [|exact Hz]); reflexivity.
Qed.

Lemma cl3n_closure_op : closure_op T3 cl3n.
Proof.
  constructor.
  - intros s [k p] H. apply cl3n_in. apply (cl_ext T2 rtcl rtcl_closure_op). apply proj_in. exact H.
  - intros s s' Hi [k p] H. apply cl3n_in. apply cl3n_in in H. eapply (cl_mono T2 rtcl rtcl_closure_op); [|exact H].
    intros u Hu. apply proj_in. apply Hi. apply proj_in. exact Hu.
  - intros s [k p] H. apply cl3n_in. apply cl3n_in in H. apply (cl_idem T2 rtcl rtcl_closure_op).
    eapply (cl_mono T2 rtcl rtcl_closure_op); [|exact H]. intros u Hu. apply proj_in in Hu. apply cl3n_in in Hu. exact Hu.
  - reflexivity.
Qed.

Lemma qguardedT_qhist3 h1 h2 h : qguardedT T3 (PT h1 h2) h -> qhist3 h.
Proof. induction 1; constructor; assumption. Qed.

Theorem trufprov_ternary_qlaws h1 h2 : qlawsT T3 (PT h1 h2) cl3n.
Proof.
  constructor.
  - intros h v t G. apply pt_contains_iff. apply (qguardedT_qhist3 h1 h2); exact G.
  - intros h G. pose proof (pt_served h1 h2 h (qguardedT_qhist3 h1 h2 h G)) as S. split; intros [k [x y]] H.
    + apply cl3n_in. apply rtcl_spec. apply S. exact H.
    + apply S. apply rtcl_spec. apply cl3n_in. exact H.
  - intros h t G _ _ Hn. apply pt_first_insert; [apply (qguardedT_qhist3 h1 h2); exact G|exact Hn].
  - intros h G. apply pt_merge_total. apply (qguardedT_qhist3 h1 h2); exact G.
  - intros h G Hn. apply pt_quiescent; [apply (qguardedT_qhist3 h1 h2); exact G|exact Hn].
  - intros h _. apply pt_restart_serves.
  - intros h _. rewrite pt_restart_total. intros t [].
Qed.

Definition encv (t : T3) : tuple := [nz (fst t); nz (fst (snd t)); nz (snd (snd t))].
Definition decv (t : tuple) : option T3 := match t with [k; a; b] => Some (zn k, (zn a, zn b)) | _ => None end.
Lemma decv_encv x : decv (encv x) = Some x.
Proof. destruct x as [k [a b]]. unfold decv, encv. cbn [fst snd]. rewrite !zn_nz. reflexivity. Qed.
Lemma encv_decv t x : decv t = Some x -> encv x = t.
Proof.
  destruct t as [|k [|a [|b [|c t]]]]; cbn; try discriminate. intros H; inversion H; subst. unfold encv. cbn [fst snd]. rewrite !nz_zn. reflexivity.
Qed.

(* the ternary #[ds(trrel_uf)] relation as the engine sees it (h1, h2: whether the declared indices need the reverse maps) *)
Definition trrel_uf_ternary (h1 h2 : bool) : provider tuple := adapt T3 (PT h1 h2) encv decv.
Definition rtc3 : list tuple -> list tuple := acl T3 encv decv cl3n.

Theorem rtc3_closure_op : closure_op tuple rtc3.
Proof. apply acl_closure_op; [exact decv_encv | exact encv_decv | exact cl3n_closure_op]. Qed.
Theorem rtc3_arity : cl_arity rtc3 3.
Proof. apply acl_arity. intros [k [x y]]; reflexivity. Qed.
Theorem trrel_uf_ternary_qengine_laws h1 h2 : qengine_laws (trrel_uf_ternary h1 h2) rtc3.
Proof. apply adapt_qengine_laws; first [exact decv_encv | exact encv_decv | exact (trufprov_ternary_qlaws h1 h2)]. Qed.

Definition rtc_rules3 (r0 : rel) : list rule :=
  [ {| heads := [(r0, [TVar 0%nat; TVar 1%nat; TVar 1%nat])]; body := [BClause r0 [TVar 0%nat; TVar 1%nat; TVar 2%nat] []] |};
    {| heads := [(r0, [TVar 0%nat; TVar 2%nat; TVar 2%nat])]; body := [BClause r0 [TVar 0%nat; TVar 1%nat; TVar 2%nat] []] |};
    {| heads := [(r0, [TVar 0%nat; TVar 1%nat; TVar 3%nat])];
       body := [BClause r0 [TVar 0%nat; TVar 1%nat; TVar 2%nat] []; BClause r0 [TVar 0%nat; TVar 2%nat; TVar 3%nat] []] |} ].

Section Bridge3.
Variable I : interp.

Lemma derive_refl3_l db r0 f :
  In f (derive_rule I db {| heads := [(r0, [TVar 0%nat; TVar 1%nat; TVar 1%nat])]; body := [BClause r0 [TVar 0%nat; TVar 1%nat; TVar 2%nat] []] |}) <->
  exists k a b, In [k; a; b] (db r0) /\ f = (r0, [k; a; a]).
Proof.
  unfold derive_rule. cbn [body heads all_envs]. rewrite in_flat_map. split.
  - intros [e [He Hf]]. apply in_flat_map in He. destruct He as [tup [Ht He]].
    destruct tup as [|k [|a [|b [|c r]]]]; cbn in He; try destruct He as [He|He]; try destruct He.
    exists k, a, b. split; [exact Ht|]. cbn in Hf. destruct Hf as [<-|[]]. reflexivity.
  - intros [k [a [b [Ht ->]]]]. exists [Some k; Some a; Some b]. split.
    + apply in_flat_map. exists [k; a; b]. split; [exact Ht|]. cbn. left. reflexivity.
    + cbn. left. reflexivity.
Qed.

Lemma derive_refl3_r db r0 f :
  In f (derive_rule I db {| heads := [(r0, [TVar 0%nat; TVar 2%nat; TVar 2%nat])]; body := [BClause r0 [TVar 0%nat; TVar 1%nat; TVar 2%nat] []] |}) <->
  exists k a b, In [k; a; b] (db r0) /\ f = (r0, [k; b; b]).
Proof.
  unfold derive_rule. cbn [body heads all_envs]. rewrite in_flat_map. split.
  - intros [e [He Hf]]. apply in_flat_map in He. destruct He as [tup [Ht He]].
    destruct tup as [|k [|a [|b [|c r]]]]; cbn in He; try destruct He as [He|He]; try destruct He.
    exists k, a, b. split; [exact Ht|]. cbn in Hf. destruct Hf as [<-|[]]. reflexivity.
  - intros [k [a [b [Ht ->]]]]. exists [Some k; Some a; Some b]. split.
    + apply in_flat_map. exists [k; a; b]. split; [exact Ht|]. cbn. left. reflexivity.
    + cbn. left. reflexivity.
Qed.

Lemma derive_trans3 db r0 f :
  In f (derive_rule I db {| heads := [(r0, [TVar 0%nat; TVar 1%nat; TVar 3%nat])];
                           body := [BClause r0 [TVar 0%nat; TVar 1%nat; TVar 2%nat] []; BClause r0 [TVar 0%nat; TVar 2%nat; TVar 3%nat] []] |}) <->
  exists k x y z, f = (r0, [k; x; z]) /\ In [k; x; y] (db r0) /\ In [k; y; z] (db r0).
Proof.
  unfold derive_rule. cbn [body heads all_envs]. rewrite in_flat_map. split.
  - intros [e [He Hf]]. apply in_flat_map in He. destruct He as [t1 [H1 He]].
    destruct t1 as [|k [|x [|y [|c t1]]]]; cbn in He; try (destruct He; fail).
    apply in_flat_map in He. destruct He as [t2 [H2 He]].
    destruct t2 as [|k' [|a [|z [|c t2]]]]; cbn in He; try (destruct He; fail);
      destruct (k =? k')%Z eqn:Ek; cbn in He; try (destruct He; fail);
      destruct (y =? a)%Z eqn:E; cbn in He; try (destruct He; fail).
    apply Z.eqb_eq in E, Ek. subst a k'. destruct He as [<-|[]]. cbn in Hf. destruct Hf as [<-|[]]. exists k, x, y, z. auto.
  - intros (k & x & y & z & -> & H1 & H2). exists [Some k; Some x; Some y; Some z]. split; [|left; reflexivity].
    apply in_flat_map. exists [k; x; y]. split; [exact H1|]. cbn. apply in_flat_map. exists [k; y; z]. split; [exact H2|].
    cbn. rewrite !Z.eqb_refl. left; reflexivity.
Qed.

Lemma closed_rtc_rules3 r0 M : closed I (rtc_rules3 r0) M <->
  (forall k a b, In (r0, [k; a; b]) M -> In (r0, [k; a; a]) M /\ In (r0, [k; b; b]) M)
  /\ (forall k a b c, In (r0, [k; a; b]) M -> In (r0, [k; b; c]) M -> In (r0, [k; a; c]) M).
Proof.
  unfold closed, derives. split.
  - intros H. split.
    + intros k a b Hab. apply in_db_of in Hab. split; apply H; eexists.
      * split; [left; reflexivity|]. apply derive_refl3_l. exists k, a, b. auto.
      * split; [right; left; reflexivity|]. apply derive_refl3_r. exists k, a, b. auto.
    + intros k a b c Hab Hbc. apply in_db_of in Hab. apply in_db_of in Hbc. apply H. eexists. split; [right; right; left; reflexivity|].
      apply derive_trans3. exists k, a, b, c. auto.
  - intros [H1 H2] f [r [Hr Hf]]. destruct Hr as [<-|[<-|[<-|[]]]].
    + apply derive_refl3_l in Hf. destruct Hf as [k [a [b [Hab ->]]]]. apply in_db_of in Hab. apply (H1 k a b Hab).
    + apply derive_refl3_r in Hf. destruct Hf as [k [a [b [Hab ->]]]]. apply in_db_of in Hab. apply (H1 k a b Hab).
    + apply derive_trans3 in Hf. destruct Hf as (k & x & y & z & -> & Hxy & Hyz). apply in_db_of in Hxy. apply in_db_of in Hyz. eapply H2; eassumption.
Qed.

Lemma decs_triple M r0 k x y : In (x, y) (proj k (decs T3 decv (db_of M r0))) <-> In (r0, [nz k; nz x; nz y]) M.
Proof. rewrite proj_in, (decs_in T3 encv decv decv_encv encv_decv). unfold encv. cbn [fst snd]. apply in_db_of. Qed.

Theorem rtc3_closed_iff_rules r0 M : cl_closed rtc3 r0 M <-> closed I (rtc_rules3 r0) M.
Proof.
  rewrite closed_rtc_rules3. unfold cl_closed, rtc3. split.
  - intros H.
    assert (Hc : forall k x y, rtc (proj k (decs T3 decv (db_of M r0))) x y -> In (r0, [nz k; nz x; nz y]) M).
    { intros k x y Hxy. apply in_db_of. apply H. apply (acl_in T3 encv decv). left. exists (k, (x, y)). split; [reflexivity|].
      apply cl3n_in. apply rtcl_spec. exact Hxy. }
    split.
    + intros k a b Hab. rewrite <- (nz_zn k), <- (nz_zn a), <- (nz_zn b) in Hab. apply decs_triple in Hab.
      rewrite <- (nz_zn k), <- (nz_zn a), <- (nz_zn b). split; apply Hc; [eapply rtc_l|eapply rtc_r]; exact Hab.
    + intros k a b c Hab Hbc. rewrite <- (nz_zn k), <- (nz_zn a), <- (nz_zn b) in Hab. rewrite <- (nz_zn k), <- (nz_zn b), <- (nz_zn c) in Hbc.
      apply decs_triple in Hab. apply decs_triple in Hbc. rewrite <- (nz_zn k), <- (nz_zn a), <- (nz_zn c). apply Hc.
      eapply rtc_t; apply rtc_e; eassumption.
  - intros [H1 H2] t Ht. apply (acl_in T3 encv decv) in Ht. destruct Ht as [[[k [x y]] [-> Hxy]]|[Ht _]]; [|exact Ht].
    apply cl3n_in in Hxy. apply rtcl_spec in Hxy. unfold encv. cbn [fst snd]. apply in_db_of.
    induction Hxy as [x y Hi|x y Hi|x y Hi|x y z _ IH1 _ IH2].
    + apply decs_triple in Hi. apply (H1 _ _ _ Hi).
    + apply decs_triple in Hi. apply (H1 _ _ _ Hi).
    + apply decs_triple in Hi. exact Hi.
    + eapply H2; eassumption.
Qed.

Theorem least_model_rtc3_iff P r0 F0 M :
  least_model_cl I P rtc3 r0 F0 M <-> least_model I (P ++ rtc_rules3 r0) F0 M.
Proof.
  unfold least_model_cl, least_model. split.
  - intros (A & B & C & D). split; [exact A|]. split; [apply closed_app; split; [exact B | apply rtc3_closed_iff_rules; exact C]|].
    intros M' H1 H2. apply closed_app in H2. destruct H2 as [H2 H3]. apply D; auto. apply rtc3_closed_iff_rules; exact H3.
  - intros (A & B & D). apply closed_app in B. destruct B as [B C]. split; [exact A|]. split; [exact B|].
    split; [apply rtc3_closed_iff_rules; exact C|]. intros M' H1 H2 H3. apply D; auto. apply closed_app. split; [exact H2 | apply rtc3_closed_iff_rules; exact H3].
Qed.
End Bridge3.

Theorem trrel_uf_program_ternary : forall h1 h2 I swap r0 arities P pl fuel F0 st,
  In (r0, 3%nat) arities -> arities_functional arities -> wf_facts arities F0 = true -> no_agg P = true ->
  (forall f, In f F0 -> fst f <> r0) -> validate arities P pl = true ->
  prun_plan I swap (trrel_uf_ternary h1 h2) r0 fuel pl F0 = Some st ->
  least_model I (P ++ rtc_rules3 r0) F0 (pfacts (trrel_uf_ternary h1 h2) r0 st).
Proof.
  intros h1 h2 I swap r0 arities P pl fuel F0 st H1 H2 H3 H4 H5 H6 H7. apply least_model_rtc3_iff.
  eapply (prun_plan_correct_q I swap (trrel_uf_ternary h1 h2) rtc3 r0 3%nat arities P pl fuel F0 st); eauto.
  - exact rtc3_closure_op.
  - exact (trrel_uf_ternary_qengine_laws h1 h2).
  - exact rtc3_arity.
Qed.

Print Assumptions trrel_uf_program_binary.
Print Assumptions trrel_uf_program_ternary.
