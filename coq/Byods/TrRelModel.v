(* C11 — executable model of the `#[ds(trrel)]` provider (byods/ascent-byods-rels/src/
   trrel_binary_ind.rs, trrel_ternary_ind.rs, binary_rel.rs), written after the code AS IT IS.
   No proofs here (TrRelProofs.v, TrRelTernary.v).

   Abstraction, stated once: a `BinaryRel` (hash map x -> set of y, and reverse map y -> Vec of x)
   is modelled by its content, a duplicate-free list of pairs; both maps of a BinaryRel receive
   every insertion in lock step (insert / insert_by_ref / join push to both), so each is a view of
   that list — the tie reads the forward map (views 0, none, full) and the reverse map (view 1)
   separately after every merge and compares both with the model.  Iteration order of hash maps
   is not modelled: every observable of the tie is a set (bit mask) and a count.
   The branch on `rel1.len() < rel2_rev.len()` in `join`, the `swap` of the smaller map in
   move_hash_map_of_*_contents, `reserve`, timing statics and the can_add caches (pure
   memoisation of `map.get(x)` on maps that are not written while the cache lives) do not change
   content and are not modelled. *)
From Coq Require Import List ZArith Bool.
Import ListNotations.
Open Scope Z_scope.

Definition pair := (Z * Z)%type.
Definition brel := list pair.

Definition pair_eqb (p q : pair) : bool := (fst p =? fst q) && (snd p =? snd q).
Definition pmem (p : pair) (l : brel) : bool := existsb (pair_eqb p) l.

(* BinaryRel::insert / insert_by_ref: true iff the pair was not there *)
Definition brel_insert (p : pair) (r : brel) : brel * bool :=
  if pmem p r then (r, false) else (r ++ [p], true).

(* the candidates enumerated by  join(target, target_rev, rel1 = R1.map, rel2_rev = R2.reverse_map, ..):
   for x, for w with (w,x) in R2, for y with (x,y) in R1: candidate (w,y) — i.e. the composition R2 ; R1 *)
Definition compose (r2 r1 : brel) : list pair :=
  flat_map (fun wx => map (fun xy => (fst wx, snd xy)) (filter (fun xy => fst xy =? snd wx) r1)) r2.

(* the body of join's innermost loop: `if !can_add(w,y) continue; if entry.insert(y) { push; changed = true }` *)
Definition join_step (can_add : pair -> bool) (acc : brel * bool) (p : pair) : brel * bool :=
  if can_add p then (if pmem p (fst acc) then acc else (fst acc ++ [p], true)) else acc.

Definition join (can_add : pair -> bool) (target : brel) (r1 r2 : brel) : brel * bool :=
  fold_left (join_step can_add) (compose r2 r1) (target, false).

(* can_add of the inner loop (trrel_binary_ind.rs:222) *)
Definition can_add (arefl : bool) (dd dt total : brel) (p : pair) : bool :=
  negb (arefl && (fst p =? snd p)) && negb (pmem p dd) && negb (pmem p dt) && negb (pmem p total).

(* the `loop { .. }` of merge_delta_to_total_new_to_delta.
   total = total_rel (already containing the old delta), new_map = the raw pairs of `new`,
   dd = delta_delta_map, dt = delta_total_map.  Result: the final delta_total_map. *)
Fixpoint inner_loop (fuel : nat) (arefl : bool) (total new_map dd dt : brel) : option brel :=
  match fuel with
  | O => None
  | S f =>
      let ca := can_add arefl dd dt total in
      let '(dn1, c1) := join ca [] dd total in           (* join1: rel1 = delta_delta, rel2 = total   : total ; dd *)
      let '(dn2, c2) := join ca dn1 total dd in           (* join2: rel1 = total,       rel2 = dd      : dd ; total *)
      let '(dn3, c3) := join ca dn2 new_map dd in         (* join3: rel1 = new_map,     rel2 = dd      : dd ; new   *)
      let changed := c1 || c2 || c3 in
      let dt' := dt ++ dd in                              (* move delta_delta into delta_total (disjoint) *)
      if changed then inner_loop f arefl total new_map dn3 dt'   (* swap: delta_delta := delta_new *)
      else Some dt'
  end.

Record bstate := { b_new : brel; b_delta : brel; b_total : brel }.

Definition bempty : bstate := {| b_new := []; b_delta := []; b_total := [] |}.

(* an upper bound on the number of iterations (proved sufficient: bmerge_total) *)
Definition merge_fuel (total new_map : brel) : nat :=
  let n := (2 * length (total ++ new_map))%nat in S (S (n * n)).

(* merge_delta_to_total_new_to_delta for TrRelIndCommon (anti_reflexive as a parameter; the code
   creates every relation with `false` in make_new / default since commit 2cd049f, `true` before) *)
Definition bmerge (arefl : bool) (st : bstate) : option bstate :=
  let total1 := b_total st ++ b_delta st in
  match inner_loop (merge_fuel total1 (b_new st)) arefl total1 (b_new st) (b_new st) [] with
  | Some d => Some {| b_new := []; b_delta := d; b_total := total1 |}
  | None => None
  end.

(* head update of generated code: contains_key(total), contains_key(delta), insert_if_not_present(new) *)
Definition binsert (p : pair) (st : bstate) : bstate * list Z :=
  let ct := pmem p (b_total st) in
  let cd := pmem p (b_delta st) in
  if ct || cd then (st, [Z.b2z ct; Z.b2z cd; 2])
  else let '(n, r) := brel_insert p (b_new st) in
       ({| b_new := n; b_delta := b_delta st; b_total := b_total st |}, [Z.b2z ct; Z.b2z cd; Z.b2z r]).

(* SCC boundary: the total is stored, the next SCC takes it as delta (compile_mir_scc) *)
Definition brestart (st : bstate) : bstate := {| b_new := []; b_delta := b_total st; b_total := [] |}.

(* ------------------------------------------------------------------ views of one version *)

Definition range (n : nat) : list Z := map Z.of_nat (seq 0 n).
Definition grid (n : nat) : list pair := list_prod (range n) (range n).
Definition zdedup (l : list Z) : list Z := nodup Z.eq_dec l.

Definition v_full_contains (n : nat) (r : brel) : list pair := filter (fun p => pmem p r) (grid n).
Definition v_full_get (n : nat) (r : brel) : list pair := filter (fun p => pmem p r) (grid n).
Definition v_full_iter (r : brel) : list pair := r.
Definition v_none (r : brel) : list pair := r.
Definition v_i0_get1 (r : brel) (x : Z) : list pair := filter (fun p => fst p =? x) r.
Definition v_i0_get (n : nat) (r : brel) : list pair := flat_map (v_i0_get1 r) (range n).
Definition v_i0_iter (r : brel) : list pair := flat_map (v_i0_get1 r) (zdedup (map fst r)).
Definition v_i1_get1 (r : brel) (y : Z) : list pair := filter (fun p => snd p =? y) r.
Definition v_i1_get (n : nat) (r : brel) : list pair := flat_map (v_i1_get1 r) (range n).
Definition v_i1_iter (r : brel) : list pair := flat_map (v_i1_get1 r) (zdedup (map snd r)).
Definition isnil {A} (l : list A) : bool := match l with [] => true | _ => false end.

(* observation = bit mask of the cells + number of tuples served *)
Definition mask_of (cells : list Z) : Z := fold_left (fun acc c => Z.lor acc (Z.shiftl 1 c)) cells 0.
Definition bcell (n : nat) (p : pair) : Z := fst p * Z.of_nat n + snd p.
Definition bobs (n : nat) (l : list pair) : list Z := [mask_of (map (bcell n) l); Z.of_nat (length l)].

Definition observe_brel (n : nat) (r : brel) : list Z :=
  bobs n (v_full_contains n r) ++ bobs n (v_full_get n r) ++ bobs n (v_full_iter r) ++ [Z.b2z (isnil r)]
  ++ bobs n (v_none r) ++ bobs n (v_none r) ++ [0]
  ++ bobs n (v_i0_get n r) ++ bobs n (v_i0_iter r) ++ [Z.b2z (isnil r)]
  ++ bobs n (v_i1_get n r) ++ bobs n (v_i1_iter r) ++ [Z.b2z (isnil r)]
  ++ [0; 0; 0; 0].     (* len_estimate of the four views: 1 = the call panics; none does *)

Definition observe_bstate (n : nat) (st : bstate) : list Z :=
  observe_brel n (b_delta st) ++ observe_brel n (b_total st).

(* ------------------------------------------------------------------ histories *)

Inductive bop := BIns (x y : Z) | BMerge | BRestart.

Inductive trace := TOk (steps : list (list Z)) | TErr (steps : list (list Z)) (at_step : Z).

Fixpoint btrace (arefl : bool) (n : nat) (st : bstate) (ops : list bop) (i : Z) (acc : list (list Z)) : trace :=
  match ops with
  | [] => TOk (rev acc)
  | BIns x y :: rest => let '(st', o) := binsert (x, y) st in btrace arefl n st' rest (i + 1) (o :: acc)
  | BMerge :: rest =>
      match bmerge arefl st with
      | Some st' => btrace arefl n st' rest (i + 1) (observe_bstate n st' :: acc)
      | None => TErr (rev acc) i
      end
  | BRestart :: rest => let st' := brestart st in btrace arefl n st' rest (i + 1) (observe_bstate n st' :: acc)
  end.

(* the provider as shipped: anti_reflexive = false (TrRelIndCommon::default / make_new since commit 2cd049f;
   `true` before that commit: pairs (x,x) implied by cycles were dropped) *)
Definition shipped_arefl : bool := false.
Definition run_bin (n : nat) (ops : list bop) : trace := btrace shipped_arefl n bempty ops 0 [].

(* ------------------------------------------------------------------ ternary form *)

Definition kmap := list (Z * brel).        (* HashMap<T0, TrRelIndCommon<T1>>: keys distinct *)

Fixpoint klookup (k : Z) (m : kmap) : option brel :=
  match m with [] => None | (k', c) :: m' => if k' =? k then Some c else klookup k m' end.
Fixpoint kremove (k : Z) (m : kmap) : kmap :=
  match m with [] => [] | (k', c) :: m' => if k' =? k then kremove k m' else (k', c) :: kremove k m' end.
Definition kset (k : Z) (c : brel) (m : kmap) : kmap :=
  match klookup k m with
  | Some _ => map (fun kc => if fst kc =? k then (k, c) else kc) m
  | None => m ++ [(k, c)]
  end.
Definition kget (k : Z) (m : kmap) : brel := match klookup k m with Some c => c | None => [] end.

(* one version of the ternary relation: per-key map + reverse maps as sets of (column value, key);
   has_rev = false models HAS_REVERSE_MAPi = false (reverse_map = None, never touched) *)
Record tver := { t_map : kmap; t_rev1 : list pair; t_rev2 : list pair }.
Definition tver_empty : tver := {| t_map := []; t_rev1 := []; t_rev2 := [] |}.
Record tstate := { t_new : tver; t_delta : tver; t_total : tver }.
Definition tempty : tstate := {| t_new := tver_empty; t_delta := tver_empty; t_total := tver_empty |}.

Definition padd (p : pair) (l : list pair) : list pair := if pmem p l then l else l ++ [p].
Definition punion (from to : list pair) : list pair := fold_left (fun acc p => padd p acc) from to.

(* first loop of TrRel2IndCommon::merge_delta_to_total_new_to_delta: `for (k, delta_trrel) in delta.map.drain()` *)
Fixpoint tmerge_delta_keys (arefl : bool) (dm : kmap) (nm tm ndm : kmap) : option (kmap * kmap * kmap) :=
  match dm with
  | [] => Some (nm, tm, ndm)
  | (k, d) :: dm' =>
      let n := kget k nm in                       (* new.map.remove(&k).unwrap_or_else(make_new) *)
      let nm' := kremove k nm in
      let t := kget k tm in                       (* Occupied: the entry; Vacant: a fresh empty Old *)
      match bmerge arefl {| b_new := n; b_delta := d; b_total := t |} with
      | None => None
      | Some r =>
          let tm' := kset k (b_total r) tm in     (* entry updated in place / total_vacant_entry.insert *)
          let ndm' := if isnil (b_delta r) then ndm else ndm ++ [(k, b_delta r)] in
          tmerge_delta_keys arefl dm' nm' tm' ndm'
      end
  end.

(* second loop: `for (k, new_trrel) in new.map.drain()` — keys of new that were not in delta *)
Fixpoint tmerge_new_keys (arefl : bool) (nm : kmap) (tm ndm : kmap) : option (kmap * kmap) :=
  match nm with
  | [] => Some (tm, ndm)
  | (k, n) :: nm' =>
      match klookup k tm with
      | Some t =>
          match bmerge arefl {| b_new := n; b_delta := []; b_total := t |} with
          | None => None
          | Some r => tmerge_new_keys arefl nm' (kset k (b_total r) tm) (ndm ++ [(k, b_delta r)])
          end
      | None =>
          (* merged against a temporary `&mut Default::default()`: the total map gets no entry *)
          match bmerge arefl {| b_new := n; b_delta := []; b_total := [] |} with
          | None => None
          | Some r => tmerge_new_keys arefl nm' tm (ndm ++ [(k, b_delta r)])
          end
      end
  end.

(* delta's reverse maps after the merge (commit 0ce9ae6): rebuilt from the NEW delta map —
   for (k, trrel) in delta.map: for x1 in trrel.map.keys(): reverse_map1[x1].insert(k)   (x2 over reverse_map.keys()) *)
Definition rebuild1 (m : kmap) : list pair :=
  flat_map (fun kc => map (fun x => (x, fst kc)) (zdedup (map fst (snd kc)))) m.
Definition rebuild2 (m : kmap) : list pair :=
  flat_map (fun kc => map (fun y => (y, fst kc)) (zdedup (map snd (snd kc)))) m.

(* rebuild = true: the code since commit 0ce9ae6.  rebuild = false: the behaviour before it (delta's reverse
   maps were simply new's reverse maps: only the column values of the tuples inserted in the last round). *)
Definition tmerge_gen (arefl has_rev rebuild : bool) (st : tstate) : option tstate :=
  match tmerge_delta_keys arefl (t_map (t_delta st)) (t_map (t_new st)) (t_map (t_total st)) [] with
  | None => None
  | Some (nm, tm, ndm) =>
      match tmerge_new_keys arefl nm tm ndm with
      | None => None
      | Some (tm', ndm') =>
          Some {| t_new := tver_empty;
                  t_delta := {| t_map := ndm';
                                t_rev1 := if has_rev then (if rebuild then rebuild1 ndm' else t_rev1 (t_new st)) else [];
                                t_rev2 := if has_rev then (if rebuild then rebuild2 ndm' else t_rev2 (t_new st)) else [] |};
                  t_total := {| t_map := tm';
                                t_rev1 := if has_rev then punion (t_rev1 (t_delta st)) (t_rev1 (t_total st)) else [];
                                t_rev2 := if has_rev then punion (t_rev2 (t_delta st)) (t_rev2 (t_total st)) else [] |} |}
      end
  end.

Definition tmerge (arefl has_rev : bool) (st : tstate) : option tstate := tmerge_gen arefl has_rev true st.

Definition triple := (Z * Z * Z)%type.
Definition tcontains (t : triple) (v : tver) : bool :=
  let '(k, x, y) := t in match klookup k (t_map v) with Some c => pmem (x, y) c | None => false end.

(* TrRel2IndFullWrite::insert_if_not_present preceded by the two contains_key tests of the head update *)
Definition tinsert (has_rev : bool) (t : triple) (st : tstate) : tstate * list Z :=
  let '(k, x, y) := t in
  let ct := tcontains t (t_total st) in
  let cd := tcontains t (t_delta st) in
  if ct || cd then (st, [Z.b2z ct; Z.b2z cd; 2])
  else
    let nw := t_new st in
    let '(c, r) := brel_insert (x, y) (kget k (t_map nw)) in
    if r then
      ({| t_new := {| t_map := kset k c (t_map nw);
                      t_rev1 := if has_rev then padd (x, k) (t_rev1 nw) else [];
                      t_rev2 := if has_rev then padd (y, k) (t_rev2 nw) else [] |};
          t_delta := t_delta st; t_total := t_total st |}, [Z.b2z ct; Z.b2z cd; 1])
    else
      (* or_insert_with(make_new) already created the key entry; the pair was present, so the entry existed *)
      (st, [Z.b2z ct; Z.b2z cd; 0]).

Definition trestart (st : tstate) : tstate :=
  {| t_new := tver_empty; t_delta := t_total st; t_total := tver_empty |}.

(* ---- views; None = the code panics (unwrap on a missing key / reverse-map entry) *)

Definition tall (v : tver) : list triple :=
  flat_map (fun kc => map (fun p => (fst kc, fst p, snd p)) (snd kc)) (t_map v).

Definition tgrid (keys n : nat) : list triple :=
  flat_map (fun k => map (fun p => (k, fst p, snd p)) (grid n)) (range keys).

Definition tv_full_contains (keys n : nat) (v : tver) : list triple := filter (fun t => tcontains t v) (tgrid keys n).
Definition tv_i0_get (keys : nat) (v : tver) : list triple :=
  flat_map (fun k => map (fun p => (k, fst p, snd p)) (kget k (t_map v))) (range keys).
Definition tv_i01_get (keys n : nat) (v : tver) : list triple :=
  flat_map (fun k => flat_map (fun x => map (fun p => (k, fst p, snd p)) (v_i0_get1 (kget k (t_map v)) x)) (range n)) (range keys).
Definition tv_i01_iter (v : tver) : list triple :=
  flat_map (fun kc => map (fun p => (fst kc, fst p, snd p)) (v_i0_iter (snd kc))) (t_map v).
Definition tv_i02_get (keys n : nat) (v : tver) : list triple :=
  flat_map (fun k => flat_map (fun y => map (fun p => (k, fst p, snd p)) (v_i1_get1 (kget k (t_map v)) y)) (range n)) (range keys).
Definition tv_i02_iter (v : tver) : list triple :=
  flat_map (fun kc => map (fun p => (fst kc, fst p, snd p)) (v_i1_iter (snd kc))) (t_map v).

Definition rev_keys (x : Z) (r : list pair) : list Z := map snd (filter (fun p => fst p =? x) r).

Fixpoint opt_concat {A} (l : list (option (list A))) : option (list A) :=
  match l with
  | [] => Some []
  | None :: _ => None
  | Some a :: l' => match opt_concat l' with Some b => Some (a ++ b) | None => None end
  end.

(* TrRel2Ind1::get(x1): reverse_map1.get(x1)? ; for x0 in it: map.get(x0).unwrap().rel().map.get(x1)? ... *)
Definition tv_i1_get1 (v : tver) (x1 : Z) : option (list triple) :=
  opt_concat (map (fun k => match klookup k (t_map v) with
                            | None => None
                            | Some c => Some (map (fun p => (k, fst p, snd p)) (v_i0_get1 c x1))
                            end) (rev_keys x1 (t_rev1 v))).
(* TrRel2Ind2::get(x2): ... map.get(x0).unwrap().rel().reverse_map.get(x2).unwrap() *)
Definition tv_i2_get1 (v : tver) (x2 : Z) : option (list triple) :=
  opt_concat (map (fun k => match klookup k (t_map v) with
                            | None => None
                            | Some c => match v_i1_get1 c x2 with
                                        | [] => None
                                        | l => Some (map (fun p => (k, fst p, snd p)) l)
                                        end
                            end) (rev_keys x2 (t_rev2 v))).
(* TrRel2Ind1_2::index_get((x1,x2)): both reverse maps must have the value; intersection of the key sets;
   map.get(x0).unwrap().rel().contains(x1,x2) *)
Definition tv_i12_get1 (v : tver) (x12 : pair) : option (list triple) :=
  let ks1 := rev_keys (fst x12) (t_rev1 v) in
  let ks2 := rev_keys (snd x12) (t_rev2 v) in
  opt_concat (map (fun k => match klookup k (t_map v) with
                            | None => None
                            | Some c => Some (if pmem x12 c then [(k, fst x12, snd x12)] else [])
                            end) (filter (fun k => existsb (Z.eqb k) ks2) ks1)).

Definition tv_i1_get (n : nat) (v : tver) := opt_concat (map (tv_i1_get1 v) (range n)).
Definition tv_i1_iter (v : tver) := opt_concat (map (tv_i1_get1 v) (zdedup (map fst (t_rev1 v)))).
Definition tv_i2_get (n : nat) (v : tver) := opt_concat (map (tv_i2_get1 v) (range n)).
Definition tv_i2_iter (v : tver) := opt_concat (map (tv_i2_get1 v) (zdedup (map fst (t_rev2 v)))).
Definition tv_i12_get (n : nat) (v : tver) := opt_concat (map (tv_i12_get1 v) (grid n)).
Definition tv_i12_iter (v : tver) :=
  opt_concat (map (tv_i12_get1 v) (list_prod (zdedup (map fst (t_rev1 v))) (zdedup (map fst (t_rev2 v))))).

(* TrRel2Ind1_2::len_estimate divides by ((map.len() as f32).sqrt() as usize).max(1) since commit 72c0385 (before:
   no .max(1), a division by zero on an empty per-key map).  1 = the call panics: never. *)
Definition i12_len_estimate_panics (v : tver) : bool := false.

Definition tcell (n : nat) (t : triple) : Z :=
  let '(k, x, y) := t in (k * Z.of_nat n + x) * Z.of_nat n + y.
Definition tobs (n : nat) (l : list triple) : list Z := [mask_of (map (tcell n) l); Z.of_nat (length l)].

Definition observe_tver_fwd (keys n : nat) (v : tver) : list Z :=
  tobs n (tv_full_contains keys n v) ++ tobs n (tv_full_contains keys n v) ++ tobs n (tall v) ++ [Z.b2z (isnil (t_map v))]
  ++ tobs n (tall v) ++ tobs n (tall v) ++ [0]
  ++ tobs n (tv_i0_get keys v) ++ tobs n (tall v) ++ [Z.b2z (isnil (t_map v))]
  ++ tobs n (tv_i01_get keys n v) ++ tobs n (tv_i01_iter v) ++ [Z.b2z (isnil (t_map v))]
  ++ tobs n (tv_i02_get keys n v) ++ tobs n (tv_i02_iter v) ++ [Z.b2z (isnil (t_map v))]
  ++ [0; 0; 0; 0; 0].  (* len_estimate of full / none / 0 / 0_1 / 0_2 never panics *)

Definition opt_app (a : option (list Z)) (b : option (list Z)) : option (list Z) :=
  match a, b with Some x, Some y => Some (x ++ y) | _, _ => None end.
Definition opt_tobs (n : nat) (l : option (list triple)) : option (list Z) := option_map (tobs n) l.

Definition observe_tver_rev (n : nat) (v : tver) : option (list Z) :=
  opt_app (opt_tobs n (tv_i1_get n v)) (opt_app (opt_tobs n (tv_i1_iter v)) (opt_app (Some [Z.b2z (isnil (t_rev1 v))])
  (opt_app (opt_tobs n (tv_i2_get n v)) (opt_app (opt_tobs n (tv_i2_iter v)) (opt_app (Some [Z.b2z (isnil (t_rev2 v))])
  (opt_app (opt_tobs n (tv_i12_get n v)) (opt_app (opt_tobs n (tv_i12_iter v)) (Some [0; 0; 0; Z.b2z (i12_len_estimate_panics v)])))))))).

Definition observe_tver (has_rev : bool) (keys n : nat) (v : tver) : option (list Z) :=
  if has_rev then opt_app (Some (observe_tver_fwd keys n v)) (observe_tver_rev n v)
  else Some (observe_tver_fwd keys n v).

Definition observe_tstate (has_rev : bool) (keys n : nat) (st : tstate) : option (list Z) :=
  opt_app (observe_tver has_rev keys n (t_delta st)) (observe_tver has_rev keys n (t_total st)).

Inductive top := TIns (k x y : Z) | TMerge | TRestart.

Fixpoint ttrace (arefl has_rev : bool) (keys n : nat) (st : tstate) (ops : list top) (i : Z) (acc : list (list Z)) : trace :=
  match ops with
  | [] => TOk (rev acc)
  | TIns k x y :: rest => let '(st', o) := tinsert has_rev (k, x, y) st in ttrace arefl has_rev keys n st' rest (i + 1) (o :: acc)
  | TMerge :: rest =>
      match tmerge arefl has_rev st with
      | Some st' =>
          match observe_tstate has_rev keys n st' with
          | Some o => ttrace arefl has_rev keys n st' rest (i + 1) (o :: acc)
          | None => TErr (rev acc) i
          end
      | None => TErr (rev acc) i
      end
  | TRestart :: rest =>
      let st' := trestart st in
      match observe_tstate has_rev keys n st' with
      | Some o => ttrace arefl has_rev keys n st' rest (i + 1) (o :: acc)
      | None => TErr (rev acc) i
      end
  end.

Definition run_ter (has_rev : bool) (keys n : nat) (ops : list top) : trace :=
  ttrace shipped_arefl has_rev keys n tempty ops 0 [].
