(* C12 — the views of the ternary adaptor that go through its reverse maps (index [1], [2], [1,2]) on every history.

   reverse_map1 / reverse_map2 of a version list, for a value of column 1 / 2, keys of the version's map.  Invariant [RI]:
   every listed key has an entry (so the unwraps of the views cannot fail); the delta's maps list every key whose relation
   serves a tuple with that column value (they are rebuilt from the new delta at every merge); total's maps list every key
   for the elements of what total is the closure OF (g_t), and total's and delta's together for g_td.  Together with [TW]
   (what total serves beyond the closure of g_t, delta serves too — the reflexive pairs of the elements of the last round)
   this gives, for every history:
     pt_rev_get / pt_rev_all / pt_rev12_get / pt_rev12_all   the view = the per-key view filtered through the reverse map(s):
                                  no failure, and a tuple is returned iff its key is listed and the full index has it (soundness)
     pt_rev_complete_delta        every tuple of delta is listed: the delta's views through the reverse maps are complete
     pt_rev_complete_total        a tuple of total is listed, or delta has it too (completeness modulo the weak form of P3) *)
From Coq Require Import List Arith Bool Lia ZArith.
From AV Require Import UF.UfBase.
From AV Require Import UF.TrUfModel.
From AV Require Import UF.TrUfInv.
From AV Require Import UF.TrUfLemmas.
From AV Require Import UF.TrUfQueries.
From AV Require Import UF.TrUfCases.
From AV Require Import UF.TrUfStep.
From AV Require Import UF.TrUfProofs.
From AV Require Import Byods.TrUfProvModel.
From AV Require Import Byods.TrUfProvProofs.
From AV Require Import Byods.TrUfProvComplete.
From AV Require Import Byods.Provider.
From AV Require Import Byods.TrUfProvLaws.
From AV Require Import Byods.TrUfProvTernary.
From AV Require Import Byods.TrUfProvViews.
Import ListNotations.

(* ================================================================== maps of sets: union, rebuild *)
Lemma smem_sunion : forall b a c, smem b (sunion a c) = smem b a || smem b c.
Proof.
  intros b a c. destruct (smem b (sunion a c)) eqn:H.
  - apply smem_in, in_sunion in H. symmetry. apply orb_true_iff. destruct H as [H|H]; [left|right]; apply smem_in; exact H.
  - apply smem_false in H. symmetry. apply orb_false_iff. split; apply smem_false; intros H'; apply H, in_sunion; auto.
Qed.

Lemma mhas_munion : forall from to x k, NoDup (map fst from) -> mhas x k (munion from to) = mhas x k to || mhas x k from.
Proof.
  induction from as [|[z s] from IH]; intros to x k Hnd.
  - unfold munion. cbn [fold_left]. unfold mhas at 3. cbn. rewrite orb_false_r. reflexivity.
  - cbn [map fst] in Hnd. inversion Hnd as [|? ? Hz Hnd']; subst. unfold munion in *. cbn [fold_left fst snd].
    rewrite (IH _ x k Hnd'). rewrite mhas_cons. unfold mhas at 1. rewrite eget_aset.
    destruct (Nat.eqb_spec x z) as [->|Hne].
    + rewrite (mhas_absent z k from Hz). rewrite orb_false_r. apply smem_sunion.
    + reflexivity.
Qed.

Lemma nodup_munion : forall from to, NoDup (map fst to) -> NoDup (map fst (munion from to)).
Proof. intros from to H. unfold munion. apply fold_left_inv; [exact H|]. intros a kv _ Ha. apply nodup_keys_aset; exact Ha. Qed.

Lemma mins_fold_spec : forall (l : list (nat * list nat)) k rm z k',
  mhas z k' (fold_left (fun rm xv => mins (fst xv) k rm) l rm) = true <-> mhas z k' rm = true \/ (k' = k /\ exists ys, In (z, ys) l).
Proof.
  induction l as [|[x ys] l IH]; intros k rm z k'; cbn [fold_left fst].
  - split; [auto|intros [H|[_ [ys []]]]; exact H].
  - rewrite IH, mhas_mins. split.
    + intros [H|[-> [ys' H]]].
      * apply orb_true_iff in H. destruct H as [H|H]; [|left; exact H]. apply andb_true_iff in H. destruct H as [H1 H2].
        apply Nat.eqb_eq in H1, H2. subst. right. split; [reflexivity|]. exists ys. left. reflexivity.
      * right. split; [reflexivity|]. exists ys'. right. exact H.
    + intros [H|[-> [ys' [H|H]]]].
      * left. rewrite H. apply orb_true_r.
      * inversion H; subst. left. rewrite !Nat.eqb_refl. reflexivity.
      * right. split; [reflexivity|]. exists ys'. exact H.
Qed.

Lemma mins_fold_nodup : forall (l : list (nat * list nat)) k rm, NoDup (map fst rm) -> NoDup (map fst (fold_left (fun rm xv => mins (fst xv) k rm) l rm)).
Proof. intros l k rm H. apply fold_left_inv; [exact H|]. intros a xv _ Ha. apply nodup_mins; exact Ha. Qed.

Lemma rebuild_rev_spec : forall rev m rb, NoDup (map fst m) -> rebuild_rev rev m = Ok rb ->
  NoDup (map fst rb) /\
  forall z k, mhas z k rb = true <-> exists c L ys, In (k, c) m /\ c_ind_iter_all rev c = Ok L /\ In (z, ys) L.
Proof.
  intros rev m rb. unfold rebuild_rev.
  assert (G : forall acc, NoDup (map fst m) -> NoDup (map fst acc) ->
            foldM (fun rm kc => do l <- c_ind_iter_all rev (snd kc); Ok (fold_left (fun rm xv => mins (fst xv) (fst kc) rm) l rm)) m acc = Ok rb ->
            NoDup (map fst rb) /\
            forall z k, mhas z k rb = true <-> mhas z k acc = true \/ exists c L ys, In (k, c) m /\ c_ind_iter_all rev c = Ok L /\ In (z, ys) L).
  { induction m as [|[k0 c0] m IH]; intros acc Hnd Hacc H; cbn [foldM] in H.
    - inversion H; subst. split; [exact Hacc|]. intros z k. split; [auto|]. intros [H0|[c [L [ys [[] _]]]]]. exact H0.
    - cbn [fst snd] in H. destruct (c_ind_iter_all rev c0) as [l0|e] eqn:Hl0; cbn [bind] in H; [|discriminate].
      cbn [map fst] in Hnd. inversion Hnd as [|? ? Hk0 Hnd']; subst.
      destruct (IH _ Hnd' (mins_fold_nodup l0 k0 acc Hacc) H) as [N1 Hm]. split; [exact N1|].
      intros z k. rewrite Hm, mins_fold_spec. split.
      + intros [[H0|[-> [ys Hys]]]|[c [L [ys [Hin Hrest]]]]].
        * left; exact H0.
        * right. exists c0, l0, ys. split; [left; reflexivity|]. auto.
        * right. exists c, L, ys. split; [right; exact Hin|exact Hrest].
      + intros [H0|[c [L [ys [[Hin|Hin] [HL Hys]]]]]].
        * left; left; exact H0.
        * inversion Hin; subst. rewrite Hl0 in HL. inversion HL; subst. left. right. split; [reflexivity|]. exists ys; exact Hys.
        * right. exists c, L, ys. auto. }
  intros Hnd H. destruct (G [] Hnd (NoDup_nil _) H) as [N1 Hm]. split; [exact N1|].
  intros z k. rewrite Hm. split; [intros [H0|H0]; [discriminate H0|exact H0]|auto].
Qed.

(* ================================================================== the invariant of the reverse maps *)
Section Rev.
Variables has1 has2 : bool.
Notation PTh := (PT has1 has2).
Notation KIh := (KI has1 has2).

(* i = false: column 1 / reverse_map1;  i = true: column 2 / reverse_map2 *)
Definition rmsel (i : bool) (t : tern) : option mset := if i then rm2 t else rm1 t.
Definition csel (i : bool) (x y : nat) : nat := if i then y else x.
Definition hasf (i : bool) : bool := if i then has2 else has1.

Definition rs_ok (i : bool) (v : tern) : Prop :=
  forall m, rmsel i v = Some m -> NoDup (map fst m) /\ forall z k, mhas z k m = true -> aget k (tm v) <> None.

Definition RI (s : tst) (g : ghost T3) : Prop :=
  let '(N, D, T) := s in
  forall i,
    rs_ok i N /\ rs_ok i D /\ rs_ok i T /\
    (forall m, rmsel i D = Some m -> forall k x y, osrv (aget k (tm D)) x y -> mhas (csel i x y) k m = true) /\
    (forall m, rmsel i T = Some m -> forall k z, mentioned (proj k (g_t T3 g)) z -> mhas z k m = true) /\
    (forall mt md, rmsel i T = Some mt -> rmsel i D = Some md ->
       forall k z, mentioned (proj k (g_td T3 g)) z -> mhas z k mt = true \/ mhas z k md = true).

Definition TW (s : tst) (g : ghost T3) : Prop :=
  let '(N, D, T) := s in
  forall k x y, osrv (aget k (tm T)) x y -> rtc (proj k (g_t T3 g)) x y \/ osrv (aget k (tm D)) x y.

Lemma twf_flag : forall t i, twf has1 has2 t -> osome (rmsel i t) = hasf i.
Proof. intros t i [_ [H1 H2]]. destruct i; assumption. Qed.

Lemma rs_ok_default : forall i, rs_ok i (t_default has1 has2).
Proof.
  intros i m Hm. assert (m = []) by (unfold rmsel, t_default in Hm; cbn in Hm; destruct i, has1, has2; congruence). subst m.
  split; [constructor|]. intros z k H. discriminate H.
Qed.

Lemma mentioned_nil : forall z, ~ mentioned [] z.
Proof. intros z [y [[]|[]]]. Qed.

Lemma RI_init : RI (pt_init has1 has2) (ghost_init T3) /\ TW (pt_init has1 has2) (ghost_init T3).
Proof.
  unfold pt_init. split.
  - intros i. split; [apply rs_ok_default|]. split; [apply rs_ok_default|]. split; [apply rs_ok_default|]. split; [|split].
    + intros m _ k x y H. exfalso. exact (osrv_none _ _ H).
    + intros m _ k z H. exfalso. exact (mentioned_nil _ H).
    + intros mt md _ _ k z H. exfalso. exact (mentioned_nil _ H).
  - intros k x y H. exfalso. exact (osrv_none _ _ H).
Qed.

Lemma RI_ins : forall n d t g k x y n' b, RI (n, d, t) g -> TW (n, d, t) g -> t_insert n k x y = Ok (n', b) ->
  RI (n', d, t) (ghost_step T3 g (PIns (k, (x, y)))) /\ TW (n', d, t) (ghost_step T3 g (PIns (k, (x, y)))).
Proof.
  intros n d t g k x y n' b HR HT Hi. split; [|exact HT]. intros i. destruct (HR i) as [Rn [Rd [Rt [RD [RT RTD]]]]].
  cbn [ghost_step g_t g_td]. split; [|split; [exact Rd|split; [exact Rt|split; [exact RD|split; [exact RT|exact RTD]]]]].
  unfold t_insert in Hi. destruct (c_insert _ x y) as [[c1 b']|e]; cbn [bind] in Hi; [|discriminate].
  assert (Hkeep : forall k', aget k' (tm n) <> None -> aget k' (aset k c1 (tm n)) <> None).
  { intros k' H. rewrite aget_aset. destruct (Nat.eqb k' k); [discriminate|exact H]. }
  destruct b'; inversion Hi; subst n' b; intros m Hm.
  - assert (Hm' : exists m0, rmsel i n = Some m0 /\ m = mins (csel i x y) k m0).
    { unfold rmsel in *. cbn [rm1 rm2] in Hm. destruct i; cbn [csel].
      - destruct (rm2 n) as [m0|]; cbn in Hm; [|discriminate]. inversion Hm. exists m0; auto.
      - destruct (rm1 n) as [m0|]; cbn in Hm; [|discriminate]. inversion Hm. exists m0; auto. }
    destruct Hm' as [m0 [Hm0 ->]]. destruct (Rn m0 Hm0) as [N0 K0]. split; [apply nodup_mins; exact N0|].
    intros z k' H. cbn [tm]. rewrite mhas_mins in H. apply orb_true_iff in H. destruct H as [H|H].
    + apply andb_true_iff in H. destruct H as [_ H]. apply Nat.eqb_eq in H. subst k'. rewrite aget_aset_eq. discriminate.
    + apply Hkeep. apply (K0 z k' H).
  - assert (Hm0 : rmsel i n = Some m) by (unfold rmsel in *; cbn [rm1 rm2] in Hm; exact Hm).
    destruct (Rn m Hm0) as [N0 K0]. split; [exact N0|]. intros z k' H. cbn [tm]. apply Hkeep. apply (K0 z k' H).
Qed.

Lemma osome_none : forall (o : option mset), osome o = false -> o = None.
Proof. intros [m|] H; [discriminate H|reflexivity]. Qed.

Lemma RI_merge : forall s g N' D' T', KIh s g -> RI s g -> TW s g ->
  KIh (N', D', T') (ghost_step T3 g PMerge) ->
  (forall k, kfacts (gk k g) (aget k (tm D')) (aget k (tm T')) /\
             (aget k (tm (snd (fst s))) <> None \/ aget k (tm (snd s)) <> None -> aget k (tm T') <> None)) ->
  tm N' = [] ->
  (forall m, rm1 (snd (fst s)) = Some m -> exists mt rb, rm1 (snd s) = Some mt /\ rm1 N' = Some [] /\ rm1 T' = Some (munion m mt) /\
                                            rebuild_rev false (tm D') = Ok rb /\ rm1 D' = Some rb) ->
  (forall m, rm2 (snd (fst s)) = Some m -> exists mt rb, rm2 (snd s) = Some mt /\ rm2 N' = Some [] /\ rm2 T' = Some (munion m mt) /\
                                            rebuild_rev true (tm D') = Ok rb /\ rm2 D' = Some rb) ->
  RI (N', D', T') (ghost_step T3 g PMerge) /\ TW (N', D', T') (ghost_step T3 g PMerge).
Proof.
  intros [[N D] Tt] g N' D' T' HK HR HT HK' HF HN' F1 F2. cbn [fst snd] in *.
  assert (HTW : TW (N', D', T') (ghost_step T3 g PMerge)).
  { intros k x y H. cbn [ghost_step g_t]. apply (proj1 (proj1 (HF k)) x y H). }
  split; [|exact HTW]. intros i. destruct (HR i) as [Rn [Rd [Rt [RD [RT RTD]]]]].
  destruct HK as [_ [Wd [Wt _]]]. pose proof HK' as [Wn' [Wd' [Wt' _]]].
  destruct (rmsel i D) as [md|] eqn:Hmd.
  - (* the reverse map exists *)
    assert (RF : exists mt rb, rmsel i Tt = Some mt /\ rmsel i N' = Some [] /\ rmsel i T' = Some (munion md mt) /\
                               rebuild_rev i (tm D') = Ok rb /\ rmsel i D' = Some rb).
    { unfold rmsel in *. destruct i; [apply F2|apply F1]; exact Hmd. }
    destruct RF as [mt [rb [Hmt [Hn' [Ht' [Hrb Hd']]]]]].
    destruct (Rd md Hmd) as [Nmd Kmd]. destruct (Rt mt Hmt) as [Nmt Kmt].
    destruct (rebuild_rev_spec i (tm D') rb (proj1 Wd') Hrb) as [Nrb Hrbm].
    assert (RD' : forall k x y, osrv (aget k (tm D')) x y -> mhas (csel i x y) k rb = true).
    { intros k x y [c [Hc Hin]]. destruct (proj2 (ver_keyed has1 has2 (N', D', T') _ VDelta HK' k c Hc i)) as [L [HL [_ Hcomp]]].
      apply Hrbm. destruct (Hcomp (csel i x y) (if i then x else y)) as [ys Hys].
      { destruct i; cbn [opair csel]; exact Hin. }
      exists c, L, ys. split; [apply aget_in; exact Hc|]. auto. }
    assert (RT' : forall k z, mentioned (proj k (g_td T3 g)) z -> mhas z k (munion md mt) = true).
    { intros k z Hz. rewrite (mhas_munion md mt z k Nmd). destruct (RTD mt md Hmt eq_refl k z Hz) as [H|H]; rewrite H; [reflexivity|apply orb_true_r]. }
    split; [|split; [|split; [|split; [|split]]]].
    + intros m Hm. rewrite Hn' in Hm. inversion Hm; subst m. split; [constructor|]. intros z k H. discriminate H.
    + intros m Hm. rewrite Hd' in Hm. inversion Hm; subst m. split; [exact Nrb|]. intros z k H. apply Hrbm in H.
      destruct H as [c [_ [_ [Hin _]]]]. rewrite (in_aget _ _ _ _ (proj1 Wd') Hin). discriminate.
    + intros m Hm. rewrite Ht' in Hm. inversion Hm; subst m. split; [apply nodup_munion; exact Nmt|].
      intros z k H. rewrite (mhas_munion md mt z k Nmd) in H. apply (proj2 (HF k)). apply orb_true_iff in H.
      destruct H as [H|H]; [right; apply (Kmt z k H)|left; apply (Kmd z k H)].
    + intros m Hm. rewrite Hd' in Hm. inversion Hm; subst m. exact RD'.
    + intros m Hm. rewrite Ht' in Hm. inversion Hm; subst m. cbn [ghost_step g_t]. exact RT'.
    + intros mt' md' Hmt' Hmd'. rewrite Ht' in Hmt'. rewrite Hd' in Hmd'. inversion Hmt'; inversion Hmd'; subst mt' md'.
      cbn [ghost_step g_td]. intros k z Hz. rewrite proj_app in Hz. apply mentioned_app in Hz. destruct Hz as [Hz|Hz]; [left; apply RT'; exact Hz|].
      assert (Hr : rtc (proj k (g_td T3 (ghost_step T3 g PMerge))) z z).
      { cbn [ghost_step g_td]. rewrite proj_app. apply mentioned_rtc. apply mentioned_app. right. exact Hz. }
      apply (served_key has1 has2 _ _ HK' k z z) in Hr. cbn [pt_ver] in Hr. destruct Hr as [Hr|Hr].
      * destruct (proj1 (proj1 (HF k)) z z Hr) as [H|H].
        -- left. apply RT'. apply (rtc_mentioned _ _ _ H).
        -- right. pose proof (RD' k z z H) as H'. destruct i; exact H'.
      * right. pose proof (RD' k z z Hr) as H'. destruct i; exact H'.
  - (* the index is not declared: no version has the map *)
    assert (Hf : hasf i = false) by (rewrite <- (twf_flag D i Wd), Hmd; reflexivity).
    assert (Hnone : forall v, twf has1 has2 v -> rmsel i v = None) by (intros v Wv; apply osome_none; rewrite (twf_flag v i Wv); exact Hf).
    assert (Hrs : forall v, twf has1 has2 v -> rs_ok i v) by (intros v Wv m Hm; rewrite (Hnone v Wv) in Hm; discriminate).
    split; [apply Hrs; exact Wn'|]. split; [apply Hrs; exact Wd'|]. split; [apply Hrs; exact Wt'|].
    split; [intros m Hm; rewrite (Hnone D' Wd') in Hm; discriminate|].
    split; [intros m Hm; rewrite (Hnone T' Wt') in Hm; discriminate|].
    intros mt md' Hm; rewrite (Hnone T' Wt') in Hm; discriminate.
Qed.

Lemma RI_restart : forall s g, KIh s g -> RI s g -> TW s g -> g_new T3 g = [] -> incl (g_td T3 g) (g_t T3 g) ->
  RI (pt_restart has1 has2 s) (ghost_step T3 g PRestart) /\ TW (pt_restart has1 has2 s) (ghost_step T3 g PRestart).
Proof.
  intros [[N D] Tt] g HK HR HT Hn Hi. unfold pt_restart. split.
  - intros i. destruct (HR i) as [_ [_ [Rt [_ [RT _]]]]]. cbn [ghost_step g_t g_td].
    split; [apply rs_ok_default|]. split; [exact Rt|]. split; [apply rs_ok_default|]. split; [|split].
    + intros m Hm k x y H.
      assert (Hr : rtc (proj k (g_t T3 g)) x y).
      { destruct (HT k x y H) as [H1|H1]; [exact H1|].
        assert (H2 : rtc (proj k (g_td T3 g)) x y) by (apply (served_key has1 has2 _ _ HK k x y); right; exact H1).
        eapply rtc_mono; [|exact H2]. intros p Hp. apply proj_in. apply Hi. apply proj_in. exact Hp. }
      apply (RT m Hm k). destruct (rtc_mentioned _ _ _ Hr) as [Hx Hy]. destruct i; assumption.
    + intros m _ k z H. exfalso. exact (mentioned_nil _ H).
    + intros mt md _ Hmd k z H. right. apply (RT md Hmd k z H).
  - intros k x y H. cbn [t_default tm aget] in H. exfalso. exact (osrv_none _ _ H).
Qed.

Theorem RI_run : forall h, qhist3 h -> RI (run T3 PTh h) (ghost_of T3 h) /\ TW (run T3 PTh h) (ghost_of T3 h).
Proof.
  intros h Hq. induction Hq as [|h p Hq IH|h Hq IH|h Hq IH Hn Hi].
  - apply RI_init.
  - pose proof (KI_run has1 has2 h Hq) as HK. rewrite run_snoc, ghost_of_snoc. cbn [step PT p_ins].
    destruct (KI_ins has1 has2 _ _ p HK) as [n' [b [Hins _]]]. destruct p as [k [x y]]. destruct IH as [HR HT].
    destruct (run T3 PTh h) as [[n d] t]. cbv beta iota in Hins. cbn [fst snd] in Hins. unfold pt_ins. cbn [fst snd]. rewrite Hins. cbn [fst].
    apply (RI_ins n d t _ k x y n' b HR HT Hins).
  - pose proof (KI_run has1 has2 h Hq) as HK. rewrite run_snoc, ghost_of_snoc. cbn [step PT p_merge]. destruct IH as [HR HT].
    destruct (KI_merge has1 has2 _ _ HK) as [N' [D' [T' [Hm [HK' [HF [HN' [F1 F2]]]]]]]].
    pose proof (RI_merge _ _ N' D' T' HK HR HT HK' HF HN' F1 F2) as H.
    destruct (run T3 PTh h) as [[n d] t]. cbv beta iota in Hm. unfold pt_merge. rewrite Hm. exact H.
  - pose proof (KI_run has1 has2 h Hq) as HK. rewrite run_snoc, ghost_of_snoc. cbn [step PT p_restart]. destruct IH as [HR HT].
    apply RI_restart; assumption.
Qed.
End Rev.

(* ================================================================== the views *)
Section RevViews.
Variables has1 has2 : bool.
Notation PTh := (PT has1 has2).
Notation KIh := (KI has1 has2).
Notation RIh := RI.

Lemma ver_rs_ok : forall s g v i, RIh s g -> rs_ok i (pt_ver s v).
Proof. intros [[N D] Tt] g v i HR. destruct (HR i) as [_ [Rd [Rt _]]]. destruct v; assumption. Qed.

Lemma osrv_pair : forall c (p : nat * nat), osrv (Some c) (fst p) (snd p) <-> In p (itl c).
Proof. intros c [x y]. apply osrv_some. Qed.

Lemma read_osrv_pair : forall s g v, KIh s g -> forall k (p : nat * nat),
  In (k, p) (pt_read s v) <-> osrv (aget k (tm (pt_ver s v))) (fst p) (snd p).
Proof. intros s g v HK k [x y]. apply (proj1 (proj2 (pt_read_osrv has1 has2 s g v HK))). Qed.

Lemma mhas_aget : forall x k (m : mset) ks, aget x m = Some ks -> (mhas x k m = true <-> In k ks).
Proof. intros x k m ks H. unfold mhas, eget. rewrite H. apply smem_in. Qed.

(* index [1] (i = false) / index [2] (i = true): index_get *)
Lemma rev_get_spec : forall s g v i m, KIh s g -> RIh s g -> rmsel i (pt_ver s v) = Some m ->
  forall x, exists o, t_i12x_get i (pt_ver s v) x = Ok o /\
    (o = None <-> aget x m = None) /\
    (forall l, o = Some l -> forall k y, In (k, y) l <-> (mhas x k m = true /\ In (k, opair i x y) (pt_read s v))).
Proof.
  intros s g v i m HK HR Hm x. set (t := pt_ver s v) in *.
  destruct (ver_rs_ok s g v i HR m Hm) as [_ Hkey]. fold t in Hkey.
  pose proof (read_osrv_pair s g v HK) as Hos. fold t in Hos.
  unfold t_i12x_get. change (if i then rm2 t else rm1 t) with (rmsel i t). rewrite Hm. cbn [of_opt bind].
  destruct (aget x m) as [ks|] eqn:Hks.
  - set (gf := fun k => match aget k (tm t) with
                        | Some c => match c_ind_get i c x with Ok (Some l) => map (fun w => (k, w)) l | _ => [] end
                        | None => [] end).
    rewrite (mapM_ok _ _ _ gf ks).
    + cbn [bind]. eexists. split; [reflexivity|]. split; [split; discriminate|]. intros l El k y. inversion El; subst l. clear El.
      rewrite (mhas_aget x k m ks Hks). rewrite in_concat. split.
      * intros [l [Hl Hy]]. apply in_map_iff in Hl. destruct Hl as [k' [<- Hk']]. unfold gf in Hy.
        destruct (aget k' (tm t)) as [c|] eqn:Hc; [|destruct Hy].
        destruct (proj1 (ver_keyed has1 has2 s g v HK k' c Hc i) x) as [o [Ho [H1 _]]]. rewrite Ho in Hy.
        destruct o as [ys|]; [|destruct Hy]. apply in_map_iff in Hy. destruct Hy as [w [Ew Hw]]. inversion Ew; subst k' w.
        split; [exact Hk'|]. apply Hos. rewrite Hc. apply osrv_pair. apply (H1 ys eq_refl y). exact Hw.
      * intros [Hk Hy]. apply Hos in Hy. destruct (aget k (tm t)) as [c|] eqn:Hc; [|exfalso; exact (osrv_none _ _ Hy)].
        apply osrv_pair in Hy. destruct (proj1 (ver_keyed has1 has2 s g v HK k c Hc i) x) as [o [Ho [H1 H2]]].
        destruct o as [ys|]; [|exfalso; exact (H2 eq_refl y Hy)].
        exists (gf k). split; [apply in_map; exact Hk|]. unfold gf. rewrite Hc, Ho. apply in_map_iff. exists y. split; [reflexivity|].
        apply (H1 ys eq_refl y). exact Hy.
    + intros k Hk. assert (Hmk : mhas x k m = true) by (apply (mhas_aget x k m ks Hks); exact Hk).
      destruct (aget k (tm t)) as [c|] eqn:Hc; [|exfalso; exact (Hkey x k Hmk Hc)]. cbn [of_opt bind].
      destruct (proj1 (ver_keyed has1 has2 s g v HK k c Hc i) x) as [o [Ho _]]. rewrite Ho. cbn [bind]. unfold gf. rewrite Hc, Ho.
      destruct o; reflexivity.
  - exists None. split; [reflexivity|]. split; [tauto|discriminate].
Qed.

(* iter_all of the same indices *)
Lemma rev_all_spec : forall s g v i m, KIh s g -> RIh s g -> rmsel i (pt_ver s v) = Some m ->
  exists L, t_i12x_all i (pt_ver s v) = Ok L /\
    (forall x l, In (x, l) L -> forall k y, In (k, y) l <-> (mhas x k m = true /\ In (k, opair i x y) (pt_read s v))) /\
    (forall x, aget x m <> None -> exists l, In (x, l) L).
Proof.
  intros s g v i m HK HR Hm. set (t := pt_ver s v) in *. unfold t_i12x_all. change (if i then rm2 t else rm1 t) with (rmsel i t).
  rewrite Hm. cbn [of_opt bind].
  set (gx := fun kv : nat * list nat => (fst kv, match t_i12x_get i t (fst kv) with Ok (Some l) => l | _ => [] end)).
  rewrite (mapM_ok _ _ _ gx m).
  - eexists. split; [reflexivity|]. split.
    + intros x l Hin k y. apply in_map_iff in Hin. destruct Hin as [[x' s'] [E Hx]]. unfold gx in E. cbn [fst] in E. inversion E; subst x' l. clear E.
      destruct (rev_get_spec s g v i m HK HR Hm x) as [o [Ho [Hn Hs]]]. fold t in Ho. rewrite Ho. destruct o as [l0|].
      * apply (Hs l0 eq_refl).
      * split; [intros []|]. intros [Hk _]. exfalso. pose proof (proj1 Hn eq_refl) as Hnone. unfold mhas, eget in Hk. rewrite Hnone in Hk. discriminate.
    + intros x Hx. destruct (aget x m) as [ks|] eqn:Hks; [|congruence]. eexists. apply in_map_iff. exists (x, ks). split; [reflexivity|].
      apply aget_in; exact Hks.
  - intros [x s'] Hin. cbn [fst]. destruct (rev_get_spec s g v i m HK HR Hm x) as [o [Ho [Hn _]]]. fold t in Ho. rewrite Ho. cbn [bind].
    destruct o as [l|].
    + cbn [of_opt bind]. unfold gx. cbn [fst]. rewrite Ho. reflexivity.
    + exfalso. pose proof (proj1 Hn eq_refl) as Hnone. apply (proj1 (aget_none_keys _ x m) Hnone). apply in_map_iff. exists (x, s'). auto.
Qed.

(* index [1,2] *)
Lemma rev12_keys_spec : forall s g v x1 x2 k1 k2, KIh s g ->
  (forall k, In k k1 -> aget k (tm (pt_ver s v)) <> None) ->
  exists l, t_i12_keys (pt_ver s v) x1 x2 k1 k2 = Ok l /\
            forall k, In k l <-> (In k k1 /\ In k k2 /\ In (k, (x1, x2)) (pt_read s v)).
Proof.
  intros s g v x1 x2 k1 k2 HK Hkey. set (t := pt_ver s v) in *.
  destruct (pt_read_osrv has1 has2 s g v HK) as [_ [_ Hct]]. fold t in Hct.
  unfold t_i12_keys.
  set (fk := fun k => match t_contains t k x1 x2 with Ok true => [k] | _ => [] end).
  rewrite (mapM_ok _ _ _ fk (sinter k1 k2)).
  - cbn [bind]. eexists. split; [reflexivity|]. intros k. rewrite in_concat. split.
    + intros [l [Hl Hk]]. apply in_map_iff in Hl. destruct Hl as [k' [<- Hk']]. unfold fk in Hk.
      destruct (Hct k' x1 x2) as [b [Hb Hbb]]. rewrite Hb in Hk. destruct b; [|destruct Hk]. destruct Hk as [<-|[]].
      apply in_sinter in Hk'. destruct Hk' as [H1 H2]. split; [exact H1|]. split; [exact H2|]. apply Hbb. reflexivity.
    + intros [H1 [H2 H3]]. exists (fk k). split; [apply in_map; apply in_sinter; auto|]. unfold fk.
      destruct (Hct k x1 x2) as [b [Hb Hbb]]. rewrite Hb. apply Hbb in H3. subst b. left; reflexivity.
  - intros k Hk. apply in_sinter in Hk. destruct Hk as [Hk _]. pose proof (Hkey k Hk) as Hne.
    unfold fk, t_contains. destruct (aget k (tm t)) as [c|] eqn:Hc; [|congruence]. cbn [of_opt bind].
    destruct (Hct k x1 x2) as [b [Hb _]]. unfold t_contains in Hb. rewrite Hc in Hb. rewrite Hb. cbn [bind]. destruct b; reflexivity.
Qed.

Lemma rev12_get_spec : forall s g v m1 m2, KIh s g -> RIh s g -> rm1 (pt_ver s v) = Some m1 -> rm2 (pt_ver s v) = Some m2 ->
  forall x1 x2, exists o, t_i12_get (pt_ver s v) x1 x2 = Ok o /\
    (forall l, o = Some l -> forall k, In k l <-> (mhas x1 k m1 = true /\ mhas x2 k m2 = true /\ In (k, (x1, x2)) (pt_read s v))).
Proof.
  intros s g v m1 m2 HK HR H1 H2 x1 x2. set (t := pt_ver s v) in *.
  destruct (ver_rs_ok s g v false HR m1 H1) as [_ Hkey]. fold t in Hkey.
  unfold t_i12_get. rewrite H1, H2. cbn [of_opt bind].
  destruct (aget x1 m1) as [k1|] eqn:Hk1; [|exists None; split; [reflexivity|discriminate]].
  destruct (aget x2 m2) as [k2|] eqn:Hk2; [|exists None; split; [reflexivity|discriminate]].
  destruct (rev12_keys_spec s g v x1 x2 k1 k2 HK) as [l [Hl Hin]].
  { intros k Hk. apply (Hkey x1 k). apply (mhas_aget x1 k m1 k1 Hk1). exact Hk. }
  fold t in Hl. rewrite Hl. cbn [bind]. eexists. split; [reflexivity|]. intros l' El k. inversion El; subst l'.
  rewrite Hin, (mhas_aget x1 k m1 k1 Hk1), (mhas_aget x2 k m2 k2 Hk2). reflexivity.
Qed.

Lemma rev12_all_ok : forall s g v m1 m2, KIh s g -> RIh s g -> rm1 (pt_ver s v) = Some m1 -> rm2 (pt_ver s v) = Some m2 ->
  (exists L, t_i12_all (pt_ver s v) = Ok L) /\ (exists n, t_i12_len_estimate (pt_ver s v) = Ok n).
Proof.
  intros s g v m1 m2 HK HR H1 H2. set (t := pt_ver s v) in *.
  destruct (ver_rs_ok s g v false HR m1 H1) as [Nm1 Hkey]. fold t in Hkey.
  split; [|unfold t_i12_len_estimate; rewrite H1, H2; cbn [of_opt bind]; eexists; reflexivity].
  unfold t_i12_all. rewrite H1, H2. cbn [of_opt bind].
  assert (Hrow : forall a, In a m1 -> exists r, mapM (fun b => do l <- t_i12_keys t (fst a) (fst b) (snd a) (snd b); Ok (fst a, fst b, l)) m2 = Ok r).
  { intros [x1 k1] Ha. apply mapM_total. intros [x2 k2] _. cbn [fst snd].
    destruct (rev12_keys_spec s g v x1 x2 k1 k2 HK) as [l [Hl _]].
    { intros k Hk. apply (Hkey x1 k). apply (mhas_aget x1 k m1 k1 (in_aget _ _ _ _ Nm1 Ha)). exact Hk. }
    fold t in Hl. rewrite Hl. cbn [bind]. eexists; reflexivity. }
  destruct (mapM_total _ _ (fun a => mapM (fun b => do l <- t_i12_keys t (fst a) (fst b) (snd a) (snd b); Ok (fst a, fst b, l)) m2) m1 Hrow) as [ls Hls].
  rewrite Hls. cbn [bind]. eexists; reflexivity.
Qed.

(* completeness of what the reverse maps list *)
Lemma rev_complete_delta : forall s g i m, KIh s g -> RIh s g -> rmsel i (pt_ver s VDelta) = Some m ->
  forall k x y, In (k, (x, y)) (pt_read s VDelta) -> mhas (csel i x y) k m = true.
Proof.
  intros [[N D] Tt] g i m HK HR Hm k x y H. destruct (HR i) as [_ [_ [_ [RD _]]]]. cbn [pt_ver] in Hm.
  apply (RD m Hm k x y). apply (proj1 (proj2 (pt_read_osrv has1 has2 _ g VDelta HK)) k x y). exact H.
Qed.

Lemma rev_complete_total : forall s g i m, KIh s g -> RIh s g -> TW s g -> rmsel i (pt_ver s VTotal) = Some m ->
  forall k x y, In (k, (x, y)) (pt_read s VTotal) -> mhas (csel i x y) k m = true \/ In (k, (x, y)) (pt_read s VDelta).
Proof.
  intros [[N D] Tt] g i m HK HR HT Hm k x y H. destruct (HR i) as [_ [_ [_ [_ [RT _]]]]]. cbn [pt_ver] in Hm.
  apply (proj1 (proj2 (pt_read_osrv has1 has2 _ g VTotal HK)) k x y) in H. cbn [pt_ver] in H.
  destruct (HT k x y H) as [H1|H1].
  - left. apply (RT m Hm k). destruct (rtc_mentioned _ _ _ H1) as [Hx Hy]. destruct i; assumption.
  - right. apply (proj1 (proj2 (pt_read_osrv has1 has2 _ g VDelta HK)) k x y). exact H1.
Qed.

(* ---- every history *)
Theorem pt_rev_get : forall h v i m, qhist3 h -> rmsel i (pt_ver (run T3 PTh h) v) = Some m ->
  forall x, exists o, t_i12x_get i (pt_ver (run T3 PTh h) v) x = Ok o /\
    (o = None <-> aget x m = None) /\
    (forall l, o = Some l -> forall k y, In (k, y) l <-> (mhas x k m = true /\ In (k, opair i x y) (p_read T3 PTh (run T3 PTh h) v))).
Proof. intros h v i m Hq. exact (rev_get_spec _ _ v i m (KI_run has1 has2 h Hq) (proj1 (RI_run has1 has2 h Hq))). Qed.

Theorem pt_rev_all : forall h v i m, qhist3 h -> rmsel i (pt_ver (run T3 PTh h) v) = Some m ->
  exists L, t_i12x_all i (pt_ver (run T3 PTh h) v) = Ok L /\
    (forall x l, In (x, l) L -> forall k y, In (k, y) l <-> (mhas x k m = true /\ In (k, opair i x y) (p_read T3 PTh (run T3 PTh h) v))) /\
    (forall x, aget x m <> None -> exists l, In (x, l) L).
Proof. intros h v i m Hq. exact (rev_all_spec _ _ v i m (KI_run has1 has2 h Hq) (proj1 (RI_run has1 has2 h Hq))). Qed.

Theorem pt_rev12_get : forall h v m1 m2, qhist3 h -> rm1 (pt_ver (run T3 PTh h) v) = Some m1 -> rm2 (pt_ver (run T3 PTh h) v) = Some m2 ->
  forall x1 x2, exists o, t_i12_get (pt_ver (run T3 PTh h) v) x1 x2 = Ok o /\
    (forall l, o = Some l -> forall k, In k l <->
       (mhas x1 k m1 = true /\ mhas x2 k m2 = true /\ In (k, (x1, x2)) (p_read T3 PTh (run T3 PTh h) v))).
Proof. intros h v m1 m2 Hq. exact (rev12_get_spec _ _ v m1 m2 (KI_run has1 has2 h Hq) (proj1 (RI_run has1 has2 h Hq))). Qed.

Theorem pt_rev12_all : forall h v m1 m2, qhist3 h -> rm1 (pt_ver (run T3 PTh h) v) = Some m1 -> rm2 (pt_ver (run T3 PTh h) v) = Some m2 ->
  (exists L, t_i12_all (pt_ver (run T3 PTh h) v) = Ok L) /\ (exists n, t_i12_len_estimate (pt_ver (run T3 PTh h) v) = Ok n).
Proof. intros h v m1 m2 Hq. exact (rev12_all_ok _ _ v m1 m2 (KI_run has1 has2 h Hq) (proj1 (RI_run has1 has2 h Hq))). Qed.

Theorem pt_rev_complete_delta : forall h i m, qhist3 h -> rmsel i (pt_ver (run T3 PTh h) VDelta) = Some m ->
  forall k x y, In (k, (x, y)) (p_read T3 PTh (run T3 PTh h) VDelta) -> mhas (csel i x y) k m = true.
Proof. intros h i m Hq. exact (rev_complete_delta _ _ i m (KI_run has1 has2 h Hq) (proj1 (RI_run has1 has2 h Hq))). Qed.

Theorem pt_rev_complete_total : forall h i m, qhist3 h -> rmsel i (pt_ver (run T3 PTh h) VTotal) = Some m ->
  forall k x y, In (k, (x, y)) (p_read T3 PTh (run T3 PTh h) VTotal) ->
    mhas (csel i x y) k m = true \/ In (k, (x, y)) (p_read T3 PTh (run T3 PTh h) VDelta).
Proof.
  intros h i m Hq. destruct (RI_run has1 has2 h Hq) as [HR HT]. exact (rev_complete_total _ _ i m (KI_run has1 has2 h Hq) HR HT).
Qed.
End RevViews.
