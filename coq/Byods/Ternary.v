(* Generic per-key lifting of a provider (shared by C10 eqrel, C11 trrel, C12 trrel_uf).

   A ternary `#[ds(..)]` relation r(K, T, T) is a map from the first column to a binary provider.  This file
   proves: IF the merge of the ternary structure applies the binary merge to EVERY key and keeps the result
   (total, delta AND new of each key), THEN the provider laws P1-P5 lift from the binary provider with closure
   `cl` to the ternary one with the per-key closure `cl3 cl`, for every history in which keys come, pause and
   resume in any order.  Views: `LKey k v` (first column bound + a binary view) and `LAny v` (first column
   free: the union over the keys, what the reverse-map views serve). *)
From Coq Require Import List Arith Bool ZArith Lia.
From AV Require Import Byods.Provider.
Import ListNotations.

Section Lift.
Variable T : Type.
Variable B : provider T.
Variable cl : list T -> list T.
Hypothesis Hcl : closure_op T cl.
Hypothesis Hok : provider_ok T B cl.

Definition T3 : Type := (Z * T)%type.

(* ------------------------------------------------------------------ the per-key closure *)
Definition proj (k : Z) (l : list T3) : list T := map snd (filter (fun t => Z.eqb (fst t) k) l).
Definition keys_of (l : list T3) : list Z := nodup Z.eq_dec (map fst l).
Definition cl3 (l : list T3) : list T3 := flat_map (fun k => map (pair k) (cl (proj k l))) (keys_of l).

Lemma proj_in k l t : In t (proj k l) <-> In (k, t) l.
Proof.
  unfold proj. rewrite in_map_iff. split.
  - intros [[k' t'] [E H]]. apply filter_In in H. destruct H as [H1 H2]. cbn [fst snd] in *. apply Z.eqb_eq in H2. subst. exact H1.
  - intros H. exists (k, t). split; [reflexivity|]. apply filter_In. split; [exact H|]. cbn [fst]. apply Z.eqb_refl.
Qed.
Lemma proj_app k l1 l2 : proj k (l1 ++ l2) = proj k l1 ++ proj k l2.
Proof. unfold proj. rewrite filter_app, map_app. reflexivity. Qed.
Lemma proj_snoc k (l : list T3) k' t : proj k (l ++ [(k', t)]) = proj k l ++ (if Z.eqb k' k then [t] else []).
Proof. rewrite proj_app. f_equal. unfold proj. cbn [filter fst]. destruct (Z.eqb k' k); reflexivity. Qed.
Lemma keys_of_in k l : In k (keys_of l) <-> exists t, In (k, t) l.
Proof.
  unfold keys_of. rewrite nodup_In, in_map_iff. split.
  - intros [[k' t] [E H]]. cbn [fst] in E. subst. exists t. exact H.
  - intros [t H]. exists (k, t). split; [reflexivity|exact H].
Qed.
Lemma proj_nil_notin k l : ~ In k (keys_of l) -> proj k l = [].
Proof.
  intros H. destruct (proj k l) as [|t r] eqn:E; [reflexivity|]. exfalso. apply H. apply keys_of_in. exists t.
  apply proj_in. rewrite E. left. reflexivity.
Qed.
Lemma cl3_in k t l : In (k, t) (cl3 l) <-> In t (cl (proj k l)).
Proof.
  unfold cl3. rewrite in_flat_map. split.
  - intros [k' [Hk H]]. apply in_map_iff in H. destruct H as [t' [E Ht]]. injection E as -> ->. exact Ht.
  - intros H. exists k. split; [|apply in_map; exact H].
    destruct (in_dec Z.eq_dec k (keys_of l)) as [Hi|Hn]; [exact Hi|].
    rewrite (proj_nil_notin k l Hn), (cl_nil T cl Hcl) in H. destruct H.
Qed.

Lemma cl3_closure_op : closure_op T3 cl3.
Proof.
  constructor.
  - intros s [k t] H. apply cl3_in. apply (cl_ext T cl Hcl). apply proj_in. exact H.
  - intros s s' Hi [k t] H. apply cl3_in. apply cl3_in in H. eapply (cl_mono T cl Hcl); [|exact H].
    intros u Hu. apply proj_in. apply Hi. apply proj_in. exact Hu.
  - intros s [k t] H. apply cl3_in. apply cl3_in in H. apply (cl_idem T cl Hcl).
    eapply (cl_mono T cl Hcl); [|exact H]. intros u Hu. apply proj_in in Hu. apply cl3_in in Hu. exact Hu.
  - reflexivity.
Qed.

(* ------------------------------------------------------------------ the lifted provider *)
Record lstate := mkL { l_of : Z -> St T B; l_keys : list Z }.
Definition upd (f : Z -> St T B) (k : Z) (v : St T B) : Z -> St T B := fun j => if Z.eqb j k then v else f j.
Definition kins (k : Z) (l : list Z) : list Z := if in_dec Z.eq_dec k l then l else l ++ [k].
Definition l_init : lstate := mkL (fun _ => p_init T B) [].
Definition l_ins (s : lstate) (t : T3) : lstate * bool :=
  let r := p_ins T B (l_of s (fst t)) (snd t) in (mkL (upd (l_of s) (fst t) (fst r)) (kins (fst t) (l_keys s)), snd r).
(* the merge keeps each key's total, delta and new: the binary merge is applied to every key *)
Definition l_merge (s : lstate) : lstate := mkL (fun k => p_merge T B (l_of s k)) (l_keys s).
Definition l_restart (s : lstate) : lstate := mkL (fun k => p_restart T B (l_of s k)) (l_keys s).
Definition l_read (s : lstate) (v : ver) : list T3 := flat_map (fun k => map (pair k) (p_read T B (l_of s k) v)) (l_keys s).
Definition l_contains (s : lstate) (v : ver) (t : T3) : bool := p_contains T B (l_of s (fst t)) v (snd t).

Inductive lview := LKey (k : Z) (vk : View T B) | LAny (vk : View T B).
Inductive lix := LIxKey (ix : Ix T B) | LIxAny (ix : Ix T B).
Definition l_sel (v : lview) (t : T3) : bool :=
  match v with LKey k vk => Z.eqb (fst t) k && v_sel T B vk (snd t) | LAny vk => v_sel T B vk (snd t) end.
Definition l_ix (v : lview) : lix := match v with LKey _ vk => LIxKey (v_ix T B vk) | LAny vk => LIxAny (v_ix T B vk) end.
Definition l_get (s : lstate) (v : ver) (vk : lview) : option (list T3) :=
  match vk with
  | LKey k vk => option_map (map (pair k)) (p_get T B (l_of s k) v vk)
  | LAny vk => Some (flat_map (fun k => match p_get T B (l_of s k) v vk with Some l => map (pair k) l | None => [] end) (l_keys s))
  end.
Definition l_all (s : lstate) (v : ver) (ix : lix) : list (lview * list T3) :=
  match ix with
  | LIxKey ix => flat_map (fun k => map (fun e => (LKey k (fst e), map (pair k) (snd e))) (p_all T B (l_of s k) v ix)) (l_keys s)
  | LIxAny ix => flat_map (fun k => map (fun e => (LAny (fst e), map (pair k) (snd e))) (p_all T B (l_of s k) v ix)) (l_keys s)
  end.

Definition lift : provider T3 :=
  {| St := lstate; p_init := l_init; p_ins := l_ins; p_merge := l_merge; p_restart := l_restart;
     p_read := l_read; p_contains := l_contains; View := lview; Ix := lix;
     p_get := l_get; p_all := l_all; v_sel := l_sel; v_ix := l_ix |}.

(* ------------------------------------------------------------------ a key sees its own projection of the history *)
Definition hproj1 (k : Z) (o : pop T3) : list (pop T) :=
  match o with
  | PIns t => if Z.eqb (fst t) k then [PIns (snd t)] else []
  | PMerge => [PMerge]
  | PRestart => [PRestart]
  end.
Definition hproj (k : Z) (h : list (pop T3)) : list (pop T) := flat_map (hproj1 k) h.

Lemma hproj_app k h1 h2 : hproj k (h1 ++ h2) = hproj k h1 ++ hproj k h2.
Proof. unfold hproj. apply flat_map_app. Qed.
Lemma run_app (P : provider T) h1 h2 : run T P (h1 ++ h2) = fold_left (step T P) h2 (run T P h1).
Proof. unfold run. apply fold_left_app. Qed.
Lemma run3_snoc h o : run T3 lift (h ++ [o]) = step T3 lift (run T3 lift h) o.
Proof. unfold run. rewrite fold_left_app. reflexivity. Qed.
Lemma ghost3_snoc h o : ghost_of T3 (h ++ [o]) = ghost_step T3 (ghost_of T3 h) o.
Proof. unfold ghost_of. rewrite fold_left_app. reflexivity. Qed.
Lemma ghost_app h1 h2 : ghost_of T (h1 ++ h2) = fold_left (ghost_step T) h2 (ghost_of T h1).
Proof. unfold ghost_of. apply fold_left_app. Qed.

Lemma l_of_run h k : l_of (run T3 lift h) k = run T B (hproj k h).
Proof.
  induction h as [|o h IH] using rev_ind; [reflexivity|].
  rewrite run3_snoc, hproj_app, run_app. cbn [hproj flat_map]. rewrite app_nil_r.
  destruct o as [[k' t]| |]; cbn [step p_ins p_merge p_restart lift hproj1 fst snd].
  - unfold l_ins. cbn [fst snd l_of]. unfold upd. rewrite Z.eqb_sym. destruct (Z.eqb_spec k' k) as [->|Hne].
    + cbn [fold_left step]. rewrite IH. reflexivity.
    + cbn [fold_left]. exact IH.
  - cbn [l_merge l_of fold_left step]. rewrite IH. reflexivity.
  - cbn [l_restart l_of fold_left step]. rewrite IH. reflexivity.
Qed.

Lemma ghost_proj h k :
  proj k (g_t T3 (ghost_of T3 h)) = g_t T (ghost_of T (hproj k h))
  /\ proj k (g_td T3 (ghost_of T3 h)) = g_td T (ghost_of T (hproj k h))
  /\ proj k (g_new T3 (ghost_of T3 h)) = g_new T (ghost_of T (hproj k h)).
Proof.
  induction h as [|o h IH] using rev_ind; [repeat split; reflexivity|].
  rewrite ghost3_snoc, hproj_app, ghost_app. cbn [hproj flat_map]. rewrite app_nil_r. destruct IH as [I1 [I2 I3]].
  destruct o as [[k' t]| |]; cbn [ghost_step hproj1 fst snd g_t g_td g_new].
  - rewrite proj_snoc. destruct (Z.eqb_spec k' k) as [->|Hne]; cbn [fold_left ghost_step g_t g_td g_new].
    + repeat split; try assumption. rewrite I3. reflexivity.
    + repeat split; try assumption. rewrite I3, app_nil_r. reflexivity.
  - cbn [fold_left ghost_step g_t g_td g_new]. rewrite proj_app, I2, I3. repeat split; reflexivity.
  - cbn [fold_left ghost_step g_t g_td g_new]. rewrite I1. repeat split; reflexivity.
Qed.

(* generators come from insertions, and inserting registers the key *)
Lemma keys_run h k : In k (l_keys (run T3 lift h)) <-> exists t, In (PIns (k, t)) h.
Proof.
  induction h as [|o h IH] using rev_ind.
  - cbn. split; [intros []|intros [t []]].
  - rewrite run3_snoc. destruct o as [[k' t']| |]; cbn [step p_ins p_merge p_restart lift fst snd].
    + unfold l_ins. cbn [fst l_keys]. unfold kins.
      assert (Hk : In k (if in_dec Z.eq_dec k' (l_keys (run T3 lift h)) then l_keys (run T3 lift h) else l_keys (run T3 lift h) ++ [k'])
                   <-> In k (l_keys (run T3 lift h)) \/ k = k').
      { destruct (in_dec Z.eq_dec k' (l_keys (run T3 lift h))) as [Hi|Hn].
        - split; [intros H; left; exact H|intros [H| ->]; assumption].
        - rewrite in_app_iff. cbn [In]. split; [intros [H|[H|[]]]; auto|intros [H|H]; auto]. }
      rewrite Hk, IH. split.
      * intros [[t Ht]| ->]; [exists t; apply in_or_app; left; exact Ht|exists t'; apply in_or_app; right; left; reflexivity].
      * intros [t Ht]. apply in_app_iff in Ht. destruct Ht as [Ht|[E|[]]]; [left; exists t; exact Ht|right; injection E as -> _; reflexivity].
    + cbn [l_merge l_keys]. rewrite IH. split; intros [t Ht]; exists t; [apply in_or_app; left; exact Ht|].
      apply in_app_iff in Ht. destruct Ht as [Ht|[E|[]]]; [exact Ht|discriminate].
    + cbn [l_restart l_keys]. rewrite IH. split; intros [t Ht]; exists t; [apply in_or_app; left; exact Ht|].
      apply in_app_iff in Ht. destruct Ht as [Ht|[E|[]]]; [exact Ht|discriminate].
Qed.
Lemma ghost_from_ins h : forall x, (In x (g_t T3 (ghost_of T3 h)) \/ In x (g_td T3 (ghost_of T3 h)) \/ In x (g_new T3 (ghost_of T3 h))) -> In (PIns x) h.
Proof.
  induction h as [|o h IH] using rev_ind; [cbn; intros x [[]|[[]|[]]]|].
  intros x H. apply in_or_app. rewrite ghost3_snoc in H.
  destruct o as [t| |]; cbn [ghost_step g_t g_td g_new] in H; rewrite ?in_app_iff in H; cbn [In] in H.
  - destruct H as [H|[H|[H|[H|[]]]]]; [left; apply IH; auto|left; apply IH; auto|left; apply IH; auto|right; left; subst; reflexivity].
  - left. apply IH. destruct H as [H|[[H|H]|[]]]; auto.
  - left. apply IH. destruct H as [[]|[H|[]]]. auto.
Qed.
Lemma keys_nodup h : NoDup (l_keys (run T3 lift h)).
Proof.
  induction h as [|o h IH] using rev_ind; [constructor|]. rewrite run3_snoc.
  destruct o as [[k' t']| |]; cbn [step p_ins p_merge p_restart lift fst snd l_ins l_merge l_restart l_keys]; try exact IH.
  unfold kins. destruct (in_dec Z.eq_dec k' (l_keys (run T3 lift h))) as [Hi|Hn]; [exact IH|].
  clear -IH Hn. induction (l_keys (run T3 lift h)) as [|a l IHl]; cbn [app].
  - constructor; [intros []|constructor].
  - inversion IH; subst. constructor.
    + rewrite in_app_iff. cbn [In]. intros [H|[H|[]]]; [contradiction|]. subst. apply Hn. left. reflexivity.
    + apply IHl; [assumption|]. intros H. apply Hn. right. exact H.
Qed.

(* what a key serves is governed by the binary laws on its projected history *)
Lemma served_key h k t : In t (served T B (l_of (run T3 lift h) k)) -> In k (l_keys (run T3 lift h)).
Proof.
  rewrite l_of_run. intros H. apply (ok_P2 T B cl Hok (hproj k h)) in H.
  destruct (ghost_proj h k) as [_ [E _]]. rewrite <- E in H.
  destruct (proj k (g_td T3 (ghost_of T3 h))) as [|u r] eqn:Ep; [rewrite (cl_nil T cl Hcl) in H; destruct H|].
  assert (Hu : In (k, u) (g_td T3 (ghost_of T3 h))) by (apply proj_in; rewrite Ep; left; reflexivity).
  apply keys_run. exists u. apply ghost_from_ins. right. left. exact Hu.
Qed.
Lemma read_key h k v t : In t (p_read T B (l_of (run T3 lift h) k) v) -> In k (l_keys (run T3 lift h)).
Proof. intros H. apply (served_key h k t). unfold served. apply in_or_app. destruct v; [left|right]; exact H. Qed.

Lemma l_read_in h v k t : In (k, t) (l_read (run T3 lift h) v) <-> In t (p_read T B (l_of (run T3 lift h) k) v).
Proof.
  unfold l_read. rewrite in_flat_map. split.
  - intros [k' [Hk H]]. apply in_map_iff in H. destruct H as [t' [E Ht]]. injection E as -> ->. exact Ht.
  - intros H. exists k. split; [eapply read_key; exact H|apply in_map; exact H].
Qed.
Lemma l_served_in h k t : In (k, t) (served T3 lift (run T3 lift h)) <-> In t (served T B (l_of (run T3 lift h) k)).
Proof. unfold served. cbn [p_read lift]. rewrite !in_app_iff, !l_read_in. tauto. Qed.

Lemma NoDup_map_pair (k : Z) (l : list T) : NoDup l -> NoDup (map (pair k) l).
Proof.
  induction 1 as [|a l Ha Hl IH]; cbn [map]; constructor; [|exact IH].
  intros H. apply in_map_iff in H. destruct H as [x [E Hx]]. injection E as ->. contradiction.
Qed.
Lemma NoDup_app_disj {A} (l1 l2 : list A) : NoDup l1 -> NoDup l2 -> (forall b, In b l1 -> ~ In b l2) -> NoDup (l1 ++ l2).
Proof.
  induction l1 as [|h t IHt]; intros H1 H2 H12; cbn [app]; [exact H2|].
  inversion H1; subst. constructor.
  - rewrite in_app_iff. intros [Hi|Hi]; [contradiction|]. apply (H12 h); [left; reflexivity|exact Hi].
  - apply IHt; try assumption. intros b Hb. apply H12. right. exact Hb.
Qed.

(* ------------------------------------------------------------------ the lifting theorem *)
Theorem lift_provider_ok : provider_ok T3 lift cl3.
Proof.
  constructor.
  - (* P1 *)
    intros h [k t] s'. cbn [p_ins lift]. unfold l_ins. cbn [fst snd]. intros E. injection E as _ Hb.
    apply cl3_in. destruct (ghost_proj h k) as [_ [_ E3]]. rewrite E3.
    destruct (p_ins T B (l_of (run T3 lift h) k) t) as [s2 b] eqn:Ei. cbn [snd] in Hb. subst b.
    rewrite l_of_run in Ei. exact (ok_P1 T B cl Hok (hproj k h) t s2 Ei).
  - (* P2 *)
    intros h. split; intros [k t] H.
    + apply cl3_in. destruct (ghost_proj h k) as [_ [E2 _]]. rewrite E2.
      apply l_served_in in H. rewrite l_of_run in H. apply (ok_P2 T B cl Hok (hproj k h)). exact H.
    + apply cl3_in in H. destruct (ghost_proj h k) as [_ [E2 _]]. rewrite E2 in H.
      apply l_served_in. rewrite l_of_run. apply (ok_P2 T B cl Hok (hproj k h)). exact H.
  - (* P3 *)
    intros h. split; intros [k t] H.
    + apply cl3_in. destruct (ghost_proj h k) as [E1 _]. rewrite E1.
      apply (l_read_in h VTotal) in H. rewrite l_of_run in H. apply (ok_P3 T B cl Hok (hproj k h)). exact H.
    + apply cl3_in in H. destruct (ghost_proj h k) as [E1 _]. rewrite E1 in H.
      apply (l_read_in h VTotal). rewrite l_of_run. apply (ok_P3 T B cl Hok (hproj k h)). exact H.
  - (* P4 get, complete *)
    intros h v vk [k t] Hin Hsel. cbn [p_read lift] in Hin. pose proof Hin as Hin0. apply l_read_in in Hin.
    pose proof (read_key h k v t Hin) as Hk. rewrite l_of_run in Hin.
    destruct vk as [k' vk|vk]; cbn [v_sel lift l_sel fst snd] in Hsel; cbn [p_get lift l_get].
    + apply andb_true_iff in Hsel. destruct Hsel as [H1 H2]. apply Z.eqb_eq in H1. subst k'.
      destruct (ok_P4_get_complete T B cl Hok (hproj k h) v vk t Hin H2) as [l [Hg Hl]].
      rewrite l_of_run, Hg. cbn [option_map]. exists (map (pair k) l). split; [reflexivity|apply in_map; exact Hl].
    + destruct (ok_P4_get_complete T B cl Hok (hproj k h) v vk t Hin Hsel) as [l [Hg Hl]].
      eexists. split; [reflexivity|]. apply in_flat_map. exists k. split; [exact Hk|].
      rewrite l_of_run, Hg. apply in_map. exact Hl.
  - (* P4 get, sound *)
    intros h v vk l [k t]. destruct vk as [k' vk|vk]; cbn [p_get lift l_get v_sel l_sel fst snd]; intros Hg Hin.
    + destruct (p_get T B (l_of (run T3 lift h) k') v vk) as [l0|] eqn:E; [|discriminate]. cbn [option_map] in Hg. injection Hg as <-.
      apply in_map_iff in Hin. destruct Hin as [t' [Et Ht]]. injection Et as -> ->.
      rewrite l_of_run in E. destruct (ok_P4_get_sound T B cl Hok (hproj k h) v vk l0 t E Ht) as [Hs Hsv].
      rewrite Z.eqb_refl, Hs. split; [reflexivity|]. apply l_served_in. rewrite l_of_run. exact Hsv.
    + injection Hg as <-. apply in_flat_map in Hin. destruct Hin as [k' [Hk' Hin]].
      destruct (p_get T B (l_of (run T3 lift h) k') v vk) as [l0|] eqn:E; [|destruct Hin].
      apply in_map_iff in Hin. destruct Hin as [t' [Et Ht]]. injection Et as -> ->.
      rewrite l_of_run in E. destruct (ok_P4_get_sound T B cl Hok (hproj k h) v vk l0 t E Ht) as [Hs Hsv].
      split; [exact Hs|]. apply l_served_in. rewrite l_of_run. exact Hsv.
  - (* P4 all, complete *)
    intros h v vk [k t] Hin Hsel. cbn [p_read lift] in Hin. apply l_read_in in Hin.
    pose proof (read_key h k v t Hin) as Hk. rewrite l_of_run in Hin.
    destruct vk as [k' vk|vk]; cbn [v_sel lift l_sel fst snd] in Hsel; cbn [p_all v_ix lift l_all l_ix].
    + apply andb_true_iff in Hsel. destruct Hsel as [H1 H2]. apply Z.eqb_eq in H1. subst k'.
      destruct (ok_P4_all_complete T B cl Hok (hproj k h) v vk t Hin H2) as [l [He Hl]].
      exists (map (pair k) l). split; [|apply in_map; exact Hl]. apply in_flat_map. exists k. split; [exact Hk|].
      apply in_map_iff. exists (vk, l). split; [reflexivity|]. rewrite l_of_run. exact He.
    + destruct (ok_P4_all_complete T B cl Hok (hproj k h) v vk t Hin Hsel) as [l [He Hl]].
      exists (map (pair k) l). split; [|apply in_map; exact Hl]. apply in_flat_map. exists k. split; [exact Hk|].
      apply in_map_iff. exists (vk, l). split; [reflexivity|]. rewrite l_of_run. exact He.
  - (* P4 all, sound *)
    intros h v ix vk l [k t]. destruct ix as [ix|ix]; cbn [p_all lift l_all]; intros He Hin;
      apply in_flat_map in He; destruct He as [k' [Hk' He]]; apply in_map_iff in He; destruct He as [[vk0 l0] [E He]];
      cbn [fst snd] in E; injection E as <- <-; apply in_map_iff in Hin; destruct Hin as [t' [Et Ht]]; injection Et as -> ->;
      rewrite l_of_run in He; destruct (ok_P4_all_sound T B cl Hok (hproj k h) v ix vk0 l0 t He Ht) as [Hix [Hs Hsv]];
      cbn [v_ix v_sel lift l_ix l_sel fst snd]; rewrite Hix, Hs, ?Z.eqb_refl;
      (split; [reflexivity|]); (split; [reflexivity|]); apply l_served_in; rewrite l_of_run; exact Hsv.
  - (* lookups in total are duplicate free *)
    intros h vk l. destruct vk as [k vk|vk]; cbn [p_get lift l_get]; intros Hg.
    + destruct (p_get T B (l_of (run T3 lift h) k) VTotal vk) as [l0|] eqn:E; [|discriminate]. injection Hg as <-.
      apply NoDup_map_pair. rewrite l_of_run in E. exact (ok_P4_total_nodup T B cl Hok (hproj k h) vk l0 E).
    + injection Hg as <-. pose proof (keys_nodup h) as Hn.
      induction (l_keys (run T3 lift h)) as [|k ks IH]; cbn [flat_map]; [constructor|].
      inversion Hn as [|k0 ks0 Hk Hks]; subst. apply NoDup_app_disj.
      * destruct (p_get T B (l_of (run T3 lift h) k) VTotal vk) as [l0|] eqn:E; [|constructor].
        apply NoDup_map_pair. rewrite l_of_run in E. exact (ok_P4_total_nodup T B cl Hok (hproj k h) vk l0 E).
      * apply IH. exact Hks.
      * intros [k1 t1] H1 H2. apply in_flat_map in H2. destruct H2 as [k2 [Hk2 H2]].
        destruct (p_get T B (l_of (run T3 lift h) k) VTotal vk) as [l0|]; [|destruct H1].
        apply in_map_iff in H1. destruct H1 as [u [Eu _]]. injection Eu as -> _.
        destruct (p_get T B (l_of (run T3 lift h) k2) VTotal vk) as [l2|]; [|destruct H2].
        apply in_map_iff in H2. destruct H2 as [u2 [Eu2 _]]. injection Eu2 as -> _. contradiction.
  - (* P5 *)
    intros h v [k t]. cbn [p_contains p_read lift]. unfold l_contains. cbn [fst snd]. rewrite l_read_in, l_of_run.
    apply (ok_P5 T B cl Hok (hproj k h)).
Qed.
End Lift.
