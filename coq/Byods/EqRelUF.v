(* C10 — the union-find of union_find.rs (EqRel) as modelled in EqRelModel.v: invariant, and what `add`,
   `contains`, `set_of`, `iter_all`, `combine` mean in terms of the relation `erel e x y` ("x and y are in the
   same set").  Path compression (get_dominant_id_update) is proved not to change the relation. *)
From Coq Require Import List Arith Bool ZArith Lia.
From AV Require Import Byods.EqRelModel.
Import ListNotations.

(* ------------------------------------------------------------------ association lists / sets *)
Lemma zmem_spec x s : zmem x s = true <-> In x s.
Proof.
  unfold zmem. rewrite existsb_exists. split.
  - intros [y [Hy He]]. apply Z.eqb_eq in He. subst. exact Hy.
  - intros H. exists x. split; [exact H|apply Z.eqb_refl].
Qed.
Lemma zmem_false x s : zmem x s = false <-> ~ In x s.
Proof. rewrite <- zmem_spec. destruct (zmem x s); split; intros; try discriminate; try reflexivity. exfalso. apply H. reflexivity. Qed.

Lemma zins_spec x s z : In z (zins x s) <-> z = x \/ In z s.
Proof.
  unfold zins. destruct (zmem x s) eqn:E.
  - apply zmem_spec in E. split; [intros H; right; exact H|intros [->|H]; assumption].
  - rewrite in_app_iff. cbn [In]. split; [intros [H|[H|[]]]; auto|intros [H|H]; auto].
Qed.
Lemma nodup_snoc_z (x : Z) s : NoDup s -> ~ In x s -> NoDup (s ++ [x]).
Proof.
  induction s as [|a s IH]; intros Hn Hx; cbn [app].
  - constructor; [intros []|constructor].
  - inversion Hn as [|a' s' Ha Hs]; subst. constructor.
    + rewrite in_app_iff. cbn [In]. intros [Hi|[Hi|[]]]; [auto|]. subst. apply Hx. left. reflexivity.
    + apply IH; [exact Hs|]. intros Hi. apply Hx. right. exact Hi.
Qed.
Lemma zins_nodup x s : NoDup s -> NoDup (zins x s).
Proof.
  intros H. unfold zins. destruct (zmem x s) eqn:E; [exact H|].
  apply zmem_false in E. apply nodup_snoc_z; assumption.
Qed.
Lemma zunion_spec b : forall a z, In z (zunion a b) <-> In z a \/ In z b.
Proof.
  unfold zunion. induction b as [|x b IH]; intros a z; cbn [fold_left In].
  - tauto.
  - rewrite IH, zins_spec. split; [intros [[->|H]|H]|intros [H|[->|H]]]; auto.
Qed.
Lemma zunion_nodup b : forall a, NoDup a -> NoDup (zunion a b).
Proof. unfold zunion. induction b as [|x b IH]; intros a H; cbn [fold_left]; [exact H|]. apply IH, zins_nodup, H. Qed.
Lemma merge_sets_spec a b z : In z (merge_sets a b) <-> In z a \/ In z b.
Proof. unfold merge_sets. destruct (Nat.ltb _ _); rewrite zunion_spec; tauto. Qed.
Lemma merge_sets_nodup a b : NoDup a -> NoDup b -> NoDup (merge_sets a b).
Proof. intros Ha Hb. unfold merge_sets. destruct (Nat.ltb _ _); apply zunion_nodup; assumption. Qed.

Lemma zget_zset {V} k (v : V) m j : zget j (zset k v m) = if Z.eqb j k then Some v else zget j m.
Proof.
  induction m as [|[k' v'] m IH]; cbn [zset zget].
  - destruct (Z.eqb j k); reflexivity.
  - destruct (Z.eqb k k') eqn:E.
    + apply Z.eqb_eq in E. subst k'. cbn [zget]. destruct (Z.eqb j k); reflexivity.
    + cbn [zget]. destruct (Z.eqb j k') eqn:E2.
      * apply Z.eqb_eq in E2. subst k'. destruct (Z.eqb j k) eqn:E3; [|reflexivity].
        apply Z.eqb_eq in E3. subst. rewrite Z.eqb_refl in E. discriminate.
      * exact IH.
Qed.

Lemma nget_nset k v m j : nget j (nset k v m) = if Nat.eqb j k then Some v else nget j m.
Proof.
  induction m as [|[k' v'] m IH]; cbn [nset nget].
  - destruct (Nat.eqb j k); reflexivity.
  - destruct (Nat.eqb k k') eqn:E.
    + apply Nat.eqb_eq in E. subst k'. cbn [nget]. destruct (Nat.eqb j k); reflexivity.
    + cbn [nget]. destruct (Nat.eqb j k') eqn:E2.
      * apply Nat.eqb_eq in E2. subst k'. destruct (Nat.eqb j k) eqn:E3; [|reflexivity].
        apply Nat.eqb_eq in E3. subst. rewrite Nat.eqb_refl in E. discriminate.
      * exact IH.
Qed.
Lemma nset_length_some k v m p : nget k m = Some p -> length (nset k v m) = length m.
Proof.
  induction m as [|[k' v'] m IH]; cbn [nset nget]; [discriminate|].
  destruct (Nat.eqb k k'); intros H; cbn [length]; [reflexivity|]. rewrite IH; [reflexivity|exact H].
Qed.
Lemma nset_length_none k v m : nget k m = None -> length (nset k v m) = S (length m).
Proof.
  induction m as [|[k' v'] m IH]; cbn [nset nget]; [reflexivity|].
  destruct (Nat.eqb k k'); intros H; [discriminate|]. cbn [length]. rewrite IH; [reflexivity|exact H].
Qed.

Lemma nth_set_nth {A} (l : list A) i v j d : nth j (set_nth l i v) d = if Nat.eqb j i then (if Nat.ltb i (length l) then v else d) else nth j l d.
Proof.
  revert i j. induction l as [|h t IH]; intros i j; cbn [set_nth].
  - destruct i; cbn [length]; destruct (Nat.eqb j _); destruct j; reflexivity.
  - destruct i as [|i]; destruct j as [|j]; cbn [nth length]; try reflexivity.
    rewrite IH. cbn [Nat.eqb]. destruct (Nat.eqb j i); [|reflexivity].
    change (Nat.ltb (S i) (S (length t))) with (Nat.ltb i (length t)). reflexivity.
Qed.
Lemma set_nth_length {A} (l : list A) i v : length (set_nth l i v) = length l.
Proof. revert i. induction l as [|h t IH]; intros [|i]; cbn [set_nth length]; try reflexivity. rewrite IH. reflexivity. Qed.

(* ------------------------------------------------------------------ subsumption chains *)
Inductive chain (sb : list (nat * nat)) : nat -> nat -> Prop :=
| chain_root : forall a, nget a sb = None -> chain sb a a
| chain_step : forall a p d, nget a sb = Some p -> chain sb p d -> chain sb a d.

(* acyclicity with a bound that makes the fuel S (length sb) sufficient *)
Definition ranked (sb : list (nat * nat)) (rk : nat -> nat) : Prop :=
  (forall a p, nget a sb = Some p -> rk a < rk p) /\ (forall a, rk a <= length sb).

Lemma chain_fun sb a d : chain sb a d -> forall d', chain sb a d' -> d = d'.
Proof.
  induction 1 as [a Ha|a p d Ha Hc IH]; intros d' H'; inversion H' as [a' Ha'|a' p' d'' Ha' Hc']; subst.
  - reflexivity.
  - rewrite Ha in Ha'. discriminate.
  - rewrite Ha in Ha'. discriminate.
  - rewrite Ha in Ha'. injection Ha' as <-. apply IH. exact Hc'.
Qed.
Lemma chain_end_root sb a d : chain sb a d -> nget d sb = None.
Proof. induction 1; assumption. Qed.
Lemma chain_rank sb rk a d : ranked sb rk -> chain sb a d -> rk a <= rk d.
Proof. intros [Hr _]. induction 1 as [a Ha|a p d Ha Hc IH]; [lia|]. specialize (Hr a p Ha). lia. Qed.
Lemma chain_rank_strict sb rk a p d : ranked sb rk -> nget a sb = Some p -> chain sb p d -> rk a < rk d.
Proof. intros Hr Ha Hc. pose proof (chain_rank sb rk p d Hr Hc). destruct Hr as [Hr _]. specialize (Hr a p Ha). lia. Qed.
Lemma chain_exists sb rk : ranked sb rk -> forall a, exists d, chain sb a d.
Proof.
  intros Hr. assert (H : forall n a, length sb - rk a < n -> exists d, chain sb a d).
  { induction n as [|n IH]; intros a Hn; [lia|].
    destruct (nget a sb) as [p|] eqn:Ha.
    - destruct Hr as [Hr1 Hr2]. pose proof (Hr1 a p Ha). pose proof (Hr2 p).
      destruct (IH p) as [d Hd]; [lia|]. exists d. eapply chain_step; eassumption.
    - exists a. apply chain_root. exact Ha. }
  intros a. apply (H (S (length sb - rk a))). lia.
Qed.

Lemma dom_id_chain sb rk a d : ranked sb rk -> chain sb a d -> forall fuel, fuel + rk a > length sb -> dom_id fuel sb a = d.
Proof.
  intros Hr Hc. induction Hc as [a Ha|a p d Ha Hc IH]; intros fuel Hf.
  - destruct fuel as [|f]; [destruct Hr as [_ Hr2]; specialize (Hr2 a); lia|]. cbn [dom_id]. rewrite Ha. reflexivity.
  - destruct fuel as [|f]; [destruct Hr as [_ Hr2]; specialize (Hr2 a); lia|]. cbn [dom_id]. rewrite Ha.
    apply IH. destruct Hr as [Hr1 _]. specialize (Hr1 a p Ha). lia.
Qed.
Lemma find_id_chain sb rk a d : ranked sb rk -> chain sb a d -> find_id sb a = d.
Proof. intros Hr Hc. unfold find_id. eapply dom_id_chain; [exact Hr|exact Hc|lia]. Qed.

(* re-pointing an id at the end of its own chain changes no chain *)
Lemma chain_redirect sb a d : chain sb a d -> a <> d -> forall j r, chain sb j r -> chain (nset a d sb) j r.
Proof.
  intros Ha Hne j r Hj. induction Hj as [j Hjn|j p r Hjs Hc IH].
  - apply chain_root. rewrite nget_nset. destruct (Nat.eqb j a) eqn:E; [|exact Hjn].
    apply Nat.eqb_eq in E. subst j. inversion Ha; subst; [contradiction|]. rewrite Hjn in H. discriminate.
  - destruct (Nat.eqb j a) eqn:E.
    + apply Nat.eqb_eq in E. subst j.
      assert (r = d) by (eapply chain_fun; [eapply chain_step; eassumption|exact Ha]). subst r.
      eapply chain_step; [rewrite nget_nset, Nat.eqb_refl; reflexivity|].
      apply chain_root. rewrite nget_nset. destruct (Nat.eqb d a) eqn:E2; [apply Nat.eqb_eq in E2; subst; contradiction|].
      eapply chain_end_root. exact Ha.
    + eapply chain_step; [rewrite nget_nset, E; exact Hjs|exact IH].
Qed.

Definition same_keys (sb sb' : list (nat * nat)) : Prop := forall j, nget j sb = None <-> nget j sb' = None.

Lemma dom_upd_chain sb rk a d : ranked sb rk -> chain sb a d -> forall fuel, fuel + rk a > length sb ->
  exists sb', dom_upd fuel sb a = (d, sb') /\ (forall j r, chain sb j r -> chain sb' j r) /\ ranked sb' rk
              /\ length sb' = length sb /\ same_keys sb sb'.
Proof.
  intros Hr Hc. induction Hc as [a Ha|a p d Ha Hc IH]; intros fuel Hf.
  - destruct fuel as [|f]; [destruct Hr as [_ Hr2]; specialize (Hr2 a); lia|]. cbn [dom_upd]. rewrite Ha.
    exists sb. split; [reflexivity|]. split; [auto|]. split; [exact Hr|]. split; [reflexivity|]. intros j; tauto.
  - destruct fuel as [|f]; [destruct Hr as [_ Hr2]; specialize (Hr2 a); lia|]. cbn [dom_upd]. rewrite Ha.
    assert (Hlt : rk a < rk p) by (destruct Hr as [Hr1 _]; exact (Hr1 a p Ha)).
    destruct (IH f) as [sb1 [E [Hch [Hr1 [Hl Hk]]]]]; [lia|]. rewrite E.
    destruct (Nat.eqb d p) eqn:Edp.
    + exists sb1. split; [reflexivity|]. split; [exact Hch|]. split; [exact Hr1|]. split; [exact Hl|exact Hk].
    + assert (Hc1 : chain sb1 a d) by (apply Hch; eapply chain_step; eassumption).
      assert (Hrd : rk a < rk d) by exact (chain_rank_strict sb rk a p d Hr Ha Hc).
      assert (Hne : a <> d) by (intros ->; lia).
      assert (Ha1 : exists q, nget a sb1 = Some q).
      { destruct (nget a sb1) as [q|] eqn:Eq; [eexists; reflexivity|]. apply Hk in Eq. rewrite Ha in Eq. discriminate. }
      destruct Ha1 as [q Hq].
      exists (nset a d sb1). split; [reflexivity|]. split; [|split; [|split]].
      * intros j r Hj. apply chain_redirect; [exact Hc1|exact Hne|apply Hch; exact Hj].
      * destruct Hr1 as [Hr1a Hr1b]. split.
        -- intros x y. rewrite nget_nset. destruct (Nat.eqb x a) eqn:Ex.
           ++ apply Nat.eqb_eq in Ex. subst x. intros [= <-]. exact Hrd.
           ++ apply Hr1a.
        -- intros x. rewrite (nset_length_some a d sb1 q Hq). apply Hr1b.
      * rewrite (nset_length_some a d sb1 q Hq). exact Hl.
      * intros j. rewrite nget_nset. destruct (Nat.eqb j a) eqn:Ej.
        -- apply Nat.eqb_eq in Ej. subst j. rewrite Ha. split; discriminate.
        -- apply Hk.
Qed.

(* chains of two maps related as above coincide *)
Lemma chain_back sb sb' rk : ranked sb rk -> (forall j r, chain sb j r -> chain sb' j r) ->
  forall j r, chain sb' j r -> chain sb j r.
Proof.
  intros Hr H j r Hj. destruct (chain_exists sb rk Hr j) as [r0 Hr0].
  assert (r = r0) by (eapply chain_fun; [exact Hj|apply H; exact Hr0]). subst. exact Hr0.
Qed.

(* ------------------------------------------------------------------ the invariant *)
Definition setof (e : eqrel) (d : nat) : list Z := nth d (sets e) [].

Record wf (e : eqrel) : Prop := {
  wf_rank : exists rk, ranked (subs e) rk;
  wf_subs_lt : forall a p, nget a (subs e) = Some p -> a < length (sets e);
  wf_in : forall x id d, zget x (ids e) = Some id -> chain (subs e) id d -> In x (setof e d);
  wf_own : forall d x, nget d (subs e) = None -> In x (setof e d) -> exists id, zget x (ids e) = Some id /\ chain (subs e) id d;
  wf_taken : forall a p, nget a (subs e) = Some p -> setof e a = [];
  wf_nodup : forall d, NoDup (setof e d) }.

(* x and y are in the same set *)
Definition erel (e : eqrel) (x y : Z) : Prop :=
  exists id d, zget x (ids e) = Some id /\ chain (subs e) id d /\ In y (setof e d).
Definition ement (e : eqrel) (x : Z) : Prop := exists id, zget x (ids e) = Some id.

Lemma setof_lt e d x : In x (setof e d) -> d < length (sets e).
Proof.
  unfold setof. intros H. destruct (Nat.lt_ge_cases d (length (sets e))) as [Hl|Hl]; [exact Hl|].
  rewrite nth_overflow in H; [destruct H|exact Hl].
Qed.

Lemma wf_empty : wf e_empty.
Proof.
  constructor; cbn.
  - exists (fun _ => 0). split; [intros a p H; discriminate|intros; lia].
  - intros a p H. discriminate.
  - intros x id d H. discriminate.
  - intros d x _ H. unfold setof in H. cbn in H. destruct d; destruct H.
  - intros a p H. discriminate.
  - intros d. unfold setof. cbn. destruct d; constructor.
Qed.
Lemma erel_empty x y : ~ erel e_empty x y.
Proof. intros [id [d [H _]]]. cbn in H. discriminate. Qed.

Lemma erel_refl e x : wf e -> ement e x -> erel e x x.
Proof.
  intros W [id Hid]. destruct (wf_rank e W) as [rk Hr]. destruct (chain_exists _ rk Hr id) as [d Hd].
  exists id, d. repeat split; try assumption. eapply wf_in; eassumption.
Qed.
Lemma erel_ment_l e x y : erel e x y -> ement e x.
Proof. intros [id [d [H _]]]. exists id. exact H. Qed.
Lemma erel_sym e x y : wf e -> erel e x y -> erel e y x.
Proof.
  intros W [id [d [Hid [Hc Hy]]]].
  destruct (wf_own e W d y (chain_end_root _ _ _ Hc) Hy) as [id' [Hid' Hc']].
  exists id', d. repeat split; try assumption. eapply wf_in; eassumption.
Qed.
Lemma erel_ment_r e x y : wf e -> erel e x y -> ement e y.
Proof. intros W H. eapply erel_ment_l. eapply erel_sym; eassumption. Qed.
Lemma erel_trans e x y z : wf e -> erel e x y -> erel e y z -> erel e x z.
Proof.
  intros W [id [d [Hid [Hc Hy]]]] [id2 [d2 [Hid2 [Hc2 Hz]]]].
  destruct (wf_own e W d y (chain_end_root _ _ _ Hc) Hy) as [id' [Hid' Hc']].
  rewrite Hid2 in Hid'. injection Hid' as <-.
  assert (d2 = d) by (eapply chain_fun; eassumption). subst d2.
  exists id, d. repeat split; assumption.
Qed.

(* the read operations *)
Lemma elem_set_spec e x : wf e ->
  match elem_set e x with
  | Some d => exists id, zget x (ids e) = Some id /\ chain (subs e) id d
  | None => zget x (ids e) = None
  end.
Proof.
  intros W. unfold elem_set. destruct (zget x (ids e)) as [id|] eqn:E; cbn [option_map]; [|reflexivity].
  destruct (wf_rank e W) as [rk Hr]. destruct (chain_exists _ rk Hr id) as [d Hd].
  rewrite (find_id_chain _ rk id d Hr Hd). exists id. split; [reflexivity|exact Hd].
Qed.
Lemma e_contains_spec e x y : wf e -> (e_contains e x y = true <-> erel e x y).
Proof.
  intros W. unfold e_contains. pose proof (elem_set_spec e x W) as H. destruct (elem_set e x) as [d|].
  - destruct H as [id [Hid Hc]]. rewrite zmem_spec. split.
    + intros Hy. exists id, d. repeat split; assumption.
    + intros [id' [d' [Hid' [Hc' Hy]]]]. rewrite Hid in Hid'. injection Hid' as <-.
      assert (d' = d) by (eapply chain_fun; eassumption). subst. exact Hy.
  - split; [discriminate|]. intros [id [d [Hid _]]]. rewrite H in Hid. discriminate.
Qed.
Lemma e_set_of_spec e x : wf e ->
  match e_set_of e x with
  | Some s => ement e x /\ NoDup s /\ forall y, In y s <-> erel e x y
  | None => ~ ement e x
  end.
Proof.
  intros W. unfold e_set_of. pose proof (elem_set_spec e x W) as H. destruct (elem_set e x) as [d|]; cbn [option_map].
  - destruct H as [id [Hid Hc]]. split; [exists id; exact Hid|]. split; [apply (wf_nodup e W)|].
    intros y. split.
    + intros Hy. exists id, d. repeat split; assumption.
    + intros [id' [d' [Hid' [Hc' Hy]]]]. rewrite Hid in Hid'. injection Hid' as <-.
      assert (d' = d) by (eapply chain_fun; eassumption). subst. exact Hy.
  - intros [id Hid]. rewrite H in Hid. discriminate.
Qed.

(* ------------------------------------------------------------------ the class of an element *)
Definition cidr (e : eqrel) (z : Z) (d : nat) : Prop := exists id, zget z (ids e) = Some id /\ chain (subs e) id d.

Lemma cidr_fun e z d d' : cidr e z d -> cidr e z d' -> d = d'.
Proof. intros [id [H1 H2]] [id' [H1' H2']]. rewrite H1 in H1'. injection H1' as <-. eapply chain_fun; eassumption. Qed.
Lemma cidr_root e z d : cidr e z d -> nget d (subs e) = None.
Proof. intros [id [_ H]]. eapply chain_end_root. exact H. Qed.
Lemma cidr_total e z : wf e -> ement e z -> exists d, cidr e z d.
Proof.
  intros W [id Hid]. destruct (wf_rank e W) as [rk Hr]. destruct (chain_exists _ rk Hr id) as [d Hd].
  exists d, id. split; assumption.
Qed.
Lemma erel_cidr e a b : wf e -> (erel e a b <-> exists d, cidr e a d /\ cidr e b d).
Proof.
  intros W. split.
  - intros [id [d [Hid [Hc Hb]]]]. exists d. split; [exists id; split; assumption|].
    apply (wf_own e W d b (chain_end_root _ _ _ Hc) Hb).
  - intros [d [[id [Hid Hc]] [id' [Hid' Hc']]]]. exists id, d. repeat split; try assumption.
    eapply wf_in; eassumption.
Qed.
Lemma cidr_in e z d : wf e -> cidr e z d -> In z (setof e d).
Proof. intros W [id [H1 H2]]. eapply wf_in; eassumption. Qed.

(* what `add` does to the relation: the classes of x and y (singletons when unmentioned) are joined *)
Definition cls (e : eqrel) (x a : Z) : Prop := erel e a x \/ a = x.
Definition joined (e : eqrel) (x y a b : Z) : Prop :=
  erel e a b \/ ((cls e x a \/ cls e y a) /\ (cls e x b \/ cls e y b)).

Lemma app_setof_last e s d : setof (mkE (sets e ++ [s]) (ids e) (subs e)) d = if Nat.eqb d (length (sets e)) then s else setof e d.
Proof.
  unfold setof. cbn [sets]. destruct (Nat.eqb d (length (sets e))) eqn:E.
  - apply Nat.eqb_eq in E. subst d. rewrite app_nth2; [|lia]. rewrite Nat.sub_diag. reflexivity.
  - apply Nat.eqb_neq in E. destruct (Nat.lt_ge_cases d (length (sets e))) as [Hl|Hl].
    + rewrite app_nth1; [reflexivity|exact Hl].
    + rewrite !nth_overflow; [reflexivity|lia|rewrite app_length; cbn [length]; lia].
Qed.

Lemma not_ment_cidr e z d : zget z (ids e) = None -> ~ cidr e z d.
Proof. intros H [id [H1 _]]. rewrite H in H1. discriminate. Qed.

(* case (None, None): a fresh set {x, y} *)
Lemma add_fresh e x y : wf e -> zget x (ids e) = None -> zget y (ids e) = None ->
  let n := length (sets e) in
  let e' := mkE (sets e ++ [zins y [x]]) (zset y n (zset x n (ids e))) (subs e) in
  wf e' /\ forall z d, cidr e' z d <-> ((z = x \/ z = y) /\ d = n) \/ (z <> x /\ z <> y /\ cidr e z d).
Proof.
  intros W Hx Hy n e'.
  assert (Hset : forall d, setof e' d = if Nat.eqb d n then zins y [x] else setof e d).
  { intros d. unfold e', setof. cbn [sets]. exact (app_setof_last e (zins y [x]) d). }
  assert (Hget : forall z, zget z (ids e') = if Z.eqb z y then Some n else if Z.eqb z x then Some n else zget z (ids e)).
  { intros z. unfold e'. cbn [ids]. rewrite !zget_zset. reflexivity. }
  assert (Hn : nget n (subs e) = None).
  { destruct (nget n (subs e)) as [p|] eqn:E; [|reflexivity]. pose proof (wf_subs_lt e W n p E). unfold n in *. lia. }
  assert (Hnn : chain (subs e) n n) by (apply chain_root; exact Hn).
  assert (Hcid : forall z d, cidr e' z d <-> ((z = x \/ z = y) /\ d = n) \/ (z <> x /\ z <> y /\ cidr e z d)).
  { intros z d. unfold cidr. cbn [subs e'] . split.
    - intros [id [Hid Hc]]. rewrite Hget in Hid. destruct (Z.eqb_spec z y) as [->|Hzy].
      + injection Hid as <-. left. split; [right; reflexivity|]. eapply chain_fun; [exact Hc|exact Hnn].
      + destruct (Z.eqb_spec z x) as [->|Hzx].
        * injection Hid as <-. left. split; [left; reflexivity|]. eapply chain_fun; [exact Hc|exact Hnn].
        * right. repeat split; try assumption. exists id. split; assumption.
    - intros [[Hz ->]|[Hzx [Hzy [id [Hid Hc]]]]].
      + exists n. split; [|exact Hnn]. rewrite Hget. destruct Hz as [->| ->].
        * destruct (Z.eqb x y); [reflexivity|]. rewrite Z.eqb_refl. reflexivity.
        * rewrite Z.eqb_refl. reflexivity.
      + exists id. split; [|exact Hc]. rewrite Hget. destruct (Z.eqb_spec z y); [contradiction|]. destruct (Z.eqb_spec z x); [contradiction|]. exact Hid. }
  split; [|exact Hcid].
  constructor.
  - exact (wf_rank e W).
  - intros a p H. cbn [subs sets e'] in *. rewrite app_length. pose proof (wf_subs_lt e W a p H). lia.
  - intros z id d Hid Hc. assert (Hz : cidr e' z d) by (exists id; split; assumption).
    apply Hcid in Hz. rewrite Hset. destruct Hz as [[Hz ->]|[_ [_ Hz]]].
    + unfold n. rewrite Nat.eqb_refl. apply zins_spec. destruct Hz as [->| ->]; [right; left; reflexivity|left; reflexivity].
    + pose proof (cidr_in e z d W Hz) as Hin. pose proof (setof_lt e d z Hin).
      destruct (Nat.eqb_spec d n); [unfold n in *; lia|exact Hin].
  - intros d z Hd Hin. cbn [subs e'] in Hd. rewrite Hset in Hin. apply Hcid. destruct (Nat.eqb_spec d n) as [->|Hdn].
    + apply zins_spec in Hin. left. split; [|reflexivity]. destruct Hin as [->|[->|[]]]; [right|left]; reflexivity.
    + destruct (wf_own e W d z Hd Hin) as [id [Hid Hc]]. right.
      assert (z <> x) by (intros ->; rewrite Hx in Hid; discriminate).
      assert (z <> y) by (intros ->; rewrite Hy in Hid; discriminate).
      repeat split; try assumption. exists id. split; assumption.
  - intros a p H. cbn [subs e'] in H. rewrite Hset. pose proof (wf_subs_lt e W a p H).
    destruct (Nat.eqb_spec a n); [unfold n in *; lia|]. exact (wf_taken e W a p H).
  - intros d. rewrite Hset. destruct (Nat.eqb d n); [|apply (wf_nodup e W)].
    apply zins_nodup. constructor; [intros []|constructor].
Qed.

(* cases (None, Some) / (Some, None): a new element joins an existing set *)
Lemma add_attach e x d0 : wf e -> zget x (ids e) = None -> nget d0 (subs e) = None -> d0 < length (sets e) ->
  let e' := mkE (set_nth (sets e) d0 (zins x (setof e d0))) (zset x d0 (ids e)) (subs e) in
  wf e' /\ forall z d, cidr e' z d <-> (z = x /\ d = d0) \/ (z <> x /\ cidr e z d).
Proof.
  intros W Hx Hd0 Hlt e'.
  assert (Hset : forall d, setof e' d = if Nat.eqb d d0 then zins x (setof e d0) else setof e d).
  { intros d. unfold e', setof. cbn [sets]. rewrite nth_set_nth. apply Nat.ltb_lt in Hlt. rewrite Hlt. reflexivity. }
  assert (Hget : forall z, zget z (ids e') = if Z.eqb z x then Some d0 else zget z (ids e)).
  { intros z. unfold e'. cbn [ids]. rewrite zget_zset. reflexivity. }
  assert (Hdd : chain (subs e) d0 d0) by (apply chain_root; exact Hd0).
  assert (Hcid : forall z d, cidr e' z d <-> (z = x /\ d = d0) \/ (z <> x /\ cidr e z d)).
  { intros z d. unfold cidr. cbn [subs e']. split.
    - intros [id [Hid Hc]]. rewrite Hget in Hid. destruct (Z.eqb_spec z x) as [->|Hzx].
      + injection Hid as <-. left. split; [reflexivity|]. eapply chain_fun; [exact Hc|exact Hdd].
      + right. split; [exact Hzx|]. exists id. split; assumption.
    - intros [[-> ->]|[Hzx [id [Hid Hc]]]].
      + exists d0. split; [|exact Hdd]. rewrite Hget, Z.eqb_refl. reflexivity.
      + exists id. split; [|exact Hc]. rewrite Hget. destruct (Z.eqb_spec z x); [contradiction|exact Hid]. }
  split; [|exact Hcid].
  constructor.
  - exact (wf_rank e W).
  - intros a p H. cbn [subs sets e'] in *. rewrite set_nth_length. exact (wf_subs_lt e W a p H).
  - intros z id d Hid Hc. assert (Hz : cidr e' z d) by (exists id; split; assumption).
    apply Hcid in Hz. rewrite Hset. destruct Hz as [[-> ->]|[_ Hz]].
    + rewrite Nat.eqb_refl. apply zins_spec. left. reflexivity.
    + pose proof (cidr_in e z d W Hz) as Hin. destruct (Nat.eqb_spec d d0) as [->|_]; [|exact Hin].
      apply zins_spec. right. exact Hin.
  - intros d z Hd Hin. cbn [subs e'] in Hd. rewrite Hset in Hin. apply Hcid. destruct (Nat.eqb_spec d d0) as [->|Hdn].
    + apply zins_spec in Hin. destruct Hin as [->|Hin]; [left; split; reflexivity|].
      destruct (wf_own e W d0 z Hd Hin) as [id [Hid Hc]]. right.
      split; [intros ->; rewrite Hx in Hid; discriminate|]. exists id. split; assumption.
    + destruct (wf_own e W d z Hd Hin) as [id [Hid Hc]]. right.
      split; [intros ->; rewrite Hx in Hid; discriminate|]. exists id. split; assumption.
  - intros a p H. cbn [subs e'] in H. rewrite Hset.
    destruct (Nat.eqb_spec a d0) as [->|_]; [rewrite Hd0 in H; discriminate|]. exact (wf_taken e W a p H).
  - intros d. rewrite Hset. destruct (Nat.eqb d d0); [|apply (wf_nodup e W)]. apply zins_nodup. apply (wf_nodup e W).
Qed.

(* linking the root ys under the root xs *)
Lemma chain_link sb xs ys : nget xs sb = None -> nget ys sb = None -> xs <> ys ->
  forall j r0, chain sb j r0 -> chain (nset ys xs sb) j (if Nat.eqb r0 ys then xs else r0).
Proof.
  intros Hxs Hys Hne j r0 Hc. induction Hc as [j Hj|j p r0 Hj Hc IH].
  - destruct (Nat.eqb_spec j ys) as [->|Hjy].
    + eapply chain_step; [rewrite nget_nset, Nat.eqb_refl; reflexivity|].
      apply chain_root. rewrite nget_nset. destruct (Nat.eqb_spec xs ys); [contradiction|exact Hxs].
    + apply chain_root. rewrite nget_nset. destruct (Nat.eqb_spec j ys); [contradiction|exact Hj].
  - eapply chain_step; [|exact IH]. rewrite nget_nset.
    destruct (Nat.eqb_spec j ys) as [->|_]; [rewrite Hys in Hj; discriminate|exact Hj].
Qed.

Lemma ranked_link sb rk xs ys : ranked sb rk -> nget xs sb = None -> nget ys sb = None -> xs <> ys ->
  ranked (nset ys xs sb) (fun a => if Nat.eqb a xs then Nat.max (rk xs) (S (rk ys)) else rk a).
Proof.
  intros [Hr1 Hr2] Hxs Hys Hne. unfold ranked. rewrite (nset_length_none ys xs sb Hys). split.
  - intros a p. rewrite nget_nset. destruct (Nat.eqb_spec a ys) as [->|Hay].
    + intros [= <-]. rewrite Nat.eqb_refl. destruct (Nat.eqb_spec ys xs); [subst; contradiction|]. lia.
    + intros H. destruct (Nat.eqb_spec a xs) as [->|_]; [rewrite Hxs in H; discriminate|].
      pose proof (Hr1 a p H). destruct (Nat.eqb_spec p xs) as [->|_]; lia.
  - intros a. pose proof (Hr2 a). pose proof (Hr2 xs). pose proof (Hr2 ys). destruct (Nat.eqb_spec a xs) as [->|_]; lia.
Qed.

(* case (Some, Some), different sets: the set of y is poured into the set of x *)
Lemma add_merge e xs ys : wf e -> nget xs (subs e) = None -> nget ys (subs e) = None -> xs <> ys ->
  xs < length (sets e) -> ys < length (sets e) ->
  let s1 := set_nth (sets e) ys [] in
  let e' := mkE (set_nth s1 xs (merge_sets (nth xs s1 []) (setof e ys))) (ids e) (nset ys xs (subs e)) in
  wf e' /\ forall z d, cidr e' z d <-> exists d0, cidr e z d0 /\ d = (if Nat.eqb d0 ys then xs else d0).
Proof.
  intros W Hxs Hys Hne Hlx Hly s1 e'.
  destruct (wf_rank e W) as [rk Hr].
  assert (Hs1 : forall d, nth d s1 [] = if Nat.eqb d ys then [] else setof e d).
  { intros d. unfold s1. rewrite nth_set_nth. destruct (Nat.eqb d ys); [destruct (Nat.ltb _ _); reflexivity|reflexivity]. }
  assert (Hset : forall d, setof e' d = if Nat.eqb d xs then merge_sets (setof e xs) (setof e ys)
                                        else if Nat.eqb d ys then [] else setof e d).
  { intros d. unfold e', setof at 1. cbn [sets]. rewrite nth_set_nth. unfold s1 at 1. rewrite set_nth_length.
    apply Nat.ltb_lt in Hlx. rewrite Hlx. rewrite !Hs1. destruct (Nat.eqb_spec xs ys); [contradiction|]. reflexivity. }
  assert (Hr' := ranked_link _ rk xs ys Hr Hxs Hys Hne).
  assert (Hch : forall j r, chain (subs e') j r <-> exists r0, chain (subs e) j r0 /\ r = (if Nat.eqb r0 ys then xs else r0)).
  { intros j r. cbn [subs e']. split.
    - intros Hc. destruct (chain_exists _ rk Hr j) as [r0 Hr0]. exists r0. split; [exact Hr0|].
      eapply chain_fun; [exact Hc|]. apply chain_link; assumption.
    - intros [r0 [Hr0 ->]]. apply chain_link; assumption. }
  assert (Hcid : forall z d, cidr e' z d <-> exists d0, cidr e z d0 /\ d = (if Nat.eqb d0 ys then xs else d0)).
  { intros z d. unfold cidr. cbn [ids e']. split.
    - intros [id [Hid Hc]]. apply Hch in Hc. destruct Hc as [r0 [Hr0 ->]]. exists r0. split; [|reflexivity]. exists id. split; assumption.
    - intros [d0 [[id [Hid Hc]] ->]]. exists id. split; [exact Hid|]. apply Hch. exists d0. split; [exact Hc|reflexivity]. }
  split; [|exact Hcid].
  constructor.
  - eexists. exact Hr'.
  - intros a p. cbn [subs sets e']. rewrite set_nth_length. unfold s1. rewrite set_nth_length, nget_nset.
    destruct (Nat.eqb_spec a ys) as [->|_]; [intros _; exact Hly|]. intros H. exact (wf_subs_lt e W a p H).
  - intros z id d Hid Hc. assert (Hz : cidr e' z d) by (exists id; split; assumption).
    apply Hcid in Hz. destruct Hz as [d0 [Hz ->]]. pose proof (cidr_in e z d0 W Hz) as Hin. rewrite Hset.
    destruct (Nat.eqb_spec d0 ys) as [Heq|Hd0y].
    + rewrite Nat.eqb_refl. apply merge_sets_spec. right. rewrite <- Heq. exact Hin.
    + destruct (Nat.eqb_spec d0 xs) as [Heq|_]; [apply merge_sets_spec; left; rewrite <- Heq; exact Hin|].
      destruct (Nat.eqb_spec d0 ys); [contradiction|exact Hin].
  - intros d z Hd Hin. cbn [subs e'] in Hd. rewrite nget_nset in Hd.
    destruct (Nat.eqb_spec d ys) as [->|Hdy]; [discriminate|]. rewrite Hset in Hin. apply Hcid.
    destruct (Nat.eqb_spec d xs) as [->|Hdx].
    + apply merge_sets_spec in Hin. destruct Hin as [Hin|Hin].
      * exists xs. split; [apply (wf_own e W xs z Hxs Hin)|]. destruct (Nat.eqb_spec xs ys); [contradiction|reflexivity].
      * exists ys. split; [apply (wf_own e W ys z Hys Hin)|]. rewrite Nat.eqb_refl. reflexivity.
    + destruct (Nat.eqb_spec d ys); [contradiction|]. exists d. split; [apply (wf_own e W d z Hd Hin)|].
      destruct (Nat.eqb_spec d ys); [contradiction|reflexivity].
  - intros a p. cbn [subs e']. rewrite nget_nset, Hset. destruct (Nat.eqb_spec a ys) as [->|Hay].
    + intros _. destruct (Nat.eqb_spec ys xs); [subst; contradiction|]. reflexivity.
    + intros H. destruct (Nat.eqb_spec a xs) as [->|_]; [rewrite Hxs in H; discriminate|].
      destruct (Nat.eqb_spec a ys); [contradiction|]. exact (wf_taken e W a p H).
  - intros d. rewrite Hset. destruct (Nat.eqb d xs); [apply merge_sets_nodup; apply (wf_nodup e W)|].
    destruct (Nat.eqb d ys); [constructor|apply (wf_nodup e W)].
Qed.

(* ------------------------------------------------------------------ path compression leaves the relation alone *)
Lemma elem_set_update_spec sb rk im x : ranked sb rk ->
  (forall j r, chain sb j r -> chain (snd (elem_set_update sb im x)) j r)
  /\ ranked (snd (elem_set_update sb im x)) rk
  /\ length (snd (elem_set_update sb im x)) = length sb
  /\ same_keys sb (snd (elem_set_update sb im x))
  /\ match zget x im with
     | Some id => exists d, fst (elem_set_update sb im x) = Some d /\ chain sb id d
     | None => fst (elem_set_update sb im x) = None
     end.
Proof.
  intros Hr. unfold elem_set_update. destruct (zget x im) as [id|].
  - destruct (chain_exists sb rk Hr id) as [d Hd].
    destruct (dom_upd_chain sb rk id d Hr Hd (S (length sb))) as [sb' [E [H1 [H2 [H3 H4]]]]]; [lia|].
    rewrite E. cbn [fst snd]. split; [exact H1|]. split; [exact H2|]. split; [exact H3|]. split; [exact H4|]. exists d. split; [reflexivity|exact Hd].
  - cbn [fst snd]. split; [auto|]. split; [exact Hr|]. split; [reflexivity|]. split; [intros j; tauto|reflexivity].
Qed.

Lemma wf_resubs e sb2 rk : wf e -> ranked (subs e) rk -> (forall j r, chain (subs e) j r -> chain sb2 j r) -> ranked sb2 rk ->
  same_keys (subs e) sb2 ->
  wf (mkE (sets e) (ids e) sb2) /\ (forall z d, cidr (mkE (sets e) (ids e) sb2) z d <-> cidr e z d).
Proof.
  intros W Hr Hc Hr2 Hk.
  assert (Hc' : forall j r, chain sb2 j r -> chain (subs e) j r) by (eapply chain_back; eassumption).
  assert (Hcid : forall z d, cidr (mkE (sets e) (ids e) sb2) z d <-> cidr e z d).
  { intros z d. unfold cidr. cbn [ids subs]. split; intros [id [H1 H2]]; exists id; split; auto. }
  split; [|exact Hcid]. constructor; cbn [sets ids subs].
  - exists rk. exact Hr2.
  - intros a p H. destruct (nget a (subs e)) as [q|] eqn:E; [exact (wf_subs_lt e W a q E)|]. apply Hk in E. rewrite E in H. discriminate.
  - intros x id d Hid Hch. unfold setof. cbn [sets]. eapply (wf_in e W); [exact Hid|apply Hc'; exact Hch].
  - intros d x Hd Hin. unfold setof in Hin. cbn [sets] in Hin. apply Hk in Hd. destruct (wf_own e W d x Hd Hin) as [id [H1 H2]].
    exists id. split; [exact H1|apply Hc; exact H2].
  - intros a p H. destruct (nget a (subs e)) as [q|] eqn:E; [exact (wf_taken e W a q E)|]. apply Hk in E. rewrite E in H. discriminate.
  - intros d. exact (wf_nodup e W d).
Qed.

(* ------------------------------------------------------------------ from classes to the joined relation *)
Lemma cidr_lt e z d : wf e -> cidr e z d -> d < length (sets e).
Proof. intros W H. eapply setof_lt. eapply cidr_in; eassumption. Qed.
Lemma cls_unment e x a : wf e -> zget x (ids e) = None -> (cls e x a <-> a = x).
Proof.
  intros W Hx. unfold cls. split; [|intros ->; right; reflexivity]. intros [H| ->]; [|reflexivity].
  destruct (erel_ment_r e a x W H) as [id Hid]. rewrite Hx in Hid. discriminate.
Qed.
Lemma cls_ment e x dx a : wf e -> cidr e x dx -> (cls e x a <-> cidr e a dx).
Proof.
  intros W Hx. unfold cls. rewrite (erel_cidr e a x W). split.
  - intros [[d [Ha Hx']]| ->]; [|exact Hx]. assert (d = dx) by (eapply cidr_fun; eassumption). subst. exact Ha.
  - intros Ha. left. exists dx. split; assumption.
Qed.

Lemma joined_fresh e e' x y n : wf e -> wf e' -> zget x (ids e) = None -> zget y (ids e) = None -> n = length (sets e) ->
  (forall z d, cidr e' z d <-> ((z = x \/ z = y) /\ d = n) \/ (z <> x /\ z <> y /\ cidr e z d)) ->
  forall a b, erel e' a b <-> joined e x y a b.
Proof.
  intros W W' Hx Hy Hn Hcid a b. rewrite (erel_cidr e' a b W'). unfold joined.
  rewrite (erel_cidr e a b W), !(cls_unment e x _ W Hx), !(cls_unment e y _ W Hy). split.
  - intros [d [Ha Hb]]. apply Hcid in Ha. apply Hcid in Hb.
    destruct Ha as [[Ha ->]|[Hax [Hay Ha]]]; destruct Hb as [[Hb Hd]|[Hbx [Hby Hb]]].
    + right. split; assumption.
    + pose proof (cidr_lt e b _ W Hb). lia.
    + subst d. pose proof (cidr_lt e a _ W Ha). lia.
    + left. exists d. split; assumption.
  - assert (Hnx : forall z d, cidr e z d -> z <> x) by (intros z d Hz ->; exact (not_ment_cidr e x d Hx Hz)).
    assert (Hny : forall z d, cidr e z d -> z <> y) by (intros z d Hz ->; exact (not_ment_cidr e y d Hy Hz)).
    intros [[d [Ha Hb]]|[Ha Hb]].
    + exists d. split; apply Hcid; right.
      * split; [exact (Hnx a d Ha)|]. split; [exact (Hny a d Ha)|exact Ha].
      * split; [exact (Hnx b d Hb)|]. split; [exact (Hny b d Hb)|exact Hb].
    + exists n. split; apply Hcid; left; split; auto.
Qed.

Lemma joined_attach e e' x y dy : wf e -> wf e' -> zget x (ids e) = None -> cidr e y dy ->
  (forall z d, cidr e' z d <-> (z = x /\ d = dy) \/ (z <> x /\ cidr e z d)) ->
  forall a b, erel e' a b <-> joined e x y a b.
Proof.
  intros W W' Hx Hy Hcid a b. rewrite (erel_cidr e' a b W'). unfold joined.
  rewrite (erel_cidr e a b W), !(cls_unment e x _ W Hx), !(cls_ment e y dy _ W Hy). split.
  - intros [d [Ha Hb]]. apply Hcid in Ha. apply Hcid in Hb.
    destruct Ha as [[-> ->]|[Hax Ha]]; destruct Hb as [[-> Hd]|[Hbx Hb]].
    + right. split; left; reflexivity.
    + right. split; [left; reflexivity|right; exact Hb].
    + subst d. right. split; [right; exact Ha|left; reflexivity].
    + left. exists d. split; assumption.
  - assert (Hnx : forall z d, cidr e z d -> z <> x) by (intros z d Hz ->; exact (not_ment_cidr e x d Hx Hz)).
    intros [[d [Ha Hb]]|[Ha Hb]].
    + exists d. split; apply Hcid; right; split; eauto.
    + exists dy. split; apply Hcid.
      * destruct Ha as [->|Ha]; [left; split; reflexivity|right; split; eauto].
      * destruct Hb as [->|Hb]; [left; split; reflexivity|right; split; eauto].
Qed.

Lemma joined_comm e x y a b : joined e x y a b <-> joined e y x a b.
Proof. unfold joined. tauto. Qed.

Lemma joined_same e x y : wf e -> erel e x y -> forall a b, erel e a b <-> joined e x y a b.
Proof.
  intros W Hxy a b. unfold joined, cls. split; [intros H; left; exact H|]. intros [H|[Ha Hb]]; [exact H|].
  assert (Hyx : erel e y x) by (apply erel_sym; assumption).
  assert (Hxx : erel e x x) by (eapply erel_trans; eassumption).
  assert (Hax : erel e a x).
  { destruct Ha as [[H| ->]|[H| ->]]; [exact H|exact Hxx|eapply erel_trans; eassumption|exact Hyx]. }
  assert (Hxb : erel e x b).
  { destruct Hb as [[H| ->]|[H| ->]]; [apply erel_sym; assumption|exact Hxx|
      eapply erel_trans; [exact W|exact Hxy|apply erel_sym; assumption]|exact Hxy]. }
  eapply erel_trans; eassumption.
Qed.

Lemma joined_merge e e' x y dx dy : wf e -> wf e' -> cidr e x dx -> cidr e y dy ->
  (forall z d, cidr e' z d <-> exists d0, cidr e z d0 /\ d = (if Nat.eqb d0 dy then dx else d0)) ->
  forall a b, erel e' a b <-> joined e x y a b.
Proof.
  intros W W' Hx Hy Hcid a b. rewrite (erel_cidr e' a b W'). unfold joined.
  rewrite (erel_cidr e a b W), !(cls_ment e x dx _ W Hx), !(cls_ment e y dy _ W Hy). split.
  - intros [d [Ha Hb]]. apply Hcid in Ha. apply Hcid in Hb. destruct Ha as [da [Ha ->]]. destruct Hb as [db [Hb Hd]].
    destruct (Nat.eqb_spec da dy) as [->|Hda]; destruct (Nat.eqb_spec db dy) as [->|Hdb].
    + left. exists dy. split; assumption.
    + subst db. right. split; [right|left]; assumption.
    + subst da. right. split; [left|right]; assumption.
    + subst db. left. exists da. split; assumption.
  - intros [[d [Ha Hb]]|[Ha Hb]].
    + exists (if Nat.eqb d dy then dx else d). split; apply Hcid; exists d; split; auto.
    + exists dx. split; apply Hcid.
      * destruct Ha as [Ha|Ha]; [exists dx|exists dy]; (split; [exact Ha|]).
        -- destruct (Nat.eqb_spec dx dy) as [->|_]; reflexivity.
        -- rewrite Nat.eqb_refl. reflexivity.
      * destruct Hb as [Hb|Hb]; [exists dx|exists dy]; (split; [exact Hb|]).
        -- destruct (Nat.eqb_spec dx dy) as [->|_]; reflexivity.
        -- rewrite Nat.eqb_refl. reflexivity.
Qed.

(* ------------------------------------------------------------------ add *)
Lemma contains_false e x y : wf e -> ~ erel e x y -> e_contains e x y = false.
Proof. intros W H. destruct (e_contains e x y) eqn:E; [|reflexivity]. apply (e_contains_spec e x y W) in E. contradiction. Qed.
Lemma contains_true e x y : wf e -> erel e x y -> e_contains e x y = true.
Proof. intros W H. apply (e_contains_spec e x y W). exact H. Qed.

Theorem e_add_spec e x y : wf e ->
  wf (fst (e_add e x y)) /\ (forall a b, erel (fst (e_add e x y)) a b <-> joined e x y a b)
  /\ snd (e_add e x y) = negb (e_contains e x y).
Proof.
  intros W. destruct (wf_rank e W) as [rk Hr].
  destruct (elem_set_update_spec (subs e) rk (ids e) x Hr) as [A1 [A2 [A3 [A4 A5]]]].
  unfold e_add.
  destruct (elem_set_update (subs e) (ids e) x) as [xs sb1] eqn:E1. cbn [fst snd] in A1, A2, A3, A4, A5.
  destruct (elem_set_update_spec sb1 rk (ids e) y A2) as [B1 [B2 [B3 [B4 B5]]]].
  destruct (elem_set_update sb1 (ids e) y) as [ys sb2] eqn:E2. cbn [fst snd] in B1, B2, B3, B4, B5.
  assert (C1 : forall j r, chain (subs e) j r -> chain sb2 j r) by auto.
  assert (C4 : same_keys (subs e) sb2) by (intros j; rewrite (A4 j); apply B4).
  destruct (wf_resubs e sb2 rk W Hr C1 B2 C4) as [W2 Hc2].
  set (e2 := mkE (sets e) (ids e) sb2) in *.
  assert (Hrel : forall a b, erel e2 a b <-> erel e a b).
  { intros a b. rewrite (erel_cidr e2 _ _ W2), (erel_cidr e _ _ W). split; intros [d [H1 H2]]; exists d; split; apply Hc2; assumption. }
  assert (Hj : forall a b, joined e2 x y a b <-> joined e x y a b).
  { intros a b. unfold joined, cls. rewrite !Hrel. tauto. }
  assert (Hnone : forall z, zget z (ids e) = None -> forall b, ~ erel e z b /\ ~ erel e b z).
  { intros z Hz b. split; intros H.
    - destruct (erel_ment_l e z b H) as [id Hid]. rewrite Hz in Hid. discriminate.
    - destruct (erel_ment_r e b z W H) as [id Hid]. rewrite Hz in Hid. discriminate. }
  destruct (zget x (ids e)) as [idx|] eqn:Zx; destruct (zget y (ids e)) as [idy|] eqn:Zy.
  - destruct A5 as [dx [-> Hdx]]. destruct B5 as [dy [-> Hdy]].
    apply (chain_back (subs e) sb1 rk Hr A1) in Hdy.
    assert (Hcx : cidr e2 x dx) by (apply Hc2; exists idx; split; assumption).
    assert (Hcy : cidr e2 y dy) by (apply Hc2; exists idy; split; assumption).
    destruct (Nat.eqb_spec dx dy) as [->|Hne]; cbn [fst snd].
    + assert (Hxy : erel e x y) by (apply Hrel, (erel_cidr e2 x y W2); exists dy; split; assumption).
      split; [exact W2|]. split.
      * intros a b. rewrite <- Hj. apply joined_same; [exact W2|apply Hrel; exact Hxy].
      * rewrite (contains_true e x y W Hxy). reflexivity.
    + destruct (add_merge e2 dx dy W2 (cidr_root e2 x dx Hcx) (cidr_root e2 y dy Hcy) Hne
                 (cidr_lt e2 x dx W2 Hcx) (cidr_lt e2 y dy W2 Hcy)) as [W' Hcid].
      split; [exact W'|]. split.
      * intros a b. rewrite <- Hj. exact (joined_merge e2 _ x y dx dy W2 W' Hcx Hcy Hcid a b).
      * rewrite contains_false; [reflexivity|exact W|]. intros Hxy. apply Hrel, (erel_cidr e2 x y W2) in Hxy.
        destruct Hxy as [d [H1 H2]]. apply Hne. rewrite (cidr_fun e2 x dx d Hcx H1). apply (cidr_fun e2 y d dy H2 Hcy).
  - destruct A5 as [dx [-> Hdx]]. subst ys. cbn [fst snd].
    assert (Hcx : cidr e2 x dx) by (apply Hc2; exists idx; split; assumption).
    destruct (add_attach e2 y dx W2 Zy (cidr_root e2 x dx Hcx) (cidr_lt e2 x dx W2 Hcx)) as [W' Hcid].
    split; [exact W'|]. split.
    + intros a b. rewrite <- Hj, joined_comm. exact (joined_attach e2 _ y x dx W2 W' Zy Hcx Hcid a b).
    + rewrite contains_false; [reflexivity|exact W|]. apply (Hnone y Zy x).
  - subst xs. destruct B5 as [dy [-> Hdy]]. apply (chain_back (subs e) sb1 rk Hr A1) in Hdy. cbn [fst snd].
    assert (Hcy : cidr e2 y dy) by (apply Hc2; exists idy; split; assumption).
    destruct (add_attach e2 x dy W2 Zx (cidr_root e2 y dy Hcy) (cidr_lt e2 y dy W2 Hcy)) as [W' Hcid].
    split; [exact W'|]. split.
    + intros a b. rewrite <- Hj. exact (joined_attach e2 _ x y dy W2 W' Zx Hcy Hcid a b).
    + rewrite contains_false; [reflexivity|exact W|]. apply (Hnone x Zx y).
  - subst xs ys. cbn [fst snd].
    destruct (add_fresh e2 x y W2 Zx Zy) as [W' Hcid].
    split; [exact W'|]. split.
    + intros a b. rewrite <- Hj. exact (joined_fresh e2 _ x y _ W2 W' Zx Zy eq_refl Hcid a b).
    + rewrite contains_false; [reflexivity|exact W|]. apply (Hnone x Zx y).
Qed.

(* ------------------------------------------------------------------ iter_all *)
Lemma in_sets_setof e s : In s (sets e) -> exists i, i < length (sets e) /\ s = setof e i.
Proof. intros H. destruct (In_nth _ _ [] H) as [i [Hi Hs]]. exists i. split; [exact Hi|]. unfold setof. symmetry. exact Hs. Qed.

Lemma nonempty_root e i z : wf e -> In z (setof e i) -> nget i (subs e) = None.
Proof.
  intros W H. destruct (nget i (subs e)) as [p|] eqn:E; [|reflexivity].
  rewrite (wf_taken e W i p E) in H. destruct H.
Qed.

Lemma pairs_of_set_in (s : list Z) a b : In (a, b) (flat_map (fun x => map (fun y => (y, x)) s) s) <-> In a s /\ In b s.
Proof.
  rewrite in_flat_map. split.
  - intros [x [Hx H]]. apply in_map_iff in H. destruct H as [y [E Hy]]. injection E as <- <-. split; assumption.
  - intros [Ha Hb]. exists b. split; [exact Hb|]. apply in_map_iff. exists a. split; [reflexivity|exact Ha].
Qed.

Lemma e_iter_all_spec e a b : wf e -> (In (a, b) (e_iter_all e) <-> erel e a b).
Proof.
  intros W. unfold e_iter_all. rewrite in_flat_map. split.
  - intros [s [Hs H]]. apply pairs_of_set_in in H. destruct H as [Ha Hb].
    destruct (in_sets_setof e s Hs) as [i [Hi ->]].
    pose proof (nonempty_root e i a W Ha) as Hroot.
    apply (erel_cidr e a b W). exists i. split; apply (wf_own e W i); assumption.
  - intros H. apply (erel_cidr e a b W) in H. destruct H as [d [Ha Hb]].
    exists (setof e d). split.
    + unfold setof. apply nth_In. eapply cidr_lt; eassumption.
    + apply pairs_of_set_in. split; eapply cidr_in; eassumption.
Qed.

Lemma NoDup_map_inj {A B} (f : A -> B) l : (forall x y, f x = f y -> x = y) -> NoDup l -> NoDup (map f l).
Proof.
  intros Hf. induction 1 as [|a l Ha Hl IH]; cbn [map]; constructor; [|exact IH].
  intros H. apply in_map_iff in H. destruct H as [x [E Hx]]. apply Hf in E. subst. contradiction.
Qed.

Lemma NoDup_flat_map_disjoint {A B} (f : A -> list B) l :
  (forall a, In a l -> NoDup (f a)) -> NoDup l ->
  (forall a a' b, In a l -> In a' l -> In b (f a) -> In b (f a') -> a = a') -> NoDup (flat_map f l).
Proof.
  induction l as [|a l IH]; intros Hf Hl Hd; cbn [flat_map]; [constructor|].
  inversion Hl as [|a' l' Ha Hl']; subst.
  assert (Happ : forall (l1 l2 : list B), NoDup l1 -> NoDup l2 -> (forall b, In b l1 -> ~ In b l2) -> NoDup (l1 ++ l2)).
  { induction l1 as [|h t IHt]; intros l2 H1 H2 H12; cbn [app]; [exact H2|].
    inversion H1; subst. constructor.
    - rewrite in_app_iff. intros [Hi|Hi]; [contradiction|]. apply (H12 h); [left; reflexivity|exact Hi].
    - apply IHt; try assumption. intros b Hb. apply H12. right. exact Hb. }
  apply Happ.
  - apply Hf. left. reflexivity.
  - apply IH; [intros x Hx; apply Hf; right; exact Hx|exact Hl'|].
    intros x x' b Hx Hx'. apply Hd; right; assumption.
  - intros b Hb Hin. apply in_flat_map in Hin. destruct Hin as [x [Hx Hbx]].
    assert (a = x) by (apply (Hd a x b); [left; reflexivity|right; exact Hx|exact Hb|exact Hbx]). subst. contradiction.
Qed.

Lemma pairs_of_set_nodup (s : list Z) : NoDup s -> NoDup (flat_map (fun x => map (fun y => (y, x)) s) s).
Proof.
  intros H. apply NoDup_flat_map_disjoint; [| exact H |].
  - intros x _. apply NoDup_map_inj; [|exact H]. intros y y' E. injection E as ->. reflexivity.
  - intros x x' b _ _ H1 H2. apply in_map_iff in H1. apply in_map_iff in H2.
    destruct H1 as [y [<- _]]. destruct H2 as [y' [E _]]. injection E as _ ->. reflexivity.
Qed.

(* the sets of different ids are disjoint, so iter_all lists every pair once; empty (taken) sets contribute
   nothing, but they may repeat in `sets`: positions rather than sets are what is duplicate free *)
Lemma flat_map_nth_nodup {B} (f : list Z -> list B) (l : list (list Z)) :
  (forall i, NoDup (f (nth i l []))) -> f [] = [] ->
  (forall i j b, In b (f (nth i l [])) -> In b (f (nth j l [])) -> i = j) -> NoDup (flat_map f l).
Proof.
  revert f. induction l as [|s l IH]; intros f Hn He Hd; cbn [flat_map]; [constructor|].
  assert (Happ : forall (l1 l2 : list B), NoDup l1 -> NoDup l2 -> (forall b, In b l1 -> ~ In b l2) -> NoDup (l1 ++ l2)).
  { induction l1 as [|h t IHt]; intros l2 H1 H2 H12; cbn [app]; [exact H2|].
    inversion H1; subst. constructor.
    - rewrite in_app_iff. intros [Hi|Hi]; [contradiction|]. apply (H12 h); [left; reflexivity|exact Hi].
    - apply IHt; try assumption. intros b Hb. apply H12. right. exact Hb. }
  apply Happ.
  - exact (Hn 0).
  - apply IH; [intros i; exact (Hn (S i))|exact He|].
    intros i j b Hi Hj. assert (S i = S j) by (apply (Hd (S i) (S j) b); assumption). lia.
  - intros b Hb Hin. apply in_flat_map in Hin. destruct Hin as [x [Hx Hbx]].
    destruct (In_nth _ _ [] Hx) as [i [Hi Hnth]]. subst x.
    assert (0 = S i) by (apply (Hd 0 (S i) b); assumption). discriminate.
Qed.

Lemma e_iter_all_nodup e : wf e -> NoDup (e_iter_all e).
Proof.
  intros W. unfold e_iter_all. apply flat_map_nth_nodup.
  - intros i. apply pairs_of_set_nodup. apply (wf_nodup e W).
  - reflexivity.
  - intros i j [a b] Hi Hj. apply pairs_of_set_in in Hi. apply pairs_of_set_in in Hj.
    destruct Hi as [Hi _]. destruct Hj as [Hj _].
    change (nth i (sets e) []) with (setof e i) in Hi. change (nth j (sets e) []) with (setof e j) in Hj.
    eapply cidr_fun; [apply (wf_own e W i a (nonempty_root e i a W Hi) Hi)|apply (wf_own e W j a (nonempty_root e j a W Hj) Hj)].
Qed.

Print Assumptions e_add_spec.
