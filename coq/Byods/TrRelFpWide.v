(* C11 — fingerprints of the model's observation traces for observations wider than 63 bits.
   The key-heavy histories of the tie (gen/c11_ds.py, family "heavy": up to 32 keys over 2 node values, 14 keys over
   3) have up to 128 cells, so the bit masks of the tuples a view serves do not fit the 63-bit words TrRelFp.fp folds
   (Uint63.of_Z silently reduces modulo 2^63: cells >= 63 would not be compared).  Here a number >= 2^63 is folded as
   its three 63-bit limbs.  Used ONLY by the tie; no theorem depends on this file. *)
From Coq Require Import List ZArith Bool Uint63.
From AV Require Import Byods.TrRelModel.
From AV Require Import Byods.TrRelFp.
Import ListNotations.
Open Scope Z_scope.

Definition w63 : Z := Eval vm_compute in 2 ^ 63.

Definition limbs (v : Z) : list Z :=
  if v <? w63 then [v] else [v mod w63; (v / w63) mod w63; v / (w63 * w63)].

Definition fpw (l : list Z) : Uint63.int :=
  fold_left (fun h v => Uint63.add (Uint63.add (Uint63.mul h fp_mul) (Uint63.of_Z v)) fp_one) (flat_map limbs l) fp_init.

Definition fpw_steps (t : trace) : trace :=
  match t with
  | TOk s => TOk (map (fun l => [Uint63.to_Z (fpw l)]) s)
  | TErr s i => TErr (map (fun l => [Uint63.to_Z (fpw l)]) s) i
  end.

Definition fpw_hist (t : trace) : trace :=
  match fpw_steps t with
  | TOk s => TOk [[Uint63.to_Z (fpw (concat s))]]
  | TErr s i => TErr [[Uint63.to_Z (fpw (concat s))]] i
  end.
