(* C10 — BEFORE the repairs (commits 539a1e3, c6810ff, 187eab3 in /repo): the ternary structure with the old
   definitions of the merge (t_merge_old: the merged delta of a key is dropped; t_merge_protocol_old: the write
   view of the full index merges a second time) and of iter_all on columns [1,2] (tv_ind12_all_old: no
   equivalence test) does NOT meet the provider laws.  Kept as a record of what the laws caught; the witnesses are
   must-pass cases of the tie now (corpus/C10.jsonl).  Nothing here is about the current code. *)
From Coq Require Import List Arith Bool ZArith Lia.
From AV Require Import Byods.EqRelModel.
From AV Require Import Byods.Closure.
From AV Require Import Byods.Provider.
From AV Require Import Byods.EqRelProofs.
From AV Require Import Byods.Ternary.
From AV Require Import Byods.EqRelTernary.
Import ListNotations.
Open Scope Z_scope.

Definition tall_old (s : tstate) (v : ver) (ix : tix) : list (tview * list T3z) :=
  match ix with
  | TI12 => map (fun e => (TV12 (fst (fst e)) (snd (fst e)), map (fun k => (k, fst e)) (snd e))) (tv_ind12_all_old (tver s v))
  | _ => tall s v ix
  end.
Definition eqrel_ternary_before_fix (protocol : bool) : provider T3z :=
  {| St := tstate; p_init := t_init; p_ins := tins;
     p_merge := if protocol then t_merge_protocol_old else t_merge_old; p_restart := t_restart;
     p_read := fun s v => map tup (t_iter_all_added (tver s v));
     p_contains := fun s v t => t_contains (tver s v) (fst t) (fst (snd t)) (snd (snd t));
     View := tview; Ix := tix; p_get := tget; p_all := tall_old; v_sel := tsel; v_ix := tix_of |}.

Ltac in_list := vm_compute; repeat (first [left; reflexivity | right]).
Ltac notin_list H := vm_compute in H; repeat (destruct H as [H|H]; [discriminate H|]); try exact H.

(* F1: the fact (0,1,2), inserted for key 0 one round after (0,0,1), was served neither by total nor by delta *)
Definition h_f1 : list (pop T3z) := [PIns (0, (0, 1)); PMerge; PIns (0, (1, 2)); PMerge].
Lemma f1_in_closure : In (0, (1, 2)) (eqv3 (g_td T3z (ghost_of T3z h_f1))).
Proof. in_list. Qed.
Lemma f1_not_served : ~ In (0, (1, 2)) (served T3z (eqrel_ternary_before_fix false) (run T3z (eqrel_ternary_before_fix false) h_f1)).
Proof. intros H. notin_list H. Qed.
Theorem ternary_merge_refuted_before_fix : ~ provider_ok T3z (eqrel_ternary_before_fix false) eqv3.
Proof. intros H. destruct (ok_P2 T3z _ eqv3 H h_f1) as [_ H2]. exact (f1_not_served (H2 _ f1_in_closure)). Qed.

(* the second merge through the full-index write view moved what was inserted straight to total (law P3) *)
Definition h_twice : list (pop T3z) := [PIns (0, (1, 1)); PMerge].
Lemma twice_in_total : In (0, (1, 1)) (p_read T3z (eqrel_ternary_before_fix true) (run T3z (eqrel_ternary_before_fix true) h_twice) VTotal).
Proof. in_list. Qed.
Theorem ternary_protocol_refuted_before_fix : ~ provider_ok T3z (eqrel_ternary_before_fix true) eqv3.
Proof.
  intros H. destruct (ok_P3 T3z _ eqv3 H h_twice) as [H1 _]. specialize (H1 _ twice_in_total). vm_compute in H1. exact H1.
Qed.

(* iter_all of [1,2] served (1,0,1): 0 and 1 both mentioned under key 1 (2~0, 1~3) but not equivalent *)
Definition h_i12 : list (pop T3z) := [PIns (1, (2, 0)); PIns (1, (1, 3)); PMerge; PMerge].
Theorem ternary_i12_refuted_before_fix : forall b,
  exists l, In (TV12 0 1, l) (p_all T3z (eqrel_ternary_before_fix b) (run T3z (eqrel_ternary_before_fix b) h_i12) VTotal TI12) /\ In (1, (0, 1)) l
            /\ ~ In (1, (0, 1)) (served T3z (eqrel_ternary_before_fix b) (run T3z (eqrel_ternary_before_fix b) h_i12)).
Proof.
  intros b. exists [(1, (0, 1))]. split; [destruct b; in_list|]. split; [left; reflexivity|]. intros H. destruct b; notin_list H.
Qed.

(* the same histories on the repaired structure (instances of eqrel_ternary_provider_ok, computed) *)
Example repaired_serves_f1 : In (0, (1, 2)) (served T3z eqrel_ternary (run T3z eqrel_ternary h_f1)).
Proof. in_list. Qed.
Example repaired_delta_first : p_read T3z eqrel_ternary (run T3z eqrel_ternary h_twice) VTotal = []
  /\ In (0, (1, 1)) (p_read T3z eqrel_ternary (run T3z eqrel_ternary h_twice) VDelta).
Proof. split; [reflexivity|in_list]. Qed.

Print Assumptions ternary_merge_refuted_before_fix.
Print Assumptions ternary_protocol_refuted_before_fix.
