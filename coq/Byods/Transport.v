(* Transport of a provider along an encoding of its tuple type (shared by C10-C12).

   The engine model (Engine/EvalProv.v) speaks about providers over `tuple := list Z`; the proved providers speak
   about their own tuple types ((Z * Z), (Z * (Z * Z))).  Given an encoding `enc : T -> U` with a partial inverse
   `dec` (dec (enc t) = Some t; dec u = Some t -> enc t = u), a provider over T meeting the laws with closure `cl`
   becomes a provider over U meeting them with the image closure `tcl`:
     - well-shaped elements (dec u = Some t) go through the given provider;
     - ill-shaped elements (dec u = None: lists of the wrong length — never produced by a validated program, but
       the laws quantify over all histories) are kept in a plain duplicate-free set with the same
       new / delta / total protocol and are not selected by any keyed view; the closure leaves them alone. *)
From Coq Require Import List Bool Arith.
From AV Require Import Byods.Provider.
Import ListNotations.

Section Transport.
Variables T U : Type.
Variable P : provider T.
Variable cl : list T -> list T.
Variable enc : T -> U.
Variable dec : U -> option T.
Variable ueqb : U -> U -> bool.
Hypothesis Hdec1 : forall t, dec (enc t) = Some t.
Hypothesis Hdec2 : forall u t, dec u = Some t -> enc t = u.
Hypothesis Hueqb : forall a b, ueqb a b = true <-> a = b.
Hypothesis Hcl : closure_op T cl.
Hypothesis Hok : provider_ok T P cl.

Definition illb (u : U) : bool := match dec u with Some _ => false | None => true end.
Definition fm (l : list U) : list T := flat_map (fun u => match dec u with Some t => [t] | None => [] end) l.
Definition umem (u : U) (l : list U) : bool := existsb (ueqb u) l.
(* image closure: the closure on the decoded part, ill-shaped elements untouched *)
Definition tcl (l : list U) : list U := map enc (cl (fm l)) ++ filter illb l.

Lemma umem_spec u l : umem u l = true <-> In u l.
Proof.
  unfold umem. rewrite existsb_exists. split.
  - intros [x [Hx He]]. apply Hueqb in He. subst. exact Hx.
  - intros H. exists u. split; [exact H|apply Hueqb; reflexivity].
Qed.
Lemma enc_inj a b : enc a = enc b -> a = b.
Proof. intros E. pose proof (Hdec1 a) as Ha. rewrite E, Hdec1 in Ha. injection Ha as ->. reflexivity. Qed.
Lemma fm_in l t : In t (fm l) <-> In (enc t) l.
Proof.
  unfold fm. rewrite in_flat_map. split.
  - intros [u [Hu Ht]]. destruct (dec u) as [t'|] eqn:E; [|destruct Ht]. destruct Ht as [<-|[]]. rewrite (Hdec2 u t' E). exact Hu.
  - intros H. exists (enc t). split; [exact H|]. rewrite Hdec1. left. reflexivity.
Qed.
Lemma fm_app l1 l2 : fm (l1 ++ l2) = fm l1 ++ fm l2.
Proof. unfold fm. apply flat_map_app. Qed.
Lemma fm_one u : fm [u] = match dec u with Some t => [t] | None => [] end.
Proof. unfold fm. cbn [flat_map]. rewrite app_nil_r. reflexivity. Qed.
Lemma in_map_enc t l : In (enc t) (map enc l) <-> In t l.
Proof. split; [intros H; apply in_map_iff in H; destruct H as [t' [E H]]; apply enc_inj in E; subst; exact H|apply in_map]. Qed.
Lemma illb_enc t : illb (enc t) = false.
Proof. unfold illb. rewrite Hdec1. reflexivity. Qed.
Lemma tcl_in u l : In u (tcl l) <-> (exists t, dec u = Some t /\ In t (cl (fm l))) \/ (dec u = None /\ In u l).
Proof.
  unfold tcl. rewrite in_app_iff, in_map_iff, filter_In. unfold illb. split.
  - intros [[t [<- Ht]]|[Hu Hi]]; [left; exists t; split; [apply Hdec1|exact Ht]|].
    right. destruct (dec u); [discriminate|]. split; [reflexivity|exact Hu].
  - intros [[t [E Ht]]|[E Hu]]; [left; exists t; split; [apply Hdec2; exact E|exact Ht]|right; rewrite E; split; [exact Hu|reflexivity]].
Qed.

Theorem tcl_closure_op : closure_op U tcl.
Proof.
  constructor.
  - intros s u Hu. apply tcl_in. destruct (dec u) as [t|] eqn:E; [left; exists t; split; [reflexivity|]|right; split; [reflexivity|exact Hu]].
    apply (cl_ext T cl Hcl). apply fm_in. rewrite (Hdec2 u t E). exact Hu.
  - intros s s' Hi u Hu. apply tcl_in. apply tcl_in in Hu. destruct Hu as [[t [E Ht]]|[E Hu]]; [left; exists t; split; [exact E|]|right; split; [exact E|apply Hi; exact Hu]].
    eapply (cl_mono T cl Hcl); [|exact Ht]. intros x Hx. apply fm_in. apply Hi. apply fm_in. exact Hx.
  - intros s u Hu. apply tcl_in. apply tcl_in in Hu. destruct Hu as [[t [E Ht]]|[E Hu]].
    + left. exists t. split; [exact E|]. apply (cl_idem T cl Hcl). eapply (cl_mono T cl Hcl); [|exact Ht].
      intros x Hx. apply fm_in in Hx. apply tcl_in in Hx. destruct Hx as [[t' [E' Ht']]|[E' _]]; [|rewrite Hdec1 in E'; discriminate].
      rewrite Hdec1 in E'. injection E' as <-. exact Ht'.
    + right. split; [exact E|]. apply tcl_in in Hu. destruct Hu as [[t [E' _]]|[_ Hu]]; [congruence|exact Hu].
  - unfold tcl. cbn. rewrite (cl_nil T cl Hcl). reflexivity.
Qed.

(* ------------------------------------------------------------------ the transported provider *)
Record tst := mkTst { ts_p : St T P; jn : list U; jd : list U; jt : list U }.
Definition jver (s : tst) (v : ver) : list U := match v with VTotal => jt s | VDelta => jd s end.
Definition t_ins (s : tst) (u : U) : tst * bool :=
  match dec u with
  | Some t => let r := p_ins T P (ts_p s) t in (mkTst (fst r) (jn s) (jd s) (jt s), snd r)
  | None => if umem u (jn s) then (s, false) else (mkTst (ts_p s) (jn s ++ [u]) (jd s) (jt s), true)
  end.
Definition t_merge (s : tst) : tst :=
  mkTst (p_merge T P (ts_p s)) [] (filter (fun u => negb (umem u (jt s ++ jd s))) (jn s)) (jt s ++ jd s).
Definition t_restart (s : tst) : tst := mkTst (p_restart T P (ts_p s)) [] (jt s) [].
Definition t_read (s : tst) (v : ver) : list U := map enc (p_read T P (ts_p s) v) ++ jver s v.
Definition t_contains (s : tst) (v : ver) (u : U) : bool :=
  match dec u with Some t => p_contains T P (ts_p s) v t | None => umem u (jver s v) end.
Definition t_sel (vk : View T P) (u : U) : bool := match dec u with Some t => v_sel T P vk t | None => false end.
Definition transport : provider U :=
  {| St := tst; p_init := mkTst (p_init T P) [] [] [];
     p_ins := t_ins; p_merge := t_merge; p_restart := t_restart; p_read := t_read; p_contains := t_contains;
     View := View T P; Ix := Ix T P;
     p_get := fun s v vk => option_map (map enc) (p_get T P (ts_p s) v vk);
     p_all := fun s v ix => map (fun e => (fst e, map enc (snd e))) (p_all T P (ts_p s) v ix);
     v_sel := t_sel; v_ix := v_ix T P |}.

(* the well-shaped part of a history *)
Definition hdec1 (o : pop U) : list (pop T) :=
  match o with
  | PIns u => match dec u with Some t => [PIns t] | None => [] end
  | PMerge => [PMerge]
  | PRestart => [PRestart]
  end.
Definition hdec (h : list (pop U)) : list (pop T) := flat_map hdec1 h.

Definition ills (l : list U) (u : U) : Prop := dec u = None /\ In u l.
Record tinvt (h : list (pop U)) (s : tst) : Prop := {
  tv_p : ts_p s = run T P (hdec h);
  tv_g : fm (g_t U (ghost_of U h)) = g_t T (ghost_of T (hdec h))
         /\ fm (g_td U (ghost_of U h)) = g_td T (ghost_of T (hdec h))
         /\ fm (g_new U (ghost_of U h)) = g_new T (ghost_of T (hdec h));
  tv_n : forall u, In u (jn s) <-> ills (g_new U (ghost_of U h)) u;
  tv_t : forall u, In u (jt s) <-> ills (g_t U (ghost_of U h)) u;
  tv_td : forall u, In u (jt s ++ jd s) <-> ills (g_td U (ghost_of U h)) u;
  tv_ndn : NoDup (jn s);
  tv_nd : NoDup (jt s ++ jd s) }.

Lemma runU_snoc h o : run U transport (h ++ [o]) = step U transport (run U transport h) o.
Proof. unfold run. rewrite fold_left_app. reflexivity. Qed.
Lemma ghostU_snoc h o : ghost_of U (h ++ [o]) = ghost_step U (ghost_of U h) o.
Proof. unfold ghost_of. rewrite fold_left_app. reflexivity. Qed.
Lemma hdec_snoc h o : hdec (h ++ [o]) = hdec h ++ hdec1 o.
Proof. unfold hdec. rewrite flat_map_app. cbn [flat_map]. rewrite app_nil_r. reflexivity. Qed.
Lemma runT_app h1 h2 : run T P (h1 ++ h2) = fold_left (step T P) h2 (run T P h1).
Proof. unfold run. apply fold_left_app. Qed.
Lemma ghostT_app h1 h2 : ghost_of T (h1 ++ h2) = fold_left (ghost_step T) h2 (ghost_of T h1).
Proof. unfold ghost_of. apply fold_left_app. Qed.

Lemma nodup_snoc (u : U) l : NoDup l -> ~ In u l -> NoDup (l ++ [u]).
Proof.
  induction l as [|a l IH]; intros Hn Hu; cbn [app]; [constructor; [intros []|constructor]|].
  inversion Hn; subst. constructor.
  - rewrite in_app_iff. cbn [In]. intros [H|[H|[]]]; [contradiction|]. subst. apply Hu. left. reflexivity.
  - apply IH; [assumption|]. intros H. apply Hu. right. exact H.
Qed.
Lemma nodup_app_filter (l1 l2 : list U) : NoDup l1 -> NoDup l2 -> NoDup (l1 ++ filter (fun u => negb (umem u l1)) l2).
Proof.
  intros H1 H2. induction l1 as [|a l1 IH] in H1 |- *.
  - cbn [app]. apply NoDup_filter. exact H2.
  - assert (Hgen : forall (la lb : list U), NoDup la -> NoDup lb -> (forall x, In x la -> ~ In x lb) -> NoDup (la ++ lb)).
    { induction la as [|h t IHt]; intros lb Ha Hb Hd; cbn [app]; [exact Hb|]. inversion Ha; subst. constructor.
      - rewrite in_app_iff. intros [Hi|Hi]; [contradiction|]. apply (Hd h); [left; reflexivity|exact Hi].
      - apply IHt; try assumption. intros x Hx. apply Hd. right. exact Hx. }
    apply Hgen; [exact H1|apply NoDup_filter; exact H2|].
    intros x Hx Hf. apply filter_In in Hf. destruct Hf as [_ Hf]. apply negb_true_iff in Hf.
    assert (umem x (a :: l1) = true) by (apply umem_spec; exact Hx). congruence.
Qed.

Lemma tinvt_run h : tinvt h (run U transport h).
Proof.
  induction h as [|o h IH] using rev_ind.
  - constructor; cbn; [reflexivity|repeat split; reflexivity|intros u; unfold ills; cbn; tauto|intros u; unfold ills; cbn; tauto|intros u; unfold ills; cbn; tauto|constructor|constructor].
  - rewrite runU_snoc. destruct IH as [Ip [Ig1 [Ig2 Ig3]] Jn Jt Jtd Jndn Jnd]. set (s := run U transport h) in *.
    destruct o as [u| |]; cbn [step p_ins p_merge p_restart transport].
    + unfold t_ins. destruct (dec u) as [t|] eqn:E.
      * constructor; cbn [fst ts_p jn jd jt]; rewrite ?ghostU_snoc, ?hdec_snoc; cbn [hdec1 ghost_step g_t g_td g_new]; rewrite ?E; try assumption.
        -- rewrite runT_app. cbn [fold_left step]. rewrite Ip. reflexivity.
        -- rewrite ghostT_app. cbn [fold_left ghost_step g_t g_td g_new]. rewrite fm_app, fm_one, E.
           split; [exact Ig1|split; [exact Ig2|rewrite Ig3; reflexivity]].
        -- intros x. rewrite Jn. unfold ills. rewrite in_app_iff. cbn [In]. split; [intros [H1 H2]; split; [exact H1|left; exact H2]|].
           intros [H1 [H2|[H2|[]]]]; [split; assumption|subst; congruence].
      * destruct (umem u (jn s)) eqn:Em.
        -- cbn [fst]. constructor; rewrite ?ghostU_snoc, ?hdec_snoc; cbn [hdec1 ghost_step g_t g_td g_new]; rewrite ?E, ?app_nil_r; try assumption.
           ++ rewrite fm_app, fm_one, E, !app_nil_r. split; [exact Ig1|split; [exact Ig2|exact Ig3]].
           ++ intros x. rewrite Jn. unfold ills. rewrite in_app_iff. cbn [In]. split; [intros [H1 H2]; split; [exact H1|left; exact H2]|].
              intros [H1 [H2|[H2|[]]]]; [split; assumption|subst x]. apply Jn. apply umem_spec. exact Em.
        -- cbn [fst]. constructor; cbn [ts_p jn jd jt]; rewrite ?ghostU_snoc, ?hdec_snoc; cbn [hdec1 ghost_step g_t g_td g_new]; rewrite ?E, ?app_nil_r; try assumption.
           ++ rewrite fm_app, fm_one, E, !app_nil_r. split; [exact Ig1|split; [exact Ig2|exact Ig3]].
           ++ intros x. rewrite !in_app_iff. cbn [In]. rewrite Jn. unfold ills. rewrite in_app_iff. cbn [In]. split.
              ** intros [[H1 H2]|[<-|[]]]; [split; [exact H1|left; exact H2]|split; [exact E|right; left; reflexivity]].
              ** intros [H1 [H2|[H2|[]]]]; [left; split; assumption|right; left; exact H2].
           ++ apply nodup_snoc; [exact Jndn|]. intros H. apply umem_spec in H. congruence.
    + unfold t_merge. constructor; cbn [ts_p jn jd jt]; rewrite ?ghostU_snoc, ?hdec_snoc; cbn [hdec1 ghost_step g_t g_td g_new].
      * rewrite runT_app. cbn [fold_left step]. rewrite Ip. reflexivity.
      * rewrite ghostT_app. cbn [fold_left ghost_step g_t g_td g_new]. rewrite fm_app, Ig2, Ig3. repeat split; reflexivity.
      * intros x. unfold ills. cbn [In]. tauto.
      * exact Jtd.
      * intros x. rewrite in_app_iff, filter_In, negb_true_iff, Jtd, Jn. unfold ills. rewrite in_app_iff. split.
        -- intros [[H1 H2]|[[H1 H2] _]]; (split; [exact H1|]); [left|right]; exact H2.
        -- intros [H1 [H2|H2]]; [left; split; assumption|].
           destruct (umem x (jt s ++ jd s)) eqn:Em; [left; apply Jtd, umem_spec; exact Em|right; split; [split; assumption|reflexivity]].
      * constructor.
      * apply nodup_app_filter; assumption.
    + unfold t_restart. constructor; cbn [ts_p jn jd jt]; rewrite ?ghostU_snoc, ?hdec_snoc; cbn [hdec1 ghost_step g_t g_td g_new].
      * rewrite runT_app. cbn [fold_left step]. rewrite Ip. reflexivity.
      * rewrite ghostT_app. cbn [fold_left ghost_step g_t g_td g_new]. rewrite Ig1. repeat split; reflexivity.
      * intros x. unfold ills. cbn [In]. tauto.
      * intros x. unfold ills. cbn [In]. tauto.
      * intros x. cbn [app]. apply Jt.
      * constructor.
      * cbn [app]. clear -Jnd. induction (jt s) as [|a l IHl]; [constructor|]. cbn [app] in Jnd. inversion Jnd; subst.
        constructor; [intros H; apply H1; apply in_or_app; left; exact H|apply IHl; assumption].
Qed.

Section AtStateT.
Variable h : list (pop U).
Let s := run U transport h.
Let J : tinvt h s := tinvt_run h.

Lemma junk_ill v u : In u (jver s v) -> dec u = None.
Proof.
  destruct v; cbn [jver]; intros H.
  - apply (tv_t h s J) in H. apply H.
  - assert (H' : In u (jt s ++ jd s)) by (apply in_or_app; right; exact H). apply (tv_td h s J) in H'. apply H'.
Qed.
Lemma tread_in v u : In u (t_read s v) <->
  (exists t, dec u = Some t /\ In t (p_read T P (run T P (hdec h)) v)) \/ (dec u = None /\ In u (jver s v)).
Proof.
  unfold t_read. rewrite in_app_iff, in_map_iff, (tv_p h s J). split.
  - intros [[t [<- Ht]]|Hj]; [left; exists t; split; [apply Hdec1|exact Ht]|right; split; [eapply junk_ill; exact Hj|exact Hj]].
  - intros [[t [E Ht]]|[_ Hj]]; [left; exists t; split; [apply Hdec2; exact E|exact Ht]|right; exact Hj].
Qed.
Lemma tread_enc v t : In (enc t) (t_read s v) <-> In t (p_read T P (run T P (hdec h)) v).
Proof.
  rewrite tread_in. split.
  - intros [[t' [E Ht]]|[E _]]; rewrite Hdec1 in E; [injection E as <-; exact Ht|discriminate].
  - intros H. left. exists t. split; [apply Hdec1|exact H].
Qed.
Lemma tserved_in u : In u (served U transport s) <->
  (exists t, dec u = Some t /\ In t (served T P (run T P (hdec h)))) \/ (dec u = None /\ In u (jt s ++ jd s)).
Proof.
  unfold served. cbn [p_read transport]. rewrite in_app_iff, !tread_in. cbn [jver]. unfold served. rewrite !in_app_iff.
  split.
  - intros [[H|H]|[H|H]].
    + destruct H as [t [E H]]. left. exists t. split; [exact E|apply in_or_app; left; exact H].
    + destruct H as [E H]. right. split; [exact E|left; exact H].
    + destruct H as [t [E H]]. left. exists t. split; [exact E|apply in_or_app; right; exact H].
    + destruct H as [E H]. right. split; [exact E|right; exact H].
  - intros [H|H].
    + destruct H as [t [E H]]. apply in_app_or in H. destruct H as [H|H]; [left|right]; left; exists t; split; assumption.
    + destruct H as [E [H|H]]; [left|right]; right; split; assumption.
Qed.
End AtStateT.

Theorem transport_provider_ok : provider_ok U transport tcl.
Proof.
  constructor.
  - (* P1 *)
    intros h u s'. cbn [p_ins transport]. unfold t_ins. pose proof (tinvt_run h) as J. destruct (dec u) as [t|] eqn:E.
    + intros Hi. injection Hi as _ Hb. apply tcl_in. left. exists t. split; [exact E|].
      destruct (tv_g h _ J) as [_ [_ E3]]. rewrite E3. rewrite (tv_p h _ J) in Hb.
      destruct (p_ins T P (run T P (hdec h)) t) as [s2 b] eqn:Ei. cbn [snd] in Hb. subst b.
      exact (ok_P1 T P cl Hok (hdec h) t s2 Ei).
    + destruct (umem u (jn (run U transport h))) eqn:Em; intros Hi; [|discriminate].
      apply tcl_in. right. split; [exact E|]. apply umem_spec in Em. apply (tv_n h _ J) in Em. apply Em.
  - (* P2 *)
    intros h. pose proof (tinvt_run h) as J. destruct (tv_g h _ J) as [_ [E2 _]].
    split; intros u Hu.
    + apply tcl_in. apply tserved_in in Hu. destruct Hu as [[t [E Ht]]|[E Hj]].
      * left. exists t. split; [exact E|]. rewrite E2. apply (ok_P2 T P cl Hok (hdec h)). exact Ht.
      * right. apply (tv_td h _ J) in Hj. exact Hj.
    + apply tserved_in. apply tcl_in in Hu. destruct Hu as [[t [E Ht]]|[E Hj]].
      * left. exists t. split; [exact E|]. rewrite E2 in Ht. apply (ok_P2 T P cl Hok (hdec h)). exact Ht.
      * right. split; [exact E|]. apply (tv_td h _ J). split; assumption.
  - (* P3 *)
    intros h. pose proof (tinvt_run h) as J. destruct (tv_g h _ J) as [E1 _]. cbn [p_read transport].
    split; intros u Hu.
    + apply tcl_in. apply tread_in in Hu. destruct Hu as [[t [E Ht]]|[E Hj]].
      * left. exists t. split; [exact E|]. rewrite E1. apply (ok_P3 T P cl Hok (hdec h)). exact Ht.
      * right. cbn [jver] in Hj. apply (tv_t h _ J) in Hj. exact Hj.
    + apply tread_in. apply tcl_in in Hu. destruct Hu as [[t [E Ht]]|[E Hj]].
      * left. exists t. split; [exact E|]. rewrite E1 in Ht. apply (ok_P3 T P cl Hok (hdec h)). exact Ht.
      * right. split; [exact E|]. cbn [jver]. apply (tv_t h _ J). split; assumption.
  - (* P4 get complete *)
    intros h v vk u Hin Hsel. cbn [p_read p_get v_sel transport] in *. unfold t_sel in Hsel.
    destruct (dec u) as [t|] eqn:E; [|discriminate]. rewrite <- (Hdec2 u t E) in *. apply tread_enc in Hin.
    destruct (ok_P4_get_complete T P cl Hok (hdec h) v vk t Hin Hsel) as [l [Hg Hl]].
    rewrite (tv_p h _ (tinvt_run h)), Hg. cbn [option_map]. exists (map enc l). split; [reflexivity|apply in_map; exact Hl].
  - (* P4 get sound *)
    intros h v vk l u Hg Hin. cbn [p_get v_sel transport] in *. rewrite (tv_p h _ (tinvt_run h)) in Hg.
    destruct (p_get T P (run T P (hdec h)) v vk) as [l0|] eqn:E; [|discriminate]. injection Hg as <-.
    apply in_map_iff in Hin. destruct Hin as [t [<- Ht]]. destruct (ok_P4_get_sound T P cl Hok (hdec h) v vk l0 t E Ht) as [Hs Hsv].
    unfold t_sel. rewrite Hdec1. split; [exact Hs|]. apply tserved_in. left. exists t. split; [apply Hdec1|exact Hsv].
  - (* P4 all complete *)
    intros h v vk u Hin Hsel. cbn [p_read p_all v_sel v_ix transport] in *. unfold t_sel in Hsel.
    destruct (dec u) as [t|] eqn:E; [|discriminate]. rewrite <- (Hdec2 u t E) in *. apply tread_enc in Hin.
    destruct (ok_P4_all_complete T P cl Hok (hdec h) v vk t Hin Hsel) as [l [He Hl]].
    exists (map enc l). split; [|apply in_map; exact Hl]. apply in_map_iff. exists (vk, l). split; [reflexivity|].
    rewrite (tv_p h _ (tinvt_run h)). exact He.
  - (* P4 all sound *)
    intros h v ix vk l u He Hin. cbn [p_all v_sel v_ix transport] in *. rewrite (tv_p h _ (tinvt_run h)) in He.
    apply in_map_iff in He. destruct He as [[vk0 l0] [E He]]. cbn [fst snd] in E. injection E as <- <-.
    apply in_map_iff in Hin. destruct Hin as [t [<- Ht]].
    destruct (ok_P4_all_sound T P cl Hok (hdec h) v ix vk0 l0 t He Ht) as [Hix [Hs Hsv]].
    split; [exact Hix|]. unfold t_sel. rewrite Hdec1. split; [exact Hs|]. apply tserved_in. left. exists t. split; [apply Hdec1|exact Hsv].
  - (* lookups in total are duplicate free *)
    intros h vk l Hg. cbn [p_get transport] in Hg. rewrite (tv_p h _ (tinvt_run h)) in Hg.
    destruct (p_get T P (run T P (hdec h)) VTotal vk) as [l0|] eqn:E; [|discriminate]. injection Hg as <-.
    pose proof (ok_P4_total_nodup T P cl Hok (hdec h) vk l0 E) as Hn. clear E.
    induction Hn as [|a l0 Ha Hl IH]; cbn [map]; constructor; [|exact IH]. intros H. apply in_map_enc in H. contradiction.
  - (* P5 *)
    intros h v u. cbn [p_contains p_read transport]. unfold t_contains. rewrite tread_in.
    destruct (dec u) as [t|] eqn:E.
    + rewrite (tv_p h _ (tinvt_run h)), (ok_P5 T P cl Hok (hdec h) v t). split.
      * intros H. left. exists t. split; [reflexivity|exact H].
      * intros [[t' [E' H]]|[E' _]]; [injection E' as <-; exact H|discriminate].
    + rewrite umem_spec. split; [intros H; right; split; [reflexivity|exact H]|intros [[t [E' _]]|[_ H]]; [discriminate|exact H]].
Qed.

(* the image closure keeps any property that every code has (used for the arity) *)
Lemma tcl_pres (Q : U -> Prop) : (forall t, Q (enc t)) -> forall l u, (forall x, In x l -> Q x) -> In u (tcl l) -> Q u.
Proof.
  intros Hq l u Hl Hu. apply tcl_in in Hu. destruct Hu as [[t [E _]]|[_ Hu]]; [rewrite <- (Hdec2 u t E); apply Hq|apply Hl; exact Hu].
Qed.
End Transport.
