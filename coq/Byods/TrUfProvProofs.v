(* C12 — proofs about the model of the trrel_uf provider (Byods/TrUfProvModel.v).

   Part 1  definitions used by the property statements: final state of a history, the protocol grammar,
           a checker of provider law P3 on the observations of a history.
   Part 2  computed witnesses for the five defects of the faithful model (statements in Props/C12.v).
   Part 3  the binary provider never raises one of ITS OWN panics (assert!(total.is_empty()),
           "expected Delta", "expected Total", "unexpected New", unwrap_new_mut's assert) on any sequence of
           operations: shape invariant  delta is Total-shaped -> total is the empty Total.
   Part 4  exactness of the non-recursive use, unconditionally (through the C18 theorems): after
           `start; inserts; merge` the delta version, and after one more merge the total version, is a
           TrRelUnionFind satisfying C18's invariant for exactly the inserted pairs, so every view of it
           serves exactly the reflexive transitive closure and no operation fails. *)
From Coq Require Import List Arith Bool Lia ZArith.
From AV Require Import UF.UfBase.
From AV Require Import UF.TrUfModel.
From AV Require Import UF.TrUfInv.
From AV Require Import UF.TrUfLemmas.
From AV Require Import UF.TrUfQueries.
From AV Require Import UF.TrUfCases.
From AV Require Import UF.TrUfProofs.
From AV Require Import Byods.TrUfProvModel.
Import ListNotations.

(* ================================================================== Part 1: definitions *)

(* the state after a history (no observation), or the first error *)
Fixpoint run_state {St} (P : prov St) (st : pstate St) (ops : list op) : res (pstate St) :=
  match ops with
  | [] => Ok st
  | o :: rest => do (st1, _) <- step P st o; run_state P st1 rest
  end.

(* the grammar of compile_mir_scc: strata  s (insert* m)+ e *)
Fixpoint protocol_from (inside merged : bool) (ops : list op) : bool :=
  match ops with
  | [] => negb inside
  | OStart :: r => negb inside && protocol_from true false r
  | OEnd :: r => inside && merged && protocol_from false false r
  | OMerge :: r => inside && protocol_from true true r
  | OIns _ _ _ :: r => inside && protocol_from true false r
  | OHead _ _ _ :: r => inside && protocol_from true false r
  end.
Definition protocol_ok (ops : list op) : bool := protocol_from false false ops.

Definition vtuples (v : view) : list (list nat) := fst (fst v).
Definition incl_b (a b : list (list nat)) : bool := forallb (fun t => lmem t b) a.

(* provider law P3, per view, in the form the semi-naive argument needs: what total serves after a merge was served by total
   or delta before it, or is served by delta now (then the delta variants of the coming iteration cover it) *)
Fixpoint p3_check (ops : list op) (items : list item) (prev : option (list view * list view)) : bool :=
  match ops, items with
  | o :: ops', it :: items' =>
    match o, it with
    | OStart, RRead d t => p3_check ops' items' (Some (d, t))
    | OMerge, RRead d t =>
      match prev with
      | Some (pd, pt) =>
        forallb (fun x => incl_b (vtuples (fst (fst x))) (vtuples (snd (fst x)) ++ vtuples (snd (snd x)) ++ vtuples (fst (snd x))))
                (combine (combine t d) (combine pd pt))
      | None => true
      end && p3_check ops' items' (Some (d, t))
    | _, _ => p3_check ops' items' prev
    end
  | _, _ => true
  end.

(* the literal form of P3 (DESIGN 5/C10): total after the merge within total + delta BEFORE it.  It fails on the repaired provider,
   and must: an element mentioned for the first time becomes a node of total in the very merge that also serves its reflexive pair as
   delta, so the pair is readable from total and from delta in the same round (wit_f10_literal below).  The semi-naive argument only
   needs the weaker [p3_check]: a tuple that is new in total and served by delta at the same read is covered by the delta variants
   of the coming iteration. *)
Fixpoint p3_literal_check (ops : list op) (items : list item) (prev : option (list view * list view)) : bool :=
  match ops, items with
  | o :: ops', it :: items' =>
    match o, it with
    | OStart, RRead d t => p3_literal_check ops' items' (Some (d, t))
    | OMerge, RRead d t =>
      match prev with
      | Some (pd, pt) =>
        forallb (fun x => incl_b (vtuples (fst x)) (vtuples (snd (snd x)) ++ vtuples (fst (snd x)))) (combine t (combine pd pt))
      | None => true
      end && p3_literal_check ops' items' (Some (d, t))
    | _, _ => p3_literal_check ops' items' prev
    end
  | _, _ => true
  end.

Definition has_panic (e : err) (items : list item) : bool :=
  existsb (fun it => match it with RPanic _ e' => Z.eqb (err_code e) (err_code e') | _ => false end) items.

(* the tuples a version serves through view number i of the observation *)
Definition served (i : nat) (vs : list view) : list (list nat) := match nth_error vs i with Some v => vtuples v | None => [] end.
Definition last_read (items : list item) : list view * list view :=
  fold_left (fun acc it => match it with RRead d t => (d, t) | _ => acc end) items ([], []).

(* ================================================================== Part 2: the witnesses of the five repaired defects
   (each refuted the property on the model of the code before the repair: Byods/TrUfProvBeforeFix.v) now pass *)

(* F10: s; (0,1); m; (1,2); m -- (2,2) becomes readable from total in the second merge AND is served by that merge's delta *)
Definition wit_f10 : list op := [OStart; OHead 0 0 1; OMerge; OHead 0 1 2; OMerge; OMerge; OEnd].
Lemma wit_f10_passes : protocol_ok wit_f10 = true /\ p3_check wit_f10 (run_bin 3 wit_f10) None = true /\
  (let '(d, t) := last_read (run_bin 3 (firstn 5 wit_f10)) in lmem [2; 2] (served 0 d) = true /\ lmem [2; 2] (served 0 t) = true).
Proof. vm_compute. repeat split; reflexivity. Qed.

Lemma wit_f10_literal : protocol_ok wit_f10 = true /\ p3_check wit_f10 (run_bin 3 wit_f10) None = true /\
  p3_literal_check wit_f10 (run_bin 3 wit_f10) None = false.
Proof. vm_compute. repeat split; reflexivity. Qed.

(* F5: key 0 receives a fact, pauses for one merge, receives another one *)
Definition wit_f5 : list op := [OStart; OHead 0 0 1; OMerge; OMerge; OHead 0 1 2; OMerge; OMerge; OEnd].
Definition any_panic (items : list item) : bool := existsb (fun it => match it with RPanic _ _ => true | _ => false end) items.
Lemma wit_f5_passes : protocol_ok wit_f5 = true /\ any_panic (run_ter false false 3 1 wit_f5) = false
                     /\ any_panic (run_ter true true 3 1 wit_f5) = false /\
  length (served 0 (snd (last_read (run_ter true true 3 1 wit_f5)))) = 6.
Proof. vm_compute. repeat split; reflexivity. Qed.

(* reverse maps: after inserting (0,0,1), index [1] (view 8) serves (0,1,1) like index [0,1] (view 4) *)
Definition wit_rev : list op := [OStart; OHead 0 0 1; OMerge; OMerge; OEnd].
Lemma wit_rev_passes : protocol_ok wit_rev = true /\
  let '(d, t) := last_read (run_ter true true 3 1 wit_rev) in
  lmem [0; 1; 1] (served 4 t) = true /\ lmem [0; 1; 1] (served 8 t) = true /\ lmem [0; 0; 0] (served 10 t) = true.
Proof. vm_compute. repeat split; reflexivity. Qed.

(* len_estimate of index [1,2] on an empty relation *)
Lemma wit_len_estimate_passes : t_i12_len_estimate (t_default true true) = Ok 0.
Proof. reflexivity. Qed.

(* a key of delta.map receives only the reflexive pair of a new element *)
Definition wit_drop : list op := [OStart; OHead 0 0 0; OMerge; OHead 0 1 1; OMerge; OMerge; OEnd].
Lemma wit_drop_passes : protocol_ok wit_drop = true /\ any_panic (run_ter true true 2 1 wit_drop) = false
                       /\ any_panic (run_ter false false 2 1 wit_drop) = false.
Proof. vm_compute. repeat split; reflexivity. Qed.

(* a non-trivial instance that runs to the end: a chain, then a back edge that collapses three classes *)
Definition wit_cycle : list op := [OStart; OHead 0 0 1; OHead 0 1 2; OMerge; OHead 0 2 0; OMerge; OMerge; OEnd].
Lemma wit_cycle_runs : protocol_ok wit_cycle = true /\ any_panic (run_bin 3 wit_cycle) = false /\
  p3_check wit_cycle (run_bin 3 wit_cycle) None = true /\
  length (served 0 (snd (last_read (run_bin 3 wit_cycle)))) = 9.
Proof. vm_compute. repeat split; reflexivity. Qed.

(* ================================================================== Part 4: the non-recursive use is exact *)

Lemma mapM_total : forall A B (f : A -> res B) l,
  (forall a, In a l -> exists b, f a = Ok b) -> exists bs, mapM f l = Ok bs.
Proof.
  induction l as [|h l IH]; cbn; intros H; [eexists; reflexivity|].
  destruct (H h (or_introl eq_refl)) as [b Hb]. rewrite Hb. cbn.
  destruct IH as [bs Hbs]; [intros a Ha; apply H; now right|]. rewrite Hbs. cbn. eexists; reflexivity.
Qed.

(* what it means for one version (delta or total) to serve exactly the closure of E through the methods of
   ByodsBinRel that the index views are made of *)
Definition exact_version (E : list (nat * nat)) (c : common) : Prop :=
  (forall x y, exists b, c_contains c x y = Ok b /\ (b = true <-> rtc E x y)) /\
  (exists l, c_iter_all c = Ok l /\ NoDup l /\ forall x y, In (x, y) l <-> rtc E x y) /\
  (forall x, exists o, c_ind_get false c x = Ok o /\ (o = None <-> ~ mentioned E x) /\
             forall l, o = Some l -> NoDup l /\ forall y, In y l <-> rtc E x y) /\
  (forall x, exists o, c_ind_get true c x = Ok o /\ (o = None <-> ~ mentioned E x) /\
             forall l, o = Some l -> NoDup l /\ forall y, In y l <-> rtc E y x) /\
  (exists l, c_ind_iter_all false c = Ok l /\ (forall x, In x (map fst l) <-> mentioned E x) /\
             forall x ys, In (x, ys) l -> forall y, In y ys <-> rtc E x y) /\
  (exists l, c_ind_iter_all true c = Ok l /\ (forall x, In x (map fst l) <-> mentioned E x) /\
             forall x ys, In (x, ys) l -> forall y, In y ys <-> rtc E y x).

Lemma ind_iter_all_total : forall (P : nat -> Prop) E st (H : tinvP P E st) (rev : bool),
  let m := if rev then t_rev st else t_conn st in
  mapM (fun kv => do l <- by_set_id st m (snd kv); Ok (fst kv, l)) (t_ids st)
  = Ok (map (fun kv => (fst kv, bsl st m (domf st (snd kv)))) (t_ids st)).
Proof.
  intros P E st H rev m. apply mapM_ok. intros [x i] Hin. cbn [fst snd].
  apply in_aget in Hin; [|apply (w_ids_keys _ _ H)].
  destruct (ids_some E st H x i Hin) as [d [Hd [_ [_ [Hf _]]]]].
  assert (Hm : mset_wf st m) by (unfold m; destruct rev; [apply (w_rev _ _ H)|apply (w_conn _ _ H)]).
  rewrite (by_set_id_ok E st H m i d Hm Hd). cbn [bind]. rewrite Hf. reflexivity.
Qed.

Lemma ids_keys_mentioned : forall (P : nat -> Prop) E st (H : tinvP P E st) x, In x (map fst (t_ids st)) <-> mentioned E x.
Proof.
  intros P E st H x. rewrite <- (m_ids _ _ H). symmetry. apply aget_some_in_keys.
Qed.

Theorem total_exact : forall (P : nat -> Prop) E st, tinvP P E st -> exact_version E (CTotal st).
Proof.
  intros P E st H. unfold exact_version. cbn [c_contains c_iter_all c_ind_get c_ind_iter_all].
  split; [exact (q_contains E st H)|].
  split; [exact (q_iter_all E st H)|].
  split; [exact (q_set_of E st H)|].
  split; [exact (q_rev_set_of E st H)|].
  split.
  - eexists. split; [apply (ind_iter_all_total P E st H false)|]. split.
    + intros x. rewrite map_map. cbn [fst]. apply (ids_keys_mentioned P E st H).
    + intros x ys Hin y. apply in_map_iff in Hin. destruct Hin as [[x' i] [Heq Hin]]. cbn [fst snd] in Heq.
      inversion Heq; subst. apply in_aget in Hin; [|apply (w_ids_keys _ _ H)].
      destruct (ids_some E st H x i Hin) as [d [_ [Hdd [Hm [Hf _]]]]]. rewrite Hf.
      apply (set_sem E st H d x Hdd Hm).
  - eexists. split; [apply (ind_iter_all_total P E st H true)|]. split.
    + intros x. rewrite map_map. cbn [fst]. apply (ids_keys_mentioned P E st H).
    + intros x ys Hin y. apply in_map_iff in Hin. destruct Hin as [[x' i] [Heq Hin]]. cbn [fst snd] in Heq.
      inversion Heq; subst. apply in_aget in Hin; [|apply (w_ids_keys _ _ H)].
      destruct (ids_some E st H x i Hin) as [d [_ [Hdd [Hm [Hf _]]]]]. rewrite Hf.
      apply (rev_sem E st H d x Hdd Hm).
Qed.

(* reading all index views (what the harness does after a stratum start and after every merge) does not fail
   on a version whose methods do not fail *)
Definition methods_total (c : common) : Prop :=
  (forall x y, exists b, c_contains c x y = Ok b) /\ (exists l, c_iter_all c = Ok l) /\
  (forall rev x, exists o, c_ind_get rev c x = Ok o) /\ (forall rev, exists l, c_ind_iter_all rev c = Ok l).

Lemma exact_methods_total : forall E c, exact_version E c -> methods_total c.
Proof.
  intros E c [H1 [H2 [H3 [H4 [H5 H6]]]]]. repeat split.
  - intros x y. destruct (H1 x y) as [b [Hb _]]. eauto.
  - destruct H2 as [l [Hl _]]. eauto.
  - intros [|] x; [destruct (H4 x) as [o [Ho _]]|destruct (H3 x) as [o [Ho _]]]; eauto.
  - intros [|]; [destruct H6 as [l [Hl _]]|destruct H5 as [l [Hl _]]]; eauto.
Qed.

Lemma keyed_get_total : forall dom get mk, (forall x, exists o, get x = Ok o) -> exists r, keyed_get dom get mk = Ok r.
Proof.
  intros dom get mk H. unfold keyed_get.
  destruct (mapM_total _ _ (fun x => do r <- optM (get x); Ok (map (mk x) (fst r), if snd r then [[x]] else [])) (seq 0 dom)) as [rows Hr].
  - intros x _. destruct (H x) as [o Ho]. unfold optM. rewrite Ho. cbn. destruct o; cbn; eexists; reflexivity.
  - rewrite Hr. cbn. eexists; reflexivity.
Qed.

Lemma read_bin_total : forall dom c, methods_total c -> exists vs, read_bin dom c = Ok vs.
Proof.
  intros dom c [Hc [[ia Hia] [Hg Ha]]]. unfold read_bin, c_trait_is_empty. rewrite Hia. cbn [bind].
  destruct (keyed_get_total dom (c_ind_get false c) (fun x y => [x; y]) (Hg false)) as [g0 Hg0]. rewrite Hg0. cbn [bind].
  destruct (Ha false) as [a0 Ha0]. rewrite Ha0. cbn [bind].
  destruct (keyed_get_total dom (c_ind_get true c) (fun y x => [x; y]) (Hg true)) as [g1 Hg1]. rewrite Hg1. cbn [bind].
  destruct (Ha true) as [a1 Ha1]. rewrite Ha1. cbn [bind].
  destruct (mapM_total _ _ (fun p => do b <- c_contains c (fst p) (snd p); Ok (if b then [pr p] else [])) (list_prod (seq 0 dom) (seq 0 dom))) as [ct Hct].
  - intros p _. destruct (Hc (fst p) (snd p)) as [b Hb]. rewrite Hb. cbn. eexists; reflexivity.
  - rewrite Hct. cbn [bind]. eexists; reflexivity.
Qed.

(* the Delta that the second merge of a non-looping stratum produces: no connections, no precursor *)
Lemma empty_delta_methods_total : forall E st, tinv E st -> methods_total (CDelta (mkD [] [] [] st)).
Proof.
  intros E st H. repeat split.
  - intros x y. cbn [c_contains]. unfold d_contains. cbn [d_total d_conn].
    destruct (elem_set_cases E st H x) as [[He _]|[d [He _]]]; rewrite He; cbn [bind]; [eexists; reflexivity|].
    destruct (elem_set_cases E st H y) as [[He' _]|[d' [He' _]]]; rewrite He'; cbn [bind]; [eexists; reflexivity|].
    destruct (Nat.eqb d d'); eexists; reflexivity.
  - eexists. reflexivity.
  - intros rev x. cbn [c_ind_get]. unfold d_ind_get. cbn [d_total d_conn d_rev].
    destruct (elem_set_cases E st H x) as [[He _]|[d [He _]]]; rewrite He; cbn [bind]; [eexists; reflexivity|].
    destruct rev; cbn; eexists; reflexivity.
  - intros rev. cbn [c_ind_iter_all]. destruct rev; eexists; reflexivity.
Qed.

(* the pairs `new` holds after a sequence of head updates on an empty delta and total *)
Definition uniq_step (r : pset) (p : nat * nat) : pset := if pmem p r then r else r ++ [p].
Definition uniq (l r : pset) : pset := fold_left uniq_step l r.

Lemma pmem_in : forall p s, pmem p s = true <-> In p s.
Proof.
  intros [a b] s. unfold pmem. rewrite existsb_exists. split.
  - intros [[c d] [Hin Heq]]. unfold peqb in Heq. cbn in Heq. apply andb_true_iff in Heq.
    destruct Heq as [H1 H2]. apply Nat.eqb_eq in H1, H2. subst. exact Hin.
  - intros Hin. exists (a, b). split; [exact Hin|]. unfold peqb. cbn. rewrite !Nat.eqb_refl. reflexivity.
Qed.

Lemma in_uniq : forall l r p, In p (uniq l r) <-> In p r \/ In p l.
Proof.
  induction l as [|q l IH]; intros r p; cbn.
  - tauto.
  - unfold uniq in IH. rewrite IH. unfold uniq_step. destruct (pmem q r) eqn:Hq.
    + apply pmem_in in Hq. split; [intros [H|H]; auto|intros [H|[<-|H]]; auto].
    + rewrite in_app_iff. cbn. tauto.
Qed.

Lemma rtc_same : forall E E', (forall p, In p E <-> In p E') -> forall x y, rtc E x y <-> rtc E' x y.
Proof.
  intros E E' H x y; split; apply TrUfStep.rtc_mono; intros p; apply H.
Qed.

Definition heads (ins : list (nat * nat)) : list op := map (fun p => OHead 0 (fst p) (snd p)) ins.

Lemma empty_contains : forall x y, c_contains (CTotal tr_empty) x y = Ok false.
Proof. reflexivity. Qed.

Lemma heads_run : forall dom ins r stored,
  run_state (bin_prov dom) (mkPS stored (CNew r) (CTotal tr_empty) (CTotal tr_empty)) (heads ins)
  = Ok (mkPS stored (CNew (uniq ins r)) (CTotal tr_empty) (CTotal tr_empty)).
Proof.
  induction ins as [|[x y] ins IH]; intros r stored; [reflexivity|].
  cbn [heads map run_state step bin_prov p_contains p_insert s_total s_delta s_new s_stored fst snd].
  rewrite !empty_contains. cbn [bind]. unfold c_insert. cbn [unwrap_new bind].
  unfold uniq. cbn [fold_left]. unfold uniq_step at 2.
  destruct (pmem (x, y) r); cbn [bind]; apply IH.
Qed.

Lemma run_state_app : forall St (P : prov St) a b st st1,
  run_state P st a = Ok st1 -> run_state P st (a ++ b) = run_state P st1 b.
Proof.
  induction a as [|o a IH]; cbn; intros b st st1 H; [inversion H; reflexivity|].
  destruct (step P st o) as [[st' it]|e]; cbn in *; [apply IH; exact H|discriminate].
Qed.

Lemma join_nil_rev : forall ca rel1 acc, join ca rel1 [] acc = acc.
Proof.
  intros ca rel1. induction rel1 as [|kv rel1 IH]; intros acc; [reflexivity|]. cbn. apply IH.
Qed.

(* the merge of an empty `new` into a Total-shaped delta U (total empty): total becomes U, delta an empty Delta on U *)
Lemma merge_fold_total : forall U, tr_is_empty U = false ->
  c_merge (CNew []) (CTotal U) (CTotal tr_empty) = Ok (CNew [], CDelta (mkD [] [] [] U), CTotal U).
Proof.
  intros U Hne. unfold c_merge. rewrite Hne. cbn [common_is_empty t_ids tr_empty isnil bind d_default d_prec unwrap_new].
  rewrite Hne. cbn [andb tr_run foldM bind]. unfold loop_fuel. cbn [dloop].
  cbn [join fold_left]. rewrite join_nil_rev. cbn [mmove fold_left bind]. reflexivity.
Qed.

(* Theorem (non-recursive use, binary form): a stratum that inserts the pairs `ins` through the head update of
   the generated code and merges twice ends, without any failure (all index views of both versions are read after
   the stratum start and after each merge), with
     - after the first merge: delta = a TrRelUnionFind U satisfying C18's invariant for exactly the inserted pairs,
       total empty  -> the delta version serves exactly the closure, reflexive pairs included;
     - after the second merge and the stratum end: the stored relation is U. *)
Theorem nonrec_exact : forall dom ins,
  exists U st1 st2,
    run_state (bin_prov dom) (ps_init (bin_prov dom)) (OStart :: heads ins ++ [OMerge]) = Ok st1 /\
    s_delta st1 = CTotal U /\ s_total st1 = CTotal tr_empty /\
    run_state (bin_prov dom) st1 [OMerge; OEnd] = Ok st2 /\
    s_stored st2 = CTotal U /\
    tinv (uniq ins []) U /\ exact_version ins (CTotal U).
Proof.
  intros dom ins.
  destruct (tr_reach (uniq ins [])) as [U [HU HI]].
  assert (Hex : exact_version ins (CTotal U)).
  { pose proof (total_exact _ _ _ HI) as Hx.
    assert (Hs : forall p, In p (uniq ins []) <-> In p ins) by (intros p; rewrite in_uniq; cbn; tauto).
    assert (Hr : forall x y, rtc (uniq ins []) x y <-> rtc ins x y) by (apply rtc_same; exact Hs).
    assert (Hm : forall x, mentioned (uniq ins []) x <-> mentioned ins x).
    { intros x; unfold mentioned; split; intros [y Hy]; exists y; rewrite !Hs in *; exact Hy. }
    destruct Hx as [H1 [H2 [H3 [H4 [H5 H6]]]]]. unfold exact_version. repeat split.
    - intros x y. destruct (H1 x y) as [b [Hb Hbb]]. exists b. split; [exact Hb|]. rewrite Hbb. apply Hr.
    - destruct H2 as [l [Hl [Hn Hin]]]. exists l. repeat split; [exact Hl|exact Hn| |]; intros; [apply Hr, Hin; assumption|apply Hin, Hr; assumption].
    - intros x. destruct (H3 x) as [o [Ho [Hn Hl]]]. exists o. split; [exact Ho|]. split.
      + rewrite Hn. rewrite Hm. reflexivity.
      + intros l El. destruct (Hl l El) as [Hnd Hin]. split; [exact Hnd|]. intros y. rewrite Hin. apply Hr.
    - intros x. destruct (H4 x) as [o [Ho [Hn Hl]]]. exists o. split; [exact Ho|]. split.
      + rewrite Hn. rewrite Hm. reflexivity.
      + intros l El. destruct (Hl l El) as [Hnd Hin]. split; [exact Hnd|]. intros y. rewrite Hin. apply Hr.
    - destruct H5 as [l [Hl [Hk Hin]]]. exists l. split; [exact Hl|]. split.
      + intros x. rewrite Hk. apply Hm.
      + intros x ys Hxy y. rewrite (Hin x ys Hxy y). apply Hr.
    - destruct H6 as [l [Hl [Hk Hin]]]. exists l. split; [exact Hl|]. split.
      + intros x. rewrite Hk. apply Hm.
      + intros x ys Hxy y. rewrite (Hin x ys Hxy y). apply Hr. }
  pose proof (exact_methods_total _ _ (total_exact (fun _ => False) _ _ tr_empty_inv)) as Hte.
  pose proof (exact_methods_total _ _ Hex) as HtU.
  destruct (read_bin_total dom _ Hte) as [ve Hve].
  destruct (read_bin_total dom _ HtU) as [vU HvU].
  (* the stratum start *)
  assert (Hs0 : step (bin_prov dom) (ps_init (bin_prov dom)) OStart
                = Ok (mkPS c_default (CNew []) (CTotal tr_empty) (CTotal tr_empty), RRead ve ve)).
  { cbn [step bin_prov p_init p_default ps_init s_stored c_init]. unfold read_both. cbn [p_read s_delta s_total bin_prov].
    unfold c_default. rewrite Hve. cbn [bind]. reflexivity. }
  (* the first merge *)
  assert (Hm1 : step (bin_prov dom) (mkPS c_default (CNew (uniq ins [])) (CTotal tr_empty) (CTotal tr_empty)) OMerge
                = Ok (mkPS c_default (CNew []) (CTotal U) (CTotal tr_empty), RRead vU ve)).
  { cbn [step bin_prov p_merge s_new s_delta s_total s_stored]. unfold c_merge.
    cbn [common_is_empty t_ids tr_empty isnil bind d_default d_prec unwrap_new tr_is_empty t_sets andb].
    rewrite HU. cbn [bind]. unfold read_both. cbn [p_read s_delta s_total bin_prov]. rewrite HvU, Hve. reflexivity. }
  set (st1 := mkPS c_default (CNew []) (CTotal U) (CTotal tr_empty)).
  exists U, st1.
  (* the second merge and the end of the stratum *)
  assert (H2 : exists st2, run_state (bin_prov dom) st1 [OMerge; OEnd] = Ok st2 /\ s_stored st2 = CTotal U).
  { destruct (tr_is_empty U) eqn:Hemp.
    - (* nothing was inserted: U is the empty structure and the merge takes the same path again *)
      assert (HUe : U = tr_empty).
      { apply (q_is_empty _ _ HI) in Hemp. rewrite Hemp in HU. cbn in HU. inversion HU. reflexivity. }
      subst U. eexists. split.
      + cbn [run_state step bin_prov p_merge st1 s_new s_delta s_total s_stored]. unfold c_merge.
        cbn [common_is_empty t_ids tr_empty isnil bind d_default d_prec unwrap_new tr_is_empty t_sets andb tr_run].
        unfold read_both. cbn [p_read s_delta s_total bin_prov]. rewrite Hve. cbn [bind]. reflexivity.
      + reflexivity.
    - destruct (read_bin_total dom _ (empty_delta_methods_total _ _ HI)) as [vd Hvd].
      eexists. split.
      + cbn [run_state step bin_prov p_merge st1 s_new s_delta s_total s_stored].
        rewrite (merge_fold_total U Hemp). cbn [bind]. unfold read_both. cbn [p_read s_delta s_total bin_prov].
        rewrite Hvd, HvU. cbn [bind]. reflexivity.
      + reflexivity. }
  destruct H2 as [st2 [Hr2 Hs2]]. exists st2.
  split.
  { cbn [run_state]. rewrite Hs0. cbn [bind].
    rewrite (run_state_app _ (bin_prov dom) (heads ins) [OMerge] _ _ (heads_run dom ins [] c_default)).
    cbn [run_state]. rewrite Hm1. cbn [bind]. reflexivity. }
  split; [reflexivity|]. split; [reflexivity|]. split; [exact Hr2|]. split; [exact Hs2|]. split; [exact HI|exact Hex].
Qed.

(* ================================================================== Part 5: the protocol layer, for every history
   Parametric in an invariant [I E st] ("st represents the closure of E") of the union-find structure with the
   properties listed in [truf_iface].  C18 proves all of them for its invariant [tinv] EXCEPT that [tinv] demands a
   (possibly empty) entry in both connection maps for every live class, which the classes created by
   TrRelUnionFind::add_node during a Delta-shaped merge do not have: so the interface is a hypothesis here. *)

Definition psub (E Ins : list (nat * nat)) : Prop := forall x y, In (x, y) E -> rtc Ins x y.

Lemma rtc_closed : forall E Ins, psub E Ins -> forall x y, rtc E x y -> rtc Ins x y.
Proof.
  intros E Ins H x y Hr. induction Hr as [x y Hi|x y Hi|x y Hi|x y z _ IH1 _ IH2].
  - apply mentioned_rtc. apply (rtc_mentioned _ _ _ (H _ _ Hi)).
  - apply mentioned_rtc. apply (rtc_mentioned _ _ _ (H _ _ Hi)).
  - apply H; exact Hi.
  - eapply rtc_t; eassumption.
Qed.

Lemma psub_mono : forall E Ins Ins', psub E Ins -> (forall p, In p Ins -> In p Ins') -> psub E Ins'.
Proof. intros E Ins Ins' H Hi x y Hxy. eapply TrUfStep.rtc_mono; [exact Hi|apply H; exact Hxy]. Qed.

Lemma psub_app : forall E E' Ins, psub E Ins -> psub E' Ins -> psub (E ++ E') Ins.
Proof. intros E E' Ins H H' x y Hi. apply in_app_iff in Hi. destruct Hi; auto. Qed.

(* class pairs: both classes are non-empty and every member of the first reaches every member of the second *)
Definition good (E : list (nat * nat)) (st : truf) (a b : nat) : Prop :=
  (exists x, mem_of st a x) /\ (exists y, mem_of st b y) /\ forall x y, mem_of st a x -> mem_of st b y -> rtc E x y.

Definition mall (P : nat -> nat -> Prop) (m : mset) : Prop := forall k s v, In (k, s) m -> In v s -> P k v.

(* the sound half of exact_version *)
Definition sound_version (E : list (nat * nat)) (c : common) : Prop :=
  (forall x y, exists b, c_contains c x y = Ok b /\ (b = true -> rtc E x y)) /\
  (exists l, c_iter_all c = Ok l /\ forall x y, In (x, y) l -> rtc E x y) /\
  (forall x, exists o, c_ind_get false c x = Ok o /\ forall l y, o = Some l -> In y l -> rtc E x y) /\
  (forall x, exists o, c_ind_get true c x = Ok o /\ forall l y, o = Some l -> In y l -> rtc E y x) /\
  (exists l, c_ind_iter_all false c = Ok l /\ forall x ys y, In (x, ys) l -> In y ys -> rtc E x y) /\
  (exists l, c_ind_iter_all true c = Ok l /\ forall x ys y, In (x, ys) l -> In y ys -> rtc E y x).

Lemma exact_sound : forall E c, exact_version E c -> sound_version E c.
Proof.
  intros E c [H1 [H2 [H3 [H4 [H5 H6]]]]]. unfold sound_version. repeat split.
  - intros x y. destruct (H1 x y) as [b [Hb Hbb]]. exists b. split; [exact Hb|apply Hbb].
  - destruct H2 as [l [Hl [_ Hin]]]. exists l. split; [exact Hl|]. intros x y; apply Hin.
  - intros x. destruct (H3 x) as [o [Ho [_ Hl]]]. exists o. split; [exact Ho|]. intros l y El Hy. apply (Hl l El); exact Hy.
  - intros x. destruct (H4 x) as [o [Ho [_ Hl]]]. exists o. split; [exact Ho|]. intros l y El Hy. apply (Hl l El); exact Hy.
  - destruct H5 as [l [Hl [_ Hin]]]. exists l. split; [exact Hl|]. intros x ys y Hx Hy. apply (Hin x ys Hx); exact Hy.
  - destruct H6 as [l [Hl [_ Hin]]]. exists l. split; [exact Hl|]. intros x ys y Hx Hy. apply (Hin x ys Hx); exact Hy.
Qed.

Lemma sound_methods_total : forall E c, sound_version E c -> methods_total c.
Proof.
  intros E c [H1 [H2 [H3 [H4 [H5 H6]]]]]. repeat split.
  - intros x y. destruct (H1 x y) as [b [Hb _]]. eauto.
  - destruct H2 as [l [Hl _]]. eauto.
  - intros [|] x; [destruct (H4 x) as [o [Ho _]]|destruct (H3 x) as [o [Ho _]]]; eauto.
  - intros [|]; [destruct H6 as [l [Hl _]]|destruct H5 as [l [Hl _]]]; eauto.
Qed.

Lemma sound_version_mono : forall E E' c, sound_version E c -> (forall x y, rtc E x y -> rtc E' x y) -> sound_version E' c.
Proof.
  intros E E' c [H1 [H2 [H3 [H4 [H5 H6]]]]] Hs. unfold sound_version. repeat split.
  - intros x y. destruct (H1 x y) as [b [Hb Hbb]]. exists b. split; [exact Hb|auto].
  - destruct H2 as [l [Hl Hin]]. exists l. split; [exact Hl|]. intros x y Hxy; auto.
  - intros x. destruct (H3 x) as [o [Ho Hl]]. exists o. split; [exact Ho|]. intros l y El Hy. eauto.
  - intros x. destruct (H4 x) as [o [Ho Hl]]. exists o. split; [exact Ho|]. intros l y El Hy. eauto.
  - destruct H5 as [l [Hl Hin]]. exists l. split; [exact Hl|]. intros x ys y Hx Hy. eauto.
  - destruct H6 as [l [Hl Hin]]. exists l. split; [exact Hl|]. intros x ys y Hx Hy. eauto.
Qed.

(* the state of the structure only grows by appended classes *)
Definition ext (st st' : truf) : Prop :=
  nsets st <= nsets st' /\ forall s, s < nsets st -> nth_error (t_sets st') s = nth_error (t_sets st) s.

Lemma mem_of_lt : forall st s x, mem_of st s x -> s < nsets st.
Proof. intros st s x [l [Hn _]]. unfold nsets. apply nth_error_Some. congruence. Qed.

Lemma ext_refl : forall st, ext st st.
Proof. intros st; split; [lia|reflexivity]. Qed.
Lemma ext_trans : forall a b c, ext a b -> ext b c -> ext a c.
Proof.
  intros a b c [H1 H2] [H3 H4]. split; [lia|]. intros s Hs. rewrite H4 by lia. apply H2; exact Hs.
Qed.
Lemma ext_mem : forall st st' s x, ext st st' -> mem_of st s x -> mem_of st' s x.
Proof.
  intros st st' s x [_ He] Hm. pose proof (mem_of_lt _ _ _ Hm) as Hlt. destruct Hm as [l [Hn Hi]].
  exists l. rewrite He by exact Hlt. auto.
Qed.
Lemma ext_mem_inv : forall st st' s x, ext st st' -> s < nsets st -> mem_of st' s x -> mem_of st s x.
Proof.
  intros st st' s x [_ He] Hlt [l [Hn Hi]]. exists l. rewrite <- He by exact Hlt. auto.
Qed.

Lemma good_ext : forall E E' st st' a b, good E st a b -> ext st st' -> (forall x y, rtc E x y -> rtc E' x y) -> good E' st' a b.
Proof.
  intros E E' st st' a b [[x Hx] [[y Hy] Hg]] He Hs. split; [|split].
  - exists x; eapply ext_mem; eassumption.
  - exists y; eapply ext_mem; eassumption.
  - intros u v Hu Hv. apply Hs, Hg; eapply ext_mem_inv; try eassumption; eapply mem_of_lt; eassumption.
Qed.

Lemma good_trans : forall E st a b c, good E st a b -> good E st b c -> good E st a c.
Proof.
  intros E st a b c [Ha [[z Hz] Hab]] [_ [Hc Hbc]]. split; [exact Ha|]. split; [exact Hc|].
  intros x y Hx Hy. eapply rtc_t; [apply Hab|apply Hbc]; eassumption.
Qed.

(* ---- maps of sets *)
Lemma mall_nil : forall P, mall P [].
Proof. intros P k s v []. Qed.

Lemma in_aset_inv : forall V (k : nat) (v : V) m k' v', In (k', v') (aset k v m) -> (k' = k /\ v' = v) \/ In (k', v') m.
Proof.
  induction m as [|[a b] m IH]; cbn; intros k' v' H.
  - destruct H as [H|[]]. inversion H; auto.
  - destruct (Nat.eqb_spec k a) as [->|Hne].
    + destruct H as [H|H]; [inversion H; auto|auto].
    + destruct H as [H|H]; [auto|]. destruct (IH _ _ H); auto.
Qed.

Lemma in_eget : forall k (m : mset) v, In v (eget k m) -> exists s, In (k, s) m /\ In v s.
Proof.
  intros k m v H. unfold eget in H. destruct (aget k m) as [s|] eqn:Hs; [|destruct H].
  exists s. split; [apply aget_in; exact Hs|exact H].
Qed.

Lemma mall_mins : forall (P : nat -> nat -> Prop) w y m, mall P m -> P w y -> mall P (mins w y m).
Proof.
  intros P w y m Hm Hp k s v Hin Hv. unfold mins in Hin. apply in_aset_inv in Hin. destruct Hin as [[-> ->]|Hin].
  - apply in_sadd in Hv. destruct Hv as [->|Hv]; [exact Hp|].
    destruct (in_eget _ _ _ Hv) as [s [Hs Hvs]]. eapply Hm; eassumption.
  - eapply Hm; eassumption.
Qed.

Lemma fold_left_inv : forall A B (Inv : A -> Prop) (f : A -> B -> A) l a,
  Inv a -> (forall a b, In b l -> Inv a -> Inv (f a b)) -> Inv (fold_left f l a).
Proof.
  induction l as [|b l IH]; cbn; intros a Ha Hf; [exact Ha|].
  apply IH; [apply Hf; [now left|exact Ha]|]. intros a' b' Hb'; apply Hf; now right.
Qed.

Lemma mall_mmove : forall P from to, mall P from -> mall P to -> mall P (mmove from to).
Proof.
  intros P from to Hf Ht. unfold mmove. apply fold_left_inv; [exact Ht|].
  intros a [k s] Hin Ha k' s' v Hks Hv. cbn [fst snd] in Hks. apply in_aset_inv in Hks.
  destruct Hks as [[-> ->]|Hks]; [|eapply Ha; eassumption].
  apply in_app_iff in Hv. destruct Hv as [Hv|Hv].
  - destruct (in_eget _ _ _ Hv) as [s0 [Hs0 Hv0]]. eapply Ha; eassumption.
  - eapply Hf; eassumption.
Qed.

Definition flip2 (P : nat -> nat -> Prop) : nat -> nat -> Prop := fun a b => P b a.

(* keys of a map of sets are valid class ids *)
Definition mkv (n : nat) (m : mset) : Prop := forall k s, In (k, s) m -> k < n.
Lemma mkv_nil : forall n, mkv n [].
Proof. intros n k s []. Qed.
Lemma mkv_mins : forall n w y m, mkv n m -> w < n -> mkv n (mins w y m).
Proof.
  intros n w y m Hm Hw k s Hin. unfold mins in Hin. apply in_aset_inv in Hin. destruct Hin as [[-> _]|Hin]; [exact Hw|eapply Hm; eassumption].
Qed.
Lemma mkv_mmove : forall n from to, mkv n from -> mkv n to -> mkv n (mmove from to).
Proof.
  intros n from to Hf Ht. unfold mmove. apply fold_left_inv; [exact Ht|].
  intros a [k s] Hin Ha k' s' Hks. cbn [fst snd] in Hks. apply in_aset_inv in Hks.
  destruct Hks as [[-> _]|Hks]; [eapply Hf; eassumption|eapply Ha; eassumption].
Qed.
Lemma mkv_mono : forall n n' m, mkv n m -> n <= n' -> mkv n' m.
Proof. intros n n' m H Hle k s Hin. specialize (H k s Hin). lia. Qed.

(* join only ever inserts compositions of a pair of rel2 with a pair of rel1: any property of the target maps that is
   closed under the insertion of such a pair is preserved *)
Lemma join_inv : forall (P : nat -> nat -> Prop) (Qg Qr : mset -> Prop) ca rel1 rel2_rev (acc : mset * mset * bool),
  (forall w x y, P w x -> P x y -> P w y) ->
  mall P rel1 -> mall (flip2 P) rel2_rev ->
  (forall m w y, Qg m -> P w y -> Qg (mins w y m)) -> (forall m w y, Qr m -> P w y -> Qr (mins y w m)) ->
  Qg (fst (fst acc)) -> Qr (snd (fst acc)) ->
  Qg (fst (fst (join ca rel1 rel2_rev acc))) /\ Qr (snd (fst (join ca rel1 rel2_rev acc))).
Proof.
  intros P Qg Qr ca rel1 rel2_rev acc Ht H1 H2 Cg Cr Hg Hr. unfold join.
  apply (fold_left_inv _ _ (fun a : mset * mset * bool => Qg (fst (fst a)) /\ Qr (snd (fst a)))); [split; assumption|].
  intros [[tg1 tr1] ch1] [x xset] Hin [Hg1 Hr1]. cbn [fst snd] in *.
  destruct (aget x rel2_rev) as [xrev|] eqn:Hx; [|split; assumption].
  apply aget_in in Hx.
  apply (fold_left_inv _ _ (fun a : mset * mset * bool => Qg (fst (fst a)) /\ Qr (snd (fst a)))); [split; assumption|].
  intros [[tg2 tr2] ch2] w Hw [Hg2 Hr2]. cbn [fst snd] in *.
  apply (fold_left_inv _ _ (fun a : mset * mset * bool => Qg (fst (fst a)) /\ Qr (snd (fst a)))); [split; assumption|].
  intros [[tg3 tr3] ch3] y Hy [Hg3 Hr3]. cbn [fst snd] in *. unfold join_inner.
  destruct (ca w y); [|split; assumption]. destruct (mhas w y tg3); [split; assumption|].
  assert (Hp : P w y). { apply (Ht w x y); [apply (H2 x xrev w Hx Hw)|apply (H1 x xset y Hin Hy)]. }
  cbn [fst snd]. split; [apply Cg|apply Cr]; assumption.
Qed.

(* the same for a property of the whole accumulator, which may also use that the inserted pair passed can_add and was absent *)
Lemma join_inv_gen3 : forall (P1 P2 P3 : nat -> nat -> Prop) (Q : mset * mset * bool -> Prop) ca rel1 rel2_rev (acc : mset * mset * bool),
  (forall w x y, P2 w x -> P1 x y -> P3 w y) ->
  mall P1 rel1 -> (forall x xrev w, aget x rel2_rev = Some xrev -> In w xrev -> P2 w x) ->
  (forall tg tr ch w y, Q (tg, tr, ch) -> P3 w y -> ca w y = true -> mhas w y tg = false -> Q (mins w y tg, mins y w tr, true)) ->
  Q acc -> Q (join ca rel1 rel2_rev acc).
Proof.
  intros P1 P2 P3 Q ca rel1 rel2_rev acc Ht H1 H2 C Hq. unfold join.
  apply (fold_left_inv _ _ Q); [exact Hq|].
  intros a1 [x xset] Hin Hq1. cbn [fst snd] in *.
  destruct (aget x rel2_rev) as [xrev|] eqn:Hx; [|exact Hq1].
  apply (fold_left_inv _ _ Q); [exact Hq1|].
  intros a2 w Hw Hq2.
  apply (fold_left_inv _ _ Q); [exact Hq2|].
  intros [[tg3 tr3] ch3] y Hy Hq3. unfold join_inner.
  destruct (ca w y) eqn:Hca; [|exact Hq3]. destruct (mhas w y tg3) eqn:Hmh; [exact Hq3|].
  apply (C tg3 tr3 ch3 w y Hq3); try assumption. apply (Ht w x y); [apply (H2 x xrev w Hx Hw)|apply (H1 x xset y Hin Hy)].
Qed.

Lemma join_inv_gen : forall (P : nat -> nat -> Prop) (Q : mset * mset * bool -> Prop) ca rel1 rel2_rev (acc : mset * mset * bool),
  (forall w x y, P w x -> P x y -> P w y) ->
  mall P rel1 -> mall (flip2 P) rel2_rev ->
  (forall tg tr ch w y, Q (tg, tr, ch) -> P w y -> ca w y = true -> mhas w y tg = false -> Q (mins w y tg, mins y w tr, true)) ->
  Q acc -> Q (join ca rel1 rel2_rev acc).
Proof.
  intros P Q ca rel1 rel2_rev acc Ht H1 H2 C Hq.
  apply (join_inv_gen3 P P P Q ca rel1 rel2_rev acc Ht H1); [|exact C|exact Hq].
  intros x xrev w Hx Hw. apply (H2 x xrev w (aget_in _ _ _ _ Hx) Hw).
Qed.

Lemma smem_sadd : forall b y s, smem b (sadd y s) = Nat.eqb b y || smem b s.
Proof.
  intros b y s. destruct (smem b (sadd y s)) eqn:H1.
  - apply smem_in, in_sadd in H1. symmetry. apply orb_true_iff. destruct H1 as [->|H1]; [left; apply Nat.eqb_refl|right; apply smem_in; exact H1].
  - apply smem_false in H1. symmetry. apply orb_false_iff. split.
    + apply Nat.eqb_neq. intros ->. apply H1, in_sadd. now left.
    + apply smem_false. intros H2. apply H1, in_sadd. now right.
Qed.

Lemma mhas_mins : forall a b w y m, mhas a b (mins w y m) = (Nat.eqb a w && Nat.eqb b y) || mhas a b m.
Proof.
  intros a b w y m. unfold mhas, mins. rewrite eget_aset. destruct (Nat.eqb_spec a w) as [->|Hne]; cbn [andb orb].
  - apply smem_sadd.
  - reflexivity.
Qed.

Lemma mhas_mmove_to : forall from to a b, mhas a b to = true -> mhas a b (mmove from to) = true.
Proof.
  induction from as [|[k s] from IH]; intros to a b H; [exact H|]. unfold mmove in *. cbn [fold_left fst snd]. apply IH.
  unfold mhas in *. rewrite eget_aset. destruct (Nat.eqb_spec a k) as [->|Hne]; [|exact H].
  apply smem_in. apply in_app_iff. left. apply smem_in. exact H.
Qed.

Lemma mhas_mmove_from : forall from to a b, mhas a b from = true -> mhas a b (mmove from to) = true.
Proof.
  induction from as [|[k s] from IH]; intros to a b H; [discriminate|]. unfold mmove in *. cbn [fold_left fst snd].
  unfold mhas, eget in H. cbn [aget] in H. destruct (Nat.eqb_spec a k) as [->|Hne].
  - apply mhas_mmove_to. unfold mhas. rewrite eget_aset_eq. apply smem_in, in_app_iff. right. apply smem_in. exact H.
  - apply IH. exact H.
Qed.

Lemma filter_length_lt : forall A (f g : A -> bool) l x0,
  (forall x, In x l -> g x = true -> f x = true) -> In x0 l -> f x0 = true -> g x0 = false ->
  length (filter g l) < length (filter f l).
Proof.
  induction l as [|h l IH]; intros x0 Himp Hin Hf Hg; [destruct Hin|].
  cbn [filter]. destruct Hin as [->|Hin].
  - rewrite Hf, Hg. cbn [length].
    assert (Hle : length (filter g l) <= length (filter f l)).
    { clear - Himp. induction l as [|a l IH]; [cbn; lia|]. cbn [filter].
      destruct (g a) eqn:Ga.
      - rewrite (Himp a (or_intror (or_introl eq_refl)) Ga). cbn [length]. apply le_n_S. apply IH. intros x Hx; apply Himp. destruct Hx; [left; assumption|right; right; assumption].
      - destruct (f a); cbn [length]; [apply le_S|]; apply IH; intros x Hx; apply Himp; (destruct Hx; [left; assumption|right; right; assumption]). }
    lia.
  - assert (IH' := IH x0 (fun x Hx => Himp x (or_intror Hx)) Hin Hf Hg).
    destruct (g h) eqn:Gh.
    + rewrite (Himp h (or_introl eq_refl) Gh). cbn [length]. lia.
    + destruct (f h); cbn [length]; lia.
Qed.

(* the class pairs that are in neither delta_delta nor delta_total: strictly fewer after every round that changed something *)
Definition unknown (n : nat) (dd dt : mset) : list (nat * nat) :=
  filter (fun p => negb (mhas (fst p) (snd p) dd) && negb (mhas (fst p) (snd p) dt)) (list_prod (seq 0 n) (seq 0 n)).

(* the maps of a Delta over the structure st: good class pairs under valid keys *)
Definition dmap (Ins : list (nat * nat)) (st : truf) (m : mset) : Prop := mall (good Ins st) m /\ mkv (nsets st) m.
Definition dmapr (Ins : list (nat * nat)) (st : truf) (m : mset) : Prop := mall (flip2 (good Ins st)) m /\ mkv (nsets st) m.

Lemma good_lt : forall E st a b, good E st a b -> a < nsets st /\ b < nsets st.
Proof. intros E st a b [[x Hx] [[y Hy] _]]. split; eapply mem_of_lt; eassumption. Qed.

Lemma dmap_nil : forall Ins st, dmap Ins st [].
Proof. intros; split; [apply mall_nil|apply mkv_nil]. Qed.
Lemma dmapr_nil : forall Ins st, dmapr Ins st [].
Proof. intros; split; [apply mall_nil|apply mkv_nil]. Qed.
Lemma dmap_mins : forall Ins st m w y, dmap Ins st m -> good Ins st w y -> dmap Ins st (mins w y m).
Proof. intros Ins st m w y [H1 H2] Hg. split; [apply mall_mins; assumption|apply mkv_mins; [exact H2|apply (good_lt _ _ _ _ Hg)]]. Qed.
Lemma dmapr_mins : forall Ins st m w y, dmapr Ins st m -> good Ins st w y -> dmapr Ins st (mins y w m).
Proof. intros Ins st m w y [H1 H2] Hg. split; [apply mall_mins; assumption|apply mkv_mins; [exact H2|apply (good_lt _ _ _ _ Hg)]]. Qed.
Lemma dmap_mmove : forall Ins st a b, dmap Ins st a -> dmap Ins st b -> dmap Ins st (mmove a b).
Proof. intros Ins st a b [H1 H2] [H3 H4]. split; [apply mall_mmove|apply mkv_mmove]; assumption. Qed.
Lemma dmapr_mmove : forall Ins st a b, dmapr Ins st a -> dmapr Ins st b -> dmapr Ins st (mmove a b).
Proof. intros Ins st a b [H1 H2] [H3 H4]. split; [apply mall_mmove|apply mkv_mmove]; assumption. Qed.
Lemma dmap_ext : forall Ins Ins' st st' m, dmap Ins st m -> ext st st' -> (forall x y, rtc Ins x y -> rtc Ins' x y) -> dmap Ins' st' m.
Proof.
  intros Ins Ins' st st' m [H1 H2] He Hr. split.
  - intros k s v Hk Hv. eapply good_ext; [eapply H1; eassumption|exact He|exact Hr].
  - eapply mkv_mono; [exact H2|apply He].
Qed.
Lemma dmapr_ext : forall Ins Ins' st st' m, dmapr Ins st m -> ext st st' -> (forall x y, rtc Ins x y -> rtc Ins' x y) -> dmapr Ins' st' m.
Proof.
  intros Ins Ins' st st' m [H1 H2] He Hr. split.
  - intros k s v Hk Hv. unfold flip2. eapply good_ext; [eapply H1; eassumption|exact He|exact Hr].
  - eapply mkv_mono; [exact H2|apply He].
Qed.

Section Protocol.
  Variable I : list (nat * nat) -> truf -> Prop.

  Record truf_iface : Prop := mkIface {
    I_empty : I [] tr_empty;
    I_add : forall E st x y, I E st -> exists st' b, tr_add st x y = Ok (st', b) /\ I (E ++ [(x, y)]) st';
    I_node : forall E st x, I E st -> exists st' id fr, add_node_new st x = Ok (st', id, fr) /\ I (E ++ [(x, x)]) st' /\
               mem_of st' id x /\ t_conn st' = t_conn st /\ t_rev st' = t_rev st /\ ext st st';
    I_conn : forall E st a s b, I E st -> In (a, s) (t_conn st) -> In b s -> good E st a b;
    I_rev : forall E st a s b, I E st -> In (a, s) (t_rev st) -> In b s -> good E st b a;
    I_class : forall E st s x y, I E st -> mem_of st s x -> mem_of st s y -> rtc E x y;
    I_elem : forall E st x, I E st -> exists o, elem_set st x = Ok o /\ forall s, o = Some s -> mem_of st s x;
    I_total : forall E st, I E st -> sound_version E (CTotal st)
  }.

  Hypothesis HI : truf_iface.

  Lemma I_run : forall adds E st, I E st -> exists st', tr_run st adds = Ok st' /\ I (E ++ adds) st'.
  Proof.
    induction adds as [|[x y] rest IH]; intros E st H.
    - exists st. split; [reflexivity|]. rewrite app_nil_r; exact H.
    - destruct (I_add HI E st x y H) as [st1 [b [Ha H1]]].
      destruct (IH _ _ H1) as [st' [Hr H']]. exists st'. split.
      + cbn [tr_run]. rewrite Ha. cbn [bind]. exact Hr.
      + rewrite <- app_assoc in H'. exact H'.
  Qed.

  (* one readable version, relative to the pairs Ins handed to insert so far *)
  Definition ver_ok (Ins : list (nat * nat)) (c : common) : Prop :=
    match c with
    | CNew r => forall p, In p r -> In p Ins
    | CTotal t => exists Et, I Et t /\ psub Et Ins
    | CDelta d => (exists Et, I Et (d_total d) /\ psub Et Ins) /\
                  dmap Ins (d_total d) (d_conn d) /\ dmapr Ins (d_total d) (d_rev d) /\
                  forall p, In p (d_prec d) -> In p Ins
    end.

  Lemma ver_ok_mono : forall Ins Ins' c, ver_ok Ins c -> (forall p, In p Ins -> In p Ins') -> ver_ok Ins' c.
  Proof.
    intros Ins Ins' c H Hi. assert (Hr : forall x y, rtc Ins x y -> rtc Ins' x y) by (intros x y; apply TrUfStep.rtc_mono; exact Hi).
    destruct c as [r|d|t]; cbn in *.
    - intros p Hp; auto.
    - destruct H as [[Et [HE Hs]] [Hc [Hv Hp]]]. split; [exists Et; split; [exact HE|eapply psub_mono; eassumption]|].
      split; [|split].
      + eapply dmap_ext; [exact Hc|apply ext_refl|exact Hr].
      + eapply dmapr_ext; [exact Hv|apply ext_refl|exact Hr].
      + intros p Hp'; auto.
    - destruct H as [Et [HE Hs]]. exists Et; split; [exact HE|eapply psub_mono; eassumption].
  Qed.

  (* ---- add_node_new for the pairs of new *)
  Lemma good_self : forall Ins Et st id x, I Et st -> psub Et Ins -> mem_of st id x -> good Ins st id id.
  Proof.
    intros Ins Et st id x HE Hs Mx. split; [exists x; exact Mx|]. split; [exists x; exact Mx|].
    intros u v Hu Hv. apply (rtc_closed _ _ Hs). apply (I_class HI Et st id u v HE Hu Hv).
  Qed.

  Lemma self_conn_ok : forall Ins Et st id x fresh cr, I Et st -> psub Et Ins -> mem_of st id x ->
    dmap Ins st (fst cr) -> dmapr Ins st (snd cr) ->
    dmap Ins st (fst (self_conn id fresh cr)) /\ dmapr Ins st (snd (self_conn id fresh cr)).
  Proof.
    intros Ins Et st id x fresh cr HE Hs Mx H1 H2. unfold self_conn. destruct fresh; [|split; assumption]. cbn [fst snd].
    pose proof (good_self Ins Et st id x HE Hs Mx) as Hg. split; [apply dmap_mins|apply dmapr_mins]; assumption.
  Qed.

  Lemma add_nodes_ok : forall Ins nrel E st ncm ncrm st0,
    (forall p, In p nrel -> In p Ins) -> I E st -> psub E Ins -> ext st0 st ->
    t_conn st = t_conn st0 -> t_rev st = t_rev st0 ->
    dmap Ins st ncm -> dmapr Ins st ncrm ->
    exists st' ncm' ncrm' E', foldM add_nodes_step nrel (st, ncm, ncrm) = Ok (st', ncm', ncrm') /\
      I E' st' /\ psub E' Ins /\ ext st0 st' /\ t_conn st' = t_conn st0 /\ t_rev st' = t_rev st0 /\
      dmap Ins st' ncm' /\ dmapr Ins st' ncrm'.
  Proof.
    intros Ins. induction nrel as [|[x y] nrel IH]; intros E st ncm ncrm st0 Hn HE Hs He Hc Hr Hm Hmr.
    - exists st, ncm, ncrm, E. cbn [foldM]. split; [reflexivity|]. split; [exact HE|]. split; [exact Hs|]. split; [exact He|].
      split; [exact Hc|]. split; [exact Hr|]. split; [exact Hm|exact Hmr].
    - assert (Hxy : In (x, y) Ins) by (apply Hn; now left).
      destruct (I_node HI E st x HE) as [st1 [xid [xn [Ha1 [HE1 [Mx [Hc1 [Hr1 He1]]]]]]]].
      destruct (I_node HI _ st1 y HE1) as [st2 [yid [yn [Ha2 [HE2 [My [Hc2 [Hr2 He2]]]]]]]].
      assert (Hmx : mentioned Ins x) by (exists y; left; exact Hxy).
      assert (Hmy : mentioned Ins y) by (exists x; right; exact Hxy).
      assert (Hs2 : psub ((E ++ [(x, x)]) ++ [(y, y)]) Ins).
      { apply psub_app; [apply psub_app; [exact Hs|]|].
        - intros a b [Hab|[]]. inversion Hab; subst a b. apply mentioned_rtc; exact Hmx.
        - intros a b [Hab|[]]. inversion Hab; subst a b. apply mentioned_rtc; exact Hmy. }
      assert (He12 : ext st st2) by (eapply ext_trans; eassumption).
      assert (Hsub2 : forall u v, rtc ((E ++ [(x, x)]) ++ [(y, y)]) u v -> rtc Ins u v) by (apply rtc_closed; exact Hs2).
      pose proof (ext_mem st1 st2 xid x He2 Mx) as Mx2.
      assert (Hg : good Ins st2 xid yid).
      { split; [exists x; exact Mx2|]. split; [exists y; exact My|].
        intros u v Hu Hv. eapply rtc_t; [|eapply rtc_t].
        - apply Hsub2. apply (I_class HI _ st2 xid u x HE2 Hu Mx2).
        - apply rtc_e. exact Hxy.
        - apply Hsub2. apply (I_class HI _ st2 yid y v HE2 My Hv). }
      assert (Hm2 : dmap Ins st2 (mins xid yid ncm)).
      { apply dmap_mins; [|exact Hg]. eapply dmap_ext; [exact Hm|exact He12|auto]. }
      assert (Hmr2 : dmapr Ins st2 (mins yid xid ncrm)).
      { apply dmapr_mins; [|exact Hg]. eapply dmapr_ext; [exact Hmr|exact He12|auto]. }
      set (cr1 := self_conn xid xn (mins xid yid ncm, mins yid xid ncrm)).
      destruct (self_conn_ok Ins _ st2 xid x xn (mins xid yid ncm, mins yid xid ncrm) HE2 Hs2 Mx2 Hm2 Hmr2) as [Hm3 Hmr3]. fold cr1 in Hm3, Hmr3.
      destruct (self_conn_ok Ins _ st2 yid y yn cr1 HE2 Hs2 My Hm3 Hmr3) as [Hm4 Hmr4].
      assert (Hn' : forall p, In p nrel -> In p Ins) by (intros p Hp; apply Hn; now right).
      assert (He02 : ext st0 st2) by (eapply ext_trans; [exact He|exact He12]).
      assert (Hc02 : t_conn st2 = t_conn st0) by congruence.
      assert (Hr02 : t_rev st2 = t_rev st0) by congruence.
      destruct (IH ((E ++ [(x, x)]) ++ [(y, y)]) st2 _ _ st0 Hn' HE2 Hs2 He02 Hc02 Hr02 Hm4 Hmr4)
        as [st' [ncm' [ncrm' [E' [Hf Hrest]]]]].
      exists st', ncm', ncrm', E'. split; [|exact Hrest].
      cbn [foldM]. unfold add_nodes_step at 1. cbn [fst snd]. rewrite Ha1. cbn [bind]. rewrite Ha2. cbn [bind]. exact Hf.
  Qed.

  (* ---- the inner loop terminates within its fuel and returns good class pairs *)
  Lemma mhas_good : forall Ins tot m a b, dmap Ins tot m -> mhas a b m = true -> a < nsets tot /\ b < nsets tot.
  Proof.
    intros Ins tot m a b [Hm _] H. unfold mhas in H. apply smem_in in H. destruct (in_eget _ _ _ H) as [s0 [Hs0 Hb]].
    apply (good_lt _ _ _ _ (Hm a s0 b Hs0 Hb)).
  Qed.

  Lemma dloop_total : forall Ins tot ncm fuel dd ddr dt dtr,
    mall (good Ins tot) (t_conn tot) -> mall (flip2 (good Ins tot)) (t_rev tot) ->
    mall (good Ins tot) ncm ->
    dmap Ins tot dd -> dmapr Ins tot ddr -> dmap Ins tot dt -> dmapr Ins tot dtr ->
    length (unknown (nsets tot) dd dt) < fuel ->
    exists dt' dtr', dloop fuel tot ncm dd ddr dt dtr = Ok (dt', dtr') /\ dmap Ins tot dt' /\ dmapr Ins tot dtr'.
  Proof.
    intros Ins tot ncm. induction fuel as [|f IH]; intros dd ddr dt dtr Hc Hr Hn Hd Hdr Ht Htr Hfuel; [lia|].
    cbn [dloop].
    set (ca := fun x y => negb (mhas x y dd) && negb (mhas x y dt) && negb (mhas x y (t_conn tot))).
    assert (Htrans : forall w x y, good Ins tot w x -> good Ins tot x y -> good Ins tot w y) by (intros; eapply good_trans; eassumption).
    set (Q := fun acc : mset * mset * bool =>
                dmap Ins tot (fst (fst acc)) /\ dmapr Ins tot (snd (fst acc)) /\
                (forall a b, mhas a b (fst (fst acc)) = true -> ca a b = true) /\
                (snd acc = true -> exists a b, mhas a b (fst (fst acc)) = true)).
    assert (CQ : forall tg tr ch w y, Q (tg, tr, ch) -> good Ins tot w y -> ca w y = true -> mhas w y tg = false ->
                                      Q (mins w y tg, mins y w tr, true)).
    { intros tg tr ch w y [Q1 [Q2 [Q3 Q4]]] Hg Hca _. unfold Q. cbn [fst snd] in *. split; [apply dmap_mins; assumption|].
      split; [apply dmapr_mins; assumption|]. split.
      - intros a b Hab. rewrite mhas_mins in Hab. apply orb_true_iff in Hab. destruct Hab as [Hab|Hab]; [|apply Q3; exact Hab].
        apply andb_true_iff in Hab. destruct Hab as [Ha Hb]. apply Nat.eqb_eq in Ha, Hb. subst. exact Hca.
      - intros _. exists w, y. rewrite mhas_mins, !Nat.eqb_refl. reflexivity. }
    assert (Q0 : Q ([], [], false)).
    { unfold Q. cbn [fst snd]. split; [apply dmap_nil|]. split; [apply dmapr_nil|]. split; [intros a b H; discriminate|discriminate]. }
    match goal with |- context [join ca dd (t_rev tot) ?a] =>
      pose proof (join_inv_gen (good Ins tot) Q ca dd (t_rev tot) a Htrans (proj1 Hd) Hr CQ Q0) as J1;
      set (j1 := join ca dd (t_rev tot) a) in * end.
    pose proof (join_inv_gen (good Ins tot) Q ca (t_conn tot) ddr j1 Htrans Hc (proj1 Hdr) CQ J1) as J2.
    set (j2 := join ca (t_conn tot) ddr j1) in *.
    pose proof (join_inv_gen (good Ins tot) Q ca ncm ddr j2 Htrans Hn (proj1 Hdr) CQ J2) as J3.
    set (j3 := join ca ncm ddr j2) in *.
    clearbody j3. destruct j3 as [[g3 r3] c3]. destruct J3 as [Jg3 [Jr3 [Jca Jch]]]. cbn [fst snd] in Jg3, Jr3, Jca, Jch.
    assert (Hm1 : dmap Ins tot (mmove dd dt)) by (apply dmap_mmove; assumption).
    assert (Hm2 : dmapr Ins tot (mmove ddr dtr)) by (apply dmapr_mmove; assumption).
    destruct c3.
    - destruct (Jch eq_refl) as [w [y Hwy]]. pose proof (Jca w y Hwy) as Hca.
      apply IH; try assumption.
      assert (Hlt : length (unknown (nsets tot) g3 (mmove dd dt)) < length (unknown (nsets tot) dd dt)).
      { unfold unknown. apply (filter_length_lt _ _ _ _ (w, y)).
        - intros [a b] _ Hg. cbn [fst snd] in *. apply andb_true_iff in Hg. destruct Hg as [_ Hg2].
          apply negb_true_iff in Hg2. apply andb_true_iff. split; apply negb_true_iff.
          + destruct (mhas a b dd) eqn:E; [|reflexivity]. rewrite (mhas_mmove_from dd dt a b E) in Hg2. discriminate.
          + destruct (mhas a b dt) eqn:E; [|reflexivity]. rewrite (mhas_mmove_to dd dt a b E) in Hg2. discriminate.
        - destruct (mhas_good Ins tot g3 w y Jg3 Hwy) as [Hw Hy]. apply in_prod; apply in_seq; lia.
        - cbn [fst snd]. unfold ca in Hca. apply andb_true_iff in Hca. destruct Hca as [Hca _]. exact Hca.
        - cbn [fst snd]. rewrite Hwy. reflexivity. }
      lia.
    - eexists _, _. split; [reflexivity|split; assumption].
  Qed.

  Lemma unknown_bound : forall n dd dt, length (unknown n dd dt) <= n * n.
  Proof.
    intros n dd dt. unfold unknown.
    assert (Hle : forall A (f : A -> bool) l, length (filter f l) <= length l).
    { intros A f l. induction l as [|a l IHl]; cbn; [lia|]. destruct (f a); cbn; lia. }
    etransitivity; [apply Hle|]. rewrite prod_length, seq_length. lia.
  Qed.

  (* ---- the merge *)
  Definition new_ok (Ins : list (nat * nat)) (n : common) : Prop :=
    (exists r, n = CNew r /\ forall p, In p r -> In p Ins) \/ n = CTotal tr_empty.

  Lemma unwrap_new_ok : forall Ins n, new_ok Ins n -> exists r, unwrap_new n = Ok r /\ forall p, In p r -> In p Ins.
  Proof.
    intros Ins n [[r [-> Hr]]| ->]; [exists r; split; [reflexivity|exact Hr]|].
    exists []. split; [reflexivity|intros p []].
  Qed.

  (* the states the binary provider can be in: total is Total-shaped, and empty whenever delta is Total-shaped *)
  Definition bin_ok (Ins : list (nat * nat)) (n d t : common) : Prop :=
    new_ok Ins n /\ ver_ok Ins d /\ ver_ok Ins t /\
    (exists tt, t = CTotal tt) /\
    match d with CTotal _ => t = CTotal tr_empty | CDelta _ => True | CNew _ => False end.

  Lemma conn_good : forall Ins Et t, I Et t -> psub Et Ins -> mall (good Ins t) (t_conn t) /\ mall (flip2 (good Ins t)) (t_rev t).
  Proof.
    intros Ins Et t HE Hs. pose proof (rtc_closed _ _ Hs) as Hr. split.
    - intros k s v Hk Hv. eapply good_ext; [eapply (I_conn HI); eassumption|apply ext_refl|exact Hr].
    - intros k s v Hk Hv. unfold flip2. eapply good_ext; [eapply (I_rev HI); eassumption|apply ext_refl|exact Hr].
  Qed.

  (* what the merge computes once the shapes have been taken apart *)
  Definition merge_body (nrel prec : pset) (trel : truf) : res (common * common * common) :=
    if tr_is_empty trel && isnil prec then
      do nd <- tr_run tr_empty nrel; Ok (CNew [], CTotal nd, CTotal tr_empty)
    else
      do t1 <- tr_run trel prec;
      do (t2, ncm, ncrm) <- foldM add_nodes_step nrel (t1, [], []);
      do (dt, dtr) <- dloop (loop_fuel t2) t2 ncm ncm ncrm [] [];
      Ok (CNew [], CDelta (mkD dt dtr nrel t2), CTotal t2).

  Lemma merge_body_ok : forall Ins nrel prec trel Et,
    (forall p, In p nrel -> In p Ins) -> (forall p, In p prec -> In p Ins) -> I Et trel -> psub Et Ins ->
    exists n' d' t', merge_body nrel prec trel = Ok (n', d', t') /\ bin_ok Ins n' d' t'.
  Proof.
    intros Ins nrel prec trel Et Hn Hp HE Hs. unfold merge_body.
    assert (Hpair : forall l, (forall p, In p l -> In p Ins) -> psub l Ins).
    { intros l Hl x y Hxy. apply rtc_e. apply Hl; exact Hxy. }
    destruct (tr_is_empty trel && isnil prec).
    - destruct (I_run nrel [] tr_empty (I_empty HI)) as [nd [Hr Hnd]]. rewrite Hr. cbn [bind].
      eexists _, _, _. split; [reflexivity|]. unfold bin_ok. split; [left; exists []; split; [reflexivity|intros p []]|].
      split; [exists ([] ++ nrel); split; [exact Hnd|apply Hpair; exact Hn]|].
      split; [exists []; split; [apply (I_empty HI)|intros x y []]|].
      split; [eexists; reflexivity|reflexivity].
    - destruct (I_run prec Et trel HE) as [t1 [Hr H1]]. rewrite Hr. cbn [bind].
      assert (Hs1 : psub (Et ++ prec) Ins) by (apply psub_app; [exact Hs|apply Hpair; exact Hp]).
      destruct (add_nodes_ok Ins nrel _ t1 [] [] t1 Hn H1 Hs1 (ext_refl _) eq_refl eq_refl (dmap_nil _ _) (dmapr_nil _ _))
        as [t2 [ncm [ncrm [E' [Hf [HE2 [Hs2 [He2 [Hc2 [Hr2 [Hm Hmr]]]]]]]]]]].
      match goal with |- context [foldM add_nodes_step nrel ?a] =>
        replace (foldM add_nodes_step nrel a) with (Ok (t2, ncm, ncrm) : res (truf * mset * mset)) by (symmetry; exact Hf) end.
      cbn [bind].
      destruct (conn_good Ins E' t2 HE2 Hs2) as [Hcg Hrg].
      assert (Hfuel : length (unknown (nsets t2) ncm []) < loop_fuel t2).
      { pose proof (unknown_bound (nsets t2) ncm []) as Hb. unfold loop_fuel. fold (nsets t2). lia. }
      destruct (dloop_total Ins t2 ncm (loop_fuel t2) ncm ncrm [] [] Hcg Hrg (proj1 Hm) Hm Hmr (dmap_nil _ _) (dmapr_nil _ _) Hfuel)
        as [dt [dtr [Hd [Hdt Hdtr]]]]. rewrite Hd. cbn [bind].
      eexists _, _, _. split; [reflexivity|]. unfold bin_ok. split; [left; exists []; split; [reflexivity|intros p []]|].
      split.
      { cbn [ver_ok d_total d_conn d_rev d_prec]. split; [exists E'; split; assumption|]. split; [exact Hdt|]. split; [exact Hdtr|exact Hn]. }
      split; [exists E'; split; assumption|]. split; [eexists; reflexivity|constructor].
  Qed.

  Lemma merge_ok : forall Ins n d t, bin_ok Ins n d t ->
    exists n' d' t', c_merge n d t = Ok (n', d', t') /\ bin_ok Ins n' d' t'.
  Proof.
    intros Ins n d t [Hn [Hd [Ht [[tt Htt] Hsh]]]]. subst t.
    destruct (unwrap_new_ok _ _ Hn) as [nrel [Hun Hnrel]].
    destruct d as [r|dd|dt]; [destruct Hsh| |].
    - (* delta is a Delta: its precursor is folded into the structure of total *)
      assert (Heq : c_merge n (CDelta dd) (CTotal tt) = merge_body nrel (d_prec dd) tt).
      { unfold c_merge, merge_body. cbn [bind]. rewrite Hun. cbn [bind]. reflexivity. }
      rewrite Heq. destruct Hd as [_ [_ [_ Hp]]]. destruct Ht as [Et [HE Hs]].
      apply (merge_body_ok Ins nrel (d_prec dd) tt Et Hnrel Hp HE Hs).
    - (* delta is Total-shaped: total is the empty Total *)
      inversion Hsh; subst tt.
      assert (Heq : c_merge n (CTotal dt) (CTotal tr_empty) = merge_body nrel [] dt).
      { unfold c_merge, merge_body. destruct (tr_is_empty dt) eqn:Hemp.
        - cbn [common_is_empty t_ids isnil bind d_default d_prec]. rewrite Hun. cbn [bind].
          change (tr_is_empty tr_empty) with true. reflexivity.
        - cbn [common_is_empty t_ids tr_empty isnil bind d_default d_prec]. rewrite Hun. cbn [bind]. rewrite Hemp. reflexivity. }
      rewrite Heq. destruct Hd as [Et [HE Hs]].
      apply (merge_body_ok Ins nrel [] dt Et Hnrel (fun p (H : In p []) => match H with end) HE Hs).
  Qed.

  (* ---- reading a version *)
  Definition vmap (st : truf) (m : mset) : Prop := forall k s, In (k, s) m -> k < nsets st /\ forall b, In b s -> b < nsets st.

  Lemma dmap_vmap : forall Ins st m, dmap Ins st m -> vmap st m.
  Proof. intros Ins st m [H1 H2] k s Hk. split; [eapply H2; eassumption|]. intros b Hb. apply (good_lt _ _ _ _ (H1 k s b Hk Hb)). Qed.
  Lemma dmapr_vmap : forall Ins st m, dmapr Ins st m -> vmap st m.
  Proof. intros Ins st m [H1 H2] k s Hk. split; [eapply H2; eassumption|]. intros b Hb. apply (good_lt _ _ _ _ (H1 k s b Hk Hb)). Qed.

  Lemma in_concat_gs : forall st cs y, In y (concat (map (gs st) cs)) <-> exists b, In b cs /\ mem_of st b y.
  Proof.
    intros st cs y. rewrite in_concat. split.
    - intros [l [Hl Hy]]. apply in_map_iff in Hl. destruct Hl as [b [<- Hb]]. exists b. split; [exact Hb|apply mem_of_gs; exact Hy].
    - intros [b [Hb Hy]]. exists (gs st b). split; [apply in_map; exact Hb|apply mem_of_gs; exact Hy].
  Qed.

  Lemma set_at_ok : forall st k, k < nsets st -> set_at st k = Ok (gs st k).
  Proof. intros st k Hk. unfold set_at. rewrite nth_gs by exact Hk. reflexivity. Qed.

  Lemma d_ind_get_sound : forall d m (R : nat -> nat -> Prop) Et,
    I Et (d_total d) -> vmap (d_total d) m ->
    (forall k s b x y, In (k, s) m -> In b s -> mem_of (d_total d) k x -> mem_of (d_total d) b y -> R x y) ->
    forall x, exists o, d_ind_get d m x = Ok o /\ forall l y, o = Some l -> In y l -> R x y.
  Proof.
    intros d m R Et HE Hv HR x. unfold d_ind_get.
    destruct (I_elem HI Et _ x HE) as [ox [Hex Hmx]]. rewrite Hex. cbn [bind].
    destruct ox as [xs|]; [|eexists; split; [reflexivity|discriminate]].
    destruct (aget xs m) as [cs|] eqn:Hc; [|eexists; split; [reflexivity|discriminate]].
    apply aget_in in Hc. rewrite sets_of_ok by (apply (Hv _ _ Hc)). cbn [bind].
    eexists; split; [reflexivity|]. intros l y El Hy. inversion El; subst l.
    apply in_concat_gs in Hy. destruct Hy as [b [Hb Hyb]]. eapply HR; try eassumption. apply Hmx; reflexivity.
  Qed.

  Lemma d_ind_iter_all_sound : forall d m (R : nat -> nat -> Prop),
    vmap (d_total d) m ->
    (forall k s b x y, In (k, s) m -> In b s -> mem_of (d_total d) k x -> mem_of (d_total d) b y -> R x y) ->
    exists l, d_ind_iter_all d m = Ok l /\ forall x ys y, In (x, ys) l -> In y ys -> R x y.
  Proof.
    intros d m R Hv HR. unfold d_ind_iter_all.
    rewrite (mapM_ok _ _ _ (fun kv => map (fun x => (x, concat (map (gs (d_total d)) (snd kv)))) (gs (d_total d) (fst kv))) m).
    - cbn [bind]. eexists; split; [reflexivity|]. intros x ys y Hin Hy.
      apply in_concat in Hin. destruct Hin as [l [Hl Hx]]. apply in_map_iff in Hl. destruct Hl as [[k s] [<- Hk]].
      cbn [fst snd] in Hx. apply in_map_iff in Hx. destruct Hx as [x' [Heq Hx']]. inversion Heq; subst x' ys.
      apply in_concat_gs in Hy. destruct Hy as [b [Hb Hyb]]. eapply HR; try eassumption. apply mem_of_gs; exact Hx'.
    - intros [k s] Hk. cbn [fst snd]. destruct (Hv _ _ Hk) as [Hkl Hsl].
      rewrite set_at_ok by exact Hkl. cbn [bind]. rewrite sets_of_ok by exact Hsl. reflexivity.
  Qed.

  Lemma delta_sound : forall Ins d, ver_ok Ins (CDelta d) -> sound_version Ins (CDelta d).
  Proof.
    intros Ins d [[Et [HE Hs]] [Hc [Hv _]]]. set (st := d_total d) in *.
    assert (RC : forall k s b x y, In (k, s) (d_conn d) -> In b s -> mem_of st k x -> mem_of st b y -> rtc Ins x y).
    { intros k s b x y Hk Hb Hx Hy. destruct (proj1 Hc k s b Hk Hb) as [_ [_ Hg]]. apply Hg; assumption. }
    assert (RV : forall k s b x y, In (k, s) (d_rev d) -> In b s -> mem_of st k x -> mem_of st b y -> rtc Ins y x).
    { intros k s b x y Hk Hb Hx Hy. destruct (proj1 Hv k s b Hk Hb) as [_ [_ Hg]]. apply Hg; assumption. }
    unfold sound_version. cbn [c_contains c_iter_all c_ind_get c_ind_iter_all].
    split; [|split; [|split; [|split; [|split]]]].
    - intros x y. unfold d_contains. fold st.
      destruct (I_elem HI Et st x HE) as [ox [Hex Hmx]]. rewrite Hex. cbn [bind].
      destruct ox as [xs|]; [|eexists; split; [reflexivity|discriminate]].
      destruct (I_elem HI Et st y HE) as [oy [Hey Hmy]]. rewrite Hey. cbn [bind].
      destruct oy as [ys|]; [|eexists; split; [reflexivity|discriminate]].
      destruct (aget xs (d_conn d)) as [c|] eqn:Hcx; [|eexists; split; [reflexivity|discriminate]].
      eexists; split; [reflexivity|]. intros Hb. apply smem_in in Hb. apply aget_in in Hcx.
      eapply RC; try eassumption; [apply Hmx|apply Hmy]; reflexivity.
    - unfold d_iter_all. fold st.
      rewrite (mapM_ok _ _ _ (fun kv => list_prod (gs st (fst kv)) (concat (map (gs st) (snd kv)))) (d_conn d)).
      + cbn [bind]. eexists; split; [reflexivity|]. intros x y Hin.
        apply in_concat in Hin. destruct Hin as [l [Hl Hxy]]. apply in_map_iff in Hl. destruct Hl as [[k s] [<- Hk]].
        cbn [fst snd] in Hxy. apply in_prod_iff in Hxy. destruct Hxy as [Hx Hy].
        apply in_concat_gs in Hy. destruct Hy as [b [Hb Hyb]].
        eapply RC; try eassumption. apply mem_of_gs; exact Hx.
      + intros [k s] Hk. cbn [fst snd]. destruct (dmap_vmap _ _ _ Hc _ _ Hk) as [Hkl Hsl].
        rewrite set_at_ok by exact Hkl. cbn [bind]. rewrite sets_of_ok by exact Hsl. reflexivity.
    - apply (d_ind_get_sound d (d_conn d) (fun x y => rtc Ins x y) Et HE (dmap_vmap _ _ _ Hc) RC).
    - apply (d_ind_get_sound d (d_rev d) (fun x y => rtc Ins y x) Et HE (dmapr_vmap _ _ _ Hv) RV).
    - apply (d_ind_iter_all_sound d (d_conn d) (fun x y => rtc Ins x y) (dmap_vmap _ _ _ Hc) RC).
    - apply (d_ind_iter_all_sound d (d_rev d) (fun x y => rtc Ins y x) (dmapr_vmap _ _ _ Hv) RV).
  Qed.

  Lemma total_sound : forall Ins t, ver_ok Ins (CTotal t) -> sound_version Ins (CTotal t).
  Proof.
    intros Ins t [Et [HE Hs]]. eapply sound_version_mono; [apply (I_total HI); exact HE|apply rtc_closed; exact Hs].
  Qed.

  Lemma readable_sound : forall Ins c, ver_ok Ins c -> (forall r, c <> CNew r) -> sound_version Ins c.
  Proof.
    intros Ins [r|d|t] H Hn; [exfalso; eapply Hn; reflexivity|apply delta_sound; exact H|apply total_sound; exact H].
  Qed.

  (* ---- histories *)
  Definition op_pair (o : op) : list (nat * nat) :=
    match o with OIns _ x y => [(x, y)] | OHead _ x y => [(x, y)] | _ => [] end.
  Definition args (ops : list op) : list (nat * nat) := flat_map op_pair ops.

  Definition st_ok (Ins : list (nat * nat)) (st : pstate common) : Prop :=
    bin_ok Ins (s_new st) (s_delta st) (s_total st) /\ (exists t, s_stored st = CTotal t /\ ver_ok Ins (CTotal t)).

  Lemma bin_ok_mono : forall Ins Ins' n d t, bin_ok Ins n d t -> (forall p, In p Ins -> In p Ins') -> bin_ok Ins' n d t.
  Proof.
    intros Ins Ins' n d t [Hn [Hd [Ht [Htt Hsh]]]] Hi. split; [|split; [|split; [|split]]]; try assumption.
    - destruct Hn as [[r [-> Hr]]| ->]; [left; exists r; split; [reflexivity|auto]|right; reflexivity].
    - eapply ver_ok_mono; eassumption.
    - eapply ver_ok_mono; eassumption.
  Qed.

  Lemma st_ok_mono : forall Ins Ins' st, st_ok Ins st -> (forall p, In p Ins -> In p Ins') -> st_ok Ins' st.
  Proof.
    intros Ins Ins' st [Hb [t [Hst Hv]]] Hi. split; [eapply bin_ok_mono; eassumption|].
    exists t. split; [exact Hst|eapply (ver_ok_mono Ins Ins' (CTotal t)); eassumption].
  Qed.

  Lemma delta_readable : forall Ins n d t, bin_ok Ins n d t -> forall r, d <> CNew r.
  Proof. intros Ins n d t [_ [_ [_ [_ Hsh]]]] r ->. exact Hsh. Qed.

  Lemma read_both_ok : forall dom Ins st, st_ok Ins st -> exists it, read_both (bin_prov dom) st = Ok it.
  Proof.
    intros dom Ins st [Hb _]. pose proof (delta_readable _ _ _ _ Hb) as Hnd.
    destruct Hb as [_ [Hd [Ht [[tt Htt] _]]]]. unfold read_both. cbn [p_read bin_prov].
    destruct (read_bin_total dom _ (sound_methods_total _ _ (readable_sound _ _ Hd Hnd))) as [vd Hvd]. rewrite Hvd. cbn [bind].
    rewrite Htt in *. destruct (read_bin_total dom _ (sound_methods_total _ _ (total_sound _ _ Ht))) as [vt Hvt]. rewrite Hvt. cbn [bind].
    eexists; reflexivity.
  Qed.

  Lemma insert_ok : forall Ins n x y, new_ok Ins n -> exists n' b, c_insert n x y = Ok (n', b) /\ new_ok (Ins ++ [(x, y)]) n'.
  Proof.
    intros Ins n x y Hn. destruct (unwrap_new_ok _ _ Hn) as [r [Hu Hr]]. unfold c_insert. rewrite Hu. cbn [bind].
    destruct (pmem (x, y) r); eexists _, _; (split; [reflexivity|]); left; eexists; (split; [reflexivity|]).
    - intros p Hp. apply in_app_iff. left. apply Hr; exact Hp.
    - intros p Hp. apply in_app_iff. apply in_app_iff in Hp. destruct Hp as [Hp|Hp]; [left; apply Hr; exact Hp|right; exact Hp].
  Qed.

  Lemma step_ok : forall dom Ins st o, st_ok Ins st ->
    exists st' it, step (bin_prov dom) st o = Ok (st', it) /\ st_ok (Ins ++ op_pair o) st'.
  Proof.
    intros dom Ins st o Hst. pose proof Hst as [Hb [ts [Hs Hvs]]].
    assert (Hinc : forall l p, In p Ins -> In p (Ins ++ l)) by (intros l p Hp; apply in_app_iff; now left).
    destruct o as [| | |k x y|k x y]; cbn [op_pair]; try rewrite app_nil_r.
    - (* stratum start *)
      cbn [step bin_prov p_init p_default c_init].
      set (st1 := mkPS c_default (CNew []) (s_stored st) c_default).
      assert (H1 : st_ok Ins st1).
      { split.
        - unfold st1; cbn [s_new s_delta s_total]. split; [left; exists []; split; [reflexivity|intros p []]|].
          rewrite Hs. split; [exact Hvs|]. split; [exists []; split; [apply (I_empty HI)|intros a b []]|].
          split; [eexists; reflexivity|reflexivity].
        - exists tr_empty. split; [reflexivity|]. exists []. split; [apply (I_empty HI)|intros a b []]. }
      destruct (read_both_ok dom Ins st1 H1) as [it Hit]. fold st1. rewrite Hit. cbn [bind]. eexists _, _. split; [reflexivity|exact H1].
    - (* stratum end *)
      cbn [step bin_prov p_default]. eexists _, _. split; [reflexivity|].
      destruct Hb as [Hn [Hd [Ht [[tt Htt] Hsh]]]]. split.
      + cbn [s_new s_delta s_total]. split; [exact Hn|]. split; [exact Hd|].
        split; [exists []; split; [apply (I_empty HI)|intros a b []]|]. split; [eexists; reflexivity|].
        destruct (s_delta st); [exact Hsh|constructor|reflexivity].
      + cbn [s_stored]. exists tt. rewrite Htt in Ht. split; [exact Htt|exact Ht].
    - (* merge *)
      cbn [step bin_prov p_merge].
      destruct (merge_ok Ins _ _ _ Hb) as [n' [d' [t' [Hm Hb']]]]; rewrite Hm; cbn [bind].
      set (st1 := mkPS (s_stored st) n' d' t').
      assert (H1 : st_ok Ins st1) by (split; [exact Hb'|exists ts; split; assumption]).
      destruct (read_both_ok dom Ins st1 H1) as [it Hit]. fold st1. rewrite Hit. cbn [bind]. eexists _, _. split; [reflexivity|exact H1].
    - (* insert *)
      cbn [step bin_prov p_insert]. destruct Hb as [Hn [Hd [Ht [Htt Hsh]]]].
      destruct (insert_ok Ins _ x y Hn) as [n' [b [Hi Hn']]]. rewrite Hi. cbn [bind]. eexists _, _. split; [reflexivity|].
      split; [|exists ts; split; [exact Hs|eapply (ver_ok_mono Ins _ (CTotal ts)); [exact Hvs|apply Hinc]]].
      cbn [s_new s_delta s_total]. split; [exact Hn'|]. split; [eapply ver_ok_mono; [exact Hd|apply Hinc]|].
      split; [eapply ver_ok_mono; [exact Ht|apply Hinc]|]. split; assumption.
    - (* head update *)
      cbn [step bin_prov p_contains p_insert].
      pose proof (delta_readable _ _ _ _ Hb) as Hnd. destruct Hb as [Hn [Hd [Ht [[tt Htt] Hsh]]]].
      assert (Hmono : st_ok (Ins ++ [(x, y)]) st) by (eapply st_ok_mono; [exact Hst|apply Hinc]).
      rewrite Htt in Ht. destruct (total_sound _ _ Ht) as [Hc _]. destruct (Hc x y) as [bt [Hbt _]]. rewrite Htt, Hbt. cbn [bind].
      destruct bt; [eexists _, _; split; [reflexivity|exact Hmono]|].
      destruct (readable_sound _ _ Hd Hnd) as [Hcd _]. destruct (Hcd x y) as [bd [Hbd _]]. rewrite Hbd. cbn [bind].
      destruct bd; [eexists _, _; split; [reflexivity|exact Hmono]|].
      destruct (insert_ok Ins _ x y Hn) as [n' [b [Hi Hn']]]. rewrite Hi. cbn [bind]. eexists _, _. split; [reflexivity|].
      split; [|exists ts; split; [exact Hs|eapply (ver_ok_mono Ins _ (CTotal ts)); [exact Hvs|apply Hinc]]].
      cbn [s_new s_delta s_total]. split; [exact Hn'|]. split; [eapply ver_ok_mono; [exact Hd|apply Hinc]|].
      split; [eapply (ver_ok_mono Ins _ (CTotal tt)); [exact Ht|apply Hinc]|]. split; [eexists; reflexivity|].
      rewrite Htt in Hsh. exact Hsh.
  Qed.

  Lemma run_ok : forall dom ops Ins st, st_ok Ins st ->
    exists st', run_state (bin_prov dom) st ops = Ok st' /\ st_ok (Ins ++ args ops) st'.
  Proof.
    intros dom. induction ops as [|o ops IH]; intros Ins st Hst.
    - exists st. split; [reflexivity|]. cbn. rewrite app_nil_r. exact Hst.
    - cbn [run_state]. destruct (step_ok dom Ins st o Hst) as [st1 [it [Hs H1]]]; rewrite Hs; cbn [bind].
      destruct (IH _ _ H1) as [st' [Hr H']].
      exists st'. split; [exact Hr|]. cbn [args flat_map]. rewrite app_assoc. exact H'.
  Qed.

  Lemma init_ok : forall dom, st_ok [] (ps_init (bin_prov dom)).
  Proof.
    intros dom. assert (He : ver_ok [] (CTotal tr_empty)) by (exists []; split; [apply (I_empty HI)|intros a b []]).
    split.
    - cbn. split; [right; reflexivity|]. split; [exact He|]. split; [exact He|]. split; [eexists; reflexivity|reflexivity].
    - exists tr_empty. split; [reflexivity|exact He].
  Qed.

  Theorem bin_protocol_sound : forall dom ops,
    exists st, run_state (bin_prov dom) (ps_init (bin_prov dom)) ops = Ok st /\
       sound_version (args ops) (s_delta st) /\ sound_version (args ops) (s_total st) /\ sound_version (args ops) (s_stored st).
  Proof.
    intros dom ops. destruct (run_ok dom ops [] _ (init_ok dom)) as [st [Hr Hst]].
    exists st. split; [exact Hr|]. cbn [app] in Hst. pose proof Hst as [Hb [ts [Hs Hvs]]].
    pose proof (delta_readable _ _ _ _ Hb) as Hnd. destruct Hb as [_ [Hd [Ht [[tt Htt] _]]]].
    split; [apply readable_sound; assumption|]. split.
    - rewrite Htt in *. apply total_sound; exact Ht.
    - rewrite Hs. apply total_sound; exact Hvs.
  Qed.
End Protocol.

(* ---- the observations of a history and its final state: a panic item appears exactly when a step fails *)
Lemma step_item_not_panic : forall St (P : prov St) st o st' it, step P st o = Ok (st', it) -> forall n e, it <> RPanic n e.
Proof.
  intros St P st o st' it H n e ->. destruct o; cbn [step] in H.
  - destruct (p_init P (p_default P) (s_stored st) (p_default P)) as [[n0 d0] t0].
    unfold read_both in H. destruct (p_read P _); cbn in H; [|discriminate]. destruct (p_read P _); cbn in H; [|discriminate]. inversion H.
  - inversion H.
  - destruct (p_merge P _ _ _) as [[[n0 d0] t0]|]; cbn in H; [|discriminate].
    unfold read_both in H. destruct (p_read P _); cbn in H; [|discriminate]. destruct (p_read P _); cbn in H; [|discriminate]. inversion H.
  - destruct (p_insert P _ _ _ _) as [[n0 b]|]; cbn in H; [|discriminate]. inversion H.
  - destruct (p_contains P (s_total st) _ _ _) as [[|]|]; cbn in H; [inversion H| |discriminate].
    destruct (p_contains P (s_delta st) _ _ _) as [[|]|]; cbn in H; [inversion H| |discriminate].
    destruct (p_insert P _ _ _ _) as [[n0 b]|]; cbn in H; [|discriminate]. inversion H.
Qed.

Lemma run_hist_panics : forall St (P : prov St) ops st i acc n e,
  In (RPanic n e) (run_hist P st ops i acc) -> In (RPanic n e) acc \/ run_state P st ops = Err e.
Proof.
  intros St P. induction ops as [|o ops IH]; intros st i acc n e Hin; cbn [run_hist run_state] in *.
  - left. apply in_rev in Hin. exact Hin.
  - destruct (step P st o) as [[st1 it]|e'] eqn:Hs; cbn [bind].
    + destruct (IH _ _ _ _ _ Hin) as [[Heq|Hacc]|Hr]; [|left; exact Hacc|right; exact Hr].
      exfalso. eapply step_item_not_panic; [exact Hs|exact Heq].
    + apply in_rev in Hin. destruct Hin as [Heq|Hacc]; [|left; exact Hacc]. inversion Heq; subst. right. reflexivity.
Qed.

(* Theorem (binary form, every sequence of operations, relative to the interface of the union-find structure):
   - whatever any method of the delta, total or stored version serves lies in the reflexive transitive closure of the
     pairs handed to insert so far (soundness, for every history);
   - no operation of the provider fails: no assert, no unwrap, no index out of bounds, no "unexpected shape" panic, and the inner
     semi-naive loop of the merge ends within (number of classes)^2 + 2 rounds (every round that changes something removes a class
     pair from the finite set of pairs that are in neither delta_delta nor delta_total). *)
Theorem bin_never_panics_partial : forall I, truf_iface I -> forall dom ops n e, ~ In (RPanic n e) (run_bin dom ops).
Proof.
  intros I HI dom ops n e Hin. unfold run_bin in Hin.
  destruct (run_hist_panics _ _ _ _ _ _ _ _ Hin) as [[]|Hr].
  destruct (bin_protocol_sound I HI dom ops) as [st [Hok _]]. congruence.
Qed.

(* ---- the interface is what C18 proves for its invariant, except for add_node on a new element *)
Definition iface_except_node (I : list (nat * nat) -> truf -> Prop) : Prop :=
  I [] tr_empty /\
  (forall E st x y, I E st -> exists st' b, tr_add st x y = Ok (st', b) /\ I (E ++ [(x, y)]) st') /\
  (forall E st a s b, I E st -> In (a, s) (t_conn st) -> In b s -> good E st a b) /\
  (forall E st a s b, I E st -> In (a, s) (t_rev st) -> In b s -> good E st b a) /\
  (forall E st s x y, I E st -> mem_of st s x -> mem_of st s y -> rtc E x y) /\
  (forall E st x, I E st -> exists o, elem_set st x = Ok o /\ forall s, o = Some s -> mem_of st s x) /\
  (forall E st, I E st -> sound_version E (CTotal st)).

Theorem tinv_iface_except_node : iface_except_node tinv.
Proof.
  unfold iface_except_node. split; [exact tr_empty_inv|]. split; [exact tr_add_inv|].
  assert (Hne : forall E st (H : tinv E st) m a s b, mset_wf st m -> In (a, s) m -> In b s ->
                 aget a m = Some s /\ (exists x, mem_of st a x) /\ (exists y, mem_of st b y)).
  { intros E st H m a s b Hw Hin Hb. pose proof Hw as [Hnd Hwf].
    pose proof (in_aget _ _ _ _ Hnd Hin) as Hag. destruct (Hwf _ _ Hag) as [Ha [_ Hj]].
    split; [exact Hag|]. split; [apply (w_nonempty _ _ H); exact Ha|apply (w_nonempty _ _ H), Hj; exact Hb]. }
  split; [|split; [|split; [|split; [|]]]].
  - intros E st a s b H Hin Hb. destruct (Hne E st H _ a s b (w_conn _ _ H) Hin Hb) as [Hag [Hx Hy]].
    split; [exact Hx|]. split; [exact Hy|]. intros x y Mx My. apply (m_conn _ _ H a b); try assumption.
    unfold cn, eget. rewrite Hag. exact Hb.
  - intros E st a s b H Hin Hb. destruct (Hne E st H _ a s b (w_rev _ _ H) Hin Hb) as [Hag [Hx Hy]].
    split; [exact Hy|]. split; [exact Hx|]. intros x y Mx My.
    destruct (Nat.eq_dec b a) as [->|Hneq]; [eapply (m_class _ _ H); eassumption|].
    apply (m_conn _ _ H b a); try assumption. apply (g_conv _ _ H b a Hneq). unfold rv, eget. rewrite Hag. exact Hb.
  - intros E st s x y H. apply (m_class _ _ H).
  - intros E st x H. destruct (elem_set_cases E st H x) as [[He _]|[d [He [_ [Hm _]]]]]; rewrite He; eexists; (split; [reflexivity|]).
    + discriminate.
    + intros s Hs. inversion Hs; subst. exact Hm.
  - intros E st H. eapply exact_sound, total_exact; exact H.
Qed.

(* ---- the interface is discharged by C18's invariant in its weak form (no entry demanded for any class): the two theorems
   about every history of the binary form hold unconditionally *)
Theorem tinv_weak_iface : truf_iface tinv_weak.
Proof.
  constructor.
  - exact tr_empty_inv.
  - intros E st x y H. apply tr_add_inv; exact H.
  - intros E st x H. destruct (ann_weak E st x H) as [st' [id [fr [Ha [H' [_ [Hm [Hc [Hr [Hle Hnth]]]]]]]]]].
    exists st', id, fr. split; [exact Ha|]. split; [exact H'|]. split; [exact Hm|]. split; [exact Hc|]. split; [exact Hr|].
    split; [exact Hle|exact Hnth].
  - intros E st a s b H Hin Hb. exact (weak_conn_good E st a s b H Hin Hb).
  - intros E st a s b H Hin Hb. exact (weak_rev_good E st a s b H Hin Hb).
  - intros E st s x y H. apply (weak_class E st s x y H).
  - intros E st x H. apply (weak_elem E st x H).
  - intros E st H. eapply exact_sound, total_exact; exact H.
Qed.

Theorem bin_sound : forall dom ops,
  exists st, run_state (bin_prov dom) (ps_init (bin_prov dom)) ops = Ok st /\
     sound_version (args ops) (s_delta st) /\ sound_version (args ops) (s_total st) /\ sound_version (args ops) (s_stored st).
Proof. exact (bin_protocol_sound tinv_weak tinv_weak_iface). Qed.

Theorem bin_never_panics : forall dom ops n e, ~ In (RPanic n e) (run_bin dom ops).
Proof. exact (bin_never_panics_partial tinv_weak tinv_weak_iface). Qed.

(* ================================================================== Part 6: the inner loop of the merge closes total + new transitively
   (class level, independent of the union-find structure: only the connection maps and the class pairs of `new` matter) *)

Lemma fold_left_each : forall A B (R : B -> A -> Prop) (f : A -> B -> A) l a,
  (forall a b b', R b' a -> R b' (f a b)) -> (forall a b, R b (f a b)) -> forall b, In b l -> R b (fold_left f l a).
Proof.
  induction l as [|h l IH]; intros a Hp He b Hin; [destruct Hin|]. cbn [fold_left]. destruct Hin as [->|Hin].
  - apply (fold_left_inv _ _ (R b)); [apply He|]. intros a' b' _ H; apply Hp; exact H.
  - apply IH; assumption.
Qed.

Section JoinComplete.
  Variable ca : nat -> nat -> bool.

  Definition jH (acc : mset * mset * bool) (w y : nat) : Prop := mhas w y (fst (fst acc)) = true \/ ca w y = false.

  Lemma join_inner_mono : forall w acc y a b, mhas a b (fst (fst acc)) = true -> mhas a b (fst (fst (join_inner ca w acc y))) = true.
  Proof.
    intros w [[tg tr] ch] y a b H. unfold join_inner. cbn [fst snd] in *. destruct (ca w y); [|exact H].
    destruct (mhas w y tg); [exact H|]. cbn [fst]. rewrite mhas_mins, H. apply orb_true_r.
  Qed.

  Lemma join_inner_est : forall w acc y, jH (join_inner ca w acc y) w y.
  Proof.
    intros w [[tg tr] ch] y. unfold jH, join_inner. destruct (ca w y) eqn:Hc; [|right; reflexivity].
    destruct (mhas w y tg) eqn:Hm; [left; exact Hm|]. left. cbn [fst]. rewrite mhas_mins, !Nat.eqb_refl. reflexivity.
  Qed.

  Lemma jH_inner : forall w acc y a b, jH acc a b -> jH (join_inner ca w acc y) a b.
  Proof. intros w acc y a b [H|H]; [left; apply join_inner_mono; exact H|right; exact H]. Qed.

  Lemma inner_fold_mono : forall w xset acc a b, mhas a b (fst (fst acc)) = true -> mhas a b (fst (fst (fold_left (join_inner ca w) xset acc))) = true.
  Proof. intros w xset acc a b H. apply (fold_left_inv _ _ (fun acc => mhas a b (fst (fst acc)) = true)); [exact H|]. intros a0 y _ H0. apply join_inner_mono; exact H0. Qed.

  Lemma inner_fold_est : forall w xset acc y, In y xset -> jH (fold_left (join_inner ca w) xset acc) w y.
  Proof.
    intros w xset acc y Hy. apply (fold_left_each _ _ (fun y acc => jH acc w y)); [| |exact Hy].
    - intros a0 b b' H. apply jH_inner; exact H.
    - intros a0 b. apply join_inner_est.
  Qed.

  Definition mid_fold (xset : list nat) (acc : mset * mset * bool) (xrev : list nat) : mset * mset * bool :=
    fold_left (fun acc w => fold_left (join_inner ca w) xset acc) xrev acc.

  Lemma mid_fold_mono : forall xset xrev acc a b, mhas a b (fst (fst acc)) = true -> mhas a b (fst (fst (mid_fold xset acc xrev))) = true.
  Proof.
    intros xset xrev acc a b H. unfold mid_fold. apply (fold_left_inv _ _ (fun acc => mhas a b (fst (fst acc)) = true)); [exact H|].
    intros a0 w _ H0. apply inner_fold_mono; exact H0.
  Qed.

  Lemma mid_fold_est : forall xset xrev acc w y, In w xrev -> In y xset -> jH (mid_fold xset acc xrev) w y.
  Proof.
    intros xset xrev acc w y Hw Hy. unfold mid_fold.
    apply (fold_left_each _ _ (fun w acc => forall y, In y xset -> jH acc w y)); [| |exact Hw|exact Hy].
    - intros a0 b b' H y0 Hy0. destruct (H y0 Hy0) as [H1|H1]; [left; apply inner_fold_mono; exact H1|right; exact H1].
    - intros a0 b y0 Hy0. apply inner_fold_est; exact Hy0.
  Qed.

  Lemma join_unfold : forall rel1 rel2_rev acc,
    join ca rel1 rel2_rev acc =
    fold_left (fun acc kv => match aget (fst kv) rel2_rev with None => acc | Some xrev => mid_fold (snd kv) acc xrev end) rel1 acc.
  Proof. reflexivity. Qed.

  Lemma join_mono : forall rel1 rel2_rev acc a b, mhas a b (fst (fst acc)) = true -> mhas a b (fst (fst (join ca rel1 rel2_rev acc))) = true.
  Proof.
    intros rel1 rel2_rev acc a b H. rewrite join_unfold. apply (fold_left_inv _ _ (fun acc => mhas a b (fst (fst acc)) = true)); [exact H|].
    intros a0 kv _ H0. destruct (aget (fst kv) rel2_rev); [apply mid_fold_mono; exact H0|exact H0].
  Qed.

  (* every composition of a pair of rel2 with a pair of rel1 is in the target afterwards, unless can_add rejects it *)
  Lemma join_complete : forall rel1 rel2_rev acc x xset xrev w y,
    In (x, xset) rel1 -> aget x rel2_rev = Some xrev -> In w xrev -> In y xset ->
    jH (join ca rel1 rel2_rev acc) w y.
  Proof.
    intros rel1 rel2_rev acc x xset xrev w y Hin Hx Hw Hy. rewrite join_unfold.
    pose proof (fold_left_each _ _ (fun kv acc => forall xrev w y, aget (fst kv) rel2_rev = Some xrev -> In w xrev -> In y (snd kv) -> jH acc w y)
             (fun acc kv => match aget (fst kv) rel2_rev with None => acc | Some xrev => mid_fold (snd kv) acc xrev end) rel1 acc) as FE.
    cbv beta in FE. apply (fun Hp He => FE Hp He (x, xset) Hin xrev w y Hx Hw Hy).
    - intros a0 kv kv' H xr w0 y0 Hk Hw0 Hy0. destruct (H xr w0 y0 Hk Hw0 Hy0) as [H1|H1]; [left|right; exact H1].
      destruct (aget (fst kv) rel2_rev); [apply mid_fold_mono; exact H1|exact H1].
    - intros a0 kv xr w0 y0 Hk Hw0 Hy0. rewrite Hk. apply mid_fold_est; assumption.
  Qed.
End JoinComplete.

Lemma mhas_cons : forall a b k s (m : mset), mhas a b ((k, s) :: m) = if Nat.eqb a k then smem b s else mhas a b m.
Proof. intros a b k s m. unfold mhas, eget. cbn [aget]. destruct (Nat.eqb a k); reflexivity. Qed.

Lemma mhas_absent : forall a b (m : mset), ~ In a (map fst m) -> mhas a b m = false.
Proof.
  intros a b m H. unfold mhas, eget. destruct (aget a m) as [s|] eqn:Hs; [|reflexivity].
  exfalso. apply H. apply in_map_iff. exists (a, s). split; [reflexivity|apply aget_in; exact Hs].
Qed.

Lemma mhas_mmove : forall from to a b, NoDup (map fst from) -> mhas a b (mmove from to) = mhas a b to || mhas a b from.
Proof.
  induction from as [|[k s] from IH]; intros to a b Hnd.
  - unfold mmove. cbn [fold_left]. unfold mhas at 3. cbn. rewrite orb_false_r. reflexivity.
  - cbn [map fst] in Hnd. inversion Hnd as [|? ? Hk Hnd']; subst. unfold mmove in *. cbn [fold_left fst snd].
    rewrite (IH _ a b Hnd'). rewrite mhas_cons. unfold mhas at 1. rewrite eget_aset.
    destruct (Nat.eqb_spec a k) as [->|Hne].
    + rewrite (mhas_absent k b from Hk). rewrite orb_false_r. unfold smem. rewrite existsb_app. reflexivity.
    + reflexivity.
Qed.

Lemma mhas_binding : forall a b (m : mset), mhas a b m = true -> exists s, aget a m = Some s /\ In b s.
Proof.
  intros a b m H. unfold mhas, eget in H. destruct (aget a m) as [s|]; [|discriminate]. exists s. split; [reflexivity|apply smem_in; exact H].
Qed.

Lemma binding_mhas : forall a s b (m : mset), NoDup (map fst m) -> In (a, s) m -> In b s -> mhas a b m = true.
Proof.
  intros a s b m Hnd Hin Hb. unfold mhas, eget. rewrite (in_aget _ _ _ _ Hnd Hin). apply smem_in; exact Hb.
Qed.

Lemma nodup_mins : forall w y (m : mset), NoDup (map fst m) -> NoDup (map fst (mins w y m)).
Proof. intros w y m H. unfold mins. apply nodup_keys_aset; exact H. Qed.

Section LoopClosure.
  Variables conn rev ncm ncrm : mset.          (* t_conn total, t_rev total, new_classes_map, new_classes_rev_map *)
  Definition Rm (m : mset) (a b : nat) : Prop := mhas a b m = true.
  Notation T := (Rm conn).
  Notation N := (Rm ncm).
  Hypothesis T_trans : forall a b c, T a b -> T b c -> a <> c -> T a c.
  Hypothesis T_conv : forall a b, a <> b -> (T a b <-> Rm rev b a).
  Hypothesis conn_nd : NoDup (map fst conn).
  Hypothesis ncm_nd : NoDup (map fst ncm).
  Hypothesis ncrm_nd : NoDup (map fst ncrm).
  Hypothesis N_conv : forall a b, mhas a b ncm = mhas b a ncrm.

  (* the class pairs the loop may produce: a pair of new, extended by total on either side or by new on the right *)
  Inductive der : nat -> nat -> Prop :=
  | der_n a b : N a b -> der a b
  | der_tl c a b : T c a -> der a b -> der c b
  | der_tr a b c : der a b -> T b c -> der a c
  | der_nn a b c : der a b -> N b c -> der a c.

  Definition Kn (dd dt : mset) (x y : nat) : Prop := Rm dd x y \/ Rm dt x y \/ T x y.

  Record linv (dd ddr dt dtr : mset) : Prop := mkLinv {
    l_nd : NoDup (map fst dd) /\ NoDup (map fst ddr);
    l_cv1 : forall a b, mhas a b dd = mhas b a ddr;
    l_cv2 : forall a b, mhas a b dt = mhas b a dtr;
    l_sub : forall a b, N a b -> Rm dd a b \/ Rm dt a b;
    l_der : forall a b, Rm dd a b \/ Rm dt a b -> der a b;
    l_sat : forall a b, Rm dt a b ->
            (forall c, T c a -> Kn dd dt c b) /\ (forall c, T b c -> Kn dd dt a c) /\ (forall c, N b c -> Kn dd dt a c)
  }.

  Lemma linv_init : linv ncm ncrm [] [].
  Proof.
    constructor.
    - split; assumption.
    - exact N_conv.
    - reflexivity.
    - intros a b H; left; exact H.
    - intros a b [H|H]; [apply der_n; exact H|discriminate].
    - intros a b H; discriminate.
  Qed.

  (* the properties of the accumulator of the three joins of one round *)
  Definition jacc (acc : mset * mset * bool) : Prop :=
    (NoDup (map fst (fst (fst acc))) /\ NoDup (map fst (snd (fst acc)))) /\
    (forall a b, mhas a b (fst (fst acc)) = mhas b a (snd (fst acc))) /\
    (forall a b, mhas a b (fst (fst acc)) = true -> der a b) /\
    (snd acc = false -> fst (fst acc) = [] /\ snd (fst acc) = []).

  Lemma jacc_step : forall ca tg tr ch w y, jacc (tg, tr, ch) -> der w y -> ca w y = true -> mhas w y tg = false -> jacc (mins w y tg, mins y w tr, true).
  Proof.
    intros ca tg tr ch w y [[N1 N2] [Hcv [Hd _]]] Hwy _ _. unfold jacc. cbn [fst snd] in *.
    split; [split; apply nodup_mins; assumption|]. split; [|split; [|discriminate]].
    - intros a b. rewrite !mhas_mins, Hcv. rewrite (andb_comm (Nat.eqb a w)). reflexivity.
    - intros a b H. rewrite mhas_mins in H. apply orb_true_iff in H. destruct H as [H|H]; [|apply Hd; exact H].
      apply andb_true_iff in H. destruct H as [Ha Hb]. apply Nat.eqb_eq in Ha, Hb. subst. exact Hwy.
  Qed.

  Lemma jacc_init : jacc ([], [], false).
  Proof.
    unfold jacc. cbn [fst snd]. split; [split; constructor|]. split; [reflexivity|]. split; [intros a b H; discriminate|auto].
  Qed.

  Lemma round_ok : forall dd ddr dt dtr, linv dd ddr dt dtr ->
    let ca := fun x y => negb (mhas x y dd) && negb (mhas x y dt) && negb (mhas x y conn) in
    let j3 := join ca ncm ddr (join ca conn ddr (join ca dd rev ([], [], false))) in
    linv (fst (fst j3)) (snd (fst j3)) (mmove dd dt) (mmove ddr dtr) /\
    (snd j3 = false -> fst (fst j3) = []).
  Proof.
    intros dd ddr dt dtr L ca j3. destruct L as [[Nd Ndr] Cv1 Cv2 Sub Der Sat].
    set (j1 := join ca dd rev ([], [], false)) in *. set (j2 := join ca conn ddr j1) in *.
    assert (Hdd : forall x s y, In (x, s) dd -> In y s -> der x y).
    { intros x s y Hin Hy. apply Der. left. eapply binding_mhas; eassumption. }
    assert (Hddr : forall x xrev w, aget x ddr = Some xrev -> In w xrev -> der w x).
    { intros x xrev w Hx Hw. apply Der. left. unfold Rm. rewrite Cv1. unfold mhas, eget. rewrite Hx. apply smem_in; exact Hw. }
    assert (J1 : jacc j1).
    { apply (join_inv_gen3 (fun x y => der x y) (fun w x => w = x \/ T w x) der jacc ca dd rev).
      - intros w x y [->|Ht] Hxy; [exact Hxy|eapply der_tl; eassumption].
      - intros x s y Hin Hy. eapply Hdd; eassumption.
      - intros x xrev w Hx Hw. destruct (Nat.eq_dec w x) as [->|Hne]; [left; reflexivity|right].
        apply (T_conv w x Hne). unfold Rm, mhas, eget. rewrite Hx. apply smem_in; exact Hw.
      - apply jacc_step.
      - apply jacc_init. }
    assert (J2 : jacc j2).
    { apply (join_inv_gen3 (fun x y => T x y) (fun w x => der w x) der jacc ca conn ddr).
      - intros w x y Hwx Hxy. eapply der_tr; eassumption.
      - intros x s y Hin Hy. eapply binding_mhas; eassumption.
      - exact Hddr.
      - apply jacc_step.
      - exact J1. }
    assert (J3 : jacc j3).
    { apply (join_inv_gen3 (fun x y => N x y) (fun w x => der w x) der jacc ca ncm ddr).
      - intros w x y Hwx Hxy. eapply der_nn; eassumption.
      - intros x s y Hin Hy. eapply binding_mhas; eassumption.
      - exact Hddr.
      - apply jacc_step.
      - exact J2. }
    destruct J3 as [[Nn Nnr] [Cvn [Dern Hch]]].
    assert (Hmv : forall a b, mhas a b (mmove dd dt) = mhas a b dt || mhas a b dd) by (intros; apply mhas_mmove; exact Nd).
    assert (Hmvr : forall a b, mhas a b (mmove ddr dtr) = mhas a b dtr || mhas a b ddr) by (intros; apply mhas_mmove; exact Ndr).
    (* what can_add = false means *)
    assert (Hca : forall x y, ca x y = false -> Rm dd x y \/ Rm dt x y \/ T x y).
    { intros x y H. unfold ca in H. unfold Rm. destruct (mhas x y dd); [now left|]. destruct (mhas x y dt); [right; now left|].
      destruct (mhas x y conn); [right; now right|discriminate]. }
    assert (Hup : forall x y, Kn dd dt x y -> Kn (fst (fst j3)) (mmove dd dt) x y).
    { intros x y [H|[H|H]]; unfold Kn, Rm in *; [right; left; rewrite Hmv, H; apply orb_true_r|right; left; rewrite Hmv, H; reflexivity|right; right; exact H]. }
    assert (Hj : forall j w y, (j = j1 \/ j = j2 \/ j = j3) -> jH ca j w y -> Kn (fst (fst j3)) (mmove dd dt) w y).
    { intros j w y Hjj [H|H]; [|apply Hup, Hca; exact H]. left. unfold Rm.
      destruct Hjj as [->|[->| ->]]; [apply join_mono, join_mono; exact H|apply join_mono; exact H|exact H]. }
    split; [|intros Hf; apply Hch; exact Hf].
    constructor.
    - split; assumption.
    - exact Cvn.
    - intros a b. rewrite Hmv, Hmvr, Cv1, Cv2. reflexivity.
    - intros a b Hn. right. unfold Rm. rewrite Hmv. destruct (Sub a b Hn) as [H|H]; unfold Rm in H; rewrite H; [apply orb_true_r|reflexivity].
    - intros a b [H|H]; [apply Dern; exact H|]. unfold Rm in H. rewrite Hmv in H. apply orb_true_iff in H. apply Der. destruct H; [right|left]; assumption.
    - intros a b H. unfold Rm in H. rewrite Hmv in H. apply orb_true_iff in H. destruct H as [H|H].
      + destruct (Sat a b H) as [S1 [S2 S3]]. split; [|split]; intros c Hc; apply Hup; auto.
      + (* (a,b) was in delta_delta: the three joins of this round composed it with total and new *)
        destruct (mhas_binding _ _ _ H) as [s [Hs Hb]]. split; [|split]; intros c Hc.
        * destruct (Nat.eq_dec c a) as [->|Hne]; [apply Hup; left; exact H|].
          apply (T_conv c a Hne) in Hc. destruct (mhas_binding _ _ _ Hc) as [xrev [Hx Hw]].
          apply (Hj j1 c b (or_introl eq_refl)). apply (join_complete ca dd rev _ a s xrev c b (aget_in _ _ _ _ Hs) Hx Hw Hb).
        * destruct (mhas_binding _ _ _ Hc) as [xs [Hxs Hcx]].
          assert (Hr : mhas b a ddr = true) by (rewrite <- Cv1; exact H).
          destruct (mhas_binding _ _ _ Hr) as [xrev [Hx Hw]].
          apply (Hj j2 a c (or_intror (or_introl eq_refl))). apply (join_complete ca conn ddr _ b xs xrev a c (aget_in _ _ _ _ Hxs) Hx Hw Hcx).
        * destruct (mhas_binding _ _ _ Hc) as [xs [Hxs Hcx]].
          assert (Hr : mhas b a ddr = true) by (rewrite <- Cv1; exact H).
          destruct (mhas_binding _ _ _ Hr) as [xrev [Hx Hw]].
          apply (Hj j3 a c (or_intror (or_intror eq_refl))). apply (join_complete ca ncm ddr _ b xs xrev a c (aget_in _ _ _ _ Hxs) Hx Hw Hcx).
  Qed.
End LoopClosure.
