(* C12 — the generic ternary adaptor (BinRelToTernary over TrRelIndCommon, with or without reverse maps) on EVERY history.

   The model's operations (TrUfProvModel: t_insert, t_merge, t_all, t_contains) are packaged as a provider PT over
   (key, pair); the histories are those of Byods/Provider.v with a stratum boundary only after a merge that moved nothing
   ([qhist3], as for the binary form).  Per key k the three maps of the adaptor hold, up to absent entries, a state of the
   binary provider for the history projected on k: an absent entry of new = nothing inserted, of delta = nothing served and
   nothing pending, of total = the empty structure.  The merge of the adaptor (two loops over delta.map and what is left of
   new.map, dropped empty deltas, the rebuild of the delta's reverse maps) is followed key by key.
   Theorems: pt_ops_ok (no operation fails, including the unwraps on the reverse maps in the merge and their rebuild),
   pt_served (total + delta serve exactly, per key, the reflexive transitive closure of what was merged), pt_contains_iff,
   pt_merge_total (weak P3), pt_quiescent, pt_restart_*.
   Not covered: the views through the reverse maps (index [1], [2], [1,2]) and the keyed views of the binary relations
   (index [0,1], [0,2]); the statements are about the full index (iter_all / contains_key), which is what the engine model reads. *)
From Coq Require Import List Arith Bool Lia ZArith.
From AV Require Import UF.UfBase.
From AV Require Import UF.TrUfModel.
From AV Require Import UF.TrUfInv.
From AV Require Import UF.TrUfLemmas.
From AV Require Import UF.TrUfQueries.
From AV Require Import UF.TrUfCases.
From AV Require Import UF.TrUfStep.
From AV Require Import UF.TrUfProofs.
From AV Require Import Byods.TrUfProvModel.
From AV Require Import Byods.TrUfProvProofs.
From AV Require Import Byods.TrUfProvComplete.
From AV Require Import Byods.Provider.
From AV Require Import Byods.TrUfProvLaws.
Import ListNotations.

(* ================================================================== keys *)
Definition T3 : Type := (nat * T2)%type.
Definition proj (k : nat) (l : list T3) : list T2 := map snd (filter (fun t => Nat.eqb (fst t) k) l).

Lemma proj_in k l p : In p (proj k l) <-> In (k, p) l.
Proof.
  unfold proj. rewrite in_map_iff. split.
  - intros [[k' q] [E H]]. cbn in E. subst q. apply filter_In in H. destruct H as [H Hk]. cbn in Hk. apply Nat.eqb_eq in Hk. subst. exact H.
  - intros H. exists (k, p). split; [reflexivity|]. apply filter_In. split; [exact H|]. cbn. apply Nat.eqb_refl.
Qed.
Lemma proj_app k l1 l2 : proj k (l1 ++ l2) = proj k l1 ++ proj k l2.
Proof. unfold proj. rewrite filter_app, map_app. reflexivity. Qed.
Lemma proj_snoc_eq k l p : proj k (l ++ [(k, p)]) = proj k l ++ [p].
Proof. rewrite proj_app. unfold proj at 2. cbn. rewrite Nat.eqb_refl. reflexivity. Qed.
Lemma proj_snoc_ne k k' l p : k' <> k -> proj k (l ++ [(k', p)]) = proj k l.
Proof. intros H. rewrite proj_app. unfold proj at 2. cbn. destruct (Nat.eqb_spec k' k); [contradiction|]. cbn. apply app_nil_r. Qed.

Definition gk (k : nat) (g : ghost T3) : ghost T2 :=
  mkG T2 (proj k (g_t T3 g)) (proj k (g_td T3 g)) (proj k (g_new T3 g)).

(* ================================================================== one key *)
Definition nget (o : option common) : common := match o with Some c => c | None => c_default end.

(* an absent delta entry: nothing served, nothing pending; total alone is worth g_td *)
Definition absent (g : ghost T2) (t : common) : Prop :=
  exists tt Et, t = CTotal tt /\ tinv_weak Et tt /\ req Et (g_td T2 g) /\ rsub (g_t T2 g) Et.
Definition kshape (g : ghost T2) (od : option common) (t : common) : Prop :=
  match od with Some d => shape g d t | None => absent g t end.
Definition knew (g : ghost T2) (on : option common) : Prop :=
  match on with
  | Some c => exists r, c = CNew r /\ forall p, In p r <-> In p (g_new T2 g)
  | None => g_new T2 g = []
  end.
Definition KI1 (on od ot : option common) (g : ghost T2) : Prop := knew g on /\ kshape g od (nget ot).

Lemma knew_unwrap : forall g on, knew g on -> exists r, unwrap_new (nget on) = Ok r /\ forall p, In p r <-> In p (g_new T2 g).
Proof.
  intros g [c|] H; cbn [knew nget] in *.
  - destruct H as [r [-> Hr]]. exists r. split; [reflexivity|exact Hr].
  - exists []. split; [reflexivity|]. rewrite H. intros p; reflexivity.
Qed.

Lemma c_merge_unwrap : forall n r d t, unwrap_new n = Ok r -> c_merge n d t = c_merge (CNew r) d t.
Proof. intros n r d t H. unfold c_merge. cbn [unwrap_new]. rewrite H. reflexivity. Qed.

Lemma c_merge_absent : forall r tt, c_merge (CNew r) c_default (CTotal tt) = merge_body r [] tt.
Proof. intros r tt. reflexivity. Qed.

Lemma absent_view : forall g t, absent g t -> exists tt Et, t = CTotal tt /\ tinv_weak Et tt /\ req (Et ++ []) (g_td T2 g) /\
  (tr_is_empty tt && isnil (@nil (nat * nat)) = true -> forall x y, ~ rtc (g_td T2 g) x y).
Proof.
  intros g t [tt [Et [-> [HE [Hq _]]]]]. exists tt, Et. split; [reflexivity|]. split; [exact HE|]. split; [rewrite app_nil_r; exact Hq|].
  intros Hb x y Hr. apply andb_true_iff in Hb. destruct Hb as [Hb _]. apply (q_is_empty _ _ HE) in Hb. subst Et.
  apply Hq in Hr. exact (rtc_nil_false _ _ Hr).
Qed.

(* a key of delta.map *)
Lemma kmerge_delta : forall g on d ot, KI1 on (Some d) ot g ->
  exists n1 d1 t1, c_merge (nget on) d (nget ot) = Ok (n1, d1, t1) /\ shape (ghost_step T2 g PMerge) d1 t1.
Proof.
  intros g on d ot [Hn Hs]. cbn [kshape] in Hs. destruct (knew_unwrap g on Hn) as [r [Hu Hr]].
  rewrite (c_merge_unwrap _ r _ _ Hu).
  destruct (shape_merge_view _ _ _ r Hs) as [trel [prec [Eb [Hm [HE [Hq Hemp]]]]]]. rewrite Hm.
  destruct (merge_view_result _ r trel prec Eb HE Hq Hemp Hr) as [d' [t' [Hmb Hs']]]. rewrite Hmb. eexists _, _, _. split; [reflexivity|exact Hs'].
Qed.

(* a key of new.map that delta.map does not have *)
Lemma kmerge_new : forall g nw ot, KI1 (Some nw) None ot g ->
  exists n1 d1 t1, c_merge nw c_default (nget ot) = Ok (n1, d1, t1) /\ shape (ghost_step T2 g PMerge) d1 t1 /\
                   (ot = None -> t1 = CTotal tr_empty).
Proof.
  intros g nw ot [Hn Hs]. cbn [kshape knew] in *. destruct Hn as [r [-> Hr]].
  destruct (absent_view _ _ Hs) as [tt [Et [Ht [HE [Hq Hemp]]]]]. rewrite Ht. rewrite c_merge_absent.
  destruct (merge_view_result _ r tt [] Et HE Hq Hemp Hr) as [d' [t' [Hmb Hs']]]. rewrite Hmb. eexists _, _, _. split; [reflexivity|].
  split; [exact Hs'|]. intros ->. cbn [nget] in Ht. unfold c_default in Ht. inversion Ht; subst tt.
  destruct (merge_body_first r [] tr_empty eq_refl) as [nd [Hmb' _]]. rewrite Hmb in Hmb'. inversion Hmb'. reflexivity.
Qed.

(* a delta the merge drops because it is empty *)
Lemma kshape_drop : forall g d t, shape g d t -> c_trait_is_empty d = Ok true -> absent g t.
Proof.
  intros g d t [U Eu HU Hq Hz|dd Et HE _ _ _ Hnil Ht Hsv _] He; cbn [c_trait_is_empty] in He.
  - inversion He as [Hb]. apply (q_is_empty _ _ HU) in Hb. subst Eu.
    exists tr_empty, []. split; [reflexivity|]. split; [apply tr_empty_inv|]. split; [exact Hq|exact Hz].
  - inversion He as [Hb]. assert (Hp : d_prec dd = []) by (destruct (d_prec dd); [reflexivity|discriminate]).
    exists (d_total dd), Et. split; [reflexivity|]. split; [exact HE|]. split; [|exact Ht].
    intros x y. rewrite (Hsv x y). split; [auto|]. intros [H|H]; [exact H|]. exfalso. exact (Hnil Hp x y H).
Qed.

(* a key that neither map has *)
Lemma kidle : forall g t, g_new T2 g = [] -> absent g t -> absent (ghost_step T2 g PMerge) t.
Proof.
  intros g t Hn [tt [Et [-> [HE [Hq Ht]]]]]. exists tt, Et. split; [reflexivity|]. split; [exact HE|].
  cbn [ghost_step g_t g_td g_new]. rewrite Hn, app_nil_r. split; [exact Hq|]. intros x y H. apply Hq. exact H.
Qed.

(* what one version of one key serves, and that reading it does not fail *)
Definition ksv (od : option common) (x y : nat) : Prop :=
  match od with
  | None => False
  | Some c => exists l, c_iter_all c = Ok l /\ In (x, y) l
  end.

Lemma shape_reads : forall g d t, shape g d t ->
  (exists ld, c_iter_all d = Ok ld /\ forall x y, exists b, c_contains d x y = Ok b /\ (b = true <-> In (x, y) ld)) /\
  (exists lt, c_iter_all t = Ok lt /\ forall x y, exists b, c_contains t x y = Ok b /\ (b = true <-> In (x, y) lt)) /\
  (forall rev, exists l, c_ind_iter_all rev d = Ok l) /\
  (forall x y, (exists ld lt, c_iter_all d = Ok ld /\ c_iter_all t = Ok lt /\ (In (x, y) lt \/ In (x, y) ld)) <-> rtc (g_td T2 g) x y).
Proof.
  intros g d t [U Eu HU Hq _|dd Et HE Nd Hv Hvr _ _ Hsv _].
  - destruct (total_iter_all [] tr_empty tr_empty_inv) as [le [Hle Hie]].
    destruct (total_iter_all Eu U HU) as [lu [Hlu Hiu]].
    split; [|split; [|split]].
    + exists lu. split; [exact Hlu|]. intros x y. destruct (total_contains Eu U HU x y) as [b [Hb Hbb]].
      exists b. split; [exact Hb|]. rewrite Hbb. symmetry. apply Hiu.
    + exists le. split; [exact Hle|]. intros x y. destruct (total_contains [] tr_empty tr_empty_inv x y) as [b [Hb Hbb]].
      exists b. split; [exact Hb|]. rewrite Hbb. symmetry. apply Hie.
    + intros rev. cbn [c_ind_iter_all]. eexists. apply (ind_iter_all_total _ Eu U HU rev).
    + intros x y. split.
      * intros [ld [lt [H1 [H2 H]]]]. rewrite Hlu in H1. rewrite Hle in H2. inversion H1; inversion H2; subst.
        destruct H as [H|H]; [apply Hie in H; exfalso; exact (rtc_nil_false _ _ H)|apply Hq, Hiu; exact H].
      * intros H. exists lu, le. split; [exact Hlu|]. split; [exact Hle|]. right. apply Hiu, Hq. exact H.
  - destruct (total_iter_all Et _ HE) as [lt [Hlt Hit]].
    destruct (delta_iter_all dd Nd Hv) as [ld [Hld Hid]].
    split; [|split; [|split]].
    + exists ld. split; [exact Hld|]. intros x y. destruct (delta_contains dd Et HE x y) as [b [Hb Hbb]].
      exists b. split; [exact Hb|]. rewrite Hbb. symmetry. apply Hid.
    + exists lt. split; [exact Hlt|]. intros x y. destruct (total_contains Et _ HE x y) as [b [Hb Hbb]].
      exists b. split; [exact Hb|]. rewrite Hbb. symmetry. apply Hit.
    + intros rev. cbn [c_ind_iter_all]. unfold d_ind_iter_all.
      assert (Hm : vmap (d_total dd) (if rev then d_rev dd else d_conn dd)) by (destruct rev; assumption).
      rewrite (mapM_ok _ _ _ (fun kv => map (fun x => (x, concat (map (gs (d_total dd)) (snd kv)))) (gs (d_total dd) (fst kv)))
                 (if rev then d_rev dd else d_conn dd)).
      * cbn [bind]. eexists; reflexivity.
      * intros [k s] Hk. cbn [fst snd]. destruct (Hm _ _ Hk) as [Hkl Hsl].
        rewrite set_at_ok by exact Hkl. cbn [bind]. rewrite sets_of_ok by exact Hsl. reflexivity.
    + intros x y. rewrite (Hsv x y). split.
      * intros [ld' [lt' [H1 [H2 H]]]]. rewrite Hld in H1. rewrite Hlt in H2. inversion H1; inversion H2; subst.
        destruct H as [H|H]; [left; apply Hit; exact H|right; apply Hid; exact H].
      * intros H. exists ld, lt. split; [exact Hld|]. split; [exact Hlt|]. destruct H as [H|H]; [left; apply Hit; exact H|right; apply Hid; exact H].
Qed.

Lemma absent_reads : forall g t, absent g t ->
  exists lt, c_iter_all t = Ok lt /\ (forall x y, exists b, c_contains t x y = Ok b /\ (b = true <-> In (x, y) lt)) /\
             forall x y, In (x, y) lt <-> rtc (g_td T2 g) x y.
Proof.
  intros g t [tt [Et [-> [HE [Hq _]]]]]. destruct (total_iter_all Et tt HE) as [lt [Hlt Hit]]. exists lt. split; [exact Hlt|]. split.
  - intros x y. destruct (total_contains Et tt HE x y) as [b [Hb Hbb]]. exists b. split; [exact Hb|]. rewrite Hbb. symmetry. apply Hit.
  - intros x y. rewrite Hit. apply Hq.
Qed.
