(* C12 — the generic ternary adaptor (BinRelToTernary over TrRelIndCommon, with or without reverse maps) on EVERY history.

   The model's operations (TrUfProvModel: t_insert, t_merge, t_all, t_contains) are packaged as a provider PT over
   (key, pair); the histories are those of Byods/Provider.v with a stratum boundary only after a merge that moved nothing
   ([qhist3], as for the binary form).  Per key k the three maps of the adaptor hold, up to absent entries, a state of the
   binary provider for the history projected on k: an absent entry of new = nothing inserted, of delta = nothing served and
   nothing pending, of total = the empty structure.  The merge of the adaptor (two loops over delta.map and what is left of
   new.map, dropped empty deltas, the rebuild of the delta's reverse maps) is followed key by key.
   Theorems: pt_ops_ok (no operation fails, including the unwraps on the reverse maps in the merge and their rebuild),
   pt_served (total + delta serve exactly, per key, the reflexive transitive closure of what was merged), pt_contains_iff,
   pt_merge_total (weak P3), pt_quiescent, pt_restart_*.
   The statements here are about the full index (iter_all / contains_key), which is what the engine model reads; the keyed views
   (index [0], [0,1], [0,2]) are in TrUfProvViews.v, the views through the reverse maps (index [1], [2], [1,2]) in TrUfProvRevViews.v. *)
From Coq Require Import List Arith Bool Lia ZArith.
From AV Require Import UF.UfBase.
From AV Require Import UF.TrUfModel.
From AV Require Import UF.TrUfInv.
From AV Require Import UF.TrUfLemmas.
From AV Require Import UF.TrUfQueries.
From AV Require Import UF.TrUfCases.
From AV Require Import UF.TrUfStep.
From AV Require Import UF.TrUfProofs.
From AV Require Import Byods.TrUfProvModel.
From AV Require Import Byods.TrUfProvProofs.
From AV Require Import Byods.TrUfProvComplete.
From AV Require Import Byods.Provider.
From AV Require Import Byods.TrUfProvLaws.
Import ListNotations.

(* ================================================================== keys *)
Definition T3 : Type := (nat * T2)%type.
Definition proj (k : nat) (l : list T3) : list T2 := map snd (filter (fun t => Nat.eqb (fst t) k) l).

Lemma proj_in k l p : In p (proj k l) <-> In (k, p) l.
Proof.
  unfold proj. rewrite in_map_iff. split.
  - intros [[k' q] [E H]]. cbn in E. subst q. apply filter_In in H. destruct H as [H Hk]. cbn in Hk. apply Nat.eqb_eq in Hk. subst. exact H.
  - intros H. exists (k, p). split; [reflexivity|]. apply filter_In. split; [exact H|]. cbn. apply Nat.eqb_refl.
Qed.
Lemma proj_app k l1 l2 : proj k (l1 ++ l2) = proj k l1 ++ proj k l2.
Proof. unfold proj. rewrite filter_app, map_app. reflexivity. Qed.
Lemma proj_snoc_eq k l p : proj k (l ++ [(k, p)]) = proj k l ++ [p].
Proof. rewrite proj_app. unfold proj at 2. cbn. rewrite Nat.eqb_refl. reflexivity. Qed.
Lemma proj_snoc_ne k k' l p : k' <> k -> proj k (l ++ [(k', p)]) = proj k l.
Proof. intros H. rewrite proj_app. unfold proj at 2. cbn. destruct (Nat.eqb_spec k' k); [contradiction|]. cbn. apply app_nil_r. Qed.

Definition gk (k : nat) (g : ghost T3) : ghost T2 :=
  mkG T2 (proj k (g_t T3 g)) (proj k (g_td T3 g)) (proj k (g_new T3 g)).

(* ================================================================== one key *)
Definition nget (o : option common) : common := match o with Some c => c | None => c_default end.

(* an absent delta entry: nothing served, nothing pending; total alone is worth g_td *)
Definition absent (g : ghost T2) (t : common) : Prop :=
  exists tt Et, t = CTotal tt /\ tinv_weak Et tt /\ req Et (g_td T2 g) /\ rsub (g_t T2 g) Et.
Definition kshape (g : ghost T2) (od : option common) (t : common) : Prop :=
  match od with Some d => shape g d t | None => absent g t end.
Definition knew (g : ghost T2) (on : option common) : Prop :=
  match on with
  | Some c => exists r, c = CNew r /\ forall p, In p r <-> In p (g_new T2 g)
  | None => g_new T2 g = []
  end.
Definition KI1 (on od ot : option common) (g : ghost T2) : Prop := knew g on /\ kshape g od (nget ot).

Lemma knew_unwrap : forall g on, knew g on -> exists r, unwrap_new (nget on) = Ok r /\ forall p, In p r <-> In p (g_new T2 g).
Proof.
  intros g [c|] H; cbn [knew nget] in *.
  - destruct H as [r [-> Hr]]. exists r. split; [reflexivity|exact Hr].
  - exists []. split; [reflexivity|]. rewrite H. intros p; reflexivity.
Qed.

Lemma c_merge_unwrap : forall n r d t, unwrap_new n = Ok r -> c_merge n d t = c_merge (CNew r) d t.
Proof. intros n r d t H. unfold c_merge. cbn [unwrap_new]. rewrite H. reflexivity. Qed.

Lemma c_merge_absent : forall r tt, c_merge (CNew r) c_default (CTotal tt) = merge_body r [] tt.
Proof. intros r tt. reflexivity. Qed.

Lemma absent_view : forall g t, absent g t -> exists tt Et, t = CTotal tt /\ tinv_weak Et tt /\ req (Et ++ []) (g_td T2 g) /\
  (tr_is_empty tt && isnil (@nil (nat * nat)) = true -> forall x y, ~ rtc (g_td T2 g) x y).
Proof.
  intros g t [tt [Et [-> [HE [Hq _]]]]]. exists tt, Et. split; [reflexivity|]. split; [exact HE|]. split; [rewrite app_nil_r; exact Hq|].
  intros Hb x y Hr. apply andb_true_iff in Hb. destruct Hb as [Hb _]. apply (q_is_empty _ _ HE) in Hb. subst Et.
  apply Hq in Hr. exact (rtc_nil_false _ _ Hr).
Qed.

(* what a key's merge guarantees about the versions before and after (weak P3, quiescence, when the delta is dropped) *)
Definition mfacts (g : ghost T2) (d1 t1 : common) : Prop :=
  (forall x y, In (x, y) (itl t1) -> rtc (g_td T2 g) x y \/ In (x, y) (itl d1)) /\
  (g_new T2 g = [] -> forall x y, In (x, y) (itl d1) -> In (x, y) (itl t1)) /\
  (c_trait_is_empty d1 = Ok true -> g_new T2 g = []).

Lemma mfacts_of_view : forall g r trel prec Eb d' t',
  tinv_weak Eb trel -> req (Eb ++ prec) (g_td T2 g) -> (forall p, In p r <-> In p (g_new T2 g)) ->
  merge_body r prec trel = Ok (CNew [], d', t') -> mfacts g d' t'.
Proof.
  intros g r trel prec Eb d' t' HE Hq Hr Hm. destruct (merge_view_facts g r trel prec Eb d' t' HE Hq Hr Hm) as [F1 [F2 F3]].
  split; [exact F1|]. split; [exact F2|]. intros He. specialize (F3 He). subst r.
  destruct (g_new T2 g) as [|p l]; [reflexivity|]. exfalso. apply (Hr p). now left.
Qed.

(* a key of delta.map *)
Lemma kmerge_delta : forall g on d ot, KI1 on (Some d) ot g ->
  exists n1 d1 t1, c_merge (nget on) d (nget ot) = Ok (n1, d1, t1) /\ shape (ghost_step T2 g PMerge) d1 t1 /\ mfacts g d1 t1.
Proof.
  intros g on d ot [Hn Hs]. cbn [kshape] in Hs. destruct (knew_unwrap g on Hn) as [r [Hu Hr]].
  rewrite (c_merge_unwrap _ r _ _ Hu).
  destruct (shape_merge_view _ _ _ r Hs) as [trel [prec [Eb [Hm [HE [Hq Hemp]]]]]]. rewrite Hm.
  destruct (merge_view_result _ r trel prec Eb HE Hq Hemp Hr) as [d' [t' [Hmb Hs']]]. rewrite Hmb. eexists _, _, _. split; [reflexivity|].
  split; [exact Hs'|]. exact (mfacts_of_view g r trel prec Eb d' t' HE Hq Hr Hmb).
Qed.

(* a key of new.map that delta.map does not have *)
Lemma kmerge_new : forall g nw ot, KI1 (Some nw) None ot g ->
  exists n1 d1 t1, c_merge nw c_default (nget ot) = Ok (n1, d1, t1) /\ shape (ghost_step T2 g PMerge) d1 t1 /\
                   (ot = None -> t1 = CTotal tr_empty) /\ mfacts g d1 t1.
Proof.
  intros g nw ot [Hn Hs]. cbn [kshape knew] in *. destruct Hn as [r [-> Hr]].
  destruct (absent_view _ _ Hs) as [tt [Et [Ht [HE [Hq Hemp]]]]]. rewrite Ht. rewrite c_merge_absent.
  destruct (merge_view_result _ r tt [] Et HE Hq Hemp Hr) as [d' [t' [Hmb Hs']]]. rewrite Hmb. eexists _, _, _. split; [reflexivity|].
  split; [exact Hs'|]. split; [|exact (mfacts_of_view g r tt [] Et d' t' HE Hq Hr Hmb)].
  intros ->. cbn [nget] in Ht. unfold c_default in Ht. inversion Ht; subst tt.
  destruct (merge_body_first r [] tr_empty eq_refl) as [nd [Hmb' _]]. rewrite Hmb in Hmb'. inversion Hmb'. reflexivity.
Qed.

(* a delta the merge drops because it is empty *)
Lemma kshape_drop : forall g d t, shape g d t -> c_trait_is_empty d = Ok true -> absent g t.
Proof.
  intros g d t [U Eu HU Hq Hz|dd Et HE _ _ _ Hnil Ht Hsv _] He; cbn [c_trait_is_empty] in He.
  - inversion He as [Hb]. apply (q_is_empty _ _ HU) in Hb. subst Eu.
    exists tr_empty, []. split; [reflexivity|]. split; [apply tr_empty_inv|]. split; [exact Hq|exact Hz].
  - inversion He as [Hb]. assert (Hp : d_prec dd = []) by (destruct (d_prec dd); [reflexivity|discriminate]).
    exists (d_total dd), Et. split; [reflexivity|]. split; [exact HE|]. split; [|exact Ht].
    intros x y. rewrite (Hsv x y). split; [auto|]. intros [H|H]; [exact H|]. exfalso. exact (Hnil Hp x y H).
Qed.

(* a key that neither map has *)
Lemma kidle : forall g t, g_new T2 g = [] -> absent g t -> absent (ghost_step T2 g PMerge) t.
Proof.
  intros g t Hn [tt [Et [-> [HE [Hq Ht]]]]]. exists tt, Et. split; [reflexivity|]. split; [exact HE|].
  cbn [ghost_step g_t g_td g_new]. rewrite Hn, app_nil_r. split; [exact Hq|]. intros x y H. apply Hq. exact H.
Qed.

(* what one version of one key serves, and that reading it does not fail *)
Lemma shape_reads : forall g d t, shape g d t ->
  (exists ld, c_iter_all d = Ok ld /\ forall x y, exists b, c_contains d x y = Ok b /\ (b = true <-> In (x, y) ld)) /\
  (exists lt, c_iter_all t = Ok lt /\ forall x y, exists b, c_contains t x y = Ok b /\ (b = true <-> In (x, y) lt)) /\
  (forall rev, exists l, c_ind_iter_all rev d = Ok l) /\
  (forall x y, (exists ld lt, c_iter_all d = Ok ld /\ c_iter_all t = Ok lt /\ (In (x, y) lt \/ In (x, y) ld)) <-> rtc (g_td T2 g) x y).
Proof.
  intros g d t [U Eu HU Hq _|dd Et HE Nd Hv [Hvr _] _ _ Hsv _].
  - destruct (total_iter_all [] tr_empty tr_empty_inv) as [le [Hle Hie]].
    destruct (total_iter_all Eu U HU) as [lu [Hlu Hiu]].
    split; [|split; [|split]].
    + exists lu. split; [exact Hlu|]. intros x y. destruct (total_contains Eu U HU x y) as [b [Hb Hbb]].
      exists b. split; [exact Hb|]. rewrite Hbb. symmetry. apply Hiu.
    + exists le. split; [exact Hle|]. intros x y. destruct (total_contains [] tr_empty tr_empty_inv x y) as [b [Hb Hbb]].
      exists b. split; [exact Hb|]. rewrite Hbb. symmetry. apply Hie.
    + intros rev. cbn [c_ind_iter_all]. eexists. apply (ind_iter_all_total _ Eu U HU rev).
    + intros x y. split.
      * intros [ld [lt [H1 [H2 H]]]]. rewrite Hlu in H1. rewrite Hle in H2. inversion H1; inversion H2; subst.
        destruct H as [H|H]; [apply Hie in H; exfalso; exact (rtc_nil_false _ _ H)|apply Hq, Hiu; exact H].
      * intros H. exists lu, le. split; [exact Hlu|]. split; [exact Hle|]. right. apply Hiu, Hq. exact H.
  - destruct (total_iter_all Et _ HE) as [lt [Hlt Hit]].
    destruct (delta_iter_all dd Nd Hv) as [ld [Hld Hid]].
    split; [|split; [|split]].
    + exists ld. split; [exact Hld|]. intros x y. destruct (delta_contains dd Et HE x y) as [b [Hb Hbb]].
      exists b. split; [exact Hb|]. rewrite Hbb. symmetry. apply Hid.
    + exists lt. split; [exact Hlt|]. intros x y. destruct (total_contains Et _ HE x y) as [b [Hb Hbb]].
      exists b. split; [exact Hb|]. rewrite Hbb. symmetry. apply Hit.
    + intros rev. cbn [c_ind_iter_all]. unfold d_ind_iter_all.
      assert (Hm : vmap (d_total dd) (if rev then d_rev dd else d_conn dd)) by (destruct rev; assumption).
      rewrite (mapM_ok _ _ _ (fun kv => map (fun x => (x, concat (map (gs (d_total dd)) (snd kv)))) (gs (d_total dd) (fst kv)))
                 (if rev then d_rev dd else d_conn dd)).
      * cbn [bind]. eexists; reflexivity.
      * intros [k s] Hk. cbn [fst snd]. destruct (Hm _ _ Hk) as [Hkl Hsl].
        rewrite set_at_ok by exact Hkl. cbn [bind]. rewrite sets_of_ok by exact Hsl. reflexivity.
    + intros x y. rewrite (Hsv x y). split.
      * intros [ld' [lt' [H1 [H2 H]]]]. rewrite Hld in H1. rewrite Hlt in H2. inversion H1; inversion H2; subst.
        destruct H as [H|H]; [left; apply Hit; exact H|right; apply Hid; exact H].
      * intros H. exists ld, lt. split; [exact Hld|]. split; [exact Hlt|]. destruct H as [H|H]; [left; apply Hit; exact H|right; apply Hid; exact H].
Qed.

Lemma absent_reads : forall g t, absent g t ->
  exists lt, c_iter_all t = Ok lt /\ (forall x y, exists b, c_contains t x y = Ok b /\ (b = true <-> In (x, y) lt)) /\
             forall x y, In (x, y) lt <-> rtc (g_td T2 g) x y.
Proof.
  intros g t [tt [Et [-> [HE [Hq _]]]]]. destruct (total_iter_all Et tt HE) as [lt [Hlt Hit]]. exists lt. split; [exact Hlt|]. split.
  - intros x y. destruct (total_contains Et tt HE x y) as [b [Hb Hbb]]. exists b. split; [exact Hb|]. rewrite Hbb. symmetry. apply Hit.
  - intros x y. rewrite Hit. apply Hq.
Qed.

(* ================================================================== the two loops of the adaptor's merge *)
Definition temp (d : common) : bool := match c_trait_is_empty d with Ok b => b | Err _ => false end.
Lemma c_trait_ok : forall d, c_trait_is_empty d = Ok (temp d).
Proof. intros d. reflexivity. Qed.

Lemma aget_arem_ne : forall V (k k' : nat) (m : list (nat * V)), k' <> k -> aget k' (arem k m) = aget k' m.
Proof. intros. rewrite aget_arem. destruct (Nat.eqb_spec k' k); [contradiction|reflexivity]. Qed.
Lemma aget_arem_eq : forall V (k : nat) (m : list (nat * V)), aget k (arem k m) = None.
Proof. intros. rewrite aget_arem, Nat.eqb_refl. reflexivity. Qed.

Lemma loop1_spec : forall dm newm totm ndm,
  NoDup (map fst dm) ->
  (forall k d, In (k, d) dm -> exists r, c_merge (nget (aget k newm)) d (nget (aget k totm)) = Ok r) ->
  exists newm' totm' ndm',
    foldM tmerge_delta_step dm (newm, totm, ndm) = Ok (newm', totm', ndm') /\
    (forall k, ~ In k (map fst dm) -> aget k newm' = aget k newm /\ aget k totm' = aget k totm /\ aget k ndm' = aget k ndm) /\
    (forall k d, In (k, d) dm -> exists n1 d1 t1, c_merge (nget (aget k newm)) d (nget (aget k totm)) = Ok (n1, d1, t1) /\
        aget k newm' = None /\ aget k totm' = Some t1 /\ aget k ndm' = if temp d1 then aget k ndm else Some d1) /\
    (NoDup (map fst newm) -> NoDup (map fst newm')) /\ (NoDup (map fst totm) -> NoDup (map fst totm')) /\
    (NoDup (map fst ndm) -> NoDup (map fst ndm')).
Proof.
  induction dm as [|[k0 d0] dm IH]; intros newm totm ndm Hnd Hok.
  - exists newm, totm, ndm. split; [reflexivity|]. split; [auto|]. split; [intros k d []|auto].
  - cbn [map fst] in Hnd. inversion Hnd as [|? ? Hk0 Hnd']; subst.
    destruct (Hok k0 d0 (or_introl eq_refl)) as [[[n1 d1] t1] Hm].
    set (ndm1 := if temp d1 then ndm else aset k0 d1 ndm).
    assert (Hstep : tmerge_delta_step (newm, totm, ndm) (k0, d0) = Ok (arem k0 newm, aset k0 t1 totm, ndm1)).
    { unfold tmerge_delta_step. cbn [fst snd]. fold (nget (aget k0 newm)). fold (nget (aget k0 totm)). rewrite Hm. cbn [bind].
      rewrite c_trait_ok. cbn [bind]. reflexivity. }
    assert (Hne : forall k, In k (map fst dm) -> k <> k0) by (intros k Hk ->; exact (Hk0 Hk)).
    assert (Hne' : forall k d, In (k, d) dm -> k <> k0) by (intros k d Hk; apply Hne; apply in_map_iff; exists (k, d); auto).
    destruct (IH (arem k0 newm) (aset k0 t1 totm) ndm1 Hnd') as [newm' [totm' [ndm' [Hf [Hout [Hin [N1 [N2 N3]]]]]]]].
    { intros k d Hk. pose proof (Hne' k d Hk) as Hkk. rewrite (aget_arem_ne _ _ _ _ Hkk), (aget_aset_ne _ _ _ _ _ Hkk).
      apply Hok. right; exact Hk. }
    exists newm', totm', ndm'. split; [cbn [foldM]; rewrite Hstep; cbn [bind]; exact Hf|].
    assert (Hndm1 : forall k, k <> k0 -> aget k ndm1 = aget k ndm).
    { intros k Hk. unfold ndm1. destruct (temp d1); [reflexivity|apply aget_aset_ne; exact Hk]. }
    split; [|split; [|split; [|split]]].
    + intros k Hk. cbn [map fst] in Hk. assert (Hk1 : k <> k0) by (intros ->; apply Hk; now left).
      assert (Hk2 : ~ In k (map fst dm)) by (intros H; apply Hk; now right).
      destruct (Hout k Hk2) as [H1 [H2 H3]]. rewrite H1, H2, H3, (aget_arem_ne _ _ _ _ Hk1), (aget_aset_ne _ _ _ _ _ Hk1), (Hndm1 k Hk1). auto.
    + intros k d [Hkd|Hkd].
      * inversion Hkd; subst k d. exists n1, d1, t1. split; [exact Hm|]. destruct (Hout k0 Hk0) as [H1 [H2 H3]].
        rewrite H1, H2, H3, aget_arem_eq, aget_aset_eq. split; [reflexivity|]. split; [reflexivity|].
        unfold ndm1. destruct (temp d1); [reflexivity|apply aget_aset_eq].
      * pose proof (Hne' k d Hkd) as Hkk. destruct (Hin k d Hkd) as [n2 [d2 [t2 [Hm2 [H1 [H2 H3]]]]]].
        rewrite (aget_arem_ne _ _ _ _ Hkk), (aget_aset_ne _ _ _ _ _ Hkk) in Hm2. exists n2, d2, t2. split; [exact Hm2|].
        split; [exact H1|]. split; [exact H2|]. rewrite H3, (Hndm1 k Hkk). reflexivity.
    + intros H. apply N1. apply nodup_keys_arem; exact H.
    + intros H. apply N2. apply nodup_keys_aset; exact H.
    + intros H. apply N3. unfold ndm1. destruct (temp d1); [exact H|apply nodup_keys_aset; exact H].
Qed.

Lemma loop2_spec : forall nm totm ndm,
  NoDup (map fst nm) ->
  (forall k n, In (k, n) nm -> exists r, c_merge n c_default (nget (aget k totm)) = Ok r) ->
  exists totm' ndm',
    foldM tmerge_new_step nm (totm, ndm) = Ok (totm', ndm') /\
    (forall k, ~ In k (map fst nm) -> aget k totm' = aget k totm /\ aget k ndm' = aget k ndm) /\
    (forall k n, In (k, n) nm -> exists n1 d1 t1, c_merge n c_default (nget (aget k totm)) = Ok (n1, d1, t1) /\
        aget k totm' = (match aget k totm with Some _ => Some t1 | None => None end) /\ aget k ndm' = Some d1) /\
    (NoDup (map fst totm) -> NoDup (map fst totm')) /\ (NoDup (map fst ndm) -> NoDup (map fst ndm')).
Proof.
  induction nm as [|[k0 n0] nm IH]; intros totm ndm Hnd Hok.
  - exists totm, ndm. split; [reflexivity|]. split; [auto|]. split; [intros k n []|auto].
  - cbn [map fst] in Hnd. inversion Hnd as [|? ? Hk0 Hnd']; subst.
    destruct (Hok k0 n0 (or_introl eq_refl)) as [[[n1 d1] t1] Hm].
    set (totm1 := match aget k0 totm with Some _ => aset k0 t1 totm | None => totm end).
    assert (Hstep : tmerge_new_step (totm, ndm) (k0, n0) = Ok (totm1, aset k0 d1 ndm)).
    { unfold tmerge_new_step, totm1. cbn [fst snd]. unfold nget in Hm. destruct (aget k0 totm) as [tot|]; rewrite Hm; reflexivity. }
    assert (Htot1 : forall k, k <> k0 -> aget k totm1 = aget k totm).
    { intros k Hk. unfold totm1. destruct (aget k0 totm); [apply aget_aset_ne; exact Hk|reflexivity]. }
    assert (Hne' : forall k n, In (k, n) nm -> k <> k0).
    { intros k n Hk ->. apply Hk0. apply in_map_iff. exists (k0, n). auto. }
    destruct (IH totm1 (aset k0 d1 ndm) Hnd') as [totm' [ndm' [Hf [Hout [Hin [N2 N3]]]]]].
    { intros k n Hk. rewrite (Htot1 k (Hne' k n Hk)). apply Hok. right; exact Hk. }
    exists totm', ndm'. split; [cbn [foldM]; rewrite Hstep; cbn [bind]; exact Hf|].
    split; [|split; [|split]].
    + intros k Hk. cbn [map fst] in Hk. assert (Hk1 : k <> k0) by (intros ->; apply Hk; now left).
      assert (Hk2 : ~ In k (map fst nm)) by (intros H; apply Hk; now right).
      destruct (Hout k Hk2) as [H2 H3]. rewrite H2, H3, (Htot1 k Hk1), (aget_aset_ne _ _ _ _ _ Hk1). auto.
    + intros k n [Hkn|Hkn].
      * inversion Hkn; subst k n. exists n1, d1, t1. split; [exact Hm|]. destruct (Hout k0 Hk0) as [H2 H3]. rewrite H2, H3, aget_aset_eq.
        split; [|reflexivity]. unfold totm1. destruct (aget k0 totm) eqn:E; [apply aget_aset_eq|exact E].
      * pose proof (Hne' k n Hkn) as Hkk. destruct (Hin k n Hkn) as [n2 [d2 [t2 [Hm2 [H2 H3]]]]].
        rewrite (Htot1 k Hkk) in Hm2, H2. exists n2, d2, t2. auto.
    + intros H. apply N2. unfold totm1. destruct (aget k0 totm); [apply nodup_keys_aset; exact H|exact H].
    + intros H. apply N3. apply nodup_keys_aset; exact H.
Qed.

(* ================================================================== the provider *)
Lemma ghost_eq : forall (a b : ghost T2), g_t T2 a = g_t T2 b -> g_td T2 a = g_td T2 b -> g_new T2 a = g_new T2 b -> a = b.
Proof. intros [a1 a2 a3] [b1 b2 b3]. cbn. intros -> -> ->. reflexivity. Qed.

Lemma aget_none_keys : forall V (k : nat) (m : list (nat * V)), aget k m = None <-> ~ In k (map fst m).
Proof.
  intros V k m. split.
  - intros H Hk. apply aget_some_in_keys in Hk. congruence.
  - intros H. destruct (aget k m) eqn:E; [|reflexivity]. exfalso. apply H. apply aget_some_in_keys. congruence.
Qed.

Lemma rebuild_rev_ok : forall rev m, (forall k c, In (k, c) m -> exists l, c_ind_iter_all rev c = Ok l) -> exists r, rebuild_rev rev m = Ok r.
Proof.
  intros rev m. unfold rebuild_rev. generalize (@nil (nat * list nat)). induction m as [|[k c] m IH]; intros acc H; [eexists; reflexivity|].
  cbn [foldM fst snd]. destruct (H k c (or_introl eq_refl)) as [l Hl]. rewrite Hl. cbn [bind]. apply IH. intros k' c' Hk. apply (H k' c'). right; exact Hk.
Qed.

Definition flat3 (l : list (nat * list (nat * nat))) : list T3 := concat (map (fun kl => map (fun p => (fst kl, p)) (snd kl)) l).

Lemma t_all_spec : forall t, NoDup (map fst (tm t)) -> (forall k c, In (k, c) (tm t) -> exists l, c_iter_all c = Ok l) ->
  exists L, t_all t = Ok L /\
    forall k x y, In (k, (x, y)) (flat3 L) <-> exists c l, aget k (tm t) = Some c /\ c_iter_all c = Ok l /\ In (x, y) l.
Proof.
  intros t Hnd Hok. unfold t_all.
  rewrite (mapM_ok _ _ _ (fun kc => (fst kc, itl (snd kc))) (tm t)).
  - eexists; split; [reflexivity|]. intros k x y. unfold flat3. rewrite map_map. cbn [fst snd]. rewrite in_concat. split.
    + intros [l [Hl Hin]]. apply in_map_iff in Hl. destruct Hl as [[k' c] [<- Hkc]]. cbn [fst snd] in Hin.
      apply in_map_iff in Hin. destruct Hin as [p [Ep Hp]]. inversion Ep; subst k' p.
      destruct (Hok k c Hkc) as [l Hl]. exists c, l. split; [apply in_aget; assumption|]. split; [exact Hl|].
      unfold itl in Hp. rewrite Hl in Hp. exact Hp.
    + intros [c [l [Hc [Hl Hin]]]]. exists (map (fun p => (k, p)) (itl c)). split.
      * apply in_map_iff. exists (k, c). split; [reflexivity|apply aget_in; exact Hc].
      * apply in_map_iff. exists (x, y). split; [reflexivity|]. unfold itl. rewrite Hl. exact Hin.
  - intros [k c] Hkc. cbn [fst snd]. destruct (Hok k c Hkc) as [l Hl]. unfold itl. rewrite Hl. reflexivity.
Qed.

Section Tern.
Variables has1 has2 : bool.

Definition tst : Type := (tern * tern * tern)%type.             (* new, delta, total *)
Definition pt_init : tst := (t_default has1 has2, t_default has1 has2, t_default has1 has2).
Definition pt_ins (s : tst) (t : T3) : tst * bool :=
  let '(n, d, t0) := s in
  match t_insert n (fst t) (fst (snd t)) (snd (snd t)) with Ok (n', b) => ((n', d, t0), b) | Err _ => (s, false) end.
Definition pt_merge (s : tst) : tst := let '(n, d, t) := s in match t_merge n d t with Ok r => r | Err _ => s end.
Definition pt_restart (s : tst) : tst := let '(n, d, t) := s in (t_default has1 has2, t, t_default has1 has2).
Definition pt_ver (s : tst) (v : ver) : tern := let '(n, d, t) := s in match v with VTotal => t | VDelta => d end.
Definition pt_read (s : tst) (v : ver) : list T3 := match t_all (pt_ver s v) with Ok l => flat3 l | Err _ => [] end.
Definition pt_contains (s : tst) (v : ver) (t : T3) : bool :=
  match t_contains (pt_ver s v) (fst t) (fst (snd t)) (snd (snd t)) with Ok b => b | Err _ => false end.

Definition PT : provider T3 :=
  {| St := tst; p_init := pt_init; p_ins := pt_ins; p_merge := pt_merge; p_restart := pt_restart;
     p_read := pt_read; p_contains := pt_contains;
     View := unit; Ix := unit; p_get := fun _ _ _ => None; p_all := fun _ _ _ => []; v_sel := fun _ _ => false; v_ix := fun _ => tt |}.

Inductive qhist3 : list (pop T3) -> Prop :=
| q3_nil : qhist3 []
| q3_ins h p : qhist3 h -> qhist3 (h ++ [PIns p])
| q3_merge h : qhist3 h -> qhist3 (h ++ [PMerge])
| q3_restart h : qhist3 h -> g_new T3 (ghost_of T3 h) = [] -> incl (g_td T3 (ghost_of T3 h)) (g_t T3 (ghost_of T3 h)) ->
    qhist3 (h ++ [PRestart]).

(* ---- the invariant *)
Definition osome {A} (o : option A) : bool := match o with Some _ => true | None => false end.
Definition twf (t : tern) : Prop := NoDup (map fst (tm t)) /\ osome (rm1 t) = has1 /\ osome (rm2 t) = has2.
Definition KI (s : tst) (g : ghost T3) : Prop :=
  let '(n, d, t) := s in
  twf n /\ twf d /\ twf t /\ forall k, KI1 (aget k (tm n)) (aget k (tm d)) (aget k (tm t)) (gk k g).

Lemma twf_default : twf (t_default has1 has2).
Proof. unfold twf, t_default. cbn. split; [constructor|]. destruct has1, has2; auto. Qed.

Lemma absent_default_nil : forall g, rsub (g_t T2 g) [] -> req [] (g_td T2 g) -> absent g c_default.
Proof. intros g H1 H2. exists tr_empty, []. split; [reflexivity|]. split; [apply tr_empty_inv|]. split; assumption. Qed.

Lemma KI_init : KI pt_init (ghost_init T3).
Proof.
  unfold pt_init, KI. split; [apply twf_default|]. split; [apply twf_default|]. split; [apply twf_default|].
  intros k. split; cbn; [reflexivity|]. apply absent_default_nil; [apply rsub_refl|intros x y; reflexivity].
Qed.

Lemma KI_ins : forall s g (p : T3), KI s g ->
  exists n' b, (let '(n, d, t) := s in t_insert n (fst p) (fst (snd p)) (snd (snd p))) = Ok (n', b) /\
               KI (let '(n, d, t) := s in (n', d, t)) (ghost_step T3 g (PIns p)).
Proof.
  intros [[n d] t] g [k [x y]] [Wn [Wd [Wt HK]]]. cbn [fst snd]. unfold t_insert.
  fold (nget (aget k (tm n))). destruct (HK k) as [Hn Hs]. destruct (knew_unwrap _ _ Hn) as [r [Hu Hr]].
  unfold c_insert. rewrite Hu. cbn [bind].
  assert (Hstep : forall k', gk k' (ghost_step T3 g (PIns (k, (x, y)))) =
                             if Nat.eqb k' k then ghost_step T2 (gk k' g) (PIns (x, y)) else gk k' g).
  { intros k'. apply ghost_eq; destruct (Nat.eqb_spec k' k) as [->|Hne]; cbn [gk ghost_step g_t g_td g_new]; try reflexivity.
    - apply proj_snoc_eq.
    - apply proj_snoc_ne. intros E; apply Hne; symmetry; exact E. }
  assert (Hsh : forall k' od tc, kshape (gk k' g) od tc -> kshape (ghost_step T2 (gk k' g) (PIns (x, y))) od tc).
  { intros k' [dd|] tc H; cbn [kshape] in *; [destruct H; econstructor; eassumption|exact H]. }
  destruct Wn as [Nn [F1 F2]].
  destruct (pmem (x, y) r) eqn:Hm; cbn [bind]; eexists _, _; (split; [reflexivity|]); unfold KI;
    (split; [split; [cbn [tm]; apply nodup_keys_aset; exact Nn|cbn [rm1 rm2]; try (destruct (rm1 n), (rm2 n); cbn in *; auto)]|]);
    (split; [exact Wd|]); (split; [exact Wt|]); intros k'; rewrite Hstep; cbn [tm];
    (destruct (Nat.eqb_spec k' k) as [->|Hne]; [rewrite aget_aset_eq|rewrite (aget_aset_ne _ _ _ _ _ Hne); apply HK]).
  - split; [|apply Hsh; exact Hs]. cbn [knew ghost_step g_new]. exists r. split; [reflexivity|].
    intros q. rewrite in_app_iff, <- Hr. cbn. split; [tauto|]. intros [H|[<-|[]]]; [exact H|apply pmem_in; exact Hm].
  - split; [|apply Hsh; exact Hs]. cbn [knew ghost_step g_new]. exists (r ++ [(x, y)]). split; [reflexivity|].
    intros q. rewrite !in_app_iff, <- Hr. reflexivity.
Qed.

Lemma KI_build : forall n d t g, twf n -> twf d -> twf t ->
  (forall k, KI1 (aget k (tm n)) (aget k (tm d)) (aget k (tm t)) (gk k g)) -> KI (n, d, t) g.
Proof. intros n d t g H1 H2 H3 H4. unfold KI. auto. Qed.

Lemma gk_merge : forall k g, gk k (ghost_step T3 g PMerge) = ghost_step T2 (gk k g) PMerge.
Proof. intros k g. apply ghost_eq; cbn [gk ghost_step g_t g_td g_new]; try reflexivity. apply proj_app. Qed.

Definition osrv (o : option common) (x y : nat) : Prop := exists c, o = Some c /\ In (x, y) (itl c).
Definition kfacts (g : ghost T2) (od' ot' : option common) : Prop :=
  (forall x y, osrv ot' x y -> rtc (g_td T2 g) x y \/ osrv od' x y) /\
  (g_new T2 g = [] -> forall x y, osrv od' x y -> osrv ot' x y).

Lemma itl_ok : forall c l, c_iter_all c = Ok l -> itl c = l.
Proof. intros c l H. unfold itl. rewrite H. reflexivity. Qed.
Lemma osrv_some : forall c x y, osrv (Some c) x y <-> In (x, y) (itl c).
Proof. intros c x y. split; [intros [c' [E H]]; inversion E; subst; exact H|intros H; exists c; auto]. Qed.
Lemma osrv_none : forall x y, ~ osrv None x y.
Proof. intros x y [c [E _]]. discriminate. Qed.

Lemma KI_merge : forall s g, KI s g ->
  exists N' D' T', (let '(n, d, t) := s in t_merge n d t) = Ok (N', D', T') /\ KI (N', D', T') (ghost_step T3 g PMerge) /\
    (forall k, kfacts (gk k g) (aget k (tm D')) (aget k (tm T')) /\
               (aget k (tm (snd (fst s))) <> None \/ aget k (tm (snd s)) <> None -> aget k (tm T') <> None)) /\
    tm N' = [] /\
    (forall m, rm1 (snd (fst s)) = Some m -> exists mt rb, rm1 (snd s) = Some mt /\ rm1 N' = Some [] /\ rm1 T' = Some (munion m mt) /\
                                              rebuild_rev false (tm D') = Ok rb /\ rm1 D' = Some rb) /\
    (forall m, rm2 (snd (fst s)) = Some m -> exists mt rb, rm2 (snd s) = Some mt /\ rm2 N' = Some [] /\ rm2 T' = Some (munion m mt) /\
                                              rebuild_rev true (tm D') = Ok rb /\ rm2 D' = Some rb).
Proof.
  intros [[N D] Tt] g [Wn [Wd [Wt HK]]]. destruct Wn as [Nn [Fn1 Fn2]]. destruct Wd as [Nd [Fd1 Fd2]]. destruct Wt as [Nt [Ft1 Ft2]].
  unfold t_merge. cbn [fst snd].
  (* first loop *)
  destruct (loop1_spec (tm D) (tm N) (tm Tt) [] Nd) as [newm1 [totm1 [ndm1 [Hf1 [O1 [I1 [NN1 [NT1 NM1]]]]]]]].
  { intros k d Hkd. pose proof (in_aget _ _ _ _ Nd Hkd) as Hd. destruct (HK k) as [Hn Hs]. rewrite Hd in Hs.
    destruct (kmerge_delta _ _ d _ (conj Hn Hs)) as [n1 [d1 [t1 [Hm _]]]]. eexists; exact Hm. }
  rewrite Hf1. cbn [bind].
  specialize (NN1 Nn). specialize (NT1 Nt). specialize (NM1 (NoDup_nil _)).
  assert (HinD : forall k, In k (map fst (tm D)) -> exists d, In (k, d) (tm D)).
  { intros k Hk. apply in_map_iff in Hk. destruct Hk as [[k' d] [E H]]. cbn in E. subst k'. exists d; exact H. }
  (* second loop *)
  destruct (loop2_spec newm1 totm1 ndm1 NN1) as [totm2 [ndm2 [Hf2 [O2 [I2 [NT2 NM2]]]]]].
  { intros k nw Hkn. pose proof (in_aget _ _ _ _ NN1 Hkn) as Hnw.
    assert (HkD : ~ In k (map fst (tm D))).
    { intros Hk. destruct (HinD k Hk) as [d Hd]. destruct (I1 k d Hd) as [_ [_ [_ [_ [E _]]]]]. congruence. }
    destruct (O1 k HkD) as [E1 [E2 _]]. rewrite E2. rewrite E1 in Hnw.
    destruct (HK k) as [Hn Hs]. rewrite Hnw in Hn. rewrite (proj2 (aget_none_keys _ _ _) HkD) in Hs.
    destruct (kmerge_new _ nw _ (conj Hn Hs)) as [n1 [d1 [t1 [Hm _]]]]. eexists; exact Hm. }
  rewrite Hf2. cbn [bind]. specialize (NT2 NT1). specialize (NM2 NM1).
  (* what the three maps hold for a key afterwards *)
  assert (HP : forall k, aget k (tm D) <> None \/ aget k (tm Tt) <> None -> aget k totm2 <> None).
  { intros k Hk. destruct (aget k (tm D)) as [d|] eqn:Hd.
    - pose proof (aget_in _ _ _ _ Hd) as Hin. destruct (I1 k d Hin) as [n1 [d1 [t1 [_ [E1 [E2 _]]]]]].
      assert (Hk2 : ~ In k (map fst newm1)) by (apply aget_none_keys; exact E1).
      destruct (O2 k Hk2) as [E4 _]. rewrite E4, E2. discriminate.
    - destruct Hk as [Hk|Hk]; [congruence|].
      assert (HkD : ~ In k (map fst (tm D))) by (apply aget_none_keys; exact Hd).
      destruct (O1 k HkD) as [E1 [E2 _]].
      destruct (aget k newm1) as [nw|] eqn:Hnw.
      + destruct (I2 k nw (aget_in _ _ _ _ Hnw)) as [n1 [d1 [t1 [_ [E4 _]]]]]. rewrite E4, E2.
        destruct (aget k (tm Tt)); [discriminate|congruence].
      + assert (Hk2 : ~ In k (map fst newm1)) by (apply aget_none_keys; exact Hnw).
        destruct (O2 k Hk2) as [E4 _]. rewrite E4, E2. exact Hk. }
  assert (HK' : forall k, KI1 None (aget k ndm2) (aget k totm2) (gk k (ghost_step T3 g PMerge)) /\
                          kfacts (gk k g) (aget k ndm2) (aget k totm2)).
  { intros k. rewrite gk_merge. destruct (HK k) as [Hn Hs].
    destruct (aget k (tm D)) as [d|] eqn:Hd.
    - pose proof (aget_in _ _ _ _ Hd) as Hin. destruct (I1 k d Hin) as [n1 [d1 [t1 [Hm [E1 [E2 E3]]]]]].
      assert (Hk2 : ~ In k (map fst newm1)) by (apply aget_none_keys; exact E1).
      destruct (O2 k Hk2) as [E4 E5]. rewrite E4, E5, E2, E3. cbn [aget nget].
      destruct (kmerge_delta _ _ d _ (conj Hn Hs)) as [n1' [d1' [t1' [Hm' [Hs' [M1 [M2 M3]]]]]]]. rewrite Hm in Hm'. inversion Hm'; subst n1' d1' t1'.
      destruct (temp d1) eqn:Ht.
      + assert (Hce : c_trait_is_empty d1 = Ok true) by (rewrite c_trait_ok, Ht; reflexivity).
        split; [split; [reflexivity|exact (kshape_drop _ d1 t1 Hs' Hce)]|]. split.
        * intros x y H. apply osrv_some in H. left.
          destruct (shape_reads _ _ _ Hs') as [[ld [Hld _]] [[lt [Hlt _]] [_ Hsrv]]]. rewrite (itl_ok _ _ Hlt) in H.
          assert (Hr : rtc (g_td T2 (ghost_step T2 (gk k g) PMerge)) x y) by (apply Hsrv; exists ld, lt; auto).
          cbn [ghost_step g_td] in Hr. rewrite (M3 Hce), app_nil_r in Hr. exact Hr.
        * intros _ x y H. exfalso. exact (osrv_none _ _ H).
      + split; [split; [reflexivity|exact Hs']|]. split.
        * intros x y H. apply osrv_some in H. destruct (M1 x y H) as [H1|H1]; [left; exact H1|right; apply osrv_some; exact H1].
        * intros Hg x y H. apply osrv_some in H. apply osrv_some. apply (M2 Hg x y H).
    - assert (HkD : ~ In k (map fst (tm D))) by (apply aget_none_keys; exact Hd).
      destruct (O1 k HkD) as [E1 [E2 E3]]. cbn [aget] in E3.
      destruct (aget k (tm N)) as [nw|] eqn:Hnw.
      + assert (Hin : In (k, nw) newm1) by (apply aget_in; rewrite E1; reflexivity).
        destruct (I2 k nw Hin) as [n1 [d1 [t1 [Hm [E4 E5]]]]]. rewrite E2 in Hm, E4. rewrite E4, E5.
        destruct (kmerge_new _ nw _ (conj Hn Hs)) as [n1' [d1' [t1' [Hm' [Hs' [Hnone [M1 [M2 M3]]]]]]]]. rewrite Hm in Hm'. inversion Hm'; subst n1' d1' t1'.
        split; [split; [reflexivity|]|split].
        * cbn [kshape]. destruct (aget k (tm Tt)) as [tc|]; cbn [nget]; [exact Hs'|]. rewrite (Hnone eq_refl) in Hs'. exact Hs'.
        * intros x y H. destruct (aget k (tm Tt)) as [tc|]; [|exfalso; exact (osrv_none _ _ H)].
          apply osrv_some in H. destruct (M1 x y H) as [H1|H1]; [left; exact H1|right; apply osrv_some; exact H1].
        * intros Hg x y H. apply osrv_some in H. pose proof (M2 Hg x y H) as H1.
          destruct (aget k (tm Tt)) as [tc|]; [apply osrv_some; exact H1|]. rewrite (Hnone eq_refl) in H1. destruct H1.
      + assert (Hk2 : ~ In k (map fst newm1)) by (apply aget_none_keys; rewrite E1; reflexivity).
        destruct (O2 k Hk2) as [E4 E5]. rewrite E4, E5, E2, E3. cbn [kshape knew] in *.
        split; [split; [reflexivity|apply kidle; assumption]|]. split.
        * intros x y [c [Hc H]]. left. rewrite Hc in Hs. cbn [nget] in Hs. destruct (absent_reads _ _ Hs) as [lt [Hlt [_ Hq]]].
          rewrite (itl_ok _ _ Hlt) in H. apply Hq. exact H.
        * intros _ x y H. exfalso. exact (osrv_none _ _ H). }
  (* the delta's reverse maps are rebuilt from maps that can be read *)
  assert (Hrb : forall rev, exists r, rebuild_rev rev ndm2 = Ok r).
  { intros rev. apply rebuild_rev_ok. intros k c Hkc. pose proof (in_aget _ _ _ _ NM2 Hkc) as Hc.
    destruct (HK' k) as [[_ Hs] _]. rewrite Hc in Hs. cbn [kshape] in Hs. destruct (shape_reads _ _ _ Hs) as [_ [_ [Hr _]]]. apply Hr. }
  destruct (Hrb false) as [rb1 Hrb1]. destruct (Hrb true) as [rb2 Hrb2].
  assert (Hsome : forall (o : option mset) b, osome o = b -> b = true -> exists m, o = Some m).
  { intros [m|] b H1 H2; [eexists; reflexivity|]. cbn in H1. congruence. }
  assert (Hnone : forall (o : option mset) b, osome o = b -> b = false -> o = None).
  { intros [m|] b H1 H2; [cbn in H1; congruence|reflexivity]. }
  destruct has1 eqn:H1; destruct has2 eqn:H2.
  - destruct (Hsome _ _ Fn1 eq_refl) as [a1 ->]. destruct (Hsome _ _ Fd1 eq_refl) as [b1 ->]. destruct (Hsome _ _ Ft1 eq_refl) as [c1 ->].
    destruct (Hsome _ _ Fn2 eq_refl) as [a2 ->]. destruct (Hsome _ _ Fd2 eq_refl) as [b2 ->]. destruct (Hsome _ _ Ft2 eq_refl) as [c2 ->].
    cbn [of_opt bind]. rewrite Hrb1, Hrb2. cbn [bind]. eexists _, _, _. split; [reflexivity|]. cbn [tm rm1 rm2].
    split; [apply KI_build; [| | |intros k; apply HK']; (split; [cbn [tm map]; first [constructor|assumption]|cbn [rm1 rm2 osome]; split; congruence])|].
    split; [intros k; split; [apply HK'|apply HP]|]. split; [reflexivity|].
    split; intros m Hm; first [discriminate Hm|inversion Hm; subst m; eexists _, _; repeat split; first [reflexivity|assumption]].
  - destruct (Hsome _ _ Fn1 eq_refl) as [a1 ->]. destruct (Hsome _ _ Fd1 eq_refl) as [b1 ->]. destruct (Hsome _ _ Ft1 eq_refl) as [c1 ->].
    rewrite (Hnone _ _ Fn2 eq_refl), (Hnone _ _ Fd2 eq_refl), (Hnone _ _ Ft2 eq_refl).
    cbn [of_opt bind]. rewrite Hrb1. cbn [bind]. eexists _, _, _. split; [reflexivity|]. cbn [tm rm1 rm2].
    split; [apply KI_build; [| | |intros k; apply HK']; (split; [cbn [tm map]; first [constructor|assumption]|cbn [rm1 rm2 osome]; split; congruence])|].
    split; [intros k; split; [apply HK'|apply HP]|]. split; [reflexivity|].
    split; intros m Hm; first [discriminate Hm|inversion Hm; subst m; eexists _, _; repeat split; first [reflexivity|assumption]].
  - rewrite (Hnone _ _ Fn1 eq_refl), (Hnone _ _ Fd1 eq_refl), (Hnone _ _ Ft1 eq_refl).
    destruct (Hsome _ _ Fn2 eq_refl) as [a2 ->]. destruct (Hsome _ _ Fd2 eq_refl) as [b2 ->]. destruct (Hsome _ _ Ft2 eq_refl) as [c2 ->].
    cbn [of_opt bind]. rewrite Hrb2. cbn [bind]. eexists _, _, _. split; [reflexivity|]. cbn [tm rm1 rm2].
    split; [apply KI_build; [| | |intros k; apply HK']; (split; [cbn [tm map]; first [constructor|assumption]|cbn [rm1 rm2 osome]; split; congruence])|].
    split; [intros k; split; [apply HK'|apply HP]|]. split; [reflexivity|].
    split; intros m Hm; first [discriminate Hm|inversion Hm; subst m; eexists _, _; repeat split; first [reflexivity|assumption]].
  - rewrite (Hnone _ _ Fn1 eq_refl), (Hnone _ _ Fd1 eq_refl), (Hnone _ _ Ft1 eq_refl).
    rewrite (Hnone _ _ Fn2 eq_refl), (Hnone _ _ Fd2 eq_refl), (Hnone _ _ Ft2 eq_refl).
    cbn [of_opt bind]. eexists _, _, _. split; [reflexivity|]. cbn [tm rm1 rm2].
    split; [apply KI_build; [| | |intros k; apply HK']; (split; [cbn [tm map]; first [constructor|assumption]|cbn [rm1 rm2 osome]; split; congruence])|].
    split; [intros k; split; [apply HK'|apply HP]|]. split; [reflexivity|].
    split; intros m Hm; first [discriminate Hm|inversion Hm; subst m; eexists _, _; repeat split; first [reflexivity|assumption]].
Qed.

Lemma req_nil_of_rsub : forall A, rsub A [] -> req [] A.
Proof. intros A H x y. split; [intros H0; exfalso; exact (rtc_nil_false _ _ H0)|apply H]. Qed.

Lemma KI_restart : forall s g, KI s g -> g_new T3 g = [] -> incl (g_td T3 g) (g_t T3 g) ->
  KI (pt_restart s) (ghost_step T3 g PRestart).
Proof.
  intros [[N D] Tt] g [Wn [Wd [Wt HK]]] Hn Hi. unfold pt_restart.
  apply KI_build; [apply twf_default|exact Wt|apply twf_default|]. intros k. cbn [t_default tm aget].
  assert (Hg : gk k (ghost_step T3 g PRestart) = ghost_step T2 (gk k g) PRestart) by (apply ghost_eq; reflexivity).
  rewrite Hg. set (gg := gk k g) in *.
  assert (Hng : g_new T2 gg = []) by (unfold gg; cbn [gk g_new]; rewrite Hn; reflexivity).
  assert (Hig : incl (g_td T2 gg) (g_t T2 gg)) by (intros p Hp; apply proj_in; apply Hi; apply proj_in; exact Hp).
  split; [reflexivity|]. cbn [nget]. destruct (HK k) as [_ Hs]. fold gg in Hs.
  destruct (aget k (tm Tt)) as [tc|] eqn:Ht; cbn [nget kshape] in *.
  - destruct (aget k (tm D)) as [d|]; cbn [kshape] in Hs.
    + assert (HI : Inv (CNew [], d, tc) gg).
      { split; [exists []; split; [reflexivity|]; intros p; rewrite Hng; reflexivity|exact Hs]. }
      exact (proj2 (Inv_restart _ _ HI Hng Hig)).
    + destruct Hs as [tt [Et [-> [HE [Hq Hgt]]]]]. apply (sh_total _ tt Et HE); [|apply rsub_refl].
      cbn [ghost_step g_td]. intros x y. split; [intros H; apply (rsub_incl _ _ Hig), Hq; exact H|apply Hgt].
  - apply absent_default_nil; [apply rsub_refl|]. cbn [ghost_step g_td]. apply req_nil_of_rsub.
    destruct (aget k (tm D)) as [d|]; cbn [kshape] in Hs.
    + unfold c_default in Hs. remember (CTotal tr_empty) as tc eqn:Etc. destruct Hs as [U Eu HU Hq Hz|dd Et HE _ _ _ _ Hgt _ _]; [exact Hz|].
      inversion Etc as [Hdt]. rewrite Hdt in HE. assert (Et = []) by (apply (q_is_empty _ _ HE); reflexivity). subst Et. exact Hgt.
    + destruct Hs as [tt [Et [Etc [HE [_ Hgt]]]]]. unfold c_default in Etc. inversion Etc; subst tt.
      assert (Et = []) by (apply (q_is_empty _ _ HE); reflexivity). subst Et. exact Hgt.
Qed.

Theorem KI_run : forall h, qhist3 h -> KI (run T3 PT h) (ghost_of T3 h).
Proof.
  intros h Hq. induction Hq as [|h p _ IH|h _ IH|h _ IH Hn Hi].
  - apply KI_init.
  - rewrite run_snoc, ghost_of_snoc. cbn [step PT p_ins]. destruct (KI_ins _ _ p IH) as [n' [b [Hi HK]]].
    destruct (run T3 PT h) as [[n d] t]. cbv beta iota in Hi, HK. unfold pt_ins. rewrite Hi. exact HK.
  - rewrite run_snoc, ghost_of_snoc. cbn [step PT p_merge]. destruct (KI_merge _ _ IH) as [N' [D' [T' [Hm [HK _]]]]].
    destruct (run T3 PT h) as [[n d] t]. cbv beta iota in Hm. unfold pt_merge. rewrite Hm. exact HK.
  - rewrite run_snoc, ghost_of_snoc. cbn [step PT p_restart]. apply KI_restart; assumption.
Qed.

(* ---- what the versions serve *)
Lemma ver_reads : forall s g v, KI s g ->
  NoDup (map fst (tm (pt_ver s v))) /\
  forall k c, aget k (tm (pt_ver s v)) = Some c ->
    exists l, c_iter_all c = Ok l /\ forall x y, exists b, c_contains c x y = Ok b /\ (b = true <-> In (x, y) l).
Proof.
  intros [[N D] Tt] g v [Wn [Wd [Wt HK]]]. destruct v; cbn [pt_ver].
  - split; [apply Wt|]. intros k c Hc. destruct (HK k) as [_ Hs]. rewrite Hc in Hs. cbn [nget] in Hs.
    destruct (aget k (tm D)) as [d|]; cbn [kshape] in Hs.
    + destruct (shape_reads _ _ _ Hs) as [_ [H _]]. exact H.
    + destruct (absent_reads _ _ Hs) as [lt [Hlt [Hc' _]]]. exists lt. auto.
  - split; [apply Wd|]. intros k c Hc. destruct (HK k) as [_ Hs]. rewrite Hc in Hs. cbn [kshape] in Hs.
    destruct (shape_reads _ _ _ Hs) as [H _]. exact H.
Qed.

Lemma pt_read_osrv : forall s g v, KI s g ->
  (exists L, t_all (pt_ver s v) = Ok L) /\
  (forall k x y, In (k, (x, y)) (pt_read s v) <-> osrv (aget k (tm (pt_ver s v))) x y) /\
  (forall k x y, exists b, t_contains (pt_ver s v) k x y = Ok b /\ (b = true <-> In (k, (x, y)) (pt_read s v))).
Proof.
  intros s g v HK. destruct (ver_reads s g v HK) as [Hnd Hr].
  destruct (t_all_spec (pt_ver s v) Hnd) as [L [HL Hin]].
  { intros k c Hkc. destruct (Hr k c (in_aget _ _ _ _ Hnd Hkc)) as [l [Hl _]]. exists l; exact Hl. }
  assert (Hosrv : forall k x y, In (k, (x, y)) (pt_read s v) <-> osrv (aget k (tm (pt_ver s v))) x y).
  { intros k x y. unfold pt_read. rewrite HL, Hin. split.
    - intros [c [l [Hc [Hl H]]]]. exists c. split; [exact Hc|]. rewrite (itl_ok _ _ Hl). exact H.
    - intros [c [Hc H]]. destruct (Hr k c Hc) as [l [Hl _]]. exists c, l. rewrite (itl_ok _ _ Hl) in H. auto. }
  split; [exists L; exact HL|]. split; [exact Hosrv|].
  intros k x y. unfold t_contains. destruct (aget k (tm (pt_ver s v))) as [c|] eqn:Hc.
  - destruct (Hr k c Hc) as [l [Hl Hcc]]. destruct (Hcc x y) as [b [Hb Hbb]]. exists b. split; [exact Hb|].
    rewrite Hbb, Hosrv, Hc, osrv_some, (itl_ok _ _ Hl). reflexivity.
  - exists false. split; [reflexivity|]. rewrite Hosrv, Hc. split; [discriminate|]. intros H. exfalso. exact (osrv_none _ _ H).
Qed.

Lemma itl_default : itl c_default = [].
Proof. reflexivity. Qed.

Lemma served_key : forall s g, KI s g ->
  forall k x y, (osrv (aget k (tm (pt_ver s VTotal))) x y \/ osrv (aget k (tm (pt_ver s VDelta))) x y) <-> rtc (proj k (g_td T3 g)) x y.
Proof.
  intros [[N D] Tt] g [_ [_ [_ HK]]] k x y. cbn [pt_ver]. destruct (HK k) as [_ Hs]. change (proj k (g_td T3 g)) with (g_td T2 (gk k g)).
  assert (Hnget : forall o, (exists l, c_iter_all (nget o) = Ok l) -> forall u w, osrv o u w <-> In (u, w) (itl (nget o))).
  { intros [c|] _ u w; cbn [nget]; [apply osrv_some|]. rewrite itl_default. split; [intros H; exact (osrv_none _ _ H)|intros []]. }
  destruct (aget k (tm D)) as [d|]; cbn [kshape] in Hs.
  - destruct (shape_reads _ _ _ Hs) as [[ld [Hld _]] [[lt [Hlt _]] [_ Hsrv]]].
    rewrite (Hnget _ (ex_intro _ lt Hlt)), osrv_some, (itl_ok _ _ Hlt), (itl_ok _ _ Hld), <- Hsrv. split.
    + intros H. exists ld, lt. auto.
    + intros [ld' [lt' [E1 [E2 H]]]]. rewrite Hld in E1. rewrite Hlt in E2. inversion E1; inversion E2; subst. exact H.
  - destruct (absent_reads _ _ Hs) as [lt [Hlt [_ Hq]]].
    rewrite (Hnget _ (ex_intro _ lt Hlt)), (itl_ok _ _ Hlt), <- Hq. split; [intros [H|H]; [exact H|exfalso; exact (osrv_none _ _ H)]|auto].
Qed.

(* ================================================================== the theorems *)
Theorem pt_ops_ok : forall h n d t, qhist3 h -> run T3 PT h = (n, d, t) ->
  (forall k x y, exists r, t_insert n k x y = Ok r) /\ (exists r, t_merge n d t = Ok r) /\
  (forall v, exists L, t_all (pt_ver (n, d, t) v) = Ok L) /\
  (forall v k x y, exists b, t_contains (pt_ver (n, d, t) v) k x y = Ok b).
Proof.
  intros h n d t Hq R. pose proof (KI_run h Hq) as HK. rewrite R in HK. split; [|split; [|split]].
  - intros k x y. destruct (KI_ins _ _ (k, (x, y)) HK) as [n' [b [Hi _]]]. cbn [fst snd] in Hi. eexists; exact Hi.
  - destruct (KI_merge _ _ HK) as [N' [D' [T' [Hm _]]]]. eexists; exact Hm.
  - intros v. apply (pt_read_osrv _ _ v HK).
  - intros v k x y. destruct (proj2 (proj2 (pt_read_osrv _ _ v HK)) k x y) as [b [Hb _]]. exists b; exact Hb.
Qed.

Theorem pt_contains_iff : forall h v p, qhist3 h -> (p_contains T3 PT (run T3 PT h) v p = true <-> In p (p_read T3 PT (run T3 PT h) v)).
Proof.
  intros h v [k [x y]] Hq. destruct (proj2 (proj2 (pt_read_osrv _ _ v (KI_run h Hq))) k x y) as [b [Hb Hbb]].
  cbn [PT p_contains p_read]. unfold pt_contains. cbn [fst snd]. rewrite Hb. exact Hbb.
Qed.

(* soundness AND completeness of total + delta after every operation, key by key *)
Theorem pt_served : forall h, qhist3 h ->
  forall k x y, In (k, (x, y)) (served T3 PT (run T3 PT h)) <-> rtc (proj k (g_td T3 (ghost_of T3 h))) x y.
Proof.
  intros h Hq k x y. pose proof (KI_run h Hq) as HK. unfold served. cbn [PT p_read]. rewrite in_app_iff.
  rewrite (proj1 (proj2 (pt_read_osrv _ _ VTotal HK)) k x y), (proj1 (proj2 (pt_read_osrv _ _ VDelta HK)) k x y).
  apply (served_key _ _ HK).
Qed.

Theorem pt_first_insert : forall h p, qhist3 h -> g_new T3 (ghost_of T3 h) = [] -> snd (p_ins T3 PT (run T3 PT h) p) = true.
Proof.
  intros h [k [x y]] Hq Hn. pose proof (KI_run h Hq) as HK. cbn [PT p_ins]. destruct (run T3 PT h) as [[n d] t].
  destruct HK as [_ [_ [_ HK]]]. destruct (HK k) as [Hnw _]. destruct (knew_unwrap _ _ Hnw) as [r [Hu Hr]].
  unfold pt_ins, t_insert. cbn [fst snd]. fold (nget (aget k (tm n))). unfold c_insert. rewrite Hu. cbn [bind].
  assert (r = []).
  { destruct r as [|q r']; [reflexivity|]. exfalso. assert (Hq' : In q (g_new T2 (gk k (ghost_of T3 h)))) by (apply Hr; now left).
    cbn [gk g_new] in Hq'. rewrite Hn in Hq'. destruct Hq'. }
  subst r. reflexivity.
Qed.

Theorem pt_merge_total : forall h, qhist3 h ->
  incl (p_read T3 PT (run T3 PT (h ++ [PMerge])) VTotal)
       (served T3 PT (run T3 PT h) ++ p_read T3 PT (run T3 PT (h ++ [PMerge])) VDelta).
Proof.
  intros h Hq [k [x y]] H. pose proof (KI_run h Hq) as HK. pose proof (KI_run _ (q3_merge h Hq)) as HK'.
  rewrite run_snoc in *. cbn [step PT p_merge p_read] in *. destruct (KI_merge _ _ HK) as [N' [D' [T' [Hm [_ [HF _]]]]]].
  unfold pt_merge in *. destruct (run T3 PT h) as [[n d] t] eqn:R. rewrite Hm in *.
  apply (proj1 (proj2 (pt_read_osrv _ _ VTotal HK'))) in H. cbn [pt_ver] in H.
  destruct (proj1 (proj1 (HF k)) x y H) as [H1|H1]; apply in_or_app.
  - left. rewrite <- R. apply (pt_served h Hq). exact H1.
  - right. apply (proj1 (proj2 (pt_read_osrv _ _ VDelta HK'))). exact H1.
Qed.

Theorem pt_quiescent : forall h, qhist3 h -> g_new T3 (ghost_of T3 h) = [] ->
  incl (served T3 PT (run T3 PT (h ++ [PMerge]))) (p_read T3 PT (run T3 PT (h ++ [PMerge])) VTotal).
Proof.
  intros h Hq Hn [k [x y]] H. pose proof (KI_run h Hq) as HK. pose proof (KI_run _ (q3_merge h Hq)) as HK'. unfold served in H.
  rewrite run_snoc in *. cbn [step PT p_merge p_read] in *. destruct (KI_merge _ _ HK) as [N' [D' [T' [Hm [_ [HF _]]]]]].
  unfold pt_merge in *. destruct (run T3 PT h) as [[n d] t] eqn:R. rewrite Hm in *.
  apply in_app_or in H. destruct H as [H|H]; [exact H|].
  apply (proj1 (proj2 (pt_read_osrv _ _ VDelta HK'))) in H. apply (proj1 (proj2 (pt_read_osrv _ _ VTotal HK'))). cbn [pt_ver] in *.
  apply (proj2 (proj1 (HF k))); [|exact H]. cbn [gk g_new]. rewrite Hn. reflexivity.
Qed.

Theorem pt_restart_serves : forall h,
  incl (p_read T3 PT (run T3 PT h) VTotal) (served T3 PT (run T3 PT (h ++ [PRestart]))).
Proof.
  intros h p H. rewrite run_snoc. cbn [step PT p_restart]. unfold served. cbn [PT p_read] in *. apply in_or_app. right.
  destruct (run T3 PT h) as [[n d] t]. exact H.
Qed.

Theorem pt_restart_total : forall h, p_read T3 PT (run T3 PT (h ++ [PRestart])) VTotal = [].
Proof. intros h. rewrite run_snoc. cbn [step PT p_restart p_read]. destruct (run T3 PT h) as [[n d] t]. unfold pt_restart, pt_read, pt_ver, t_default. reflexivity. Qed.

(* ---- PT is made of the model the tie checks: whenever the operation-sequence model of the ternary form
   (run_state (ter_prov ..), which also reads every view after each start / merge) runs a history, PT is in the same state *)
Definition op_of3 (o : pop T3) : list op :=
  match o with PIns t => [OIns (fst t) (fst (snd t)) (snd (snd t))] | PMerge => [OMerge] | PRestart => [OEnd; OStart] end.
Definition ops_of3 (h : list (pop T3)) : list op := OStart :: flat_map op_of3 h.

Lemma run_state_app_inv : forall St0 (P : prov St0) a b st st2, run_state P st (a ++ b) = Ok st2 ->
  exists st1, run_state P st a = Ok st1 /\ run_state P st1 b = Ok st2.
Proof.
  induction a as [|o a IH]; cbn [app run_state]; intros b st st2 H; [exists st; auto|].
  destruct (TrUfProvModel.step P st o) as [[st' it]|e]; cbn [bind] in *; [apply IH; exact H|discriminate].
Qed.

Theorem pt_is_model : forall dom kdom h st,
  run_state (ter_prov has1 has2 dom kdom) (ps_init (ter_prov has1 has2 dom kdom)) (ops_of3 h) = Ok st ->
  run T3 PT h = (s_new st, s_delta st, s_total st).
Proof.
  intros dom kdom. set (P := ter_prov has1 has2 dom kdom). induction h as [|o h IH] using rev_ind; intros st Hr.
  - unfold ops_of3 in Hr. cbn [flat_map run_state] in Hr.
    destruct (TrUfProvModel.step P (ps_init P) OStart) as [[st1 it]|e] eqn:Hs; cbn [bind] in Hr; [|discriminate]. inversion Hr; subst st1.
    cbn [TrUfProvModel.step P ter_prov TrUfProvModel.p_init p_default ps_init s_stored] in Hs.
    destruct (read_both _ _) in Hs; cbn [bind] in Hs; [|discriminate]. inversion Hs. reflexivity.
  - assert (Happ : ops_of3 (h ++ [o]) = ops_of3 h ++ op_of3 o).
    { unfold ops_of3. rewrite flat_map_app. cbn [flat_map]. rewrite app_nil_r. reflexivity. }
    rewrite Happ in Hr. destruct (run_state_app_inv _ P _ _ _ _ Hr) as [st1 [Hr1 Hr2]]. rewrite run_snoc, (IH st1 Hr1). clear Hr Hr1 IH Happ.
    destruct o as [[k [x y]]| |]; cbn [op_of3 Provider.step PT p_ins p_merge p_restart fst snd run_state] in *.
    + destruct (TrUfProvModel.step P st1 (OIns k x y)) as [[st2 it]|e] eqn:Hs; cbn [bind] in Hr2; [|discriminate].
      inversion Hr2; subst st2. cbn [TrUfProvModel.step P ter_prov TrUfProvModel.p_insert] in Hs. unfold pt_ins. cbn [fst snd].
      destruct (t_insert (s_new st1) k x y) as [[n b]|e]; cbn [bind] in Hs; [|discriminate]. inversion Hs. reflexivity.
    + destruct (TrUfProvModel.step P st1 OMerge) as [[st2 it]|e] eqn:Hs; cbn [bind] in Hr2; [|discriminate].
      inversion Hr2; subst st2. cbn [TrUfProvModel.step P ter_prov TrUfProvModel.p_merge] in Hs. unfold pt_merge.
      destruct (t_merge (s_new st1) (s_delta st1) (s_total st1)) as [[[n d] t]|e]; cbn [bind] in Hs; [|discriminate].
      destruct (read_both _ _) in Hs; cbn [bind] in Hs; [|discriminate]. inversion Hs. reflexivity.
    + change (TrUfProvModel.step P st1 OEnd) with (Ok (mkPS (s_total st1) (s_new st1) (s_delta st1) (t_default has1 has2), REnd)) in Hr2.
      cbn [bind] in Hr2.
      destruct (TrUfProvModel.step P (mkPS (s_total st1) (s_new st1) (s_delta st1) (t_default has1 has2)) OStart) as [[st2 it]|e] eqn:Hs;
        cbn [bind] in Hr2; [|discriminate].
      inversion Hr2; subst st2. cbn [TrUfProvModel.step P ter_prov TrUfProvModel.p_init p_default s_stored] in Hs.
      destruct (read_both _ _) in Hs; cbn [bind] in Hs; [|discriminate]. inversion Hs. reflexivity.
Qed.
End Tern.
