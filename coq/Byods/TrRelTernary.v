(* C11 — the ternary form of the trrel provider (TrRel2IndCommon): the per-key map is the binary provider
   key by key (tmerge_per_key, trun_per_key); what the reverse-map views return (tv_i1_get1_spec, ..),
   exact for total and — since commit 0ce9ae6, which rebuilds delta's reverse maps from the new delta — for delta;
   the behaviour before that commit (law P4 failed for delta read through reverse_map1/2, former finding F4) is kept
   as a statement about the model with rebuild = false. *)
From Coq Require Import List ZArith Bool Lia.
From AV Require Import Byods.TrRelModel.
From AV Require Import Byods.TrRelProofs.
Import ListNotations.
Open Scope Z_scope.

(* ------------------------------------------------------------------ association lists *)

Lemma klookup_kremove_same k m : klookup k (kremove k m) = None.
Proof.
  induction m as [|[k' c] m IH]; cbn; [reflexivity|].
  destruct (k' =? k) eqn:E; [exact IH | cbn; rewrite E; exact IH].
Qed.

Lemma klookup_kremove_other k k' m : k <> k' -> klookup k' (kremove k m) = klookup k' m.
Proof.
  intros Hne. induction m as [|[k0 c] m IH]; cbn; [reflexivity|].
  destruct (k0 =? k) eqn:E.
  - apply Z.eqb_eq in E. subst k0. destruct (k =? k') eqn:E'; [apply Z.eqb_eq in E'; contradiction | exact IH].
  - cbn. destruct (k0 =? k'); [reflexivity | exact IH].
Qed.

Lemma klookup_app k m m' :
  klookup k (m ++ m') = match klookup k m with Some c => Some c | None => klookup k m' end.
Proof.
  induction m as [|[k0 c] m IH]; cbn; [reflexivity|]. destruct (k0 =? k); [reflexivity | exact IH].
Qed.

Lemma klookup_map_set k c m k' :
  klookup k' (map (fun kc : Z * brel => if fst kc =? k then (k, c) else kc) m) =
  if k =? k' then (match klookup k m with Some _ => Some c | None => None end) else klookup k' m.
Proof.
  induction m as [|[k0 c0] m IH]; cbn [map klookup fst].
  - destruct (k =? k'); reflexivity.
  - destruct (k0 =? k) eqn:E0.
    + apply Z.eqb_eq in E0. subst k0. cbn [klookup]. destruct (k =? k') eqn:E; [reflexivity | exact IH].
    + cbn [klookup]. destruct (k =? k') eqn:E.
      * apply Z.eqb_eq in E. subst k'. rewrite E0. exact IH.
      * destruct (k0 =? k'); [reflexivity | exact IH].
Qed.

Lemma klookup_kset_same k c m : klookup k (kset k c m) = Some c.
Proof.
  unfold kset. destruct (klookup k m) eqn:E.
  - rewrite klookup_map_set, Z.eqb_refl, E. reflexivity.
  - rewrite klookup_app, E. cbn. rewrite Z.eqb_refl. reflexivity.
Qed.

Lemma klookup_kset_other k k' c m : k <> k' -> klookup k' (kset k c m) = klookup k' m.
Proof.
  intros Hne. assert (E' : (k =? k') = false) by (apply Z.eqb_neq; exact Hne).
  unfold kset. destruct (klookup k m) eqn:E.
  - rewrite klookup_map_set, E'. reflexivity.
  - rewrite klookup_app. cbn. rewrite E'. destruct (klookup k' m); reflexivity.
Qed.

Lemma kget_kset_same k c m : kget k (kset k c m) = c.
Proof. unfold kget. rewrite klookup_kset_same. reflexivity. Qed.
Lemma kget_kset_other k k' c m : k <> k' -> kget k' (kset k c m) = kget k' m.
Proof. intros H. unfold kget. rewrite klookup_kset_other by exact H. reflexivity. Qed.

Lemma klookup_None_notin k m : klookup k m = None <-> ~ In k (map fst m).
Proof.
  induction m as [|[k0 c] m IH]; cbn; [tauto|].
  destruct (k0 =? k) eqn:E.
  - apply Z.eqb_eq in E. split; [discriminate | intros H; exfalso; apply H; left; exact E].
  - apply Z.eqb_neq in E. rewrite IH. tauto.
Qed.

(* ------------------------------------------------------------------ an idle key *)

Lemma flat_map_nil {A B} (l : list A) : flat_map (fun _ : A => @nil B) l = [].
Proof. induction l; cbn; auto. Qed.

Lemma compose_nil_r r : compose r [] = [].
Proof. unfold compose. cbn. apply flat_map_nil. Qed.

Lemma bmerge_idle b t :
  bmerge b {| b_new := []; b_delta := []; b_total := t |} = Some {| b_new := []; b_delta := []; b_total := t |}.
Proof.
  unfold bmerge, merge_fuel. cbn [b_new b_delta b_total]. rewrite !app_nil_r.
  cbn [inner_loop]. unfold join. cbn [compose flat_map fold_left].
  rewrite compose_nil_r. cbn. reflexivity.
Qed.

(* ------------------------------------------------------------------ the merge, key by key *)

Definition slice (k : Z) (st : tstate) : bstate :=
  {| b_new := kget k (t_map (t_new st)); b_delta := kget k (t_map (t_delta st)); b_total := kget k (t_map (t_total st)) |}.

Lemma tmerge_delta_keys_spec b : forall dm nm tm ndm nm' tm' ndm',
  NoDup (map fst dm) -> (forall k, In k (map fst dm) -> klookup k ndm = None) ->
  tmerge_delta_keys b dm nm tm ndm = Some (nm', tm', ndm') ->
  forall k,
    (forall d, klookup k dm = Some d ->
       exists r, bmerge b {| b_new := kget k nm; b_delta := d; b_total := kget k tm |} = Some r /\
                 kget k tm' = b_total r /\ kget k ndm' = b_delta r /\ klookup k nm' = None) /\
    (klookup k dm = None -> klookup k tm' = klookup k tm /\ klookup k ndm' = klookup k ndm /\ klookup k nm' = klookup k nm).
Proof.
  induction dm as [|[k0 d0] dm IH]; intros nm tm ndm nm' tm' ndm' ND Hfresh H k; cbn [tmerge_delta_keys] in H.
  - inversion H; subst. split; [intros d Hd; discriminate | auto].
  - destruct (bmerge b {| b_new := kget k0 nm; b_delta := d0; b_total := kget k0 tm |}) as [r|] eqn:M; [|discriminate].
    cbn [map fst] in ND. inversion ND as [|? ? Hnotin ND']; subst.
    set (ndm1 := if isnil (b_delta r) then ndm else ndm ++ [(k0, b_delta r)]) in *.
    assert (Hf' : forall k1, In k1 (map fst dm) -> klookup k1 ndm1 = None).
    { intros k1 Hk1. unfold ndm1. destruct (isnil (b_delta r)); [apply Hfresh; right; exact Hk1|].
      rewrite klookup_app, (Hfresh k1 (or_intror Hk1)). cbn. destruct (k0 =? k1) eqn:E; [|reflexivity].
      apply Z.eqb_eq in E. subst k1. contradiction. }
    specialize (IH _ _ _ _ _ _ ND' Hf' H k). destruct IH as [IH1 IH2].
    cbn [klookup]. destruct (k0 =? k) eqn:E.
    + apply Z.eqb_eq in E. subst k0. split; [|discriminate].
      intros d Hd. inversion Hd; subst d. exists r. split; [exact M|].
      assert (Hk : klookup k dm = None) by (apply klookup_None_notin; exact Hnotin).
      destruct (IH2 Hk) as (E1 & E2 & E3).
      unfold kget. rewrite E1, E2, E3. rewrite klookup_kset_same, klookup_kremove_same. repeat split.
      unfold ndm1. destruct (isnil (b_delta r)) eqn:En.
      * rewrite (Hfresh k (or_introl eq_refl)). apply isnil_true in En. symmetry; exact En.
      * rewrite klookup_app, (Hfresh k (or_introl eq_refl)). cbn. rewrite Z.eqb_refl. reflexivity.
    + apply Z.eqb_neq in E. split.
      * intros d Hd. destruct (IH1 d Hd) as [r' (M' & A1 & A2 & A3)]. exists r'.
        unfold kget in M'. rewrite klookup_kremove_other, klookup_kset_other in M' by exact E.
        repeat split; assumption.
      * intros Hk. destruct (IH2 Hk) as (E1 & E2 & E3).
        rewrite E1, E2, E3. rewrite klookup_kset_other, klookup_kremove_other by exact E. repeat split.
        unfold ndm1. destruct (isnil (b_delta r)); [reflexivity|].
        rewrite klookup_app. destruct (klookup k ndm); [reflexivity|]. cbn.
        destruct (k0 =? k) eqn:E'; [apply Z.eqb_eq in E'; contradiction | reflexivity].
Qed.

Lemma tmerge_new_keys_spec b : forall nm tm ndm tm' ndm',
  NoDup (map fst nm) -> (forall k, In k (map fst nm) -> klookup k ndm = None) ->
  tmerge_new_keys b nm tm ndm = Some (tm', ndm') ->
  forall k,
    (forall n, klookup k nm = Some n ->
       exists r, bmerge b {| b_new := n; b_delta := []; b_total := kget k tm |} = Some r /\
                 kget k tm' = b_total r /\ kget k ndm' = b_delta r) /\
    (klookup k nm = None -> klookup k tm' = klookup k tm /\ klookup k ndm' = klookup k ndm).
Proof.
  induction nm as [|[k0 n0] nm IH]; intros tm ndm tm' ndm' ND Hfresh H k; cbn [tmerge_new_keys] in H.
  - inversion H; subst. split; [intros n Hn; discriminate | auto].
  - cbn [map fst] in ND. inversion ND as [|? ? Hnotin ND']; subst.
    assert (Hf' : forall d1 k1, In k1 (map fst nm) -> klookup k1 (ndm ++ [(k0, d1)]) = None).
    { intros d1 k1 Hk1. rewrite klookup_app, (Hfresh k1 (or_intror Hk1)). cbn. destruct (k0 =? k1) eqn:E; [|reflexivity].
      apply Z.eqb_eq in E. subst k1. contradiction. }
    assert (Hk0 : klookup k0 nm = None) by (apply klookup_None_notin; exact Hnotin).
    cbn [klookup].
    destruct (klookup k0 tm) as [t|] eqn:Lt.
    + destruct (bmerge b {| b_new := n0; b_delta := []; b_total := t |}) as [r|] eqn:M; [|discriminate].
      specialize (IH _ _ _ _ ND' (Hf' (b_delta r)) H k). destruct IH as [IH1 IH2].
      destruct (k0 =? k) eqn:E.
      * apply Z.eqb_eq in E. subst k0. split; [|discriminate]. intros n Hn. inversion Hn; subst n.
        exists r. unfold kget at 1. rewrite Lt. split; [exact M|].
        destruct (IH2 Hk0) as (E1 & E2). unfold kget. rewrite E1, E2, klookup_kset_same.
        rewrite klookup_app, (Hfresh k (or_introl eq_refl)). cbn. rewrite Z.eqb_refl. split; reflexivity.
      * apply Z.eqb_neq in E. split.
        -- intros n Hn. destruct (IH1 n Hn) as [r' (M' & A1 & A2)]. exists r'.
           unfold kget in M'. rewrite klookup_kset_other in M' by exact E. repeat split; assumption.
        -- intros Hk. destruct (IH2 Hk) as (E1 & E2). rewrite E1, E2, klookup_kset_other by exact E. split; [reflexivity|].
           rewrite klookup_app. destruct (klookup k ndm); [reflexivity|]. cbn.
           destruct (k0 =? k) eqn:E'; [apply Z.eqb_eq in E'; contradiction | reflexivity].
    + destruct (bmerge b {| b_new := n0; b_delta := []; b_total := [] |}) as [r|] eqn:M; [|discriminate].
      specialize (IH _ _ _ _ ND' (Hf' (b_delta r)) H k). destruct IH as [IH1 IH2].
      destruct (k0 =? k) eqn:E.
      * apply Z.eqb_eq in E. subst k0. split; [|discriminate]. intros n Hn. inversion Hn; subst n.
        exists r. unfold kget at 1. rewrite Lt. split; [exact M|].
        destruct (IH2 Hk0) as (E1 & E2). unfold kget. rewrite E1, E2, Lt.
        rewrite klookup_app, (Hfresh k (or_introl eq_refl)). cbn. rewrite Z.eqb_refl. split; [|reflexivity].
        unfold bmerge in M. cbn [b_total b_delta b_new] in M.
        destruct (inner_loop _ b _ n0 n0 []); [|discriminate]. inversion M; subst r. reflexivity.
      * apply Z.eqb_neq in E. split.
        -- intros n Hn. destruct (IH1 n Hn) as [r' (M' & A1 & A2)]. exists r'. repeat split; assumption.
        -- intros Hk. destruct (IH2 Hk) as (E1 & E2). rewrite E1, E2. split; [reflexivity|].
           rewrite klookup_app. destruct (klookup k ndm); [reflexivity|]. cbn.
           destruct (k0 =? k) eqn:E'; [apply Z.eqb_eq in E'; contradiction | reflexivity].
Qed.

Lemma bmerge_new_nil b st r : bmerge b st = Some r -> b_new r = [].
Proof. unfold bmerge. destruct (inner_loop _ _ _ _ _ _); [|discriminate]. intros H; inversion H; reflexivity. Qed.

(* keys of the association lists stay distinct *)
Definition kwf (m : kmap) : Prop := NoDup (map fst m).

Lemma kremove_keys k m : forall k', In k' (map fst (kremove k m)) -> In k' (map fst m) /\ k' <> k.
Proof.
  induction m as [|[k0 c] m IH]; cbn; [tauto|]. intros k'. destruct (k0 =? k) eqn:E.
  - intros H. destruct (IH k' H). tauto.
  - cbn. apply Z.eqb_neq in E. intros [ <- | H ]; [tauto|]. destruct (IH k' H). tauto.
Qed.

Lemma kwf_kremove k m : kwf m -> kwf (kremove k m).
Proof.
  unfold kwf. induction m as [|[k0 c] m IH]; cbn; [auto|]. intros ND. inversion ND; subst.
  destruct (k0 =? k); [auto|]. cbn. constructor; [|auto]. intros H. apply kremove_keys in H. tauto.
Qed.

Lemma kset_keys k c m : forall k', In k' (map fst (kset k c m)) <-> In k' (map fst m) \/ k' = k.
Proof.
  intros k'. unfold kset. destruct (klookup k m) eqn:E.
  - assert (Hk : In k (map fst m)).
    { destruct (in_dec Z.eq_dec k (map fst m)) as [?|Hn]; [assumption|]. apply klookup_None_notin in Hn. congruence. }
    rewrite map_map.
    assert (Em : map (fun x : Z * brel => fst (if fst x =? k then (k, c) else x)) m = map fst m).
    { apply map_ext. intros [k0 c0]. cbn. destruct (k0 =? k) eqn:E0; [apply Z.eqb_eq in E0; subst; reflexivity | reflexivity]. }
    rewrite Em. split; [tauto | intros [ ? | -> ]; assumption].
  - rewrite map_app, in_app_iff. cbn. intuition.
Qed.

Lemma kwf_kset k c m : kwf m -> kwf (kset k c m).
Proof.
  unfold kwf, kset. intros ND. destruct (klookup k m) eqn:E.
  - rewrite map_map.
    assert (Em : map (fun x : Z * brel => fst (if fst x =? k then (k, c) else x)) m = map fst m).
    { apply map_ext. intros [k0 c0]. cbn. destruct (k0 =? k) eqn:E0; [apply Z.eqb_eq in E0; subst; reflexivity | reflexivity]. }
    rewrite Em. exact ND.
  - rewrite map_app. cbn. apply NoDup_snoc; [exact ND | apply klookup_None_notin; exact E].
Qed.

Lemma kwf_snoc k c m : kwf m -> klookup k m = None -> kwf (m ++ [(k, c)]).
Proof. unfold kwf. intros ND E. rewrite map_app. cbn. apply NoDup_snoc; [exact ND | apply klookup_None_notin; exact E]. Qed.

Lemma tmerge_delta_keys_wf b : forall dm nm tm ndm nm' tm' ndm',
  NoDup (map fst dm) -> (forall k, In k (map fst dm) -> klookup k ndm = None) ->
  kwf nm -> kwf tm -> kwf ndm ->
  tmerge_delta_keys b dm nm tm ndm = Some (nm', tm', ndm') ->
  kwf nm' /\ kwf tm' /\ kwf ndm'.
Proof.
  induction dm as [|[k0 d0] dm IH]; intros nm tm ndm nm' tm' ndm' ND Hfresh W1 W2 W3 H; cbn [tmerge_delta_keys] in H.
  - inversion H; subst; auto.
  - destruct (bmerge b _) as [r|] eqn:M; [|discriminate].
    cbn [map fst] in ND. inversion ND as [|? ? Hnotin ND']; subst.
    eapply IH; [exact ND' | | | | | exact H].
    + intros k1 Hk1. destruct (isnil (b_delta r)); [apply Hfresh; right; exact Hk1|].
      rewrite klookup_app, (Hfresh k1 (or_intror Hk1)). cbn. destruct (k0 =? k1) eqn:E; [|reflexivity].
      apply Z.eqb_eq in E. subst k1. contradiction.
    + apply kwf_kremove; exact W1.
    + apply kwf_kset; exact W2.
    + destruct (isnil (b_delta r)); [exact W3|]. apply kwf_snoc; [exact W3 | apply Hfresh; left; reflexivity].
Qed.

Lemma tmerge_new_keys_wf b : forall nm tm ndm tm' ndm',
  NoDup (map fst nm) -> (forall k, In k (map fst nm) -> klookup k ndm = None) ->
  kwf tm -> kwf ndm ->
  tmerge_new_keys b nm tm ndm = Some (tm', ndm') -> kwf tm' /\ kwf ndm'.
Proof.
  induction nm as [|[k0 n0] nm IH]; intros tm ndm tm' ndm' ND Hfresh W2 W3 H; cbn [tmerge_new_keys] in H.
  - inversion H; subst; auto.
  - cbn [map fst] in ND. inversion ND as [|? ? Hnotin ND']; subst.
    assert (Hf' : forall d1 k1, In k1 (map fst nm) -> klookup k1 (ndm ++ [(k0, d1)]) = None).
    { intros d1 k1 Hk1. rewrite klookup_app, (Hfresh k1 (or_intror Hk1)). cbn. destruct (k0 =? k1) eqn:E; [|reflexivity].
      apply Z.eqb_eq in E. subst k1. contradiction. }
    destruct (klookup k0 tm) as [t|] eqn:Lt.
    + destruct (bmerge b _) as [r|] eqn:M; [|discriminate].
      eapply IH; [exact ND' | apply Hf' | apply kwf_kset; exact W2 | apply kwf_snoc; [exact W3 | apply Hfresh; left; reflexivity] | exact H].
    + destruct (bmerge b _) as [r|] eqn:M; [|discriminate].
      eapply IH; [exact ND' | apply Hf' | exact W2 | apply kwf_snoc; [exact W3 | apply Hfresh; left; reflexivity] | exact H].
Qed.

Record twf (st : tstate) : Prop := {
  wf_new : kwf (t_map (t_new st)); wf_delta : kwf (t_map (t_delta st)); wf_total : kwf (t_map (t_total st)) }.

(* per-key lifting of the merge: on every key the ternary merge IS the binary merge of that key's slices *)
Theorem tmerge_gen_per_key b h rb st st' :
  twf st -> tmerge_gen b h rb st = Some st' ->
  twf st' /\ forall k, bmerge b (slice k st) = Some (slice k st').
Proof.
  intros [W1 W2 W3] H. unfold tmerge_gen in H.
  destruct (tmerge_delta_keys b (t_map (t_delta st)) (t_map (t_new st)) (t_map (t_total st)) []) as [[[nm tm] ndm]|] eqn:L1; [|discriminate].
  destruct (tmerge_new_keys b nm tm ndm) as [[tm' ndm']|] eqn:L2; [|discriminate].
  inversion H; subst st'; clear H.
  assert (F0 : forall k, In k (map fst (t_map (t_delta st))) -> klookup k (@nil (Z * brel)) = None) by reflexivity.
  pose proof (tmerge_delta_keys_spec b _ _ _ _ _ _ _ W2 F0 L1) as S1.
  destruct (tmerge_delta_keys_wf b _ _ _ _ _ _ _ W2 F0 W1 W3 (NoDup_nil _) L1) as (Wn & Wt & Wd).
  assert (F1 : forall k, In k (map fst nm) -> klookup k ndm = None).
  { intros k Hk. destruct (S1 k) as [A B]. destruct (klookup k (t_map (t_delta st))) as [d|] eqn:Ld.
    - destruct (A d eq_refl) as [r (_ & _ & _ & Hnone)]. apply klookup_None_notin in Hnone. contradiction.
    - destruct (B eq_refl) as (_ & E & _). rewrite E. reflexivity. }
  pose proof (tmerge_new_keys_spec b _ _ _ _ _ Wn F1 L2) as S2.
  destruct (tmerge_new_keys_wf b _ _ _ _ _ Wn F1 Wt Wd L2) as (Wt' & Wd').
  split; [constructor; cbn; [constructor | exact Wd' | exact Wt']|].
  intros k. unfold slice. cbn [t_new t_delta t_total t_map tver_empty]. cbn [kget klookup].
  destruct (S1 k) as [A1 B1]. destruct (S2 k) as [A2 B2].
  destruct (klookup k (t_map (t_delta st))) as [d|] eqn:Ld.
  - destruct (A1 d eq_refl) as [r (M & E1 & E2 & E3)].
    destruct (B2 E3) as (E4 & E5).
    unfold kget at 2. rewrite Ld. rewrite M. f_equal.
    pose proof (bmerge_new_nil _ _ _ M) as En. destruct r as [rn rd rt]. cbn in *. subst rn.
    unfold kget in *. rewrite E4, E5, E1, E2. reflexivity.
  - destruct (B1 eq_refl) as (E1 & E2 & E3).
    unfold kget at 2. rewrite Ld.
    destruct (klookup k nm) as [n|] eqn:Ln.
    + destruct (A2 n eq_refl) as [r (M & E4 & E5)].
      unfold kget at 1. rewrite <- E3.
      assert (Et : kget k (t_map (t_total st)) = kget k tm) by (unfold kget; rewrite E1; reflexivity).
      rewrite Et, M. f_equal.
      pose proof (bmerge_new_nil _ _ _ M) as En. destruct r as [rn rd rt]. cbn in *. subst rn. rewrite E4, E5. reflexivity.
    + destruct (B2 eq_refl) as (E4 & E5).
      unfold kget at 1. rewrite <- E3. rewrite bmerge_idle. f_equal.
      unfold kget. rewrite E5, E2, E4, E1. reflexivity.
Qed.

Theorem tmerge_per_key b h st st' :
  twf st -> tmerge b h st = Some st' ->
  twf st' /\ forall k, bmerge b (slice k st) = Some (slice k st').
Proof. exact (tmerge_gen_per_key b h true st st'). Qed.

(* ------------------------------------------------------------------ insertion and restart, key by key *)

Lemma tcontains_slice k x y v : tcontains (k, x, y) v = pmem (x, y) (kget k (t_map v)).
Proof. unfold tcontains, kget. destruct (klookup k (t_map v)); reflexivity. Qed.

Lemma tinsert_slice h k x y st :
  slice k (fst (tinsert h (k, x, y) st)) = fst (binsert (x, y) (slice k st)) /\
  snd (tinsert h (k, x, y) st) = snd (binsert (x, y) (slice k st)) /\
  (forall k', k' <> k -> slice k' (fst (tinsert h (k, x, y) st)) = slice k' st) /\
  (twf st -> twf (fst (tinsert h (k, x, y) st))).
Proof.
  unfold tinsert, binsert. rewrite !tcontains_slice. cbn [slice b_total b_delta b_new].
  destruct (pmem (x, y) (kget k (t_map (t_total st))) || pmem (x, y) (kget k (t_map (t_delta st)))) eqn:C.
  - cbn. split; [|split; [|split]]; auto.
  - unfold brel_insert. destruct (pmem (x, y) (kget k (t_map (t_new st)))) eqn:Mn.
    + cbn. split; [|split; [|split]]; auto.
    + cbn [fst snd]. unfold slice. cbn [t_new t_delta t_total t_map]. rewrite kget_kset_same. split; [reflexivity | split; [reflexivity | split]].
      * intros k' Hne. rewrite kget_kset_other by (intro; apply Hne; symmetry; assumption). reflexivity.
      * intros [W1 W2 W3]. constructor; cbn; auto. apply kwf_kset; exact W1.
Qed.

Definition proj (k : Z) (ins : list triple) : list pair :=
  map (fun t : triple => (snd (fst t), snd t)) (filter (fun t : triple => fst (fst t) =? k) ins).

Lemma proj_snoc_same k x y ins : proj k (ins ++ [(k, x, y)]) = proj k ins ++ [(x, y)].
Proof. unfold proj. rewrite filter_app, map_app. cbn. rewrite Z.eqb_refl. reflexivity. Qed.
Lemma proj_snoc_other k k' x y ins : k' <> k -> proj k' (ins ++ [(k, x, y)]) = proj k' ins.
Proof.
  intros H. unfold proj. rewrite filter_app, map_app. cbn.
  destruct (k =? k') eqn:E; [apply Z.eqb_eq in E; subst; contradiction | cbn; apply app_nil_r].
Qed.

(* histories of the engine protocol on the ternary provider *)
Fixpoint trun (b h : bool) (st : tstate) (ins : list triple) (ops : list top) : option (tstate * list triple) :=
  match ops with
  | [] => Some (st, ins)
  | TIns k x y :: rest => trun b h (fst (tinsert h (k, x, y) st)) (ins ++ [(k, x, y)]) rest
  | TMerge :: rest => match tmerge b h st with Some st' => trun b h st' ins rest | None => None end
  | TRestart :: rest =>
      if isnil (t_map (t_new st)) && isnil (t_map (t_delta st)) then trun b h (trestart st) ins rest else None
  end.

Definition TJ (b : bool) (st : tstate) (ins : list triple) : Prop :=
  twf st /\ forall k, J b (slice k st) (proj k ins).

Lemma TJ_init b : TJ b tempty [].
Proof. split; [constructor; cbn; constructor | intros k; apply J_init]. Qed.

Theorem trun_inv b h : forall ops st ins st' ins',
  TJ b st ins -> trun b h st ins ops = Some (st', ins') -> TJ b st' ins'.
Proof.
  induction ops as [|o ops IH]; intros st ins st' ins' [W HJ] H; cbn [trun] in H.
  - inversion H; subst. split; assumption.
  - destruct o as [k x y| |].
    + eapply IH; [|exact H]. destruct (tinsert_slice h k x y st) as (E1 & _ & E3 & E4). split; [apply E4; exact W|].
      intros k'. destruct (Z.eq_dec k' k) as [->|Hne].
      * rewrite E1, proj_snoc_same. apply J_insert. apply HJ.
      * rewrite (E3 k' Hne), proj_snoc_other by exact Hne. apply HJ.
    + destruct (tmerge b h st) as [st1|] eqn:M; [|discriminate].
      eapply IH; [|exact H]. destruct (tmerge_per_key b h st st1 W M) as [W1 Hk]. split; [exact W1|].
      intros k. eapply J_merge; [apply HJ | apply Hk].
    + destruct (isnil (t_map (t_new st)) && isnil (t_map (t_delta st))) eqn:C; [|discriminate].
      apply andb_true_iff in C. destruct C as [C1 C2]. apply isnil_true in C1, C2.
      eapply IH; [|exact H]. destruct W as [W1 W2 W3]. split.
      * constructor; cbn; [constructor | exact W3 | constructor].
      * intros k. assert (E : slice k (trestart st) = brestart (slice k st)) by reflexivity.
        rewrite E. apply J_restart; [apply HJ | |]; unfold slice; cbn; [rewrite C1 | rewrite C2]; reflexivity.
Qed.

(* per-key law P2 for the forward map: at every loop head, for every key, total + delta = cl of the key's insertions *)
Theorem trun_per_key b h ops st ins :
  trun b h tempty [] ops = Some (st, ins) -> t_map (t_new st) = [] ->
  forall k p, In p (kget k (t_map (t_total st)) ++ kget k (t_map (t_delta st))) <-> cl b (proj k ins) p.
Proof.
  intros H En k p. destruct (trun_inv b h ops _ _ _ _ (TJ_init b) H) as [_ HJ].
  destruct (HJ k) as [Hc _ Hcl]. unfold reads, slice in *. cbn [b_total b_delta b_new] in *.
  rewrite Hcl, En. cbn [kget klookup]. rewrite app_nil_r. symmetry. apply cl_of_closed. exact Hc.
Qed.

Theorem trun_merge_defined b h ops st ins :
  trun b h tempty [] ops = Some (st, ins) -> forall k, exists r, bmerge b (slice k st) = Some r.
Proof.
  intros H k. destruct (trun_inv b h ops _ _ _ _ (TJ_init b) H) as [_ HJ].
  apply bmerge_total. apply (j_nodup _ _ _ (HJ k)).
Qed.

(* ------------------------------------------------------------------ what the reverse-map views return *)

Lemma opt_concat_Some {A} (l : list (option (list A))) r :
  opt_concat l = Some r -> (forall o, In o l -> o <> None) /\ forall x, In x r <-> exists a, In (Some a) l /\ In x a.
Proof.
  revert r. induction l as [|o l IH]; intros r H; cbn in H.
  - inversion H; subst. split; [intros o []|]. intros x. split; [intros [] | intros [a [[] _]]].
  - destruct o as [a|]; [|discriminate]. destruct (opt_concat l) as [r'|] eqn:E; [|discriminate].
    inversion H; subst r. destruct (IH r' eq_refl) as [N M]. split.
    + intros o [<-|Ho]; [discriminate | apply N; exact Ho].
    + intros x. rewrite in_app_iff, M. split.
      * intros [Hx|[a' [Ha Hx]]]; [exists a; split; [left; reflexivity | exact Hx] | exists a'; split; [right; exact Ha | exact Hx]].
      * intros [a' [[Ea|Ha] Hx]]; [inversion Ea; subst; left; exact Hx | right; exists a'; split; assumption].
Qed.

Lemma opt_concat_None {A} (l : list (option (list A))) : opt_concat l = None <-> In None l.
Proof.
  induction l as [|o l IH]; cbn; [split; [discriminate | intros []]|].
  destruct o as [a|].
  - destruct (opt_concat l) eqn:E.
    + split; [discriminate|]. intros [H|H]; [discriminate|]. apply IH in H. discriminate.
    + split; [intros _; right; apply IH; reflexivity | reflexivity].
  - split; [intros _; left; reflexivity | reflexivity].
Qed.

Lemma rev_keys_In x r k : In k (rev_keys x r) <-> In (x, k) r.
Proof.
  unfold rev_keys. rewrite in_map_iff. split.
  - intros [[x' k'] [E H]]. apply filter_In in H. destruct H as [H Ex]. cbn in *. apply Z.eqb_eq in Ex. subst. exact H.
  - intros H. exists (x, k). split; [reflexivity|]. apply filter_In. split; [exact H | cbn; apply Z.eqb_refl].
Qed.

Definition has (v : tver) (t : triple) : Prop := In (snd (fst t), snd t) (kget (fst (fst t)) (t_map v)).

(* view [1]: the tuples (k, x1, y) of the version for the keys k registered under x1 in reverse_map1 — nothing else *)
Theorem tv_i1_get1_spec v x1 l :
  tv_i1_get1 v x1 = Some l ->
  forall t, In t l <-> has v t /\ snd (fst t) = x1 /\ In (x1, fst (fst t)) (t_rev1 v).
Proof.
  unfold tv_i1_get1. intros H. apply opt_concat_Some in H. destruct H as [_ M]. intros [[k x] y]. unfold has. cbn [fst snd].
  rewrite M. split.
  - intros [a [Ha Hx]]. apply in_map_iff in Ha. destruct Ha as [k' [E Hk']].
    destruct (klookup k' (t_map v)) as [c|] eqn:L; [|discriminate]. inversion E; subst a.
    apply in_map_iff in Hx. destruct Hx as [[x' y'] [E' Hp]]. cbn in E'. inversion E'; subst.
    apply v_i0_get1_spec in Hp. destruct Hp as [Hp Ex]. cbn in Ex. subst.
    apply rev_keys_In in Hk'. unfold kget. rewrite L. auto.
  - intros (Hh & -> & Hr). unfold kget in Hh. destruct (klookup k (t_map v)) as [c|] eqn:L; [|destruct Hh].
    exists (map (fun p : pair => (k, fst p, snd p)) (v_i0_get1 c x1)). split.
    + apply in_map_iff. exists k. rewrite L. split; [reflexivity | apply rev_keys_In; exact Hr].
    + apply in_map_iff. exists (x1, y). split; [reflexivity | apply v_i0_get1_spec; auto].
Qed.

(* it panics exactly when reverse_map1 registers a key that the per-key map does not have *)
Theorem tv_i1_get1_panics v x1 :
  tv_i1_get1 v x1 = None <-> exists k, In (x1, k) (t_rev1 v) /\ klookup k (t_map v) = None.
Proof.
  unfold tv_i1_get1. rewrite opt_concat_None, in_map_iff. split.
  - intros [k [E Hk]]. exists k. split; [apply rev_keys_In; exact Hk|]. destruct (klookup k (t_map v)); [discriminate | reflexivity].
  - intros [k [Hk L]]. exists k. rewrite L. split; [reflexivity | apply rev_keys_In; exact Hk].
Qed.

(* view [2] *)
Theorem tv_i2_get1_spec v x2 l :
  tv_i2_get1 v x2 = Some l ->
  forall t, In t l <-> has v t /\ snd t = x2 /\ In (x2, fst (fst t)) (t_rev2 v).
Proof.
  unfold tv_i2_get1. intros H. apply opt_concat_Some in H. destruct H as [_ M]. intros [[k x] y]. unfold has. cbn [fst snd].
  rewrite M. split.
  - intros [a [Ha Hx]]. apply in_map_iff in Ha. destruct Ha as [k' [E Hk']].
    destruct (klookup k' (t_map v)) as [c|] eqn:L; [|discriminate].
    destruct (v_i1_get1 c x2) as [|p0 l0] eqn:V; [discriminate|]. inversion E; subst a.
    assert (Hx' : In (k, x, y) (map (fun p : pair => (k', fst p, snd p)) (p0 :: l0))) by exact Hx.
    clear Hx. apply in_map_iff in Hx'. destruct Hx' as [[x' y'] [E' Hp]]. cbn in E'. inversion E'; subst.
    rewrite <- V in Hp. apply v_i1_get1_spec in Hp. destruct Hp as [Hp Ex]. cbn in Ex. subst.
    apply rev_keys_In in Hk'. unfold kget. rewrite L. auto.
  - intros (Hh & -> & Hr). unfold kget in Hh. destruct (klookup k (t_map v)) as [c|] eqn:L; [|destruct Hh].
    assert (Hin : In (x, x2) (v_i1_get1 c x2)) by (apply v_i1_get1_spec; auto).
    exists (map (fun p : pair => (k, fst p, snd p)) (v_i1_get1 c x2)). split.
    + apply in_map_iff. exists k. rewrite L. split; [|apply rev_keys_In; exact Hr].
      destruct (v_i1_get1 c x2); [destruct Hin | reflexivity].
    + apply in_map_iff. exists (x, x2). split; [reflexivity | exact Hin].
Qed.

Theorem tv_i2_get1_panics v x2 :
  tv_i2_get1 v x2 = None <->
  exists k, In (x2, k) (t_rev2 v) /\ forall x, ~ In (x, x2) (kget k (t_map v)).
Proof.
  unfold tv_i2_get1. rewrite opt_concat_None, in_map_iff. split.
  - intros [k [E Hk]]. exists k. split; [apply rev_keys_In; exact Hk|]. unfold kget.
    destruct (klookup k (t_map v)) as [c|]; [|intros x []].
    destruct (v_i1_get1 c x2) eqn:V; [|discriminate]. intros x Hx.
    assert (In (x, x2) (v_i1_get1 c x2)) by (apply v_i1_get1_spec; auto). rewrite V in H. destruct H.
  - intros [k [Hk Hn]]. exists k. split; [|apply rev_keys_In; exact Hk]. unfold kget in Hn.
    destruct (klookup k (t_map v)) as [c|]; [|reflexivity].
    destruct (v_i1_get1 c x2) as [|[x y] l0] eqn:V; [reflexivity|]. exfalso.
    assert (Hp : In (x, y) (v_i1_get1 c x2)) by (rewrite V; left; reflexivity).
    apply v_i1_get1_spec in Hp. destruct Hp as [Hp E]. cbn in E. subst y. exact (Hn x Hp).
Qed.

(* view [1,2] *)
Theorem tv_i12_get1_spec v x12 l :
  tv_i12_get1 v x12 = Some l ->
  forall t, In t l <-> has v t /\ (snd (fst t), snd t) = x12 /\
                        In (fst x12, fst (fst t)) (t_rev1 v) /\ In (snd x12, fst (fst t)) (t_rev2 v).
Proof.
  unfold tv_i12_get1. intros H. apply opt_concat_Some in H. destruct H as [_ M]. intros [[k x] y]. unfold has. cbn [fst snd].
  rewrite M. split.
  - intros [a [Ha Hx]]. apply in_map_iff in Ha. destruct Ha as [k' [E Hk']].
    destruct (klookup k' (t_map v)) as [c|] eqn:L; [|discriminate]. inversion E; subst a.
    apply filter_In in Hk'. destruct Hk' as [H1 H2]. apply rev_keys_In in H1.
    apply existsb_exists in H2. destruct H2 as [k2 [H2 E2]]. apply Z.eqb_eq in E2. subst k2. apply rev_keys_In in H2.
    destruct (pmem x12 c) eqn:P; [|destruct Hx]. destruct Hx as [E'|[]]. inversion E'; subst.
    apply pmem_spec in P. unfold kget. rewrite L. destruct x12; auto.
  - intros (Hh & <- & H1 & H2). cbn [fst snd] in *. unfold kget in Hh.
    destruct (klookup k (t_map v)) as [c|] eqn:L; [|destruct Hh].
    exists [(k, x, y)]. split; [|left; reflexivity].
    apply in_map_iff. exists k. rewrite L. split.
    + assert (P : pmem (x, y) c = true) by (apply pmem_spec; exact Hh). rewrite P. reflexivity.
    + apply filter_In. split; [apply rev_keys_In; exact H1|]. apply existsb_exists. exists k. split; [apply rev_keys_In; exact H2 | apply Z.eqb_refl].
Qed.

(* ------------------------------------------------------------------ the reverse maps along histories (both present) *)

Lemma padd_spec p q l : In q (padd p l) <-> q = p \/ In q l.
Proof.
  unfold padd. destruct (pmem p l) eqn:E.
  - apply pmem_spec in E. split; [auto | intros [->|?]; assumption].
  - rewrite in_app_iff. cbn. intuition.
Qed.

Lemma punion_spec from : forall to q, In q (punion from to) <-> In q from \/ In q to.
Proof.
  unfold punion. induction from as [|p from IH]; intros to q; cbn [fold_left In]; [tauto|].
  rewrite IH, padd_spec. intuition.
Qed.

Lemma klookup_In k c m : klookup k m = Some c -> In (k, c) m.
Proof.
  induction m as [|[k0 c0] m IH]; cbn; [discriminate|]. destruct (k0 =? k) eqn:E.
  - apply Z.eqb_eq in E. intros H; inversion H; subst. left; reflexivity.
  - intros H. right. apply IH. exact H.
Qed.

Lemma kwf_In_klookup k c m : kwf m -> In (k, c) m -> klookup k m = Some c.
Proof.
  unfold kwf. induction m as [|[k0 c0] m IH]; cbn; [intros _ []|]. intros ND [E|H].
  - inversion E; subst. rewrite Z.eqb_refl. reflexivity.
  - inversion ND; subst. destruct (k0 =? k) eqn:E; [|apply IH; assumption].
    apply Z.eqb_eq in E. subst k0. exfalso. apply H2. apply (in_map fst) in H. exact H.
Qed.

(* the rebuilt reverse maps register exactly the (column value, key) pairs of the map they are built from *)
Lemma rebuild1_spec m x k : kwf m -> (In (x, k) (rebuild1 m) <-> exists y, In (x, y) (kget k m)).
Proof.
  intros W. unfold rebuild1. rewrite in_flat_map. split.
  - intros [[k0 c] [Hm H]]. apply in_map_iff in H. destruct H as [x0 [E Hx]]. cbn in E. inversion E; subst.
    cbn [fst snd] in Hx. rewrite zdedup_In in Hx. apply in_map_iff in Hx. destruct Hx as [[x1 y] [E1 Hp]]. cbn in *. subst x1.
    exists y. unfold kget. rewrite (kwf_In_klookup _ _ _ W Hm). exact Hp.
  - intros [y Hy]. unfold kget in Hy. destruct (klookup k m) as [c|] eqn:L; [|destruct Hy].
    exists (k, c). split; [apply klookup_In; exact L|]. apply in_map_iff. exists x. split; [reflexivity|].
    apply zdedup_In. apply in_map_iff. exists (x, y). split; [reflexivity | exact Hy].
Qed.

Lemma rebuild2_spec m y k : kwf m -> (In (y, k) (rebuild2 m) <-> exists x, In (x, y) (kget k m)).
Proof.
  intros W. unfold rebuild2. rewrite in_flat_map. split.
  - intros [[k0 c] [Hm H]]. apply in_map_iff in H. destruct H as [y0 [E Hy]]. cbn in E. inversion E; subst.
    cbn [fst snd] in Hy. rewrite zdedup_In in Hy. apply in_map_iff in Hy. destruct Hy as [[x y1] [E1 Hp]]. cbn in *. subst y1.
    exists x. unfold kget. rewrite (kwf_In_klookup _ _ _ W Hm). exact Hp.
  - intros [x Hx]. unfold kget in Hx. destruct (klookup k m) as [c|] eqn:L; [|destruct Hx].
    exists (k, c). split; [apply klookup_In; exact L|]. apply in_map_iff. exists y. split; [reflexivity|].
    apply zdedup_In. apply in_map_iff. exists (x, y). split; [reflexivity | exact Hx].
Qed.

Lemma tmerge_revs b st st' :
  tmerge b true st = Some st' ->
  t_new st' = tver_empty /\
  t_rev1 (t_delta st') = rebuild1 (t_map (t_delta st')) /\ t_rev2 (t_delta st') = rebuild2 (t_map (t_delta st')) /\
  t_rev1 (t_total st') = punion (t_rev1 (t_delta st)) (t_rev1 (t_total st)) /\
  t_rev2 (t_total st') = punion (t_rev2 (t_delta st)) (t_rev2 (t_total st)).
Proof.
  unfold tmerge, tmerge_gen. destruct (tmerge_delta_keys _ _ _ _ _) as [[[nm tm] ndm]|]; [|discriminate].
  destruct (tmerge_new_keys _ _ _ _) as [[tm' ndm']|]; [|discriminate].
  intros H. inversion H; subst. cbn. repeat split.
Qed.

Definition dk (st : tstate) (k : Z) : brel := kget k (t_map (t_delta st)).
Definition tk (st : tstate) (k : Z) : brel := kget k (t_map (t_total st)).
Definition nk (st : tstate) (k : Z) : brel := kget k (t_map (t_new st)).

(* the reverse maps of delta and of total register exactly the (column value, key) pairs of their version *)
Record RW (st : tstate) : Prop := {
  rw_d1 : forall x k, In (x, k) (t_rev1 (t_delta st)) <-> exists y, In (x, y) (dk st k);
  rw_d2 : forall y k, In (y, k) (t_rev2 (t_delta st)) <-> exists x, In (x, y) (dk st k);
  rw_t1 : forall x k, In (x, k) (t_rev1 (t_total st)) <-> exists y, In (x, y) (tk st k);
  rw_t2 : forall y k, In (y, k) (t_rev2 (t_total st)) <-> exists x, In (x, y) (tk st k) }.

Lemma RW_init : RW tempty.
Proof.
  constructor; unfold dk, tk; cbn.
  - intros x k. split; [intros [] | intros [? []]].
  - intros y k. split; [intros [] | intros [? []]].
  - intros x k. split; [intros [] | intros [? []]].
  - intros y k. split; [intros [] | intros [? []]].
Qed.

Lemma RW_insert k x y st : RW st -> RW (fst (tinsert true (k, x, y) st)).
Proof.
  intros W. unfold tinsert.
  destruct (tcontains (k, x, y) (t_total st) || tcontains (k, x, y) (t_delta st)); [exact W|].
  unfold brel_insert. destruct (pmem (x, y) (kget k (t_map (t_new st)))); [exact W|].
  cbn [fst]. destruct W as [d1 d2 t1 t2]. constructor; assumption.
Qed.

Lemma RW_merge b st st' : twf st -> RW st -> tmerge b true st = Some st' -> RW st'.
Proof.
  intros Wf [d1 d2 t1 t2] M.
  destruct (tmerge_revs b st st' M) as (_ & Ed1 & Ed2 & Et1 & Et2).
  destruct (tmerge_per_key b true st st' Wf M) as [[_ Wd' _] Hk].
  assert (S : forall k, tk st' k = tk st k ++ dk st k).
  { intros k. apply (bmerge_total_eq b _ _ (Hk k)). }
  unfold dk, tk in *. constructor; unfold dk, tk.
  - intros x k. rewrite Ed1. apply rebuild1_spec. exact Wd'.
  - intros y k. rewrite Ed2. apply rebuild2_spec. exact Wd'.
  - intros x k. rewrite Et1, punion_spec, S, d1, t1. split.
    + intros [[y H]|[y H]]; exists y; apply in_or_app; auto.
    + intros [y H]. apply in_app_or in H. destruct H as [H|H]; [right | left]; exists y; exact H.
  - intros y k. rewrite Et2, punion_spec, S, d2, t2. split.
    + intros [[x H]|[x H]]; exists x; apply in_or_app; auto.
    + intros [x H]. apply in_app_or in H. destruct H as [H|H]; [right | left]; exists x; exact H.
Qed.

Lemma RW_restart st : RW st -> RW (trestart st).
Proof.
  intros [d1 d2 t1 t2]. unfold dk, tk in *.
  constructor; unfold dk, tk, trestart; cbn [t_new t_delta t_total t_map t_rev1 t_rev2 tver_empty kget klookup].
  - exact t1.
  - exact t2.
  - intros x k. split; [intros [] | intros [? []]].
  - intros y k. split; [intros [] | intros [? []]].
Qed.

Theorem trun_RW b : forall ops st ins st' ins',
  TJ b st ins -> RW st -> trun b true st ins ops = Some (st', ins') -> RW st'.
Proof.
  induction ops as [|o ops IH]; intros st ins st' ins' HT HW H; cbn [trun] in H.
  - inversion H; subst. exact HW.
  - destruct o as [k x y| |].
    + eapply IH; [| |exact H].
      * eapply (trun_inv b true [TIns k x y]); [exact HT | reflexivity].
      * apply RW_insert. exact HW.
    + destruct (tmerge b true st) as [st1|] eqn:M; [|discriminate].
      eapply IH; [| |exact H].
      * eapply (trun_inv b true [TMerge]); [exact HT | cbn; rewrite M; reflexivity].
      * eapply RW_merge; [apply HT | exact HW | exact M].
    + destruct (isnil (t_map (t_new st)) && isnil (t_map (t_delta st))) eqn:C; [|discriminate].
      eapply IH; [| |exact H].
      * eapply (trun_inv b true [TRestart]); [exact HT | cbn; rewrite C; reflexivity].
      * apply RW_restart. exact HW.
Qed.

(* ---- consequences for every reachable state (both reverse maps present) *)

Lemma kget_nonempty_lookup k m p : In p (kget k m) -> klookup k m <> None.
Proof. unfold kget. destruct (klookup k m); [discriminate | intros []]. Qed.

Theorem tv_i12_get1_panics v x12 :
  tv_i12_get1 v x12 = None <->
  exists k, In (fst x12, k) (t_rev1 v) /\ In (snd x12, k) (t_rev2 v) /\ klookup k (t_map v) = None.
Proof.
  unfold tv_i12_get1. rewrite opt_concat_None, in_map_iff. split.
  - intros [k [E Hk]]. apply filter_In in Hk. destruct Hk as [H1 H2]. apply rev_keys_In in H1.
    apply existsb_exists in H2. destruct H2 as [k2 [H2 E2]]. apply Z.eqb_eq in E2. subst k2. apply rev_keys_In in H2.
    exists k. repeat split; auto. destruct (klookup k (t_map v)); [discriminate | reflexivity].
  - intros [k (H1 & H2 & L)]. exists k. rewrite L. split; [reflexivity|].
    apply filter_In. split; [apply rev_keys_In; exact H1|]. apply existsb_exists. exists k. split; [apply rev_keys_In; exact H2 | apply Z.eqb_refl].
Qed.

(* a version whose reverse maps are exact serves, through views [1], [2], [1,2], exactly its restriction to the key *)
Lemma rev_views_exact_of v :
  (forall x k, In (x, k) (t_rev1 v) <-> exists y, In (x, y) (kget k (t_map v))) ->
  (forall y k, In (y, k) (t_rev2 v) <-> exists x, In (x, y) (kget k (t_map v))) ->
  (forall x1, exists l, tv_i1_get1 v x1 = Some l /\ forall t, In t l <-> has v t /\ snd (fst t) = x1) /\
  (forall x2, exists l, tv_i2_get1 v x2 = Some l /\ forall t, In t l <-> has v t /\ snd t = x2) /\
  (forall x12, exists l, tv_i12_get1 v x12 = Some l /\ forall t, In t l <-> has v t /\ (snd (fst t), snd t) = x12).
Proof.
  intros t1 t2. split; [|split].
  - intros x1. destruct (tv_i1_get1 v x1) as [l|] eqn:E.
    + exists l. split; [reflexivity|]. intros t. rewrite (tv_i1_get1_spec _ _ _ E t). split; [tauto|].
      intros [Hh Ex]. repeat split; auto. destruct t as [[k x] y]. cbn in *. subst x. apply t1. exists y. exact Hh.
    + exfalso. apply tv_i1_get1_panics in E. destruct E as [k [Hk L]]. apply t1 in Hk. destruct Hk as [y Hy].
      exact (kget_nonempty_lookup _ _ _ Hy L).
  - intros x2. destruct (tv_i2_get1 v x2) as [l|] eqn:E.
    + exists l. split; [reflexivity|]. intros t. rewrite (tv_i2_get1_spec _ _ _ E t). split; [tauto|].
      intros [Hh Ex]. repeat split; auto. destruct t as [[k x] y]. cbn in *. subst y. apply t2. exists x. exact Hh.
    + exfalso. apply tv_i2_get1_panics in E. destruct E as [k [Hk Hn]]. apply t2 in Hk. destruct Hk as [x Hx]. exact (Hn x Hx).
  - intros x12. destruct (tv_i12_get1 v x12) as [l|] eqn:E.
    + exists l. split; [reflexivity|]. intros t. rewrite (tv_i12_get1_spec _ _ _ E t). split; [tauto|].
      intros [Hh Ex]. destruct t as [[k x] y]. cbn in *. subst x12. cbn. repeat split; auto; [apply t1; exists y | apply t2; exists x]; exact Hh.
    + exfalso. apply tv_i12_get1_panics in E. destruct E as [k (H1 & _ & L)]. apply t1 in H1. destruct H1 as [y Hy].
      exact (kget_nonempty_lookup _ _ _ Hy L).
Qed.

(* laws P4/P5 through the reverse-map indices, for BOTH versions, along every history: the views never panic and
   return exactly the restriction of the version to the key *)
Theorem rev_views_exact b ops st ins :
  trun b true tempty [] ops = Some (st, ins) ->
  forall v, v = t_total st \/ v = t_delta st ->
  (forall x1, exists l, tv_i1_get1 v x1 = Some l /\ forall t, In t l <-> has v t /\ snd (fst t) = x1) /\
  (forall x2, exists l, tv_i2_get1 v x2 = Some l /\ forall t, In t l <-> has v t /\ snd t = x2) /\
  (forall x12, exists l, tv_i12_get1 v x12 = Some l /\ forall t, In t l <-> has v t /\ (snd (fst t), snd t) = x12).
Proof.
  intros H v Hv. pose proof (trun_RW b ops _ _ _ _ (TJ_init b) RW_init H) as [d1 d2 t1 t2]. unfold dk, tk in *.
  destruct Hv as [->| ->]; apply rev_views_exact_of; assumption.
Qed.

(* the property for the ternary form, forward map, key by key: total + delta = transitive closure of the key's insertions *)
Theorem trun_per_key_closure h ops st ins :
  trun shipped_arefl h tempty [] ops = Some (st, ins) -> t_map (t_new st) = [] ->
  forall k x y, In (x, y) (tk st k ++ dk st k) <-> tc (proj k ins) x y.
Proof.
  intros H En k x y. unfold tk, dk. rewrite (trun_per_key _ h ops st ins H En k (x, y)). apply cl_false_tc.
Qed.

(* ------------------------------------------------------------------ the behaviour before commit 0ce9ae6
   (former finding F4), as a statement about the model with rebuild = false: delta's reverse maps were new's *)

Fixpoint trun_old (b : bool) (st : tstate) (ins : list triple) (ops : list top) : option (tstate * list triple) :=
  match ops with
  | [] => Some (st, ins)
  | TIns k x y :: rest => trun_old b (fst (tinsert true (k, x, y) st)) (ins ++ [(k, x, y)]) rest
  | TMerge :: rest => match tmerge_gen b true false st with Some st' => trun_old b st' ins rest | None => None end
  | TRestart :: rest =>
      if isnil (t_map (t_new st)) && isnil (t_map (t_delta st)) then trun_old b (trestart st) ins rest else None
  end.

Definition rev_witness : list top := [TIns 0 1 2; TMerge; TIns 0 2 3; TMerge].
Definition rev_witness2 : list top := [TIns 0 2 3; TMerge; TIns 0 1 2; TMerge].

(* (0,1,3) is derived in the second merge, is in delta and not in total (the added part every delta view must
   serve); the old reverse maps did not register it: views [1] and [1,2] (resp. [2]) of delta missed it *)
Theorem trrel_ternary_rev_refuted_before_fix :
  exists ops st ins t,
    trun_old shipped_arefl tempty [] ops = Some (st, ins) /\
    has (t_delta st) t /\ ~ has (t_total st) t /\
    (exists l, tv_i1_get1 (t_delta st) (snd (fst t)) = Some l /\ ~ In t l) /\
    (exists l, tv_i12_get1 (t_delta st) (snd (fst t), snd t) = Some l /\ ~ In t l).
Proof.
  exists rev_witness.
  destruct (trun_old shipped_arefl tempty [] rev_witness) as [[st ins]|] eqn:E; [|vm_compute in E; discriminate].
  exists st, ins, (0, 1, 3). vm_compute in E. inversion E; subst. clear E.
  split; [reflexivity|]. unfold has. cbn.
  split; [right; left; reflexivity|].
  split; [intros [H|[]]; discriminate|].
  split; (exists []; split; [reflexivity | intros []]).
Qed.

Theorem trrel_ternary_rev2_refuted_before_fix :
  exists ops st ins t,
    trun_old shipped_arefl tempty [] ops = Some (st, ins) /\
    has (t_delta st) t /\ ~ has (t_total st) t /\
    (exists l, tv_i2_get1 (t_delta st) (snd t) = Some l /\ ~ In t l).
Proof.
  exists rev_witness2.
  destruct (trun_old shipped_arefl tempty [] rev_witness2) as [[st ins]|] eqn:E; [|vm_compute in E; discriminate].
  exists st, ins, (0, 1, 3). vm_compute in E. inversion E; subst. clear E.
  split; [reflexivity|]. unfold has. cbn.
  split; [right; left; reflexivity|].
  split; [intros [H|[]]; discriminate|].
  exists []; split; [reflexivity | intros []].
Qed.

(* the same witnesses on the current model: the views serve (0,1,3) *)
Example rev_witness_now_served :
  match trun shipped_arefl true tempty [] rev_witness with
  | Some (st, _) => (tv_i1_get1 (t_delta st) 1, tv_i12_get1 (t_delta st) (1, 3))
  | None => (None, None)
  end = (Some [(0, 1, 3)], Some [(0, 1, 3)]).
Proof. vm_compute. reflexivity. Qed.
