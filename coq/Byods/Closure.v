(* Closures of a finite binary relation given as a list of pairs (shared by C10 eqrel, C11 trrel, C12 trrel_uf).

   For each of the three closures used as the meaning of a `#[ds(..)]` relation
     tc   transitive closure
     rtc  reflexive (on MENTIONED elements) transitive closure
     eqv  equivalence closure: reflexive on mentioned elements, symmetric, transitive
   this file gives (1) the closure as an inductive relation `*_rel l x y` (the specification: least relation
   containing l and closed under the explicit rules), (2) an executable function `tc / rtc / eqv : rel -> rel`
   (saturation), (3) the characterisation `In (x, y) (f l) <-> f_rel l x y`, and (4) the closure-operator laws
   (extensive, monotone, idempotent, empty) in the form Byods/Provider.v consumes. *)
From Coq Require Import List Arith Bool ZArith Lia.
Import ListNotations.

Definition rel := list (Z * Z).

Lemma pair_eq_dec : forall a b : Z * Z, {a = b} + {a <> b}.
Proof. decide equality; apply Z.eq_dec. Defined.

Definition mentioned (l : rel) : list Z := nodup Z.eq_dec (map fst l ++ map snd l).

(* ------------------------------------------------------------------ specifications *)
Inductive tc_rel (l : rel) : Z -> Z -> Prop :=
| tc_base : forall x y, In (x, y) l -> tc_rel l x y
| tc_trans : forall x y z, tc_rel l x y -> tc_rel l y z -> tc_rel l x z.

Inductive rtc_rel (l : rel) : Z -> Z -> Prop :=
| rtc_base : forall x y, In (x, y) l -> rtc_rel l x y
| rtc_refl : forall x, In x (mentioned l) -> rtc_rel l x x
| rtc_trans : forall x y z, rtc_rel l x y -> rtc_rel l y z -> rtc_rel l x z.

Inductive eqv_rel (l : rel) : Z -> Z -> Prop :=
| eqv_base : forall x y, In (x, y) l -> eqv_rel l x y
| eqv_refl : forall x, In x (mentioned l) -> eqv_rel l x x
| eqv_sym : forall x y, eqv_rel l x y -> eqv_rel l y x
| eqv_trans : forall x y z, eqv_rel l x y -> eqv_rel l y z -> eqv_rel l x z.

(* ------------------------------------------------------------------ executable closures *)
Definition pmem (p : Z * Z) (l : rel) : bool := existsb (fun q => Z.eqb (fst p) (fst q) && Z.eqb (snd p) (snd q)) l.
Definition padd (p : Z * Z) (l : rel) : rel := if pmem p l then l else l ++ [p].
Definition punion (a b : rel) : rel := fold_left (fun acc p => padd p acc) b a.
(* all (x, z) with (x, y) in a and (y, z) in b *)
Definition compose (a b : rel) : rel :=
  flat_map (fun p => map (fun q => (fst p, snd q)) (filter (fun q => Z.eqb (snd p) (fst q)) b)) a.
Definition tc_step (r : rel) : rel := punion r (compose r r).
(* saturate until the size is stable; fuel (S (n * n)) with n = number of mentioned elements always suffices *)
Fixpoint saturate (fuel : nat) (r : rel) : rel :=
  match fuel with
  | O => r
  | S f => let r' := tc_step r in if Nat.eqb (length r') (length r) then r else saturate f r'
  end.
Definition tc (l : rel) : rel :=
  let r := punion [] l in
  let n := length (mentioned l) in saturate (S (n * n)) r.
Definition diag (xs : list Z) : rel := map (fun x => (x, x)) xs.
Definition rtc (l : rel) : rel := tc (l ++ diag (mentioned l)).
Definition swap (p : Z * Z) : Z * Z := (snd p, fst p).
Definition eqv (l : rel) : rel := tc (l ++ map swap l ++ diag (mentioned l)).

(* ------------------------------------------------------------------ list-set helpers *)
Lemma pmem_true_iff : forall p l, pmem p l = true <-> In p l.
Proof.
  intros [a b] l. unfold pmem. rewrite existsb_exists. split.
  - intros [[c d] [Hin Heq]]. cbn [fst snd] in Heq. apply andb_true_iff in Heq. destruct Heq as [H1 H2].
    apply Z.eqb_eq in H1. apply Z.eqb_eq in H2. subst. exact Hin.
  - intros Hin. exists (a, b). split; [exact Hin|]. cbn [fst snd]. rewrite !Z.eqb_refl. reflexivity.
Qed.

Lemma padd_in : forall p q l, In q (padd p l) <-> q = p \/ In q l.
Proof.
  intros p q l. unfold padd. destruct (pmem p l) eqn:E.
  - apply pmem_true_iff in E. split; [auto|]. intros [Hq|Hq]; [subst; exact E|exact Hq].
  - rewrite in_app_iff. cbn [In]. split.
    + intros [Hq|[Hq|[]]]; auto.
    + intros [Hq|Hq]; auto.
Qed.

Lemma nodup_snoc : forall (p : Z * Z) l, NoDup l -> ~ In p l -> NoDup (l ++ [p]).
Proof.
  intros p l. induction l as [|a l IH]; intros Hnd Hn; cbn [app].
  - constructor; [intros []|constructor].
  - inversion Hnd as [|a' l' Ha Hl]; subst. constructor.
    + rewrite in_app_iff. cbn [In]. intros [Hi|[Hi|[]]]; [auto|]. subst. apply Hn. left. reflexivity.
    + apply IH; [exact Hl|]. intro Hi. apply Hn. right. exact Hi.
Qed.

Lemma padd_nodup : forall p l, NoDup l -> NoDup (padd p l).
Proof.
  intros p l Hnd. unfold padd. destruct (pmem p l) eqn:E; [exact Hnd|].
  apply nodup_snoc; [exact Hnd|]. intro Hi. apply pmem_true_iff in Hi. congruence.
Qed.

Lemma padd_prefix : forall p l, exists t, padd p l = l ++ t.
Proof.
  intros p l. unfold padd. destruct (pmem p l).
  - exists []. rewrite app_nil_r. reflexivity.
  - exists [p]. reflexivity.
Qed.

Lemma punion_nil_r : forall a, punion a [] = a.
Proof. reflexivity. Qed.

Lemma punion_cons_r : forall a p b, punion a (p :: b) = punion (padd p a) b.
Proof. reflexivity. Qed.

Lemma punion_in : forall b a q, In q (punion a b) <-> In q a \/ In q b.
Proof.
  induction b as [|p b IH]; intros a q.
  - rewrite punion_nil_r. cbn [In]. tauto.
  - rewrite punion_cons_r, IH, padd_in. cbn [In]. split.
    + intros [[Hq|Hq]|Hq]; auto.
    + intros [Hq|[Hq|Hq]]; auto.
Qed.

Lemma punion_nodup : forall b a, NoDup a -> NoDup (punion a b).
Proof.
  induction b as [|p b IH]; intros a Hnd.
  - exact Hnd.
  - rewrite punion_cons_r. apply IH. apply padd_nodup. exact Hnd.
Qed.

Lemma punion_prefix : forall b a, exists t, punion a b = a ++ t.
Proof.
  induction b as [|p b IH]; intros a.
  - exists []. rewrite app_nil_r. reflexivity.
  - rewrite punion_cons_r. destruct (IH (padd p a)) as [t Ht]. destruct (padd_prefix p a) as [t0 Ht0].
    exists (t0 ++ t). rewrite Ht, Ht0, app_assoc. reflexivity.
Qed.

Lemma punion_length_le : forall a b, length a <= length (punion a b).
Proof.
  intros a b. destruct (punion_prefix b a) as [t Ht]. rewrite Ht, app_length. lia.
Qed.

Lemma punion_length_eq : forall a b, length (punion a b) = length a -> incl b a.
Proof.
  intros a b Hlen. destruct (punion_prefix b a) as [t Ht].
  assert (t = []) as Hnil.
  { rewrite Ht, app_length in Hlen. destruct t as [|q t]; [reflexivity|]. cbn [length] in Hlen. lia. }
  subst t. rewrite app_nil_r in Ht. intros q Hq.
  assert (In q (punion a b)) as Hin. { apply punion_in. right. exact Hq. }
  rewrite Ht in Hin. exact Hin.
Qed.

Lemma compose_in : forall a b x z, In (x, z) (compose a b) <-> exists y, In (x, y) a /\ In (y, z) b.
Proof.
  intros a b x z. unfold compose. rewrite in_flat_map. split.
  - intros [[x' y] [Ha Hm]]. apply in_map_iff in Hm. destruct Hm as [[y' z'] [Heq Hf]].
    apply filter_In in Hf. destruct Hf as [Hb He]. cbn [fst snd] in *.
    apply Z.eqb_eq in He. inversion Heq; subst. exists y'. split; assumption.
  - intros [y [Ha Hb]]. exists (x, y). split; [exact Ha|]. apply in_map_iff. exists (y, z).
    cbn [fst snd]. split; [reflexivity|]. apply filter_In. split; [exact Hb|]. cbn [fst snd]. apply Z.eqb_refl.
Qed.

(* ------------------------------------------------------------------ facts about the specifications *)
Lemma mentioned_spec : forall l x, In x (mentioned l) <-> exists y, In (x, y) l \/ In (y, x) l.
Proof.
  intros l x. unfold mentioned. rewrite nodup_In, in_app_iff, !in_map_iff. split.
  - intros [[[a b] [He Hi]]|[[a b] [He Hi]]]; cbn [fst snd] in He; subst.
    + exists b. left. exact Hi.
    + exists a. right. exact Hi.
  - intros [y [Hi|Hi]].
    + left. exists (x, y). split; [reflexivity|exact Hi].
    + right. exists (y, x). split; [reflexivity|exact Hi].
Qed.

Lemma mentioned_mono : forall l l' x, incl l l' -> In x (mentioned l) -> In x (mentioned l').
Proof.
  intros l l' x Hincl Hx. apply mentioned_spec in Hx. apply mentioned_spec.
  destruct Hx as [y [Hi|Hi]]; exists y; [left|right]; apply Hincl; exact Hi.
Qed.

Lemma tc_rel_mono : forall l l' x y, incl l l' -> tc_rel l x y -> tc_rel l' x y.
Proof.
  intros l l' x y Hincl Ht. induction Ht as [x y Hi|x y z _ IH1 _ IH2].
  - apply tc_base. apply Hincl. exact Hi.
  - eapply tc_trans; eassumption.
Qed.

Lemma rtc_rel_mono : forall l l' x y, incl l l' -> rtc_rel l x y -> rtc_rel l' x y.
Proof.
  intros l l' x y Hincl Ht. induction Ht as [x y Hi|x Hx|x y z _ IH1 _ IH2].
  - apply rtc_base. apply Hincl. exact Hi.
  - apply rtc_refl. eapply mentioned_mono; eassumption.
  - eapply rtc_trans; eassumption.
Qed.

Lemma eqv_rel_mono : forall l l' x y, incl l l' -> eqv_rel l x y -> eqv_rel l' x y.
Proof.
  intros l l' x y Hincl Ht. induction Ht as [x y Hi|x Hx|x y _ IH|x y z _ IH1 _ IH2].
  - apply eqv_base. apply Hincl. exact Hi.
  - apply eqv_refl. eapply mentioned_mono; eassumption.
  - apply eqv_sym. exact IH.
  - eapply eqv_trans; eassumption.
Qed.

Lemma tc_rel_mentioned : forall l x y, tc_rel l x y -> In x (mentioned l) /\ In y (mentioned l).
Proof.
  intros l x y Ht. induction Ht as [x y Hi|x y z _ IH1 _ IH2].
  - split; apply mentioned_spec; [exists y; left|exists x; right]; exact Hi.
  - split; [apply IH1|apply IH2].
Qed.

Lemma rtc_rel_mentioned : forall l x y, rtc_rel l x y -> In x (mentioned l) /\ In y (mentioned l).
Proof.
  intros l x y Ht. induction Ht as [x y Hi|x Hx|x y z _ IH1 _ IH2].
  - split; apply mentioned_spec; [exists y; left|exists x; right]; exact Hi.
  - split; exact Hx.
  - split; [apply IH1|apply IH2].
Qed.

Lemma eqv_rel_mentioned : forall l x y, eqv_rel l x y -> In x (mentioned l) /\ In y (mentioned l).
Proof.
  intros l x y Ht. induction Ht as [x y Hi|x Hx|x y _ IH|x y z _ IH1 _ IH2].
  - split; apply mentioned_spec; [exists y; left|exists x; right]; exact Hi.
  - split; exact Hx.
  - split; apply IH.
  - split; [apply IH1|apply IH2].
Qed.

(* ------------------------------------------------------------------ saturation *)
Definition sound_in (l r : rel) : Prop := forall x y, In (x, y) r -> tc_rel l x y.
Definition transitive_list (r : rel) : Prop := forall x y z, In (x, y) r -> In (y, z) r -> In (x, z) r.

Lemma tc_step_in : forall r x z,
  In (x, z) (tc_step r) <-> In (x, z) r \/ exists y, In (x, y) r /\ In (y, z) r.
Proof.
  intros r x z. unfold tc_step. rewrite punion_in, compose_in. tauto.
Qed.

Lemma tc_step_sound : forall l r, sound_in l r -> sound_in l (tc_step r).
Proof.
  intros l r Hs x z Hi. apply tc_step_in in Hi. destruct Hi as [Hi|[y [H1 H2]]].
  - apply Hs. exact Hi.
  - eapply tc_trans; apply Hs; eassumption.
Qed.

Lemma tc_step_nodup : forall r, NoDup r -> NoDup (tc_step r).
Proof. intros r Hnd. unfold tc_step. apply punion_nodup. exact Hnd. Qed.

Lemma saturate_sound : forall l fuel r, sound_in l r -> sound_in l (saturate fuel r).
Proof.
  intros l fuel. induction fuel as [|f IH]; intros r Hs; cbn [saturate].
  - exact Hs.
  - destruct (Nat.eqb (length (tc_step r)) (length r)) eqn:E; [exact Hs|].
    apply IH. apply tc_step_sound. exact Hs.
Qed.

Lemma saturate_nodup : forall fuel r, NoDup r -> NoDup (saturate fuel r).
Proof.
  induction fuel as [|f IH]; intros r Hnd; cbn [saturate].
  - exact Hnd.
  - destruct (Nat.eqb (length (tc_step r)) (length r)) eqn:E; [exact Hnd|].
    apply IH. apply tc_step_nodup. exact Hnd.
Qed.

Lemma saturate_extensive : forall fuel r, incl r (saturate fuel r).
Proof.
  induction fuel as [|f IH]; intros r; cbn [saturate].
  - apply incl_refl.
  - destruct (Nat.eqb (length (tc_step r)) (length r)) eqn:E; [apply incl_refl|].
    intros [x y] Hi. apply IH. apply tc_step_in. left. exact Hi.
Qed.

Lemma sound_length_bound : forall l r, sound_in l r -> NoDup r ->
  length r <= length (mentioned l) * length (mentioned l).
Proof.
  intros l r Hs Hnd. rewrite <- prod_length. apply NoDup_incl_length; [exact Hnd|].
  intros [x y] Hi. apply Hs in Hi. apply tc_rel_mentioned in Hi. destruct Hi as [Hx Hy].
  apply in_prod; assumption.
Qed.

Lemma saturate_transitive : forall l fuel r, NoDup r -> sound_in l r ->
  length r + fuel > length (mentioned l) * length (mentioned l) ->
  transitive_list (saturate fuel r).
Proof.
  intros l fuel. induction fuel as [|f IH]; intros r Hnd Hs Hlen; cbn [saturate].
  - pose proof (sound_length_bound l r Hs Hnd) as Hb. lia.
  - destruct (Nat.eqb (length (tc_step r)) (length r)) eqn:E.
    + apply Nat.eqb_eq in E. unfold tc_step in E. apply punion_length_eq in E.
      intros x y z H1 H2. apply (E (x, z)). apply compose_in. exists y. split; assumption.
    + apply Nat.eqb_neq in E. apply IH.
      * apply tc_step_nodup. exact Hnd.
      * apply tc_step_sound. exact Hs.
      * pose proof (punion_length_le r (compose r r)) as Hle. unfold tc_step in *. lia.
Qed.

(* ------------------------------------------------------------------ characterisations *)
Lemma tc_spec : forall l x y, In (x, y) (tc l) <-> tc_rel l x y.
Proof.
  intros l x y. unfold tc. split.
  - apply saturate_sound. intros a b Hi. apply punion_in in Hi. destruct Hi as [[]|Hi]. apply tc_base. exact Hi.
  - intros Ht.
    assert (transitive_list (saturate (S (length (mentioned l) * length (mentioned l))) (punion [] l))) as Htr.
    { apply (saturate_transitive l).
      - apply punion_nodup. constructor.
      - intros a b Hi. apply punion_in in Hi. destruct Hi as [[]|Hi]. apply tc_base. exact Hi.
      - lia. }
    induction Ht as [x y Hi|x y z _ IH1 _ IH2].
    + apply saturate_extensive. apply punion_in. right. exact Hi.
    + eapply Htr; eassumption.
Qed.

Lemma tc_nodup : forall l, NoDup (tc l).
Proof. intros l. unfold tc. apply saturate_nodup. apply punion_nodup. constructor. Qed.

Lemma diag_in : forall xs x y, In (x, y) (diag xs) <-> x = y /\ In x xs.
Proof.
  intros xs x y. unfold diag. rewrite in_map_iff. split.
  - intros [a [He Hi]]. inversion He; subst. split; [reflexivity|exact Hi].
  - intros [He Hi]. subst. exists y. split; [reflexivity|exact Hi].
Qed.

Lemma swap_in : forall l x y, In (x, y) (map swap l) <-> In (y, x) l.
Proof.
  intros l x y. rewrite in_map_iff. split.
  - intros [[a b] [He Hi]]. unfold swap in He. cbn [fst snd] in He. inversion He; subst. exact Hi.
  - intros Hi. exists (y, x). split; [reflexivity|exact Hi].
Qed.

Lemma rtc_tc_rel : forall l x y, tc_rel (l ++ diag (mentioned l)) x y <-> rtc_rel l x y.
Proof.
  intros l x y. split; intros Ht.
  - induction Ht as [x y Hi|x y z _ IH1 _ IH2].
    + apply in_app_iff in Hi. destruct Hi as [Hi|Hi].
      * apply rtc_base. exact Hi.
      * apply (proj1 (diag_in _ _ _)) in Hi. destruct Hi as [He Hi]. subst. apply rtc_refl. exact Hi.
    + eapply rtc_trans; eassumption.
  - induction Ht as [x y Hi|x Hx|x y z _ IH1 _ IH2].
    + apply tc_base. apply in_app_iff. left. exact Hi.
    + apply tc_base. apply in_app_iff. right. apply diag_in. split; [reflexivity|exact Hx].
    + eapply tc_trans; eassumption.
Qed.

Lemma rtc_spec : forall l x y, In (x, y) (rtc l) <-> rtc_rel l x y.
Proof. intros l x y. unfold rtc. rewrite tc_spec. apply rtc_tc_rel. Qed.

Lemma eqv_tc_rel : forall l x y, tc_rel (l ++ map swap l ++ diag (mentioned l)) x y <-> eqv_rel l x y.
Proof.
  intros l x y. split; intros Ht.
  - induction Ht as [x y Hi|x y z _ IH1 _ IH2].
    + apply in_app_iff in Hi. destruct Hi as [Hi|Hi]; [|apply in_app_iff in Hi; destruct Hi as [Hi|Hi]].
      * apply eqv_base. exact Hi.
      * apply (proj1 (swap_in _ _ _)) in Hi. apply eqv_sym. apply eqv_base. exact Hi.
      * apply (proj1 (diag_in _ _ _)) in Hi. destruct Hi as [He Hi]. subst. apply eqv_refl. exact Hi.
    + eapply eqv_trans; eassumption.
  - induction Ht as [x y Hi|x Hx|x y _ IH|x y z _ IH1 _ IH2].
    + apply tc_base. apply in_app_iff. left. exact Hi.
    + apply tc_base. apply in_app_iff. right. apply in_app_iff. right. apply diag_in. split; [reflexivity|exact Hx].
    + clear -IH. induction IH as [x y Hi|x y z _ IH1 _ IH2].
      * apply tc_base. apply in_app_iff in Hi. destruct Hi as [Hi|Hi]; [|apply in_app_iff in Hi; destruct Hi as [Hi|Hi]].
        -- apply in_app_iff. right. apply in_app_iff. left. apply swap_in. exact Hi.
        -- apply in_app_iff. left. apply (proj1 (swap_in _ _ _)) in Hi. exact Hi.
        -- apply in_app_iff. right. apply in_app_iff. right. apply (proj1 (diag_in _ _ _)) in Hi. destruct Hi as [He Hi]. subst.
           apply diag_in. split; [reflexivity|exact Hi].
      * eapply tc_trans; eassumption.
    + eapply tc_trans; eassumption.
Qed.

Lemma eqv_spec : forall l x y, In (x, y) (eqv l) <-> eqv_rel l x y.
Proof. intros l x y. unfold eqv. rewrite tc_spec. apply eqv_tc_rel. Qed.

Lemma rtc_nodup : forall l, NoDup (rtc l).
Proof. intros l. unfold rtc. apply tc_nodup. Qed.

Lemma eqv_nodup : forall l, NoDup (eqv l).
Proof. intros l. unfold eqv. apply tc_nodup. Qed.

(* ------------------------------------------------------------------ closure-operator laws *)
Lemma tc_extensive : forall l, incl l (tc l).
Proof. intros l [x y] Hi. apply tc_spec. apply tc_base. exact Hi. Qed.

Lemma rtc_extensive : forall l, incl l (rtc l).
Proof. intros l [x y] Hi. apply rtc_spec. apply rtc_base. exact Hi. Qed.

Lemma eqv_extensive : forall l, incl l (eqv l).
Proof. intros l [x y] Hi. apply eqv_spec. apply eqv_base. exact Hi. Qed.

Lemma tc_monotone : forall l l', incl l l' -> incl (tc l) (tc l').
Proof. intros l l' Hincl [x y] Hi. apply tc_spec. apply tc_spec in Hi. eapply tc_rel_mono; eassumption. Qed.

Lemma rtc_monotone : forall l l', incl l l' -> incl (rtc l) (rtc l').
Proof. intros l l' Hincl [x y] Hi. apply rtc_spec. apply rtc_spec in Hi. eapply rtc_rel_mono; eassumption. Qed.

Lemma eqv_monotone : forall l l', incl l l' -> incl (eqv l) (eqv l').
Proof. intros l l' Hincl [x y] Hi. apply eqv_spec. apply eqv_spec in Hi. eapply eqv_rel_mono; eassumption. Qed.

Lemma tc_idem : forall l, incl (tc (tc l)) (tc l).
Proof.
  intros l [x y] Hi. apply tc_spec. apply tc_spec in Hi.
  induction Hi as [x y Hi|x y z _ IH1 _ IH2].
  - apply tc_spec. exact Hi.
  - eapply tc_trans; eassumption.
Qed.

Lemma rtc_mentioned_back : forall l x, In x (mentioned (rtc l)) -> In x (mentioned l).
Proof.
  intros l x Hx. apply mentioned_spec in Hx. destruct Hx as [y [Hi|Hi]];
    apply rtc_spec in Hi; apply rtc_rel_mentioned in Hi; apply Hi.
Qed.

Lemma eqv_mentioned_back : forall l x, In x (mentioned (eqv l)) -> In x (mentioned l).
Proof.
  intros l x Hx. apply mentioned_spec in Hx. destruct Hx as [y [Hi|Hi]];
    apply eqv_spec in Hi; apply eqv_rel_mentioned in Hi; apply Hi.
Qed.

Lemma rtc_idem : forall l, incl (rtc (rtc l)) (rtc l).
Proof.
  intros l [x y] Hi. apply rtc_spec. apply rtc_spec in Hi.
  induction Hi as [x y Hi|x Hx|x y z _ IH1 _ IH2].
  - apply rtc_spec. exact Hi.
  - apply rtc_refl. apply rtc_mentioned_back. exact Hx.
  - eapply rtc_trans; eassumption.
Qed.

Lemma eqv_idem : forall l, incl (eqv (eqv l)) (eqv l).
Proof.
  intros l [x y] Hi. apply eqv_spec. apply eqv_spec in Hi.
  induction Hi as [x y Hi|x Hx|x y _ IH|x y z _ IH1 _ IH2].
  - apply eqv_spec. exact Hi.
  - apply eqv_refl. apply eqv_mentioned_back. exact Hx.
  - apply eqv_sym. exact IH.
  - eapply eqv_trans; eassumption.
Qed.

Lemma tc_nil : tc [] = [].
Proof. reflexivity. Qed.

Lemma rtc_nil : rtc [] = [].
Proof. reflexivity. Qed.

Lemma eqv_nil : eqv [] = [].
Proof. reflexivity. Qed.

Print Assumptions tc_spec.
Print Assumptions rtc_spec.
Print Assumptions eqv_spec.
