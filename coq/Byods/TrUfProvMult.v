(* C12 — multiplicities: every view of a Delta-shaped and of a Total-shaped version, binary and ternary form, returns a
   duplicate-free list, in every state reachable by ANY sequence of operations.

   The model keeps every place where the code relies on disjointness without checking it: `insert_unique_unchecked`
   (move_hash_map_of_hash_set_contents_disjoint, the delta_delta -> delta_total move of the inner loop) is list append without a
   membership test, and the views of a Delta concatenate the classes of the listed class ids without looking at what they
   already returned.  So a duplicate would be visible in the model; this file shows there is none.

   Part A  maps of sets: [mwf] (duplicate-free keys, duplicate-free sets) is kept by mins / mmove (of disjoint maps) / munion.
   Part B  structure of the merge, WITHOUT any hypothesis on the union-find structure: whenever c_merge returns, a Delta-shaped
           result has mwf connection maps ([c_merge_dwf]): the pairs recorded for `new` are a map and its converse, every round of
           the inner loop adds only pairs that can_add admitted (not in delta_delta, not in delta_total), so each move is disjoint.
           The same for the ternary merge and its reverse maps ([t_merge_twf]).
   Part C  the views: over C18's weak invariant for the structure (classes of distinct ids are disjoint and duplicate-free)
           [delta_nodup] / [total_nodup]: iter_all, ind0/ind1 index_get, ind0/ind1 iter_all (keys AND values) are duplicate-free;
           [tern_nodup]: all eight index views of the ternary adaptor.
   Part D  every history: [bin_mult] and [ter_mult]. *)
From Coq Require Import List Arith Bool Lia ZArith.
From AV Require Import UF.UfBase.
From AV Require Import UF.TrUfModel.
From AV Require Import UF.TrUfInv.
From AV Require Import UF.TrUfLemmas.
From AV Require Import UF.TrUfQueries.
From AV Require Import UF.TrUfCases.
From AV Require Import UF.TrUfProofs.
From AV Require Import Byods.TrUfProvLaws.
From AV Require Import Byods.TrUfProvTernary.
From AV Require Import Byods.TrUfProvRevViews.
From AV Require Import Byods.TrUfProvModel.
From AV Require Import Byods.TrUfProvProofs.
From AV Require Import Byods.TrUfProvTernarySafe.
Import ListNotations.

(* ================================================================== Part A: maps of sets *)
Definition mwf (m : mset) : Prop := NoDup (map fst m) /\ forall k s, In (k, s) m -> NoDup s.
Definition mdisj (a b : mset) : Prop := forall x y, mhas x y a = true -> mhas x y b = false.

Lemma mwf_nil : mwf [].
Proof. split; [constructor|intros k s []]. Qed.

Lemma eget_nodup : forall k m, mwf m -> NoDup (eget k m).
Proof.
  intros k m [_ H]. unfold eget. destruct (aget k m) as [s|] eqn:Hs; [|constructor]. apply (H k s). apply aget_in; exact Hs.
Qed.

Lemma mwf_aset : forall k s m, mwf m -> NoDup s -> mwf (aset k s m).
Proof.
  intros k s m [N H] Hs. split; [apply nodup_keys_aset; exact N|].
  intros k' s' Hin. apply in_aset_inv in Hin. destruct Hin as [[_ ->]|Hin]; [exact Hs|eapply H; exact Hin].
Qed.

Lemma mwf_mins : forall w y m, mwf m -> mwf (mins w y m).
Proof. intros w y m H. unfold mins. apply mwf_aset; [exact H|apply nodup_sadd, eget_nodup; exact H]. Qed.

Lemma mwf_mmove : forall from to, mwf from -> mwf to -> mdisj from to -> mwf (mmove from to).
Proof.
  induction from as [|[k s] from IH]; intros to Hf Ht Hd; [exact Ht|].
  unfold mmove in *. cbn [fold_left fst snd]. destruct Hf as [Nf Hs]. cbn [map fst] in Nf. inversion Nf as [|? ? Hk Nf']; subst.
  apply IH.
  - split; [exact Nf'|]. intros k' s' Hin. apply (Hs k' s'). right; exact Hin.
  - apply mwf_aset; [exact Ht|]. apply NoDup_app_gen; [apply eget_nodup; exact Ht|apply (Hs k s); left; reflexivity|].
    intros x Hx Hxs. assert (H1 : mhas k x ((k, s) :: from) = true) by (rewrite mhas_cons, Nat.eqb_refl; apply smem_in; exact Hxs).
    apply Hd in H1. unfold mhas in H1. apply smem_false in H1. contradiction.
  - intros x y Hxy. assert (Hne : x <> k) by (intros ->; rewrite (mhas_absent k y from Hk) in Hxy; discriminate).
    unfold mhas. rewrite (eget_aset_ne _ _ _ _ Hne). apply Hd. rewrite mhas_cons. destruct (Nat.eqb_spec x k); [contradiction|exact Hxy].
Qed.

Lemma mwf_munion : forall from to, mwf from -> mwf to -> mwf (munion from to).
Proof.
  intros from to Hf Ht. unfold munion. revert to Ht. destruct Hf as [_ Hs]. induction from as [|[k s] from IH]; intros to Ht; [exact Ht|].
  cbn [fold_left fst snd]. apply IH.
  - intros k' s' Hin. apply (Hs k' s'). right; exact Hin.
  - apply mwf_aset; [exact Ht|]. apply nodup_sunion; [apply eget_nodup; exact Ht|apply (Hs k s); left; reflexivity].
Qed.

Lemma mwf_mins_fold : forall (l : list (nat * list nat)) k rm, mwf rm -> mwf (fold_left (fun rm xv => mins (fst xv) k rm) l rm).
Proof. intros l k rm H. apply fold_left_inv; [exact H|]. intros a xv _ Ha. apply mwf_mins; exact Ha. Qed.

(* a map of sets together with its converse *)
Definition cw (m mr : mset) : Prop := mwf m /\ mwf mr /\ forall a b, mhas a b m = mhas b a mr.

Lemma cw_nil : cw [] [].
Proof. split; [apply mwf_nil|]. split; [apply mwf_nil|reflexivity]. Qed.

Lemma cw_ins : forall m mr w y, cw m mr -> cw (mins w y m) (mins y w mr).
Proof.
  intros m mr w y [H1 [H2 Hc]]. split; [apply mwf_mins; exact H1|]. split; [apply mwf_mins; exact H2|].
  intros a b. rewrite !mhas_mins, Hc. rewrite (andb_comm (Nat.eqb a w)). reflexivity.
Qed.

Lemma cw_self : forall id fr cr, cw (fst cr) (snd cr) -> cw (fst (self_conn id fr cr)) (snd (self_conn id fr cr)).
Proof. intros id fr cr H. unfold self_conn. destruct fr; [cbn [fst snd]; apply cw_ins; exact H|exact H]. Qed.

Lemma cw_mmove : forall dd ddr dt dtr, cw dd ddr -> cw dt dtr -> mdisj dd dt -> cw (mmove dd dt) (mmove ddr dtr).
Proof.
  intros dd ddr dt dtr [W1 [W2 C1]] [W3 [W4 C2]] Hd. split; [apply mwf_mmove; assumption|]. split.
  - apply mwf_mmove; try assumption. intros x y H. rewrite <- C1 in H. apply Hd in H. rewrite <- C2. exact H.
  - intros a b. rewrite (mhas_mmove dd dt a b (proj1 W1)), (mhas_mmove ddr dtr b a (proj1 W2)), C1, C2. reflexivity.
Qed.

(* ================================================================== Part B: the merge keeps the maps well formed *)
Lemma foldM_inv : forall A B (Inv : A -> Prop) (f : A -> B -> res A) l a a',
  (forall a b a', In b l -> Inv a -> f a b = Ok a' -> Inv a') -> Inv a -> foldM f l a = Ok a' -> Inv a'.
Proof.
  induction l as [|b l IH]; cbn [foldM]; intros a a' Hf Ha H; [inversion H; subst; exact Ha|].
  destruct (f a b) as [a1|e] eqn:E; cbn [bind] in H; [|discriminate].
  apply (IH a1 a'); [intros a0 b0 a0' Hb0; apply Hf; now right|apply (Hf a b a1); [now left|exact Ha|exact E]|exact H].
Qed.

Lemma add_nodes_cw : forall nrel st ncm ncrm st' ncm' ncrm',
  foldM add_nodes_step nrel (st, ncm, ncrm) = Ok (st', ncm', ncrm') -> cw ncm ncrm -> cw ncm' ncrm'.
Proof.
  intros nrel st ncm ncrm st' ncm' ncrm' H Hc.
  apply (foldM_inv _ _ (fun acc : truf * mset * mset => cw (snd (fst acc)) (snd acc)) add_nodes_step nrel (st, ncm, ncrm) (st', ncm', ncrm'));
    [|exact Hc|exact H].
  intros [[s m] mr] p [[s1 m1] mr1] _ Hinv Hs. cbn [fst snd] in *. unfold add_nodes_step in Hs.
  destruct (add_node_new s (fst p)) as [[[sa xid] xn]|e]; cbn [bind] in Hs; [|discriminate].
  destruct (add_node_new sa (snd p)) as [[[sb yid] yn]|e]; cbn [bind] in Hs; [|discriminate].
  inversion Hs; subst. apply cw_self, cw_self. cbn [fst snd]. apply cw_ins; exact Hinv.
Qed.

Lemma dloop_cw : forall tot ncm fuel dd ddr dt dtr r,
  cw dd ddr -> cw dt dtr -> mdisj dd dt -> dloop fuel tot ncm dd ddr dt dtr = Ok r -> cw (fst r) (snd r).
Proof.
  intros tot ncm. induction fuel as [|f IH]; intros dd ddr dt dtr r Hd Ht Hdis H; [discriminate|].
  cbn [dloop] in H. cbv zeta in H.
  set (ca := fun x y => negb (mhas x y dd) && negb (mhas x y dt) && negb (mhas x y (t_conn tot))) in *.
  set (Q := fun acc : mset * mset * bool => cw (fst (fst acc)) (snd (fst acc)) /\ forall a b, mhas a b (fst (fst acc)) = true -> ca a b = true).
  assert (CQ : forall tg tr ch w y, Q (tg, tr, ch) -> True -> ca w y = true -> mhas w y tg = false -> Q (mins w y tg, mins y w tr, true)).
  { intros tg tr ch w y [Q1 Q2] _ Hca _. unfold Q. cbn [fst snd] in *. split; [apply cw_ins; exact Q1|].
    intros a b Hab. rewrite mhas_mins in Hab. apply orb_true_iff in Hab. destruct Hab as [Hab|Hab]; [|apply Q2; exact Hab].
    apply andb_true_iff in Hab. destruct Hab as [Ha Hb]. apply Nat.eqb_eq in Ha, Hb. subst. exact Hca. }
  assert (Q0 : Q ([], [], false)) by (split; [apply cw_nil|intros a b Hab; discriminate]).
  assert (JQ : forall rel1 rel2 acc, Q acc -> Q (join ca rel1 rel2 acc)).
  { intros rel1 rel2 acc Hq. apply (join_inv_gen3 (fun _ _ => True) (fun _ _ => True) (fun _ _ => True) Q ca rel1 rel2 acc); auto.
    intros k s v _ _. exact I. }
  pose proof (JQ ncm ddr _ (JQ (t_conn tot) ddr _ (JQ dd (t_rev tot) _ Q0))) as J3.
  destruct (join ca ncm ddr (join ca (t_conn tot) ddr (join ca dd (t_rev tot) ([], [], false)))) as [[dn dnr] ch].
  destruct J3 as [Jcw Jca]. cbn [fst snd] in Jcw, Jca.
  pose proof (cw_mmove _ _ _ _ Hd Ht Hdis) as Hmv.
  destruct ch.
  - apply (IH _ _ _ _ _ Jcw Hmv); [|exact H].
    intros x y Hxy. apply Jca in Hxy. unfold ca in Hxy. apply andb_true_iff in Hxy. destruct Hxy as [Hxy _].
    apply andb_true_iff in Hxy. destruct Hxy as [H1 H2]. apply negb_true_iff in H1, H2.
    rewrite (mhas_mmove dd dt x y (proj1 (proj1 Hd))), H1, H2. reflexivity.
  - inversion H; subst r. exact Hmv.
Qed.

(* a version whose connection maps (if it has any) are well formed *)
Definition dwf (c : common) : Prop := match c with CDelta d => mwf (d_conn d) /\ mwf (d_rev d) | _ => True end.

Lemma c_merge_dwf : forall n d t n' d' t', c_merge n d t = Ok (n', d', t') -> dwf d' /\ dwf t'.
Proof.
  intros n d t n' d' t' H. unfold c_merge in H.
  repeat match type of H with
  | bind ?r _ = Ok _ => let E := fresh "E" in destruct r as [?|?] eqn:E; cbn [bind] in H; [|discriminate]
  | (let '(_, _) := ?p in _) = Ok _ => destruct p
  | (if ?b then _ else _) = Ok _ => destruct b
  end; inversion H; subst; (split; [|exact I]); try exact I.
  cbn [dwf d_conn d_rev].
  match goal with
  | E1 : foldM add_nodes_step _ _ = Ok _, E2 : dloop _ _ _ _ _ _ _ = Ok _ |- _ =>
    pose proof (add_nodes_cw _ _ _ _ _ _ _ E1 cw_nil) as Hc;
    pose proof (dloop_cw _ _ _ _ _ _ _ _ Hc cw_nil (fun x y _ => eq_refl) E2) as Hr
  end.
  cbn [fst snd] in Hr. destruct Hr as [H1 [H2 _]]. split; assumption.
Qed.

(* ---- the ternary adaptor: entries and reverse maps *)
Definition twf2 (V : tern) : Prop :=
  (forall k c, In (k, c) (tm V) -> dwf c) /\ (forall i m, rmsel i V = Some m -> mwf m).

Definition entries_dwf (m : list (nat * common)) : Prop := forall k c, In (k, c) m -> dwf c.

Lemma entries_aset : forall k c m, entries_dwf m -> dwf c -> entries_dwf (aset k c m).
Proof. intros k c m Hm Hc k' c' Hin. apply in_aset_inv in Hin. destruct Hin as [[_ ->]|Hin]; [exact Hc|eapply Hm; exact Hin]. Qed.

Lemma loop1_dwf : forall dm newm totm ndm newm' totm' ndm',
  foldM tmerge_delta_step dm (newm, totm, ndm) = Ok (newm', totm', ndm') ->
  entries_dwf totm -> entries_dwf ndm -> entries_dwf totm' /\ entries_dwf ndm'.
Proof.
  intros dm newm totm ndm newm' totm' ndm' H Ht Hn.
  apply (foldM_inv _ _ (fun acc : list (nat * common) * list (nat * common) * list (nat * common) =>
                          entries_dwf (snd (fst acc)) /\ entries_dwf (snd acc)) tmerge_delta_step dm (newm, totm, ndm) (newm', totm', ndm'));
    [|split; assumption|exact H].
  intros [[nm tmm] nd] kd [[nm1 tm1] nd1] _ [I1 I2] Hs. cbn [fst snd] in *. unfold tmerge_delta_step in Hs.
  destruct (c_merge _ (snd kd) _) as [[[x d1] t1]|e] eqn:E; cbn [bind] in Hs; [|discriminate].
  destruct (c_merge_dwf _ _ _ _ _ _ E) as [Hd1 Ht1]. unfold c_trait_is_empty in Hs. cbn [bind] in Hs. inversion Hs; subst.
  split; [apply entries_aset; assumption|]. destruct (match d1 with CNew r => isnil r | CDelta d => isnil (d_prec d) | CTotal t => tr_is_empty t end);
    [exact I2|apply entries_aset; assumption].
Qed.

Lemma loop2_dwf : forall nm totm ndm totm' ndm',
  foldM tmerge_new_step nm (totm, ndm) = Ok (totm', ndm') ->
  entries_dwf totm -> entries_dwf ndm -> entries_dwf totm' /\ entries_dwf ndm'.
Proof.
  intros nm totm ndm totm' ndm' H Ht Hn.
  apply (foldM_inv _ _ (fun acc : list (nat * common) * list (nat * common) => entries_dwf (fst acc) /\ entries_dwf (snd acc))
           tmerge_new_step nm (totm, ndm) (totm', ndm')); [|split; assumption|exact H].
  intros [tmm nd] kn [tm1 nd1] _ [I1 I2] Hs. cbn [fst snd] in *. unfold tmerge_new_step in Hs.
  destruct (aget (fst kn) tmm) as [tot|].
  - destruct (c_merge (snd kn) c_default tot) as [[[x d1] t1]|e] eqn:E; cbn [bind] in Hs; [|discriminate].
    destruct (c_merge_dwf _ _ _ _ _ _ E) as [Hd1 Ht1]. inversion Hs; subst. split; apply entries_aset; assumption.
  - destruct (c_merge (snd kn) c_default c_default) as [[[x d1] t1]|e] eqn:E; cbn [bind] in Hs; [|discriminate].
    destruct (c_merge_dwf _ _ _ _ _ _ E) as [Hd1 Ht1]. inversion Hs; subst. split; [exact I1|apply entries_aset; assumption].
Qed.

Lemma rebuild_rev_mwf : forall rev m rb, rebuild_rev rev m = Ok rb -> mwf rb.
Proof.
  intros rev m rb H. unfold rebuild_rev in H.
  revert H. apply (foldM_inv _ _ mwf); [|apply mwf_nil].
  intros a kc a' _ Ha Hs. cbn beta in Hs. destruct (c_ind_iter_all rev (snd kc)) as [l|e]; cbn [bind] in Hs; [|discriminate].
  inversion Hs; subst. apply mwf_mins_fold; exact Ha.
Qed.

Lemma t_merge_twf2 : forall N D T N' D' T', t_merge N D T = Ok (N', D', T') -> twf2 D -> twf2 T -> twf2 D' /\ twf2 T'.
Proof.
  intros N D T N' D' T' H [ED RD] [ET RT]. unfold t_merge in H.
  destruct (foldM tmerge_delta_step (tm D) (tm N, tm T, [])) as [[[newm1 totm1] ndm1]|e] eqn:E1; cbn [bind] in H; [|discriminate].
  destruct (foldM tmerge_new_step newm1 (totm1, ndm1)) as [[totm2 ndm2]|e] eqn:E2; cbn [bind] in H; [|discriminate].
  destruct (loop1_dwf _ _ _ _ _ _ _ E1 ET (fun k c (Hin : In (k, c) []) => match Hin with end)) as [Ht1 Hn1].
  destruct (loop2_dwf _ _ _ _ _ E2 Ht1 Hn1) as [Ht2 Hn2].
  assert (S1 : forall r1n r1d r1t,
    match rm1 D with
    | Some d1 => do t1 <- of_opt UnwrapNone (rm1 T); do _ <- of_opt UnwrapNone (rm1 N); do d1' <- rebuild_rev false ndm2;
                 Ok (Some ([] : mset), Some d1', Some (munion d1 t1))
    | None => Ok (rm1 N, None, rm1 T)
    end = Ok (r1n, r1d, r1t) -> (forall m, r1d = Some m -> mwf m) /\ (forall m, r1t = Some m -> mwf m)).
  { intros r1n r1d r1t Hs. destruct (rm1 D) as [d1|] eqn:Hd.
    - destruct (rm1 T) as [t1|] eqn:Ht; cbn [of_opt bind] in Hs; [|discriminate].
      destruct (rm1 N) as [nn|]; cbn [of_opt bind] in Hs; [|discriminate].
      destruct (rebuild_rev false ndm2) as [rb|e] eqn:Er; cbn [bind] in Hs; [|discriminate]. inversion Hs; subst. split.
      + intros m Hm. inversion Hm; subst. eapply rebuild_rev_mwf; exact Er.
      + intros m Hm. inversion Hm; subst. apply mwf_munion; [apply (RD false); exact Hd|apply (RT false); exact Ht].
    - inversion Hs; subst. split; [discriminate|]. intros m Hm. apply (RT false). exact Hm. }
  assert (S2 : forall r2n r2d r2t,
    match rm2 D with
    | Some d2 => do t2 <- of_opt UnwrapNone (rm2 T); do _ <- of_opt UnwrapNone (rm2 N); do d2' <- rebuild_rev true ndm2;
                 Ok (Some ([] : mset), Some d2', Some (munion d2 t2))
    | None => Ok (rm2 N, None, rm2 T)
    end = Ok (r2n, r2d, r2t) -> (forall m, r2d = Some m -> mwf m) /\ (forall m, r2t = Some m -> mwf m)).
  { intros r2n r2d r2t Hs. destruct (rm2 D) as [d2|] eqn:Hd.
    - destruct (rm2 T) as [t2|] eqn:Ht; cbn [of_opt bind] in Hs; [|discriminate].
      destruct (rm2 N) as [nn|]; cbn [of_opt bind] in Hs; [|discriminate].
      destruct (rebuild_rev true ndm2) as [rb|e] eqn:Er; cbn [bind] in Hs; [|discriminate]. inversion Hs; subst. split.
      + intros m Hm. inversion Hm; subst. eapply rebuild_rev_mwf; exact Er.
      + intros m Hm. inversion Hm; subst. apply mwf_munion; [apply (RD true); exact Hd|apply (RT true); exact Ht].
    - inversion Hs; subst. split; [discriminate|]. intros m Hm. apply (RT true). exact Hm. }
  match type of H with bind ?r _ = _ => destruct r as [[[r1n r1d] r1t]|e] eqn:R1; cbn [bind] in H; [|discriminate] end.
  match type of H with bind ?r _ = _ => destruct r as [[[r2n r2d] r2t]|e] eqn:R2; cbn [bind] in H; [|discriminate] end.
  destruct (S1 _ _ _ eq_refl) as [A1 A2]. destruct (S2 _ _ _ eq_refl) as [B1 B2]. inversion H; subst.
  split; (split; [cbn [tm]; assumption|]); intros [|] m Hm; cbn [rmsel rm1 rm2] in Hm; auto.
Qed.

Lemma t_default_twf2 : forall h1 h2, twf2 (t_default h1 h2).
Proof.
  intros h1 h2. split; [intros k c []|]. intros [|] m Hm; unfold t_default in Hm; cbn [rmsel rm1 rm2] in Hm;
    [destruct h2|destruct h1]; inversion Hm; apply mwf_nil.
Qed.

(* ---- what one operation does to the versions, for any provider *)
Lemma step_inv : forall St (P : prov St) st o st' it, step P st o = Ok (st', it) ->
  match o with
  | OStart => s_delta st' = snd (fst (p_init P (p_default P) (s_stored st) (p_default P))) /\
              s_total st' = snd (p_init P (p_default P) (s_stored st) (p_default P)) /\ s_stored st' = p_default P
  | OEnd => s_delta st' = s_delta st /\ s_total st' = p_default P /\ s_stored st' = s_total st
  | OMerge => p_merge P (s_new st) (s_delta st) (s_total st) = Ok (s_new st', s_delta st', s_total st') /\ s_stored st' = s_stored st
  | _ => s_delta st' = s_delta st /\ s_total st' = s_total st /\ s_stored st' = s_stored st
  end.
Proof.
  intros St P st o st' it H. destruct o; cbn [step] in H.
  - destruct (p_init P (p_default P) (s_stored st) (p_default P)) as [[n0 d0] t0]. destruct (read_both P _); cbn [bind] in H; [|discriminate].
    inversion H; subst. cbn. auto.
  - inversion H; subst. cbn. auto.
  - destruct (p_merge P _ _ _) as [[[n0 d0] t0]|]; cbn [bind] in H; [|discriminate]. destruct (read_both P _); cbn [bind] in H; [|discriminate].
    inversion H; subst. cbn. auto.
  - destruct (p_insert P _ _ _ _) as [[n0 b]|]; cbn [bind] in H; [|discriminate]. inversion H; subst. cbn. auto.
  - destruct (p_contains P (s_total st) _ _ _) as [[|]|]; cbn [bind] in H; [inversion H; subst; auto| |discriminate].
    destruct (p_contains P (s_delta st) _ _ _) as [[|]|]; cbn [bind] in H; [inversion H; subst; auto| |discriminate].
    destruct (p_insert P _ _ _ _) as [[n0 b]|]; cbn [bind] in H; [|discriminate]. inversion H; subst. cbn. auto.
Qed.

Lemma run_state_inv : forall St (P : prov St) (Inv : pstate St -> Prop),
  (forall st o st' it, step P st o = Ok (st', it) -> Inv st -> Inv st') ->
  forall ops st st', run_state P st ops = Ok st' -> Inv st -> Inv st'.
Proof.
  intros St P Inv Hstep. induction ops as [|o ops IH]; intros st st' H Hi; cbn [run_state] in H; [inversion H; subst; exact Hi|].
  destruct (step P st o) as [[st1 it]|e] eqn:E; cbn [bind] in H; [|discriminate]. apply (IH st1 st' H). eapply Hstep; eassumption.
Qed.

Definition D3 (st : pstate common) : Prop := dwf (s_delta st) /\ dwf (s_total st) /\ dwf (s_stored st).
Definition T3w (st : pstate tern) : Prop := twf2 (s_delta st) /\ twf2 (s_total st) /\ twf2 (s_stored st).

Lemma bin_step_D3 : forall dom st o st' it, step (bin_prov dom) st o = Ok (st', it) -> D3 st -> D3 st'.
Proof.
  intros dom st o st' it H [H1 [H2 H3]]. pose proof (step_inv _ _ _ _ _ _ H) as Hi. unfold D3. destruct o; cbn [bin_prov p_init p_default p_merge c_init fst snd] in Hi.
  - destruct Hi as [-> [-> ->]]. repeat split; try exact I; exact H3.
  - destruct Hi as [-> [-> ->]]. repeat split; try exact I; assumption.
  - destruct Hi as [Hm ->]. destruct (c_merge_dwf _ _ _ _ _ _ Hm) as [A B]. repeat split; assumption.
  - destruct Hi as [-> [-> ->]]. repeat split; assumption.
  - destruct Hi as [-> [-> ->]]. repeat split; assumption.
Qed.

Lemma ter_step_T3w : forall h1 h2 dom kdom st o st' it, step (ter_prov h1 h2 dom kdom) st o = Ok (st', it) -> T3w st -> T3w st'.
Proof.
  intros h1 h2 dom kdom st o st' it H [H1 [H2 H3]]. pose proof (step_inv _ _ _ _ _ _ H) as Hi. unfold T3w.
  destruct o; cbn [ter_prov p_init p_default p_merge fst snd] in Hi.
  - destruct Hi as [-> [-> ->]]. split; [exact H3|split; apply t_default_twf2].
  - destruct Hi as [-> [-> ->]]. split; [exact H1|split; [apply t_default_twf2|exact H2]].
  - destruct Hi as [Hm ->]. destruct (t_merge_twf2 _ _ _ _ _ _ Hm H1 H2) as [A B]. split; [exact A|split; [exact B|exact H3]].
  - destruct Hi as [-> [-> ->]]. split; [exact H1|split; [exact H2|exact H3]].
  - destruct Hi as [-> [-> ->]]. split; [exact H1|split; [exact H2|exact H3]].
Qed.

(* ================================================================== Part C: the views *)
Lemma mapM_eq_map : forall A B (f : A -> res B) (g : A -> B) l bs,
  (forall a b, In a l -> f a = Ok b -> b = g a) -> mapM f l = Ok bs -> bs = map g l.
Proof.
  induction l as [|a l IH]; cbn [mapM map]; intros bs Hg H; [inversion H; reflexivity|].
  destruct (f a) as [b|e] eqn:E; cbn [bind] in H; [|discriminate].
  destruct (mapM f l) as [bs'|e] eqn:E'; cbn [bind] in H; [|discriminate]. inversion H; subst.
  rewrite (Hg a b (or_introl eq_refl) E). f_equal. apply IH; [intros a0 b0 Ha0; apply Hg; now right|reflexivity].
Qed.

Lemma set_at_inv : forall st k xs, set_at st k = Ok xs -> xs = gs st k.
Proof.
  intros st k xs H. unfold set_at in H. destruct (nth_error (t_sets st) k) as [l|] eqn:E; cbn [of_opt] in H; [|discriminate].
  inversion H; subst. unfold gs. symmetry. apply nth_error_nth. exact E.
Qed.

Lemma sets_of_inv : forall st ids ys, sets_of st ids = Ok ys -> ys = concat (map (gs st) ids).
Proof.
  intros st ids ys H. unfold sets_of in H. destruct (mapM _ ids) as [ss|e] eqn:E; cbn [bind] in H; [|discriminate]. inversion H; subst.
  f_equal. revert E. apply mapM_eq_map. intros s b _ Hb. apply (set_at_inv st s b Hb).
Qed.

Lemma nodup_keys_list : forall V (m : list (nat * V)), NoDup (map fst m) -> NoDup m.
Proof. intros V m H. eapply NoDup_map_inv; exact H. Qed.

Lemma same_entry : forall V (m : list (nat * V)) k v v', NoDup (map fst m) -> In (k, v) m -> In (k, v') m -> v = v'.
Proof. intros V m k v v' N H H'. pose proof (in_aget _ _ _ _ N H). pose proof (in_aget _ _ _ _ N H'). congruence. Qed.

(* what "every view returns each tuple once" means for one binary version: iter_all, ind0 / ind1 index_get, ind0 / ind1 iter_all
   (the keys it yields and the values under each key) *)
Definition nodup_version (c : common) : Prop :=
  (forall l, c_iter_all c = Ok l -> NoDup l) /\
  (forall rev x l, c_ind_get rev c x = Ok (Some l) -> NoDup l) /\
  (forall rev L, c_ind_iter_all rev c = Ok L -> NoDup (map fst L) /\ forall x ys, In (x, ys) L -> NoDup ys).

Section ClassesND.
  Variables (E : list (nat * nat)) (st : truf).
  Hypothesis HE : tinv_weak E st.

  Lemma classes_nodup : forall cs, NoDup cs -> NoDup (concat (map (gs st) cs)).
  Proof.
    intros cs H. apply NoDup_concat_map; [exact H|intros a _; apply (gs_nodup E st HE)|].
    intros a b x _ _ Ha Hb. apply mem_of_gs in Ha, Hb. eapply (mem_disj E st HE); eassumption.
  Qed.

  Lemma class_key : forall a b x, In x (gs st a) -> In x (gs st b) -> a = b.
  Proof. intros a b x Ha Hb. apply mem_of_gs in Ha, Hb. eapply (mem_disj E st HE); eassumption. Qed.
End ClassesND.

Lemma d_iter_all_nd : forall d E l, tinv_weak E (d_total d) -> mwf (d_conn d) -> d_iter_all d = Ok l -> NoDup l.
Proof.
  intros d E l HE [Nk Ns] H. unfold d_iter_all in H.
  destruct (mapM _ (d_conn d)) as [ls|e] eqn:EM; cbn [bind] in H; [|discriminate]. inversion H; subst l. clear H.
  set (st := d_total d) in *.
  apply (mapM_eq_map _ _ _ (fun kv => list_prod (gs st (fst kv)) (concat (map (gs st) (snd kv))))) in EM.
  - subst ls. apply NoDup_concat_map.
    + apply nodup_keys_list; exact Nk.
    + intros [k s] Hin. cbn [fst snd]. apply NoDup_list_prod_gen; [apply (gs_nodup E st HE)|apply (classes_nodup E st HE); eapply Ns; exact Hin].
    + intros [k s] [k' s'] [x y] Ha Hb Hx Hy. cbn [fst snd] in *. apply in_prod_iff in Hx, Hy. destruct Hx as [Hx _]. destruct Hy as [Hy _].
      assert (k = k') by (eapply (class_key E st HE); eassumption). subst k'. f_equal. eapply same_entry; eassumption.
  - intros kv b _ Hb. destruct (set_at st (fst kv)) as [xs|e] eqn:E1; cbn [bind] in Hb; [|discriminate].
    destruct (sets_of st (snd kv)) as [ys|e] eqn:E2; cbn [bind] in Hb; [|discriminate]. inversion Hb.
    rewrite (set_at_inv _ _ _ E1), (sets_of_inv _ _ _ E2). reflexivity.
Qed.

Lemma d_ind_get_nd : forall d E m x l, tinv_weak E (d_total d) -> mwf m -> d_ind_get d m x = Ok (Some l) -> NoDup l.
Proof.
  intros d E m x l HE [Nk Ns] H. unfold d_ind_get in H.
  destruct (elem_set (d_total d) x) as [[xs|]|e]; cbn [bind] in H; [|discriminate|discriminate].
  destruct (aget xs m) as [cs|] eqn:Hc; [|discriminate].
  destruct (sets_of (d_total d) cs) as [ys|e] eqn:E2; cbn [bind] in H; [|discriminate]. inversion H; subst l.
  rewrite (sets_of_inv _ _ _ E2). apply (classes_nodup E _ HE). apply (Ns xs cs). apply aget_in; exact Hc.
Qed.

Lemma d_ind_iter_all_nd : forall d E m L, tinv_weak E (d_total d) -> mwf m -> d_ind_iter_all d m = Ok L ->
  NoDup (map fst L) /\ forall x ys, In (x, ys) L -> NoDup ys.
Proof.
  intros d E m L HE [Nk Ns] H. unfold d_ind_iter_all in H.
  destruct (mapM _ m) as [ls|e] eqn:EM; cbn [bind] in H; [|discriminate]. inversion H; subst L. clear H.
  set (st := d_total d) in *.
  apply (mapM_eq_map _ _ _ (fun kv => map (fun x => (x, concat (map (gs st) (snd kv)))) (gs st (fst kv)))) in EM.
  - subst ls. split.
    + rewrite concat_map, map_map.
      replace (map (fun kv : nat * list nat => map fst (map (fun x => (x, concat (map (gs st) (snd kv)))) (gs st (fst kv)))) m)
        with (map (fun kv : nat * list nat => gs st (fst kv)) m).
      2:{ apply map_ext. intros kv. rewrite map_map. cbn [fst]. symmetry. apply map_id. }
      apply NoDup_concat_map.
      * apply nodup_keys_list; exact Nk.
      * intros a _. apply (gs_nodup E st HE).
      * intros [k s] [k' s'] x Ha Hb Hx Hy. cbn [fst snd] in *.
        assert (k = k') by (eapply (class_key E st HE); eassumption). subst k'. f_equal. eapply same_entry; eassumption.
    + intros x ys Hin. apply in_concat in Hin. destruct Hin as [l [Hl Hx]]. apply in_map_iff in Hl. destruct Hl as [[k s] [<- Hk]].
      cbn [fst snd] in Hx. apply in_map_iff in Hx. destruct Hx as [x' [Heq _]]. inversion Heq; subst.
      apply (classes_nodup E st HE). eapply Ns; exact Hk.
  - intros kv b _ Hb. destruct (set_at st (fst kv)) as [xs|e] eqn:E1; cbn [bind] in Hb; [|discriminate].
    destruct (sets_of st (snd kv)) as [ys|e] eqn:E2; cbn [bind] in Hb; [|discriminate]. inversion Hb.
    rewrite (set_at_inv _ _ _ E1), (sets_of_inv _ _ _ E2). reflexivity.
Qed.

(* a Delta-shaped version over a structure satisfying C18's weak invariant, with well formed connection maps *)
Theorem delta_nodup : forall d E, tinv_weak E (d_total d) -> mwf (d_conn d) -> mwf (d_rev d) -> nodup_version (CDelta d).
Proof.
  intros d E HE Hc Hr. unfold nodup_version. cbn [c_iter_all c_ind_get c_ind_iter_all]. split; [|split].
  - intros l. apply (d_iter_all_nd d E l HE Hc).
  - intros rev x l. apply (d_ind_get_nd d E _ x l HE). destruct rev; assumption.
  - intros rev L. apply (d_ind_iter_all_nd d E _ L HE). destruct rev; assumption.
Qed.

(* a Total-shaped version *)
Theorem total_nodup : forall E t, tinv_weak E t -> nodup_version (CTotal t).
Proof.
  intros E t HE. destruct (total_exact _ E t HE) as [_ [[l0 [Hl0 [Nl0 _]]] [H3 [H4 _]]]]. split; [|split].
  - intros l Hl. rewrite Hl0 in Hl. inversion Hl; subst. exact Nl0.
  - intros rev x l Hl. destruct rev.
    + destruct (H4 x) as [o [Ho [_ Hn]]]. rewrite Ho in Hl. inversion Hl; subst. apply (Hn l eq_refl).
    + destruct (H3 x) as [o [Ho [_ Hn]]]. rewrite Ho in Hl. inversion Hl; subst. apply (Hn l eq_refl).
  - intros rev L HL. cbn [c_ind_iter_all] in HL. rewrite (ind_iter_all_total _ E t HE rev) in HL. inversion HL; subst L. split.
    + rewrite map_map. cbn [fst]. apply (w_ids_keys _ _ HE).
    + intros x ys Hin. apply in_map_iff in Hin. destruct Hin as [kv [Heq _]]. inversion Heq; subst.
      apply (nodup_bsl E t HE). destruct rev; [apply (w_rev _ _ HE)|apply (w_conn _ _ HE)].
Qed.

(* every readable version of the binary form *)
Lemma ver_nodup : forall Ins c, ver_ok WI Ins c -> dwf c -> (forall r, c <> CNew r) -> nodup_version c.
Proof.
  intros Ins [r|d|t] Hv Hd Hn; [exfalso; apply (Hn r); reflexivity| |].
  - destruct Hv as [[Et [HE _]] _]. destruct Hd as [Hc Hr]. apply (delta_nodup d Et HE Hc Hr).
  - destruct Hv as [Et [HE _]]. apply (total_nodup Et t HE).
Qed.

(* ---- the ternary adaptor *)
Lemma nodup_map_inj_in : forall A K (tag : A -> K) l a b, NoDup (map tag l) -> In a l -> In b l -> tag a = tag b -> a = b.
Proof.
  induction l as [|h l IH]; intros a b N Ha Hb Ht; [destruct Ha|]. cbn [map] in N. inversion N as [|? ? Hn N']; subst.
  destruct Ha as [->|Ha]; destruct Hb as [->|Hb]; [reflexivity| | |apply IH; assumption].
  - exfalso. apply Hn. rewrite Ht. apply in_map; exact Hb.
  - exfalso. apply Hn. rewrite <- Ht. apply in_map; exact Ha.
Qed.

Lemma nodup_tagged : forall A K B (tag : A -> K) (f : A -> list B) l,
  NoDup (map tag l) -> (forall a, In a l -> NoDup (f a)) ->
  NoDup (concat (map (fun a => map (fun v => (tag a, v)) (f a)) l)).
Proof.
  intros A K B tag f l N Hf. apply NoDup_concat_map.
  - eapply NoDup_map_inv; exact N.
  - intros a Ha. change (map (fun v : B => (tag a, v)) (f a)) with (map (pair (tag a)) (f a)). apply NoDup_map_pair, Hf; exact Ha.
  - intros a b [k v] Ha Hb Hx Hy. apply in_map_iff in Hx, Hy. destruct Hx as [v1 [E1 _]]. destruct Hy as [v2 [E2 _]].
    inversion E1; inversion E2; subst. eapply nodup_map_inj_in; try eassumption. congruence.
Qed.

Lemma nodup_choose : forall (f : nat -> bool) l, NoDup l -> NoDup (concat (map (fun k => if f k then [k] else []) l)).
Proof.
  intros f l N. apply NoDup_concat_map; [exact N| |].
  - intros a _. destruct (f a); [constructor; [intros []|constructor]|constructor].
  - intros a b x _ _ Ha Hb. destruct (f a); [|destruct Ha]. destruct (f b); [|destruct Hb].
    destruct Ha as [<-|[]]. destruct Hb as [<-|[]]. reflexivity.
Qed.

Definition iil (rev : bool) (c : common) : list (nat * list nat) := match c_ind_iter_all rev c with Ok l => l | Err _ => [] end.
Definition igl (rev : bool) (c : common) (x : nat) : list nat := match c_ind_get rev c x with Ok (Some l) => l | _ => [] end.

(* what the views are made of: duplicate-free keys, entries whose views are duplicate-free, well formed reverse maps *)
Definition tnd (V : tern) : Prop :=
  NoDup (map fst (tm V)) /\ (forall k c, In (k, c) (tm V) -> nodup_version c) /\ (forall i m, rmsel i V = Some m -> mwf m).

(* "every view returns each tuple once" for one version of the ternary form:
     t_all        iter_all of index None, [0] (its keys: map fst) and of the full index [0,1,2]
     t_i0_get     index_get of [0]
     t_i0x_*      index [0,1] / [0,2]
     t_i12x_*     index [1] / [2] (through reverse_map1 / reverse_map2)
     t_i12_*      index [1,2]
   (index_get of the full index and contains_key yield at most one item by construction) *)
Definition nodup_tern (V : tern) : Prop :=
  (forall L, t_all V = Ok L -> NoDup (flat3 L) /\ NoDup (map fst L)) /\
  (forall k l, t_i0_get V k = Ok (Some l) -> NoDup l) /\
  (forall rev k x l, t_i0x_get rev V k x = Ok (Some l) -> NoDup l) /\
  (forall rev L, t_i0x_all rev V = Ok L -> NoDup (map fst L) /\ forall kx ys, In (kx, ys) L -> NoDup ys) /\
  (forall rev x l, t_i12x_get rev V x = Ok (Some l) -> NoDup l) /\
  (forall rev L, t_i12x_all rev V = Ok L -> NoDup (map fst L) /\ forall x l, In (x, l) L -> NoDup l) /\
  (forall x1 x2 l, t_i12_get V x1 x2 = Ok (Some l) -> NoDup l) /\
  (forall L, t_i12_all V = Ok L -> NoDup (map fst L) /\ forall xx l, In (xx, l) L -> NoDup l).

Section TernND.
  Variable V : tern.
  Hypothesis HV : tnd V.

  Lemma itl_nd : forall k c, In (k, c) (tm V) -> NoDup (itl c).
  Proof.
    intros k c Hin. destruct HV as [_ [He _]]. destruct (He k c Hin) as [H1 _]. unfold itl.
    destruct (c_iter_all c) as [l|e] eqn:El; [apply H1; reflexivity|constructor].
  Qed.

  Lemma igl_nd : forall rev k c x, In (k, c) (tm V) -> NoDup (igl rev c x).
  Proof.
    intros rev k c x Hin. destruct HV as [_ [He _]]. destruct (He k c Hin) as [_ [H2 _]]. unfold igl.
    destruct (c_ind_get rev c x) as [[l|]|e] eqn:El; [eapply H2; exact El|constructor|constructor].
  Qed.

  Lemma iil_nd : forall rev k c, In (k, c) (tm V) -> NoDup (map fst (iil rev c)) /\ forall x ys, In (x, ys) (iil rev c) -> NoDup ys.
  Proof.
    intros rev k c Hin. destruct HV as [_ [He _]]. destruct (He k c Hin) as [_ [_ H3]]. unfold iil.
    destruct (c_ind_iter_all rev c) as [l|e] eqn:El; [apply (H3 rev l El)|]. split; [constructor|intros x ys []].
  Qed.

  Lemma t_all_nd : forall L, t_all V = Ok L -> NoDup (flat3 L) /\ NoDup (map fst L).
  Proof.
    intros L H. unfold t_all in H. apply (mapM_eq_map _ _ _ (fun kc => (fst kc, itl (snd kc)))) in H.
    2:{ intros [k c] b _ Hb. cbn [fst snd] in *. unfold itl. destruct (c_iter_all c) as [l|e]; cbn [bind] in Hb; [|discriminate]. inversion Hb. reflexivity. }
    subst L. destruct HV as [Nk _]. split.
    - unfold flat3. rewrite map_map. cbn [fst snd].
      apply (nodup_tagged _ _ _ fst (fun kc => itl (snd kc)) (tm V) Nk). intros [k c] Hin. cbn [snd]. eapply itl_nd; exact Hin.
    - rewrite map_map. cbn [fst]. exact Nk.
  Qed.

  Lemma t_i0_get_nd : forall k l, t_i0_get V k = Ok (Some l) -> NoDup l.
  Proof.
    intros k l H. unfold t_i0_get in H. destruct (aget k (tm V)) as [c|] eqn:Hc; [|discriminate].
    destruct (c_iter_all c) as [l0|e] eqn:El; cbn [bind] in H; [|discriminate]. inversion H; subst.
    destruct HV as [_ [He _]]. destruct (He k c (aget_in _ _ _ _ Hc)) as [H1 _]. apply H1; exact El.
  Qed.

  Lemma t_i0x_get_nd : forall rev k x l, t_i0x_get rev V k x = Ok (Some l) -> NoDup l.
  Proof.
    intros rev k x l H. unfold t_i0x_get in H. destruct (aget k (tm V)) as [c|] eqn:Hc; [|discriminate].
    destruct HV as [_ [He _]]. destruct (He k c (aget_in _ _ _ _ Hc)) as [_ [H2 _]]. eapply H2; exact H.
  Qed.

  Lemma t_i0x_all_nd : forall rev L, t_i0x_all rev V = Ok L -> NoDup (map fst L) /\ forall kx ys, In (kx, ys) L -> NoDup ys.
  Proof.
    intros rev L H. unfold t_i0x_all in H. destruct (mapM _ (tm V)) as [ls|e] eqn:EM; cbn [bind] in H; [|discriminate]. inversion H; subst L. clear H.
    apply (mapM_eq_map _ _ _ (fun kc => map (fun xv => (fst kc, fst xv, snd xv)) (iil rev (snd kc)))) in EM.
    2:{ intros [k c] b _ Hb. cbn [fst snd] in *. unfold iil. destruct (c_ind_iter_all rev c) as [l|e]; cbn [bind] in Hb; [|discriminate]. inversion Hb. reflexivity. }
    subst ls. destruct HV as [Nk _]. split.
    - rewrite concat_map, map_map.
      replace (map (fun kc : nat * common => map fst (map (fun xv : nat * list nat => (fst kc, fst xv, snd xv)) (iil rev (snd kc)))) (tm V))
        with (map (fun kc : nat * common => map (fun v => (fst kc, v)) (map fst (iil rev (snd kc)))) (tm V)).
      2:{ apply map_ext. intros kc. rewrite !map_map. reflexivity. }
      apply (nodup_tagged _ _ _ fst (fun kc => map fst (iil rev (snd kc))) (tm V) Nk). intros [k c] Hin. cbn [snd]. apply (proj1 (iil_nd rev k c Hin)).
    - intros kx ys Hin. apply in_concat in Hin. destruct Hin as [l [Hl Hx]]. apply in_map_iff in Hl. destruct Hl as [[k c] [<- Hk]].
      cbn [fst snd] in Hx. apply in_map_iff in Hx. destruct Hx as [[x ys'] [Heq Hxv]]. inversion Heq; subst.
      destruct (iil_nd rev k c Hk) as [_ Hv]. eapply Hv; exact Hxv.
  Qed.

  Lemma t_i12x_get_nd : forall rev x l, t_i12x_get rev V x = Ok (Some l) -> NoDup l.
  Proof.
    intros rev x l H. unfold t_i12x_get in H. change (if rev then rm2 V else rm1 V) with (rmsel rev V) in H.
    destruct (rmsel rev V) as [rm|] eqn:Hsel; cbn [of_opt bind] in H; [|discriminate].
    destruct (aget x rm) as [ks|] eqn:Hx; [|discriminate].
    destruct (mapM _ ks) as [ls|e] eqn:EM; cbn [bind] in H; [|discriminate]. inversion H; subst l. clear H.
    apply (mapM_eq_map _ _ _ (fun k => map (fun v => (k, v)) (match aget k (tm V) with Some c => igl rev c x | None => [] end))) in EM.
    2:{ intros k b _ Hb. destruct (aget k (tm V)) as [c|]; cbn [of_opt bind] in Hb; [|discriminate]. unfold igl.
        destruct (c_ind_get rev c x) as [[l0|]|e]; cbn [bind] in Hb; inversion Hb; reflexivity. }
    subst ls. destruct HV as [_ [_ Hm]]. destruct (Hm rev rm Hsel) as [_ Ns].
    apply (nodup_tagged _ _ _ (fun k : nat => k) (fun k => match aget k (tm V) with Some c => igl rev c x | None => [] end) ks).
    - rewrite map_id. apply (Ns x ks). apply aget_in; exact Hx.
    - intros k _. destruct (aget k (tm V)) as [c|] eqn:Hc; [|constructor]. eapply igl_nd. apply aget_in; exact Hc.
  Qed.

  Lemma t_i12x_all_nd : forall rev L, t_i12x_all rev V = Ok L -> NoDup (map fst L) /\ forall x l, In (x, l) L -> NoDup l.
  Proof.
    intros rev L H. unfold t_i12x_all in H. change (if rev then rm2 V else rm1 V) with (rmsel rev V) in H.
    destruct (rmsel rev V) as [rm|] eqn:Hsel; cbn [of_opt bind] in H; [|discriminate].
    apply (mapM_eq_map _ _ _ (fun kv : nat * list nat => (fst kv, match t_i12x_get rev V (fst kv) with Ok (Some l) => l | _ => [] end))) in H.
    2:{ intros kv b _ Hb. destruct (t_i12x_get rev V (fst kv)) as [[l|]|e]; cbn [of_opt bind] in Hb; inversion Hb; reflexivity. }
    subst L. destruct HV as [_ [_ Hm]]. destruct (Hm rev rm Hsel) as [Nk _]. split.
    - rewrite map_map. cbn [fst]. exact Nk.
    - intros x l Hin. apply in_map_iff in Hin. destruct Hin as [kv [Heq _]]. inversion Heq; subst.
      destruct (t_i12x_get rev V (fst kv)) as [[l|]|e] eqn:El; [eapply t_i12x_get_nd; exact El|constructor|constructor].
  Qed.

  Lemma t_i12_keys_nd : forall x1 x2 k1 k2 l, NoDup k1 -> t_i12_keys V x1 x2 k1 k2 = Ok l -> NoDup l.
  Proof.
    intros x1 x2 k1 k2 l N H. unfold t_i12_keys in H. destruct (mapM _ (sinter k1 k2)) as [ls|e] eqn:EM; cbn [bind] in H; [|discriminate].
    inversion H; subst l. clear H.
    apply (mapM_eq_map _ _ _ (fun k => if (match aget k (tm V) with Some c => match c_contains c x1 x2 with Ok b => b | Err _ => false end | None => false end)
                                       then [k] else [])) in EM.
    2:{ intros k b _ Hb. destruct (aget k (tm V)) as [c|]; cbn [of_opt bind] in Hb; [|discriminate].
        destruct (c_contains c x1 x2) as [bb|e]; cbn [bind] in Hb; inversion Hb; reflexivity. }
    subst ls. apply nodup_choose. apply nodup_sinter; exact N.
  Qed.

  Lemma t_i12_get_nd : forall x1 x2 l, t_i12_get V x1 x2 = Ok (Some l) -> NoDup l.
  Proof.
    intros x1 x2 l H. unfold t_i12_get in H.
    destruct (rm1 V) as [m1|] eqn:H1; cbn [of_opt bind] in H; [|discriminate].
    destruct (rm2 V) as [m2|] eqn:H2; cbn [of_opt bind] in H; [|discriminate].
    destruct (aget x1 m1) as [k1|] eqn:Hx1; [|discriminate]. destruct (aget x2 m2) as [k2|] eqn:Hx2; [|discriminate].
    destruct (t_i12_keys V x1 x2 k1 k2) as [l0|e] eqn:El; cbn [bind] in H; [|discriminate]. inversion H; subst.
    destruct HV as [_ [_ Hm]]. destruct (Hm false m1 H1) as [_ Ns]. eapply t_i12_keys_nd; [|exact El]. apply (Ns x1 k1). apply aget_in; exact Hx1.
  Qed.

  Lemma t_i12_all_nd : forall L, t_i12_all V = Ok L -> NoDup (map fst L) /\ forall xx l, In (xx, l) L -> NoDup l.
  Proof.
    intros L H. unfold t_i12_all in H.
    destruct (rm1 V) as [m1|] eqn:H1; cbn [of_opt bind] in H; [|discriminate].
    destruct (rm2 V) as [m2|] eqn:H2; cbn [of_opt bind] in H; [|discriminate].
    destruct (mapM _ m1) as [ls|e] eqn:EM; cbn [bind] in H; [|discriminate]. inversion H; subst L. clear H.
    set (KK := fun (a b : nat * list nat) => match t_i12_keys V (fst a) (fst b) (snd a) (snd b) with Ok l => l | Err _ => [] end).
    apply (mapM_eq_map _ _ _ (fun a => map (fun b => (fst a, fst b, KK a b)) m2)) in EM.
    2:{ intros a bs _ Hb. revert Hb. apply mapM_eq_map. intros b r _ Hr. unfold KK.
        destruct (t_i12_keys V (fst a) (fst b) (snd a) (snd b)) as [l|e]; cbn [bind] in Hr; inversion Hr; reflexivity. }
    subst ls. destruct HV as [_ [_ Hm]]. destruct (Hm false m1 H1) as [N1 Ns1]. destruct (Hm true m2 H2) as [N2 _]. split.
    - rewrite concat_map, map_map.
      replace (map (fun a : nat * list nat => map fst (map (fun b : nat * list nat => (fst a, fst b, KK a b)) m2)) m1)
        with (map (fun a : nat * list nat => map (fun v => (fst a, v)) (map fst m2)) m1).
      2:{ apply map_ext. intros a. rewrite !map_map. reflexivity. }
      apply (nodup_tagged _ _ _ fst (fun _ => map fst m2) m1 N1). intros a _. exact N2.
    - intros xx l Hin. apply in_concat in Hin. destruct Hin as [l0 [Hl Hx]]. apply in_map_iff in Hl. destruct Hl as [a [<- Ha]].
      apply in_map_iff in Hx. destruct Hx as [b [Heq _]]. inversion Heq; subst. unfold KK.
      destruct (t_i12_keys V (fst a) (fst b) (snd a) (snd b)) as [l|e] eqn:El; [|constructor].
      eapply t_i12_keys_nd; [|exact El]. destruct a as [x1 k1]. apply (Ns1 x1 k1). exact Ha.
  Qed.

  Theorem tern_nodup : nodup_tern V.
  Proof.
    split; [exact t_all_nd|]. split; [exact t_i0_get_nd|]. split; [exact t_i0x_get_nd|]. split; [exact t_i0x_all_nd|].
    split; [exact t_i12x_get_nd|]. split; [exact t_i12x_all_nd|]. split; [exact t_i12_get_nd|exact t_i12_all_nd].
  Qed.
End TernND.

(* ================================================================== Part D: every history *)
Lemma D3_init : forall dom, D3 (ps_init (bin_prov dom)).
Proof. intros dom. repeat split. Qed.

(* Theorem (binary form, EVERY sequence of operations): the history runs, and every view of the delta version (Delta- or
   Total-shaped), of the total version and of the stored relation returns each tuple once *)
Theorem bin_mult : forall dom ops,
  exists st, run_state (bin_prov dom) (ps_init (bin_prov dom)) ops = Ok st /\
    nodup_version (s_delta st) /\ nodup_version (s_total st) /\ nodup_version (s_stored st).
Proof.
  intros dom ops. destruct (run_ok WI HWI dom ops [] _ (init_ok WI HWI dom)) as [st [Hr Hst]]. exists st. split; [exact Hr|].
  pose proof (run_state_inv _ (bin_prov dom) D3 (bin_step_D3 dom) ops _ _ Hr (D3_init dom)) as [Dd [Dt Ds]].
  cbn [app] in Hst. destruct Hst as [Hb [ts [Hs Hvs]]]. pose proof (delta_readable _ _ _ _ _ Hb) as Hnd.
  destruct Hb as [_ [Hd [Ht [[tt Htt] _]]]]. split; [|split].
  - apply (ver_nodup _ _ Hd Dd Hnd).
  - apply (ver_nodup _ _ Ht Dt). intros r. rewrite Htt. discriminate.
  - rewrite Hs in *. apply (ver_nodup _ _ Hvs Ds). discriminate.
Qed.

Lemma T3w_init : forall h1 h2 dom kdom, T3w (ps_init (ter_prov h1 h2 dom kdom)).
Proof. intros. split; [|split]; apply t_default_twf2. Qed.

Lemma kok_nodup : forall Ins n d t, kok Ins n d t -> dwf d -> dwf t -> nodup_version d /\ nodup_version t.
Proof.
  intros Ins n d t [_ [Hd [Ht [[tt ->] Hsh]]]] Dd Dt. split.
  - apply (ver_nodup Ins d Hd Dd). intros r ->. exact Hsh.
  - apply (ver_nodup Ins _ Ht Dt). discriminate.
Qed.

(* Theorem (ternary form, with or without reverse maps, EVERY sequence of operations): the history runs, and every view of the
   delta version, of the total version and of the stored relation returns each tuple (and each key) once *)
Theorem ter_mult : forall has1 has2 dom kdom ops,
  exists st, run_state (ter_prov has1 has2 dom kdom) (ps_init (ter_prov has1 has2 dom kdom)) ops = Ok st /\
    nodup_tern (s_delta st) /\ nodup_tern (s_total st) /\ nodup_tern (s_stored st).
Proof.
  intros has1 has2 dom kdom ops. destruct (ter_sound has1 has2 dom kdom ops) as [st [Hr [Htok Hsok]]]. exists st. split; [exact Hr|].
  pose proof (run_state_inv _ (ter_prov has1 has2 dom kdom) T3w (ter_step_T3w has1 has2 dom kdom) ops _ _ Hr (T3w_init has1 has2 dom kdom))
    as [[ED RD] [[ET RT] [ES RS]]].
  destruct Htok as [_ [[Nd _] [[Nt _] [_ [_ HK]]]]]. destruct Hsok as [[Ns _] [_ HS]].
  split; [|split]; apply tern_nodup; (split; [assumption|split; [|assumption]]).
  - intros k c Hin. pose proof (in_aget _ _ _ _ Nd Hin) as Hc. pose proof (HK k) as Hk. rewrite Hc in Hk. cbn [nget] in Hk.
    apply (kok_nodup _ _ _ _ Hk); [apply (ED k c Hin)|].
    destruct (aget k (tm (s_total st))) as [tc|] eqn:Htc; cbn [nget]; [apply (ET k tc); apply aget_in; exact Htc|exact I].
  - intros k c Hin. pose proof (in_aget _ _ _ _ Nt Hin) as Hc. pose proof (HK k) as Hk. rewrite Hc in Hk. cbn [nget] in Hk.
    apply (kok_nodup _ _ _ _ Hk); [|apply (ET k c Hin)].
    destruct (aget k (tm (s_delta st))) as [dc|] eqn:Hdc; cbn [nget]; [apply (ED k dc); apply aget_in; exact Hdc|exact I].
  - intros k c Hin. pose proof (in_aget _ _ _ _ Ns Hin) as Hc. destruct (HS k c Hc) as [[tt ->] Hv].
    apply (ver_nodup _ _ Hv (ES k _ Hin)). discriminate.
Qed.
