(* C10 at the level of PROGRAMS: the engine theorem with a provider-backed relation (Engine/ProvProofs.v
   prun_plan_correct) instantiated with the proved eqrel providers, and the bridge from "closed under the closure
   operator" to "closed under the explicit reflexivity / symmetry / transitivity rules".

   The engine model speaks about providers over `tuple := list Z`; the providers are transported along the
   encodings (a, b) |-> [a; b] and (k, (a, b)) |-> [k; a; b] (Byods/Transport.v); the closure on lists is the image
   of eqv / eqv3 (lists of another length are left alone: a validated program never produces them). *)
From Coq Require Import List ZArith Bool Arith Lia.
From AV Require Import Byods.Provider.
From AV Require Import Byods.Closure.
From AV Require Import Byods.Ternary.
From AV Require Import Byods.Transport.
From AV Require Import Byods.EqRelProofs.
From AV Require Import Byods.EqRelPar.
From AV Require Import Byods.EqRelTernary.
From AV Require Import Engine.Core.
From AV Require Import Engine.Sem.
From AV Require Import Engine.Eval.
From AV Require Import Engine.Validate.
From AV Require Import Engine.Naive.
From AV Require Import Engine.NaiveLemmas.
From AV Require Import Engine.Interface.
From AV Require Import Engine.EvalProv.
From AV Require Import Engine.InterfaceProv.
From AV Require Import Engine.ProvProofs.
Import ListNotations.
Open Scope Z_scope.

(* ------------------------------------------------------------------ encodings *)
Definition enc2 (t : T2) : tuple := [fst t; snd t].
Definition dec2 (u : tuple) : option T2 := match u with [a; b] => Some (a, b) | _ => None end.
Definition enc3 (t : T3z) : tuple := [fst t; fst (snd t); snd (snd t)].
Definition dec3 (u : tuple) : option T3z := match u with [k; a; b] => Some (k, (a, b)) | _ => None end.

Lemma dec2_enc2 t : dec2 (enc2 t) = Some t.
Proof. destruct t; reflexivity. Qed.
Lemma enc2_dec2 u t : dec2 u = Some t -> enc2 t = u.
Proof. destruct u as [|a [|b [|c r]]]; cbn; try discriminate. intros [= <-]. reflexivity. Qed.
Lemma dec3_enc3 t : dec3 (enc3 t) = Some t.
Proof. destruct t as [k [a b]]; reflexivity. Qed.
Lemma enc3_dec3 u t : dec3 u = Some t -> enc3 t = u.
Proof. destruct u as [|k [|a [|b [|c r]]]]; cbn; try discriminate. intros [= <-]. reflexivity. Qed.

(* the providers the engine model is run with, and their closures *)
Definition eqrel_binary_tuple : provider tuple := transport T2 tuple eqrel_binary enc2 dec2 zlist_eqb.
Definition eqrel_par_tuple : provider tuple := transport T2 tuple eqrel_par enc2 dec2 zlist_eqb.
Definition eqrel_ternary_tuple : provider tuple := transport T3z tuple eqrel_ternary enc3 dec3 zlist_eqb.
Definition eqv_cl2 : list tuple -> list tuple := tcl T2 tuple eqv enc2 dec2.
Definition eqv_cl3 : list tuple -> list tuple := tcl T3z tuple eqv3 enc3 dec3.

Lemma eqv_cl2_op : closure_op tuple eqv_cl2.
Proof. exact (tcl_closure_op T2 tuple eqv enc2 dec2 dec2_enc2 enc2_dec2 eqv_closure_op). Qed.
Lemma eqv_cl3_op : closure_op tuple eqv_cl3.
Proof. exact (tcl_closure_op T3z tuple eqv3 enc3 dec3 dec3_enc3 enc3_dec3 eqv3_closure_op). Qed.
Lemma eqrel_binary_tuple_ok : provider_ok tuple eqrel_binary_tuple eqv_cl2.
Proof. exact (transport_provider_ok T2 tuple eqrel_binary eqv enc2 dec2 zlist_eqb dec2_enc2 enc2_dec2 zlist_eqb_eq eqrel_binary_provider_ok). Qed.
Lemma eqrel_par_tuple_ok : provider_ok tuple eqrel_par_tuple eqv_cl2.
Proof. exact (transport_provider_ok T2 tuple eqrel_par eqv enc2 dec2 zlist_eqb dec2_enc2 enc2_dec2 zlist_eqb_eq eqrel_par_provider_ok). Qed.
Lemma eqrel_ternary_tuple_ok : provider_ok tuple eqrel_ternary_tuple eqv_cl3.
Proof. exact (transport_provider_ok T3z tuple eqrel_ternary eqv3 enc3 dec3 zlist_eqb dec3_enc3 enc3_dec3 zlist_eqb_eq eqrel_ternary_provider_ok). Qed.
Lemma eqv_cl2_arity : cl_arity eqv_cl2 2.
Proof.
  intros s t Hs Ht. exact (tcl_pres T2 tuple eqv enc2 dec2 dec2_enc2 enc2_dec2 (fun u => length u = 2%nat) (fun _ => eq_refl) s t Hs Ht).
Qed.
Lemma eqv_cl3_arity : cl_arity eqv_cl3 3.
Proof.
  intros s t Hs Ht. exact (tcl_pres T3z tuple eqv3 enc3 dec3 dec3_enc3 enc3_dec3 (fun u => length u = 3%nat) (fun _ => eq_refl) s t Hs Ht).
Qed.

(* ------------------------------------------------------------------ engine_with_providers, instantiated *)
Section Program.
Variable I : interp.
Variable swap : list tuple -> list tuple -> bool.

Theorem program_binary : forall (r0 : Core.rel) arities P pl fuel F0 st,
  In (r0, 2%nat) arities -> arities_functional arities -> wf_facts arities F0 = true -> no_agg P = true ->
  (forall f, In f F0 -> fst f <> r0) -> validate arities P pl = true ->
  prun_plan I swap eqrel_binary_tuple r0 fuel pl F0 = Some st ->
  least_model_cl I P eqv_cl2 r0 F0 (pfacts eqrel_binary_tuple r0 st).
Proof.
  intros r0 arities P pl fuel F0 st H1 H2 H3 H4 H5 H6 H7.
  exact (prun_plan_correct I swap eqrel_binary_tuple eqv_cl2 r0 2%nat arities P pl fuel F0 st eqv_cl2_op eqrel_binary_tuple_ok eqv_cl2_arity H1 H2 H3 H4 H5 H6 H7).
Qed.
Theorem program_binary_par : forall (r0 : Core.rel) arities P pl fuel F0 st,
  In (r0, 2%nat) arities -> arities_functional arities -> wf_facts arities F0 = true -> no_agg P = true ->
  (forall f, In f F0 -> fst f <> r0) -> validate arities P pl = true ->
  prun_plan I swap eqrel_par_tuple r0 fuel pl F0 = Some st ->
  least_model_cl I P eqv_cl2 r0 F0 (pfacts eqrel_par_tuple r0 st).
Proof.
  intros r0 arities P pl fuel F0 st H1 H2 H3 H4 H5 H6 H7.
  exact (prun_plan_correct I swap eqrel_par_tuple eqv_cl2 r0 2%nat arities P pl fuel F0 st eqv_cl2_op eqrel_par_tuple_ok eqv_cl2_arity H1 H2 H3 H4 H5 H6 H7).
Qed.
Theorem program_ternary : forall (r0 : Core.rel) arities P pl fuel F0 st,
  In (r0, 3%nat) arities -> arities_functional arities -> wf_facts arities F0 = true -> no_agg P = true ->
  (forall f, In f F0 -> fst f <> r0) -> validate arities P pl = true ->
  prun_plan I swap eqrel_ternary_tuple r0 fuel pl F0 = Some st ->
  least_model_cl I P eqv_cl3 r0 F0 (pfacts eqrel_ternary_tuple r0 st).
Proof.
  intros r0 arities P pl fuel F0 st H1 H2 H3 H4 H5 H6 H7.
  exact (prun_plan_correct I swap eqrel_ternary_tuple eqv_cl3 r0 3%nat arities P pl fuel F0 st eqv_cl3_op eqrel_ternary_tuple_ok eqv_cl3_arity H1 H2 H3 H4 H5 H6 H7).
Qed.
End Program.

(* ------------------------------------------------------------------ the explicit closure rules *)
(* eq(x, x), eq(y, y), eq(y, x) <-- eq(x, y);      eq(x, z) <-- eq(x, y), eq(y, z); *)
Definition rules2 (r0 : Core.rel) : list rule :=
  [ {| heads := [(r0, [TVar 0%nat; TVar 0%nat]); (r0, [TVar 1%nat; TVar 1%nat]); (r0, [TVar 1%nat; TVar 0%nat])];
       body := [BClause r0 [TVar 0%nat; TVar 1%nat] []] |};
    {| heads := [(r0, [TVar 0%nat; TVar 2%nat])];
       body := [BClause r0 [TVar 0%nat; TVar 1%nat] []; BClause r0 [TVar 1%nat; TVar 2%nat] []] |} ].
(* eq(k, x, x), eq(k, y, y), eq(k, y, x) <-- eq(k, x, y);      eq(k, x, z) <-- eq(k, x, y), eq(k, y, z); *)
Definition rules3 (r0 : Core.rel) : list rule :=
  [ {| heads := [(r0, [TVar 0%nat; TVar 1%nat; TVar 1%nat]); (r0, [TVar 0%nat; TVar 2%nat; TVar 2%nat]); (r0, [TVar 0%nat; TVar 2%nat; TVar 1%nat])];
       body := [BClause r0 [TVar 0%nat; TVar 1%nat; TVar 2%nat] []] |};
    {| heads := [(r0, [TVar 0%nat; TVar 1%nat; TVar 3%nat])];
       body := [BClause r0 [TVar 0%nat; TVar 1%nat; TVar 2%nat] []; BClause r0 [TVar 0%nat; TVar 2%nat; TVar 3%nat] []] |} ].

Section Bridge.
Variable I : interp.

Lemma closed_app P R M : closed I (P ++ R) M <-> closed I P M /\ closed I R M.
Proof.
  unfold closed, derives. split.
  - intros H. split; intros f [r [Hr Hf]]; apply H; exists r; (split; [apply in_or_app; auto|exact Hf]).
  - intros [H1 H2] f [r [Hr Hf]]. apply in_app_iff in Hr. destruct Hr as [Hr|Hr]; [apply H1|apply H2]; exists r; split; assumption.
Qed.

(* flat_map over tuples of a fixed shape *)
Lemma flat_map_pairs {B} (G : Z -> Z -> list B) (l : list tuple) x :
  In x (flat_map (fun tup => match tup with [a; b] => G a b | _ => [] end) l) <-> exists a b, In [a; b] l /\ In x (G a b).
Proof.
  rewrite in_flat_map. split.
  - intros [tup [Ht Hx]]. destruct tup as [|a [|b [|c r]]]; try destruct Hx. exists a, b. split; assumption.
  - intros [a [b [Ht Hx]]]. exists [a; b]. split; assumption.
Qed.
Lemma flat_map_triples {B} (G : Z -> Z -> Z -> list B) (l : list tuple) x :
  In x (flat_map (fun tup => match tup with [k; a; b] => G k a b | _ => [] end) l) <-> exists k a b, In [k; a; b] l /\ In x (G k a b).
Proof.
  rewrite in_flat_map. split.
  - intros [tup [Ht Hx]]. destruct tup as [|k [|a [|b [|c r]]]]; try destruct Hx. exists k, a, b. split; assumption.
  - intros [k [a [b [Ht Hx]]]]. exists [k; a; b]. split; assumption.
Qed.

Lemma derive_sr2 db r0 f :
  In f (derive_rule I db (nth 0%nat (rules2 r0) {| heads := []; body := [] |})) <->
  exists a b, In [a; b] (db r0) /\ (f = (r0, [a; a]) \/ f = (r0, [b; b]) \/ f = (r0, [b; a])).
Proof.
  cbn [nth rules2]. unfold derive_rule. cbn [body heads all_envs]. rewrite in_flat_map. split.
  - intros [e [He Hf]]. apply in_flat_map in He. destruct He as [tup [Ht He]].
    destruct tup as [|a [|b [|c r]]]; cbn in He; try destruct He as [He|He]; try destruct He.
    exists a, b. split; [exact Ht|]. cbn in Hf. destruct Hf as [<-|[<-|[<-|[]]]]; auto.
  - intros [a [b [Ht Hf]]]. exists [Some a; Some b]. split.
    + apply in_flat_map. exists [a; b]. split; [exact Ht|]. cbn. left. reflexivity.
    + cbn. destruct Hf as [->|[->| ->]]; auto.
Qed.

Lemma derive_tr2 db r0 f :
  In f (derive_rule I db (nth 1%nat (rules2 r0) {| heads := []; body := [] |})) <->
  exists a b c, In [a; b] (db r0) /\ In [b; c] (db r0) /\ f = (r0, [a; c]).
Proof.
  cbn [nth rules2]. unfold derive_rule. cbn [body heads all_envs]. rewrite in_flat_map. split.
  - intros [e [He Hf]]. apply in_flat_map in He. destruct He as [tup [Ht He]].
    destruct tup as [|a [|b [|c r]]]; cbn in He; try destruct He.
    apply in_flat_map in He. destruct He as [tup2 [Ht2 He]].
    destruct tup2 as [|b' [|c [|d r]]]; cbn in He; try destruct He.
    + destruct (Z.eqb b b'); destruct He.
    + destruct (Z.eqb_spec b b') as [<-|]; [|destruct He]. cbn in He. destruct He as [<-|[]].
      exists a, b, c. split; [exact Ht|split; [exact Ht2|]]. cbn in Hf. destruct Hf as [<-|[]]. reflexivity.
    + destruct (Z.eqb b b'); destruct He.
  - intros [a [b [c [Ht [Ht2 ->]]]]]. exists [Some a; Some b; Some c]. split; [|cbn; left; reflexivity].
    apply in_flat_map. exists [a; b]. split; [exact Ht|]. cbn. apply in_flat_map. exists [b; c]. split; [exact Ht2|].
    cbn. rewrite Z.eqb_refl. cbn. left. reflexivity.
Qed.

Lemma closed_rules2 r0 M : closed I (rules2 r0) M <->
  (forall a b, In (r0, [a; b]) M -> In (r0, [a; a]) M /\ In (r0, [b; b]) M /\ In (r0, [b; a]) M)
  /\ (forall a b c, In (r0, [a; b]) M -> In (r0, [b; c]) M -> In (r0, [a; c]) M).
Proof.
  unfold closed, derives. split.
  - intros H. split.
    + intros a b Hab. apply in_db_of in Hab.
      repeat split; apply H; eexists; (split; [left; reflexivity|]); apply (derive_sr2 (db_of M) r0); exists a, b; (split; [exact Hab|]); auto.
    + intros a b c Hab Hbc. apply in_db_of in Hab. apply in_db_of in Hbc. apply H. eexists. split; [right; left; reflexivity|].
      apply (derive_tr2 (db_of M) r0). exists a, b, c. repeat split; assumption.
  - intros [H1 H2] f [r [Hr Hf]]. destruct Hr as [<-|[<-|[]]].
    + apply (derive_sr2 (db_of M) r0) in Hf. destruct Hf as [a [b [Hab Hf]]]. apply in_db_of in Hab. destruct (H1 a b Hab) as [Ha [Hb Hba]].
      destruct Hf as [->|[->| ->]]; assumption.
    + apply (derive_tr2 (db_of M) r0) in Hf. destruct Hf as [a [b [c [Hab [Hbc ->]]]]]. apply in_db_of in Hab. apply in_db_of in Hbc.
      eapply H2; eassumption.
Qed.

Lemma fm2_in M r0 a b : In (a, b) (fm T2 tuple dec2 (db_of M r0)) <-> In (r0, [a; b]) M.
Proof. rewrite (fm_in T2 tuple enc2 dec2 dec2_enc2 enc2_dec2). cbn [enc2 fst snd]. apply in_db_of. Qed.

Lemma cl_closed2_iff r0 M : cl_closed eqv_cl2 r0 M <-> closed I (rules2 r0) M.
Proof.
  rewrite closed_rules2. unfold cl_closed, eqv_cl2. split.
  - intros H.
    assert (Hc : forall a b, eqv_rel (fm T2 tuple dec2 (db_of M r0)) a b -> In (r0, [a; b]) M).
    { intros a b Hab. apply in_db_of. apply H. apply (tcl_in T2 tuple eqv enc2 dec2 dec2_enc2 enc2_dec2). left.
      exists (a, b). split; [reflexivity|]. apply eqv_spec. exact Hab. }
    split.
    + intros a b Hab. apply fm2_in in Hab. pose proof (eqv_base _ _ _ Hab) as E.
      repeat split; apply Hc; [eapply eqv_trans; [exact E|apply eqv_sym; exact E]|eapply eqv_trans; [apply eqv_sym; exact E|exact E]|apply eqv_sym; exact E].
    + intros a b c Hab Hbc. apply Hc. eapply eqv_trans; apply eqv_base; apply fm2_in; eassumption.
  - intros [H1 H2] u Hu. apply (tcl_in T2 tuple eqv enc2 dec2 dec2_enc2 enc2_dec2) in Hu. destruct Hu as [[[a b] [E Ht]]|[_ Hu]]; [|exact Hu].
    apply enc2_dec2 in E. subst u. cbn [enc2 fst snd]. apply in_db_of. apply eqv_spec in Ht.
    induction Ht as [a b Hin|a Hm|a b _ IH|a b c _ IH1 _ IH2].
    + apply fm2_in. exact Hin.
    + apply mentioned_spec in Hm. destruct Hm as [c [Hin|Hin]]; apply fm2_in in Hin; destruct (H1 _ _ Hin) as [Ha [Hb _]]; assumption.
    + apply (H1 _ _ IH).
    + eapply H2; eassumption.
Qed.

Theorem bridge_binary P r0 F0 M : least_model_cl I P eqv_cl2 r0 F0 M <-> least_model I (P ++ rules2 r0) F0 M.
Proof.
  unfold least_model_cl, least_model. rewrite closed_app, cl_closed2_iff. split.
  - intros [H1 [H2 [H3 H4]]]. split; [exact H1|]. split; [split; assumption|]. intros M' Hi Hc. apply closed_app in Hc. destruct Hc as [Hc1 Hc2].
    apply H4; [exact Hi|exact Hc1|apply cl_closed2_iff; exact Hc2].
  - intros [H1 [[H2 H3] H4]]. repeat split; try assumption. intros M' Hi Hc1 Hc2. apply H4; [exact Hi|]. apply closed_app. split; [exact Hc1|apply cl_closed2_iff; exact Hc2].
Qed.
Lemma derive_sr3 db r0 f :
  In f (derive_rule I db (nth 0%nat (rules3 r0) {| heads := []; body := [] |})) <->
  exists k a b, In [k; a; b] (db r0) /\ (f = (r0, [k; a; a]) \/ f = (r0, [k; b; b]) \/ f = (r0, [k; b; a])).
Proof.
  cbn [nth rules3]. unfold derive_rule. cbn [body heads all_envs]. rewrite in_flat_map. split.
  - intros [e [He Hf]]. apply in_flat_map in He. destruct He as [tup [Ht He]].
    destruct tup as [|k [|a [|b [|c r]]]]; cbn in He; try destruct He as [He|He]; try destruct He.
    exists k, a, b. split; [exact Ht|]. cbn in Hf. destruct Hf as [<-|[<-|[<-|[]]]]; auto.
  - intros [k [a [b [Ht Hf]]]]. exists [Some k; Some a; Some b]. split.
    + apply in_flat_map. exists [k; a; b]. split; [exact Ht|]. cbn. left. reflexivity.
    + cbn. destruct Hf as [->|[->| ->]]; auto.
Qed.

Lemma derive_tr3 db r0 f :
  In f (derive_rule I db (nth 1%nat (rules3 r0) {| heads := []; body := [] |})) <->
  exists k a b c, In [k; a; b] (db r0) /\ In [k; b; c] (db r0) /\ f = (r0, [k; a; c]).
Proof.
  cbn [nth rules3]. unfold derive_rule. cbn [body heads all_envs]. rewrite in_flat_map. split.
  - intros [e [He Hf]]. apply in_flat_map in He. destruct He as [tup [Ht He]].
    destruct tup as [|k [|a [|b [|c r]]]]; cbn in He; try destruct He.
    apply in_flat_map in He. destruct He as [tup2 [Ht2 He]].
    destruct tup2 as [|k' [|b' [|c [|d r]]]]; cbn in He; try destruct He.
    + destruct (Z.eqb k k'); destruct He.
    + destruct (Z.eqb k k'); [destruct (Z.eqb b b')|]; destruct He.
    + destruct (Z.eqb_spec k k') as [<-|]; [|destruct He]. destruct (Z.eqb_spec b b') as [<-|]; [|destruct He]. cbn in He. destruct He as [<-|[]].
      exists k, a, b, c. split; [exact Ht|split; [exact Ht2|]]. cbn in Hf. destruct Hf as [<-|[]]. reflexivity.
    + destruct (Z.eqb k k'); [destruct (Z.eqb b b')|]; destruct He.
  - intros [k [a [b [c [Ht [Ht2 ->]]]]]]. exists [Some k; Some a; Some b; Some c]. split; [|cbn; left; reflexivity].
    apply in_flat_map. exists [k; a; b]. split; [exact Ht|]. cbn. apply in_flat_map. exists [k; b; c]. split; [exact Ht2|].
    cbn. rewrite !Z.eqb_refl. cbn. left. reflexivity.
Qed.

Lemma closed_rules3 r0 M : closed I (rules3 r0) M <->
  (forall k a b, In (r0, [k; a; b]) M -> In (r0, [k; a; a]) M /\ In (r0, [k; b; b]) M /\ In (r0, [k; b; a]) M)
  /\ (forall k a b c, In (r0, [k; a; b]) M -> In (r0, [k; b; c]) M -> In (r0, [k; a; c]) M).
Proof.
  unfold closed, derives. split.
  - intros H. split.
    + intros k a b Hab. apply in_db_of in Hab.
      repeat split; apply H; eexists; (split; [left; reflexivity|]); apply (derive_sr3 (db_of M) r0); exists k, a, b; (split; [exact Hab|]); auto.
    + intros k a b c Hab Hbc. apply in_db_of in Hab. apply in_db_of in Hbc. apply H. eexists. split; [right; left; reflexivity|].
      apply (derive_tr3 (db_of M) r0). exists k, a, b, c. repeat split; assumption.
  - intros [H1 H2] f [r [Hr Hf]]. destruct Hr as [<-|[<-|[]]].
    + apply (derive_sr3 (db_of M) r0) in Hf. destruct Hf as [k [a [b [Hab Hf]]]]. apply in_db_of in Hab. destruct (H1 k a b Hab) as [Ha [Hb Hba]].
      destruct Hf as [->|[->| ->]]; assumption.
    + apply (derive_tr3 (db_of M) r0) in Hf. destruct Hf as [k [a [b [c [Hab [Hbc ->]]]]]]. apply in_db_of in Hab. apply in_db_of in Hbc.
      eapply H2; eassumption.
Qed.

Lemma fm3_in M r0 k a b : In (a, b) (Ternary.proj T2 k (fm T3z tuple dec3 (db_of M r0))) <-> In (r0, [k; a; b]) M.
Proof. rewrite Ternary.proj_in, (fm_in T3z tuple enc3 dec3 dec3_enc3 enc3_dec3). cbn [enc3 fst snd]. apply in_db_of. Qed.

Lemma cl_closed3_iff r0 M : cl_closed eqv_cl3 r0 M <-> closed I (rules3 r0) M.
Proof.
  rewrite closed_rules3. unfold cl_closed, eqv_cl3. split.
  - intros H.
    assert (Hc : forall k a b, eqv_rel (Ternary.proj T2 k (fm T3z tuple dec3 (db_of M r0))) a b -> In (r0, [k; a; b]) M).
    { intros k a b Hab. apply in_db_of. apply H. apply (tcl_in T3z tuple eqv3 enc3 dec3 dec3_enc3 enc3_dec3). left.
      exists (k, (a, b)). split; [reflexivity|]. apply (cl3_in T2 eqv eqv_closure_op). apply eqv_spec. exact Hab. }
    split.
    + intros k a b Hab. apply fm3_in in Hab. pose proof (eqv_base _ _ _ Hab) as E.
      repeat split; apply Hc; [eapply eqv_trans; [exact E|apply eqv_sym; exact E]|eapply eqv_trans; [apply eqv_sym; exact E|exact E]|apply eqv_sym; exact E].
    + intros k a b c Hab Hbc. apply Hc. eapply eqv_trans; apply eqv_base; apply fm3_in; eassumption.
  - intros [H1 H2] u Hu. apply (tcl_in T3z tuple eqv3 enc3 dec3 dec3_enc3 enc3_dec3) in Hu. destruct Hu as [[[k [a b]] [E Ht]]|[_ Hu]]; [|exact Hu].
    apply enc3_dec3 in E. subst u. cbn [enc3 fst snd]. apply in_db_of. apply (cl3_in T2 eqv eqv_closure_op) in Ht. apply eqv_spec in Ht.
    induction Ht as [a b Hin|a Hm|a b _ IH|a b c _ IH1 _ IH2].
    + apply fm3_in. exact Hin.
    + apply mentioned_spec in Hm. destruct Hm as [c [Hin|Hin]]; apply fm3_in in Hin; destruct (H1 _ _ _ Hin) as [Ha [Hb _]]; assumption.
    + apply (H1 _ _ _ IH).
    + eapply H2; eassumption.
Qed.

Theorem bridge_ternary P r0 F0 M : least_model_cl I P eqv_cl3 r0 F0 M <-> least_model I (P ++ rules3 r0) F0 M.
Proof.
  unfold least_model_cl, least_model. rewrite closed_app, cl_closed3_iff. split.
  - intros [H1 [H2 [H3 H4]]]. split; [exact H1|]. split; [split; assumption|]. intros M' Hi Hc. apply closed_app in Hc. destruct Hc as [Hc1 Hc2].
    apply H4; [exact Hi|exact Hc1|apply cl_closed3_iff; exact Hc2].
  - intros [H1 [[H2 H3] H4]]. repeat split; try assumption. intros M' Hi Hc1 Hc2. apply H4; [exact Hi|]. apply closed_app. split; [exact Hc1|apply cl_closed3_iff; exact Hc2].
Qed.
End Bridge.

Print Assumptions program_binary. Print Assumptions program_ternary. Print Assumptions bridge_binary. Print Assumptions bridge_ternary.
