(* C11 — RelIndexRead::is_empty of the trrel views ("is the relation DEFINITELY empty").

   Generated code consults it: compile_mir_rule (ascent_codegen.rs) wraps every rule that has more than one body
   clause and is not a plain two-clause simple join in
       let any_rel_empty = r1.is_empty() || r2.is_empty() || ..;  if !any_rel_empty { <rule> }
   so a view that answers `true` while it has something to serve silently removes a whole rule evaluation (in a
   recursive stratum: for good, the delta is never offered again).  The closure property C11 therefore needs, of every
   view of both versions:   is_empty() = true  ->  the view serves nothing   (and then skipping = evaluating).

   The answers of the code, as mirrored by the observation functions of Byods/TrRelModel.v (every slot is tied to the
   real provider on every history of the check, key-heavy histories included):
     binary   full / [0] / [1]                : the pair map is empty            none     : false (trait default)
     ternary  full / [0] / [0,1] / [0,2]      : the per-key map is empty         none     : false (trait default)
     ternary  [1] : reverse_map1 is empty     [2] : reverse_map2 is empty        [1,2]    : false (trait default)
   In particular the [1,2] view — the one whose len_estimate is a rounded heuristic,
   |column-1 values| * |column-2 values| / floor(sqrt(|keys|)) — does not derive an answer from that estimate.

   Here: the flags by name, the observation functions restated with them (by computation), and the soundness of every
   flag, for EVERY version value (no reachability needed): a flag that is true forces every reading of its view to be
   empty; along protocol histories moreover the version itself then holds no tuple (views are exact,
   TrRelTernary.rev_views_exact). *)
From Coq Require Import List ZArith Bool Lia.
From AV Require Import Byods.TrRelModel.
From AV Require Import Byods.TrRelTernary.
Import ListNotations.
Open Scope Z_scope.

(* ------------------------------------------------------------------ the flags *)

Definition b_is_empty_keyed (r : brel) : bool := isnil r.          (* TrRelIndFull / TrRelInd0 / TrRelInd1 *)
Definition b_is_empty_none (r : brel) : bool := false.              (* TrRelIndNone: trait default *)
Definition t_is_empty_fwd (v : tver) : bool := isnil (t_map v).     (* TrRel2IndFull / 0 / 0_1 / 0_2 *)
Definition t_is_empty_none (v : tver) : bool := false.              (* TrRel2IndNone: trait default *)
Definition t_is_empty_i1 (v : tver) : bool := isnil (t_rev1 v).     (* TrRel2Ind1 *)
Definition t_is_empty_i2 (v : tver) : bool := isnil (t_rev2 v).     (* TrRel2Ind2 *)
Definition t_is_empty_i12 (v : tver) : bool := false.               (* TrRel2Ind1_2: trait default *)

(* the observation functions of the model are these flags, slot by slot *)
Lemma observe_brel_flags n r :
  observe_brel n r =
  bobs n (v_full_contains n r) ++ bobs n (v_full_get n r) ++ bobs n (v_full_iter r) ++ [Z.b2z (b_is_empty_keyed r)]
  ++ bobs n (v_none r) ++ bobs n (v_none r) ++ [Z.b2z (b_is_empty_none r)]
  ++ bobs n (v_i0_get n r) ++ bobs n (v_i0_iter r) ++ [Z.b2z (b_is_empty_keyed r)]
  ++ bobs n (v_i1_get n r) ++ bobs n (v_i1_iter r) ++ [Z.b2z (b_is_empty_keyed r)]
  ++ [0; 0; 0; 0].
Proof. reflexivity. Qed.

Lemma observe_tver_fwd_flags keys n v :
  observe_tver_fwd keys n v =
  tobs n (tv_full_contains keys n v) ++ tobs n (tv_full_contains keys n v) ++ tobs n (tall v) ++ [Z.b2z (t_is_empty_fwd v)]
  ++ tobs n (tall v) ++ tobs n (tall v) ++ [Z.b2z (t_is_empty_none v)]
  ++ tobs n (tv_i0_get keys v) ++ tobs n (tall v) ++ [Z.b2z (t_is_empty_fwd v)]
  ++ tobs n (tv_i01_get keys n v) ++ tobs n (tv_i01_iter v) ++ [Z.b2z (t_is_empty_fwd v)]
  ++ tobs n (tv_i02_get keys n v) ++ tobs n (tv_i02_iter v) ++ [Z.b2z (t_is_empty_fwd v)]
  ++ [0; 0; 0; 0; 0].
Proof. reflexivity. Qed.

Lemma observe_tver_rev_flags n v :
  observe_tver_rev n v =
  opt_app (opt_tobs n (tv_i1_get n v)) (opt_app (opt_tobs n (tv_i1_iter v)) (opt_app (Some [Z.b2z (t_is_empty_i1 v)])
  (opt_app (opt_tobs n (tv_i2_get n v)) (opt_app (opt_tobs n (tv_i2_iter v)) (opt_app (Some [Z.b2z (t_is_empty_i2 v)])
  (opt_app (opt_tobs n (tv_i12_get n v)) (opt_app (opt_tobs n (tv_i12_iter v))
     (Some [Z.b2z (t_is_empty_i12 v); 0; 0; Z.b2z (i12_len_estimate_panics v)])))))))).
Proof. reflexivity. Qed.

(* ------------------------------------------------------------------ helpers *)

Lemma isnil_true {A} (l : list A) : isnil l = true -> l = [].
Proof. destruct l; [reflexivity | discriminate]. Qed.

Lemma filter_none {A} (f : A -> bool) l : (forall a, f a = false) -> filter f l = [].
Proof. intros H. induction l as [|a l IH]; cbn; [reflexivity|]. rewrite H. exact IH. Qed.

Lemma flat_map_nil {A B} (f : A -> list B) l : (forall a, f a = []) -> flat_map f l = [].
Proof. intros H. induction l as [|a l IH]; cbn; [reflexivity|]. rewrite H, IH. reflexivity. Qed.

Lemma opt_concat_all_nil {A B} (f : A -> option (list B)) l :
  (forall a, f a = Some []) -> opt_concat (map f l) = Some [].
Proof. intros H. induction l as [|a l IH]; cbn; [reflexivity|]. rewrite H, IH. reflexivity. Qed.

(* ------------------------------------------------------------------ binary form *)

Theorem b_is_empty_keyed_sound n r :
  b_is_empty_keyed r = true ->
  v_full_contains n r = [] /\ v_full_get n r = [] /\ v_full_iter r = [] /\
  v_i0_get n r = [] /\ v_i0_iter r = [] /\ v_i1_get n r = [] /\ v_i1_iter r = [].
Proof.
  intros H. apply isnil_true in H. subst r.
  unfold v_full_contains, v_full_get, v_full_iter, v_i0_get, v_i0_iter, v_i1_get, v_i1_iter.
  repeat split; try reflexivity.
  - apply filter_none. intros a. reflexivity.
  - apply filter_none. intros a. reflexivity.
  - apply flat_map_nil. intros a. reflexivity.
  - apply flat_map_nil. intros a. reflexivity.
Qed.

Theorem b_is_empty_none_sound r : b_is_empty_none r = true -> v_none r = [].
Proof. discriminate. Qed.

(* ------------------------------------------------------------------ ternary form, forward views *)

Theorem t_is_empty_fwd_sound keys n v :
  t_is_empty_fwd v = true ->
  tall v = [] /\ tv_full_contains keys n v = [] /\ tv_i0_get keys v = [] /\
  tv_i01_get keys n v = [] /\ tv_i01_iter v = [] /\ tv_i02_get keys n v = [] /\ tv_i02_iter v = [].
Proof.
  unfold t_is_empty_fwd. intros H. apply isnil_true in H.
  unfold tall, tv_full_contains, tv_i0_get, tv_i01_get, tv_i01_iter, tv_i02_get, tv_i02_iter, tcontains, kget.
  rewrite H. cbn [flat_map klookup].
  repeat split; try reflexivity.
  - apply filter_none. intros [[k x] y]. reflexivity.
  - apply flat_map_nil. intros k. reflexivity.
  - apply flat_map_nil. intros k. apply flat_map_nil. intros x. reflexivity.
  - apply flat_map_nil. intros k. apply flat_map_nil. intros y. reflexivity.
Qed.

(* no tuple at all: the version is empty *)
Theorem t_is_empty_fwd_no_tuple v t : t_is_empty_fwd v = true -> ~ has v t.
Proof.
  unfold t_is_empty_fwd, has, kget. intros H. apply isnil_true in H. rewrite H. cbn. intros [].
Qed.

(* ------------------------------------------------------------------ ternary form, reverse-map views *)

Lemma rev_keys_nil x : rev_keys x [] = [].
Proof. reflexivity. Qed.

Theorem t_is_empty_i1_sound n v :
  t_is_empty_i1 v = true -> tv_i1_get n v = Some [] /\ tv_i1_iter v = Some [].
Proof.
  unfold t_is_empty_i1. intros H. apply isnil_true in H.
  unfold tv_i1_get, tv_i1_iter. rewrite H. split; [|reflexivity].
  apply opt_concat_all_nil. intros x. unfold tv_i1_get1. rewrite H. reflexivity.
Qed.

Theorem t_is_empty_i2_sound n v :
  t_is_empty_i2 v = true -> tv_i2_get n v = Some [] /\ tv_i2_iter v = Some [].
Proof.
  unfold t_is_empty_i2. intros H. apply isnil_true in H.
  unfold tv_i2_get, tv_i2_iter. rewrite H. split; [|reflexivity].
  apply opt_concat_all_nil. intros x. unfold tv_i2_get1. rewrite H. reflexivity.
Qed.

Theorem t_is_empty_none_i12_sound n v :
  (t_is_empty_none v = true -> tall v = []) /\
  (t_is_empty_i12 v = true -> tv_i12_get n v = Some [] /\ tv_i12_iter v = Some []).
Proof. split; discriminate. Qed.

(* along every protocol history, for both versions: whichever view answers is_empty() = true, the version holds no
   tuple — skipping a rule on that answer loses nothing *)
Theorem t_is_empty_definite b ops st ins :
  trun b true tempty [] ops = Some (st, ins) ->
  forall v, v = t_total st \/ v = t_delta st ->
  t_is_empty_fwd v = true \/ t_is_empty_none v = true \/ t_is_empty_i1 v = true \/ t_is_empty_i2 v = true \/ t_is_empty_i12 v = true ->
  forall t, ~ has v t.
Proof.
  intros Hrun v Hv Hflag t Hhas.
  destruct (rev_views_exact b ops st ins Hrun v Hv) as (E1 & E2 & _).
  destruct Hflag as [H|[H|[H|[H|H]]]]; try discriminate.
  - exact (t_is_empty_fwd_no_tuple v t H Hhas).
  - destruct (E1 (snd (fst t))) as (l & Hl & Hin).
    unfold t_is_empty_i1 in H. apply isnil_true in H.
    unfold tv_i1_get1 in Hl. rewrite H in Hl. cbn in Hl. injection Hl as <-.
    apply (proj2 (Hin t)). split; [exact Hhas | reflexivity].
  - destruct (E2 (snd t)) as (l & Hl & Hin).
    unfold t_is_empty_i2 in H. apply isnil_true in H.
    unfold tv_i2_get1 in Hl. rewrite H in Hl. cbn in Hl. injection Hl as <-.
    apply (proj2 (Hin t)). split; [exact Hhas | reflexivity].
Qed.
