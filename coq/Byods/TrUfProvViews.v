(* C12 — the keyed views of the trrel_uf provider on every history: index [0] / [1] of the binary form (ind0 / ind1 index_get and
   iter_all of TrRelIndCommon, for a Delta through TrRelDelta's views) and index [0], [0,1], [0,2] of the ternary adaptor serve,
   for their key, exactly what the full index of the same version serves (laws P4 of Byods/Provider.v: complete and sound per
   version, no over-approximation).  Together with TrUfProvLaws.pu_served / TrUfProvTernary.pt_served this determines them. *)
From Coq Require Import List Arith Bool Lia ZArith.
From AV Require Import UF.UfBase.
From AV Require Import UF.TrUfModel.
From AV Require Import UF.TrUfInv.
From AV Require Import UF.TrUfLemmas.
From AV Require Import UF.TrUfQueries.
From AV Require Import UF.TrUfCases.
From AV Require Import UF.TrUfStep.
From AV Require Import UF.TrUfProofs.
From AV Require Import Byods.TrUfProvModel.
From AV Require Import Byods.TrUfProvProofs.
From AV Require Import Byods.TrUfProvComplete.
From AV Require Import Byods.Provider.
From AV Require Import Byods.TrUfProvLaws.
From AV Require Import Byods.TrUfProvTernary.
Import ListNotations.

(* the pair a keyed view with key x contributes for a value y: index [0] (rev = false) / index [1] (rev = true) *)
Definition opair (rev : bool) (x y : nat) : nat * nat := if rev then (y, x) else (x, y).

(* the keyed views of one version agree with its full view l *)
Definition keyed_ok (c : common) (l : list (nat * nat)) : Prop :=
  forall rev,
    (forall x, exists o, c_ind_get rev c x = Ok o /\
       (forall ys, o = Some ys -> forall y, In y ys <-> In (opair rev x y) l) /\
       (o = None -> forall y, ~ In (opair rev x y) l)) /\
    (exists L, c_ind_iter_all rev c = Ok L /\
       (forall x ys, In (x, ys) L -> forall y, In y ys <-> In (opair rev x y) l) /\
       (forall x y, In (opair rev x y) l -> exists ys, In (x, ys) L)).

(* ================================================================== a Delta *)
Section DeltaViews.
  Variables (d : trdelta) (E : list (nat * nat)).
  Notation st := (d_total d).
  Hypothesis HE : tinv_weak E st.

  Lemma d_ind_get_exact : forall m, vmap st m -> forall x, exists o, d_ind_get d m x = Ok o /\
    (forall l, o = Some l -> forall y, In y l <-> dsv st m x y) /\ (o = None -> forall y, ~ dsv st m x y).
  Proof.
    intros m Hv x. unfold d_ind_get.
    destruct (elem_set_cases E st HE x) as [[Hex Hnx]|[dx [Hex [_ [Mx _]]]]]; rewrite Hex; cbn [bind].
    { exists None. split; [reflexivity|]. split; [discriminate|]. intros _ y [a [b [Ma _]]]. apply Hnx. eapply mem_mentioned; eassumption. }
    destruct (aget dx m) as [cs|] eqn:Hc.
    - pose proof (aget_in _ _ _ _ Hc) as Hin. rewrite sets_of_ok by (apply (Hv _ _ Hin)). cbn [bind].
      eexists. split; [reflexivity|]. split; [|discriminate]. intros l El y. inversion El; subst l. rewrite in_concat_gs. split.
      + intros [b [Hb Mb]]. exists dx, b. split; [exact Mx|]. split; [exact Mb|]. unfold mhas, eget. rewrite Hc. apply smem_in; exact Hb.
      + intros [a [b [Ma [Mb Hab]]]]. assert (a = dx) by (eapply (mem_disj E st HE); eassumption). subst a.
        exists b. split; [|exact Mb]. unfold mhas, eget in Hab. rewrite Hc in Hab. apply smem_in; exact Hab.
    - exists None. split; [reflexivity|]. split; [discriminate|]. intros _ y [a [b [Ma [Mb Hab]]]].
      assert (a = dx) by (eapply (mem_disj E st HE); eassumption). subst a. unfold mhas, eget in Hab. rewrite Hc in Hab. discriminate.
  Qed.

  Lemma d_ind_iter_all_exact : forall m, NoDup (map fst m) -> vmap st m -> exists L, d_ind_iter_all d m = Ok L /\
    (forall x ys, In (x, ys) L -> forall y, In y ys <-> dsv st m x y) /\ (forall x y, dsv st m x y -> exists ys, In (x, ys) L).
  Proof.
    intros m Hnd Hv. unfold d_ind_iter_all.
    rewrite (mapM_ok _ _ _ (fun kv => map (fun x => (x, concat (map (gs st) (snd kv)))) (gs st (fst kv))) m).
    - cbn [bind]. eexists; split; [reflexivity|]. split.
      + intros x ys Hin y. apply in_concat in Hin. destruct Hin as [l [Hl Hx]]. apply in_map_iff in Hl. destruct Hl as [[k s] [<- Hk]].
        cbn [fst snd] in Hx. apply in_map_iff in Hx. destruct Hx as [x' [Heq Hx']]. inversion Heq; subst x' ys.
        apply mem_of_gs in Hx'. rewrite in_concat_gs. split.
        * intros [b [Hb Mb]]. exists k, b. split; [exact Hx'|]. split; [exact Mb|]. eapply binding_mhas; eassumption.
        * intros [a [b [Ma [Mb Hab]]]]. assert (a = k) by (eapply (mem_disj E st HE); eassumption). subst a.
          destruct (mhas_binding _ _ _ Hab) as [s' [Hs' Hb]]. rewrite (in_aget _ _ _ _ Hnd Hk) in Hs'. inversion Hs'; subst s'. exists b. auto.
      + intros x y [a [b [Ma [Mb Hab]]]]. destruct (mhas_binding _ _ _ Hab) as [s [Hs _]]. apply aget_in in Hs.
        eexists. apply in_concat. exists (map (fun x0 => (x0, concat (map (gs st) s))) (gs st a)). split.
        * apply in_map_iff. exists (a, s). split; [reflexivity|exact Hs].
        * apply in_map_iff. exists x. split; [reflexivity|apply mem_of_gs; exact Ma].
    - intros [k s] Hk. cbn [fst snd]. destruct (Hv _ _ Hk) as [Hkl Hsl].
      rewrite set_at_ok by exact Hkl. cbn [bind]. rewrite sets_of_ok by exact Hsl. reflexivity.
  Qed.

  Hypothesis Nc : NoDup (map fst (d_conn d)).
  Hypothesis Nr : NoDup (map fst (d_rev d)).
  Hypothesis Vc : vmap st (d_conn d).
  Hypothesis Vr : vmap st (d_rev d).
  Hypothesis Cv : forall a b, mhas a b (d_conn d) = mhas b a (d_rev d).

  Lemma dsv_rev : forall x y, dsv st (d_rev d) x y <-> dsv st (d_conn d) y x.
  Proof.
    intros x y. unfold dsv. split; intros [a [b [Ma [Mb Hab]]]]; exists b, a; (split; [exact Mb|]); (split; [exact Ma|]);
      [rewrite Cv|rewrite <- Cv]; exact Hab.
  Qed.

  Lemma delta_keyed : forall l, (forall x y, In (x, y) l <-> dsv st (d_conn d) x y) -> keyed_ok (CDelta d) l.
  Proof.
    intros l Hl rev. cbn [c_ind_get c_ind_iter_all]. destruct rev; cbn [opair].
    - split.
      + intros x. destruct (d_ind_get_exact (d_rev d) Vr x) as [o [Ho [H1 H2]]]. exists o. split; [exact Ho|]. split.
        * intros ys Eo y. rewrite (H1 ys Eo y), Hl. apply dsv_rev.
        * intros Eo y Hy. apply (H2 Eo y). apply dsv_rev. apply Hl. exact Hy.
      + destruct (d_ind_iter_all_exact (d_rev d) Nr Vr) as [L [HL [H1 H2]]]. exists L. split; [exact HL|]. split.
        * intros x ys Hin y. rewrite (H1 x ys Hin y), Hl. apply dsv_rev.
        * intros x y Hy. apply (H2 x y). apply dsv_rev. apply Hl. exact Hy.
    - split.
      + intros x. destruct (d_ind_get_exact (d_conn d) Vc x) as [o [Ho [H1 H2]]]. exists o. split; [exact Ho|]. split.
        * intros ys Eo y. rewrite (H1 ys Eo y), Hl. reflexivity.
        * intros Eo y Hy. apply (H2 Eo y). apply Hl. exact Hy.
      + destruct (d_ind_iter_all_exact (d_conn d) Nc Vc) as [L [HL [H1 H2]]]. exists L. split; [exact HL|]. split.
        * intros x ys Hin y. rewrite (H1 x ys Hin y), Hl. reflexivity.
        * intros x y Hy. apply (H2 x y). apply Hl. exact Hy.
  Qed.
End DeltaViews.

(* ================================================================== a Total-shaped version *)
Lemma total_keyed : forall E t l, tinv_weak E t -> (forall x y, In (x, y) l <-> rtc E x y) -> keyed_ok (CTotal t) l.
Proof.
  intros E t l H Hl rev. destruct (total_exact _ E t H) as [_ [_ [H3 [H4 [H5 H6]]]]].
  destruct rev; cbn [opair].
  - split.
    + intros x. destruct (H4 x) as [o [Ho [Hn Hs]]]. exists o. split; [exact Ho|]. split.
      * intros ys Eo y. rewrite Hl. apply (proj2 (Hs ys Eo)).
      * intros Eo y Hy. apply Hl in Hy. apply (proj1 Hn Eo). apply (rtc_mentioned _ _ _ Hy).
    + destruct H6 as [L [HL [Hk Hs]]]. exists L. split; [exact HL|]. split.
      * intros x ys Hin y. rewrite Hl. apply (Hs x ys Hin y).
      * intros x y Hy. apply Hl in Hy. assert (Hx : In x (map fst L)) by (apply Hk; apply (rtc_mentioned _ _ _ Hy)).
        apply in_map_iff in Hx. destruct Hx as [[x' ys] [Ex Hin]]. cbn in Ex. subst x'. exists ys; exact Hin.
  - split.
    + intros x. destruct (H3 x) as [o [Ho [Hn Hs]]]. exists o. split; [exact Ho|]. split.
      * intros ys Eo y. rewrite Hl. apply (proj2 (Hs ys Eo)).
      * intros Eo y Hy. apply Hl in Hy. apply (proj1 Hn Eo). apply (rtc_mentioned _ _ _ Hy).
    + destruct H5 as [L [HL [Hk Hs]]]. exists L. split; [exact HL|]. split.
      * intros x ys Hin y. rewrite Hl. apply (Hs x ys Hin y).
      * intros x y Hy. apply Hl in Hy. assert (Hx : In x (map fst L)) by (apply Hk; apply (rtc_mentioned _ _ _ Hy)).
        apply in_map_iff in Hx. destruct Hx as [[x' ys] [Ex Hin]]. cbn in Ex. subst x'. exists ys; exact Hin.
Qed.

(* ================================================================== both versions of a reachable state *)
Lemma shape_keyed : forall g d t, shape g d t -> keyed_ok d (itl d) /\ keyed_ok t (itl t).
Proof.
  intros g d t [U Eu HU _ _|dd Et HE Nd Hv [Hvr [Ndr Hcv]] _ _ _ _].
  - split.
    + destruct (total_iter_all Eu U HU) as [l [Hl Hi]]. rewrite (itl_ok _ _ Hl). apply (total_keyed Eu U l HU Hi).
    + destruct (total_iter_all [] tr_empty tr_empty_inv) as [l [Hl Hi]]. rewrite (itl_ok _ _ Hl). apply (total_keyed [] tr_empty l tr_empty_inv Hi).
  - split.
    + destruct (delta_iter_all dd Nd Hv) as [l [Hl Hi]]. rewrite (itl_ok _ _ Hl). apply (delta_keyed dd Et HE Nd Ndr Hv Hvr Hcv l Hi).
    + destruct (total_iter_all Et _ HE) as [l [Hl Hi]]. rewrite (itl_ok _ _ Hl). apply (total_keyed Et _ l HE Hi).
Qed.

Lemma absent_keyed : forall g t, absent g t -> keyed_ok t (itl t).
Proof.
  intros g t [tt [Et [-> [HE _]]]]. destruct (total_iter_all Et tt HE) as [l [Hl Hi]]. rewrite (itl_ok _ _ Hl). apply (total_keyed Et tt l HE Hi).
Qed.

(* ---- the binary form, every history *)
Theorem pu_keyed : forall h v, qhist h -> keyed_ok (pu_ver (run T2 PU h) v) (p_read T2 PU (run T2 PU h) v).
Proof.
  intros h v Hq. pose proof (Inv_run h Hq) as [_ Hs]. cbn [PU p_read]. destruct (run T2 PU h) as [[n d] t]. cbn [fst snd] in Hs.
  destruct (shape_keyed _ _ _ Hs) as [Kd Kt]. unfold pu_read. destruct v; cbn [pu_ver]; [exact Kt|exact Kd].
Qed.

(* ---- the ternary form, every history: index [0], [0,1] (rev = false), [0,2] (rev = true) *)
Section TernViews.
Variables has1 has2 : bool.
Notation PTh := (PT has1 has2).

Lemma ver_keyed : forall s g v, KI has1 has2 s g -> forall k c, aget k (tm (pt_ver s v)) = Some c -> keyed_ok c (itl c).
Proof.
  intros [[N D] Tt] g v [_ [_ [_ HK]]] k c Hc. destruct (HK k) as [_ Hs]. destruct v; cbn [pt_ver] in Hc.
  - rewrite Hc in Hs. cbn [nget] in Hs. destruct (aget k (tm D)) as [d|]; cbn [kshape] in Hs.
    + apply (shape_keyed _ _ _ Hs).
    + apply (absent_keyed _ _ Hs).
  - rewrite Hc in Hs. cbn [kshape] in Hs. apply (shape_keyed _ _ _ Hs).
Qed.

Theorem pt_keyed : forall h v, qhist3 h ->
  let s := run T3 PTh h in let t := pt_ver s v in
  (forall k, exists o, t_i0_get t k = Ok o /\
     (forall l, o = Some l -> forall p, In p l <-> In (k, p) (p_read T3 PTh s v)) /\ (o = None -> forall p, ~ In (k, p) (p_read T3 PTh s v))) /\
  (forall rev k x, exists o, t_i0x_get rev t k x = Ok o /\
     (forall ys, o = Some ys -> forall y, In y ys <-> In (k, opair rev x y) (p_read T3 PTh s v)) /\
     (o = None -> forall y, ~ In (k, opair rev x y) (p_read T3 PTh s v))) /\
  (forall rev, exists L, t_i0x_all rev t = Ok L /\
     (forall k x ys, In (k, x, ys) L -> forall y, In y ys <-> In (k, opair rev x y) (p_read T3 PTh s v)) /\
     (forall k x y, In (k, opair rev x y) (p_read T3 PTh s v) -> exists ys, In (k, x, ys) L)).
Proof.
  intros h v Hq s t. pose proof (KI_run has1 has2 h Hq) as HK. fold s in HK.
  destruct (pt_read_osrv has1 has2 s _ v HK) as [_ [Hos _]]. destruct (ver_reads has1 has2 s _ v HK) as [Hnd Hr]. fold t in Hos, Hnd, Hr.
  assert (Hin : forall k p, In (k, p) (p_read T3 PTh s v) <-> osrv (aget k (tm t)) (fst p) (snd p)).
  { intros k [x y]. cbn [PT p_read fst snd]. apply Hos. }
  split; [|split].
  - intros k. unfold t_i0_get. destruct (aget k (tm t)) as [c|] eqn:Hc.
    + destruct (Hr k c Hc) as [l [Hl _]]. rewrite Hl. cbn [bind]. eexists. split; [reflexivity|]. split; [|discriminate].
      intros l' El [x y]. inversion El; subst l'. rewrite Hin, Hc, osrv_some, (itl_ok _ _ Hl). reflexivity.
    + exists None. split; [reflexivity|]. split; [discriminate|]. intros _ p Hp. apply Hin in Hp. rewrite Hc in Hp. exact (osrv_none _ _ Hp).
  - intros rev k x. unfold t_i0x_get. destruct (aget k (tm t)) as [c|] eqn:Hc.
    + destruct (proj1 (ver_keyed s _ v HK k c Hc rev) x) as [o [Ho [H1 H2]]]. exists o. split; [exact Ho|]. split.
      * intros ys Eo y. rewrite (H1 ys Eo y), Hin, Hc, osrv_some. destruct rev; reflexivity.
      * intros Eo y Hy. apply (H2 Eo y). apply Hin in Hy. rewrite Hc in Hy. apply osrv_some in Hy. destruct rev; exact Hy.
    + exists None. split; [reflexivity|]. split; [discriminate|]. intros _ y Hy. apply Hin in Hy. rewrite Hc in Hy. exact (osrv_none _ _ Hy).
  - intros rev. unfold t_i0x_all.
    set (Lf := fun c => match c_ind_iter_all rev c with Ok l => l | Err _ => [] end).
    rewrite (mapM_ok _ _ _ (fun kc => map (fun xv => (fst kc, fst xv, snd xv)) (Lf (snd kc))) (tm t)).
    + cbn [bind]. eexists. split; [reflexivity|]. split.
      * intros k x ys Hl y. apply in_concat in Hl. destruct Hl as [l [Hl Hx]]. apply in_map_iff in Hl. destruct Hl as [[k' c] [<- Hkc]].
        cbn [fst snd] in Hx. apply in_map_iff in Hx. destruct Hx as [[x' ys'] [Ex Hx]]. cbn [fst snd] in Ex. inversion Ex; subst k' x' ys'.
        pose proof (in_aget _ _ _ _ Hnd Hkc) as Hc. destruct (proj2 (ver_keyed s _ v HK k c Hc rev)) as [L [HL [H1 _]]].
        unfold Lf in Hx. rewrite HL in Hx. rewrite (H1 x ys Hx y), Hin, Hc, osrv_some. destruct rev; reflexivity.
      * intros k x y Hy. apply Hin in Hy. destruct (aget k (tm t)) as [c|] eqn:Hc; [|exfalso; exact (osrv_none _ _ Hy)].
        apply osrv_some in Hy. destruct (proj2 (ver_keyed s _ v HK k c Hc rev)) as [L [HL [_ H2]]].
        destruct (H2 x y) as [ys Hys]; [destruct rev; exact Hy|]. exists ys. apply in_concat.
        exists (map (fun xv => (k, fst xv, snd xv)) (Lf c)). split.
        -- apply in_map_iff. exists (k, c). split; [reflexivity|apply aget_in; exact Hc].
        -- apply in_map_iff. exists (x, ys). split; [reflexivity|]. unfold Lf. rewrite HL. exact Hys.
    + intros [k c] Hkc. cbn [fst snd]. pose proof (in_aget _ _ _ _ Hnd Hkc) as Hc.
      destruct (proj2 (ver_keyed s _ v HK k c Hc rev)) as [L [HL _]]. unfold Lf. rewrite HL. reflexivity.
Qed.
End TernViews.
