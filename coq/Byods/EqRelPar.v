(* C10 — the parallel wrapper (ceqrel_ind.rs CEqRelIndCommon): total and delta are frozen (old, combined) pairs,
   `new` is a mutex-protected EqRel.  One insertion = lock; add; unlock = ONE atomic step, so every schedule of
   the worker threads of an iteration is some sequence of insertions, i.e. some history; the theorem below is
   for every history.  The wrapper never panics on the protocol generated code follows (the Frozen / Unfrozen
   shape is an invariant) and is, step for step, the serial provider. *)
From Coq Require Import List Arith Bool ZArith Lia.
From AV Require Import Byods.EqRelModel.
From AV Require Import Byods.EqRelUF.
From AV Require Import Byods.Closure.
From AV Require Import Byods.Provider.
From AV Require Import Byods.EqRelProofs.
Import ListNotations.

Definition frozen_of (c : ceqc) : eqc := match c with CFrozen p => p | CUnfrozen e => mkC e_empty e end.
Definition pabs (s : pstate) : bstate :=
  mkB (frozen_of (EqRelModel.p_new s)) (frozen_of (EqRelModel.p_delta s)) (frozen_of (EqRelModel.p_total s)).
Definition shaped (s : pstate) : Prop :=
  (exists e, EqRelModel.p_new s = CUnfrozen e) /\ (exists d, EqRelModel.p_delta s = CFrozen d) /\ (exists t, EqRelModel.p_total s = CFrozen t).

(* a panic (wrong variant) would leave the state unchanged; the theorem shows it never happens *)
Definition par_ins (s : pstate) (t : T2) : pstate * bool :=
  match p_insert s (fst t) (snd t) with Ok r => r | Panic => (s, false) end.
Definition par_merge (s : pstate) : pstate := match EqRelModel.p_merge s with Ok s' => s' | Panic => s end.

(* reads go through unwrap_frozen and then the same view functions as the serial form *)
Definition eqrel_par : provider T2 :=
  {| St := pstate; p_init := EqRelModel.p_init;
     p_ins := par_ins; p_merge := par_merge; p_restart := EqRelModel.p_restart;
     p_read := fun s v => p_read T2 eqrel_binary (pabs s) v;
     p_contains := fun s v t => p_contains T2 eqrel_binary (pabs s) v t;
     View := bview; Ix := bix;
     p_get := fun s v vk => bget (pabs s) v vk;
     p_all := fun s v ix => ball (pabs s) v ix;
     v_sel := bsel; v_ix := bix_of |}.

Lemma par_step_sim s o : shaped s -> c_old (b_new (pabs s)) = e_empty ->
  shaped (step T2 eqrel_par s o) /\ pabs (step T2 eqrel_par s o) = step T2 eqrel_binary (pabs s) o
  /\ c_old (b_new (pabs (step T2 eqrel_par s o))) = e_empty.
Proof.
  intros [[e He] [[d Hd] [t Ht]]] Hold. destruct s as [n dl tl]. cbn [EqRelModel.p_new EqRelModel.p_delta EqRelModel.p_total] in *. subst n dl tl.
  destruct o as [[x y]| |]; cbn [step p_ins p_merge p_restart eqrel_par eqrel_binary fst snd].
  - unfold par_ins, p_insert. cbn [fst snd EqRelModel.p_new unwrap_unfrozen bind]. unfold b_insert, c_insert, pabs.
    cbn [EqRelModel.p_new EqRelModel.p_delta EqRelModel.p_total frozen_of b_new b_delta b_total c_comb c_old].
    destruct (e_add e x y) as [e' b]. cbn [fst snd EqRelModel.p_new EqRelModel.p_delta EqRelModel.p_total frozen_of b_new c_old].
    split; [|split; reflexivity]. repeat split; eexists; reflexivity.
  - unfold par_merge, EqRelModel.p_merge. cbn [EqRelModel.p_new EqRelModel.p_delta EqRelModel.p_total unwrap_frozen unwrap_unfrozen bind].
    unfold b_merge, pabs. cbn [EqRelModel.p_new EqRelModel.p_delta EqRelModel.p_total frozen_of b_new b_delta b_total c_comb c_old].
    split; [|split; reflexivity]. repeat split; eexists; reflexivity.
  - unfold EqRelModel.p_restart, b_restart, pabs, p_default, c_empty.
    cbn [EqRelModel.p_new EqRelModel.p_delta EqRelModel.p_total frozen_of b_new b_delta b_total c_comb c_old].
    split; [|split; reflexivity]. repeat split; eexists; reflexivity.
Qed.

Lemma par_run_sim h : shaped (run T2 eqrel_par h) /\ pabs (run T2 eqrel_par h) = run T2 eqrel_binary h
                      /\ c_old (b_new (pabs (run T2 eqrel_par h))) = e_empty.
Proof.
  induction h as [|o h IH] using rev_ind.
  - cbn. split; [|split; reflexivity]. repeat split; eexists; reflexivity.
  - unfold run in *. rewrite !fold_left_app. cbn [fold_left]. destruct IH as [Hs [Ha Ho]].
    destruct (par_step_sim _ o Hs Ho) as [Hs' [Ha' Ho']]. split; [exact Hs'|]. split; [|exact Ho'].
    rewrite Ha'. rewrite Ha. reflexivity.
Qed.

(* no unwrap_frozen / unwrap_unfrozen ever fails *)
Theorem eqrel_par_never_panics h :
  (forall x y, exists r, p_insert (run T2 eqrel_par h) x y = Ok r)
  /\ (exists s', EqRelModel.p_merge (run T2 eqrel_par h) = Ok s')
  /\ (exists d t, unwrap_frozen (EqRelModel.p_delta (run T2 eqrel_par h)) = Ok d /\ unwrap_frozen (EqRelModel.p_total (run T2 eqrel_par h)) = Ok t).
Proof.
  destruct (par_run_sim h) as [[[e He] [[d Hd] [t Ht]]] _]. set (s := run T2 eqrel_par h) in *.
  split; [|split].
  - intros x y. unfold p_insert. rewrite He. cbn [unwrap_unfrozen bind]. destruct (e_add e x y). eexists. reflexivity.
  - unfold EqRelModel.p_merge. rewrite He, Hd, Ht. cbn [unwrap_frozen unwrap_unfrozen bind]. eexists. reflexivity.
  - exists d, t. rewrite Hd, Ht. split; reflexivity.
Qed.

Theorem eqrel_par_provider_ok : provider_ok T2 eqrel_par eqv.
Proof.
  pose proof eqrel_binary_provider_ok as B.
  assert (A : forall h, pabs (run T2 eqrel_par h) = run T2 eqrel_binary h) by (intros h; apply par_run_sim).
  constructor.
  - intros h t s' Hi. apply (ok_P1 T2 eqrel_binary eqv B h t (pabs s')).
    pose proof (par_step_sim (run T2 eqrel_par h) (PIns t) (proj1 (par_run_sim h)) (proj2 (proj2 (par_run_sim h)))) as [_ [Hstep _]].
    cbn [step] in Hstep. rewrite Hi in Hstep. cbn [fst] in Hstep. rewrite A in Hstep.
    destruct (p_ins T2 eqrel_binary (run T2 eqrel_binary h) t) as [s2 b] eqn:E. cbn [fst] in Hstep. subst s2. f_equal.
    (* the booleans agree: both are the answer of add on the same structure *)
    cbn [p_ins eqrel_par eqrel_binary] in Hi, E. unfold par_ins, p_insert in Hi. unfold b_insert, c_insert in E.
    destruct (proj1 (par_run_sim h)) as [[e He] _]. rewrite He in Hi. cbn [unwrap_unfrozen bind] in Hi.
    rewrite <- A in E. unfold pabs in E. cbn [b_new] in E. rewrite He in E. cbn [frozen_of c_comb] in E.
    destruct (e_add e (fst t) (snd t)) as [e' b']. injection Hi as _ Hb. injection E as _ Hb'. congruence.
  - intros h. unfold served. cbn [p_read eqrel_par]. rewrite A. apply (ok_P2 T2 eqrel_binary eqv B h).
  - intros h. cbn [p_read eqrel_par]. rewrite A. apply (ok_P3 T2 eqrel_binary eqv B h).
  - intros h v vk t. cbn [p_read p_get v_sel eqrel_par]. rewrite A. apply (ok_P4_get_complete T2 eqrel_binary eqv B h).
  - intros h v vk l t. unfold served. cbn [p_read p_get v_sel eqrel_par]. rewrite A. apply (ok_P4_get_sound T2 eqrel_binary eqv B h).
  - intros h v vk t. cbn [p_read p_all v_sel v_ix eqrel_par]. rewrite A. apply (ok_P4_all_complete T2 eqrel_binary eqv B h).
  - intros h v ix vk l t. unfold served. cbn [p_read p_all v_sel v_ix eqrel_par]. rewrite A. apply (ok_P4_all_sound T2 eqrel_binary eqv B h).
  - intros h vk l. cbn [p_get eqrel_par]. rewrite A. apply (ok_P4_total_nodup T2 eqrel_binary eqv B h).
  - intros h v t. cbn [p_read p_contains eqrel_par]. rewrite A. apply (ok_P5 T2 eqrel_binary eqv B h).
Qed.

Print Assumptions eqrel_par_provider_ok.
