(* C10 — executable model of the `#[ds(eqrel)]` provider (byods/ascent-byods-rels), no proofs here.

   union_find.rs    EqRel: sets / elem_ids / set_subsumptions, add (with path compression), contains,
                    set_of, iter_all, combine
   eqrel_ind.rs     EqRelIndCommon = (old, combined); views ToEqRelInd0_1 (full), ToEqRelInd0 (columns [0]
                    and [1]), ToEqRelIndNone; insert_if_not_present; merge_delta_to_total_new_to_delta
   ceqrel_ind.rs    CEqRelIndCommon = Unfrozen (mutex-protected EqRel) | Frozen (old, combined)
   eqrel_ternary.rs EqRel2IndCommon = per-key map of EqRelIndCommon + reverse map; its merge AS WRITTEN;
                    views [], [0], [1], [0,1], [0,2], [1,2], [0,1,2]
   and the way generated code drives a provider (ascent_codegen.rs compile_mir_scc / head_update_code):
   per loop iteration `merge_delta_to_total_new_to_delta` on the common structure and then on the write
   view of every index; per stratum `field := total; delta := take field; total, new := default; init`.

   Abstraction level (DESIGN 3.7): hash sets / maps are duplicate-free lists / association lists in
   insertion order (iteration order of the real tables is arbitrary; every observation below is compared
   as a set plus a duplicate count), Rc sharing and clones are values.  Elements are Z, set ids are nat. *)
From Coq Require Import List Arith Bool ZArith.
From Coq Require Uint63.
Import ListNotations.

(* ------------------------------------------------------------------ small finite sets / maps *)
Definition zmem (x : Z) (s : list Z) : bool := existsb (Z.eqb x) s.
Definition zins (x : Z) (s : list Z) : list Z := if zmem x s then s else s ++ [x].
Definition zunion (a b : list Z) : list Z := fold_left (fun acc x => zins x acc) b a.

Fixpoint zget {V} (k : Z) (m : list (Z * V)) : option V :=
  match m with [] => None | (k', v) :: t => if Z.eqb k k' then Some v else zget k t end.
Fixpoint zset {V} (k : Z) (v : V) (m : list (Z * V)) : list (Z * V) :=
  match m with [] => [(k, v)] | (k', v') :: t => if Z.eqb k k' then (k, v) :: t else (k', v') :: zset k v t end.
Definition zrem {V} (k : Z) (m : list (Z * V)) : list (Z * V) := filter (fun kv => negb (Z.eqb k (fst kv))) m.

Fixpoint nget (k : nat) (m : list (nat * nat)) : option nat :=
  match m with [] => None | (k', v) :: t => if Nat.eqb k k' then Some v else nget k t end.
Fixpoint nset (k v : nat) (m : list (nat * nat)) : list (nat * nat) :=
  match m with [] => [(k, v)] | (k', v') :: t => if Nat.eqb k k' then (k, v) :: t else (k', v') :: nset k v t end.

Fixpoint set_nth {A} (l : list A) (i : nat) (v : A) : list A :=
  match l, i with
  | [], _ => []
  | _ :: t, O => v :: t
  | h :: t, S j => h :: set_nth t j v
  end.

(* ------------------------------------------------------------------ union_find.rs : EqRel *)
Record eqrel := mkE { sets : list (list Z); ids : list (Z * nat); subs : list (nat * nat) }.
Definition e_empty : eqrel := mkE [] [] [].

(* get_dominant_id: follow the subsumption chain; fuel = S (length subs) is never exhausted on
   reachable states (proved: EqRelProofs.dom_id_fuel) *)
Fixpoint dom_id (fuel : nat) (sb : list (nat * nat)) (id : nat) : nat :=
  match fuel with
  | O => id
  | S f => match nget id sb with Some p => dom_id f sb p | None => id end
  end.
Definition find_id (sb : list (nat * nat)) (id : nat) : nat := dom_id (S (length sb)) sb id.
Definition elem_set (e : eqrel) (x : Z) : option nat := option_map (find_id (subs e)) (zget x (ids e)).

(* get_dominant_id_update: the same walk, re-pointing every visited id to the dominant one *)
Fixpoint dom_upd (fuel : nat) (sb : list (nat * nat)) (id : nat) : nat * list (nat * nat) :=
  match fuel with
  | O => (id, sb)
  | S f => match nget id sb with
           | Some p => let '(d, sb') := dom_upd f sb p in
                       (d, if Nat.eqb d p then sb' else nset id d sb')
           | None => (id, sb)
           end
  end.
Definition elem_set_update (sb : list (nat * nat)) (im : list (Z * nat)) (x : Z) : option nat * list (nat * nat) :=
  match zget x im with
  | Some id => let '(d, sb') := dom_upd (S (length sb)) sb id in (Some d, sb')
  | None => (None, sb)
  end.

(* utils::merge_sets: the smaller set is poured into the larger one *)
Definition merge_sets (a b : list Z) : list Z :=
  if Nat.ltb (length a) (length b) then zunion b a else zunion a b.

Definition e_add (e : eqrel) (x y : Z) : eqrel * bool :=
  let '(xs, sb1) := elem_set_update (subs e) (ids e) x in
  let '(ys, sb2) := elem_set_update sb1 (ids e) y in
  match xs, ys with
  | None, None =>
      let id := length (sets e) in
      (mkE (sets e ++ [zins y [x]]) (zset y id (zset x id (ids e))) sb2, true)
  | None, Some ysid =>
      (mkE (set_nth (sets e) ysid (zins x (nth ysid (sets e) []))) (zset x ysid (ids e)) sb2, true)
  | Some xsid, None =>
      (mkE (set_nth (sets e) xsid (zins y (nth xsid (sets e) []))) (zset y xsid (ids e)) sb2, true)
  | Some xsid, Some ysid =>
      if Nat.eqb xsid ysid then (mkE (sets e) (ids e) sb2, false)
      else
        let taken := nth ysid (sets e) [] in
        let s1 := set_nth (sets e) ysid [] in
        (mkE (set_nth s1 xsid (merge_sets (nth xsid s1 []) taken)) (ids e) (nset ysid xsid sb2), true)
  end.

Definition e_set_of (e : eqrel) (x : Z) : option (list Z) :=
  option_map (fun d => nth d (sets e) []) (elem_set e x).
Definition e_contains (e : eqrel) (x y : Z) : bool :=
  match elem_set e x with Some d => zmem y (nth d (sets e) []) | None => false end.
(* iter_all: for every set s, for every x in s, the pairs (y, x) for y in s *)
Definition e_iter_all (e : eqrel) : list (Z * Z) :=
  flat_map (fun s => flat_map (fun x => map (fun y => (y, x)) s) s) (sets e).
(* combine: every set of [other] is added through one representative *)
Definition e_combine_set (e : eqrel) (s : list Z) : eqrel :=
  match s with
  | [] => e
  | [r] => fst (e_add e r r)
  | r :: rest => fold_left (fun acc x => fst (e_add acc r x)) rest e
  end.
Definition e_combine (e other : eqrel) : eqrel := fold_left e_combine_set (sets other) e.

(* ------------------------------------------------------------------ eqrel_ind.rs : EqRelIndCommon *)
Record eqc := mkC { c_old : eqrel; c_comb : eqrel }.
Definition c_empty : eqc := mkC e_empty e_empty.

Definition c_added_contains (c : eqc) (x y : Z) : bool :=
  e_contains (c_comb c) x y && negb (e_contains (c_old c) x y).
Definition c_iter_all_added (c : eqc) : list (Z * Z) :=
  filter (fun p => negb (e_contains (c_old c) (fst p) (snd p))) (e_iter_all (c_comb c)).
Definition c_set_of_added (c : eqc) (x : Z) : option (list Z) :=
  match e_set_of (c_comb c) x with
  | None => None
  | Some s =>
      let os := e_set_of (c_old c) x in
      Some (filter (fun y => negb (match os with Some o => zmem y o | None => false end)) s)
  end.
(* RelFullIndexWrite::insert_if_not_present / RelIndexWrite::index_insert *)
Definition c_insert (c : eqc) (x y : Z) : eqc * bool :=
  let '(e, b) := e_add (c_comb c) x y in (mkC (c_old c) e, b).

(* views: index_get returns None (key absent) or the values; iter_all the (key, values) entries *)
Definition v_full_get (c : eqc) (x y : Z) : option (list unit) := if c_added_contains c x y then Some [tt] else None.
Definition v_full_all (c : eqc) : list ((Z * Z) * list unit) := map (fun p => (p, [tt])) (c_iter_all_added c).
Definition v_full_contains (c : eqc) (x y : Z) : bool := c_added_contains c x y.
(* ToEqRelInd0 serves both [0] and [1]: key one column, values the other *)
Definition v_ind0_get (c : eqc) (x : Z) : option (list Z) := c_set_of_added c x.
Definition v_ind0_all (c : eqc) : list (Z * list Z) := flat_map (fun s => map (fun x => (x, s)) s) (sets (c_comb c)).
Definition v_none_get (c : eqc) : option (list (Z * Z)) := Some (c_iter_all_added c).
Definition v_none_all (c : eqc) : list (unit * list (Z * Z)) := [(tt, c_iter_all_added c)].

(* RelIndexMerge::merge_delta_to_total_new_to_delta for EqRelIndCommon *)
Record bstate := mkB { b_new : eqc; b_delta : eqc; b_total : eqc }.
Definition b_merge (s : bstate) : bstate :=
  let total' := mkC (c_old (b_total s)) (c_comb (b_delta s)) in
  let delta' := mkC (c_comb total') (e_combine (c_comb (b_delta s)) (c_comb (b_new s))) in
  mkB (mkC (c_old (b_new s)) e_empty) delta' total'.
(* stratum boundary: field := total; next stratum delta := take field, total := default, new := default *)
Definition b_restart (s : bstate) : bstate := mkB c_empty (b_total s) c_empty.
Definition b_init : bstate := mkB c_empty c_empty c_empty.
Definition b_insert (s : bstate) (x y : Z) : bstate * bool :=
  let '(n, b) := c_insert (b_new s) x y in (mkB n (b_delta s) (b_total s), b).
(* head update of generated code: 2 = already in total or delta *)
Definition b_head (s : bstate) (x y : Z) : bstate * Z :=
  if v_full_contains (b_total s) x y || v_full_contains (b_delta s) x y then (s, 2%Z)
  else let '(s', b) := b_insert s x y in (s', if b then 1%Z else 0%Z).

(* ------------------------------------------------------------------ ceqrel_ind.rs : CEqRelIndCommon *)
Inductive ceqc := CUnfrozen (e : eqrel) | CFrozen (c : eqc).
Inductive res (A : Type) : Type := Ok (a : A) | Panic.
Arguments Ok {A} a.
Arguments Panic {A}.
Definition bind {A B} (r : res A) (f : A -> res B) : res B := match r with Ok a => f a | Panic => Panic end.
Notation "'do' x <- r ; k" := (bind r (fun x => k)) (at level 200, x pattern, r at level 100, k at level 200, right associativity).

Definition unwrap_frozen (c : ceqc) : res eqc := match c with CFrozen p => Ok p | CUnfrozen _ => Panic end.
Definition unwrap_unfrozen (c : ceqc) : res eqrel := match c with CUnfrozen e => Ok e | CFrozen _ => Panic end.
Record pstate := mkP { p_new : ceqc; p_delta : ceqc; p_total : ceqc }.
Definition p_default : ceqc := CFrozen c_empty.
(* stratum start incl. RelIndexMerge::init, which makes `new` the mutex-protected structure *)
Definition p_restart (s : pstate) : pstate := mkP (CUnfrozen e_empty) (p_total s) p_default.
Definition p_init : pstate := mkP (CUnfrozen e_empty) p_default p_default.
(* one atomic step: lock; add; unlock *)
Definition p_insert (s : pstate) (x y : Z) : res (pstate * bool) :=
  do e <- unwrap_unfrozen (p_new s);
  let '(e', b) := e_add e x y in Ok (mkP (CUnfrozen e') (p_delta s) (p_total s), b).
Definition p_head (s : pstate) (x y : Z) : res (pstate * Z) :=
  do t <- unwrap_frozen (p_total s);
  do d <- unwrap_frozen (p_delta s);
  if v_full_contains t x y || v_full_contains d x y then Ok (s, 2%Z)
  else do r <- p_insert s x y; Ok (fst r, if snd r then 1%Z else 0%Z).
Definition p_merge (s : pstate) : res pstate :=
  do t <- unwrap_frozen (p_total s);
  do d <- unwrap_frozen (p_delta s);
  do n <- unwrap_unfrozen (p_new s);
  let total' := mkC (c_old t) (c_comb d) in
  let delta' := mkC (c_comb total') (e_combine (c_comb d) n) in
  Ok (mkP (CUnfrozen e_empty) (CFrozen delta') (CFrozen total')).

(* ------------------------------------------------------------------ eqrel_ternary.rs : EqRel2IndCommon *)
Record eq2 := mkT { t_map : list (Z * eqc); t_rev : list (Z * list Z) }.
Definition t_empty : eq2 := mkT [] [].
Definition rev_ins (x k : Z) (r : list (Z * list Z)) : list (Z * list Z) :=
  match zget x r with Some ks => zset x (zins k ks) r | None => zset x [k] r end.
Definition t_insert (t : eq2) (k x y : Z) : eq2 * bool :=
  let r := rev_ins y k (rev_ins x k (t_rev t)) in
  match zget k (t_map t) with
  | Some c => let '(c', b) := c_insert c x y in (mkT (zset k c' (t_map t)) r, b)
  | None => (mkT (zset k (fst (c_insert c_empty x y)) (t_map t)) r, true)
  end.
Record tstate := mkTS { ts_new : eq2; ts_delta : eq2; ts_total : eq2 }.
Definition get_or_default (k : Z) (m : list (Z * eqc)) : eqc := match zget k m with Some c => c | None => c_empty end.
(* utils::move_hash_map_of_hash_set_contents: union per key into [to], [from] is left empty *)
Definition rev_move (from to : list (Z * list Z)) : list (Z * list Z) :=
  fold_left (fun acc kv => match zget (fst kv) acc with
                           | Some s => zset (fst kv) (zunion s (snd kv)) acc
                           | None => zset (fst kv) (snd kv) acc end) from to.
(* merge_delta_to_total_new_to_delta (after the repairs 539a1e3, c6810ff): every key of delta and then every
   remaining key of new is merged against the same key of new / delta / total (absent = default) with the
   binary merge, and the merged delta and total of the key are KEPT; the reverse maps accumulate:
   total.rev := total.rev U delta.rev, delta.rev := total.rev U new.rev, new.rev := {} *)
Record maps3 := mkM { m_n : list (Z * eqc); m_d : list (Z * eqc); m_t : list (Z * eqc) }.
Definition t_step_key (st : maps3) (k : Z) : maps3 :=
  let b := b_merge (mkB (get_or_default k (m_n st)) (get_or_default k (m_d st)) (get_or_default k (m_t st))) in
  mkM (zrem k (m_n st)) (zset k (b_delta b) (m_d st)) (zset k (b_total b) (m_t st)).
Definition t_merge_keys_of (newm deltam : list (Z * eqc)) : list Z :=
  map fst deltam ++ filter (fun k => negb (zmem k (map fst deltam))) (map fst newm).
Definition t_merge (s : tstate) : tstate :=
  let st := fold_left t_step_key (t_merge_keys_of (t_map (ts_new s)) (t_map (ts_delta s)))
                      (mkM (t_map (ts_new s)) (t_map (ts_delta s)) (t_map (ts_total s))) in
  let trev := rev_move (t_rev (ts_delta s)) (t_rev (ts_total s)) in
  let drev := rev_move (t_rev (ts_new s)) trev in
  mkTS (mkT [] []) (mkT (m_d st) drev) (mkT (m_t st) trev).
(* what generated code does per loop iteration: the merge of the common structure, then the merge of every index
   write view; all of these are no-ops now (the full index has its own write view type) *)
Definition t_merge_protocol (s : tstate) : tstate := t_merge s.

(* BEFORE the repairs (kept for the `_before_fix` refutations of Byods/EqRelTernaryBeforeFix.v only): the merged
   delta of a key was dropped, the keys remaining in new became the delta map, the reverse maps were moved,
   and the write view of the full index [0,1,2] was the common structure itself, so the merge ran twice *)
Definition t_merge_keys_old (newm deltam totalm : list (Z * eqc)) : list (Z * eqc) * list (Z * eqc) :=
  fold_left (fun '(nm, tm) kd =>
               let k := fst kd in
               let b := b_merge (mkB (get_or_default k nm) (snd kd) (get_or_default k tm)) in
               (zrem k nm, zset k (b_total b) tm)) deltam (newm, totalm).
Definition t_merge_old (s : tstate) : tstate :=
  let '(nm, tm) := t_merge_keys_old (t_map (ts_new s)) (t_map (ts_delta s)) (t_map (ts_total s)) in
  let trev := rev_move (t_rev (ts_delta s)) (t_rev (ts_total s)) in
  let drev := rev_move (t_rev (ts_new s)) [] in
  mkTS (mkT [] []) (mkT nm drev) (mkT tm trev).
Definition t_merge_protocol_old (s : tstate) : tstate := t_merge_old (t_merge_old s).
Definition t_restart (s : tstate) : tstate := mkTS t_empty (ts_total s) t_empty.
Definition t_init : tstate := mkTS t_empty t_empty t_empty.

(* views *)
Definition t_contains (t : eq2) (k x y : Z) : bool :=
  match zget k (t_map t) with Some c => c_added_contains c x y | None => false end.
Definition t_iter_all_added (t : eq2) : list (Z * Z * Z) :=
  flat_map (fun kc => map (fun p => (fst kc, fst p, snd p)) (c_iter_all_added (snd kc))) (t_map t).
Definition tv_full_get (t : eq2) (k x y : Z) : option (list unit) := if t_contains t k x y then Some [tt] else None.
Definition tv_full_all (t : eq2) : list ((Z * Z * Z) * list unit) := map (fun p => (p, [tt])) (t_iter_all_added t).
Definition tv_none_get (t : eq2) : option (list (Z * Z * Z)) := Some (t_iter_all_added t).
Definition tv_ind0_get (t : eq2) (k : Z) : option (list (Z * Z)) := option_map c_iter_all_added (zget k (t_map t)).
Definition tv_ind0_all (t : eq2) : list (Z * list (Z * Z)) := map (fun kc => (fst kc, c_iter_all_added (snd kc))) (t_map t).
Definition tv_ind01_get (t : eq2) (k x : Z) : option (list Z) :=
  match zget k (t_map t) with Some c => c_set_of_added c x | None => None end.
Definition tv_ind01_all (t : eq2) : list ((Z * Z) * list Z) :=
  flat_map (fun kc => map (fun p => ((fst kc, fst p), [snd p])) (c_iter_all_added (snd kc))) (t_map t).
(* reverse-map views: `self.0.map.get(t0).unwrap()` panics when the key is gone from the map *)
Fixpoint seq_res {A} (l : list (res A)) : res (list A) :=
  match l with [] => Ok [] | r :: t => do a <- r; do b <- seq_res t; Ok (a :: b) end.
Definition tv_ind1_get (t : eq2) (x : Z) : option (res (list (Z * Z))) :=
  match zget x (t_rev t) with
  | None => None
  | Some ks =>
      Some (do ll <- seq_res (map (fun k => match zget k (t_map t) with
                                            | None => Panic
                                            | Some c => Ok (map (fun y => (k, y)) (match c_set_of_added c x with Some s => s | None => [] end))
                                            end) ks);
            Ok (concat ll))
  end.
Definition tv_ind1_all (t : eq2) : res (list (Z * list (Z * Z))) :=
  seq_res (map (fun xk => match tv_ind1_get t (fst xk) with
                          | Some r => do l <- r; Ok (fst xk, l)
                          | None => Panic end) (t_rev t)).
Definition tv_ind12_get (t : eq2) (x y : Z) : option (res (list Z)) :=
  match zget x (t_rev t) with
  | None => None
  | Some ks =>
      Some (do ll <- seq_res (map (fun k => match zget k (t_map t) with
                                            | None => Panic
                                            | Some c => Ok (if c_added_contains c x y then [k] else [])
                                            end) ks);
            Ok (concat ll))
  end.
(* iter_all of [1,2]: the cartesian product of the reverse map with itself, values = the keys mentioning both
   under which the two elements are equivalent (the membership test is repair 187eab3) *)
Definition tv_ind12_all (t : eq2) : list ((Z * Z) * list Z) :=
  flat_map (fun a => map (fun b => ((fst a, fst b),
                                    filter (fun k => zmem k (snd b) && t_contains t k (fst a) (fst b)) (snd a))) (t_rev t)) (t_rev t).
Definition tv_ind12_all_old (t : eq2) : list ((Z * Z) * list Z) :=
  flat_map (fun a => map (fun b => ((fst a, fst b), filter (fun k => zmem k (snd b)) (snd a))) (t_rev t)) (t_rev t).

Definition t_head (s : tstate) (k x y : Z) : tstate * Z :=
  if t_contains (ts_total s) k x y || t_contains (ts_delta s) k x y then (s, 2%Z)
  else let '(n, b) := t_insert (ts_new s) k x y in (mkTS n (ts_delta s) (ts_total s), if b then 1%Z else 0%Z).

(* ------------------------------------------------------------------ observations for the tie
   the same numbers the harness prints (harness/ds_eqrel): sets of full tuples as bit masks, one per key
   0..nk; then (#entries - #distinct).  d1 = dom + 1. *)
Section Obs.
Variable d1 : Z.
Variable nk : nat.

Definition bit (x y : Z) : Z := Z.shiftl 1 (x * d1 + y).
Definition mask2 (l : list (Z * Z)) : Z := fold_left (fun m p => Z.lor m (bit (fst p) (snd p))) l 0%Z.
Fixpoint popcount (fuel : nat) (m : Z) : Z :=
  match fuel with O => 0%Z | S f => (if Z.odd m then 1 else 0) + popcount f (Z.shiftr m 1) end%Z.
Definition pc (m : Z) : Z := popcount 64 m.
Definition keys : list Z := map Z.of_nat (seq 0 (S nk)).
Definition vals : list Z := map Z.of_nat (seq 0 (Z.to_nat d1)).
(* masks per key of a list of full tuples, then the duplicate count *)
Definition acc3 (l : list (Z * Z * Z)) : list Z :=
  let ms := map (fun k => mask2 (map (fun t => (snd (fst t), snd t)) (filter (fun t => Z.eqb (fst (fst t)) k) l))) keys in
  ms ++ [Z.of_nat (length l) - fold_left Z.add (map pc ms) 0%Z]%Z.
Definition acc2 (l : list (Z * Z)) : list Z := [mask2 l; Z.of_nat (length l) - pc (mask2 l)]%Z.
Definition somemask (f : Z -> bool) (dom : list Z) : Z :=
  fold_left (fun m x => if f x then Z.lor m (Z.shiftl 1 x) else m) dom 0%Z.
Definition is_some {A} (o : option A) : bool := match o with Some _ => true | None => false end.
Definition pairs : list (Z * Z) := flat_map (fun x => map (fun y => (x, y)) vals) vals.

Definition obs_eqc (c : eqc) : list Z :=
  let fget := filter (fun p => is_some (v_full_get c (fst p) (snd p))) pairs in
  let badcnt := filter (fun p => match v_full_get c (fst p) (snd p) with Some [_] => false | Some _ => true | None => false end) pairs in
  let fck := filter (fun p => v_full_contains c (fst p) (snd p)) pairs in
  let fall := flat_map (fun e => map (fun _ => fst e) (snd e)) (v_full_all c) in
  let i0get := flat_map (fun x => match v_ind0_get c x with Some ys => map (fun y => (x, y)) ys | None => [] end) vals in
  let i0all := flat_map (fun e => map (fun y => (fst e, y)) (snd e)) (v_ind0_all c) in
  let i1get := flat_map (fun y => match v_ind0_get c y with Some xs => map (fun x => (x, y)) xs | None => [] end) vals in
  let i1all := flat_map (fun e => map (fun x => (x, fst e)) (snd e)) (v_ind0_all c) in
  let nget := match v_none_get c with Some l => l | None => [] end in
  let nall := flat_map (fun e => snd e) (v_none_all c) in
  [mask2 fget; Z.of_nat (length badcnt); mask2 fck] ++ acc2 fall
  ++ [somemask (fun x => is_some (v_ind0_get c x)) vals] ++ acc2 i0get ++ acc2 i0all
  ++ [somemask (fun x => is_some (v_ind0_get c x)) vals] ++ acc2 i1get ++ acc2 i1all
  ++ [if is_some (v_none_get c) then 1%Z else 0%Z] ++ acc2 nget ++ acc2 nall.

Definition triples : list (Z * Z * Z) := flat_map (fun k => map (fun p => (k, fst p, snd p)) pairs) keys.
Definition kmasks (f : Z -> Z -> bool) : list Z := map (fun k => somemask (f k) vals) keys.

(* ternary: a panic while one view is read fills the numbers of that view with -1 *)
Definition or_panic (n : nat) (r : res (list Z)) : list Z := match r with Ok l => l | Panic => repeat (-1)%Z n end.
Definition obs_eq2 (t : eq2) : list Z :=
  let fget := filter (fun p => is_some (tv_full_get t (fst (fst p)) (snd (fst p)) (snd p))) triples in
  let fck := filter (fun p => t_contains t (fst (fst p)) (snd (fst p)) (snd p)) triples in
  let fall := flat_map (fun e => map (fun _ => fst e) (snd e)) (tv_full_all t) in
  let i0get := flat_map (fun k => match tv_ind0_get t k with Some l => map (fun p => (k, fst p, snd p)) l | None => [] end) keys in
  let i0all := flat_map (fun e => map (fun p => (fst e, fst p, snd p)) (snd e)) (tv_ind0_all t) in
  let i1 :=
    do i1get <- seq_res (map (fun x => match tv_ind1_get t x with
                                        | Some r => do l <- r; Ok (map (fun ky => (fst ky, x, snd ky)) l)
                                        | None => Ok [] end) vals);
    do i1all <- tv_ind1_all t;
    Ok ([somemask (fun x => is_some (tv_ind1_get t x)) vals] ++ acc3 (concat i1get)
        ++ acc3 (flat_map (fun e => map (fun ky => (fst ky, fst e, snd ky)) (snd e)) i1all)) in
  (* [2] is served by the same view as [1] (repair 0f251c7): key = column 2, values (column 0, column 1) *)
  let i2 :=
    do i2get <- seq_res (map (fun y => match tv_ind1_get t y with
                                        | Some r => do l <- r; Ok (map (fun kx => (fst kx, snd kx, y)) l)
                                        | None => Ok [] end) vals);
    do i2all <- tv_ind1_all t;
    Ok ([somemask (fun y => is_some (tv_ind1_get t y)) vals] ++ acc3 (concat i2get)
        ++ acc3 (flat_map (fun e => map (fun kx => (fst kx, snd kx, fst e)) (snd e)) i2all)) in
  let i01get := flat_map (fun k => flat_map (fun x => match tv_ind01_get t k x with Some ys => map (fun y => (k, x, y)) ys | None => [] end) vals) keys in
  let i01all := flat_map (fun e => map (fun y => (fst (fst e), snd (fst e), y)) (snd e)) (tv_ind01_all t) in
  let i02get := flat_map (fun k => flat_map (fun y => match tv_ind01_get t k y with Some xs => map (fun x => (k, x, y)) xs | None => [] end) vals) keys in
  let i02all := flat_map (fun e => map (fun x => (fst (fst e), x, snd (fst e))) (snd e)) (tv_ind01_all t) in
  let i12all := flat_map (fun e => map (fun k => (k, fst (fst e), snd (fst e))) (snd e)) (tv_ind12_all t) in
  let i12 :=
    do i12get <- seq_res (map (fun p => match tv_ind12_get t (fst p) (snd p) with
                                         | Some r => do l <- r; Ok (map (fun k => (k, fst p, snd p)) l)
                                         | None => Ok [] end) pairs);
    Ok ([fold_left (fun m p => if is_some (tv_ind12_get t (fst p) (snd p)) then Z.lor m (bit (fst p) (snd p)) else m) pairs 0%Z]
        ++ acc3 (concat i12get) ++ acc3 i12all) in
  let nget := match tv_none_get t with Some l => l | None => [] end in
  firstn (S nk) (acc3 fget) ++ [0%Z] ++ firstn (S nk) (acc3 fck) ++ acc3 fall
  ++ [somemask (fun k => is_some (tv_ind0_get t k)) keys] ++ acc3 i0get ++ acc3 i0all
  ++ or_panic (2 * S nk + 3) i1
  ++ or_panic (2 * S nk + 3) i2
  ++ kmasks (fun k x => is_some (tv_ind01_get t k x)) ++ acc3 i01get ++ acc3 i01all
  ++ kmasks (fun k x => is_some (tv_ind01_get t k x)) ++ acc3 i02get ++ acc3 i02all
  ++ or_panic (2 * S nk + 3) i12
  ++ [1%Z] ++ acc3 nget ++ acc3 nget.
End Obs.

(* ------------------------------------------------------------------ histories *)
Inductive op :=
| OIns (k x y : Z)        (* insert_if_not_present(new, ·); k ignored by the binary forms *)
| OHead (k x y : Z)       (* head update: contains(total) || contains(delta) || insert(new) *)
| OMerge                  (* what generated code does per iteration *)
| OMergeCommon            (* merge of the common structure only *)
| ORestart
| OPar (tasks : list (list (Z * Z))).   (* concurrent head updates; the model runs them task after task *)

(* polynomial fingerprint modulo 2^63 (tie only) *)
Definition fp_mul : Uint63.int := Eval vm_compute in Uint63.of_Z 131105.
Definition fp_one : Uint63.int := Eval vm_compute in Uint63.of_Z 1.
Definition fp_init : Uint63.int := Eval vm_compute in Uint63.of_Z 7.
Definition fp (l : list Z) : Z :=
  Uint63.to_Z (fold_left (fun h v => Uint63.add (Uint63.add (Uint63.mul h fp_mul) (Uint63.of_Z v)) fp_one) l fp_init).

(* a trace is one list of numbers per operation; [-1] marks a panic and ends it *)
Definition bool_z (b : bool) : Z := if b then 1%Z else 0%Z.

Fixpoint bin_trace (d1 : Z) (s : bstate) (h : list op) : list (list Z) :=
  match h with
  | [] => []
  | OIns _ x y :: t => let '(s', b) := b_insert s x y in [bool_z b] :: bin_trace d1 s' t
  | OHead _ x y :: t => let '(s', r) := b_head s x y in [r] :: bin_trace d1 s' t
  | OPar _ :: t => [[-1]%Z]
  | o :: t =>
      let s' := match o with ORestart => b_restart s | _ => b_merge s end in
      (obs_eqc d1 (b_delta s') ++ obs_eqc d1 (b_total s')) :: bin_trace d1 s' t
  end.

Definition p_obs (d1 : Z) (s : pstate) : res (list Z) :=
  do d <- unwrap_frozen (p_delta s);
  do t <- unwrap_frozen (p_total s);
  Ok (obs_eqc d1 d ++ obs_eqc d1 d ++ obs_eqc d1 t ++ obs_eqc d1 t).

Fixpoint p_run_task (s : pstate) (task : list (Z * Z)) : res pstate :=
  match task with
  | [] => Ok s
  | (x, y) :: t => do r <- p_head s x y; p_run_task (fst r) t
  end.

Fixpoint par_trace (d1 : Z) (s : pstate) (h : list op) : list (list Z) :=
  match h with
  | [] => []
  | OIns _ x y :: t =>
      match p_insert s x y with Ok (s', b) => [bool_z b] :: par_trace d1 s' t | Panic => [[-1]%Z] end
  | OHead _ x y :: t =>
      match p_head s x y with Ok (s', r) => [r] :: par_trace d1 s' t | Panic => [[-1]%Z] end
  | OPar tasks :: t =>
      match fold_left (fun r task => do s <- r; p_run_task s task) tasks (Ok s) with
      | Ok s' => [] :: par_trace d1 s' t
      | Panic => [[-1]%Z]
      end
  | o :: t =>
      match (match o with ORestart => Ok (p_restart s) | _ => p_merge s end) with
      | Ok s' => match p_obs d1 s' with Ok l => l :: par_trace d1 s' t | Panic => [[-1]%Z] end
      | Panic => [[-1]%Z]
      end
  end.

Fixpoint ter_trace (d1 : Z) (nk : nat) (s : tstate) (h : list op) : list (list Z) :=
  match h with
  | [] => []
  | OIns k x y :: t =>
      let '(n, b) := t_insert (ts_new s) k x y in [bool_z b] :: ter_trace d1 nk (mkTS n (ts_delta s) (ts_total s)) t
  | OHead k x y :: t => let '(s', r) := t_head s k x y in [r] :: ter_trace d1 nk s' t
  | OPar _ :: t => [[-1]%Z]
  | o :: t =>
      let s' := match o with ORestart => t_restart s | OMerge => t_merge_protocol s | _ => t_merge s end in
      (obs_eq2 d1 nk (ts_delta s') ++ obs_eq2 d1 nk (ts_total s')) :: ter_trace d1 nk s' t
  end.

Definition fp_trace (t : list (list Z)) : Z := fp (map fp t).
