(* C12 — the model of the trrel_uf provider as the code was BEFORE the five repairs of this property's findings
   (/repo commits c22d480 len_estimate, fda3f9e key pause / resume, 2e6bc3e dropped delta, 8bc4a03 reflexive pairs of new
   elements, 36a9ed3 reverse-map views), kept only to state the refutations that led to the repairs.  Everything lives in
   the module [BeforeFix]; nothing else of the development depends on this file.  The definitions are the ones the tie
   compared with the unrepaired code (3000 / 60000 histories, no difference); they are no longer tied to /repo. *)
From Coq Require Import List Arith Bool ZArith.
From AV Require Import UF.UfBase.
From AV Require Import UF.TrUfModel.
Import ListNotations.

Module BeforeFix.

(* ------------------------------------------------------------------ small helpers *)
Definition isnil {A} (l : list A) : bool := match l with [] => true | _ => false end.

Definition pset := list (nat * nat).          (* NewSet<T> = HashSet<(T, T)> *)
Definition peqb (p q : nat * nat) : bool := Nat.eqb (fst p) (fst q) && Nat.eqb (snd p) (snd q).
Definition pmem (p : nat * nat) (s : pset) : bool := existsb (peqb p) s.

Fixpoint foldM {A B} (f : A -> B -> res A) (l : list B) (a : A) : res A :=
  match l with
  | [] => Ok a
  | b :: t => do a1 <- f a b; foldM f t a1
  end.

(* map of sets: insertion of y under key w, membership *)
Definition mins (w y : nat) (m : mset) : mset := aset w (sadd y (eget w m)) m.
Definition mhas (w y : nat) (m : mset) : bool := smem y (eget w m).

(* ------------------------------------------------------------------ TrRelIndCommon *)
Record trdelta : Type := mkD {
  d_conn : mset;        (* set_connections *)
  d_rev : mset;         (* rev_set_connections *)
  d_prec : pset;        (* precursor *)
  d_total : truf        (* total: Rc<TrRelUnionFind<T>> *)
}.
Definition d_default : trdelta := mkD [] [] [] tr_empty.

Inductive common : Type :=
| CNew (r : pset)
| CDelta (d : trdelta)
| CTotal (t : truf).
Definition c_default : common := CTotal tr_empty.          (* impl Default *)

(* TrRelIndCommon::is_empty (the inherent method, used by unwrap_new_mut and the merge's assert) *)
Definition common_is_empty (c : common) : bool :=
  match c with
  | CNew r => isnil r
  | CDelta d => isnil (d_conn d)
  | CTotal t => isnil (t_ids t)
  end.

(* unwrap_new_mut: the relation becomes New; returns its pair set *)
Definition unwrap_new (c : common) : res pset :=
  match c with
  | CNew r => Ok r
  | _ => if common_is_empty c then Ok [] else Err AssertFail
  end.

(* ByodsBinRel::insert = self.unwrap_new_mut().insert((x0, x1)) *)
Definition c_insert (c : common) (x y : nat) : res (common * bool) :=
  do r <- unwrap_new c;
  if pmem (x, y) r then Ok (CNew r, false) else Ok (CNew (r ++ [(x, y)]), true).

(* RelIndexMerge::init *)
Definition c_init (new delta total : common) : common * common * common := (CNew [], delta, total).

(* add_node *)
Definition add_node (st : truf) (x : nat) : res (truf * nat) :=
  do (st1, id, _) <- add_node_new st x; Ok (st1, id).

(* for (x, y) in new_rel.iter(): add_node both, record the class pair in new_classes_map / _rev_map *)
Definition add_nodes_step (acc : truf * mset * mset) (p : nat * nat) : res (truf * mset * mset) :=
  let '(st, ncm, ncrm) := acc in
  do (st1, xid) <- add_node st (fst p);
  do (st2, yid) <- add_node st1 (snd p);
  Ok (st2, mins xid yid ncm, mins yid xid ncrm).

(* join(target, target_rev, rel1, rel2_rev, can_add): for x, for w in rel2_rev[x], for y in rel1[x] *)
Definition join_inner (can_add : nat -> nat -> bool) (w : nat) (acc : mset * mset * bool) (y : nat) : mset * mset * bool :=
  let '(tg, tr, ch) := acc in
  if can_add w y then (if mhas w y tg then acc else (mins w y tg, mins y w tr, true)) else acc.

Definition join (can_add : nat -> nat -> bool) (rel1 rel2_rev : mset) (acc : mset * mset * bool) : mset * mset * bool :=
  fold_left (fun acc kv =>
    match aget (fst kv) rel2_rev with
    | None => acc
    | Some xrev => fold_left (fun acc w => fold_left (join_inner can_add w) (snd kv) acc) xrev acc
    end) rel1 acc.

(* move_hash_map_of_hash_set_contents_disjoint(from, to): to[k] receives from[k] unchecked *)
Definition mmove (from to : mset) : mset :=
  fold_left (fun to kv => aset (fst kv) (eget (fst kv) to ++ snd kv) to) from to.

(* the `loop { .. }` of the merge; dd / ddr = delta_delta_map / _rev, dt / dtr = delta_total_map / _rev;
   delta_new_map and its reverse are empty at every loop head (swap with the emptied delta_delta) *)
Fixpoint dloop (fuel : nat) (tot : truf) (ncm : mset) (dd ddr dt dtr : mset) : res (mset * mset) :=
  match fuel with
  | O => Err NoFuel
  | S f =>
    let can_add := fun x y => negb (mhas x y dd) && negb (mhas x y dt) && negb (mhas x y (t_conn tot)) in
    let a1 := join can_add dd (t_rev tot) ([], [], false) in      (* join1: total ; delta_delta *)
    let a2 := join can_add (t_conn tot) ddr a1 in                 (* join2: delta_delta ; total *)
    let '(dn, dnr, changed) := join can_add ncm ddr a2 in         (* join3: delta_delta ; new_classes *)
    let dt1 := mmove dd dt in
    let dtr1 := mmove ddr dtr in
    if changed then dloop f tot ncm dn dnr dt1 dtr1 else Ok (dt1, dtr1)
  end.

Definition loop_fuel (tot : truf) : nat := let n := length (t_sets tot) in S (S (n * n)).

(* RelIndexMerge::merge_delta_to_total_new_to_delta for TrRelIndCommon *)
Definition c_merge (new delta total : common) : res (common * common * common) :=
  do (delta1, total1) <-
    match delta with
    | CTotal _ => if common_is_empty total then Ok (CDelta d_default, delta) else Err AssertFail   (* :160 *)
    | _ => Ok (delta, total)
    end;
  do drel <- match delta1 with CDelta d => Ok d | _ => Err AssertFail end;       (* panic!("expected Delta") *)
  do trel <- match total1 with CTotal t => Ok t | _ => Err AssertFail end;       (* panic!("expected Total") *)
  do nrel <- unwrap_new new;
  if tr_is_empty trel && isnil (d_prec drel) then
    do nd <- tr_run tr_empty nrel;
    Ok (CNew [], CTotal nd, CTotal tr_empty)
  else
    do t1 <- tr_run trel (d_prec drel);
    do (t2, ncm, ncrm) <- foldM add_nodes_step nrel (t1, [], []);
    do (dt, dtr) <- dloop (loop_fuel t2) t2 ncm ncm ncrm [] [];
    Ok (CNew [], CDelta (mkD dt dtr nrel t2), CTotal t2).

(* ---- TrRelDelta's views *)
Definition set_at (st : truf) (s : nat) : res (list nat) := of_opt Oob (nth_error (t_sets st) s).   (* self.total.sets[s] *)

(* ind_0_get / ind_1_get *)
Definition d_ind_get (d : trdelta) (m : mset) (x : nat) : res (option (list nat)) :=
  do so <- elem_set (d_total d) x;
  match so with
  | None => Ok None
  | Some xs =>
    match aget xs m with
    | None => Ok None
    | Some cs => do l <- sets_of (d_total d) cs; Ok (Some l)
    end
  end.

(* ind_0_iter_all / ind_1_iter_all *)
Definition d_ind_iter_all (d : trdelta) (m : mset) : res (list (nat * list nat)) :=
  do ls <- mapM (fun kv =>
      do xs <- set_at (d_total d) (fst kv);
      do ys <- sets_of (d_total d) (snd kv);
      Ok (map (fun x => (x, ys)) xs)) m;
  Ok (concat ls).

(* contains = ind_0_1_get(..).is_some() *)
Definition d_contains (d : trdelta) (x y : nat) : res bool :=
  do sx <- elem_set (d_total d) x;
  match sx with
  | None => Ok false
  | Some xs =>
    do sy <- elem_set (d_total d) y;
    match sy with
    | None => Ok false
    | Some ys =>
      if Nat.eqb xs ys then Ok false else
      match aget xs (d_conn d) with
      | None => Ok false
      | Some c => Ok (smem ys c)
      end
    end
  end.

(* iter_all *)
Definition d_iter_all (d : trdelta) : res (list (nat * nat)) :=
  do ls <- mapM (fun kv =>
      do xs <- set_at (d_total d) (fst kv);
      do ys <- sets_of (d_total d) (filter (fun s => negb (Nat.eqb s (fst kv))) (snd kv));
      Ok (list_prod xs ys)) (d_conn d);
  Ok (concat ls).

(* ---- ByodsBinRel for TrRelIndCommon *)
Definition c_contains (c : common) (x y : nat) : res bool :=
  match c with
  | CDelta d => d_contains d x y
  | CTotal t => tr_contains t x y
  | CNew _ => Err AssertFail
  end.

Definition c_iter_all (c : common) : res (list (nat * nat)) :=
  match c with
  | CDelta d => d_iter_all d
  | CTotal t => tr_iter_all t
  | CNew _ => Err AssertFail
  end.

(* ind0_iter_all / ind1_iter_all (rev = false / true) *)
Definition c_ind_iter_all (rev : bool) (c : common) : res (list (nat * list nat)) :=
  match c with
  | CDelta d => d_ind_iter_all d (if rev then d_rev d else d_conn d)
  | CTotal t => mapM (fun kv => do l <- by_set_id t (if rev then t_rev t else t_conn t) (snd kv); Ok (fst kv, l)) (t_ids t)
  | CNew _ => Err AssertFail
  end.

(* ind0_index_get / ind1_index_get *)
Definition c_ind_get (rev : bool) (c : common) (x : nat) : res (option (list nat)) :=
  match c with
  | CDelta d => d_ind_get d (if rev then d_rev d else d_conn d) x
  | CTotal t => if rev then tr_rev_set_of t x else tr_set_of t x
  | CNew _ => Err AssertFail
  end.

(* ByodsBinRel::is_empty (trait default; the one the generic adaptors see) *)
Definition c_trait_is_empty (c : common) : res bool := do l <- c_iter_all c; Ok (isnil l).

(* ------------------------------------------------------------------ observation of one binary version
   one entry per view, in the order of the harness:
     none_get none_all i0_get i0_all i1_get i1_all full_get contains full_all
   each entry = (tuples, keys, flag): tuples in column order, keys = the keys for which index_get returned Some /
   the keys yielded by iter_all, flag = is_empty of the index view (0 / 1; 2 = not observed) *)
Definition view := (list (list nat) * list (list nat) * nat)%type.
Definition b2n (b : bool) : nat := if b then 1 else 0.
Definition pr (p : nat * nat) : list nat := [fst p; snd p].

Definition optM {A} (o : res (option (list A))) : res (list A * bool) :=
  do v <- o; match v with Some l => Ok (l, true) | None => Ok ([], false) end.

Definition keyed_get (dom : nat) (get : nat -> res (option (list nat))) (mk : nat -> nat -> list nat) : res (list (list nat) * list (list nat)) :=
  do rows <- mapM (fun x => do r <- optM (get x); Ok (map (mk x) (fst r), if snd r then [[x]] else [])) (seq 0 dom);
  Ok (concat (map fst rows), concat (map snd rows)).

Definition read_bin (dom : nat) (c : common) : res (list view) :=
  do ia <- c_iter_all c;
  do emp <- c_trait_is_empty c;
  let e := b2n emp in
  do g0 <- keyed_get dom (c_ind_get false c) (fun x y => [x; y]);
  do a0 <- c_ind_iter_all false c;
  do g1 <- keyed_get dom (c_ind_get true c) (fun y x => [x; y]);
  do a1 <- c_ind_iter_all true c;
  do ct <- mapM (fun p => do b <- c_contains c (fst p) (snd p); Ok (if b then [pr p] else [])) (list_prod (seq 0 dom) (seq 0 dom));
  let cts := concat ct in
  Ok [ (map pr ia, [[]], 2);
       (map pr ia, [[]], 2);
       (fst g0, snd g0, e);
       (concat (map (fun kv => map (fun y => [fst kv; y]) (snd kv)) a0), map (fun kv => [fst kv]) a0, 2);
       (fst g1, snd g1, e);
       (concat (map (fun kv => map (fun x => [x; fst kv]) (snd kv)) a1), map (fun kv => [fst kv]) a1, 2);
       (cts, cts, e);
       (cts, [], 2);
       (map pr ia, map pr ia, 2) ].

(* ------------------------------------------------------------------ BinRelToTernary *)
Record tern : Type := mkT {
  tm : list (nat * common);        (* map: HashMap<T0, TBinRel> *)
  rm1 : option mset;               (* reverse_map1: x1 -> set of keys *)
  rm2 : option mset                (* reverse_map2: x2 -> set of keys *)
}.
Definition t_default (has1 has2 : bool) : tern :=
  mkT [] (if has1 then Some [] else None) (if has2 then Some [] else None).

(* BinRelToTernaryInd0_1_2Write::insert_if_not_present *)
Definition t_insert (t : tern) (k x y : nat) : res (tern * bool) :=
  let c := match aget k (tm t) with Some c => c | None => c_default end in
  do (c1, b) <- c_insert c x y;
  let m1 := aset k c1 (tm t) in
  if b then
    Ok (mkT m1 (option_map (mins x k) (rm1 t)) (option_map (mins y k) (rm2 t)), true)
  else Ok (mkT m1 (rm1 t) (rm2 t), false).

(* move_hash_map_of_alt_hash_set_contents: a real union *)
Definition munion (from to : mset) : mset :=
  fold_left (fun to kv => aset (fst kv) (sunion (eget (fst kv) to) (snd kv)) to) from to.

(* first loop of the merge: for (k, delta_trrel) in delta.map.drain() *)
Definition tmerge_delta_step (acc : list (nat * common) * list (nat * common) * list (nat * common))
                             (kd : nat * common) : res (list (nat * common) * list (nat * common) * list (nat * common)) :=
  let '(newm, totm, ndm) := acc in
  let k := fst kd in
  let nrel := match aget k newm with Some c => c | None => c_default end in     (* new.map.remove(&k).unwrap_or_default() *)
  let newm1 := arem k newm in
  let tot := match aget k totm with Some c => c | None => c_default end in      (* Occupied / Vacant: fresh default *)
  do (_, d1, t1) <- c_merge nrel (snd kd) tot;
  let totm1 := aset k t1 totm in
  do emp <- c_trait_is_empty d1;
  Ok (newm1, totm1, if emp then ndm else aset k d1 ndm).

(* second loop: for (k, new_trrel) in new.map.drain() *)
Definition tmerge_new_step (acc : list (nat * common) * list (nat * common))
                           (kn : nat * common) : res (list (nat * common) * list (nat * common)) :=
  let '(totm, ndm) := acc in
  let k := fst kn in
  match aget k totm with
  | Some tot =>
    do (_, d1, t1) <- c_merge (snd kn) c_default tot;
    Ok (aset k t1 totm, aset k d1 ndm)
  | None =>
    do (_, d1, _) <- c_merge (snd kn) c_default c_default;          (* the temporary total is dropped *)
    Ok (totm, aset k d1 ndm)
  end.

Definition t_merge (new delta total : tern) : res (tern * tern * tern) :=
  do (newm1, totm1, ndm1) <- foldM tmerge_delta_step (tm delta) (tm new, tm total, []);
  do (totm2, ndm2) <- foldM tmerge_new_step newm1 (totm1, ndm1);
  (* reverse maps: delta's contents go to total, then delta and new swap *)
  do (r1n, r1d, r1t) <-
    match rm1 delta with
    | Some d1 => do t1 <- of_opt UnwrapNone (rm1 total); do n1 <- of_opt UnwrapNone (rm1 new);
                 Ok (Some ([] : mset), Some n1, Some (munion d1 t1))
    | None => Ok (rm1 new, None, rm1 total)
    end;
  do (r2n, r2d, r2t) <-
    match rm2 delta with
    | Some d2 => do t2 <- of_opt UnwrapNone (rm2 total); do n2 <- of_opt UnwrapNone (rm2 new);
                 Ok (Some ([] : mset), Some n2, Some (munion d2 t2))
    | None => Ok (rm2 new, None, rm2 total)
    end;
  Ok (mkT [] r1n r2n, mkT ndm2 r1d r2d, mkT totm2 r1t r2t).

(* ---- ternary views *)
Definition tr3 (k : nat) (p : nat * nat) : list nat := [k; fst p; snd p].

(* Ind0 / IndNone / Ind0_1_2::iter_all *)
Definition t_all (t : tern) : res (list (nat * list (nat * nat))) :=
  mapM (fun kc => do l <- c_iter_all (snd kc); Ok (fst kc, l)) (tm t).

(* Ind0::index_get *)
Definition t_i0_get (t : tern) (k : nat) : res (option (list (nat * nat))) :=
  match aget k (tm t) with
  | None => Ok None
  | Some c => do l <- c_iter_all c; Ok (Some l)
  end.

(* Ind0_1 / Ind0_2 index_get (rev = false / true) *)
Definition t_i0x_get (rev : bool) (t : tern) (k x : nat) : res (option (list nat)) :=
  match aget k (tm t) with
  | None => Ok None
  | Some c => c_ind_get rev c x
  end.
Definition t_i0x_all (rev : bool) (t : tern) : res (list (nat * nat * list nat)) :=
  do ls <- mapM (fun kc => do l <- c_ind_iter_all rev (snd kc); Ok (map (fun xv => (fst kc, fst xv, snd xv)) l)) (tm t);
  Ok (concat ls).

(* Ind1::get / Ind2::get (rev = false / true): the keys listed in the reverse map, each looked up with unwrap *)
Definition t_i12x_get (rev : bool) (t : tern) (x : nat) : res (option (list (nat * nat))) :=
  do rm <- of_opt UnwrapNone (if rev then rm2 t else rm1 t);
  match aget x rm with
  | None => Ok None
  | Some ks =>
    do ls <- mapM (fun k =>
        do c <- of_opt UnwrapNone (aget k (tm t));
        do o <- c_ind_get rev c x;
        Ok (match o with Some l => map (fun v => (k, v)) l | None => [] end)) ks;
    Ok (Some (concat ls))
  end.
Definition t_i12x_all (rev : bool) (t : tern) : res (list (nat * list (nat * nat))) :=
  do rm <- of_opt UnwrapNone (if rev then rm2 t else rm1 t);
  mapM (fun kv => do o <- t_i12x_get rev t (fst kv); do l <- of_opt UnwrapNone o; Ok (fst kv, l)) rm.

(* Ind1_2 *)
Definition t_i12_keys (t : tern) (x1 x2 : nat) (k1 k2 : list nat) : res (list nat) :=
  do ls <- mapM (fun k =>
      do c <- of_opt UnwrapNone (aget k (tm t));
      do b <- c_contains c x1 x2;
      Ok (if b then [k] else [])) (sinter k1 k2);
  Ok (concat ls).
Definition t_i12_get (t : tern) (x1 x2 : nat) : res (option (list nat)) :=
  do m1 <- of_opt UnwrapNone (rm1 t);
  do m2 <- of_opt UnwrapNone (rm2 t);
  match aget x1 m1 with
  | None => Ok None
  | Some k1 =>
    match aget x2 m2 with
    | None => Ok None
    | Some k2 => do l <- t_i12_keys t x1 x2 k1 k2; Ok (Some l)
    end
  end.
Definition t_i12_all (t : tern) : res (list (nat * nat * list nat)) :=
  do m1 <- of_opt UnwrapNone (rm1 t);
  do m2 <- of_opt UnwrapNone (rm2 t);
  do ls <- mapM (fun a => mapM (fun b => do l <- t_i12_keys t (fst a) (fst b) (snd a) (snd b); Ok (fst a, fst b, l)) m2) m1;
  Ok (concat ls).
(* Ind1_2::len_estimate: rm1.len() * rm2.len() / ((map.len() as f32).sqrt() as usize) *)
Definition t_i12_len_estimate (t : tern) : res nat :=
  do m1 <- of_opt UnwrapNone (rm1 t);
  do m2 <- of_opt UnwrapNone (rm2 t);
  let q := Nat.sqrt (length (tm t)) in
  if Nat.eqb q 0 then Err AssertFail else Ok (length m1 * length m2 / q).

(* Ind0_1_2::contains_key / index_get *)
Definition t_contains (t : tern) (k x y : nat) : res bool :=
  match aget k (tm t) with
  | None => Ok false
  | Some c => c_contains c x y
  end.

Definition keyed_get2 (ks xs : list nat) (get : nat -> nat -> res (option (list nat))) (mk : nat -> nat -> nat -> list nat)
  : res (list (list nat) * list (list nat)) :=
  do rows <- mapM (fun kx => do r <- optM (get (fst kx) (snd kx));
                             Ok (map (mk (fst kx) (snd kx)) (fst r), if snd r then [[fst kx; snd kx]] else [])) (list_prod ks xs);
  Ok (concat (map fst rows), concat (map snd rows)).

(* observation of one ternary version, in the order of the harness:
     none_get none_all i0_get i0_all i01_get i01_all i02_get i02_all
     [i1_get i1_all i2_get i2_all i12_get i12_all]   (only when both reverse maps exist)
     full_get contains full_all
   flag: is_empty of the index view; for i12_get: 1 iff len_estimate panics *)
Definition read_ter (dom kdom : nat) (t : tern) : res (list view) :=
  let ks := seq 0 kdom in
  let xs := seq 0 dom in
  do al <- t_all t;
  let alt := concat (map (fun kl => map (tr3 (fst kl)) (snd kl)) al) in
  let me := b2n (isnil (tm t)) in
  do g0 <- mapM (fun k => do r <- optM (t_i0_get t k); Ok (map (tr3 k) (fst r), if snd r then [[k]] else [])) ks;
  do g01 <- keyed_get2 ks xs (t_i0x_get false t) (fun k x y => [k; x; y]);
  do a01 <- t_i0x_all false t;
  do g02 <- keyed_get2 ks xs (t_i0x_get true t) (fun k y x => [k; x; y]);
  do a02 <- t_i0x_all true t;
  do revs <-
    match rm1 t, rm2 t with
    | Some m1, Some m2 =>
      do g1 <- mapM (fun x => do r <- optM (t_i12x_get false t x); Ok (map (fun kv => [fst kv; x; snd kv]) (fst r), if snd r then [[x]] else [])) xs;
      do a1 <- t_i12x_all false t;
      do g2 <- mapM (fun y => do r <- optM (t_i12x_get true t y); Ok (map (fun kv => [fst kv; snd kv; y]) (fst r), if snd r then [[y]] else [])) xs;
      do a2 <- t_i12x_all true t;
      do g12 <- keyed_get2 xs xs (t_i12_get t) (fun x y k => [k; x; y]);
      do a12 <- t_i12_all t;
      let lp := match t_i12_len_estimate t with Ok _ => 0 | Err _ => 1 end in
      Ok [ (concat (map fst g1), concat (map snd g1), b2n (isnil m1));
           (concat (map (fun xl => map (fun kv => [fst kv; fst xl; snd kv]) (snd xl)) a1), map (fun xl => [fst xl]) a1, 2);
           (concat (map fst g2), concat (map snd g2), b2n (isnil m2));
           (concat (map (fun yl => map (fun kv => [fst kv; snd kv; fst yl]) (snd yl)) a2), map (fun yl => [fst yl]) a2, 2);
           (fst g12, snd g12, lp);
           (concat (map (fun e => map (fun k => [k; fst (fst e); snd (fst e)]) (snd e)) a12), map (fun e => [fst (fst e); snd (fst e)]) a12, 2) ]
    | _, _ => Ok []
    end;
  do ct <- mapM (fun kp => do b <- t_contains t (fst kp) (fst (snd kp)) (snd (snd kp));
                          Ok (if b then [tr3 (fst kp) (snd kp)] else [])) (list_prod ks (list_prod xs xs));
  let cts := concat ct in
  Ok ([ (alt, [[]], 2);
        (alt, [[]], 2);
        (concat (map fst g0), concat (map snd g0), me);
        (alt, map (fun kl => [fst kl]) al, 2);
        (fst g01, snd g01, me);
        (concat (map (fun e => map (fun y => [fst (fst e); snd (fst e); y]) (snd e)) a01), map (fun e => [fst (fst e); snd (fst e)]) a01, 2);
        (fst g02, snd g02, me);
        (concat (map (fun e => map (fun x => [fst (fst e); x; snd (fst e)]) (snd e)) a02), map (fun e => [fst (fst e); snd (fst e)]) a02, 2) ]
      ++ revs ++
      [ (cts, cts, me);
        (cts, [], 2);
        (alt, alt, 2) ]).

(* ------------------------------------------------------------------ histories (the protocol of the generated code) *)
Inductive op : Type :=
| OStart                          (* s: delta = take(stored); total = new = default; init *)
| OEnd                            (* e: stored = total *)
| OMerge                          (* m *)
| OIns (k x y : nat)              (* i: insert_if_not_present on new *)
| OHead (k x y : nat).            (* h: contains_key(total), contains_key(delta), insert_if_not_present(new) *)

Inductive item : Type :=
| RRead (d t : list view)
| REnd
| RIns (b : bool)
| RHeadT | RHeadD
| RPanic (at_op : nat) (e : err).

(* one provider = its operations; instantiated for the binary and the ternary form *)
Record prov (St : Type) : Type := mkProv {
  p_default : St;
  p_init : St -> St -> St -> St * St * St;
  p_merge : St -> St -> St -> res (St * St * St);
  p_insert : St -> nat -> nat -> nat -> res (St * bool);
  p_contains : St -> nat -> nat -> nat -> res bool;
  p_read : St -> res (list view)
}.
Arguments p_default {St}. Arguments p_init {St}. Arguments p_merge {St}.
Arguments p_insert {St}. Arguments p_contains {St}. Arguments p_read {St}.

Definition bin_prov (dom : nat) : prov common :=
  mkProv common c_default c_init c_merge (fun c _ x y => c_insert c x y) (fun c _ x y => c_contains c x y) (read_bin dom).

Definition ter_prov (has1 has2 : bool) (dom kdom : nat) : prov tern :=
  mkProv tern (t_default has1 has2) (fun n d t => (n, d, t)) t_merge t_insert t_contains (read_ter dom kdom).

Record pstate (St : Type) : Type := mkPS { s_stored : St; s_new : St; s_delta : St; s_total : St }.
Arguments mkPS {St}. Arguments s_stored {St}. Arguments s_new {St}. Arguments s_delta {St}. Arguments s_total {St}.

Definition ps_init {St} (P : prov St) : pstate St := mkPS (p_default P) (p_default P) (p_default P) (p_default P).

Definition read_both {St} (P : prov St) (st : pstate St) : res item :=
  do d <- p_read P (s_delta st); do t <- p_read P (s_total st); Ok (RRead d t).

Definition step {St} (P : prov St) (st : pstate St) (o : op) : res (pstate St * item) :=
  match o with
  | OStart =>
    let '(n, d, t) := p_init P (p_default P) (s_stored st) (p_default P) in
    let st1 := mkPS (p_default P) n d t in
    do r <- read_both P st1; Ok (st1, r)
  | OEnd => Ok (mkPS (s_total st) (s_new st) (s_delta st) (p_default P), REnd)
  | OMerge =>
    do (n, d, t) <- p_merge P (s_new st) (s_delta st) (s_total st);
    let st1 := mkPS (s_stored st) n d t in
    do r <- read_both P st1; Ok (st1, r)
  | OIns k x y =>
    do (n, b) <- p_insert P (s_new st) k x y;
    Ok (mkPS (s_stored st) n (s_delta st) (s_total st), RIns b)
  | OHead k x y =>
    do bt <- p_contains P (s_total st) k x y;
    if bt then Ok (st, RHeadT) else
    do bd <- p_contains P (s_delta st) k x y;
    if bd then Ok (st, RHeadD) else
    do (n, b) <- p_insert P (s_new st) k x y;
    Ok (mkPS (s_stored st) n (s_delta st) (s_total st), RIns b)
  end.

Fixpoint run_hist {St} (P : prov St) (st : pstate St) (ops : list op) (i : nat) (acc : list item) : list item :=
  match ops with
  | [] => rev acc
  | o :: rest =>
    match step P st o with
    | Ok (st1, it) => run_hist P st1 rest (S i) (it :: acc)
    | Err e => rev (RPanic i e :: acc)
    end
  end.

Definition run_bin (dom : nat) (ops : list op) : list item := run_hist (bin_prov dom) (ps_init (bin_prov dom)) ops 0 [].
Definition run_ter (has1 has2 : bool) (dom kdom : nat) (ops : list op) : list item :=
  run_hist (ter_prov has1 has2 dom kdom) (ps_init (ter_prov has1 has2 dom kdom)) ops 0 [].


Definition leqb (a b : list nat) : bool := Nat.eqb (length a) (length b) && forallb (fun p => Nat.eqb (fst p) (snd p)) (combine a b).
Definition lmem (t : list nat) (l : list (list nat)) : bool := existsb (leqb t) l.
Definition err_code (e : err) : Z := match e with Oob => 0 | NoFuel => 1 | AssertFail => 2 | UnwrapNone => 3 end%Z.

(* ---- protocol grammar, law P3, observations (as in Byods/TrUfProvProofs.v) *)
(* the grammar of compile_mir_scc: strata  s (insert* m)+ e *)
Fixpoint protocol_from (inside merged : bool) (ops : list op) : bool :=
  match ops with
  | [] => negb inside
  | OStart :: r => negb inside && protocol_from true false r
  | OEnd :: r => inside && merged && protocol_from false false r
  | OMerge :: r => inside && protocol_from true true r
  | OIns _ _ _ :: r => inside && protocol_from true false r
  | OHead _ _ _ :: r => inside && protocol_from true false r
  end.
Definition protocol_ok (ops : list op) : bool := protocol_from false false ops.

Definition vtuples (v : view) : list (list nat) := fst (fst v).
Definition incl_b (a b : list (list nat)) : bool := forallb (fun t => lmem t b) a.

(* provider law P3, per view, in the form the semi-naive argument needs: what total serves after a merge was served by total
   or delta before it, or is served by delta now (then the delta variants of the coming iteration cover it) *)
Fixpoint p3_check (ops : list op) (items : list item) (prev : option (list view * list view)) : bool :=
  match ops, items with
  | o :: ops', it :: items' =>
    match o, it with
    | OStart, RRead d t => p3_check ops' items' (Some (d, t))
    | OMerge, RRead d t =>
      match prev with
      | Some (pd, pt) =>
        forallb (fun x => incl_b (vtuples (fst (fst x))) (vtuples (snd (fst x)) ++ vtuples (snd (snd x)) ++ vtuples (fst (snd x))))
                (combine (combine t d) (combine pd pt))
      | None => true
      end && p3_check ops' items' (Some (d, t))
    | _, _ => p3_check ops' items' prev
    end
  | _, _ => true
  end.

Definition has_panic (e : err) (items : list item) : bool :=
  existsb (fun it => match it with RPanic _ e' => Z.eqb (err_code e) (err_code e') | _ => false end) items.

(* the tuples a version serves through view number i of the observation *)
Definition served (i : nat) (vs : list view) : list (list nat) := match nth_error vs i with Some v => vtuples v | None => [] end.
Definition last_read (items : list item) : list view * list view :=
  fold_left (fun acc it => match it with RRead d t => (d, t) | _ => acc end) items ([], []).

(* ================================================================== Part 2: computed witnesses *)

(* F10: s; (0,1); m; (1,2); m -- (2,2) is readable from total after the second merge, and was in no view before *)
Definition wit_f10 : list op := [OStart; OHead 0 0 1; OMerge; OHead 0 1 2; OMerge; OMerge; OEnd].
Lemma wit_f10_refutes : protocol_ok wit_f10 = true /\ p3_check wit_f10 (run_bin 3 wit_f10) None = false.
Proof. vm_compute. split; reflexivity. Qed.

(* F5: key 0 receives a fact, pauses for one merge, receives another one *)
Definition wit_f5 : list op := [OStart; OHead 0 0 1; OMerge; OMerge; OHead 0 1 2; OMerge; OMerge; OEnd].
Lemma wit_f5_refutes : protocol_ok wit_f5 = true /\ has_panic AssertFail (run_ter false false 3 1 wit_f5) = true
                     /\ has_panic AssertFail (run_ter true true 3 1 wit_f5) = true.
Proof. vm_compute. repeat split; reflexivity. Qed.

(* reverse maps: after inserting (0,0,1), index [0,1] (view 4) of total serves (0,1,1), index [1] (view 8) does not,
   neither on delta nor on total *)
Definition wit_rev : list op := [OStart; OHead 0 0 1; OMerge; OMerge; OEnd].
Lemma wit_rev_refutes : protocol_ok wit_rev = true /\
  let '(d, t) := last_read (run_ter true true 3 1 wit_rev) in
  lmem [0; 1; 1] (served 4 t) = true /\ lmem [0; 1; 1] (served 8 d ++ served 8 t) = false.
Proof. vm_compute. repeat split; reflexivity. Qed.

(* len_estimate of index [1,2] on an empty relation *)
Lemma wit_len_estimate_refutes : t_i12_len_estimate (t_default true true) = Err AssertFail.
Proof. reflexivity. Qed.

(* a key of delta.map receives only the reflexive pair of a new element: dropped from delta.map, still in reverse_map1 *)
Definition wit_drop : list op := [OStart; OHead 0 0 0; OMerge; OHead 0 1 1; OMerge; OMerge; OEnd].
Lemma wit_drop_refutes : protocol_ok wit_drop = true /\ has_panic UnwrapNone (run_ter true true 2 1 wit_drop) = true
                       /\ has_panic UnwrapNone (run_ter false false 2 1 wit_drop) = false.
Proof. vm_compute. repeat split; reflexivity. Qed.

(* a non-trivial instance that runs to the end: a chain, then a back edge that collapses three classes *)
Definition wit_cycle : list op := [OStart; OHead 0 0 1; OHead 0 1 2; OMerge; OHead 0 2 0; OMerge; OMerge; OEnd].
Lemma wit_cycle_runs : protocol_ok wit_cycle = true /\ has_panic AssertFail (run_bin 3 wit_cycle) = false /\
  length (served 0 (snd (last_read (run_bin 3 wit_cycle)))) = 9.
Proof. vm_compute. repeat split; reflexivity. Qed.


End BeforeFix.
