(* C11 — a relation tagged #[ds(trrel)] behaves as its explicit transitive closure.
   Property theorems only; proofs are references into Byods/TrRelProofs.v and Byods/TrRelTernary.v.
   Model: Byods/TrRelModel.v (mirror of trrel_binary_ind.rs / trrel_ternary_ind.rs / binary_rel.rs as they are;
   anti_reflexive is a parameter of the model's merge, `shipped_arefl = true` is what the code hard-wires).

   Provider.v / Closure.v (owned by the C10 builder) were not present when this file was written: the closure
   (tc, cl) and the provider laws P1-P5 are stated here directly on the trrel model.

   What is NOT true of the code as shipped, and therefore refuted instead of proved:
     - total + delta = tc(inserted)            (c11_refuted_cycle: pairs (x,x) implied by cycles are never produced, F3)
     - every delta view serves the added part  (c11_ternary_rev_refuted: views [1], [2], [1,2] of the ternary form, F4) *)
From Coq Require Import List ZArith Bool.
From AV Require Import Byods.TrRelModel.
From AV Require Import Byods.TrRelProofs.
From AV Require Import Byods.TrRelTernary.
Import ListNotations.
Open Scope Z_scope.

(* ---- the merge (binary form) ---- *)

(* the inner semi-naive loop: total transitively closed, flag off  ==>  delta' + total' = tc(total + delta + new) *)
Theorem trrel_merge_closure : forall st st',
  transitive_list (b_total st ++ b_delta st) -> bmerge false st = Some st' ->
  forall x y, In (x, y) (b_delta st' ++ b_total st') <-> tc (b_total st ++ b_delta st ++ b_new st) x y.
Proof. exact trrel_merge_closure. Qed.

(* for either value of the flag: what the new delta holds, exactly (`target`: the raw new pairs plus the derivable
   pairs that pass the filter and are not in total), and total' = total ++ delta (law P3) *)
Theorem c11_merge_exact : forall b st st',
  bclosed b (b_total st ++ b_delta st) -> bmerge b st = Some st' ->
  b_new st' = [] /\ b_total st' = b_total st ++ b_delta st /\
  (forall p, In p (b_delta st') <-> target b (b_total st ++ b_delta st) (b_new st) p).
Proof. exact bmerge_spec. Qed.

(* the loop terminates: the model's fuel bound is never reached *)
Theorem c11_merge_defined : forall b st, NoDup (b_new st) -> exists st', bmerge b st = Some st'.
Proof. exact bmerge_total. Qed.

(* ---- histories of the engine protocol (binary form): insert* ; merge ; ... ; SCC boundary ; ... ---- *)

(* law P2 for every value of the flag: at each loop head total + delta = cl(everything inserted),
   cl b R = R + { derivable pairs passing the filter };  cl false = tc *)
Theorem c11_P2_reads_are_cl : forall b ops st ins,
  brun b bempty [] ops = Some (st, ins) -> b_new st = [] -> forall p, In p (reads st) <-> cl b ins p.
Proof. exact brun_reads. Qed.

(* the property for the binary form, for the provider with anti_reflexive = false *)
Theorem c11_closure_flag_off : forall ops st ins,
  brun false bempty [] ops = Some (st, ins) -> b_new st = [] -> forall x y, In (x, y) (reads st) <-> tc ins x y.
Proof. exact trrel_closure_flag_off. Qed.

(* ... which the shipped provider (flag hard-wired to true) violates: edges (1,2), (2,1) imply (1,1) *)
Theorem c11_refuted_cycle :
  exists ops st ins p, brun shipped_arefl bempty [] ops = Some (st, ins) /\ b_new st = [] /\
                       tc ins (fst p) (snd p) /\ ~ In p (reads st).
Proof. exact trrel_shipped_refuted. Qed.

(* the full statement guarded by the decidable known class: sound always; complete for every tuple outside
   known_c11 ins p = (p is (x,x) and was not inserted itself) *)
Theorem c11_holds_outside_known : forall ops st ins,
  brun shipped_arefl bempty [] ops = Some (st, ins) -> b_new st = [] ->
  forall p, (In p (reads st) -> tc ins (fst p) (snd p)) /\
            (tc ins (fst p) (snd p) -> known_c11 ins p = false -> In p (reads st)).
Proof. exact trrel_shipped_guarded. Qed.

(* and the known class is exactly what is lost *)
Theorem c11_lost_exactly_known : forall ops st ins,
  brun shipped_arefl bempty [] ops = Some (st, ins) -> b_new st = [] ->
  forall p, tc ins (fst p) (snd p) -> (~ In p (reads st) <-> known_c11 ins p = true).
Proof. exact trrel_shipped_exact. Qed.

(* no merge of a reachable state runs out of fuel *)
Theorem c11_histories_never_stuck : forall b ops st ins,
  brun b bempty [] ops = Some (st, ins) -> exists st', bmerge b st = Some st'.
Proof. exact brun_merge_defined. Qed.

(* ---- provider laws P1, P3, P4, P5 (binary form) ---- *)

(* P1 + P5 at the head update: the two contains_key tests decide membership in total / delta; the insertion
   into new returns false only for a pair already in new *)
Theorem c11_P1_insert : forall p st,
  let '(st', o) := binsert p st in
  b_total st' = b_total st /\ b_delta st' = b_delta st /\
  ((In p (reads st) /\ st' = st /\ o = [Z.b2z (pmem p (b_total st)); Z.b2z (pmem p (b_delta st)); 2]) \/
   (~ In p (reads st) /\ In p (b_new st) /\ st' = st /\ o = [0; 0; 0]) \/
   (~ In p (reads st) /\ ~ In p (b_new st) /\ b_new st' = b_new st ++ [p] /\ o = [0; 0; 1])).
Proof. exact binsert_spec. Qed.

Theorem c11_P3_total_is_previous_reads : forall b st st',
  bmerge b st = Some st' -> b_total st' = b_total st ++ b_delta st /\ b_new st' = [].
Proof. exact bmerge_total_eq. Qed.

(* P4: every keyed view of a version returns exactly the restriction of that version to the key *)
Theorem c11_P4_views : forall r,
  (forall x p, In p (v_i0_get1 r x) <-> In p r /\ fst p = x) /\
  (forall y p, In p (v_i1_get1 r y) <-> In p r /\ snd p = y) /\
  (forall p, In p (v_i0_iter r) <-> In p r) /\ (forall p, In p (v_i1_iter r) <-> In p r) /\
  (forall n p, In p (v_full_contains n r) <-> In p r /\ In p (grid n)).
Proof.
  intros r. split; [intros; apply v_i0_get1_spec | split; [intros; apply v_i1_get1_spec | split; [intros; apply v_i0_iter_spec | split; [intros; apply v_i1_iter_spec | intros; apply v_full_contains_spec]]]].
Qed.

Theorem c11_P5_contains : forall p r, pmem p r = true <-> In p r.
Proof. exact pmem_spec. Qed.

(* ---- ternary form ---- *)

(* per-key lifting of the forward map: on every key the ternary merge is the binary merge of the key's slices *)
Theorem c11_ternary_merge_per_key : forall b h st st',
  twf st -> tmerge b h st = Some st' -> twf st' /\ forall k, bmerge b (slice k st) = Some (slice k st').
Proof. exact tmerge_per_key. Qed.

(* hence law P2 key by key, for every history of the protocol *)
Theorem c11_ternary_per_key : forall b h ops st ins,
  trun b h tempty [] ops = Some (st, ins) -> t_map (t_new st) = [] ->
  forall k p, In p (kget k (t_map (t_total st)) ++ kget k (t_map (t_delta st))) <-> cl b (proj k ins) p.
Proof. exact trun_per_key. Qed.

(* what the reverse-map views return: the tuples of the version restricted to the key AND to the keys the reverse
   map registers for that column value; they panic exactly on a registered key absent from the per-key map *)
Theorem c11_ternary_rev_views : forall v,
  (forall x1 l, tv_i1_get1 v x1 = Some l -> forall t, In t l <-> has v t /\ snd (fst t) = x1 /\ In (x1, fst (fst t)) (t_rev1 v)) /\
  (forall x2 l, tv_i2_get1 v x2 = Some l -> forall t, In t l <-> has v t /\ snd t = x2 /\ In (x2, fst (fst t)) (t_rev2 v)) /\
  (forall x12 l, tv_i12_get1 v x12 = Some l -> forall t, In t l <-> has v t /\ (snd (fst t), snd t) = x12 /\
                                                   In (fst x12, fst (fst t)) (t_rev1 v) /\ In (snd x12, fst (fst t)) (t_rev2 v)) /\
  (forall x1, tv_i1_get1 v x1 = None <-> exists k, In (x1, k) (t_rev1 v) /\ klookup k (t_map v) = None).
Proof.
  intros v. split; [exact (tv_i1_get1_spec v) | split; [exact (tv_i2_get1_spec v) | split; [exact (tv_i12_get1_spec v) | exact (tv_i1_get1_panics v)]]].
Qed.

(* F4: a tuple of the added part of delta that views [1] and [1,2] (resp. [2]) of delta do not serve *)
Theorem c11_ternary_rev_refuted :
  exists ops st ins t,
    trun shipped_arefl true tempty [] ops = Some (st, ins) /\ has (t_delta st) t /\ ~ has (t_total st) t /\
    (exists l, tv_i1_get1 (t_delta st) (snd (fst t)) = Some l /\ ~ In t l) /\
    (exists l, tv_i12_get1 (t_delta st) (snd (fst t), snd t) = Some l /\ ~ In t l).
Proof. exact trrel_ternary_rev_refuted. Qed.

Theorem c11_ternary_rev2_refuted :
  exists ops st ins t,
    trun shipped_arefl true tempty [] ops = Some (st, ins) /\ has (t_delta st) t /\ ~ has (t_total st) t /\
    (exists l, tv_i2_get1 (t_delta st) (snd t) = Some l /\ ~ In t l).
Proof. exact trrel_ternary_rev2_refuted. Qed.

(* ---- non-vacuity: computed instances ---- *)

(* the cycle witness: the shipped provider serves {(1,2),(2,1)}, the provider with the flag off serves all four pairs *)
Example c11_example_cycle :
  option_map (fun r => reads (fst r)) (brun true bempty [] [BIns 1 2; BIns 2 1; BMerge; BMerge]) = Some [(1, 2); (2, 1)] /\
  option_map (fun r => reads (fst r)) (brun false bempty [] [BIns 1 2; BIns 2 1; BMerge; BMerge]) = Some [(1, 2); (2, 1); (1, 1); (2, 2)].
Proof. vm_compute. split; reflexivity. Qed.

(* facts arriving over several merges, an SCC boundary in between: a 4-chain closes to 6 pairs *)
Example c11_example_chain :
  option_map (fun r => length (reads (fst r)))
    (brun true bempty [] [BIns 0 1; BMerge; BIns 2 3; BMerge; BMerge; BRestart; BIns 1 2; BMerge; BMerge]) = Some 6%nat.
Proof. vm_compute. reflexivity. Qed.

(* the ternary witness of F4 as the tie observes it: masks of delta's views after the second merge *)
Example c11_example_ternary :
  match trun true true tempty [] [TIns 0 1 2; TMerge; TIns 0 2 3; TMerge] with
  | Some (st, _) => (tall (t_delta st), tv_i1_get 4 (t_delta st), tv_i2_get 4 (t_delta st))
  | None => ([], None, None)
  end = ([(0, 2, 3); (0, 1, 3)], Some [(0, 2, 3)], Some [(0, 2, 3); (0, 1, 3)]).
Proof. vm_compute. reflexivity. Qed.

Print Assumptions trrel_merge_closure. Print Assumptions c11_merge_exact. Print Assumptions c11_merge_defined.
Print Assumptions c11_P2_reads_are_cl. Print Assumptions c11_closure_flag_off. Print Assumptions c11_refuted_cycle.
Print Assumptions c11_holds_outside_known. Print Assumptions c11_lost_exactly_known. Print Assumptions c11_histories_never_stuck.
Print Assumptions c11_P1_insert. Print Assumptions c11_P3_total_is_previous_reads. Print Assumptions c11_P4_views.
Print Assumptions c11_P5_contains. Print Assumptions c11_ternary_merge_per_key. Print Assumptions c11_ternary_per_key.
Print Assumptions c11_ternary_rev_views. Print Assumptions c11_ternary_rev_refuted. Print Assumptions c11_ternary_rev2_refuted.
Print Assumptions c11_example_cycle. Print Assumptions c11_example_chain. Print Assumptions c11_example_ternary.
