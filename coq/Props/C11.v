(* C11 — a relation tagged #[ds(trrel)] behaves as its explicit transitive closure.
   Property theorems only; proofs are references into Byods/TrRelProofs.v and Byods/TrRelTernary.v.
   Model: Byods/TrRelModel.v (mirror of trrel_binary_ind.rs / trrel_ternary_ind.rs / binary_rel.rs as they are after
   the three repairs in /repo: 2cd049f anti_reflexive created false, 0ce9ae6 delta's reverse maps rebuilt from the new
   delta, 72c0385 `.max(1)` in TrRel2Ind1_2::len_estimate).  The anti_reflexive flag and the reverse-map handling stay
   parameters of the model; `shipped_arefl = false`, `tmerge = tmerge_gen .. true` are what the code does now.

   The closure (tc: right-linear, proved the least transitive relation containing R: tc_least, tc_trans) is defined in
   Byods/TrRelProofs.v and proved equal to Closure.tc_rel / the executable Closure.tc of Byods/Closure.v (tc_iff_shared).  Byods/Provider.v (C10's file) quantifies its laws over ALL operation sequences (an unconditional
   insert_if_not_present, a stratum boundary at any point); the trrel code meets the laws on histories of the
   head-update protocol (contains_key(total), contains_key(delta) before every insertion; a boundary only after a
   merge that found `new` empty) — off-protocol insertions reach insert_unique_unchecked with duplicates.  The laws
   P1-P5 are therefore stated here over protocol histories (brun / trun).

   Program level (Byods/TrRelProgram.v): the binary and the ternary model are packaged as `provider tuple` of
   Byods/Provider.v (through the generic adapter Byods/TrRelAdapter.v from pairs / (key, pair) to list Z), the record
   Engine/ProvLaws.engine_laws is proved for them with cl = transitive closure (per key), and
   Engine/ProvProofsW.prun_plan_correct_w gives c11_program_binary / c11_program_ternary: the engine model with the
   tagged relation computes the LEAST MODEL OF THE PROGRAM EXTENDED WITH THE EXPLICIT RULE r(x,z) <-- r(x,y), r(y,z)
   (both directions: least_model_cl with tc = least_model of P ++ [tc_rule]).  ProvLaws.guarded histories contain the
   protocol histories of brun (c11_protocol_histories_are_guarded); at the level of sets the trrel model meets the
   laws on all histories.  What remains tied rather than proved: the engine model Engine/EvalProv.v reads the
   provider through p_read (law P4 relates the real keyed views to it: c11_P4_views, c11_ternary_rev_views_exact),
   and code generation itself (PROG half of the tie).

   The lemmas named `_before_fix` describe the behaviour before the repairs, as statements about the model with the old
   parameter values; they are not claims about the current code. *)
From Coq Require Import List ZArith Bool.
From AV Require Import Byods.TrRelModel.
From AV Require Import Byods.TrRelProofs.
From AV Require Import Byods.TrRelTernary.
From AV Require Import Byods.TrRelIsEmpty.
From AV Require Byods.Closure.
From AV Require Import Engine.Core Engine.Sem Engine.Validate Engine.Naive Engine.Interface.
From AV Require Import Byods.Provider Engine.EvalProv Engine.InterfaceProv Engine.ProvLaws.
From AV Require Import Byods.TrRelAdapter Byods.TrRelProgram.
Import ListNotations.
Open Scope Z_scope.

(* ================= the property ================= *)

(* binary form r(T,T): after any history of the engine protocol (insertions through the head update, merges, stratum
   boundaries), at every loop head, what total and delta serve is EXACTLY the transitive closure of the inserted
   tuples — pairs (x,x) implied by cycles included *)
Theorem c11_closure : forall ops st ins,
  brun shipped_arefl bempty [] ops = Some (st, ins) -> b_new st = [] ->
  forall x y, In (x, y) (reads st) <-> tc ins x y.
Proof. exact trrel_closure. Qed.

(* the same against the shared executable closure of Byods/Closure.v (the specification used by C10 and C12) *)
Theorem c11_closure_shared : forall ops st ins,
  brun shipped_arefl bempty [] ops = Some (st, ins) -> b_new st = [] ->
  forall x y, In (x, y) (reads st) <-> In (x, y) (Closure.tc ins).
Proof. exact trrel_closure_shared. Qed.

(* ternary form r(K,T,T), forward map: the same per key *)
Theorem c11_ternary_closure : forall h ops st ins,
  trun shipped_arefl h tempty [] ops = Some (st, ins) -> t_map (t_new st) = [] ->
  forall k x y, In (x, y) (tk st k ++ dk st k) <-> tc (proj k ins) x y.
Proof. exact trun_per_key_closure. Qed.

(* ternary form, reading through the reverse maps (indices [1], [2], [1,2]): for BOTH versions, along every history,
   the views never panic and return exactly the restriction of the version to the key (laws P4/P5) *)
Theorem c11_ternary_rev_views_exact : forall b ops st ins,
  trun b true tempty [] ops = Some (st, ins) ->
  forall v, v = t_total st \/ v = t_delta st ->
  (forall x1, exists l, tv_i1_get1 v x1 = Some l /\ forall t, In t l <-> has v t /\ snd (fst t) = x1) /\
  (forall x2, exists l, tv_i2_get1 v x2 = Some l /\ forall t, In t l <-> has v t /\ snd t = x2) /\
  (forall x12, exists l, tv_i12_get1 v x12 = Some l /\ forall t, In t l <-> has v t /\ (snd (fst t), snd t) = x12).
Proof. exact rev_views_exact. Qed.

(* ================= program level ================= *)

(* the seven engine laws of Engine/ProvLaws.v hold for the packaged providers, cl = transitive closure (per key) *)
Theorem c11_engine_laws_binary : closure_op tuple tc2 /\ cl_arity tc2 2 /\ engine_laws trrel_binary tc2.
Proof. exact (conj tc2_closure_op (conj tc2_arity trrel_binary_engine_laws)). Qed.
Theorem c11_engine_laws_ternary : forall h, closure_op tuple tc3 /\ cl_arity tc3 3 /\ engine_laws (trrel_ternary h) tc3.
Proof. intros h. exact (conj tc3_closure_op (conj tc3_arity (trrel_ternary_engine_laws h))). Qed.

(* a program whose relation r0(T,T) is tagged #[ds(trrel)], run by the engine model on the plan the macro produced
   (validate), computes the least model of the program extended with  r0(x,z) <-- r0(x,y), r0(y,z) *)
Theorem c11_program_binary : forall I swap r0 arities P pl fuel F0 st,
  In (r0, 2%nat) arities -> arities_functional arities -> wf_facts arities F0 = true -> no_agg P = true ->
  (forall f, In f F0 -> fst f <> r0) -> validate arities P pl = true ->
  prun_plan I swap trrel_binary r0 fuel pl F0 = Some st ->
  least_model I (P ++ [tc_rule r0]) F0 (pfacts trrel_binary r0 st).
Proof. exact trrel_program_binary. Qed.

(* the ternary form r0(K,T,T): the least model of the program extended with  r0(k,x,z) <-- r0(k,x,y), r0(k,y,z) *)
Theorem c11_program_ternary : forall h I swap r0 arities P pl fuel F0 st,
  In (r0, 3%nat) arities -> arities_functional arities -> wf_facts arities F0 = true -> no_agg P = true ->
  (forall f, In f F0 -> fst f <> r0) -> validate arities P pl = true ->
  prun_plan I swap (trrel_ternary h) r0 fuel pl F0 = Some st ->
  least_model I (P ++ [tc_rule3 r0]) F0 (pfacts (trrel_ternary h) r0 st).
Proof. exact trrel_program_ternary. Qed.

(* least_model_cl with the closure operators used above IS the least model with the explicit rule (both directions) *)
Theorem c11_closure_operator_is_the_rule : forall I P r0 F0 M,
  (least_model_cl I P tc2 r0 F0 M <-> least_model I (P ++ [tc_rule r0]) F0 M) /\
  (least_model_cl I P tc3 r0 F0 M <-> least_model I (P ++ [tc_rule3 r0]) F0 M).
Proof. intros. split; [apply least_model_tc2_iff | apply least_model_tc3_iff]. Qed.

(* the protocol histories of c11_closure are guarded histories of the packaged provider *)
Theorem c11_protocol_histories_are_guarded : forall b ops h st ins st' ins',
  guardedT _ (PB b) h -> run _ (PB b) h = st -> brun b st ins ops = Some (st', ins') ->
  exists h', guardedT _ (PB b) (h ++ h') /\ run _ (PB b) (h ++ h') = st'.
Proof. exact brun_is_guarded. Qed.

(* ================= the merge (binary form) ================= *)

(* the inner semi-naive loop: total transitively closed, flag off  ==>  delta' + total' = tc(total + delta + new) *)
Theorem trrel_merge_closure : forall st st',
  transitive_list (b_total st ++ b_delta st) -> bmerge false st = Some st' ->
  forall x y, In (x, y) (b_delta st' ++ b_total st') <-> tc (b_total st ++ b_delta st ++ b_new st) x y.
Proof. exact trrel_merge_closure. Qed.

(* for either value of the flag: what the new delta holds, exactly (`target`: the raw new pairs plus the derivable
   pairs that pass the filter and are not in total), and total' = total ++ delta (law P3) *)
Theorem c11_merge_exact : forall b st st',
  bclosed b (b_total st ++ b_delta st) -> bmerge b st = Some st' ->
  b_new st' = [] /\ b_total st' = b_total st ++ b_delta st /\
  (forall p, In p (b_delta st') <-> target b (b_total st ++ b_delta st) (b_new st) p).
Proof. exact bmerge_spec. Qed.

(* the loop terminates: the model's fuel bound is never reached; no merge of a reachable state is stuck *)
Theorem c11_merge_defined : forall b st, NoDup (b_new st) -> exists st', bmerge b st = Some st'.
Proof. exact bmerge_total. Qed.
Theorem c11_histories_never_stuck : forall b ops st ins,
  brun b bempty [] ops = Some (st, ins) -> exists st', bmerge b st = Some st'.
Proof. exact brun_merge_defined. Qed.

(* ================= provider laws (binary form) ================= *)

(* P2 for every value of the flag: total + delta = cl(everything inserted); cl false = tc *)
Theorem c11_P2_reads_are_cl : forall b ops st ins,
  brun b bempty [] ops = Some (st, ins) -> b_new st = [] -> forall p, In p (reads st) <-> cl b ins p.
Proof. exact brun_reads. Qed.

(* P1 + P5 at the head update: the two contains_key tests decide membership in total / delta; the insertion
   into new returns false only for a pair already in new *)
Theorem c11_P1_insert : forall p st,
  let '(st', o) := binsert p st in
  b_total st' = b_total st /\ b_delta st' = b_delta st /\
  ((In p (reads st) /\ st' = st /\ o = [Z.b2z (pmem p (b_total st)); Z.b2z (pmem p (b_delta st)); 2]) \/
   (~ In p (reads st) /\ In p (b_new st) /\ st' = st /\ o = [0; 0; 0]) \/
   (~ In p (reads st) /\ ~ In p (b_new st) /\ b_new st' = b_new st ++ [p] /\ o = [0; 0; 1])).
Proof. exact binsert_spec. Qed.

Theorem c11_P3_total_is_previous_reads : forall b st st',
  bmerge b st = Some st' -> b_total st' = b_total st ++ b_delta st /\ b_new st' = [].
Proof. exact bmerge_total_eq. Qed.

(* P4: every keyed view of a version returns exactly the restriction of that version to the key *)
Theorem c11_P4_views : forall r,
  (forall x p, In p (v_i0_get1 r x) <-> In p r /\ fst p = x) /\
  (forall y p, In p (v_i1_get1 r y) <-> In p r /\ snd p = y) /\
  (forall p, In p (v_i0_iter r) <-> In p r) /\ (forall p, In p (v_i1_iter r) <-> In p r) /\
  (forall n p, In p (v_full_contains n r) <-> In p r /\ In p (grid n)).
Proof.
  intros r. split; [intros; apply v_i0_get1_spec | split; [intros; apply v_i1_get1_spec | split; [intros; apply v_i0_iter_spec | split; [intros; apply v_i1_iter_spec | intros; apply v_full_contains_spec]]]].
Qed.

Theorem c11_P5_contains : forall p r, pmem p r = true <-> In p r.
Proof. exact pmem_spec. Qed.

(* ================= ternary form: lifting ================= *)

(* on every key the ternary merge is the binary merge of the key's slices *)
Theorem c11_ternary_merge_per_key : forall b h st st',
  twf st -> tmerge b h st = Some st' -> twf st' /\ forall k, bmerge b (slice k st) = Some (slice k st').
Proof. exact tmerge_per_key. Qed.

(* hence law P2 key by key, for either flag *)
Theorem c11_ternary_per_key : forall b h ops st ins,
  trun b h tempty [] ops = Some (st, ins) -> t_map (t_new st) = [] ->
  forall k p, In p (kget k (t_map (t_total st)) ++ kget k (t_map (t_delta st))) <-> cl b (proj k ins) p.
Proof. exact trun_per_key. Qed.

(* what the reverse-map views return for ANY version value: the tuples of the version restricted to the key and to the
   keys the reverse map registers for that column value; view [1] panics exactly on a registered key absent from the map *)
Theorem c11_ternary_rev_views : forall v,
  (forall x1 l, tv_i1_get1 v x1 = Some l -> forall t, In t l <-> has v t /\ snd (fst t) = x1 /\ In (x1, fst (fst t)) (t_rev1 v)) /\
  (forall x2 l, tv_i2_get1 v x2 = Some l -> forall t, In t l <-> has v t /\ snd t = x2 /\ In (x2, fst (fst t)) (t_rev2 v)) /\
  (forall x12 l, tv_i12_get1 v x12 = Some l -> forall t, In t l <-> has v t /\ (snd (fst t), snd t) = x12 /\
                                                   In (fst x12, fst (fst t)) (t_rev1 v) /\ In (snd x12, fst (fst t)) (t_rev2 v)) /\
  (forall x1, tv_i1_get1 v x1 = None <-> exists k, In (x1, k) (t_rev1 v) /\ klookup k (t_map v) = None).
Proof.
  intros v. split; [exact (tv_i1_get1_spec v) | split; [exact (tv_i2_get1_spec v) | split; [exact (tv_i12_get1_spec v) | exact (tv_i1_get1_panics v)]]].
Qed.

(* ================= is_empty of the views (the empty-relation shortcut of generated code) ================= *)

(* Generated code skips a rule with > 1 body clauses (other than a plain two-clause simple join) when any body relation
   answers is_empty() = true.  The answers of the trrel views are slots of the model's observations
   (TrRelIsEmpty.observe_*_flags), tied to the provider on every history of the check.  Along every protocol history,
   for both versions of the ternary form: whichever view answers true, the version holds no tuple — the skipped rule
   had nothing to derive from it.  The [1,2] view (whose len_estimate is a rounded heuristic) and the `none` views
   answer false always. *)
Theorem c11_is_empty_definite : forall b ops st ins,
  trun b true tempty [] ops = Some (st, ins) ->
  forall v, v = t_total st \/ v = t_delta st ->
  t_is_empty_fwd v = true \/ t_is_empty_none v = true \/ t_is_empty_i1 v = true \/ t_is_empty_i2 v = true \/ t_is_empty_i12 v = true ->
  forall t, ~ has v t.
Proof. exact t_is_empty_definite. Qed.

(* view by view, for ANY version value: a true answer forces every reading of that view (index_get over every key of
   the domain, iter_all, contains_key) to be empty *)
Theorem c11_is_empty_views_ternary : forall keys n v,
  (t_is_empty_fwd v = true ->
     tall v = [] /\ tv_full_contains keys n v = [] /\ tv_i0_get keys v = [] /\
     tv_i01_get keys n v = [] /\ tv_i01_iter v = [] /\ tv_i02_get keys n v = [] /\ tv_i02_iter v = []) /\
  (t_is_empty_i1 v = true -> tv_i1_get n v = Some [] /\ tv_i1_iter v = Some []) /\
  (t_is_empty_i2 v = true -> tv_i2_get n v = Some [] /\ tv_i2_iter v = Some []) /\
  (t_is_empty_none v = true -> tall v = []) /\
  (t_is_empty_i12 v = true -> tv_i12_get n v = Some [] /\ tv_i12_iter v = Some []).
Proof.
  intros keys n v. split; [exact (t_is_empty_fwd_sound keys n v) | split; [exact (t_is_empty_i1_sound n v) | split; [exact (t_is_empty_i2_sound n v) | exact (t_is_empty_none_i12_sound n v)]]].
Qed.

Theorem c11_is_empty_views_binary : forall n r,
  (b_is_empty_keyed r = true ->
     v_full_contains n r = [] /\ v_full_get n r = [] /\ v_full_iter r = [] /\
     v_i0_get n r = [] /\ v_i0_iter r = [] /\ v_i1_get n r = [] /\ v_i1_iter r = []) /\
  (b_is_empty_none r = true -> v_none r = []).
Proof. intros n r. split; [exact (b_is_empty_keyed_sound n r) | exact (b_is_empty_none_sound r)]. Qed.

(* ================= the behaviour before the repairs (model with the old parameter values) ================= *)

(* before commit 2cd049f the flag was created `true`: edges (1,2), (2,1) imply (1,1), which was not produced ... *)
Theorem c11_refuted_cycle_before_fix :
  exists ops st ins p, brun true bempty [] ops = Some (st, ins) /\ b_new st = [] /\
                       tc ins (fst p) (snd p) /\ ~ In p (reads st).
Proof. exact trrel_flag_on_refuted. Qed.

(* ... and exactly the non-inserted pairs (x,x) were lost *)
Theorem c11_lost_exactly_known_before_fix : forall ops st ins,
  brun true bempty [] ops = Some (st, ins) -> b_new st = [] ->
  forall p, tc ins (fst p) (snd p) -> (~ In p (reads st) <-> known_c11 ins p = true).
Proof. exact trrel_flag_on_exact. Qed.

(* before commit 0ce9ae6 delta's reverse maps were those of `new`: a tuple of the added part of delta that views [1]
   and [1,2] (resp. [2]) of delta did not serve *)
Theorem c11_ternary_rev_refuted_before_fix :
  exists ops st ins t,
    trun_old shipped_arefl tempty [] ops = Some (st, ins) /\ has (t_delta st) t /\ ~ has (t_total st) t /\
    (exists l, tv_i1_get1 (t_delta st) (snd (fst t)) = Some l /\ ~ In t l) /\
    (exists l, tv_i12_get1 (t_delta st) (snd (fst t), snd t) = Some l /\ ~ In t l).
Proof. exact trrel_ternary_rev_refuted_before_fix. Qed.

Theorem c11_ternary_rev2_refuted_before_fix :
  exists ops st ins t,
    trun_old shipped_arefl tempty [] ops = Some (st, ins) /\ has (t_delta st) t /\ ~ has (t_total st) t /\
    (exists l, tv_i2_get1 (t_delta st) (snd t) = Some l /\ ~ In t l).
Proof. exact trrel_ternary_rev2_refuted_before_fix. Qed.

(* ================= non-vacuity: computed instances ================= *)

(* the cycle witness: the provider serves all four pairs (the old flag value served two) *)
Example c11_example_cycle :
  option_map (fun r => reads (fst r)) (brun shipped_arefl bempty [] [BIns 1 2; BIns 2 1; BMerge; BMerge]) = Some [(1, 2); (2, 1); (1, 1); (2, 2)] /\
  option_map (fun r => reads (fst r)) (brun true bempty [] [BIns 1 2; BIns 2 1; BMerge; BMerge]) = Some [(1, 2); (2, 1)].
Proof. vm_compute. split; reflexivity. Qed.

(* facts arriving over several merges, an SCC boundary in between: a 4-chain closes to 6 pairs *)
Example c11_example_chain :
  option_map (fun r => length (reads (fst r)))
    (brun shipped_arefl bempty [] [BIns 0 1; BMerge; BIns 2 3; BMerge; BMerge; BRestart; BIns 1 2; BMerge; BMerge]) = Some 6%nat.
Proof. vm_compute. reflexivity. Qed.

(* the ternary witness: after the second merge every view of delta serves both (0,2,3) and the derived (0,1,3) *)
Example c11_example_ternary :
  match trun shipped_arefl true tempty [] [TIns 0 1 2; TMerge; TIns 0 2 3; TMerge] with
  | Some (st, _) => (tall (t_delta st), tv_i1_get 4 (t_delta st), tv_i2_get 4 (t_delta st))
  | None => ([], None, None)
  end = ([(0, 2, 3); (0, 1, 3)], Some [(0, 1, 3); (0, 2, 3)], Some [(0, 2, 3); (0, 1, 3)]).
Proof. vm_compute. reflexivity. Qed.

(* many keys sharing one edge (the regime where the rounded len_estimate of the [1,2] view is 0): after the merge the
   [1,2] view of delta serves all four tuples and no view of delta answers is_empty; every keyed view of the still empty
   total does *)
Example c11_example_key_heavy :
  match trun shipped_arefl true tempty [] [TIns 0 1 0; TIns 1 1 0; TIns 2 1 0; TIns 3 1 0; TMerge] with
  | Some (st, _) => (option_map (@length _) (tv_i12_iter (t_delta st)),
                     [t_is_empty_fwd (t_delta st); t_is_empty_i1 (t_delta st); t_is_empty_i2 (t_delta st); t_is_empty_i12 (t_delta st)],
                     [t_is_empty_fwd (t_total st); t_is_empty_i1 (t_total st); t_is_empty_i2 (t_total st); t_is_empty_i12 (t_total st)])
  | None => (None, [], [])
  end = (Some 4%nat, [false; false; false; false], [true; true; true; false]).
Proof. vm_compute. reflexivity. Qed.

Print Assumptions c11_closure. Print Assumptions c11_closure_shared. Print Assumptions c11_ternary_closure. Print Assumptions c11_ternary_rev_views_exact.
Print Assumptions c11_engine_laws_binary. Print Assumptions c11_engine_laws_ternary. Print Assumptions c11_program_binary.
Print Assumptions c11_program_ternary. Print Assumptions c11_closure_operator_is_the_rule. Print Assumptions c11_protocol_histories_are_guarded.
Print Assumptions trrel_merge_closure. Print Assumptions c11_merge_exact. Print Assumptions c11_merge_defined.
Print Assumptions c11_histories_never_stuck. Print Assumptions c11_P2_reads_are_cl. Print Assumptions c11_P1_insert.
Print Assumptions c11_P3_total_is_previous_reads. Print Assumptions c11_P4_views. Print Assumptions c11_P5_contains.
Print Assumptions c11_ternary_merge_per_key. Print Assumptions c11_ternary_per_key. Print Assumptions c11_ternary_rev_views.
Print Assumptions c11_refuted_cycle_before_fix. Print Assumptions c11_lost_exactly_known_before_fix.
Print Assumptions c11_ternary_rev_refuted_before_fix. Print Assumptions c11_ternary_rev2_refuted_before_fix.
Print Assumptions c11_example_cycle. Print Assumptions c11_example_chain. Print Assumptions c11_example_ternary.
Print Assumptions c11_is_empty_definite. Print Assumptions c11_is_empty_views_ternary. Print Assumptions c11_is_empty_views_binary.
Print Assumptions c11_example_key_heavy.
