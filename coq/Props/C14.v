(* C14 — run_timeout stops only in a sound, resumable state.
   Property theorems only; proofs in Engine/{TimeoutProofs,MainTimeout}.v.  Model: Engine/Timeout.v — the clock is
   an arbitrary oracle consulted exactly where the generated code checks the deadline, so "at whatever point the
   deadline struck" is the universal quantifier over [deadline]. *)
From Coq Require Import List ZArith Bool.
From AV Require Import Engine.Core Engine.Sem Engine.Eval Engine.Validate Engine.Naive Engine.Interface Engine.Timeout Engine.InterfaceTimeout Engine.TimeoutProofs Engine.MainTimeout.
From AV Require Import Engine.InterfaceAgg Engine.Strat Engine.StratFixed Engine.EvalSpecAgg Engine.SemiNaiveAgg Engine.TimeoutProofsAgg.
Import ListNotations.

(* true => the full fixed point; in every case: inputs kept in place, every tuple present is derivable (the rows are
   below every closed superset of the input), nothing added twice *)
Theorem c14_stops_sound : forall (I : interp) swap (deadline : nat -> bool) arities P pl fuel F0 b st,
  arities_functional arities -> wf_facts arities F0 = true -> no_agg P = true ->
  validate arities P pl = true ->
  run_timeout I swap deadline fuel pl (init_state F0) = Some (b, st) ->
  (forall M', incl F0 M' -> closed I P M' -> incl (rows st) M')
  /\ (exists added, rows st = F0 ++ added /\ NoDup added /\ (forall f, In f added -> ~ In f F0))
  /\ wf_facts arities (rows st) = true
  /\ (b = true -> least_model I P F0 (rows st)).
Proof. exact run_timeout_correct_full. Qed.

(* calling run() afterwards completes to exactly the fixed point of a single uninterrupted run() *)
Theorem c14_resume_run : forall I swap (deadline : nat -> bool) arities P pl fuel fuel' F0 b st st',
  arities_functional arities -> wf_facts arities F0 = true -> no_agg P = true -> validate arities P pl = true ->
  run_timeout I swap deadline fuel pl (init_state F0) = Some (b, st) ->
  run_plan I swap fuel' pl st = Some st' ->
  least_model I P F0 (rows st').
Proof. exact timeout_then_run. Qed.

(* repeated interruptions stay sound w.r.t. the ORIGINAL input, and a later `true` is the original fixed point *)
Theorem c14_resume_run_timeout : forall I swap (d1 d2 : nat -> bool) arities P pl fuel fuel' F0 b1 st1 b2 st2,
  arities_functional arities -> wf_facts arities F0 = true -> no_agg P = true -> validate arities P pl = true ->
  run_timeout I swap d1 fuel pl (init_state F0) = Some (b1, st1) ->
  run_timeout I swap d2 fuel' pl st1 = Some (b2, st2) ->
  (forall M', incl F0 M' -> closed I P M' -> incl (rows st2) M')
  /\ incl F0 (rows st2) /\ wf_facts arities (rows st2) = true
  /\ (b2 = true -> least_model I P F0 (rows st2)).
Proof. exact timeout_then_timeout. Qed.

(* run() is run_timeout with a clock that never fires (timeout = Duration::MAX) *)
Theorem c14_never_firing_clock_is_run : forall I swap fuel pl st,
  run_timeout I swap (fun _ => false) fuel pl st = option_map (fun st' => (true, st')) (run_plan I swap fuel pl st).
Proof. exact run_timeout_never. Qed.

(* with aggregation / negation (duplicate-free input, permutation-invariant aggregators), for every clock: inputs in
   place, rows duplicate free; `true` means the stratified model; an interrupted state holds only facts of the
   stratified model; resuming with run() reaches exactly the stratified model of the original input *)
Theorem c14_with_aggregates : forall (I : interp) swap (deadline : nat -> bool) arities P pl fuel F0 b st,
  arities_functional arities -> wf_facts arities F0 = true -> NoDup F0 -> agg_perm_invariant I ->
  validate arities P pl = true ->
  run_timeout I swap deadline fuel pl (init_state F0) = Some (b, st) ->
  (exists added, rows st = F0 ++ added) /\ NoDup (rows st) /\ wf_facts arities (rows st) = true
  /\ (b = true -> strat_model_fixed I (plan_strata P pl) F0 (rows st))
  /\ (forall M, strat_model_fixed I (plan_strata P pl) F0 M -> incl (rows st) M)
  /\ (forall fuel' st' M, run_plan I swap fuel' pl st = Some st' ->
        strat_model_fixed I (plan_strata P pl) F0 M -> forall f, In f (rows st') <-> In f M).
Proof. intros I swap. exact (run_timeout_strat I swap (eval_variant_spec_agg I swap)). Qed.

(* Lattice relations: "every lattice value is below the final one" and the resume theorems are c14_lattice_* at the end
   of this file, about a model of run_timeout for C03's lattice engine.
   PARTIAL (what is still not a theorem here): the real clock (web_time::Instant) is replaced by the oracle; programs
   that combine lattices WITH aggregation / negation, BYODS relations and the parallel engine are exercised by the
   ties only; the resuming run() must terminate within the fuel. *)

Print Assumptions c14_stops_sound. Print Assumptions c14_resume_run. Print Assumptions c14_resume_run_timeout. Print Assumptions c14_never_firing_clock_is_run. Print Assumptions c14_with_aggregates.

(* ================= lattice relations =================
   Model: LatEngine/LatTimeout.v run_timeout = the lattice engine of C03 (LatEval.v) with the deadline read exactly where
   __check_return_conditions!() sits - after an iteration of a looping SCC that changed something (after the merge of
   delta into total), and after a non-looping SCC - by an arbitrary clock oracle; `return false` drops the local indices
   and keeps the rows, lattice values raised in place included; the next call rebuilds every index from the rows, so the
   program value left behind IS its rows.  Proofs: LatEngine/{LatRBase,LatTimeout,LatRExample}.v.  Reading guide as in
   Props/C03.v (tle = same key and value below; dble = Hoare order on sets of facts; directed / closedH). *)
From Coq Require Import Permutation.
From AV Require Import LatEngine.LatSyntax LatEngine.LatEval LatEngine.LatPlan LatEngine.LatSem LatEngine.LatBase LatEngine.LatHead.
From AV Require Import LatEngine.LatKeys LatEngine.LatScc LatEngine.LatMain LatEngine.LatVocab LatEngine.LatExample.
From AV Require Import LatEngine.LatRBase LatEngine.LatRerun LatEngine.LatTimeout LatEngine.LatRExample.
(* the executable histories the tie evaluates next to the real code (gen/c14_lat.py): built and audited with this file *)
From AV Require Import LatEngine.LatRScript.

(* whatever run_timeout returns, at whatever point the deadline struck: the rows left are a legal input (declared
   arities, lattice elements, ONE ROW PER KEY); the input rows are in place, their values only went up; plain relations
   were only appended to, by new rows; every row is below EVERY directed closed set above the input (so every lattice
   value is below the final one); and `true` means the least fixed point *)
Theorem c14_lattice_stops_sound : forall (V : Type) (I : linterp V) islat lle jm shuffle swap_oracle arities P pl (deadline : nat -> bool) Rin fuel b R,
  veqb_ok I -> (forall r, islat r = true -> lat_laws (lle r) (jm r)) ->
  (forall n l x, In x (shuffle n l) <-> In x l) ->
  arities_functional arities -> no_agg P = true -> monotone_program I islat lle P ->
  validate arities P pl = true -> lat_plan_ok islat arities pl = true ->
  input_ok I islat lle arities Rin ->
  run_timeout I islat jm shuffle swap_oracle deadline fuel pl Rin = Some (b, R) ->
  input_ok I islat lle arities R
  /\ (forall r i row, nth_error (Rin r) i = Some row -> exists row', nth_error (R r) i = Some row' /\ tle I islat lle r row row')
  /\ (forall r, islat r = false -> exists added, R r = Rin r ++ added /\ NoDup added /\ (forall t, In t added -> ~ In t (Rin r)))
  /\ (forall J : db, directed I islat lle J -> closedH I islat lle P J -> dble I islat lle (dbof Rin) J -> dble I islat lle (dbof R) J)
  /\ (b = true -> directed I islat lle (dbof R) /\ closedH I islat lle P (dbof R) /\ dble I islat lle (dbof Rin) (dbof R) /\
                 forall J : db, directed I islat lle J -> closedH I islat lle P J -> dble I islat lle (dbof Rin) J -> dble I islat lle (dbof R) J).
Proof.
  intros V I islat lle jm shuffle swap_oracle arities P pl deadline Rin fuel b R H1 H2 H3 H4 H5 H6 H7 H8.
  exact (lat_timeout_correct I H1 islat lle jm H2 shuffle H3 swap_oracle arities H4 P H5 H6 pl H7 H8 deadline Rin fuel b R).
Qed.

(* every row left by an interrupted call is below the row with the same key of an uninterrupted run *)
Theorem c14_lattice_below_final : forall (V : Type) (I : linterp V) islat lle jm shuffle swap_oracle arities P pl (deadline : nat -> bool) Rin fuel b R fuel0 st0,
  veqb_ok I -> (forall r, islat r = true -> lat_laws (lle r) (jm r)) ->
  (forall n l x, In x (shuffle n l) <-> In x l) ->
  arities_functional arities -> no_agg P = true -> monotone_program I islat lle P ->
  validate arities P pl = true -> lat_plan_ok islat arities pl = true ->
  input_ok I islat lle arities Rin ->
  run_timeout I islat jm shuffle swap_oracle deadline fuel pl Rin = Some (b, R) ->
  run_plan I islat jm shuffle swap_oracle fuel0 pl Rin = Some st0 ->
  forall r row, In row (R r) -> exists row', In row' (l_rows st0 r) /\ tle I islat lle r row row'.
Proof.
  intros V I islat lle jm shuffle swap_oracle arities P pl deadline Rin fuel b R fuel0 st0 H1 H2 H3 H4 H5 H6 H7 H8.
  exact (lat_timeout_below_final I H1 islat lle jm H2 shuffle H3 swap_oracle arities H4 P H5 H6 pl H7 H8 deadline Rin fuel b R fuel0 st0).
Qed.

(* resumed Rin R: the rows R are left by ANY number of calls of run_timeout (each with its own clock and fuel, interrupted
   or not), one after the other, starting from the input Rin.  Such rows are still sound w.r.t. the ORIGINAL input *)
Theorem c14_lattice_resumed_sound : forall (V : Type) (I : linterp V) islat lle jm shuffle swap_oracle arities P pl Rin R,
  veqb_ok I -> (forall r, islat r = true -> lat_laws (lle r) (jm r)) ->
  (forall n l x, In x (shuffle n l) <-> In x l) ->
  arities_functional arities -> no_agg P = true -> monotone_program I islat lle P ->
  validate arities P pl = true -> lat_plan_ok islat arities pl = true ->
  input_ok I islat lle arities Rin -> resumed I islat jm shuffle swap_oracle pl Rin R ->
  input_ok I islat lle arities R
  /\ (forall r i row, nth_error (Rin r) i = Some row -> exists row', nth_error (R r) i = Some row' /\ tle I islat lle r row row')
  /\ (forall r, islat r = false -> exists added, R r = Rin r ++ added /\ NoDup added /\ (forall t, In t added -> ~ In t (Rin r)))
  /\ (forall J : db, directed I islat lle J -> closedH I islat lle P J -> dble I islat lle (dbof Rin) J -> dble I islat lle (dbof R) J).
Proof.
  intros V I islat lle jm shuffle swap_oracle arities P pl Rin R H1 H2 H3 H4 H5 H6 H7 H8.
  exact (lat_resumed_correct I H1 islat lle jm H2 shuffle H3 swap_oracle arities H4 P H5 H6 pl H7 H8 Rin R).
Qed.

(* calling run() afterwards completes to exactly the least fixed point of the ORIGINAL input: the rows of a single
   uninterrupted run() (the same rows in every relation; one row per key, so the same number of rows in lattice relations) *)
Theorem c14_lattice_resume_run : forall (V : Type) (I : linterp V) islat lle jm shuffle swap_oracle arities P pl Rin R fuel st,
  veqb_ok I -> (forall r, islat r = true -> lat_laws (lle r) (jm r)) ->
  (forall n l x, In x (shuffle n l) <-> In x l) ->
  arities_functional arities -> no_agg P = true -> monotone_program I islat lle P ->
  validate arities P pl = true -> lat_plan_ok islat arities pl = true ->
  input_ok I islat lle arities Rin -> resumed I islat jm shuffle swap_oracle pl Rin R ->
  run_plan I islat jm shuffle swap_oracle fuel pl R = Some st ->
  (let F := dbof (l_rows st) in
   directed I islat lle F /\ closedH I islat lle P F /\ dble I islat lle (dbof Rin) F /\
   forall J : db, directed I islat lle J -> closedH I islat lle P J -> dble I islat lle (dbof Rin) J -> dble I islat lle F J) /\
  forall fuel0 st0, run_plan I islat jm shuffle swap_oracle fuel0 pl Rin = Some st0 ->
    (forall r t, In t (l_rows st r) <-> In t (l_rows st0 r)) /\ (forall r, islat r = true -> Permutation (l_rows st r) (l_rows st0 r)).
Proof.
  intros V I islat lle jm shuffle swap_oracle arities P pl Rin R fuel st H1 H2 H3 H4 H5 H6 H7 H8.
  exact (lat_timeout_resume_run I H1 islat lle jm H2 shuffle H3 swap_oracle arities H4 P H5 H6 pl H7 H8 Rin R fuel st).
Qed.

(* ... and a later run_timeout that returns true has reached that same least fixed point of the original input *)
Theorem c14_lattice_resume_run_timeout : forall (V : Type) (I : linterp V) islat lle jm shuffle swap_oracle arities P pl Rin R (deadline : nat -> bool) fuel R',
  veqb_ok I -> (forall r, islat r = true -> lat_laws (lle r) (jm r)) ->
  (forall n l x, In x (shuffle n l) <-> In x l) ->
  arities_functional arities -> no_agg P = true -> monotone_program I islat lle P ->
  validate arities P pl = true -> lat_plan_ok islat arities pl = true ->
  input_ok I islat lle arities Rin -> resumed I islat jm shuffle swap_oracle pl Rin R ->
  run_timeout I islat jm shuffle swap_oracle deadline fuel pl R = Some (true, R') ->
  directed I islat lle (dbof R') /\ closedH I islat lle P (dbof R') /\ dble I islat lle (dbof Rin) (dbof R') /\
  forall J : db, directed I islat lle J -> closedH I islat lle P J -> dble I islat lle (dbof Rin) J -> dble I islat lle (dbof R') J.
Proof.
  intros V I islat lle jm shuffle swap_oracle arities P pl Rin R deadline fuel R' H1 H2 H3 H4 H5 H6 H7 H8.
  exact (lat_timeout_resume_true I H1 islat lle jm H2 shuffle H3 swap_oracle arities H4 P H5 H6 pl H7 H8 Rin R deadline fuel R').
Qed.

(* run() is run_timeout with a clock that never fires (timeout = Duration::MAX) *)
Theorem c14_lattice_never_firing_clock_is_run : forall (V : Type) (I : linterp V) islat jm shuffle swap_oracle fuel pl R,
  run_timeout I islat jm shuffle swap_oracle (fun _ => false) fuel pl R =
  option_map (fun st' => (true, l_rows st')) (run_plan I islat jm shuffle swap_oracle fuel pl R).
Proof. intros V I islat jm shuffle swap_oracle. exact (lat_timeout_never I islat jm shuffle swap_oracle). Qed.

(* non-vacuity on the shortest-path program of c03_example_hypotheses (legal input: c13_lattice_example_input): the third
   deadline reading fires in the middle of the recursive SCC - 21 of the 25 distances are there, 0 -> 4 stands at 6
   (final: 4), near is still empty - and run() afterwards returns the rows of an uninterrupted run; after two
   interruptions in a row the resumed run holds the same rows in a different order *)
Example c14_lattice_example_runs :
  match sp_run_t 3 sp_input, sp_run sp_input with
  | Some (b, R), Some st0 =>
      b = false /\ length (R 1%nat) = 21%nat /\ In [0; 4; 6]%Z (R 1%nat) /\ In [0; 4; 4]%Z (l_rows st0 1%nat) /\ R 2%nat = [] /\
      option_map (fun st => sp_obs (l_rows st)) (sp_run R) = Some (sp_obs (l_rows st0))
  | _, _ => False
  end.
Proof. exact sp_timeout_runs. Qed.
Example c14_lattice_example_twice :
  match sp_run_t 2 sp_input, sp_run sp_input with
  | Some (b1, R1), Some st0 =>
      match sp_run_t 2 R1 with
      | Some (b2, R2) =>
          match sp_run R2 with
          | Some st => b1 = false /\ b2 = false /\ same_rows (l_rows st 1%nat) (l_rows st0 1%nat) = true /\
                       same_rows (l_rows st 2%nat) (l_rows st0 2%nat) = true /\ l_rows st 2%nat <> l_rows st0 2%nat
          | None => False
          end
      | None => False
      end
  | _, _ => False
  end.
Proof. exact sp_timeout_twice_runs. Qed.

Print Assumptions c14_lattice_stops_sound. Print Assumptions c14_lattice_below_final. Print Assumptions c14_lattice_resumed_sound.
Print Assumptions c14_lattice_resume_run. Print Assumptions c14_lattice_resume_run_timeout. Print Assumptions c14_lattice_never_firing_clock_is_run.
Print Assumptions c14_lattice_example_runs. Print Assumptions c14_lattice_example_twice.
