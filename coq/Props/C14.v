(* C14 — run_timeout stops only in a sound, resumable state.
   Property theorems only; proofs in Engine/{TimeoutProofs,MainTimeout}.v.  Model: Engine/Timeout.v — the clock is
   an arbitrary oracle consulted exactly where the generated code checks the deadline, so "at whatever point the
   deadline struck" is the universal quantifier over [deadline]. *)
From Coq Require Import List ZArith Bool.
From AV Require Import Engine.Core Engine.Sem Engine.Eval Engine.Validate Engine.Naive Engine.Interface Engine.Timeout Engine.InterfaceTimeout Engine.TimeoutProofs Engine.MainTimeout.
From AV Require Import Engine.InterfaceAgg Engine.Strat Engine.StratFixed Engine.EvalSpecAgg Engine.SemiNaiveAgg Engine.TimeoutProofsAgg.
Import ListNotations.

(* true => the full fixed point; in every case: inputs kept in place, every tuple present is derivable (the rows are
   below every closed superset of the input), nothing added twice *)
Theorem c14_stops_sound : forall (I : interp) swap (deadline : nat -> bool) arities P pl fuel F0 b st,
  arities_functional arities -> wf_facts arities F0 = true -> no_agg P = true ->
  validate arities P pl = true ->
  run_timeout I swap deadline fuel pl (init_state F0) = Some (b, st) ->
  (forall M', incl F0 M' -> closed I P M' -> incl (rows st) M')
  /\ (exists added, rows st = F0 ++ added /\ NoDup added /\ (forall f, In f added -> ~ In f F0))
  /\ wf_facts arities (rows st) = true
  /\ (b = true -> least_model I P F0 (rows st)).
Proof. exact run_timeout_correct_full. Qed.

(* calling run() afterwards completes to exactly the fixed point of a single uninterrupted run() *)
Theorem c14_resume_run : forall I swap (deadline : nat -> bool) arities P pl fuel fuel' F0 b st st',
  arities_functional arities -> wf_facts arities F0 = true -> no_agg P = true -> validate arities P pl = true ->
  run_timeout I swap deadline fuel pl (init_state F0) = Some (b, st) ->
  run_plan I swap fuel' pl st = Some st' ->
  least_model I P F0 (rows st').
Proof. exact timeout_then_run. Qed.

(* repeated interruptions stay sound w.r.t. the ORIGINAL input, and a later `true` is the original fixed point *)
Theorem c14_resume_run_timeout : forall I swap (d1 d2 : nat -> bool) arities P pl fuel fuel' F0 b1 st1 b2 st2,
  arities_functional arities -> wf_facts arities F0 = true -> no_agg P = true -> validate arities P pl = true ->
  run_timeout I swap d1 fuel pl (init_state F0) = Some (b1, st1) ->
  run_timeout I swap d2 fuel' pl st1 = Some (b2, st2) ->
  (forall M', incl F0 M' -> closed I P M' -> incl (rows st2) M')
  /\ incl F0 (rows st2) /\ wf_facts arities (rows st2) = true
  /\ (b2 = true -> least_model I P F0 (rows st2)).
Proof. exact timeout_then_timeout. Qed.

(* run() is run_timeout with a clock that never fires (timeout = Duration::MAX) *)
Theorem c14_never_firing_clock_is_run : forall I swap fuel pl st,
  run_timeout I swap (fun _ => false) fuel pl st = option_map (fun st' => (true, st')) (run_plan I swap fuel pl st).
Proof. exact run_timeout_never. Qed.

(* with aggregation / negation (duplicate-free input, permutation-invariant aggregators), for every clock: inputs in
   place, rows duplicate free; `true` means the stratified model; an interrupted state holds only facts of the
   stratified model; resuming with run() reaches exactly the stratified model of the original input *)
Theorem c14_with_aggregates : forall (I : interp) swap (deadline : nat -> bool) arities P pl fuel F0 b st,
  arities_functional arities -> wf_facts arities F0 = true -> NoDup F0 -> agg_perm_invariant I ->
  validate arities P pl = true ->
  run_timeout I swap deadline fuel pl (init_state F0) = Some (b, st) ->
  (exists added, rows st = F0 ++ added) /\ NoDup (rows st) /\ wf_facts arities (rows st) = true
  /\ (b = true -> strat_model_fixed I (plan_strata P pl) F0 (rows st))
  /\ (forall M, strat_model_fixed I (plan_strata P pl) F0 M -> incl (rows st) M)
  /\ (forall fuel' st' M, run_plan I swap fuel' pl st = Some st' ->
        strat_model_fixed I (plan_strata P pl) F0 M -> forall f, In f (rows st') <-> In f M).
Proof. intros I swap. exact (run_timeout_strat I swap (eval_variant_spec_agg I swap)). Qed.

(* PARTIAL: lattice relations ("every lattice value is below the final one": C03's c03_sound_at_every_iteration gives
   soundness of every intermediate state of the lattice engine, not yet phrased for run_timeout); the real clock
   (web_time::Instant) is replaced by the oracle. *)

Print Assumptions c14_stops_sound. Print Assumptions c14_resume_run. Print Assumptions c14_resume_run_timeout. Print Assumptions c14_never_firing_clock_is_run. Print Assumptions c14_with_aggregates.
