(* C04 — negation and aggregation see the complete relation, each tuple once.
   Property theorems only; proofs in Engine/{EvalSpecAgg,AggLemmas,StrataAgg,SemiNaiveAgg,StratFixedLemmas,MainAgg}.v.
   Negation !r(args) is the aggregate `agg () = not() in r(args)` (Engine/Core.v BAgg with out = None). *)
From Coq Require Import List ZArith Bool Permutation.
From AV Require Import Engine.Core Engine.Sem Engine.Eval Engine.Validate Engine.Naive Engine.Interface Engine.InterfaceAgg.
From AV Require Import Engine.Strat Engine.StratFixed Engine.StratFixedLemmas Engine.SemiNaiveAgg Engine.StratRefuted Engine.MainAgg Engine.Vocab.
From AV Require Engine.StrataAgg.
From AV Require Engine.ChangedFlag.
From AV Require LatEngine.LatSyntax.
From AV Require LatEngine.LatEval.
From AV Require LatEngine.LatSem.
From AV Require LatEngine.LatKeys.
From AV Require LatEngine.LatVocab.
From AV Require LatEngine.LatExample.
From AV Require LatEngine.LatAggEval.
From AV Require LatEngine.LatAggTrans.
From AV Require LatEngine.LatAggInv.
From AV Require LatEngine.LatAggSem.
From AV Require LatEngine.LatAggStrata.
From AV Require LatEngine.LatAggMain.
From AV Require LatEngine.LatAggExample.
Import ListNotations.

(* For every interpretation whose aggregators depend only on the multiset of their input, every plan accepted by the
   validator and every duplicate-free input: the rules are grouped into strata that respect the dependencies
   (aggregated relations are produced strictly earlier), and the rows after run() are the STRATIFIED MODEL: stratum
   after stratum, the least set closed under the stratum's rules that extends the completed lower strata and leaves
   the relations it aggregates untouched — where an aggregate ranges over the DISTINCT matching tuples of the whole
   relation (Sem.all_envs: dedup_tuples (filter ...)) and the rule continues once per value the aggregator returns. *)
Theorem c04_stratified_model : forall (I : interp) (swap : list tuple -> list tuple -> bool) arities P pl fuel F0 st,
  arities_functional arities -> wf_facts arities F0 = true -> NoDup F0 -> agg_perm_invariant I ->
  validate arities P pl = true ->
  run_plan I swap fuel pl (init_state F0) = Some st ->
  stratified (plan_strata P pl) = true
  /\ (forall r, In r P <-> In r (concat (plan_strata P pl)))
  /\ strat_model_fixed I (plan_strata P pl) F0 (rows st)
  /\ NoDup (rows st)
  /\ exists added, rows st = F0 ++ added.
Proof. exact run_plan_strat_correct_full. Qed.

(* the stratified model is unique (as a set), and without aggregates it is the least model of C01 *)
Theorem c04_stratified_model_unique : forall I strata F F' M M',
  (forall f, In f F <-> In f F') -> strat_model_fixed I strata F M -> strat_model_fixed I strata F' M' -> forall f, In f M <-> In f M'.
Proof. exact strat_model_fixed_unique. Qed.
Theorem c04_no_agg_is_least_model : forall I s F M, no_agg s = true -> (least_model_fixed I s F M <-> least_model I s F M).
Proof. exact least_model_fixed_no_agg. Qed.

(* the library aggregators of the vocabulary meet the hypothesis (C17) *)
Theorem c04_shipped_aggregators_perm_invariant : agg_perm_invariant std_interp.
Proof. exact std_interp_agg_perm_invariant. Qed.

(* why the lower strata must be held fixed: without that clause no model exists at all for an aggregating stratum
   (first formulation of this property, refuted with a computed witness) *)
Theorem c04_unconstrained_least_model_refuted : exists I swap, ~ run_plan_strat_correct_stmt I swap.
Proof. exact run_plan_strat_correct_stmt_refuted. Qed.

Print Assumptions c04_stratified_model. Print Assumptions c04_stratified_model_unique. Print Assumptions c04_no_agg_is_least_model.
Print Assumptions c04_shipped_aggregators_perm_invariant. Print Assumptions c04_unconstrained_least_model_refuted.

(* ------------------------------------------------------------------------------------------------------------------
   C04 over LATTICES (proofs in LatEngine/LatAgg*.v; names of that development are written qualified).
   For every value type V, interpretation, lattice (order + join_mut obeying lat_laws) per lattice relation,
   permutation-invariant aggregators, every iteration order of the hash indices (shuffle / ashuffle) and every
   len_estimate answer: for a plan accepted by the validator (producers of an aggregated relation in strictly earlier
   SCCs) and by the lattice index check, a monotone program whose aggregates have plain key expressions and a plain
   output variable, an input with one row per key / no duplicate rows, and a terminating run of the model of the
   generated code WITH the MirBodyItem::Agg arm (LatAggEval.arun_plan): the rules are grouped into strata respecting the
   dependencies, and the rows after run() are the STRATIFIED LATTICE MODEL - stratum after stratum R0 -> R1 with
   (LatAggSem.stratum_lfp): R1 leaves the aggregated relations untouched, holds one row per key of every lattice
   relation and no duplicate row, is closed under the stratum's rules where an aggregate / negation ranges over the
   rows of R0 whose key columns carry the key - EACH ROW ONCE, ONE ROW PER KEY FOR A LATTICE -, is above R0, and is
   below every per-key directed set with these two properties (least fixed point, C03's notion). *)
Theorem c04_lattice_stratified_model : forall (V : Type) (I : LatSyntax.linterp V), LatSyntax.veqb_ok I ->
  forall vagg : nat -> list (list V) -> list V, (forall a l l', Permutation l l' -> vagg a l = vagg a l') ->
  forall (islat : rel -> bool) (lle : rel -> V -> V -> Prop) (jm : rel -> V -> V -> V * bool),
  (forall r, islat r = true -> LatSem.lat_laws (lle r) (jm r)) ->
  forall shuffle : nat -> list nat -> list nat, (forall n l x, In x (shuffle n l) <-> In x l) ->
  forall ashuffle : nat -> list nat -> list nat, (forall n l, Permutation (ashuffle n l) l) ->
  forall (swap_oracle : nat -> list nat -> list nat -> bool) (arities : list (rel * nat)), arities_functional arities ->
  forall (P : list rule) (N : var), LatAggSem.amonotone_program I islat lle N P ->
  forall pl : plan, validate arities P pl = true -> LatAggEval.alat_plan_ok islat arities pl = true -> LatAggTrans.plan_below N pl = true ->
  forall (fuel : nat) (Rin : rel -> list (LatSyntax.vtuple V)) (st : LatEval.lstate), LatAggMain.ainput_ok I islat lle arities Rin ->
  LatAggEval.arun_plan I vagg islat jm shuffle ashuffle swap_oracle fuel pl Rin = Some st ->
  stratified (plan_strata P pl) = true
  /\ (forall r, In r P <-> In r (concat (plan_strata P pl)))
  /\ LatAggSem.strat_lat_model I vagg islat lle (plan_strata P pl) Rin (LatEval.l_rows st)
  /\ LatKeys.keys_ok islat (LatEval.l_rows st) /\ LatAggInv.plain_nodup islat (LatEval.l_rows st).
Proof. exact @LatAggMain.lat_agg_stratified_model. Qed.

(* the rows an aggregate of a stratum ranges over are the FINAL rows of the aggregated relation: neither the SCC of the
   aggregate nor any later one changes them *)
Theorem c04_lattice_aggregated_final : forall (V : Type) (I : LatSyntax.linterp V), LatSyntax.veqb_ok I ->
  forall vagg : nat -> list (list V) -> list V, (forall a l l', Permutation l l' -> vagg a l = vagg a l') ->
  forall (islat : rel -> bool) (lle : rel -> V -> V -> Prop) (jm : rel -> V -> V -> V * bool),
  (forall r, islat r = true -> LatSem.lat_laws (lle r) (jm r)) ->
  forall shuffle : nat -> list nat -> list nat, (forall n l x, In x (shuffle n l) <-> In x l) ->
  forall ashuffle : nat -> list nat -> list nat, (forall n l, Permutation (ashuffle n l) l) ->
  forall (swap_oracle : nat -> list nat -> list nat -> bool) (arities : list (rel * nat)), arities_functional arities ->
  forall (P : list rule) (N : var), LatAggSem.amonotone_program I islat lle N P ->
  forall pl : plan, validate arities P pl = true -> LatAggEval.alat_plan_ok islat arities pl = true -> LatAggTrans.plan_below N pl = true ->
  forall (fuel : nat) (pre : list pscc) (sc : pscc) (rest : list pscc) (st st' : LatEval.lstate),
  pl = pre ++ sc :: rest -> LatAggStrata.AG I islat lle arities st ->
  LatAggEval.arun_sccs I vagg islat jm shuffle ashuffle swap_oracle fuel (sc :: rest) st = Some st' ->
  forall q, In q (stratum_agg_rels (StrataAgg.stratum_of P sc)) -> LatEval.l_rows st' q = LatEval.l_rows st q.
Proof. exact @LatAggMain.lat_agg_aggregated_final. Qed.

(* the shipped aggregators (Agg/AggModel.v, C17) meet the permutation hypothesis *)
Theorem c04_lattice_shipped_aggregators : forall a l l', Permutation l l' -> std_aint a l = std_aint a l'.
Proof. exact LatAggExample.ag_agg_perm. Qed.

(* non-vacuity: shortest paths over Dual (a lattice raised over several iterations) with a count and a negation over it, on
   the plan shape the macro produces: every hypothesis holds, the model runs, and the theorem applies *)
Theorem c04_lattice_example : exists st,
  LatAggEval.arun_plan LatVocab.lv_interp std_aint LatExample.sp_islat LatExample.sp_jm LatVocab.lv_shuffle LatVocab.lv_shuffle LatVocab.lv_swap 40
                       LatAggExample.ag_plan LatAggExample.ag_input = Some st
  /\ LatAggSem.strat_lat_model LatVocab.lv_interp std_aint LatExample.sp_islat LatExample.sp_lle
                               (plan_strata LatAggExample.ag_prog LatAggExample.ag_plan) LatAggExample.ag_input (LatEval.l_rows st)
  /\ LatKeys.keys_ok LatExample.sp_islat (LatEval.l_rows st).
Proof. exact LatAggExample.ag_instance. Qed.

Print Assumptions c04_lattice_stratified_model. Print Assumptions c04_lattice_aggregated_final.
Print Assumptions c04_lattice_shipped_aggregators. Print Assumptions c04_lattice_example.

(* ------------------------------------------------------------------------------------------------------------------
   The `__changed` flag of the fixpoint loop (Engine/ChangedFlag.v): the generated loop of a looping SCC does not test
   "no new fact", it tests a flag that the head updates set; after the loop only `total` is written back, the last
   `delta` is dropped.  [flag sc r] = an insertion into relation r inside SCC sc sets the flag.  Whenever every head
   relation of every looping SCC sets it (the generated code: every head clause does), the flagged engine is
   Eval.run_plan and computes the stratified model - what a later stratum's negation / aggregate reads is complete. *)
Theorem c04_changed_flag_engine_is_run_plan : forall I swap flag fuel pl st,
  ChangedFlag.plan_flag_covers flag pl -> ChangedFlag.run_plan_flag I swap flag fuel pl st = run_plan I swap fuel pl st.
Proof. exact ChangedFlag.run_plan_flag_eq. Qed.

Theorem c04_changed_flag_stratified_model : forall (I : interp) (swap : list tuple -> list tuple -> bool) flag arities P pl fuel F0 st,
  arities_functional arities -> wf_facts arities F0 = true -> NoDup F0 -> agg_perm_invariant I ->
  validate arities P pl = true -> ChangedFlag.plan_flag_covers flag pl ->
  ChangedFlag.run_plan_flag I swap flag fuel pl (init_state F0) = Some st ->
  stratified (plan_strata P pl) = true
  /\ (forall r, In r P <-> In r (concat (plan_strata P pl)))
  /\ strat_model_fixed I (plan_strata P pl) F0 (rows st)
  /\ NoDup (rows st)
  /\ exists added, rows st = F0 ++ added.
Proof. exact ChangedFlag.run_plan_flag_strat_correct. Qed.

(* ... and the hypothesis cannot be weakened to "relations that some rule of the SCC reads": for
   p(x, y) <-- e(x, y);  p(x, z), v(x, z, y) <-- p(x, y), e(y, z);  c(n) <-- agg n = count() in v(_, _, _)   on a graph with two
   routes of different length the tuples v receives in the last productive iteration never reach the stored index, the count
   is 3 instead of 4 (ChangedFlag.w_flagged_count), and the rows are NOT the stratified model *)
Theorem c04_changed_flag_only_for_read_heads_refuted : exists arities P pl F0 fuel st,
  arities_functional arities /\ wf_facts arities F0 = true /\ NoDup F0 /\ agg_perm_invariant std_interp /\ validate arities P pl = true
  /\ ChangedFlag.run_plan_flag std_interp std_swap ChangedFlag.flag_read_in_scc fuel pl (init_state F0) = Some st
  /\ ~ strat_model_fixed std_interp (plan_strata P pl) F0 (rows st).
Proof. exact ChangedFlag.changed_flag_read_in_scc_refuted. Qed.

Print Assumptions c04_changed_flag_engine_is_run_plan. Print Assumptions c04_changed_flag_stratified_model.
Print Assumptions c04_changed_flag_only_for_read_heads_refuted.

(* ================= through the PLANNER model (Plan/PlanModel.v compile_model, Plan/PlanLat*.v) =================
   The plan need not be dumped and checked per program: for every core program meeting wf_core and the decidable wf_lat (exact:
   c03_wf_lat_exact) and every SCC partition meeting sccs_ok, the plan the planner model computes passes the validator AND the
   lattice plan checks, so planner + lattice engine (serial and parallel models) compute the least fixed point / stratified model.
   Tied by gen/plan_lat.py (model plan = dumped plan on lattice programs; hypotheses evaluated on every real desugared program). *)
From Coq Require Import List ZArith Bool Arith Permutation.
From AV Require Import Engine.Core Engine.Eval Engine.Validate Engine.Naive Engine.InterfaceAgg Engine.Strat.
From AV Require Import LatEngine.LatSyntax LatEngine.LatEval LatEngine.LatPlan LatEngine.LatSem LatEngine.LatKeys LatEngine.LatMain.
From AV Require Import LatEngine.LatAggEval LatEngine.LatAggTrans LatEngine.LatAggInv LatEngine.LatAggSem LatEngine.LatAggMain.
From AV Require Import LatEngine.LatParModel LatEngine.LatParMain LatEngine.LatParAggModel LatEngine.LatParAggMain.
From AV Require Import LatEngine.LatVocab LatEngine.LatExample.
From AV Require Import Plan.PlanModel Plan.PlanWf Plan.PlanProofs Plan.PlanLatWf Plan.PlanLatProofs Plan.PlanLatMain.
Import ListNotations.
(* ================================================================ for Props/C04.v ================================================================ *)

(* the two extra plan hypotheses of the C04-over-lattices theorems, for the computed plan *)
Theorem c04_planner_alat_plan_ok : forall islat arities P sccs,
  wf_lat islat arities P = true -> alat_plan_ok islat arities (compile_model arities P sccs) = true.
Proof. exact compile_model_alat_plan_ok. Qed.

Theorem c04_planner_plan_below : forall N arities P sccs,
  prog_below N P = true -> plan_below N (compile_model arities P sccs) = true.
Proof. exact compile_model_plan_below. Qed.

Theorem c04_prog_N_is_bound : forall P, prog_below (prog_N P) P = true.
Proof. exact prog_N_below. Qed.

(* the stratified lattice model with the plan COMPUTED (serial engine with the MirBodyItem::Agg arm) *)
Theorem c04_planner_lattice_stratified_model :
  forall (V : Type) (I : linterp V) vagg islat lle jm shuffle ashuffle swap_oracle arities P N sccs fuel Rin st,
  veqb_ok I -> (forall a l l', Permutation l l' -> vagg a l = vagg a l') ->
  (forall r, islat r = true -> lat_laws (lle r) (jm r)) ->
  (forall n l x, In x (shuffle n l) <-> In x l) -> (forall n l, Permutation (ashuffle n l) l) ->
  arities_functional arities -> amonotone_program I islat lle N P ->
  wf_core arities P = true -> wf_lat islat arities P = true -> prog_below N P = true -> sccs_ok P sccs = true ->
  ainput_ok I islat lle arities Rin ->
  arun_plan I vagg islat jm shuffle ashuffle swap_oracle fuel (compile_model arities P sccs) Rin = Some st ->
  let strata := plan_strata P (compile_model arities P sccs) in
  stratified strata = true
  /\ (forall r, In r P <-> In r (concat strata))
  /\ strat_lat_model I vagg islat lle strata Rin (l_rows st)
  /\ keys_ok islat (l_rows st) /\ plain_nodup islat (l_rows st).
Proof. exact planner_lat_agg_engine_stratified_model. Qed.

(* ... for every run of the parallel model of the computed plan *)
Theorem c04_planner_par_lattice_stratified_model :
  forall (V : Type) (I : linterp V) vagg islat lle jm arities P N sccs Rin st,
  veqb_ok I -> (forall a l l', Permutation l l' -> vagg a l = vagg a l') ->
  (forall r, islat r = true -> lat_laws (lle r) (jm r)) ->
  arities_functional arities -> amonotone_program I islat lle N P ->
  wf_core arities P = true -> wf_lat islat arities P = true -> prog_below N P = true -> sccs_ok P sccs = true ->
  ainput_ok I islat lle arities Rin ->
  par_lat_agg_run_plan I vagg islat jm (compile_model arities P sccs) Rin st ->
  let strata := plan_strata P (compile_model arities P sccs) in
  stratified strata = true
  /\ (forall r, In r P <-> In r (concat strata))
  /\ strat_lat_model I vagg islat lle strata Rin (l_rows st)
  /\ keys_ok islat (l_rows st) /\ plain_nodup islat (l_rows st).
Proof. exact planner_par_lat_agg_engine_stratified_model. Qed.

(* ... and the strata are the SCCs of the partition handed to the planner *)
Theorem c04_planner_strata_are_sccs : forall arities P sccs, sccs_ok P sccs = true ->
  Forall2 (fun stratum scc => forall r, In r stratum <-> exists j, In j scc /\ nth_error P j = Some r)
          (plan_strata P (compile_model arities P sccs)) sccs.
Proof. exact planner_lat_strata_are_sccs. Qed.

Print Assumptions c04_planner_alat_plan_ok.
Print Assumptions c04_planner_plan_below.
Print Assumptions c04_prog_N_is_bound.
Print Assumptions c04_planner_lattice_stratified_model.
Print Assumptions c04_planner_par_lattice_stratified_model.
Print Assumptions c04_planner_strata_are_sccs.

(* ================= PARAMETERISED AGGREGATORS (Engine/AggParamModel.v, AggParam.v, AggParamExample.v) =================
   The aggregator EXPRESSION of an agg clause may mention rule variables bound by earlier body items
   (`agg v = (percentile(p as f64))(x) in r(k, x)`, user-defined parameterised aggregators).  Source language: core items +
   PBAggP out a ps bound r args (ps = the rule variables the aggregator expression mentions); its specification semantics
   p_all_envs hands the aggregator OF THE BINDING (paint a <values of ps in the binding>) the aggregated columns of the
   DISTINCT rows of the whole relation that agree with the binding's key, and continues once per value returned.
   The generated code evaluates such a clause in two steps (collect the matching rows; apply the aggregator closure built
   from the binding and loop over its results); tr_rule is that factorisation inside the core language (BAgg COLLECT into a
   fresh variable, then BGen APPLY over parameters ++ [collected rows]), so the proved engine theorem covers it: *)
From AV Require Import Engine.AggParamModel.
From AV Require Import Engine.AggParam.
From AV Require Engine.AggParamExample.

(* for every interpretation whose aggregators (plain and parameterised) depend only on the multiset of their input, every
   program with parameterised aggregates whose rules read only variables below w, every plan of the translated program
   accepted by the validator and every duplicate-free input: the rows after run() of the engine model are the STRATIFIED
   MODEL OF THE SOURCE PROGRAM (p_strat_model_fixed: least_model_fixed of StratFixed.v over p_derive_rule) *)
Theorem c04_param_agg_stratified_model : forall (PI : pinterp) (swap : list Core.tuple -> list Core.tuple -> bool) arities (PP : list prule) w pl fuel F0 st,
  Naive.arities_functional arities -> Naive.wf_facts arities F0 = true -> NoDup F0 -> p_agg_perm_invariant PI ->
  (forall r, In r PP -> prule_below w r) ->
  Validate.validate arities (tr_prog w PP) pl = true ->
  Eval.run_plan (tr_interp PI) swap fuel pl (Eval.init_state F0) = Some st ->
  p_stratified (p_plan_strata PP pl) = true
  /\ (forall r, In r PP <-> In r (concat (p_plan_strata PP pl)))
  /\ p_strat_model_fixed PI (p_plan_strata PP pl) F0 (Eval.rows st)
  /\ NoDup (Eval.rows st)
  /\ exists added, Eval.rows st = F0 ++ added.
Proof. exact agg_param_stratified_model. Qed.

(* the translation lemma behind it: rule by rule, the translated rule derives EXACTLY the facts (same list) the source rule
   derives under the parameterised semantics *)
Theorem c04_param_agg_translation : forall (PI : pinterp),
  (forall a pv l l', Permutation l l' -> paint PI a pv l = paint PI a pv l') ->
  forall (w0 : Core.var) (db : Core.rel -> list Core.tuple) (r : prule), prule_below w0 r ->
  Sem.derive_rule (tr_interp PI) db (tr_rule w0 r) = p_derive_rule PI db r.
Proof. exact tr_rule_derive. Qed.

(* the extension is conservative: on a rule without parameterised aggregates the new semantics is Sem.derive_rule *)
Theorem c04_param_agg_conservative : forall PI db r,
  p_derive_rule PI db {| pheads := Core.heads r; pbody := map PB (Core.body r) |} = Sem.derive_rule (pbase PI) db r.
Proof. exact p_derive_rule_core. Qed.

(* non-vacuity:  out(k, p, v) <-- want(k, p), agg v = (nth(p))(x) in raw(k, x)  with two bindings sharing the key: every
   hypothesis holds, the engine model runs on the translated plan, its rows are the source program's stratified model *)
Theorem c04_param_agg_example : exists st,
  Eval.run_plan (tr_interp AggParamExample.ex_PI) Vocab.std_swap 10 AggParamExample.ex_plan (Eval.init_state AggParamExample.ex_F0) = Some st
  /\ p_strat_model_fixed AggParamExample.ex_PI (p_plan_strata AggParamExample.ex_PP AggParamExample.ex_plan) AggParamExample.ex_F0 (Eval.rows st)
  /\ Core.db_of (Eval.rows st) 2%nat = [[1; 0; 1]; [1; 2; 3]; [2; 0; 2]]%Z.
Proof. exact AggParamExample.agg_param_example. Qed.

(* a memo table for the agg clause keyed by the INDEX KEY ONLY (memo_derive_rule .. false: the first binding's values are
   reused by every later binding with the same key, whatever its parameter) does NOT compute the rule's meaning: with the
   multi-valued at_least(p) the binding (key 1, p = 2) fires for the values computed for p = 0 *)
Theorem c04_agg_memo_by_key_ignoring_parameters_refuted : exists (PI : pinterp) (F : list Core.fact) (r : prule),
  p_agg_perm_invariant PI /\ NoDup F
  /\ ~ (forall f, In f (memo_derive_rule PI false (Core.db_of F) r) <-> In f (p_derive_rule PI (Core.db_of F) r)).
Proof. exact AggParamExample.agg_memo_by_key_refuted. Qed.

Print Assumptions c04_param_agg_stratified_model. Print Assumptions c04_param_agg_translation. Print Assumptions c04_param_agg_conservative.
Print Assumptions c04_param_agg_example. Print Assumptions c04_agg_memo_by_key_ignoring_parameters_refuted.

(* the parameterised aggregators of the tie's vocabulary (Engine/AggParamVocab.v: percentile(p), nth(n), cnt_above(t), at_least(t),
   top(n), between(lo, hi), scaled_cnt(m), sum_where(z); the same functions are compiled as Rust in gen/c04_param.py) meet the
   permutation hypothesis of c04_param_agg_stratified_model *)
From AV Require Engine.AggParamVocab.
Theorem c04_param_agg_tie_vocabulary_perm_invariant : forall lits, p_agg_perm_invariant (AggParamVocab.pv_interp lits).
Proof. exact AggParamExample.pv_perm. Qed.
Print Assumptions c04_param_agg_tie_vocabulary_perm_invariant.

(* ================= the per-index LATTICE engine (LatEngine/LatIndexed*.v) =================
   Every physical index of a lattice relation keeps its own content (key -> row numbers; the key index key -> one row number); the head update looks the
   key up in new / delta / total, joins in place and on a change re-inserts the row number into every index of `new` under the keys of the DERIVED tuple,
   removing nothing; reads go through the item's own index, rows read at their current value, no re-test.  Under the decidable xplan_ok (no item indexes a
   lattice column) it refines the view engine, so the lattice theorems transfer; outside it the faithful model REPRODUCES the recorded defect
   lattice_value_column_index_stale (known class = alat_plan_ok false).  Tied to the real index fields of lattice programs by gen/lat_indexed_tie.py. *)
From Coq Require Import List ZArith Bool Permutation.
From AV Require Import Engine.Core Engine.Eval Engine.Validate Engine.Naive Engine.Vocab.
From AV Require Import Engine.Strat Engine.StratFixed Engine.InterfaceAgg.
From AV Require Import LatEngine.LatSyntax LatEngine.LatEval LatEngine.LatPlan LatEngine.LatSem LatEngine.LatBase LatEngine.LatKeys.
From AV Require Import LatEngine.LatMain LatEngine.LatVocab LatEngine.LatExample.
From AV Require Import LatEngine.LatAggEval LatEngine.LatAggTrans LatEngine.LatAggInv LatEngine.LatAggSem LatEngine.LatAggMain.
From AV Require Import LatEngine.LatAggExample.
From AV Require LatEngine.LatIndexedProps.
From AV Require Import LatEngine.LatIndexedEval LatEngine.LatIndexedStore LatEngine.LatIndexedMain LatEngine.LatIndexedFinding.
Import ListNotations.

Theorem c04_lattice_indexed_refines : forall (V : Type) (I : linterp V), veqb_ok I ->
  forall (vagg : nat -> list (list V) -> list V) (islat : rel -> bool) (jm : rel -> V -> V -> V * bool)
         (shuffle : nat -> list nat -> list nat), (forall n l x, In x (shuffle n l) -> In x l) ->
  forall ashuffle : nat -> list nat -> list nat, (forall n l x, In x (ashuffle n l) -> In x l) ->
  forall (swap_oracle : nat -> list nat -> list nat -> bool) (arities : list (rel * nat)) (ds : list xdecl) (pl : plan),
  xplan_ok islat arities ds pl = true -> (forall r, islat r = true -> In r (map fst arities)) ->
  forall (fuel : nat) (Rin : rel -> list (vtuple V)) (xst : xlstate),
  rows_len islat arities Rin -> keys_ok islat Rin ->
  xrun_plan I vagg islat jm shuffle ashuffle swap_oracle (decls_of ds) fuel pl Rin = Some xst ->
  exists st, arun_plan I vagg islat jm shuffle ashuffle swap_oracle fuel pl Rin = Some st
             /\ l_rows st = l_rows (xl_s xst) /\ l_tick st = l_tick (xl_s xst)
             /\ (forall r, islat r = true -> stinv I arities ds (l_rows st) r (xl_ix xst r) (l_stored st r)).
Proof. exact @lat_indexed_refines. Qed.

Theorem c04_lattice_indexed_stratified_model : forall (V : Type) (I : linterp V), veqb_ok I ->
  forall vagg : nat -> list (list V) -> list V, (forall a l l', Permutation l l' -> vagg a l = vagg a l') ->
  forall (islat : rel -> bool) (lle : rel -> V -> V -> Prop) (jm : rel -> V -> V -> V * bool),
  (forall r, islat r = true -> lat_laws (lle r) (jm r)) ->
  forall shuffle : nat -> list nat -> list nat, (forall n l x, In x (shuffle n l) <-> In x l) ->
  forall ashuffle : nat -> list nat -> list nat, (forall n l, Permutation (ashuffle n l) l) ->
  forall (swap_oracle : nat -> list nat -> list nat -> bool) (arities : list (rel * nat)), arities_functional arities ->
  forall (P : list rule) (N : var), amonotone_program I islat lle N P ->
  forall pl : plan, validate arities P pl = true -> alat_plan_ok islat arities pl = true -> plan_below N pl = true ->
  forall ds : list xdecl, xplan_ok islat arities ds pl = true -> (forall r, islat r = true -> In r (map fst arities)) ->
  forall (fuel : nat) (Rin : rel -> list (vtuple V)) (xst : xlstate), ainput_ok I islat lle arities Rin ->
  xrun_plan I vagg islat jm shuffle ashuffle swap_oracle (decls_of ds) fuel pl Rin = Some xst ->
  stratified (plan_strata P pl) = true
  /\ (forall r, In r P <-> In r (concat (plan_strata P pl)))
  /\ strat_lat_model I vagg islat lle (plan_strata P pl) Rin (l_rows (xl_s xst))
  /\ keys_ok islat (l_rows (xl_s xst)) /\ plain_nodup islat (l_rows (xl_s xst)).
Proof. exact @lat_indexed_agg_stratified_model. Qed.

Theorem c04_lattice_value_index_stale_refuted : exists st,
  pr_run = Some st
  /\ l_rows (xl_s st) 1%nat = [[1; 5]; [2; 3]]%Z
  /\ l_rows (xl_s st) 3%nat = [[3; 2]; [5; 1]; [7; 0]]%Z
  /\ l_rows (xl_s st) 4%nat = [[7]]%Z
  /\ xents (xl_ix st 1%nat) [1%nat] = [([3], [0%nat; 1%nat]); ([5], [0%nat])]%Z
  /\ ~ count_spec (l_rows (xl_s st) 1%nat) (l_rows (xl_s st) 3%nat).
Proof. exact lat_value_index_stale_refuted. Qed.

Theorem c04_lattice_value_index_known_class :
  alat_plan_ok pr_islat pr_arities pr_plan = false
  /\ xplan_ok pr_islat pr_arities pr_decls pr_plan = false
  /\ validate pr_arities pr_prog pr_plan = true
  /\ (forall islat arities ds pl, arities_functional arities -> alat_plan_ok islat arities pl = false -> xplan_ok islat arities ds pl = false).
Proof. exact lat_value_index_known_class. Qed.

(* non-vacuity *)
Definition ag_decls : list xdecl :=
  [(1%nat, [0%nat; 1%nat], true); (1%nat, [0%nat], false); (1%nat, [1%nat], false); (1%nat, [], false); (1%nat, [0%nat; 1%nat; 2%nat], false)].

Lemma ag_dom : forall r, sp_islat r = true -> In r (map fst ag_arities).
Proof. intros [|[|r]] H; cbn in *; try discriminate; auto. Qed.

Example c04_lattice_indexed_example : exists xst,
  xplan_ok sp_islat ag_arities ag_decls ag_plan = true
  /\ xrun_plan lv_interp std_aint sp_islat sp_jm lv_shuffle lv_shuffle lv_swap (decls_of ag_decls) 40 ag_plan ag_input = Some xst
  /\ l_rows (xl_s xst) 3%nat = [[2; 1]; [0; 3]; [1; 2]]%Z
  /\ strat_lat_model lv_interp std_aint sp_islat sp_lle (plan_strata ag_prog ag_plan) ag_input (l_rows (xl_s xst))
  /\ keys_ok sp_islat (l_rows (xl_s xst)).
Proof. exact LatIndexedProps.c04_lattice_indexed_example. Qed.

Print Assumptions c04_lattice_indexed_refines.
Print Assumptions c04_lattice_indexed_stratified_model.
Print Assumptions c04_lattice_value_index_stale_refuted.
Print Assumptions c04_lattice_value_index_known_class.
Print Assumptions c04_lattice_indexed_example.
Print Assumptions ag_dom.
