(* C04 — negation and aggregation see the complete relation, each tuple once.
   Property theorems only; proofs in Engine/{EvalSpecAgg,AggLemmas,StrataAgg,SemiNaiveAgg,StratFixedLemmas,MainAgg}.v.
   Negation !r(args) is the aggregate `agg () = not() in r(args)` (Engine/Core.v BAgg with out = None). *)
From Coq Require Import List ZArith Bool Permutation.
From AV Require Import Engine.Core Engine.Sem Engine.Eval Engine.Validate Engine.Naive Engine.Interface Engine.InterfaceAgg.
From AV Require Import Engine.Strat Engine.StratFixed Engine.StratFixedLemmas Engine.SemiNaiveAgg Engine.StratRefuted Engine.MainAgg Engine.Vocab.
Import ListNotations.

(* For every interpretation whose aggregators depend only on the multiset of their input, every plan accepted by the
   validator and every duplicate-free input: the rules are grouped into strata that respect the dependencies
   (aggregated relations are produced strictly earlier), and the rows after run() are the STRATIFIED MODEL: stratum
   after stratum, the least set closed under the stratum's rules that extends the completed lower strata and leaves
   the relations it aggregates untouched — where an aggregate ranges over the DISTINCT matching tuples of the whole
   relation (Sem.all_envs: dedup_tuples (filter ...)) and the rule continues once per value the aggregator returns. *)
Theorem c04_stratified_model : forall (I : interp) (swap : list tuple -> list tuple -> bool) arities P pl fuel F0 st,
  arities_functional arities -> wf_facts arities F0 = true -> NoDup F0 -> agg_perm_invariant I ->
  validate arities P pl = true ->
  run_plan I swap fuel pl (init_state F0) = Some st ->
  stratified (plan_strata P pl) = true
  /\ (forall r, In r P <-> In r (concat (plan_strata P pl)))
  /\ strat_model_fixed I (plan_strata P pl) F0 (rows st)
  /\ NoDup (rows st)
  /\ exists added, rows st = F0 ++ added.
Proof. exact run_plan_strat_correct_full. Qed.

(* the stratified model is unique (as a set), and without aggregates it is the least model of C01 *)
Theorem c04_stratified_model_unique : forall I strata F F' M M',
  (forall f, In f F <-> In f F') -> strat_model_fixed I strata F M -> strat_model_fixed I strata F' M' -> forall f, In f M <-> In f M'.
Proof. exact strat_model_fixed_unique. Qed.
Theorem c04_no_agg_is_least_model : forall I s F M, no_agg s = true -> (least_model_fixed I s F M <-> least_model I s F M).
Proof. exact least_model_fixed_no_agg. Qed.

(* the library aggregators of the vocabulary meet the hypothesis (C17) *)
Theorem c04_shipped_aggregators_perm_invariant : agg_perm_invariant std_interp.
Proof. exact std_interp_agg_perm_invariant. Qed.

(* why the lower strata must be held fixed: without that clause no model exists at all for an aggregating stratum
   (first formulation of this property, refuted with a computed witness) *)
Theorem c04_unconstrained_least_model_refuted : exists I swap, ~ run_plan_strat_correct_stmt I swap.
Proof. exact run_plan_strat_correct_stmt_refuted. Qed.

Print Assumptions c04_stratified_model. Print Assumptions c04_stratified_model_unique. Print Assumptions c04_no_agg_is_least_model.
Print Assumptions c04_shipped_aggregators_perm_invariant. Print Assumptions c04_unconstrained_least_model_refuted.
