(* C07 — every surface form means exactly its documented core expansion.  (theorems are being added) *)
From Coq Require Import List ZArith Bool String Ascii.
From AV Require Import Engine.Core Engine.Sem Engine.Vocab.
From AV Require Import Syntax.Surface.
From AV Require Import Syntax.Desugar.
From AV Require Import Syntax.ToCore.
Import ListNotations.

(* res(x, x_) <-- foo(x, x, x_): the generated name x_ captures the user's x_ *)
Definition c07_f9 : srule :=
  {| sheads := [(1%nat, [SVar (i "x"); SVar (i "x_")])];
     sbody := [IClause 0%nat [AT (SVar (i "x")); AT (SVar (i "x")); AT (SVar (i "x_"))] []] |}.
Example c07_f9_not_wf : wf_surface [c07_f9] = false.
Proof. vm_compute. reflexivity. Qed.
Print Assumptions c07_f9_not_wf.
