(* C07 — every surface form means exactly its documented core expansion.
   Property theorems only; proofs in Syntax/{DisjProof,PatProof,WildProof,NegProof,RepProof,Names,PassLemmas,
   DesugarProofs,CoreProof,C07Main,C07Refuted,C07Example}.v.

   Surface language and its DIRECT denotation: Syntax/Surface.v (disjunction = some disjunct; ?pat = the column
   matches the pattern; _ = any value; repeated variable / expression = equality with the column; !r(..) = no matching
   tuple; several heads = each head; no body = unconditional).  Model of the macro: Syntax/Desugar.v
   (desugar_ascent_program pass by pass, the two per-rule GenSym supplies and the process-wide IDENT_COUNTERS as an
   explicit, arbitrary initial state [cs]).  Core language and specification semantics: Engine/Core.v, Engine/Sem.v;
   Syntax/ToCore.v numbers the identifiers of a desugared rule (core variables are numbers). *)
From Coq Require Import List ZArith Bool String Ascii.
From AV Require Import Engine.Core.
From AV Require Import Engine.Sem.
From AV Require Import Engine.Strat.
From AV Require Import Engine.StratFixed.
From AV Require Import Engine.Vocab.
From AV Require Import Syntax.Surface.
From AV Require Import Syntax.Desugar.
From AV Require Import Syntax.ToCore.
From AV Require Import Syntax.SimBase.
From AV Require Import Syntax.Names.
From AV Require Import Syntax.DisjProof.
From AV Require Import Syntax.NegProof.
From AV Require Import Syntax.SimRel.
From AV Require Import Syntax.PatProof.
From AV Require Import Syntax.WildProof.
From AV Require Import Syntax.RepProof.
From AV Require Import Syntax.DesugarProofs.
From AV Require Import Syntax.CoreProof.
From AV Require Import Syntax.C07Main.
From AV Require Import Syntax.C07Refuted.
From AV Require Import Syntax.C07Vocab.
From AV Require Import Syntax.C07Example.
From AV Require Import Syntax.Show.
Import ListNotations.

(* MAIN THEOREM.  For every interpretation of the expression / pattern / aggregator symbols in which `==` is equality,
   not() is negation and `let` evaluates its expression ([interp_ok]), every surface program whose identifiers lie
   outside the generated name space of their rule, whose expression arguments only mention variables bound earlier and
   whose pattern variables are not argument variables of their own clause ([wf_surface], decidable), EVERY state [cs] of
   the process-wide name counters: the desugared program translates to the core language, and for every fact set the
   surface rules (direct denotation) derive exactly the facts the desugared core rules derive (Engine/Sem.v derives);
   so a fact set is closed under the one iff it is closed under the other. *)
Theorem c07_desugar_derives : forall (I : interp) P cs, wf_surface P = true -> interp_ok I (prog_fsyms P) ->
  exists Pc, core_of_prog (desugar_prog cs P) = Some Pc /\ forall F f, sderives I P F f <-> derives I Pc F f.
Proof. exact desugar_derives. Qed.
Theorem c07_desugar_correct : forall (I : interp) P cs, wf_surface P = true -> interp_ok I (prog_fsyms P) ->
  exists Pc, core_of_prog (desugar_prog cs P) = Some Pc /\ forall F, sclosed I P F <-> closed I Pc F.
Proof. exact desugar_correct. Qed.
(* hence the same least models and, stratum by stratum (aggregated relations held fixed), the same stratified models *)
Theorem c07_same_models : forall (I : interp) P cs, wf_surface P = true -> interp_ok I (prog_fsyms P) ->
  exists Pc, core_of_prog (desugar_prog cs P) = Some Pc
    /\ (forall F0 M, sleast_model I P F0 M <-> least_model I Pc F0 M)
    /\ (forall F0 M, sleast_model_fixed I (stratum_agg_rels Pc) P F0 M <-> least_model_fixed I Pc F0 M).
Proof. exact desugar_models. Qed.

(* ONE LEMMA PER PASS. *)
(* pass 1, disjunctions (nested): a rule derives exactly the union of what the rules of its disjunction product derive *)
Theorem c07_disjunction_product : forall I db r f,
  In f (sderive_rule I db r) <-> exists r', In r' (rule_desugar_disj r) /\ In f (sderive_rule I db r').
Proof. exact rule_desugar_disj_sem. Qed.
(* pass 4, negation: !r(args) is `agg () = not() in r(args)` *)
Theorem c07_negation : forall I db, (forall ts, aint I agg_not_sym ts = match ts with [] => [0%Z] | _ => [] end) ->
  forall r, sderive_rule I db (rule_desugar_neg r) = sderive_rule I db r.
Proof. exact rule_desugar_neg_sem. Qed.
(* passes 2, 3, 5 introduce names; each is a simulation of environments: [X] = the names of the pass, [srel X T e e'] =
   e and e' agree outside X and the names T still to be generated are unbound in e'; [sim2 R l l'] = every environment
   of l has an R-related one in l' and conversely.  [gen_trace g ks] = the names the supply hands out from state g for
   the requests ks ([pkeys] / [wkeys] / [rkeys]: the requests of the pass, independent of the counters). *)
Theorem c07_pass_pattern_args : forall I db (X : ident -> Prop) items g e e',
  Forall no_disj items -> pats_ok items = true -> (forall y, In y (items_ids items) -> ~ X y) ->
  NoDup (gen_trace g (pkeys items)) -> (forall y, In y (gen_trace g (pkeys items)) -> X y) ->
  srel X (gen_trace g (pkeys items)) e e' ->
  sim2 (srel X []) (all_envs_s I db items e) (all_envs_s I db (pat_items g items) e').
Proof. exact pat_items_sim. Qed.
Theorem c07_pass_wildcards : forall I db (X : ident -> Prop) items g e e',
  Forall no_disj items -> (forall y, In y (items_ids items) -> ~ X y) ->
  NoDup (gen_trace g (wkeys items)) -> (forall y, In y (gen_trace g (wkeys items)) -> X y) ->
  srel X (gen_trace g (wkeys items)) e e' ->
  sim2 (srel X []) (all_envs_s I db items e) (all_envs_s I db (wild_items g items) e').
Proof. exact wild_items_sim. Qed.
Theorem c07_pass_repeated_vars : forall I db (X : ident -> Prop) items G cs0 e e' B,
  Forall no_disj items -> Forall clause_AT items -> (forall y, In y (items_ids items) -> ~ X y) ->
  NoDup (gen_trace cs0 (rkeys G items)) -> (forall y, In y (gen_trace cs0 (rkeys G items)) -> X y) ->
  scoped B items = true -> bnd B e -> srel X (gen_trace cs0 (rkeys G items)) e e' ->
  sim2 (srel X []) (all_envs_s I db items e) (all_envs_s I db (fst (rep_items G cs0 items)) e').
Proof. exact rep_items_sim. Qed.
(* passes 2-5 on a disjunction-free rule (pattern arguments -> wildcards -> negation -> repeated variables / same-clause
   expressions), for every counter state: same derived facts, same heads, result in the core fragment.  [L0] = the
   identifiers of the source rule. *)
Theorem c07_pass_pipeline : forall I db, (forall ts, aint I agg_not_sym ts = match ts with [] => [0%Z] | _ => [] end) ->
  forall (L0 : list ident) hs b cs,
  (forall s, In s L0 -> name_ok L0 s = true) -> incl (items_ids b) L0 -> incl (heads_ids hs) L0 ->
  Forall no_disj b -> pats_ok b = true -> scoped [] b = true -> conds_okb b = true ->
  let r4 := fst (rule_desugar_rep cs (pre_rep {| sheads := hs; sbody := b |})) in
  same_facts (sderive_rule I db {| sheads := hs; sbody := b |}) (sderive_rule I db r4)
  /\ sheads r4 = hs /\ Forall core_frag_item (sbody r4) /\ incl (rule_eq_fsyms r4) (items_fsyms b).
Proof. exact conj_pipeline. Qed.
(* the desugared fragment means the same in the core language of the engine theorems (C01/C04) *)
Theorem c07_core_translation : forall (I : interp) (db : rel -> list tuple) r c,
  (forall a b, pint I eq_pred_sym [a; b] = Z.eqb a b) ->
  (forall f vs, In f (rule_eq_fsyms r) -> bint I f vs = Some (fint I f vs)) ->
  core_of_rule r = Some c ->
  forall f, In f (sderive_rule I db r) <-> In f (derive_rule I db c).
Proof. exact core_of_rule_sem. Qed.

(* FRESHNESS OF THE NAME SUPPLIES.  Names requested in sequence from a supply are pairwise distinct whatever the initial
   counters; a generated name determines its stem; under name_ok no identifier of the rule has a fixed stem, and a name
   of the process-wide supply is neither an identifier of the rule nor a pattern / wildcard name. *)
Theorem c07_supply_distinct : forall ks g, NoDup (gen_trace g ks).
Proof. exact gen_trace_nodup. Qed.
Theorem c07_supply_stem : forall ks g w, In w (gen_trace g ks) -> exists q, In q ks /\ parse_gen w = Some q.
Proof. exact gen_trace_stem. Qed.
Theorem c07_fresh_pattern_wildcard_names : forall L0, (forall s, In s L0 -> name_ok L0 s = true) ->
  forall y k, In k fixed_stems -> parse_gen y = Some k -> ~ In y L0.
Proof. exact fresh_fixed. Qed.
Theorem c07_fresh_repeated_var_names : forall L0, (forall s, In s L0 -> name_ok L0 s = true) ->
  forall y p Tp Tw, parse_gen y = Some p ->
  (forall z, In z Tp -> parse_gen z = Some arg_pattern_key) -> (forall z, In z Tw -> parse_gen z = Some wild_key) ->
  (In p L0 \/ In p Tp \/ In p Tw \/ p = expr_replaced_key) ->
  ~ In y L0 /\ ~ In y Tp /\ ~ In y Tw.
Proof. exact fresh_rep. Qed.

(* REFUTED without the guard (known finding generated_names_capture_user_identifiers): generated names are ordinary
   identifiers.  res(x) <-- foo(x, _), bar(__1)  /  res(x) <-- foo(x, ?pat), bar(__arg_pattern_)  /
   res(x, x_) <-- foo(x, x, x_) (DESIGN F9)  /  the same with x_3 when the counter of "x" stands at 3:
   the program is not wf, the surface rule derives a fact that the desugared program does not. *)
Theorem c07_refuted_wildcard_capture : captured w_wild [] [(0%nat, [1; 2]); (1%nat, [5])]%Z (2%nat, [1]%Z).
Proof. exact wild_capture. Qed.
Theorem c07_refuted_pattern_capture : captured w_pat [] [(0%nat, [1; 2]); (1%nat, [5])]%Z (2%nat, [1]%Z).
Proof. exact pat_capture. Qed.
Theorem c07_refuted_fresh_capture : captured w_rep [] [(0%nat, [1; 1; 2])]%Z (2%nat, [1; 2]%Z).
Proof. exact rep_capture. Qed.
Theorem c07_refuted_fresh_capture_numbered : captured w_rep3 [(i "x", 3%nat)] [(0%nat, [1; 1; 2])]%Z (2%nat, [1; 2]%Z).
Proof. exact rep_capture_numbered. Qed.
Theorem c07_refuted_freshness : In (fst (fresh_ident [] (i "x"))) (rule_ids w_rep).
Proof. exact fresh_ident_not_fresh. Qed.
Theorem c07_refuted_unguarded :
  ~ (forall P cs Pc F, core_of_prog (desugar_prog cs P) = Some Pc -> (sclosed std_interp P F <-> closed std_interp Pc F)).
Proof. exact desugar_correct_unguarded_refuted. Qed.

(* FORMS THAT DESUGARING LEAVES ALONE (they are core forms): several head clauses = one rule per head clause;
   no body = the heads evaluated in the empty environment, whatever the relations contain. *)
Theorem c07_multi_head : forall I db hs b f,
  In f (sderive_rule I db {| sheads := hs; sbody := b |}) <-> exists h, In h hs /\ In f (sderive_rule I db {| sheads := [h]; sbody := b |}).
Proof. exact multi_head_rule. Qed.
Theorem c07_bodyless : forall I db hs, sderive_rule I db {| sheads := hs; sbody := [] |} = filter_map (seval_head I sempty) hs ++ [].
Proof. exact bodyless_rule. Qed.

(* NON-VACUITY: a well-formed program using every surface form (nested disjunction, binding and literal patterns,
   wildcard, repeated variable, same-clause expression, negation, two heads, a fact, a clause condition), the vocabulary
   of the correspondence runs satisfies interp_ok, and the two fix-points coincide by computation *)
Example c07_example_hypotheses : wf_surface ex_prog = true /\ interp_ok c07_interp (prog_fsyms ex_prog).
Proof. exact (conj ex_wf ex_interp_ok). Qed.
Example c07_example_runs :
  exists Pc, core_of_prog (desugar_prog [] ex_prog) = Some Pc /\ List.length Pc = 4%nat
    /\ exists M, sstrat_fix c07_interp 20 [[ex_fact]; [ex_rule]] ex_input = Some M
         /\ strat_fix c07_interp 20 [firstn 1 Pc; skipn 1 Pc] ex_input = Some M
         /\ List.length M = 20%nat.
Proof. exact ex_runs. Qed.

Print Assumptions c07_desugar_derives. Print Assumptions c07_desugar_correct. Print Assumptions c07_same_models.
Print Assumptions c07_disjunction_product. Print Assumptions c07_negation. Print Assumptions c07_pass_pipeline.
Print Assumptions c07_pass_pattern_args. Print Assumptions c07_pass_wildcards. Print Assumptions c07_pass_repeated_vars.
Print Assumptions c07_core_translation. Print Assumptions c07_supply_distinct. Print Assumptions c07_supply_stem.
Print Assumptions c07_fresh_pattern_wildcard_names. Print Assumptions c07_fresh_repeated_var_names.
Print Assumptions c07_refuted_wildcard_capture. Print Assumptions c07_refuted_pattern_capture.
Print Assumptions c07_refuted_fresh_capture. Print Assumptions c07_refuted_fresh_capture_numbered.
Print Assumptions c07_refuted_freshness. Print Assumptions c07_refuted_unguarded.
Print Assumptions c07_multi_head. Print Assumptions c07_bodyless.
Print Assumptions c07_example_hypotheses. Print Assumptions c07_example_runs.

(* ================= the desugarer's OUTPUT is a well-formed core program =================
   The link that makes the planner theorem (C01 c01_planner_output_is_valid) applicable to every program the front end produces:
   proofs in Syntax/EndToEnd*.v; the end-to-end statements are in Props/C01.v. *)
From Coq Require Import List ZArith Bool Arith Ascii String.
From AV Require Import Engine.Core.
From AV Require Import Engine.Sem.
From AV Require Import Engine.Eval.
From AV Require Import Engine.Naive.
From AV Require Import Engine.InterfaceAgg.
From AV Require Import Engine.MainAgg.
From AV Require Import Engine.Vocab.
From AV Require Import Plan.PlanModel.
From AV Require Import Plan.PlanWf.
From AV Require Import Syntax.Surface.
From AV Require Import Syntax.Desugar.
From AV Require Import Syntax.ToCore.
From AV Require Import Syntax.C07Main.
From AV Require Import Syntax.C07Example.
From AV Require Import Syntax.EndToEndDefs.
From AV Require Import Syntax.EndToEndWf.
From AV Require Import Syntax.EndToEndNoAgg.
From AV Require Import Syntax.EndToEnd.
From AV Require Import Syntax.EndToEndSugared.
Import ListNotations.
(* ================= proposed for Props/C07.v ================= *)
(* THE DESUGARER'S OUTPUT IS A WELL-FORMED CORE PROGRAM, for every state of the process-wide name counters: relations used
   with their arity, variables bound before use, a binder never rebinds, a new variable occurs once among the arguments of
   its clause, heads bound (Plan/PlanWf.v wf_core = the hypothesis of the planner theorem PlanProofs.compile_model_valid).
   Surface hypotheses (boolean): names outside the generated name space of their rule (ToCore.names_ok, a conjunct of
   wf_surface) and the binding discipline EndToEndDefs.wf_binding (arities; bound before use; `let` / `if let` / `for` /
   aggregate results / ?pattern variables NEW) on every conjunction of the disjunction product. *)
Theorem c07_desugar_output_wf_core : forall arities P cs Pc,
  forallb names_ok P = true -> wf_binding arities P = true ->
  core_of_prog (desugar_prog cs P) = Some Pc -> wf_core arities Pc = true.
Proof. exact desugar_output_wf_core. Qed.
(* no aggregation / negation in the source (through disjunctions) -> none in the core program *)
Theorem c07_desugar_output_no_agg : forall P cs Pc,
  no_agg_surface P = true -> core_of_prog (desugar_prog cs P) = Some Pc -> no_agg Pc = true.
Proof. exact desugar_output_no_agg. Qed.
(* non-vacuity: C07's example with every surface form satisfies the discipline and its desugaring is wf_core by computation *)
Example c07_example_wf_binding : wf_binding ex_arities ex_prog = true.
Proof. exact ex_wf_binding. Qed.
Example c07_example_output_wf_core : exists Pc, core_of_prog (desugar_prog [] ex_prog) = Some Pc /\ wf_core ex_arities Pc = true.
Proof. exact ex_output_wf_core. Qed.
(* wf_surface alone does not give wf_core:  res(x, y) <-- foo(x, y), let y = f(x)  rebinds y *)
Example c07_wf_surface_not_enough :
  wf_surface shadow_prog = true /\ wf_binding ex_arities shadow_prog = false
  /\ exists Pc, core_of_prog (desugar_prog [] shadow_prog) = Some Pc /\ wf_core ex_arities Pc = false.
Proof. exact wf_surface_not_enough. Qed.

Print Assumptions c07_desugar_output_wf_core. Print Assumptions c07_desugar_output_no_agg.
Print Assumptions c07_example_wf_binding. Print Assumptions c07_example_output_wf_core. Print Assumptions c07_wf_surface_not_enough.

(* ================= the CODE GENERATED for a negated clause, over every kind of index =================
   `!r(args)` is `agg () = not() in r(args)` (c07_negation); Syntax/NegIndexModel.v models the code the macro emits for
   that aggregate clause (`index_get(key)` : Option<iterator>, `.into_iter().flatten()`, `not`) over the two kinds of
   answer an index gives for a key without rows: None (hash indices, keyed BYODS views) and Some(empty iterator) (the
   key-less `[]` index of ascent_par! — CRelNoIndex — and of every BYODS provider).  Proofs: Syntax/NegIndexLaws.v. *)
From AV Require Import Syntax.NegIndexModel.
From AV Require Import Syntax.NegIndexLaws.
(* the generated code IS the direct denotation of the negation, whatever index serves the relation ([neg_key] = the
   non-wildcard argument positions with their values: the index key; rows have the arity of the clause) *)
Theorem c07_negation_code_every_index : forall I db e r args kv k,
  neg_key I e args 0 = Some kv -> (forall t, In t (db r) -> List.length t = List.length args) -> kind_ok k kv ->
  item_envs I db (INeg r args) e = if neg_code k kv (db r) then [e] else [].
Proof. exact neg_code_denotes. Qed.
Theorem c07_negation_code_spec : forall k kv rows, kind_ok k kv -> neg_code k kv rows = neg_spec kv rows.
Proof. exact neg_code_spec. Qed.
(* the short cut `index_get(key).is_none()` is the same decision over hash indices ... *)
Theorem c07_negation_is_none_hash_only : forall kv rows, neg_fast_path IxHash kv rows = neg_spec kv rows.
Proof. exact neg_fast_path_hash. Qed.
(* ... and REFUTED over a key-less index: an all-wildcard negation of an EMPTY relation would come out false *)
Theorem c07_negation_is_none_refuted :
  exists k kv rows, kind_ok k kv /\ neg_fast_path k kv rows <> neg_spec kv rows /\ neg_code k kv rows = neg_spec kv rows.
Proof. exact neg_fast_path_refuted. Qed.
Theorem c07_negation_is_none_keyless : forall rows,
  neg_fast_path IxKeyless [] rows = false /\ (neg_spec [] rows = true <-> rows = []).
Proof. exact neg_fast_path_keyless. Qed.

Print Assumptions c07_negation_code_every_index. Print Assumptions c07_negation_code_spec.
Print Assumptions c07_negation_is_none_hash_only. Print Assumptions c07_negation_is_none_refuted.
Print Assumptions c07_negation_is_none_keyless.

(* ================= the ORDER of the index columns that serve a variable repeated ACROSS two clauses =================
   `r(x, y), s(y, x)`: the repeat is an equality test (c07_desugar_correct: the surface denotation); the generated code
   implements it through an index of r on the shared columns.  Plan/PlanModel.v mirrors the two places of ascent_hir.rs
   that pick the columns ([indices_given] = get_indices_given_grounded_variables, the first clause of a simple join;
   [clause_indices] = the main loop, every other clause).  Syntax/JoinIndexOrder.v: both lists are strictly ascending, so
   an index of full length IS the full index [0, .., n-1] — the invariant behind IrRelation::is_full_index (a length test)
   and head_update_code (skips every index of full length; the full index is written separately): under it a derived row
   reaches every index of its relation.  Laying the columns out in the order of the OTHER clause's variables (the same
   set of columns) is refuted: `mutual(x, y) <-- link(x, y), link(y, x)` gets an index [1, 0] that no derived row
   reaches.  The tie compares the column lists of the dumped plan with the model's as LISTS (gen/plan_model.py, run by
   gen/props/c07.py on family permjoin) and the compiled programs with their hand expansion (no shared variable, no index). *)
From AV Require Plan.PlanModel.
From AV Require Syntax.JoinIndexOrder.
Theorem c07_join_index_ascending : forall args vars pos,
  Sorted.StronglySorted lt (PlanModel.indices_given args vars pos).
Proof. exact JoinIndexOrder.indices_given_ascending. Qed.
Theorem c07_simple_join_full_index_is_canonical : forall args vars,
  JoinIndexOrder.is_full_index (List.length args) (PlanModel.indices_given args vars 0) = true ->
  PlanModel.indices_given args vars 0 = List.seq 0 (List.length args).
Proof. exact JoinIndexOrder.simple_join_full_index_canonical. Qed.
Theorem c07_clause_full_index_is_canonical : forall G args,
  JoinIndexOrder.is_full_index (List.length args) (fst (PlanModel.clause_indices G args 0)) = true ->
  fst (PlanModel.clause_indices G args 0) = List.seq 0 (List.length args).
Proof. exact JoinIndexOrder.clause_full_index_canonical. Qed.
(* a derived row reaches EVERY index of its relation as long as full-length indices are canonical ... *)
Theorem c07_head_update_complete : forall arity t ixs,
  JoinIndexOrder.full_is_canonical arity ixs ->
  forall ix, In ix (JoinIndexOrder.head_update arity t ixs) -> In t (snd ix).
Proof. exact JoinIndexOrder.head_update_complete. Qed.
(* ... which the planner's indices are ... *)
Theorem c07_planner_indices_canonical : forall G args vars rows1 rows2,
  JoinIndexOrder.full_is_canonical (List.length args)
    [(PlanModel.indices_given args vars 0, rows1); (fst (PlanModel.clause_indices G args 0), rows2)].
Proof. exact JoinIndexOrder.planner_indices_canonical. Qed.
(* ... and the columns in the order of the other clause's variables are NOT (same set, full length, never written) *)
Theorem c07_join_index_in_other_clause_order_refuted :
  exists args vars t rows,
    Permutation.Permutation (JoinIndexOrder.indices_by_vars args vars) (PlanModel.indices_given args vars 0)
    /\ JoinIndexOrder.is_full_index (List.length args) (JoinIndexOrder.indices_by_vars args vars) = true
    /\ JoinIndexOrder.indices_by_vars args vars <> List.seq 0 (List.length args)
    /\ ~ JoinIndexOrder.full_is_canonical (List.length args) [(JoinIndexOrder.indices_by_vars args vars, rows)]
    /\ ~ In t (snd (hd ([], []) (JoinIndexOrder.head_update (List.length args) t [(JoinIndexOrder.indices_by_vars args vars, rows)]))).
Proof. exact JoinIndexOrder.indices_by_vars_refuted. Qed.
Example c07_mutual_ascending :
  PlanModel.indices_given [TVar 0%nat; TVar 1%nat] [1%nat; 0%nat] 0 = [0%nat; 1%nat]
  /\ JoinIndexOrder.head_update 2 [7%Z; 8%Z] [(PlanModel.indices_given [TVar 0%nat; TVar 1%nat] [1%nat; 0%nat] 0, [])] = [([0%nat; 1%nat], [[7%Z; 8%Z]])].
Proof. exact JoinIndexOrder.mutual_ascending. Qed.

Print Assumptions c07_join_index_ascending. Print Assumptions c07_simple_join_full_index_is_canonical.
Print Assumptions c07_clause_full_index_is_canonical. Print Assumptions c07_head_update_complete.
Print Assumptions c07_planner_indices_canonical. Print Assumptions c07_join_index_in_other_clause_order_refuted.
Print Assumptions c07_mutual_ascending.
