(* C02 — property theorems (under construction) *)
From Coq Require Import List ZArith.
From AV Require Import Engine.Core Engine.Sem Engine.Eval.
Import ListNotations.
