(* C02 — parallel evaluation equals serial evaluation under every schedule (relations; see PARTIAL below).
   Property theorems only; proofs in Engine/{ParSched,ParProofs,MainPar}.v.  Model: Engine/ParStep.v — workers
   perform atomic steps (frozen reads of total / delta, atomic insert_if_not_present into new, push + index update
   after a successful insert); a schedule is an arbitrary list of worker numbers. *)
From Coq Require Import List ZArith Bool Permutation.
From AV Require Import Engine.Core Engine.Sem Engine.Eval Engine.Validate Engine.Naive Engine.Interface Engine.Main.
From AV Require Import Engine.ParStep Engine.InterfacePar Engine.ParProofs Engine.MainPar.
From AV Require Import Engine.InterfaceAgg Engine.Strat Engine.StratFixed Engine.EvalSpecAgg Engine.SemiNaiveAgg Engine.ParProofsAgg.
From AV Require Engine.ParLat.
From AV Require Engine.ParLatProofs.
From AV Require LatEngine.LatSem.
Import ListNotations.

(* one iteration: for every distribution of the derived facts over the workers and every interleaving that lets all
   workers finish, `new` holds exactly what the serial head update adds, each fact once, each pushed as a row exactly
   once, and __changed is set iff something was added *)
Theorem c02_iteration_schedule_independent : forall T D R work sched,
  let st' := run_sched T D (par_init R work) sched in
  finished st' = true ->
  let serial := fold_left (head_update T D) (concat work) ([], R) in
  Permutation (pN st') (fst serial)
  /\ NoDup (pN st')
  /\ (exists A, pR st' = R ++ A /\ Permutation A (pN st'))
  /\ pchanged st' = negb (match pN st' with [] => true | _ => false end).
Proof. exact par_iteration_serial. Qed.

(* no deadlock in the modelled discipline: an unfinished state always has an enabled worker *)
Theorem c02_progress : forall T D st, finished st = false -> exists i, step_worker T D st i <> st.
Proof. exact par_progress. Qed.

(* whole runs: every parallel run computes the least model, keeps the inputs in place, adds each fact once *)
Theorem c02_par_run_least_model : forall (I : interp) swap arities P pl F0 st,
  arities_functional arities -> wf_facts arities F0 = true -> no_agg P = true ->
  validate arities P pl = true ->
  par_run_plan I swap pl (init_state F0) st ->
  least_model I P F0 (rows st)
  /\ exists added, rows st = F0 ++ added /\ NoDup added /\ (forall f, In f added -> ~ In f F0).
Proof. exact par_run_correct_full. Qed.

(* ... hence the same relations as the serial macros, for every schedule *)
Theorem c02_par_equals_serial : forall I swap swap' arities P pl fuel F0 st_par st_ser,
  arities_functional arities -> wf_facts arities F0 = true -> no_agg P = true -> validate arities P pl = true ->
  par_run_plan I swap pl (init_state F0) st_par ->
  run_plan I swap' fuel pl (init_state F0) = Some st_ser ->
  same_set (rows st_par) (rows st_ser).
Proof. exact par_equals_serial. Qed.

(* with aggregation / negation: every parallel run of a validated plan on duplicate-free input computes the
   stratified model (aggregated relations are complete and frozen while workers read them), rows duplicate free,
   inputs in place; hence the same relations as the serial run *)
Theorem c02_par_run_stratified_model : forall (I : interp) swap arities P pl F0 st,
  arities_functional arities -> wf_facts arities F0 = true -> NoDup F0 -> agg_perm_invariant I ->
  validate arities P pl = true ->
  par_run_plan I swap pl (init_state F0) st ->
  stratified (plan_strata P pl) = true
  /\ (forall r, In r P <-> In r (concat (plan_strata P pl)))
  /\ strat_model_fixed I (plan_strata P pl) F0 (rows st)
  /\ NoDup (rows st)
  /\ exists added, rows st = F0 ++ added.
Proof. intros I swap. exact (par_run_strat_correct I swap (eval_variant_spec_agg I swap)). Qed.

(* ---- lattice relations under ascent_par!: ONE parallel iteration of the lattice head update (Engine/ParLat.v: key index
   lookups in new / delta / total, join under the row's write lock, key mutex + re-check before a push, re-insertion into
   new's indices, __changed), for an arbitrary key type, an arbitrary lattice (laws = LatSem.lat_laws, proved for every
   shipped type in C16 / LatEngine/LatC16.v), any assignment of keys to key mutexes, both orders of the index insertions,
   EVERY distribution of the contributions over workers and EVERY schedule of atomic steps. *)
Section LatticeIteration.
Context {K V : Type}.
Variable keqb : K -> K -> bool.
Hypothesis keqb_spec : forall a b : K, keqb a b = true <-> a = b.
Variable le : V -> V -> Prop.
Variable jm : V -> V -> V * bool.
Hypothesis laws : LatSem.lat_laws le jm.
Variable mx : K -> nat.
Variable kfirst : bool.
Variables dl tt : K -> option nat.
Variable R0 : list (K * V).
Variable nk0 : list (K * nat).
Variable ot0 : list nat.
Variable ch0 : bool.
Variable work : list (list (K * V)).
Hypothesis init : ParLatProofs.init_ok keqb le dl tt R0 nk0 ot0 ch0 work.
(* the code as it is now: new's other indices are set-backed (CLatIndex, /repo d5edf35) *)
Notation run sched := (ParLat.run_sched keqb jm mx kfirst true dl tt (ParLat.par_init R0 nk0 ot0 ch0 work) sched).

(* one row per key in every reachable state, finished or not *)
Theorem c02_lattice_one_row_per_key : forall sched, NoDup (map fst (ParLat.lrows (run sched))).
Proof. exact (ParLatProofs.parlat_one_row_per_key keqb keqb_spec le jm laws mx kfirst true dl tt R0 nk0 ot0 ch0 work init). Qed.

(* after every finishing schedule the row of key k holds THE least upper bound of its old value and all contributions for k,
   i.e. the value map of the serial head update over the same contributions *)
Theorem c02_lattice_values_are_the_serial_ones : forall sched, ParLat.finished (run sched) = true ->
  forall k, ParLat.valof keqb (ParLat.lrows (run sched)) k = ParLat.valof keqb (ParLat.ser_run keqb jm R0 (concat work)) k.
Proof. exact (ParLatProofs.parlat_values keqb keqb_spec le jm laws mx kfirst true dl tt R0 nk0 ot0 ch0 work init). Qed.

(* every row raised or created is in new's indices afterwards, and (set-backed indices) is listed there ONCE - what makes an
   aggregate over the relation see one row per key; before /repo d5edf35 it was listed once per insertion:
   ParLatProofs.parlat_reindexed_once_before_fix_refuted *)
Theorem c02_lattice_reindexed : forall sched, ParLat.finished (run sched) = true ->
  forall i k c, nth_error (ParLat.lrows (run sched)) i = Some (k, c) ->
  nth_error R0 i = Some (k, c) \/
  (ParLat.klook keqb k (ParLat.lnkey (run sched)) = Some i /\ In i (ParLat.lother (run sched))).
Proof. exact (ParLatProofs.parlat_reindexed keqb keqb_spec le jm laws mx kfirst true dl tt R0 nk0 ot0 ch0 work init). Qed.
Theorem c02_lattice_reindexed_once : NoDup ot0 -> forall sched, NoDup (ParLat.lother (run sched)).
Proof. exact (ParLatProofs.parlat_reindexed_once keqb jm mx kfirst true dl tt R0 nk0 ot0 ch0 work eq_refl). Qed.

(* a false flag means nothing happened; no deadlock; every reachable state can be completed *)
Theorem c02_lattice_changed_flag : forall sched, ParLat.finished (run sched) = true -> ParLat.lchg (run sched) = false ->
  ParLat.lrows (run sched) = R0 /\ ParLat.lnkey (run sched) = [].
Proof. exact (ParLatProofs.parlat_changed keqb keqb_spec le jm laws mx kfirst true dl tt R0 nk0 ot0 ch0 work init). Qed.
Theorem c02_lattice_progress : forall sched, ParLat.finished (run sched) = false -> exists j, ParLat.enabled mx (run sched) j = true.
Proof. exact (ParLatProofs.parlat_progress keqb keqb_spec le jm laws mx kfirst true dl tt R0 nk0 ot0 ch0 work init). Qed.
Theorem c02_lattice_can_finish : forall sched, exists sched', ParLat.finished (run (sched ++ sched')) = true.
Proof. exact (ParLatProofs.parlat_can_finish keqb keqb_spec le jm laws mx kfirst true dl tt R0 nk0 ot0 ch0 work init). Qed.
End LatticeIteration.

(* the hypotheses are satisfiable, and a run with a push race (two workers derive the same new key: the second blocks on the key
   mutex, finds the row in the re-check and joins) *)
Example c02_lattice_example : forall kfirst,
  let s := ParLatProofs.zrun kfirst [(7, 0)%Z] [[(5, 1)%Z]; [(5, 2)%Z]] [0; 1; 0; 1; 0; 1; 1; 0; 1; 0; 0; 0; 0; 1; 0; 1; 1; 1; 1]%nat in
  ParLat.finished s = true /\ ParLat.lrows s = [(7, 0); (5, 2)]%Z /\ ParLat.lother s = [1%nat] /\ ParLat.lheld s = [] /\ ParLat.lchg s = true.
Proof. exact ParLatProofs.ex_push_race. Qed.

(* PARTIAL: the per-iteration theorems above are not yet composed into a whole parallel lattice ENGINE theorem (iterations, SCCs,
   rule evaluation over RwLock-guarded rows); that composition is exercised by the tie only (C03's programs and the lattice +
   aggregate family through ascent_par! against the Kleene oracle).
   RESIDUE that no executable model can exhibit: the real DashMap / RwLock / Mutex / boxcar implementations, rayon's
   work stealing and the Relaxed store to __changed being visible after the scope's join are assumed linearizable /
   correct (trusted base); the schedule space of the real binary is sampled under seeded perturbation
   (gen/props/c02.py), not enumerated. *)

Print Assumptions c02_iteration_schedule_independent. Print Assumptions c02_progress.
Print Assumptions c02_par_run_least_model. Print Assumptions c02_par_equals_serial. Print Assumptions c02_par_run_stratified_model.
Print Assumptions c02_lattice_one_row_per_key. Print Assumptions c02_lattice_values_are_the_serial_ones. Print Assumptions c02_lattice_reindexed.
Print Assumptions c02_lattice_reindexed_once. Print Assumptions c02_lattice_changed_flag. Print Assumptions c02_lattice_progress.
Print Assumptions c02_lattice_can_finish. Print Assumptions c02_lattice_example.
