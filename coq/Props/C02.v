(* C02 — parallel evaluation equals serial evaluation under every schedule (relations; see PARTIAL below).
   Property theorems only; proofs in Engine/{ParSched,ParProofs,MainPar}.v.  Model: Engine/ParStep.v — workers
   perform atomic steps (frozen reads of total / delta, atomic insert_if_not_present into new, push + index update
   after a successful insert); a schedule is an arbitrary list of worker numbers. *)
From Coq Require Import List ZArith Bool Permutation.
From AV Require Import Engine.Core Engine.Sem Engine.Eval Engine.Validate Engine.Naive Engine.Interface Engine.Main.
From AV Require Import Engine.ParStep Engine.InterfacePar Engine.ParProofs Engine.MainPar.
From AV Require Import Engine.InterfaceAgg Engine.Strat Engine.StratFixed Engine.EvalSpecAgg Engine.SemiNaiveAgg Engine.ParProofsAgg.
Import ListNotations.

(* one iteration: for every distribution of the derived facts over the workers and every interleaving that lets all
   workers finish, `new` holds exactly what the serial head update adds, each fact once, each pushed as a row exactly
   once, and __changed is set iff something was added *)
Theorem c02_iteration_schedule_independent : forall T D R work sched,
  let st' := run_sched T D (par_init R work) sched in
  finished st' = true ->
  let serial := fold_left (head_update T D) (concat work) ([], R) in
  Permutation (pN st') (fst serial)
  /\ NoDup (pN st')
  /\ (exists A, pR st' = R ++ A /\ Permutation A (pN st'))
  /\ pchanged st' = negb (match pN st' with [] => true | _ => false end).
Proof. exact par_iteration_serial. Qed.

(* no deadlock in the modelled discipline: an unfinished state always has an enabled worker *)
Theorem c02_progress : forall T D st, finished st = false -> exists i, step_worker T D st i <> st.
Proof. exact par_progress. Qed.

(* whole runs: every parallel run computes the least model, keeps the inputs in place, adds each fact once *)
Theorem c02_par_run_least_model : forall (I : interp) swap arities P pl F0 st,
  arities_functional arities -> wf_facts arities F0 = true -> no_agg P = true ->
  validate arities P pl = true ->
  par_run_plan I swap pl (init_state F0) st ->
  least_model I P F0 (rows st)
  /\ exists added, rows st = F0 ++ added /\ NoDup added /\ (forall f, In f added -> ~ In f F0).
Proof. exact par_run_correct_full. Qed.

(* ... hence the same relations as the serial macros, for every schedule *)
Theorem c02_par_equals_serial : forall I swap swap' arities P pl fuel F0 st_par st_ser,
  arities_functional arities -> wf_facts arities F0 = true -> no_agg P = true -> validate arities P pl = true ->
  par_run_plan I swap pl (init_state F0) st_par ->
  run_plan I swap' fuel pl (init_state F0) = Some st_ser ->
  same_set (rows st_par) (rows st_ser).
Proof. exact par_equals_serial. Qed.

(* with aggregation / negation: every parallel run of a validated plan on duplicate-free input computes the
   stratified model (aggregated relations are complete and frozen while workers read them), rows duplicate free,
   inputs in place; hence the same relations as the serial run *)
Theorem c02_par_run_stratified_model : forall (I : interp) swap arities P pl F0 st,
  arities_functional arities -> wf_facts arities F0 = true -> NoDup F0 -> agg_perm_invariant I ->
  validate arities P pl = true ->
  par_run_plan I swap pl (init_state F0) st ->
  stratified (plan_strata P pl) = true
  /\ (forall r, In r P <-> In r (concat (plan_strata P pl)))
  /\ strat_model_fixed I (plan_strata P pl) F0 (rows st)
  /\ NoDup (rows st)
  /\ exists added, rows st = F0 ++ added.
Proof. intros I swap. exact (par_run_strat_correct I swap (eval_variant_spec_agg I swap)). Qed.

(* PARTIAL: lattice relations under ascent_par! — the key mutex + re-check protocol of the parallel lattice head
   update is modelled and proved per iteration in Engine/ParLat*.v where available (one row per key and the join of
   all contributions for every interleaving), but the whole parallel lattice ENGINE is exercised by the tie only.
   RESIDUE that no executable model can exhibit: the real DashMap / RwLock / Mutex / boxcar implementations, rayon's
   work stealing and the Relaxed store to __changed being visible after the scope's join are assumed linearizable /
   correct (trusted base); the schedule space of the real binary is sampled under seeded perturbation
   (gen/props/c02.py), not enumerated. *)

Print Assumptions c02_iteration_schedule_independent. Print Assumptions c02_progress.
Print Assumptions c02_par_run_least_model. Print Assumptions c02_par_equals_serial. Print Assumptions c02_par_run_stratified_model.
