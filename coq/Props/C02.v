(* C02 — parallel evaluation equals serial evaluation under every schedule (relations with negation / aggregation, and
   programs mixing relations and lattices without aggregation; see RESIDUE below).
   Property theorems only; proofs in Engine/{ParSched,ParProofs,MainPar,ParLatProofs}.v and LatEngine/LatPar{Head,Items,Iter,Main}.v.  Model: Engine/ParStep.v — workers
   perform atomic steps (frozen reads of total / delta, atomic insert_if_not_present into new, push + index update
   after a successful insert); a schedule is an arbitrary list of worker numbers. *)
From Coq Require Import List ZArith Bool Permutation.
From AV Require Import Engine.Core Engine.Sem Engine.Eval Engine.Validate Engine.Naive Engine.Interface Engine.Main.
From AV Require Import Engine.ParStep Engine.InterfacePar Engine.ParProofs Engine.MainPar.
From AV Require Import Engine.InterfaceAgg Engine.Strat Engine.StratFixed Engine.EvalSpecAgg Engine.SemiNaiveAgg Engine.ParProofsAgg.
From AV Require Engine.ParLat.
From AV Require Engine.ParLatProofs.
From AV Require LatEngine.LatSem.
From AV Require LatEngine.LatSyntax.
From AV Require LatEngine.LatEval.
From AV Require LatEngine.LatPlan.
From AV Require LatEngine.LatMain.
From AV Require LatEngine.LatVocab.
From AV Require LatEngine.LatExample.
From AV Require LatEngine.LatParModel.
From AV Require LatEngine.LatParHead.
From AV Require LatEngine.LatParIter.
From AV Require LatEngine.LatParMain.
From AV Require LatEngine.LatParExample.
From AV Require LatEngine.LatParCausality.
Import ListNotations.

(* one iteration: for every distribution of the derived facts over the workers and every interleaving that lets all
   workers finish, `new` holds exactly what the serial head update adds, each fact once, each pushed as a row exactly
   once, and __changed is set iff something was added *)
Theorem c02_iteration_schedule_independent : forall T D R work sched,
  let st' := run_sched T D (par_init R work) sched in
  finished st' = true ->
  let serial := fold_left (head_update T D) (concat work) ([], R) in
  Permutation (pN st') (fst serial)
  /\ NoDup (pN st')
  /\ (exists A, pR st' = R ++ A /\ Permutation A (pN st'))
  /\ pchanged st' = negb (match pN st' with [] => true | _ => false end).
Proof. exact par_iteration_serial. Qed.

(* no deadlock in the modelled discipline: an unfinished state always has an enabled worker *)
Theorem c02_progress : forall T D st, finished st = false -> exists i, step_worker T D st i <> st.
Proof. exact par_progress. Qed.

(* whole runs: every parallel run computes the least model, keeps the inputs in place, adds each fact once *)
Theorem c02_par_run_least_model : forall (I : interp) swap arities P pl F0 st,
  arities_functional arities -> wf_facts arities F0 = true -> no_agg P = true ->
  validate arities P pl = true ->
  par_run_plan I swap pl (init_state F0) st ->
  least_model I P F0 (rows st)
  /\ exists added, rows st = F0 ++ added /\ NoDup added /\ (forall f, In f added -> ~ In f F0).
Proof. exact par_run_correct_full. Qed.

(* ... hence the same relations as the serial macros, for every schedule *)
Theorem c02_par_equals_serial : forall I swap swap' arities P pl fuel F0 st_par st_ser,
  arities_functional arities -> wf_facts arities F0 = true -> no_agg P = true -> validate arities P pl = true ->
  par_run_plan I swap pl (init_state F0) st_par ->
  run_plan I swap' fuel pl (init_state F0) = Some st_ser ->
  same_set (rows st_par) (rows st_ser).
Proof. exact par_equals_serial. Qed.

(* with aggregation / negation: every parallel run of a validated plan on duplicate-free input computes the
   stratified model (aggregated relations are complete and frozen while workers read them), rows duplicate free,
   inputs in place; hence the same relations as the serial run *)
Theorem c02_par_run_stratified_model : forall (I : interp) swap arities P pl F0 st,
  arities_functional arities -> wf_facts arities F0 = true -> NoDup F0 -> agg_perm_invariant I ->
  validate arities P pl = true ->
  par_run_plan I swap pl (init_state F0) st ->
  stratified (plan_strata P pl) = true
  /\ (forall r, In r P <-> In r (concat (plan_strata P pl)))
  /\ strat_model_fixed I (plan_strata P pl) F0 (rows st)
  /\ NoDup (rows st)
  /\ exists added, rows st = F0 ++ added.
Proof. intros I swap. exact (par_run_strat_correct I swap (eval_variant_spec_agg I swap)). Qed.

(* ---- lattice relations under ascent_par!: ONE parallel iteration of the lattice head update (Engine/ParLat.v: key index
   lookups in new / delta / total, join under the row's write lock, key mutex + re-check before a push, re-insertion into
   new's indices, __changed), for an arbitrary key type, an arbitrary lattice (laws = LatSem.lat_laws, proved for every
   shipped type in C16 / LatEngine/LatC16.v), any assignment of keys to key mutexes, both orders of the index insertions,
   EVERY distribution of the contributions over workers and EVERY schedule of atomic steps. *)
Section LatticeIteration.
Context {K V : Type}.
Variable keqb : K -> K -> bool.
Hypothesis keqb_spec : forall a b : K, keqb a b = true <-> a = b.
Variable le : V -> V -> Prop.
Variable jm : V -> V -> V * bool.
Hypothesis laws : LatSem.lat_laws le jm.
Variable mx : K -> nat.
Variable kfirst : bool.
Variables dl tt : K -> option nat.
Variable R0 : list (K * V).
Variable nk0 : list (K * nat).
Variable ot0 : list nat.
Variable ch0 : bool.
Variable work : list (list (K * V)).
Hypothesis init : ParLatProofs.init_ok keqb le dl tt R0 nk0 ot0 ch0 work.
(* the code as it is now: new's other indices are set-backed (CLatIndex, /repo d5edf35) *)
Notation run sched := (ParLat.run_sched keqb jm mx kfirst true dl tt (ParLat.par_init R0 nk0 ot0 ch0 work) sched).

(* one row per key in every reachable state, finished or not *)
Theorem c02_lattice_one_row_per_key : forall sched, NoDup (map fst (ParLat.lrows (run sched))).
Proof. exact (ParLatProofs.parlat_one_row_per_key keqb keqb_spec le jm laws mx kfirst true dl tt R0 nk0 ot0 ch0 work init). Qed.

(* after every finishing schedule the row of key k holds THE least upper bound of its old value and all contributions for k,
   i.e. the value map of the serial head update over the same contributions *)
Theorem c02_lattice_values_are_the_serial_ones : forall sched, ParLat.finished (run sched) = true ->
  forall k, ParLat.valof keqb (ParLat.lrows (run sched)) k = ParLat.valof keqb (ParLat.ser_run keqb jm R0 (concat work)) k.
Proof. exact (ParLatProofs.parlat_values keqb keqb_spec le jm laws mx kfirst true dl tt R0 nk0 ot0 ch0 work init). Qed.

(* every row raised or created is in new's indices afterwards, and (set-backed indices) is listed there ONCE - what makes an
   aggregate over the relation see one row per key; before /repo d5edf35 it was listed once per insertion:
   ParLatProofs.parlat_reindexed_once_before_fix_refuted *)
Theorem c02_lattice_reindexed : forall sched, ParLat.finished (run sched) = true ->
  forall i k c, nth_error (ParLat.lrows (run sched)) i = Some (k, c) ->
  nth_error R0 i = Some (k, c) \/
  (ParLat.klook keqb k (ParLat.lnkey (run sched)) = Some i /\ In i (ParLat.lother (run sched))).
Proof. exact (ParLatProofs.parlat_reindexed keqb keqb_spec le jm laws mx kfirst true dl tt R0 nk0 ot0 ch0 work init). Qed.
Theorem c02_lattice_reindexed_once : NoDup ot0 -> forall sched, NoDup (ParLat.lother (run sched)).
Proof. exact (ParLatProofs.parlat_reindexed_once keqb jm mx kfirst true dl tt R0 nk0 ot0 ch0 work eq_refl). Qed.

(* a false flag means nothing happened; no deadlock; every reachable state can be completed *)
Theorem c02_lattice_changed_flag : forall sched, ParLat.finished (run sched) = true -> ParLat.lchg (run sched) = false ->
  ParLat.lrows (run sched) = R0 /\ ParLat.lnkey (run sched) = [].
Proof. exact (ParLatProofs.parlat_changed keqb keqb_spec le jm laws mx kfirst true dl tt R0 nk0 ot0 ch0 work init). Qed.
Theorem c02_lattice_progress : forall sched, ParLat.finished (run sched) = false -> exists j, ParLat.enabled mx (run sched) j = true.
Proof. exact (ParLatProofs.parlat_progress keqb keqb_spec le jm laws mx kfirst true dl tt R0 nk0 ot0 ch0 work init). Qed.
Theorem c02_lattice_can_finish : forall sched, exists sched', ParLat.finished (run (sched ++ sched')) = true.
Proof. exact (ParLatProofs.parlat_can_finish keqb keqb_spec le jm laws mx kfirst true dl tt R0 nk0 ot0 ch0 work init). Qed.
End LatticeIteration.

(* the hypotheses are satisfiable, and a run with a push race (two workers derive the same new key: the second blocks on the key
   mutex, finds the row in the re-check and joins) *)
Example c02_lattice_example : forall kfirst,
  let s := ParLatProofs.zrun kfirst [(7, 0)%Z] [[(5, 1)%Z]; [(5, 2)%Z]] [0; 1; 0; 1; 0; 1; 1; 0; 1; 0; 0; 0; 0; 1; 0; 1; 1; 1; 1]%nat in
  ParLat.finished s = true /\ ParLat.lrows s = [(7, 0); (5, 2)]%Z /\ ParLat.lother s = [1%nat] /\ ParLat.lheld s = [] /\ ParLat.lchg s = true.
Proof. exact ParLatProofs.ex_push_race. Qed.

(* new's key index and new's other indices list the SAME row numbers after every finishing schedule (a body clause of the next
   iteration may read delta through either), and they are numbers of existing rows *)
Theorem c02_lattice_new_views_agree : forall (K V : Type) (keqb : K -> K -> bool) (jm : V -> V -> V * bool) mx kfirst setidx dl tt
    (le : V -> V -> Prop) R0 work sched,
  (forall a b : K, keqb a b = true <-> a = b) -> LatSem.lat_laws le jm ->
  ParLatProofs.init_ok keqb le dl tt R0 [] [] false work ->
  ParLat.finished (ParLat.run_sched keqb jm mx kfirst setidx dl tt (ParLat.par_init R0 [] [] false work) sched) = true ->
  forall i, In i (ParLat.lother (ParLat.run_sched keqb jm mx kfirst setidx dl tt (ParLat.par_init R0 [] [] false work) sched))
            <-> exists k, ParLat.klook keqb k (ParLat.lnkey (ParLat.run_sched keqb jm mx kfirst setidx dl tt (ParLat.par_init R0 [] [] false work) sched)) = Some i.
Proof.
  intros K V keqb jm mx kfirst setidx dl tt le R0 work sched H1 H2 H3 H4.
  exact (LatParHead.parlat_views_agree keqb H1 jm mx kfirst setidx dl tt le H2 R0 work H3 sched H4).
Qed.
Theorem c02_lattice_new_lists_rows : forall (K V : Type) (keqb : K -> K -> bool) (jm : V -> V -> V * bool) mx kfirst setidx dl tt
    (le : V -> V -> Prop) R0 work sched i,
  (forall a b : K, keqb a b = true <-> a = b) ->
  ParLatProofs.init_ok keqb le dl tt R0 [] [] false work ->
  In i (ParLat.lother (ParLat.run_sched keqb jm mx kfirst setidx dl tt (ParLat.par_init R0 [] [] false work) sched)) ->
  (i < length (ParLat.lrows (ParLat.run_sched keqb jm mx kfirst setidx dl tt (ParLat.par_init R0 [] [] false work) sched)))%nat.
Proof.
  intros K V keqb jm mx kfirst setidx dl tt le R0 work sched i H1 H3.
  exact (LatParHead.parlat_other_valid keqb H1 jm mx kfirst setidx dl tt le R0 work H3 sched i).
Qed.

(* ---- lattice relations under ascent_par!: the WHOLE ENGINE.  Model: LatEngine/LatParModel.v par_lat_run_plan - the SCCs in plan
   order, the SCC loop, and in every iteration of every SCC: any number of workers; for every dynamic lattice relation the step
   machine of Engine/ParLat.v above; ONE global schedule interleaving the atomic steps of all head updates in any way; rule
   evaluation that reads a lattice row with ANY value the row has had so far during the iteration (rows[i].read().clone()),
   subject to causality (a contribution is derived from values seen before its head update starts) and exhaustiveness (every
   variant's nested loops are executed completely, in the written order or with a reorderable simple join swapped).
   Hypotheses as in C03 (c03_least_fixed_point): plan accepted by the validator and the lattice plan check, no aggregation,
   semantically monotone program, lattice laws (C16), input with one row per key. *)

(* every parallel run ends with one row per key holding THE least fixed point: a directed set (one row per key), closed under the
   rules, above the input, below every directed closed set above the input *)
Theorem c02_par_lat_run_least_fixed_point :
  forall (V : Type) (I : LatSyntax.linterp V) islat lle jm arities P pl Rin st,
  LatSyntax.veqb_ok I -> (forall r, islat r = true -> LatSem.lat_laws (lle r) (jm r)) ->
  arities_functional arities -> no_agg P = true -> LatSem.monotone_program I islat lle P ->
  validate arities P pl = true -> LatPlan.lat_plan_ok islat arities pl = true ->
  LatMain.input_ok I islat lle arities Rin ->
  LatParModel.par_lat_run_plan I islat jm pl Rin st ->
  let F := LatSem.dbof (LatEval.l_rows st) in
  LatSem.directed I islat lle F /\ LatSem.closedH I islat lle P F /\ LatSem.dble I islat lle (LatSem.dbof Rin) F /\
  forall J : LatSem.db, LatSem.directed I islat lle J -> LatSem.closedH I islat lle P J -> LatSem.dble I islat lle (LatSem.dbof Rin) J ->
    LatSem.dble I islat lle F J.
Proof.
  intros V I islat lle jm arities P pl Rin st H1 H2 H3 H4 H5 H6 H7 H8 H9.
  exact (LatParMain.par_lat_run_least_fixed_point I H1 islat lle jm H2 arities H3 P H4 H5 pl H6 H7 Rin H8 st H9).
Qed.

(* literally one row per key ... *)
Theorem c02_par_lat_run_one_row_per_key :
  forall (V : Type) (I : LatSyntax.linterp V) islat lle jm arities P pl Rin st,
  LatSyntax.veqb_ok I -> (forall r, islat r = true -> LatSem.lat_laws (lle r) (jm r)) ->
  arities_functional arities -> no_agg P = true -> LatSem.monotone_program I islat lle P ->
  validate arities P pl = true -> LatPlan.lat_plan_ok islat arities pl = true ->
  LatMain.input_ok I islat lle arities Rin ->
  LatParModel.par_lat_run_plan I islat jm pl Rin st ->
  forall r, islat r = true -> NoDup (map LatSyntax.tkey (LatEval.l_rows st r)).
Proof.
  intros V I islat lle jm arities P pl Rin st H1 H2 H3 H4 H5 H6 H7 H8 H9.
  exact (LatParMain.par_lat_run_unique_key I H1 islat lle jm H2 arities H3 P H4 H5 pl H6 H7 Rin H8 st H9).
Qed.
(* ... and the input rows are still there, at the same row numbers, with the same keys and values that only went up *)
Theorem c02_par_lat_run_inputs_raised :
  forall (V : Type) (I : LatSyntax.linterp V) islat lle jm arities P pl Rin st,
  LatSyntax.veqb_ok I -> (forall r, islat r = true -> LatSem.lat_laws (lle r) (jm r)) ->
  arities_functional arities -> no_agg P = true -> LatSem.monotone_program I islat lle P ->
  validate arities P pl = true -> LatPlan.lat_plan_ok islat arities pl = true ->
  LatMain.input_ok I islat lle arities Rin ->
  LatParModel.par_lat_run_plan I islat jm pl Rin st ->
  forall r i row, nth_error (Rin r) i = Some row ->
    exists row', nth_error (LatEval.l_rows st r) i = Some row' /\ LatSem.tle I islat lle r row row'.
Proof.
  intros V I islat lle jm arities P pl Rin st H1 H2 H3 H4 H5 H6 H7 H8 H9.
  exact (LatParMain.par_lat_run_grows I H1 islat lle jm H2 arities H3 P H4 H5 pl H6 H7 Rin H8 st H9).
Qed.

(* ... hence the rows of the serial engine (LatEval.run_plan, C03) on the same input - the same set of rows in every relation, the same
   key -> value map in every lattice relation - for every parallel run and every iteration-order / len_estimate oracle of the serial model *)
Theorem c02_par_lat_equals_serial :
  forall (V : Type) (I : LatSyntax.linterp V) islat lle jm arities P pl Rin shuffle swap_oracle fuel st_par st_ser,
  LatSyntax.veqb_ok I -> (forall r, islat r = true -> LatSem.lat_laws (lle r) (jm r)) ->
  arities_functional arities -> no_agg P = true -> LatSem.monotone_program I islat lle P ->
  validate arities P pl = true -> LatPlan.lat_plan_ok islat arities pl = true ->
  LatMain.input_ok I islat lle arities Rin ->
  (forall n l x, In x (shuffle n l) <-> In x l) ->
  LatParModel.par_lat_run_plan I islat jm pl Rin st_par ->
  LatEval.run_plan I islat jm shuffle swap_oracle fuel pl Rin = Some st_ser ->
  (forall r t, In t (LatEval.l_rows st_par r) <-> In t (LatEval.l_rows st_ser r))
  /\ (forall r, islat r = true -> Permutation (LatEval.l_rows st_par r) (LatEval.l_rows st_ser r)).
Proof.
  intros V I islat lle jm arities P pl Rin shuffle swap_oracle fuel st_par st_ser H1 H2 H3 H4 H5 H6 H7 H8 H9 H10 H11.
  exact (LatParMain.par_lat_equals_serial I H1 islat lle jm H2 arities H3 P H4 H5 pl H6 H7 Rin H8 shuffle swap_oracle fuel st_par st_ser H9 H10 H11).
Qed.

(* the two halves: soundness of every parallel run below every directed closed set above the input; closedness at exit *)
Theorem c02_par_lat_run_sound :
  forall (V : Type) (I : LatSyntax.linterp V) islat lle jm arities P pl Rin st (J : LatSem.db),
  LatSyntax.veqb_ok I -> (forall r, islat r = true -> LatSem.lat_laws (lle r) (jm r)) ->
  arities_functional arities -> no_agg P = true -> LatSem.monotone_program I islat lle P ->
  validate arities P pl = true -> LatPlan.lat_plan_ok islat arities pl = true ->
  LatMain.input_ok I islat lle arities Rin ->
  LatSem.directed I islat lle J -> LatSem.closedH I islat lle P J ->
  (forall r row, In row (Rin r) -> LatSem.below I islat lle J (r, row)) ->
  LatParModel.par_lat_run_plan I islat jm pl Rin st ->
  forall r row, In row (LatEval.l_rows st r) -> LatSem.below I islat lle J (r, row).
Proof.
  intros V I islat lle jm arities P pl Rin st J H1 H2 H3 H4 H5 H6 H7 H8 HJ1 HJ2 HJ3 H9.
  exact (LatParMain.par_lat_run_sound I H1 islat lle jm H2 arities H3 P H4 H5 pl H6 H7 Rin H8 J st HJ1 HJ2 HJ3 H9).
Qed.
Theorem c02_par_lat_run_closed_at_exit :
  forall (V : Type) (I : LatSyntax.linterp V) islat lle jm arities P pl Rin st,
  LatSyntax.veqb_ok I -> (forall r, islat r = true -> LatSem.lat_laws (lle r) (jm r)) ->
  arities_functional arities -> no_agg P = true -> LatSem.monotone_program I islat lle P ->
  validate arities P pl = true -> LatPlan.lat_plan_ok islat arities pl = true ->
  LatMain.input_ok I islat lle arities Rin ->
  LatParModel.par_lat_run_plan I islat jm pl Rin st ->
  LatSem.closedH I islat lle P (LatSem.dbof (LatEval.l_rows st)).
Proof.
  intros V I islat lle jm arities P pl Rin st H1 H2 H3 H4 H5 H6 H7 H8 H9.
  exact (LatParMain.par_lat_run_closed I H1 islat lle jm H2 arities H3 P H4 H5 pl H6 H7 Rin H8 st H9).
Qed.

(* at EVERY iteration start a parallel run can reach (any number of completed SCCs, any number of parallel iterations of the next one -
   what a run stopped by a deadline leaves behind): the rows are below every directed closed set above the input, one row per key *)
Theorem c02_par_lat_sound_at_every_iteration :
  forall (V : Type) (I : LatSyntax.linterp V) islat lle jm arities P pl Rin (J : LatSem.db) pre sc rest st T2 D2 R2,
  LatSyntax.veqb_ok I -> (forall r, islat r = true -> LatSem.lat_laws (lle r) (jm r)) ->
  arities_functional arities -> no_agg P = true -> LatSem.monotone_program I islat lle P ->
  validate arities P pl = true -> LatPlan.lat_plan_ok islat arities pl = true ->
  LatMain.input_ok I islat lle arities Rin ->
  LatSem.directed I islat lle J -> LatSem.closedH I islat lle P J -> (forall r row, In row (Rin r) -> LatSem.below I islat lle J (r, row)) ->
  pl = pre ++ sc :: rest ->
  LatParModel.par_lat_run_sccs I islat jm pre (LatEval.update_indices Rin) st ->
  LatParModel.par_lat_loop_reach I islat jm sc (LatEval.l_stored st) (fun _ => []) (fun r => if is_dyn (s_dyn sc) r then LatEval.l_stored st r else [])
                                 (LatEval.l_rows st) T2 D2 R2 ->
  (forall r row, In row (R2 r) -> LatSem.below I islat lle J (r, row))
  /\ (forall r, islat r = true -> NoDup (map LatSyntax.tkey (R2 r)))
  /\ (forall r i, is_dyn (s_dyn sc) r = true -> (i < length (R2 r))%nat -> In i (T2 r) \/ In i (D2 r)).
Proof.
  intros V I islat lle jm arities P pl Rin J pre sc rest st T2 D2 R2 H1 H2 H3 H4 H5 H6 H7 H8 HJ1 HJ2 HJ3 H9 H10 H11.
  exact (LatParMain.par_lat_intermediate I H1 islat lle jm H2 arities H3 P H4 H5 pl H6 H7 Rin H8 J pre sc rest st T2 D2 R2 HJ1 HJ2 HJ3 H9 H10 H11).
Qed.

(* no deadlock anywhere in a parallel run: in every state of every iteration a run can reach - ANY contributions, ANY global schedule -
   a lattice relation whose head updates are not finished has a worker that can perform a step *)
Theorem c02_par_lat_no_deadlock :
  forall (V : Type) (I : LatSyntax.linterp V) islat lle jm arities P pl Rin pre sc rest st T2 D2 R2 (mx : rel -> list V -> nat) kfirst work sched r,
  LatSyntax.veqb_ok I -> (forall r, islat r = true -> LatSem.lat_laws (lle r) (jm r)) ->
  arities_functional arities -> no_agg P = true -> LatSem.monotone_program I islat lle P ->
  validate arities P pl = true -> LatPlan.lat_plan_ok islat arities pl = true ->
  LatMain.input_ok I islat lle arities Rin ->
  pl = pre ++ sc :: rest ->
  LatParModel.par_lat_run_sccs I islat jm pre (LatEval.update_indices Rin) st ->
  LatParModel.par_lat_loop_reach I islat jm sc (LatEval.l_stored st) (fun _ => []) (fun r => if is_dyn (s_dyn sc) r then LatEval.l_stored st r else [])
                                 (LatEval.l_rows st) T2 D2 R2 ->
  LatParModel.latdyn islat sc r = true ->
  ParLat.finished (LatParModel.grun I jm T2 D2 R2 mx kfirst (LatParModel.ginit I R2 work) sched r) = false ->
  exists j, ParLat.enabled (mx r) (LatParModel.grun I jm T2 D2 R2 mx kfirst (LatParModel.ginit I R2 work) sched r) j = true.
Proof.
  intros V I islat lle jm arities P pl Rin pre sc rest st T2 D2 R2 mx kfirst work sched r H1 H2 H3 H4 H5 H6 H7 H8 H9 H10 H11 H12 H13.
  exact (LatParMain.par_lat_run_no_deadlock I H1 islat lle jm H2 arities H3 P H4 H5 pl H6 H7 Rin H8 pre sc rest st T2 D2 R2 mx kfirst work sched r H9 H10 H11 H12 H13).
Qed.

(* non-vacuity: d(y, v) <-- d(x, v), e(x, y) over Dual<u32> with the plan the real macro dumps for it (one looping SCC, a
   reorderable simple join): the hypotheses hold, and there is a TWO-WORKER run of two iterations in which worker 1 reads row 1
   after worker 0 has raised it (it observes an intermediate value) - ending in d = {0 -> 3, 1 -> 3}, as the serial model does *)
Example c02_par_lat_example_hypotheses :
  LatSyntax.veqb_ok LatVocab.lv_interp /\ (forall r, LatExample.sp_islat r = true -> LatSem.lat_laws (LatExample.sp_lle r) (LatExample.sp_jm r)) /\
  arities_functional LatParExample.px_arities /\ no_agg LatParExample.px_prog = true /\
  LatSem.monotone_program LatVocab.lv_interp LatExample.sp_islat LatExample.sp_lle LatParExample.px_prog /\
  validate LatParExample.px_arities LatParExample.px_prog LatParExample.px_plan = true /\
  LatPlan.lat_plan_ok LatExample.sp_islat LatParExample.px_arities LatParExample.px_plan = true /\
  LatMain.input_ok LatVocab.lv_interp LatExample.sp_islat LatExample.sp_lle LatParExample.px_arities LatParExample.px_input.
Proof.
  split; [exact LatExample.sp_eq|]. split; [exact LatExample.sp_laws|]. split; [exact LatParExample.px_arities_functional|].
  destruct LatParExample.px_checks as [A [B C]]. split; [exact C|]. split; [exact LatParExample.px_monotone|].
  split; [exact A|]. split; [exact B | exact LatParExample.px_input_ok].
Qed.
Example c02_par_lat_example_run : exists st,
  LatParModel.par_lat_run_plan LatVocab.lv_interp LatExample.sp_islat LatExample.sp_jm LatParExample.px_plan LatParExample.px_input st
  /\ LatEval.l_rows st 1%nat = [[0; 3]; [1; 3]]%Z
  /\ option_map (fun s => LatEval.l_rows s 1%nat)
       (LatEval.run_plan LatVocab.lv_interp LatExample.sp_islat LatExample.sp_jm LatVocab.lv_shuffle LatVocab.lv_swap 10 LatParExample.px_plan LatParExample.px_input)
     = Some [[0; 3]; [1; 3]]%Z.
Proof.
  exists LatParExample.px_final. split; [exact LatParExample.px_parallel_run|]. split; [exact LatParExample.px_result | exact LatParExample.px_serial].
Qed.

(* why the model has its causality condition: with "derived from values seen at SOME moment of the iteration" (= between the value
   at the start and the value at the end) instead of "... seen BEFORE its head update starts", the model admits an iteration no
   execution can produce - lattice x(Dual<u32>), rule x(v) <-- x(v), input x = 5: the contribution x = 0 justifies itself through
   its own join - ending outside the only fixed point above the input *)
Theorem c02_par_lat_acausal_model_refuted :
  exists R' N' ch',
    LatParCausality.par_lat_iteration_acausal LatVocab.lv_interp LatExample.sp_islat LatExample.sp_jm LatParCausality.cx_scc
      LatParCausality.cx_St LatParCausality.cx_T LatParCausality.cx_D LatParCausality.cx_input R' N' ch'
    /\ LatSem.directed LatVocab.lv_interp LatExample.sp_islat LatExample.sp_lle (LatSem.dbof LatParCausality.cx_input)
    /\ LatSem.closedH LatVocab.lv_interp LatExample.sp_islat LatExample.sp_lle LatParCausality.cx_prog (LatSem.dbof LatParCausality.cx_input)
    /\ exists row, In row (R' 1%nat) /\ ~ LatSem.below LatVocab.lv_interp LatExample.sp_islat LatExample.sp_lle (LatSem.dbof LatParCausality.cx_input) (1%nat, row).
Proof. exact LatParCausality.acausal_run_not_least. Qed.

(* SCOPE of the lattice engine theorems: programs without aggregation (the hypothesis no_agg, as in C03; aggregates over parallel
   lattice relations are C04 / C05's subject and are exercised through ascent_par! by the tie only); a run that ENDS (no state of the head updates is a deadlock: c02_par_lat_no_deadlock, and
   per iteration every reachable state of them can be completed: c02_lattice_can_finish; termination of the SCC loop is a property of
   the program, e.g. finite lattice height, not of the engine).  The outcome of the head update of a PLAIN relation inside such a
   program is taken from c02_iteration_schedule_independent (new rows = the derived facts absent from total / delta, each once): it
   is part of the model LatParModel.par_lat_iteration, not re-derived from ParStep's steps over the lattice engine's value universe.
   RESIDUE that no model can exhibit: the relational model is tied to the real ascent_par! binaries by sampling only (C03's programs
   and the lattice + aggregate family under seeded schedule perturbation against the Kleene oracle, gen/props/c02.py); the real
   DashMap / RwLock / Mutex / boxcar implementations, rayon's work stealing and the Relaxed store to __changed being visible after
   the scope's join are assumed linearizable / correct (trusted base); the schedule space of the real binary is sampled, not enumerated. *)

Print Assumptions c02_iteration_schedule_independent. Print Assumptions c02_progress.
Print Assumptions c02_par_run_least_model. Print Assumptions c02_par_equals_serial. Print Assumptions c02_par_run_stratified_model.
Print Assumptions c02_lattice_one_row_per_key. Print Assumptions c02_lattice_values_are_the_serial_ones. Print Assumptions c02_lattice_reindexed.
Print Assumptions c02_lattice_reindexed_once. Print Assumptions c02_lattice_changed_flag. Print Assumptions c02_lattice_progress.
Print Assumptions c02_lattice_can_finish. Print Assumptions c02_lattice_example.
Print Assumptions c02_lattice_new_views_agree. Print Assumptions c02_lattice_new_lists_rows.
Print Assumptions c02_par_lat_run_least_fixed_point. Print Assumptions c02_par_lat_run_one_row_per_key. Print Assumptions c02_par_lat_run_inputs_raised.
Print Assumptions c02_par_lat_equals_serial. Print Assumptions c02_par_lat_run_sound. Print Assumptions c02_par_lat_run_closed_at_exit.
Print Assumptions c02_par_lat_sound_at_every_iteration. Print Assumptions c02_par_lat_no_deadlock.
Print Assumptions c02_par_lat_example_hypotheses. Print Assumptions c02_par_lat_example_run. Print Assumptions c02_par_lat_acausal_model_refuted.
