(* C02 — parallel evaluation equals serial evaluation under every schedule (relations with negation / aggregation, and
   programs mixing relations and lattices without aggregation; see RESIDUE below).
   Property theorems only; proofs in Engine/{ParSched,ParProofs,MainPar,ParLatProofs}.v and LatEngine/LatPar{Head,Items,Iter,Main}.v.  Model: Engine/ParStep.v — workers
   perform atomic steps (frozen reads of total / delta, atomic insert_if_not_present into new, push + index update
   after a successful insert); a schedule is an arbitrary list of worker numbers. *)
From Coq Require Import List ZArith Bool Permutation.
From AV Require Import Engine.Core Engine.Sem Engine.Eval Engine.Validate Engine.Naive Engine.Interface Engine.Main.
From AV Require Import Engine.ParStep Engine.InterfacePar Engine.ParProofs Engine.MainPar.
From AV Require Import Engine.InterfaceAgg Engine.Strat Engine.StratFixed Engine.EvalSpecAgg Engine.SemiNaiveAgg Engine.ParProofsAgg.
From AV Require Engine.ParLat.
From AV Require Engine.ParLatProofs.
From AV Require LatEngine.LatSem.
From AV Require LatEngine.LatSyntax.
From AV Require LatEngine.LatEval.
From AV Require LatEngine.LatPlan.
From AV Require LatEngine.LatMain.
From AV Require LatEngine.LatVocab.
From AV Require LatEngine.LatExample.
From AV Require LatEngine.LatParModel.
From AV Require LatEngine.LatParHead.
From AV Require LatEngine.LatParIter.
From AV Require LatEngine.LatParMain.
From AV Require LatEngine.LatParExample.
From AV Require LatEngine.LatParCausality.
Import ListNotations.

(* one iteration: for every distribution of the derived facts over the workers and every interleaving that lets all
   workers finish, `new` holds exactly what the serial head update adds, each fact once, each pushed as a row exactly
   once, and __changed is set iff something was added *)
Theorem c02_iteration_schedule_independent : forall T D R work sched,
  let st' := run_sched T D (par_init R work) sched in
  finished st' = true ->
  let serial := fold_left (head_update T D) (concat work) ([], R) in
  Permutation (pN st') (fst serial)
  /\ NoDup (pN st')
  /\ (exists A, pR st' = R ++ A /\ Permutation A (pN st'))
  /\ pchanged st' = negb (match pN st' with [] => true | _ => false end).
Proof. exact par_iteration_serial. Qed.

(* no deadlock in the modelled discipline: an unfinished state always has an enabled worker *)
Theorem c02_progress : forall T D st, finished st = false -> exists i, step_worker T D st i <> st.
Proof. exact par_progress. Qed.

(* whole runs: every parallel run computes the least model, keeps the inputs in place, adds each fact once *)
Theorem c02_par_run_least_model : forall (I : interp) swap arities P pl F0 st,
  arities_functional arities -> wf_facts arities F0 = true -> no_agg P = true ->
  validate arities P pl = true ->
  par_run_plan I swap pl (init_state F0) st ->
  least_model I P F0 (rows st)
  /\ exists added, rows st = F0 ++ added /\ NoDup added /\ (forall f, In f added -> ~ In f F0).
Proof. exact par_run_correct_full. Qed.

(* ... hence the same relations as the serial macros, for every schedule *)
Theorem c02_par_equals_serial : forall I swap swap' arities P pl fuel F0 st_par st_ser,
  arities_functional arities -> wf_facts arities F0 = true -> no_agg P = true -> validate arities P pl = true ->
  par_run_plan I swap pl (init_state F0) st_par ->
  run_plan I swap' fuel pl (init_state F0) = Some st_ser ->
  same_set (rows st_par) (rows st_ser).
Proof. exact par_equals_serial. Qed.

(* with aggregation / negation: every parallel run of a validated plan on duplicate-free input computes the
   stratified model (aggregated relations are complete and frozen while workers read them), rows duplicate free,
   inputs in place; hence the same relations as the serial run *)
Theorem c02_par_run_stratified_model : forall (I : interp) swap arities P pl F0 st,
  arities_functional arities -> wf_facts arities F0 = true -> NoDup F0 -> agg_perm_invariant I ->
  validate arities P pl = true ->
  par_run_plan I swap pl (init_state F0) st ->
  stratified (plan_strata P pl) = true
  /\ (forall r, In r P <-> In r (concat (plan_strata P pl)))
  /\ strat_model_fixed I (plan_strata P pl) F0 (rows st)
  /\ NoDup (rows st)
  /\ exists added, rows st = F0 ++ added.
Proof. intros I swap. exact (par_run_strat_correct I swap (eval_variant_spec_agg I swap)). Qed.

(* ---- lattice relations under ascent_par!: ONE parallel iteration of the lattice head update (Engine/ParLat.v: key index
   lookups in new / delta / total, join under the row's write lock, key mutex + re-check before a push, re-insertion into
   new's indices, __changed), for an arbitrary key type, an arbitrary lattice (laws = LatSem.lat_laws, proved for every
   shipped type in C16 / LatEngine/LatC16.v), any assignment of keys to key mutexes, both orders of the index insertions,
   EVERY distribution of the contributions over workers and EVERY schedule of atomic steps. *)
Section LatticeIteration.
Context {K V : Type}.
Variable keqb : K -> K -> bool.
Hypothesis keqb_spec : forall a b : K, keqb a b = true <-> a = b.
Variable le : V -> V -> Prop.
Variable jm : V -> V -> V * bool.
Hypothesis laws : LatSem.lat_laws le jm.
Variable mx : K -> nat.
Variable kfirst : bool.
Variables dl tt : K -> option nat.
Variable R0 : list (K * V).
Variable nk0 : list (K * nat).
Variable ot0 : list nat.
Variable ch0 : bool.
Variable work : list (list (K * V)).
Hypothesis init : ParLatProofs.init_ok keqb le dl tt R0 nk0 ot0 ch0 work.
(* the code as it is now: new's other indices are set-backed (CLatIndex, /repo d5edf35) *)
Notation run sched := (ParLat.run_sched keqb jm mx kfirst true dl tt (ParLat.par_init R0 nk0 ot0 ch0 work) sched).

(* one row per key in every reachable state, finished or not *)
Theorem c02_lattice_one_row_per_key : forall sched, NoDup (map fst (ParLat.lrows (run sched))).
Proof. exact (ParLatProofs.parlat_one_row_per_key keqb keqb_spec le jm laws mx kfirst true dl tt R0 nk0 ot0 ch0 work init). Qed.

(* after every finishing schedule the row of key k holds THE least upper bound of its old value and all contributions for k,
   i.e. the value map of the serial head update over the same contributions *)
Theorem c02_lattice_values_are_the_serial_ones : forall sched, ParLat.finished (run sched) = true ->
  forall k, ParLat.valof keqb (ParLat.lrows (run sched)) k = ParLat.valof keqb (ParLat.ser_run keqb jm R0 (concat work)) k.
Proof. exact (ParLatProofs.parlat_values keqb keqb_spec le jm laws mx kfirst true dl tt R0 nk0 ot0 ch0 work init). Qed.

(* every row raised or created is in new's indices afterwards, and (set-backed indices) is listed there ONCE - what makes an
   aggregate over the relation see one row per key; before /repo d5edf35 it was listed once per insertion:
   ParLatProofs.parlat_reindexed_once_before_fix_refuted *)
Theorem c02_lattice_reindexed : forall sched, ParLat.finished (run sched) = true ->
  forall i k c, nth_error (ParLat.lrows (run sched)) i = Some (k, c) ->
  nth_error R0 i = Some (k, c) \/
  (ParLat.klook keqb k (ParLat.lnkey (run sched)) = Some i /\ In i (ParLat.lother (run sched))).
Proof. exact (ParLatProofs.parlat_reindexed keqb keqb_spec le jm laws mx kfirst true dl tt R0 nk0 ot0 ch0 work init). Qed.
Theorem c02_lattice_reindexed_once : NoDup ot0 -> forall sched, NoDup (ParLat.lother (run sched)).
Proof. exact (ParLatProofs.parlat_reindexed_once keqb jm mx kfirst true dl tt R0 nk0 ot0 ch0 work eq_refl). Qed.

(* a false flag means nothing happened; no deadlock; every reachable state can be completed *)
Theorem c02_lattice_changed_flag : forall sched, ParLat.finished (run sched) = true -> ParLat.lchg (run sched) = false ->
  ParLat.lrows (run sched) = R0 /\ ParLat.lnkey (run sched) = [].
Proof. exact (ParLatProofs.parlat_changed keqb keqb_spec le jm laws mx kfirst true dl tt R0 nk0 ot0 ch0 work init). Qed.
Theorem c02_lattice_progress : forall sched, ParLat.finished (run sched) = false -> exists j, ParLat.enabled mx (run sched) j = true.
Proof. exact (ParLatProofs.parlat_progress keqb keqb_spec le jm laws mx kfirst true dl tt R0 nk0 ot0 ch0 work init). Qed.
Theorem c02_lattice_can_finish : forall sched, exists sched', ParLat.finished (run (sched ++ sched')) = true.
Proof. exact (ParLatProofs.parlat_can_finish keqb keqb_spec le jm laws mx kfirst true dl tt R0 nk0 ot0 ch0 work init). Qed.
End LatticeIteration.

(* the hypotheses are satisfiable, and a run with a push race (two workers derive the same new key: the second blocks on the key
   mutex, finds the row in the re-check and joins) *)
Example c02_lattice_example : forall kfirst,
  let s := ParLatProofs.zrun kfirst [(7, 0)%Z] [[(5, 1)%Z]; [(5, 2)%Z]] [0; 1; 0; 1; 0; 1; 1; 0; 1; 0; 0; 0; 0; 1; 0; 1; 1; 1; 1]%nat in
  ParLat.finished s = true /\ ParLat.lrows s = [(7, 0); (5, 2)]%Z /\ ParLat.lother s = [1%nat] /\ ParLat.lheld s = [] /\ ParLat.lchg s = true.
Proof. exact ParLatProofs.ex_push_race. Qed.

(* new's key index and new's other indices list the SAME row numbers after every finishing schedule (a body clause of the next
   iteration may read delta through either), and they are numbers of existing rows *)
Theorem c02_lattice_new_views_agree : forall (K V : Type) (keqb : K -> K -> bool) (jm : V -> V -> V * bool) mx kfirst setidx dl tt
    (le : V -> V -> Prop) R0 work sched,
  (forall a b : K, keqb a b = true <-> a = b) -> LatSem.lat_laws le jm ->
  ParLatProofs.init_ok keqb le dl tt R0 [] [] false work ->
  ParLat.finished (ParLat.run_sched keqb jm mx kfirst setidx dl tt (ParLat.par_init R0 [] [] false work) sched) = true ->
  forall i, In i (ParLat.lother (ParLat.run_sched keqb jm mx kfirst setidx dl tt (ParLat.par_init R0 [] [] false work) sched))
            <-> exists k, ParLat.klook keqb k (ParLat.lnkey (ParLat.run_sched keqb jm mx kfirst setidx dl tt (ParLat.par_init R0 [] [] false work) sched)) = Some i.
Proof.
  intros K V keqb jm mx kfirst setidx dl tt le R0 work sched H1 H2 H3 H4.
  exact (LatParHead.parlat_views_agree keqb H1 jm mx kfirst setidx dl tt le H2 R0 work H3 sched H4).
Qed.
Theorem c02_lattice_new_lists_rows : forall (K V : Type) (keqb : K -> K -> bool) (jm : V -> V -> V * bool) mx kfirst setidx dl tt
    (le : V -> V -> Prop) R0 work sched i,
  (forall a b : K, keqb a b = true <-> a = b) ->
  ParLatProofs.init_ok keqb le dl tt R0 [] [] false work ->
  In i (ParLat.lother (ParLat.run_sched keqb jm mx kfirst setidx dl tt (ParLat.par_init R0 [] [] false work) sched)) ->
  (i < length (ParLat.lrows (ParLat.run_sched keqb jm mx kfirst setidx dl tt (ParLat.par_init R0 [] [] false work) sched)))%nat.
Proof.
  intros K V keqb jm mx kfirst setidx dl tt le R0 work sched i H1 H3.
  exact (LatParHead.parlat_other_valid keqb H1 jm mx kfirst setidx dl tt le R0 work H3 sched i).
Qed.

(* ---- lattice relations under ascent_par!: the WHOLE ENGINE.  Model: LatEngine/LatParModel.v par_lat_run_plan - the SCCs in plan
   order, the SCC loop, and in every iteration of every SCC: any number of workers; for every dynamic lattice relation the step
   machine of Engine/ParLat.v above; ONE global schedule interleaving the atomic steps of all head updates in any way; rule
   evaluation that reads a lattice row with ANY value the row has had so far during the iteration (rows[i].read().clone()),
   subject to causality (a contribution is derived from values seen before its head update starts) and exhaustiveness (every
   variant's nested loops are executed completely, in the written order or with a reorderable simple join swapped).
   Hypotheses as in C03 (c03_least_fixed_point): plan accepted by the validator and the lattice plan check, no aggregation,
   semantically monotone program, lattice laws (C16), input with one row per key. *)

(* every parallel run ends with one row per key holding THE least fixed point: a directed set (one row per key), closed under the
   rules, above the input, below every directed closed set above the input *)
Theorem c02_par_lat_run_least_fixed_point :
  forall (V : Type) (I : LatSyntax.linterp V) islat lle jm arities P pl Rin st,
  LatSyntax.veqb_ok I -> (forall r, islat r = true -> LatSem.lat_laws (lle r) (jm r)) ->
  arities_functional arities -> no_agg P = true -> LatSem.monotone_program I islat lle P ->
  validate arities P pl = true -> LatPlan.lat_plan_ok islat arities pl = true ->
  LatMain.input_ok I islat lle arities Rin ->
  LatParModel.par_lat_run_plan I islat jm pl Rin st ->
  let F := LatSem.dbof (LatEval.l_rows st) in
  LatSem.directed I islat lle F /\ LatSem.closedH I islat lle P F /\ LatSem.dble I islat lle (LatSem.dbof Rin) F /\
  forall J : LatSem.db, LatSem.directed I islat lle J -> LatSem.closedH I islat lle P J -> LatSem.dble I islat lle (LatSem.dbof Rin) J ->
    LatSem.dble I islat lle F J.
Proof.
  intros V I islat lle jm arities P pl Rin st H1 H2 H3 H4 H5 H6 H7 H8 H9.
  exact (LatParMain.par_lat_run_least_fixed_point I H1 islat lle jm H2 arities H3 P H4 H5 pl H6 H7 Rin H8 st H9).
Qed.

(* literally one row per key ... *)
Theorem c02_par_lat_run_one_row_per_key :
  forall (V : Type) (I : LatSyntax.linterp V) islat lle jm arities P pl Rin st,
  LatSyntax.veqb_ok I -> (forall r, islat r = true -> LatSem.lat_laws (lle r) (jm r)) ->
  arities_functional arities -> no_agg P = true -> LatSem.monotone_program I islat lle P ->
  validate arities P pl = true -> LatPlan.lat_plan_ok islat arities pl = true ->
  LatMain.input_ok I islat lle arities Rin ->
  LatParModel.par_lat_run_plan I islat jm pl Rin st ->
  forall r, islat r = true -> NoDup (map LatSyntax.tkey (LatEval.l_rows st r)).
Proof.
  intros V I islat lle jm arities P pl Rin st H1 H2 H3 H4 H5 H6 H7 H8 H9.
  exact (LatParMain.par_lat_run_unique_key I H1 islat lle jm H2 arities H3 P H4 H5 pl H6 H7 Rin H8 st H9).
Qed.
(* ... and the input rows are still there, at the same row numbers, with the same keys and values that only went up *)
Theorem c02_par_lat_run_inputs_raised :
  forall (V : Type) (I : LatSyntax.linterp V) islat lle jm arities P pl Rin st,
  LatSyntax.veqb_ok I -> (forall r, islat r = true -> LatSem.lat_laws (lle r) (jm r)) ->
  arities_functional arities -> no_agg P = true -> LatSem.monotone_program I islat lle P ->
  validate arities P pl = true -> LatPlan.lat_plan_ok islat arities pl = true ->
  LatMain.input_ok I islat lle arities Rin ->
  LatParModel.par_lat_run_plan I islat jm pl Rin st ->
  forall r i row, nth_error (Rin r) i = Some row ->
    exists row', nth_error (LatEval.l_rows st r) i = Some row' /\ LatSem.tle I islat lle r row row'.
Proof.
  intros V I islat lle jm arities P pl Rin st H1 H2 H3 H4 H5 H6 H7 H8 H9.
  exact (LatParMain.par_lat_run_grows I H1 islat lle jm H2 arities H3 P H4 H5 pl H6 H7 Rin H8 st H9).
Qed.

(* ... hence the rows of the serial engine (LatEval.run_plan, C03) on the same input - the same set of rows in every relation, the same
   key -> value map in every lattice relation - for every parallel run and every iteration-order / len_estimate oracle of the serial model *)
Theorem c02_par_lat_equals_serial :
  forall (V : Type) (I : LatSyntax.linterp V) islat lle jm arities P pl Rin shuffle swap_oracle fuel st_par st_ser,
  LatSyntax.veqb_ok I -> (forall r, islat r = true -> LatSem.lat_laws (lle r) (jm r)) ->
  arities_functional arities -> no_agg P = true -> LatSem.monotone_program I islat lle P ->
  validate arities P pl = true -> LatPlan.lat_plan_ok islat arities pl = true ->
  LatMain.input_ok I islat lle arities Rin ->
  (forall n l x, In x (shuffle n l) <-> In x l) ->
  LatParModel.par_lat_run_plan I islat jm pl Rin st_par ->
  LatEval.run_plan I islat jm shuffle swap_oracle fuel pl Rin = Some st_ser ->
  (forall r t, In t (LatEval.l_rows st_par r) <-> In t (LatEval.l_rows st_ser r))
  /\ (forall r, islat r = true -> Permutation (LatEval.l_rows st_par r) (LatEval.l_rows st_ser r)).
Proof.
  intros V I islat lle jm arities P pl Rin shuffle swap_oracle fuel st_par st_ser H1 H2 H3 H4 H5 H6 H7 H8 H9 H10 H11.
  exact (LatParMain.par_lat_equals_serial I H1 islat lle jm H2 arities H3 P H4 H5 pl H6 H7 Rin H8 shuffle swap_oracle fuel st_par st_ser H9 H10 H11).
Qed.

(* the two halves: soundness of every parallel run below every directed closed set above the input; closedness at exit *)
Theorem c02_par_lat_run_sound :
  forall (V : Type) (I : LatSyntax.linterp V) islat lle jm arities P pl Rin st (J : LatSem.db),
  LatSyntax.veqb_ok I -> (forall r, islat r = true -> LatSem.lat_laws (lle r) (jm r)) ->
  arities_functional arities -> no_agg P = true -> LatSem.monotone_program I islat lle P ->
  validate arities P pl = true -> LatPlan.lat_plan_ok islat arities pl = true ->
  LatMain.input_ok I islat lle arities Rin ->
  LatSem.directed I islat lle J -> LatSem.closedH I islat lle P J ->
  (forall r row, In row (Rin r) -> LatSem.below I islat lle J (r, row)) ->
  LatParModel.par_lat_run_plan I islat jm pl Rin st ->
  forall r row, In row (LatEval.l_rows st r) -> LatSem.below I islat lle J (r, row).
Proof.
  intros V I islat lle jm arities P pl Rin st J H1 H2 H3 H4 H5 H6 H7 H8 HJ1 HJ2 HJ3 H9.
  exact (LatParMain.par_lat_run_sound I H1 islat lle jm H2 arities H3 P H4 H5 pl H6 H7 Rin H8 J st HJ1 HJ2 HJ3 H9).
Qed.
Theorem c02_par_lat_run_closed_at_exit :
  forall (V : Type) (I : LatSyntax.linterp V) islat lle jm arities P pl Rin st,
  LatSyntax.veqb_ok I -> (forall r, islat r = true -> LatSem.lat_laws (lle r) (jm r)) ->
  arities_functional arities -> no_agg P = true -> LatSem.monotone_program I islat lle P ->
  validate arities P pl = true -> LatPlan.lat_plan_ok islat arities pl = true ->
  LatMain.input_ok I islat lle arities Rin ->
  LatParModel.par_lat_run_plan I islat jm pl Rin st ->
  LatSem.closedH I islat lle P (LatSem.dbof (LatEval.l_rows st)).
Proof.
  intros V I islat lle jm arities P pl Rin st H1 H2 H3 H4 H5 H6 H7 H8 H9.
  exact (LatParMain.par_lat_run_closed I H1 islat lle jm H2 arities H3 P H4 H5 pl H6 H7 Rin H8 st H9).
Qed.

(* at EVERY iteration start a parallel run can reach (any number of completed SCCs, any number of parallel iterations of the next one -
   what a run stopped by a deadline leaves behind): the rows are below every directed closed set above the input, one row per key *)
Theorem c02_par_lat_sound_at_every_iteration :
  forall (V : Type) (I : LatSyntax.linterp V) islat lle jm arities P pl Rin (J : LatSem.db) pre sc rest st T2 D2 R2,
  LatSyntax.veqb_ok I -> (forall r, islat r = true -> LatSem.lat_laws (lle r) (jm r)) ->
  arities_functional arities -> no_agg P = true -> LatSem.monotone_program I islat lle P ->
  validate arities P pl = true -> LatPlan.lat_plan_ok islat arities pl = true ->
  LatMain.input_ok I islat lle arities Rin ->
  LatSem.directed I islat lle J -> LatSem.closedH I islat lle P J -> (forall r row, In row (Rin r) -> LatSem.below I islat lle J (r, row)) ->
  pl = pre ++ sc :: rest ->
  LatParModel.par_lat_run_sccs I islat jm pre (LatEval.update_indices Rin) st ->
  LatParModel.par_lat_loop_reach I islat jm sc (LatEval.l_stored st) (fun _ => []) (fun r => if is_dyn (s_dyn sc) r then LatEval.l_stored st r else [])
                                 (LatEval.l_rows st) T2 D2 R2 ->
  (forall r row, In row (R2 r) -> LatSem.below I islat lle J (r, row))
  /\ (forall r, islat r = true -> NoDup (map LatSyntax.tkey (R2 r)))
  /\ (forall r i, is_dyn (s_dyn sc) r = true -> (i < length (R2 r))%nat -> In i (T2 r) \/ In i (D2 r)).
Proof.
  intros V I islat lle jm arities P pl Rin J pre sc rest st T2 D2 R2 H1 H2 H3 H4 H5 H6 H7 H8 HJ1 HJ2 HJ3 H9 H10 H11.
  exact (LatParMain.par_lat_intermediate I H1 islat lle jm H2 arities H3 P H4 H5 pl H6 H7 Rin H8 J pre sc rest st T2 D2 R2 HJ1 HJ2 HJ3 H9 H10 H11).
Qed.

(* no deadlock anywhere in a parallel run: in every state of every iteration a run can reach - ANY contributions, ANY global schedule -
   a lattice relation whose head updates are not finished has a worker that can perform a step *)
Theorem c02_par_lat_no_deadlock :
  forall (V : Type) (I : LatSyntax.linterp V) islat lle jm arities P pl Rin pre sc rest st T2 D2 R2 (mx : rel -> list V -> nat) kfirst work sched r,
  LatSyntax.veqb_ok I -> (forall r, islat r = true -> LatSem.lat_laws (lle r) (jm r)) ->
  arities_functional arities -> no_agg P = true -> LatSem.monotone_program I islat lle P ->
  validate arities P pl = true -> LatPlan.lat_plan_ok islat arities pl = true ->
  LatMain.input_ok I islat lle arities Rin ->
  pl = pre ++ sc :: rest ->
  LatParModel.par_lat_run_sccs I islat jm pre (LatEval.update_indices Rin) st ->
  LatParModel.par_lat_loop_reach I islat jm sc (LatEval.l_stored st) (fun _ => []) (fun r => if is_dyn (s_dyn sc) r then LatEval.l_stored st r else [])
                                 (LatEval.l_rows st) T2 D2 R2 ->
  LatParModel.latdyn islat sc r = true ->
  ParLat.finished (LatParModel.grun I jm T2 D2 R2 mx kfirst (LatParModel.ginit I R2 work) sched r) = false ->
  exists j, ParLat.enabled (mx r) (LatParModel.grun I jm T2 D2 R2 mx kfirst (LatParModel.ginit I R2 work) sched r) j = true.
Proof.
  intros V I islat lle jm arities P pl Rin pre sc rest st T2 D2 R2 mx kfirst work sched r H1 H2 H3 H4 H5 H6 H7 H8 H9 H10 H11 H12 H13.
  exact (LatParMain.par_lat_run_no_deadlock I H1 islat lle jm H2 arities H3 P H4 H5 pl H6 H7 Rin H8 pre sc rest st T2 D2 R2 mx kfirst work sched r H9 H10 H11 H12 H13).
Qed.

(* non-vacuity: d(y, v) <-- d(x, v), e(x, y) over Dual<u32> with the plan the real macro dumps for it (one looping SCC, a
   reorderable simple join): the hypotheses hold, and there is a TWO-WORKER run of two iterations in which worker 1 reads row 1
   after worker 0 has raised it (it observes an intermediate value) - ending in d = {0 -> 3, 1 -> 3}, as the serial model does *)
Example c02_par_lat_example_hypotheses :
  LatSyntax.veqb_ok LatVocab.lv_interp /\ (forall r, LatExample.sp_islat r = true -> LatSem.lat_laws (LatExample.sp_lle r) (LatExample.sp_jm r)) /\
  arities_functional LatParExample.px_arities /\ no_agg LatParExample.px_prog = true /\
  LatSem.monotone_program LatVocab.lv_interp LatExample.sp_islat LatExample.sp_lle LatParExample.px_prog /\
  validate LatParExample.px_arities LatParExample.px_prog LatParExample.px_plan = true /\
  LatPlan.lat_plan_ok LatExample.sp_islat LatParExample.px_arities LatParExample.px_plan = true /\
  LatMain.input_ok LatVocab.lv_interp LatExample.sp_islat LatExample.sp_lle LatParExample.px_arities LatParExample.px_input.
Proof.
  split; [exact LatExample.sp_eq|]. split; [exact LatExample.sp_laws|]. split; [exact LatParExample.px_arities_functional|].
  destruct LatParExample.px_checks as [A [B C]]. split; [exact C|]. split; [exact LatParExample.px_monotone|].
  split; [exact A|]. split; [exact B | exact LatParExample.px_input_ok].
Qed.
Example c02_par_lat_example_run : exists st,
  LatParModel.par_lat_run_plan LatVocab.lv_interp LatExample.sp_islat LatExample.sp_jm LatParExample.px_plan LatParExample.px_input st
  /\ LatEval.l_rows st 1%nat = [[0; 3]; [1; 3]]%Z
  /\ option_map (fun s => LatEval.l_rows s 1%nat)
       (LatEval.run_plan LatVocab.lv_interp LatExample.sp_islat LatExample.sp_jm LatVocab.lv_shuffle LatVocab.lv_swap 10 LatParExample.px_plan LatParExample.px_input)
     = Some [[0; 3]; [1; 3]]%Z.
Proof.
  exists LatParExample.px_final. split; [exact LatParExample.px_parallel_run|]. split; [exact LatParExample.px_result | exact LatParExample.px_serial].
Qed.

(* why the model has its causality condition: with "derived from values seen at SOME moment of the iteration" (= between the value
   at the start and the value at the end) instead of "... seen BEFORE its head update starts", the model admits an iteration no
   execution can produce - lattice x(Dual<u32>), rule x(v) <-- x(v), input x = 5: the contribution x = 0 justifies itself through
   its own join - ending outside the only fixed point above the input *)
Theorem c02_par_lat_acausal_model_refuted :
  exists R' N' ch',
    LatParCausality.par_lat_iteration_acausal LatVocab.lv_interp LatExample.sp_islat LatExample.sp_jm LatParCausality.cx_scc
      LatParCausality.cx_St LatParCausality.cx_T LatParCausality.cx_D LatParCausality.cx_input R' N' ch'
    /\ LatSem.directed LatVocab.lv_interp LatExample.sp_islat LatExample.sp_lle (LatSem.dbof LatParCausality.cx_input)
    /\ LatSem.closedH LatVocab.lv_interp LatExample.sp_islat LatExample.sp_lle LatParCausality.cx_prog (LatSem.dbof LatParCausality.cx_input)
    /\ exists row, In row (R' 1%nat) /\ ~ LatSem.below LatVocab.lv_interp LatExample.sp_islat LatExample.sp_lle (LatSem.dbof LatParCausality.cx_input) (1%nat, row).
Proof. exact LatParCausality.acausal_run_not_least. Qed.

(* SCOPE of the lattice engine theorems: programs without aggregation (the hypothesis no_agg, as in C03; aggregates over parallel
   lattice relations: c02_par_lat_agg_* at the end of this file); a run that ENDS (no state of the head updates is a deadlock: c02_par_lat_no_deadlock, and
   per iteration every reachable state of them can be completed: c02_lattice_can_finish; termination of the SCC loop is a property of
   the program, e.g. finite lattice height, not of the engine).  The outcome of the head update of a PLAIN relation inside such a
   program is taken from c02_iteration_schedule_independent (new rows = the derived facts absent from total / delta, each once): it
   is part of the model LatParModel.par_lat_iteration, not re-derived from ParStep's steps over the lattice engine's value universe.
   RESIDUE that no model can exhibit: the relational model is tied to the real ascent_par! binaries by sampling only (C03's programs
   and the lattice + aggregate family under seeded schedule perturbation against the Kleene oracle, gen/props/c02.py); the real
   DashMap / RwLock / Mutex / boxcar implementations, rayon's work stealing and the Relaxed store to __changed being visible after
   the scope's join are assumed linearizable / correct (trusted base); the schedule space of the real binary is sampled, not enumerated. *)

Print Assumptions c02_iteration_schedule_independent. Print Assumptions c02_progress.
Print Assumptions c02_par_run_least_model. Print Assumptions c02_par_equals_serial. Print Assumptions c02_par_run_stratified_model.
Print Assumptions c02_lattice_one_row_per_key. Print Assumptions c02_lattice_values_are_the_serial_ones. Print Assumptions c02_lattice_reindexed.
Print Assumptions c02_lattice_reindexed_once. Print Assumptions c02_lattice_changed_flag. Print Assumptions c02_lattice_progress.
Print Assumptions c02_lattice_can_finish. Print Assumptions c02_lattice_example.
Print Assumptions c02_lattice_new_views_agree. Print Assumptions c02_lattice_new_lists_rows.
Print Assumptions c02_par_lat_run_least_fixed_point. Print Assumptions c02_par_lat_run_one_row_per_key. Print Assumptions c02_par_lat_run_inputs_raised.
Print Assumptions c02_par_lat_equals_serial. Print Assumptions c02_par_lat_run_sound. Print Assumptions c02_par_lat_run_closed_at_exit.
Print Assumptions c02_par_lat_sound_at_every_iteration. Print Assumptions c02_par_lat_no_deadlock.
Print Assumptions c02_par_lat_example_hypotheses. Print Assumptions c02_par_lat_example_run. Print Assumptions c02_par_lat_acausal_model_refuted.

(* ================= the PARALLEL lattice engine WITH aggregation / negation =================
   Model LatEngine/LatParAggModel.v par_lat_agg_run_plan = LatParModel.v (step machines, one global schedule, reads of any value a
   row has had so far) + PAgg items traversing ANY permutation of the frozen Total version of the aggregated relation's index.
   Proof by reduction: while an SCC runs the aggregated relations are complete and frozen, so an aggregate equals a generator
   under the interpretation tr_interp of the rows at SCC entry (LatParAggSim.v), then the per-SCC parallel theorems above. *)
From AV Require Import Engine.Core.
From AV Require Import Engine.Eval.
From AV Require Import Engine.Validate.
From AV Require Import Engine.Naive.
From AV Require Import Engine.InterfaceAgg.
From AV Require Import Engine.Strat.
From AV Require Import Engine.StratFixed.
From AV Require Import Engine.StrataAgg.
From AV Require Engine.Vocab.
From AV Require LatEngine.LatKeys.
From AV Require LatEngine.LatAggEval.
From AV Require LatEngine.LatAggTrans.
From AV Require LatEngine.LatAggInv.
From AV Require LatEngine.LatAggSem.
From AV Require LatEngine.LatAggStrata.
From AV Require LatEngine.LatAggMain.
From AV Require LatEngine.LatAggExample.
From AV Require LatEngine.LatParAggModel.
From AV Require LatEngine.LatParAggSim.
From AV Require LatEngine.LatParAggEmbed.
From AV Require LatEngine.LatParAggMain.
From AV Require LatEngine.LatParAggExample.

(* ---- lattice relations under ascent_par! WITH aggregation / negation: the WHOLE ENGINE.
   Model: LatEngine/LatParAggModel.v par_lat_agg_run_plan = LatParModel.par_lat_run_plan (SCCs in plan order, the SCC loop, per
   iteration any number of workers, the step machine of Engine/ParLat.v per dynamic lattice relation, ONE global schedule,
   rows[i].read().clone() observations subject to causality / exhaustiveness) where an item MirBodyItem::Agg is evaluated as the
   generated parallel code does: index_get on the TOTAL (frozen) version of the aggregated relation's index, the listed row
   numbers traversed in ANY order, each row read ONCE with a value it has had so far during the iteration (lattice rows are copied
   through rows[i].read().clone(), fix 91f3357; the index of a lattice relation is set-backed, d5edf35), the aggregator applied to
   the bound columns of the rows carrying the key, the body continued once per value.
   Hypotheses as in c04_lattice_stratified_model (the serial engine): plan accepted by the validator and the lattice index check,
   variables below N, monotone program whose aggregates have plain key expressions and a plain output variable, lattice laws
   (C16), permutation-invariant aggregators (the shipped ones: c04_lattice_shipped_aggregators), input with one row per key and
   no duplicate rows. *)

(* EVERY parallel run computes the STRATIFIED LATTICE MODEL (LatAggSem.strat_lat_model, the specification the serial engine is
   proved against in C04): the rules are grouped into strata respecting the dependencies; stratum after stratum R0 -> R1 the rows
   are the least fixed point (C03's notion: per-key directed, closed, above R0, below every such set) of the stratum's rules, an
   aggregate / negation ranging over the rows of R0 with the key - each row once, one row per key for a lattice relation;
   literally one row per key and no duplicate row at the end *)
Theorem c02_par_lat_agg_run_stratified_model : forall (V : Type) (I : LatSyntax.linterp V), LatSyntax.veqb_ok I ->
  forall vagg : nat -> list (list V) -> list V, (forall a l l', Permutation l l' -> vagg a l = vagg a l') ->
  forall (islat : rel -> bool) (lle : rel -> V -> V -> Prop) (jm : rel -> V -> V -> V * bool),
  (forall r, islat r = true -> LatSem.lat_laws (lle r) (jm r)) ->
  forall arities : list (rel * nat), arities_functional arities ->
  forall (P : list rule) (N : var), LatAggSem.amonotone_program I islat lle N P ->
  forall pl : plan, validate arities P pl = true -> LatAggEval.alat_plan_ok islat arities pl = true -> LatAggTrans.plan_below N pl = true ->
  forall (Rin : rel -> list (LatSyntax.vtuple V)) (st : LatEval.lstate), LatAggMain.ainput_ok I islat lle arities Rin ->
  LatParAggModel.par_lat_agg_run_plan I vagg islat jm pl Rin st ->
  stratified (plan_strata P pl) = true
  /\ (forall r, In r P <-> In r (concat (plan_strata P pl)))
  /\ LatAggSem.strat_lat_model I vagg islat lle (plan_strata P pl) Rin (LatEval.l_rows st)
  /\ LatKeys.keys_ok islat (LatEval.l_rows st) /\ LatAggInv.plain_nodup islat (LatEval.l_rows st).
Proof. exact @LatParAggMain.par_lat_agg_run_stratified_model. Qed.

(* ... hence the rows of the SERIAL engine with aggregates (LatAggEval.arun_plan, C04) on the same input, for every parallel run
   and every iteration-order / len_estimate oracle of the serial model: in EVERY relation the same rows, as a permutation (row
   numbers depend on the schedule, rows and their multiplicity do not) *)
Theorem c02_par_lat_agg_equals_serial : forall (V : Type) (I : LatSyntax.linterp V), LatSyntax.veqb_ok I ->
  forall vagg : nat -> list (list V) -> list V, (forall a l l', Permutation l l' -> vagg a l = vagg a l') ->
  forall (islat : rel -> bool) (lle : rel -> V -> V -> Prop) (jm : rel -> V -> V -> V * bool),
  (forall r, islat r = true -> LatSem.lat_laws (lle r) (jm r)) ->
  forall arities : list (rel * nat), arities_functional arities ->
  forall (P : list rule) (N : var), LatAggSem.amonotone_program I islat lle N P ->
  forall pl : plan, validate arities P pl = true -> LatAggEval.alat_plan_ok islat arities pl = true -> LatAggTrans.plan_below N pl = true ->
  forall (shuffle ashuffle : nat -> list nat -> list nat) (swap_oracle : nat -> list nat -> list nat -> bool) (fuel : nat)
         (Rin : rel -> list (LatSyntax.vtuple V)) (st_par st_ser : LatEval.lstate),
  (forall n l x, In x (shuffle n l) <-> In x l) -> (forall n l, Permutation (ashuffle n l) l) ->
  LatAggMain.ainput_ok I islat lle arities Rin ->
  LatParAggModel.par_lat_agg_run_plan I vagg islat jm pl Rin st_par ->
  LatAggEval.arun_plan I vagg islat jm shuffle ashuffle swap_oracle fuel pl Rin = Some st_ser ->
  (forall r t, In t (LatEval.l_rows st_par r) <-> In t (LatEval.l_rows st_ser r))
  /\ (forall r, Permutation (LatEval.l_rows st_par r) (LatEval.l_rows st_ser r)).
Proof. exact @LatParAggMain.par_lat_agg_equals_serial. Qed.

(* the specification itself is deterministic: two stratified lattice models over inputs that are permutations of each other are
   permutations of each other, relation by relation *)
Theorem c02_par_lat_agg_model_unique : forall (V : Type) (I : LatSyntax.linterp V), LatSyntax.veqb_ok I ->
  forall vagg : nat -> list (list V) -> list V, (forall a l l', Permutation l l' -> vagg a l = vagg a l') ->
  forall (islat : rel -> bool) (lle : rel -> V -> V -> Prop) (jm : rel -> V -> V -> V * bool),
  (forall r, islat r = true -> LatSem.lat_laws (lle r) (jm r)) ->
  forall (strata : list (list rule)) (R0 R0' R R' : rel -> list (LatSyntax.vtuple V)),
  (forall r, Permutation (R0 r) (R0' r)) -> LatAggInv.plain_nodup islat R0 -> LatAggInv.plain_nodup islat R0' ->
  LatAggSem.strat_lat_model I vagg islat lle strata R0 R -> LatAggSem.strat_lat_model I vagg islat lle strata R0' R' ->
  forall r, Permutation (R r) (R' r).
Proof. exact @LatParAggMain.strat_lat_model_unique. Qed.

(* the rows an aggregate of an SCC ranges over are the FINAL rows of the aggregated relation: neither the SCC of the aggregate nor
   a later one writes them, in any parallel run *)
Theorem c02_par_lat_agg_aggregated_final : forall (V : Type) (I : LatSyntax.linterp V), LatSyntax.veqb_ok I ->
  forall vagg : nat -> list (list V) -> list V, (forall a l l', Permutation l l' -> vagg a l = vagg a l') ->
  forall (islat : rel -> bool) (lle : rel -> V -> V -> Prop) (jm : rel -> V -> V -> V * bool),
  (forall r, islat r = true -> LatSem.lat_laws (lle r) (jm r)) ->
  forall arities : list (rel * nat), arities_functional arities ->
  forall (P : list rule) (N : var), LatAggSem.amonotone_program I islat lle N P ->
  forall pl : plan, validate arities P pl = true -> LatAggEval.alat_plan_ok islat arities pl = true -> LatAggTrans.plan_below N pl = true ->
  forall (pre : list pscc) (sc : pscc) (rest : list pscc) (st st' : LatEval.lstate),
  pl = pre ++ sc :: rest -> LatAggStrata.AG I islat lle arities st ->
  LatParAggModel.par_lat_agg_run_sccs I vagg islat jm (sc :: rest) st st' ->
  forall q, In q (stratum_agg_rels (stratum_of P sc)) -> LatEval.l_rows st' q = LatEval.l_rows st q.
Proof. exact @LatParAggMain.par_lat_agg_aggregated_final. Qed.

(* the REDUCTION behind the theorems, as a statement about the model: a parallel run of an SCC with aggregates IS - same workers,
   same contributions, same schedule, same final state - a parallel run of the aggregate-free translated SCC (every aggregate
   replaced by a generator) of LatParModel under the interpretation in which that generator yields the aggregate of the rows at
   SCC entry: while an SCC runs in parallel the aggregated relations are complete and frozen *)
Theorem c02_par_lat_agg_reduction : forall (V : Type) (I : LatSyntax.linterp V), LatSyntax.veqb_ok I ->
  forall vagg : nat -> list (list V) -> list V, (forall a l l', Permutation l l' -> vagg a l = vagg a l') ->
  forall (islat : rel -> bool) (jm : rel -> V -> V -> V * bool) (arities : list (rel * nat)) (P : list rule) (K : nat) (N : var),
  LatAggTrans.body_bound K P = true ->
  forall (sc : pscc) (st st' : LatEval.lstate),
  scc_ok arities P sc = true -> forallb (LatAggTrans.variant_below N) (s_vars sc) = true ->
  LatAggInv.stored_exact st -> LatAggInv.plain_nodup islat (LatEval.l_rows st) ->
  LatParAggModel.par_lat_agg_run_scc I vagg islat jm sc st st' ->
  LatParModel.par_lat_run_scc (LatAggTrans.tr_interp I vagg islat P K (LatEval.l_rows st)) islat jm (LatAggTrans.tr_scc K N sc) st st'.
Proof. exact @LatParAggSim.par_run_scc_tr. Qed.

(* the model with aggregates is a conservative extension of LatParModel.v: on an SCC without aggregate items the parallel runs of
   the two models are the same *)
Theorem c02_par_lat_agg_conservative : forall (V : Type) (I : LatSyntax.linterp V) (vagg : nat -> list (list V) -> list V)
  (islat : rel -> bool) (jm : rel -> V -> V -> V * bool) (sc : pscc), LatParAggEmbed.scc_noagg sc = true ->
  forall st st' : LatEval.lstate,
  LatParAggModel.par_lat_agg_run_scc I vagg islat jm sc st st' <-> LatParModel.par_lat_run_scc I islat jm sc st st'.
Proof. exact @LatParAggEmbed.par_agg_run_scc_noagg. Qed.

(* at EVERY iteration start a parallel run can reach (any number of completed SCCs, any number of parallel iterations of the next
   one): the state between the SCCs is well formed (arities, one row per key, no duplicate plain rows, EXACT stored indices - each
   row number once), the rows have one row per key, total / delta list every row of the dynamic relations, and the relations the
   SCC does not write (in particular the aggregated ones) still hold their rows at SCC entry *)
Theorem c02_par_lat_agg_at_every_iteration : forall (V : Type) (I : LatSyntax.linterp V), LatSyntax.veqb_ok I ->
  forall vagg : nat -> list (list V) -> list V, (forall a l l', Permutation l l' -> vagg a l = vagg a l') ->
  forall (islat : rel -> bool) (lle : rel -> V -> V -> Prop) (jm : rel -> V -> V -> V * bool),
  (forall r, islat r = true -> LatSem.lat_laws (lle r) (jm r)) ->
  forall arities : list (rel * nat), arities_functional arities ->
  forall (P : list rule) (N : var), LatAggSem.amonotone_program I islat lle N P ->
  forall pl : plan, validate arities P pl = true -> LatAggEval.alat_plan_ok islat arities pl = true -> LatAggTrans.plan_below N pl = true ->
  forall Rin : rel -> list (LatSyntax.vtuple V), LatAggMain.ainput_ok I islat lle arities Rin ->
  forall (pre : list pscc) (sc : pscc) (rest : list pscc) (st : LatEval.lstate) (T2 D2 : rel -> list nat) (R2 : rel -> list (LatSyntax.vtuple V)),
  pl = pre ++ sc :: rest ->
  LatParAggModel.par_lat_agg_run_sccs I vagg islat jm pre (LatEval.update_indices Rin) st ->
  LatParAggModel.par_lat_agg_loop_reach I vagg islat jm sc (LatEval.l_stored st) (fun _ => [])
    (fun r => if is_dyn (s_dyn sc) r then LatEval.l_stored st r else []) (LatEval.l_rows st) T2 D2 R2 ->
  LatAggStrata.AG I islat lle arities st
  /\ (forall r, islat r = true -> NoDup (map LatSyntax.tkey (R2 r)))
  /\ (forall r i, is_dyn (s_dyn sc) r = true -> (i < length (R2 r))%nat -> In i (T2 r) \/ In i (D2 r))
  /\ (forall q, is_dyn (s_dyn sc) q = false -> R2 q = LatEval.l_rows st q).
Proof. exact @LatParAggMain.par_lat_agg_intermediate. Qed.

(* no deadlock anywhere in a parallel run of a program with aggregates (carried over from c02_par_lat_no_deadlock): in every state
   of every iteration a run can reach - ANY contributions, ANY global schedule - a lattice relation whose head updates are not
   finished has a worker that can perform a step *)
Theorem c02_par_lat_agg_no_deadlock : forall (V : Type) (I : LatSyntax.linterp V), LatSyntax.veqb_ok I ->
  forall vagg : nat -> list (list V) -> list V, (forall a l l', Permutation l l' -> vagg a l = vagg a l') ->
  forall (islat : rel -> bool) (lle : rel -> V -> V -> Prop) (jm : rel -> V -> V -> V * bool),
  (forall r, islat r = true -> LatSem.lat_laws (lle r) (jm r)) ->
  forall arities : list (rel * nat), arities_functional arities ->
  forall (P : list rule) (N : var), LatAggSem.amonotone_program I islat lle N P ->
  forall pl : plan, validate arities P pl = true -> LatAggEval.alat_plan_ok islat arities pl = true -> LatAggTrans.plan_below N pl = true ->
  forall Rin : rel -> list (LatSyntax.vtuple V), LatAggMain.ainput_ok I islat lle arities Rin ->
  forall (pre : list pscc) (sc : pscc) (rest : list pscc) (st : LatEval.lstate) (T2 D2 : rel -> list nat) (R2 : rel -> list (LatSyntax.vtuple V))
         (mx : rel -> list V -> nat) (kfirst : rel -> bool) (work : rel -> list (list (list V * V))) (sched : list (rel * nat)) (r : rel),
  pl = pre ++ sc :: rest ->
  LatParAggModel.par_lat_agg_run_sccs I vagg islat jm pre (LatEval.update_indices Rin) st ->
  LatParAggModel.par_lat_agg_loop_reach I vagg islat jm sc (LatEval.l_stored st) (fun _ => [])
    (fun r0 => if is_dyn (s_dyn sc) r0 then LatEval.l_stored st r0 else []) (LatEval.l_rows st) T2 D2 R2 ->
  LatParModel.latdyn islat sc r = true ->
  let s := LatParModel.grun I jm T2 D2 R2 mx kfirst (LatParModel.ginit I R2 work) sched r in
  ParLat.finished s = false -> exists j, ParLat.enabled (mx r) s j = true.
Proof. exact @LatParAggMain.par_lat_agg_run_no_deadlock. Qed.

(* non-vacuity: d(y, v) <-- d(x, v), e(x, y) over Dual<u32> (the looping SCC of c02_par_lat_example_run, two workers, worker 1
   observing a value raised by worker 0) followed by m(x, n) <-- e(x, y), agg n = min(v) in d(x, v) in a later SCC (the aggregate
   binds the lattice column: the rows[i].read().clone() path): every hypothesis holds, there is a parallel run, it ends in
   d = {0 -> 3, 1 -> 3}, m = {(0,3), (1,3)}, the serial model computes the same rows (m in another order), and the theorems apply *)
Example c02_par_lat_agg_example_hypotheses :
  LatSyntax.veqb_ok LatVocab.lv_interp
  /\ (forall a l l', Permutation l l' -> Vocab.std_aint a l = Vocab.std_aint a l')
  /\ (forall r, LatExample.sp_islat r = true -> LatSem.lat_laws (LatExample.sp_lle r) (LatExample.sp_jm r))
  /\ arities_functional LatParAggExample.pax_arities
  /\ LatAggSem.amonotone_program LatVocab.lv_interp LatExample.sp_islat LatExample.sp_lle 4%nat LatParAggExample.pax_prog
  /\ validate LatParAggExample.pax_arities LatParAggExample.pax_prog LatParAggExample.pax_plan = true
  /\ LatAggEval.alat_plan_ok LatExample.sp_islat LatParAggExample.pax_arities LatParAggExample.pax_plan = true
  /\ LatAggTrans.plan_below 4%nat LatParAggExample.pax_plan = true
  /\ LatAggMain.ainput_ok LatVocab.lv_interp LatExample.sp_islat LatExample.sp_lle LatParAggExample.pax_arities LatParExample.px_input.
Proof.
  split; [exact LatExample.sp_eq|]. split; [exact LatAggExample.ag_agg_perm|]. split; [exact LatExample.sp_laws|].
  split; [exact LatParAggExample.pax_arities_functional|]. split; [exact LatParAggExample.pax_monotone|].
  destruct LatParAggExample.pax_checks as [A [B C]]. split; [exact A|]. split; [exact B|]. split; [exact C | exact LatParAggExample.pax_input_ok].
Qed.
Example c02_par_lat_agg_example_run : exists st,
  LatParAggModel.par_lat_agg_run_plan LatVocab.lv_interp Vocab.std_aint LatExample.sp_islat LatExample.sp_jm
    LatParAggExample.pax_plan LatParExample.px_input st
  /\ LatEval.l_rows st 1%nat = [[0; 3]; [1; 3]]%Z /\ LatEval.l_rows st 2%nat = [[0; 3]; [1; 3]]%Z
  /\ option_map (fun s => (LatEval.l_rows s 1%nat, LatEval.l_rows s 2%nat))
       (LatAggEval.arun_plan LatVocab.lv_interp Vocab.std_aint LatExample.sp_islat LatExample.sp_jm LatVocab.lv_shuffle LatVocab.lv_shuffle
          LatVocab.lv_swap 10 LatParAggExample.pax_plan LatParExample.px_input)
     = Some ([[0; 3]; [1; 3]], [[1; 3]; [0; 3]])%Z
  /\ LatAggSem.strat_lat_model LatVocab.lv_interp Vocab.std_aint LatExample.sp_islat LatExample.sp_lle
       (plan_strata LatParAggExample.pax_prog LatParAggExample.pax_plan) LatParExample.px_input (LatEval.l_rows st).
Proof.
  exists LatParAggExample.pax_final. split; [exact LatParAggExample.pax_parallel_run|].
  split; [exact (proj1 LatParAggExample.pax_result)|]. split; [exact (proj2 LatParAggExample.pax_result)|].
  split; [exact LatParAggExample.pax_serial | exact (proj1 LatParAggExample.pax_instance)].
Qed.

(* SCOPE / RESIDUE.  A run that ENDS (termination of the SCC loop is a property of the program); the outcome of the head update of a
   plain relation inside an iteration is part of the model (from c02_iteration_schedule_independent), as in LatParModel; index
   lookups are abstracted to "all listed rows that carry the key" (exact for plans passing alat_plan_ok: no index of a lattice
   relation on the lattice column).  The relational model is tied to the real ascent_par! binaries by sampling only
   (gen/c02_latagg.py: the lattice + aggregate family through ascent_par!, pools 1/3/8, with / without inter_rule_parallelism,
   perturbation seeds, compared with the SERIAL MODEL column - legitimate by c02_par_lat_agg_equals_serial - and with the python
   oracle); DashMap / RwLock / Mutex / rayon are assumed linearizable / correct (trusted base). *)

Print Assumptions c02_par_lat_agg_run_stratified_model. Print Assumptions c02_par_lat_agg_equals_serial.
Print Assumptions c02_par_lat_agg_model_unique. Print Assumptions c02_par_lat_agg_aggregated_final.
Print Assumptions c02_par_lat_agg_reduction. Print Assumptions c02_par_lat_agg_conservative.
Print Assumptions c02_par_lat_agg_at_every_iteration. Print Assumptions c02_par_lat_agg_no_deadlock.
Print Assumptions c02_par_lat_agg_example_hypotheses. Print Assumptions c02_par_lat_agg_example_run.

(* ================= the parallel engine with PER-INDEX, SHARDED, POOL-DEPENDENT state =================
   Engine/ParIndexedModel.v: every index a value of the C19 / C20 models (CRelFullIndex, CRelIndex, CRelNoIndex = a vector of as many shards
   as the pool current at creation has threads, insert into shard thread_index mod len), rows a boxcar push; a schedule interleaves the
   workers' atomic steps (frozen reads + insert_if_not_present; push; one index_insert per other index; __changed.store) in any way.
   Every such run refines Engine/ParStep.v, so the least-model theorem transfers; rule-body READS stay at the row level (work = any
   distribution of eval_variant over the lists every index is proved to denote). *)
From Coq Require Import List ZArith Bool Arith Permutation.
From AV Require Import Index.IndexModel.
From AV Require Import Engine.Core Engine.Sem Engine.Eval Engine.Validate Engine.Naive Engine.ParStep.
From AV Require Import Engine.ParIndexedModel Engine.ParIndexedValue Engine.ParIndexedIter Engine.ParIndexedRefine Engine.ParIndexedExample.
Import ListNotations.
Local Open Scope nat_scope.

(* C02 + C19 + C20 in one model: every run of the per-index parallel engine that did not fail — any pool size, any thread
   index below it for every atomic step, any hash, any distribution of the derived facts over workers and any interleaving
   of the workers' atomic steps (frozen reads + insert_if_not_present; push; one index_insert per other index;
   __changed.store) in every iteration of every SCC, any order of the inserts of update_indices, any field values found in
   the program value — computes the least model, keeps the input rows in place, adds every new fact exactly once, and
   leaves every stored index field with the run pool's shape, denoting the stored tuples of its relation *)
Theorem par_indexed_run_least_model :
  forall (sh : forall A : Type, list A -> list A), (forall A (l : list A), Permutation (sh A l) l) ->
  forall (hash : Z -> nat) (enc : list Z -> Z), (forall a b, enc a = enc b -> a = b) ->
  forall nsh, nsh <> 0 ->
  forall (nomod : bool) (pool : nat) (I : interp) (swap : list tuple -> list tuple -> bool)
         arities P pl F0 (fields : list (xdecl * xval)) st,
    arities_functional arities -> wf_facts arities F0 = true -> no_agg P = true -> validate arities P pl = true ->
    fu_decls (map fst fields) ->
    pix_run_plan sh hash enc nsh nomod I swap pool pl (xinit F0 fields) st ->
    least_model I P F0 (xrows st)
    /\ (exists added, xrows st = F0 ++ added /\ NoDup added /\ (forall f, In f added -> ~ In f F0))
    /\ fields_good hash enc nsh pool (xstored st) (xfields st).
Proof. exact par_indexed_run_least_model_holds. Qed.

(* the refinement behind it: a run of the per-index engine IS a run of ParStep's engine on the row-level state *)
Theorem c02_par_indexed_run_refines_parstep :
  forall (sh : forall A : Type, list A -> list A), (forall A (l : list A), Permutation (sh A l) l) ->
  forall (hash : Z -> nat) (enc : list Z -> Z), (forall a b, enc a = enc b -> a = b) ->
  forall nsh, nsh <> 0 ->
  forall (nomod : bool) (pool : nat) (I : interp) (swap : list tuple -> list tuple -> bool) pl F0 fields st,
    fu_decls (map fst fields) ->
    pix_run_plan sh hash enc nsh nomod I swap pool pl (xinit F0 fields) st ->
    par_run_plan I swap pl (init_state F0) (abs_x st).
Proof. exact pix_run_plan_par. Qed.

(* one iteration (freeze; the workers' steps in ANY interleaving; unfreeze; merge_delta_to_total_new_to_delta per index,
   incl. the shard-wise zip of CRelNoIndex), under the pool hypothesis [sgood] on the store at the head of the loop:
   new facts, rows and __changed are exactly what ParStep.run_sched computes for the SAME work under the schedule
   [coarsen] extracts from the fine one, and afterwards all index variables are again pool-shaped, unfrozen and in
   lock-step: total denotes T ++ D, delta denotes N, new is empty — in EVERY index of every dynamic relation *)
Theorem c02_par_indexed_iteration_refines_parstep :
  forall (sh : forall A : Type, list A -> list A), (forall A (l : list A), Permutation (sh A l) l) ->
  forall (hash : Z -> nat) (enc : list Z -> Z), (forall a b, enc a = enc b -> a = b) ->
  forall nsh, nsh <> 0 ->
  forall (nomod : bool) (pool : nat) (Pd : xdecl -> Prop) (Pb : xdecl -> xval -> Prop) (T D : list fact) (s : store),
    sgood hash enc nsh pool Pd Pb T D [] s -> fu_sk (map skel s) ->
  forall R work sched N R' ch s',
    tids_ok pool sched ->
    iteration_fn sh hash enc nomod R s work sched = Ok (N, R', ch, s') ->
    let pst := run_sched T D (par_init R work) (coarsen hash enc nomod (iinit R (map freeze_entry s) work) sched) in
    finished pst = true /\ N = pN pst /\ R' = pR pst /\ ch = pchanged pst /\
    sgoods hash enc nsh pool Pd Pb (T ++ D) N [] s' /\ map skel s' = map skel s /\
    (forall f, In f N -> find_pos (is_full_of (fst f)) s <> None).
Proof. exact iteration_refines. Qed.

(* lock-step read off [sgoods]: the three variables of EVERY index of a relation denote the relation's tuples in the SAME
   three lists (full index: as a set of keys; hash / no-index: the multiset union over the shards) *)
Theorem c02_par_indexed_lockstep :
  forall (hash : Z -> nat) (enc : list Z -> Z) nsh pool Pd Pb (T D N : list fact) (s : store),
    sgoods hash enc nsh pool Pd Pb T D N s ->
    forall e t dl n, In e s -> s_v e = SDyn t dl n ->
      xden hash enc (s_d e) t (db_of T (x_rel (s_d e))) /\ xden hash enc (s_d e) dl (db_of D (x_rel (s_d e)))
      /\ xden hash enc (s_d e) n (db_of N (x_rel (s_d e))).
Proof. exact sgoods_lockstep. Qed.

(* no schedule fails: under the pool hypothesis every interleaving with thread indices below the pool size runs without a
   panic (no frozen index, no out-of-range shard — also WITHOUT the modulo), and when it lets every worker finish the
   merge succeeds too *)
Theorem c02_par_indexed_iteration_no_panic :
  forall (sh : forall A : Type, list A -> list A), (forall A (l : list A), Permutation (sh A l) l) ->
  forall (hash : Z -> nat) (enc : list Z -> Z), (forall a b, enc a = enc b -> a = b) ->
  forall nsh, nsh <> 0 ->
  forall (nomod : bool) (pool : nat) (Pd : xdecl -> Prop) (Pb : xdecl -> xval -> Prop) (T D : list fact) (s : store),
    sgood hash enc nsh pool Pd Pb T D [] s -> fu_sk (map skel s) ->
  forall R work sched,
    tids_ok pool sched ->
    (forall f, In f (concat work) -> find_pos (is_full_of (fst f)) s <> None) ->
    exists fin, irun hash enc nomod (iinit R (map freeze_entry s) work) sched = Ok fin /\
      (ifinished fin = true ->
       exists s', iteration_fn sh hash enc nomod R s work sched = Ok (iN fin, iR fin, ichanged fin, s')).
Proof. exact iteration_total. Qed.

(* C20 at engine level: update_indices_par establishes the pool hypothesis whatever the program value held before
   (fields created in any pool, any content, frozen or not): afterwards every field has the RUN pool's shape and denotes
   the rows of its relation *)
Example c02_par_indexed_iteration_example :
  exists s', iteration_fn sh_id ex_hash ConcreteEval.enc_list false ex_rows (ex_store 2 2 [(0, [1; 2]%Z)]) ex_work ex_sched
             = Ok ([(0, [3; 4]%Z); (0, [5; 6]%Z)], [(0, [1; 2]%Z); (0, [3; 4]%Z); (0, [5; 6]%Z)], true, s')
    /\ sdump s' = [ ([([1; 2]%Z, [])],      [([3; 4]%Z, []); ([5; 6]%Z, [])],         []);
                    ([([1]%Z, [2]%Z)],      [([3]%Z, [4]%Z); ([5]%Z, [6]%Z)],         []);
                    ([([], [1; 2]%Z)],      [([], [3; 4]%Z); ([], [5; 6]%Z)],         []) ].
Proof. exact ex_iteration_three_indices. Qed.

Print Assumptions par_indexed_run_least_model.
Print Assumptions c02_par_indexed_run_refines_parstep.
Print Assumptions c02_par_indexed_iteration_refines_parstep.
Print Assumptions c02_par_indexed_lockstep.
Print Assumptions c02_par_indexed_iteration_no_panic.
Print Assumptions c02_par_indexed_iteration_example.
