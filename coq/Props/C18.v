(* C18 — property theorems only (placeholder while the proofs are being built). *)
From Coq Require Import List Arith ZArith.
From AV Require Import UF.UfBase.
From AV Require Import UF.UfModel.
From AV Require Import UF.TrUfModel.
Import ListNotations.

Example c18_example_collapse :
  tr_run tr_empty [(0,1);(1,2);(2,0)] = Ok (mkTr [[]; []; [2; 1; 0]] [(0, 2); (1, 1); (2, 2)] [(1, 2); (0, 2)] [(2, [2])] [(2, [])]).
Proof. vm_compute. reflexivity. Qed.
Print Assumptions c18_example_collapse.
