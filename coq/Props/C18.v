(* C18 — public union-find structures of byods/ascent-byods-rels agree with a reference closure
   after any history.  Property theorems only; proofs are one-line references.
   Models (mirrors of the Rust code, every failure an explicit Err):
     UF/UfModel.v    uf.rs                UnionFind   (parent / rank / next cells, find with path halving
                                                        on fuel = #elements, union by rank, the own check ok())
     UF/TrUfModel.v  trrel_union_find.rs  TrRelUnionFind (sets, elem_ids, set_subsumptions, set_connections,
                                                        reverse_set_connections; add, add_set_connection,
                                                        merge_multiple, all public queries, the two assert_* checks)
   Proofs: UF/UfProofs.v (+UfLemmas.v);  UF/TrUfProofs.v (+TrUfInv, TrUfCore, TrUfGraph, TrUfStep, TrUfNode,
   TrUfMerge, TrUfCases, TrUfCollapse, TrUfQueries, TrUfLemmas).
   Every theorem quantifies over ALL finite histories; "after every operation" is the instance at each prefix.
   Nothing is partial. *)
From Coq Require Import List Arith Relations.
From AV Require Import UF.UfBase.
From AV Require Import UF.UfModel.
From AV Require Import UF.UfProofs.
From AV Require Import UF.TrUfModel.
From AV Require Import UF.TrUfInv.
From AV Require Import UF.TrUfProofs.
Import ListNotations.

(* ================= UnionFind (uf.rs) ================= *)
(* reference: [added [] ops] = the items present (insertion order), [upairs [] ops] = the unions performed
   (union_add always; the raw union(id, id) when both items exist), [connected E] = equivalence closure. *)

(* safety: no history of add / find_item / union_add / find(id) / union(id,id) makes the model fail: every
   index the code uses unchecked (get_unchecked) is in bounds, find never runs out of fuel (= terminates
   within #elements steps), no debug assertion fails *)
Theorem c18_uf_safe : forall ops, exists st, uf_run uf_empty ops = Ok st.
Proof. exact uf_run_total. Qed.

(* the element vector is the insertion order of the items *)
Theorem c18_uf_values : forall ops st, uf_run uf_empty ops = Ok st -> u_value st = added [] ops.
Proof. exact uf_run_values. Qed.

(* same class <-> connected by the unions performed: what find_item answers on any reachable state
   (find_item x then find_item y; None exactly for items never added) *)
Theorem c18_uf_classes : forall ops st, uf_run uf_empty ops = Ok st -> forall x y,
  exists st1 rx st2 ry,
    find_item st x = Ok (st1, rx) /\ find_item st1 y = Ok (st2, ry) /\
    (rx = None <-> ~ In x (added [] ops)) /\ (ry = None <-> ~ In y (added [] ops)) /\
    (In x (added [] ops) -> In y (added [] ops) -> (rx = ry <-> connected (upairs [] ops) x y)).
Proof. exact uf_find_item_spec. Qed.

(* the structure's own O(n^2) consistency check ok() (uf.rs:214-281, modelled step by step including the
   path-halving finds it performs) returns true on every reachable state *)
Theorem c18_uf_ok : forall ops st, uf_run uf_empty ops = Ok st -> uf_ok st = Ok true.
Proof. exact uf_run_ok. Qed.

(* ================= TrRelUnionFind (trrel_union_find.rs) ================= *)
(* reference: [rtc adds] = reflexive transitive closure of the added pairs on the mentioned elements *)
Theorem c18_rtc_is_closure : forall E x y,
  rtc E x y <-> (x = y /\ mentioned E x) \/ clos_trans nat (fun a b => In (a, b) E) x y.
Proof. exact rtc_char. Qed.

(* no sequence of add operations fails (no index out of bounds, no unwrap on None, no failed assertion -
   including the debug-only assert_disjoint_invariant inside add -, get_dominant_id terminates) *)
Theorem c18_truf_safe : forall adds, exists st, tr_run tr_empty adds = Ok st.
Proof. exact truf_total. Qed.

(* assert_disjoint_invariant and assert_set_connections_dominant_sets pass *)
Theorem c18_truf_invariants : forall adds st, tr_run tr_empty adds = Ok st ->
  disjoint_ok st = true /\ dominant_ok st = true.
Proof. exact truf_asserts. Qed.

(* contains: sound and complete (in particular contains(x, x) is false for an element never mentioned) *)
Theorem c18_truf_contains : forall adds st, tr_run tr_empty adds = Ok st -> forall x y,
  exists b, tr_contains st x y = Ok b /\ (b = true <-> rtc adds x y).
Proof. exact truf_contains. Qed.

(* set_of / rev_set_of: None exactly for unmentioned elements, otherwise a duplicate-free enumeration *)
Theorem c18_truf_set_of : forall adds st, tr_run tr_empty adds = Ok st -> forall x,
  exists o, tr_set_of st x = Ok o /\ (o = None <-> ~ mentioned adds x) /\
            forall l, o = Some l -> NoDup l /\ forall y, In y l <-> rtc adds x y.
Proof. exact truf_set_of. Qed.
Theorem c18_truf_rev_set_of : forall adds st, tr_run tr_empty adds = Ok st -> forall x,
  exists o, tr_rev_set_of st x = Ok o /\ (o = None <-> ~ mentioned adds x) /\
            forall l, o = Some l -> NoDup l /\ forall y, In y l <-> rtc adds y x.
Proof. exact truf_rev_set_of. Qed.

(* iter_all: a duplicate-free enumeration of the closure *)
Theorem c18_truf_iter_all : forall adds st, tr_run tr_empty adds = Ok st ->
  exists l, tr_iter_all st = Ok l /\ NoDup l /\ forall x y, In (x, y) l <-> rtc adds x y.
Proof. exact truf_iter_all. Qed.

(* count_exact: the number of pairs of the closure *)
Theorem c18_truf_count_exact : forall adds st, tr_run tr_empty adds = Ok st ->
  exists l, NoDup l /\ (forall x y, In (x, y) l <-> rtc adds x y) /\ tr_count_exact st = Ok (length l).
Proof. exact truf_count_exact. Qed.

Theorem c18_truf_is_empty : forall adds st, tr_run tr_empty adds = Ok st -> (tr_is_empty st = true <-> adds = []).
Proof. exact truf_is_empty. Qed.

(* ================= TrRelUnionFind, histories that also call add_node_new ================= *)
(* add_node_new (trrel_union_find.rs:107, pub(crate)) is what the trrel_uf provider calls on the elements of a
   Delta: it creates a singleton class WITHOUT entries in set_connections / reverse_set_connections, and a later
   add(x, x) returns early without creating them.  Such states violate only the clause "every live class has an
   entry in both maps" of the invariant; the invariant without that clause ([tinv_weak], TrUfInv.v) is preserved
   by add and add_node_new (UF/TrUfProofs.v: tr_add_inv for every exempt set P, ann_weak) and determines every
   query: no unwrap in the code depends on such an entry.  Reference closure of a mixed history: rtc of
   [pairs_of ops] = the added pairs plus (x, x) for every add_node_new x, i.e. x counts as mentioned. *)
Theorem c18_truf_safe_with_add_node : forall ops, exists st, tr_run_ops tr_empty ops = Ok st.
Proof. exact truf_ops_total. Qed.
Theorem c18_truf_invariants_with_add_node : forall ops st, tr_run_ops tr_empty ops = Ok st ->
  disjoint_ok st = true /\ dominant_ok st = true.
Proof. exact truf_ops_asserts. Qed.
Theorem c18_truf_contains_with_add_node : forall ops st, tr_run_ops tr_empty ops = Ok st -> forall x y,
  exists b, tr_contains st x y = Ok b /\ (b = true <-> rtc (pairs_of ops) x y).
Proof. exact truf_ops_contains. Qed.
Theorem c18_truf_set_of_with_add_node : forall ops st, tr_run_ops tr_empty ops = Ok st -> forall x,
  exists o, tr_set_of st x = Ok o /\ (o = None <-> ~ mentioned (pairs_of ops) x) /\
            forall l, o = Some l -> NoDup l /\ forall y, In y l <-> rtc (pairs_of ops) x y.
Proof. exact truf_ops_set_of. Qed.
Theorem c18_truf_rev_set_of_with_add_node : forall ops st, tr_run_ops tr_empty ops = Ok st -> forall x,
  exists o, tr_rev_set_of st x = Ok o /\ (o = None <-> ~ mentioned (pairs_of ops) x) /\
            forall l, o = Some l -> NoDup l /\ forall y, In y l <-> rtc (pairs_of ops) y x.
Proof. exact truf_ops_rev_set_of. Qed.
Theorem c18_truf_iter_all_with_add_node : forall ops st, tr_run_ops tr_empty ops = Ok st ->
  exists l, tr_iter_all st = Ok l /\ NoDup l /\ forall x y, In (x, y) l <-> rtc (pairs_of ops) x y.
Proof. exact truf_ops_iter_all. Qed.
Theorem c18_truf_count_exact_with_add_node : forall ops st, tr_run_ops tr_empty ops = Ok st ->
  exists l, NoDup l /\ (forall x y, In (x, y) l <-> rtc (pairs_of ops) x y) /\ tr_count_exact st = Ok (length l).
Proof. exact truf_ops_count_exact. Qed.
(* one step, from any state satisfying the weak invariant (the form the provider proof consumes) *)
Theorem c18_truf_step_with_add_node : forall E st o, tinv_weak E st ->
  exists st' out, tr_step st o = Ok (st', out) /\ tinv_weak (E ++ pairs_of [o]) st'.
Proof. exact tr_step_weak. Qed.

(* ================= non-vacuity: concrete histories computed in the kernel VM ================= *)
(* a back edge over a chain collapses three classes into one (sets 0 and 1 subsumed by 2; note the self loop
   2 -> 2 in set_connections without a counterpart in reverse_set_connections, exactly as in the Rust code) *)
Example c18_example_collapse :
  tr_run tr_empty [(0,1);(1,2);(2,0)] =
    Ok (mkTr [[]; []; [2; 1; 0]] [(0, 2); (1, 1); (2, 2)] [(1, 2); (0, 2)] [(2, [2])] [(2, [])])
  /\ (do st <- tr_run tr_empty [(0,1);(1,2);(2,0);(3,3)];
      do a <- tr_contains st 1 0; do b <- tr_contains st 0 3; do c <- tr_contains st 4 4; do d <- tr_contains st 3 3;
      do n <- tr_count_exact st; Ok (a, b, c, d, n, disjoint_ok st, dominant_ok st))
     = Ok (true, false, false, true, 10, true, true).
Proof. vm_compute. split; reflexivity. Qed.

(* unions with path halving and the circular class list; ok() holds, classes as expected *)
Example c18_example_uf :
  (do st <- uf_run uf_empty [OUnionAdd 0 1; OUnionAdd 2 3; OUnionAdd 1 3; OAdd 4; OFindItem 3; OFindId 3];
   do ok <- uf_ok st;
   do (st1, r0) <- find_item st 0; do (st2, r3) <- find_item st1 3; do (st3, r4) <- find_item st2 4;
   Ok (u_parent st, u_rank st, u_next st, ok, r0, r3, r4))
  = Ok ([0; 0; 0; 0; 4], [2; 0; 1; 0; 0], [3; 0; 1; 2; 4], true, Some 0, Some 0, Some 4).
Proof. vm_compute. reflexivity. Qed.

(* add_node_new leaves class 0 (element 5) without map entries; add(5,5) does not create them; later adds work *)
Example c18_example_add_node :
  (do st <- tr_run_ops tr_empty [TNodeNew 5; TAdd 5 5; TAdd 0 1; TNodeNew 1; TAdd 1 5];
   do a <- tr_contains st 0 5; do b <- tr_contains st 5 5; do c <- tr_contains st 5 0; do n <- tr_count_exact st;
   Ok (a, b, c, n, disjoint_ok st, dominant_ok st))
  = Ok (true, true, false, 6, true, true)
  /\ (do st <- tr_run_ops tr_empty [TNodeNew 5; TAdd 5 5]; Ok (t_conn st, t_rev st)) = Ok ([], []).
Proof. vm_compute. split; reflexivity. Qed.

Print Assumptions c18_uf_safe. Print Assumptions c18_uf_values. Print Assumptions c18_uf_classes.
Print Assumptions c18_uf_ok. Print Assumptions c18_rtc_is_closure. Print Assumptions c18_truf_safe.
Print Assumptions c18_truf_invariants. Print Assumptions c18_truf_contains. Print Assumptions c18_truf_set_of.
Print Assumptions c18_truf_rev_set_of. Print Assumptions c18_truf_iter_all. Print Assumptions c18_truf_count_exact.
Print Assumptions c18_truf_is_empty. Print Assumptions c18_example_collapse. Print Assumptions c18_example_uf.
Print Assumptions c18_truf_safe_with_add_node. Print Assumptions c18_truf_invariants_with_add_node.
Print Assumptions c18_truf_contains_with_add_node. Print Assumptions c18_truf_set_of_with_add_node.
Print Assumptions c18_truf_rev_set_of_with_add_node. Print Assumptions c18_truf_iter_all_with_add_node.
Print Assumptions c18_truf_count_exact_with_add_node. Print Assumptions c18_truf_step_with_add_node.
Print Assumptions c18_example_add_node.
