(* C03 - placeholder while the proofs are being written *)
From Coq Require Import List ZArith Bool.
From AV Require Import Engine.Core Engine.Eval Engine.Validate.
From AV Require Import LatEngine.LatSyntax LatEngine.LatEval LatEngine.LatPlan LatEngine.LatVocab.
Import ListNotations.

Example c03_placeholder : lat_plan_ok (fun _ => false) [] [] = true.
Proof. reflexivity. Qed.
Print Assumptions c03_placeholder.
