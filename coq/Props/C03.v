(* C03 - lattice relations hold one row per key carrying the least fixed point.
   Property theorems only; proofs are in LatEngine/{LatEnv,LatClause,LatMono,LatBase,LatHead,LatItems,LatScc,LatMain,LatKeys}.v.

   Model: LatEngine/LatEval.v run_plan executes the plan dumped from the real macro for a program mixing
   relations and lattices (rows of a lattice relation are mutable in the last column, indices hold row
   numbers, a rule body reads the CURRENT value of a row); Engine/Validate.v validate and LatEngine/LatPlan.v
   lat_plan_ok are the acceptance checks run on every dumped plan.  Specification: LatEngine/LatSem.v.

   Reading guide.  V = the type of column values, ARBITRARY; I interprets the program's symbols over V.
   islat r = relation r is declared `lattice`; the lattice of r is ANY structure (lle r, jm r) on V satisfying
   lat_laws: lle r is a partial order on the set {a | lle r a a} of lattice elements, fst (jm r a b) is the
   least upper bound of a and b, and join_mut's flag snd (jm r a b) may be false only if b <= a
   (c03_shipped_lattices: C16 discharges this for every shipped lattice type).
   tkey t / tval t = key columns / lattice column of a row;  tle r t t' = same key and value below (equality
   for plain relations);  below DB f = some fact of DB is above f;  derives P DB f = f is the head of an
   instance of a rule of P whose body is satisfied in DB (full matching, as in C01);  closedH P DB = every
   derived fact is below DB;  directed J = two facts of J with the same key have a common upper bound in J.
   monotone_program: the semantic predicate of LatSem.v (lattice variables occur only as the fresh last
   argument of lattice clauses, in order-respecting conditions / generators / expressions, and in the
   lattice column of heads).  shuffle / swap_oracle: the order in which every single index lookup iterates
   (hash order) and the run-time len_estimate comparison of a reorderable join - ALL of them.
   input_ok: input rows have their declared arity, lattice columns hold lattice elements, and a lattice
   relation holds at most one input row per key. *)
From Coq Require Import List ZArith Bool.
From AV Require Import Engine.Core Engine.Eval Engine.Validate Engine.Naive.
From AV Require Import Lattice.LatModel Lattice.LatLaws.
From AV Require Import LatEngine.LatSyntax LatEngine.LatEval LatEngine.LatPlan LatEngine.LatSem LatEngine.LatBase LatEngine.LatHead.
From AV Require Import LatEngine.LatKeys LatEngine.LatScc LatEngine.LatMain LatEngine.LatC16 LatEngine.LatVocab LatEngine.LatExample.
From AV Require Import LatEngine.LatVocabArr LatEngine.LatVocabArrLaws.
Import ListNotations.

(* exactly one row per key: after any run, no two rows of a lattice relation have the same key - for EVERY program
   accepted by the validator (no monotonicity, no lattice law is needed for this part), every join_mut, every order
   of iteration, given at most one input row per key *)
Theorem c03_unique_key : forall (V : Type) (I : linterp V) islat jm shuffle swap_oracle arities P pl Rin fuel st,
  veqb_ok I -> no_agg P = true -> validate arities P pl = true ->
  (forall r, islat r = true -> NoDup (map tkey (Rin r))) ->
  run_plan I islat jm shuffle swap_oracle fuel pl Rin = Some st ->
  forall r, islat r = true -> NoDup (map tkey (l_rows st r)).
Proof.
  intros V I islat jm shuffle swap_oracle arities P pl Rin fuel st H1 H2 H3 H4 H5.
  exact (lat_run_unique_key_all I H1 islat jm shuffle swap_oracle arities P H2 pl H3 fuel Rin st H4 H5).
Qed.

(* soundness: the result is below EVERY directed set of facts that is closed under the rules and above the input *)
Theorem c03_sound : forall (V : Type) (I : linterp V) islat lle jm shuffle swap_oracle arities P pl Rin fuel st (J : db),
  veqb_ok I -> (forall r, islat r = true -> lat_laws (lle r) (jm r)) ->
  (forall n l x, In x (shuffle n l) <-> In x l) ->
  arities_functional arities -> no_agg P = true -> monotone_program I islat lle P ->
  validate arities P pl = true -> lat_plan_ok islat arities pl = true ->
  input_ok I islat lle arities Rin ->
  directed I islat lle J -> closedH I islat lle P J -> (forall r row, In row (Rin r) -> below I islat lle J (r, row)) ->
  run_plan I islat jm shuffle swap_oracle fuel pl Rin = Some st ->
  forall r row, In row (l_rows st r) -> below I islat lle J (r, row).
Proof.
  intros V I islat lle jm shuffle swap_oracle arities P pl Rin fuel st J H1 H2 H3 H4 H5 H6 H7 H8 H9 H10 H11 H12 H13.
  exact (lat_run_sound I H1 islat lle jm H2 shuffle H3 swap_oracle arities H4 P H5 H6 pl H7 H8 Rin H9 J fuel st H10 H11 H12 H13).
Qed.

(* closedness at exit: every fact derivable from the final rows by one rule application is below the final rows,
   i.e. every increase of a lattice value has been propagated through every rule *)
Theorem c03_closed_at_exit : forall (V : Type) (I : linterp V) islat lle jm shuffle swap_oracle arities P pl Rin fuel st,
  veqb_ok I -> (forall r, islat r = true -> lat_laws (lle r) (jm r)) ->
  (forall n l x, In x (shuffle n l) <-> In x l) ->
  arities_functional arities -> no_agg P = true -> monotone_program I islat lle P ->
  validate arities P pl = true -> lat_plan_ok islat arities pl = true ->
  input_ok I islat lle arities Rin ->
  run_plan I islat jm shuffle swap_oracle fuel pl Rin = Some st ->
  closedH I islat lle P (dbof (l_rows st)).
Proof.
  intros V I islat lle jm shuffle swap_oracle arities P pl Rin fuel st H1 H2 H3 H4 H5 H6 H7 H8 H9 H10.
  exact (lat_run_closed I H1 islat lle jm H2 shuffle H3 swap_oracle arities H4 P H5 H6 pl H7 H8 Rin H9 fuel st H10).
Qed.

(* the input rows are still there, at the same row numbers, with the same keys and values that only went up *)
Theorem c03_inputs_raised : forall (V : Type) (I : linterp V) islat lle jm shuffle swap_oracle arities P pl Rin fuel st,
  veqb_ok I -> (forall r, islat r = true -> lat_laws (lle r) (jm r)) ->
  (forall n l x, In x (shuffle n l) <-> In x l) ->
  arities_functional arities -> no_agg P = true -> monotone_program I islat lle P ->
  validate arities P pl = true -> lat_plan_ok islat arities pl = true ->
  input_ok I islat lle arities Rin ->
  run_plan I islat jm shuffle swap_oracle fuel pl Rin = Some st ->
  forall r i row, nth_error (Rin r) i = Some row ->
    exists row', nth_error (l_rows st r) i = Some row' /\ tle I islat lle r row row'.
Proof.
  intros V I islat lle jm shuffle swap_oracle arities P pl Rin fuel st H1 H2 H3 H4 H5 H6 H7 H8 H9 H10.
  exact (lat_run_grows I H1 islat lle jm H2 shuffle H3 swap_oracle arities H4 P H5 H6 pl H7 H8 Rin H9 fuel st H10).
Qed.

(* together: the final rows are the LEAST fixed point - a directed set of facts (one row per key), closed under the
   rules, above the input, and below every directed closed set above the input *)
Theorem c03_least_fixed_point : forall (V : Type) (I : linterp V) islat lle jm shuffle swap_oracle arities P pl Rin fuel st,
  veqb_ok I -> (forall r, islat r = true -> lat_laws (lle r) (jm r)) ->
  (forall n l x, In x (shuffle n l) <-> In x l) ->
  arities_functional arities -> no_agg P = true -> monotone_program I islat lle P ->
  validate arities P pl = true -> lat_plan_ok islat arities pl = true ->
  input_ok I islat lle arities Rin ->
  run_plan I islat jm shuffle swap_oracle fuel pl Rin = Some st ->
  let F := dbof (l_rows st) in
  directed I islat lle F /\ closedH I islat lle P F /\ dble I islat lle (dbof Rin) F /\
  forall J : db, directed I islat lle J -> closedH I islat lle P J -> dble I islat lle (dbof Rin) J -> dble I islat lle F J.
Proof.
  intros V I islat lle jm shuffle swap_oracle arities P pl Rin fuel st H1 H2 H3 H4 H5 H6 H7 H8 H9 H10.
  exact (lat_run_least_fixed_point I H1 islat lle jm H2 shuffle H3 swap_oracle arities H4 P H5 H6 pl H7 H8 Rin H9 fuel st H10).
Qed.

(* soundness holds at EVERY intermediate state (what a run stopped by a deadline leaves behind: C14): after any number
   of completed SCCs and any number of evaluations of the rules of the next SCC, the rows are below every directed
   closed set above the input *)
Theorem c03_sound_at_every_iteration : forall (V : Type) (I : linterp V) islat lle jm shuffle swap_oracle arities P pl Rin (J : db) fuel pre sc rest st R',
  veqb_ok I -> (forall r, islat r = true -> lat_laws (lle r) (jm r)) ->
  (forall n l x, In x (shuffle n l) <-> In x l) ->
  arities_functional arities -> no_agg P = true -> monotone_program I islat lle P ->
  validate arities P pl = true -> lat_plan_ok islat arities pl = true ->
  input_ok I islat lle arities Rin ->
  directed I islat lle J -> closedH I islat lle P J -> (forall r row, In row (Rin r) -> below I islat lle J (r, row)) ->
  pl = pre ++ sc :: rest ->
  run_sccs I islat jm shuffle swap_oracle fuel pre (update_indices Rin) = Some st ->
  loop_reach I islat jm shuffle swap_oracle sc (l_stored st) (fun _ => []) (fun r => if is_dyn (s_dyn sc) r then l_stored st r else [])
             (l_rows st) (l_tick st) R' ->
  forall r row, In row (R' r) -> below I islat lle J (r, row).
Proof.
  intros V I islat lle jm shuffle swap_oracle arities P pl Rin J fuel pre sc rest st R' H1 H2 H3 H4 H5 H6 H7 H8 H9 H10 H11 H12 H13 H14 H15.
  exact (lat_sound_intermediate I H1 islat lle jm H2 shuffle H3 swap_oracle arities H4 P H5 H6 pl H7 H8 Rin H9 J fuel pre sc rest st R' H10 H11 H12 H13 H14 H15).
Qed.

(* the lattice hypothesis is discharged by C16 for every shipped lattice type (every nesting depth) *)
Theorem c03_shipped_lattices : forall t, wf_lty t = true -> lat_laws (ok_le (denote t)) (jm (denote t)).
Proof. exact shipped_lattices_ok. Qed.
(* and a lattice on a type T extends to the value universe Z + T (plain columns left, lattice values right) *)
Theorem c03_lattice_in_universe : forall (T : Type) (le : T -> T -> Prop) jmT, lat_laws le jmT -> lat_laws (sum_le le) (sum_jm jmT).
Proof. intros T le jmT. exact (sum_lat_laws le jmT). Qed.

(* the composite lattice columns the tie runs (Product over arrays and tuples; Dual / Option / Rc / Box / Reverse around them;
   LatEngine/LatVocabArr.v): their join_mut in the engine model is C16's Gallina mirror of the shipped code, `jm (denote t)`,
   on integer codes (lat2_jm), and it satisfies the lattice hypothesis of the theorems above for the order
   "both codes are in range and the decoded values are elements of the shipped type with dec a <= dec b" *)
Theorem c03_composite_columns_are_lattices :
  lat_laws (code_le (T := list Z) (ok_le (denote t_arr2)) dec2 R2) (lat2_jm 9) /\
  lat_laws (code_le (T := list Z) (ok_le (denote t_arr3)) dec3 R3) (lat2_jm 10) /\
  lat_laws (code_le (T := list Z) (ok_le (denote t_darr2)) dec2 R2) (lat2_jm 11) /\
  lat_laws (code_le (T := option (list Z)) (ok_le (denote t_oarr2)) odec RO) (lat2_jm 12) /\
  lat_laws (code_le (T := list Z) (ok_le (denote t_arrd2)) dec2 R2) (lat2_jm 13) /\
  lat_laws (code_le (T := Z * (Z * Z)) (ok_le (denote t_prod3)) trip R3) (lat2_jm 14) /\
  lat_laws (code_le (T := list Z) (ok_le (denote t_rcarr2)) dec2 R2) (lat2_jm 15) /\
  lat_laws (code_le (T := list Z) (ok_le (denote t_boxarr2)) dec2 R2) (lat2_jm 16) /\
  lat_laws (code_le (T := list Z) (ok_le (denote t_revarr2)) dec2 R2) (lat2_jm 17).
Proof.
  exact (conj arr2_codes_lattice (conj arr3_codes_lattice (conj darr2_codes_lattice (conj oarr2_codes_lattice (conj arrd2_codes_lattice
        (conj prod3_codes_lattice (conj rcarr2_codes_lattice (conj boxarr2_codes_lattice revarr2_codes_lattice)))))))).
Qed.
(* ... a join that has to move both components: [1, 1] v [5, 7] = [5, 7] in Product<[u32; 2]>; [5, 7] v [1, 1] = [1, 1] under Dual (the
   array's meet_mut); the first component up and the second (a Dual) down in Product<(u32, Dual<u32>, u32)> *)
Example c03_composite_join_moves_every_component :
  lat2_jm 9 (1 * 64 + 1) (5 * 64 + 7) = (5 * 64 + 7, true) /\ lat2_jm 11 (5 * 64 + 7) (1 * 64 + 1) = (1 * 64 + 1, true) /\
  lat2_jm 14 (1 * 4096 + 5 * 64 + 1) (2 * 4096 + 3 * 64 + 0) = (2 * 4096 + 3 * 64 + 1, true).
Proof. vm_compute. auto. Qed.
(* non-vacuity: all-pairs shortest path over Dual<u32> with a downstream plain relation, plan dumped from the real
   macro (the lattice is dynamic in two SCCs, the recursive rule is a reorderable simple join): the hypotheses hold *)
Example c03_example_hypotheses :
  veqb_ok lv_interp /\ (forall r, sp_islat r = true -> lat_laws (sp_lle r) (sp_jm r)) /\
  (forall n l x, In x (lv_shuffle n l) <-> In x l) /\ arities_functional sp_arities /\ no_agg sp_prog = true /\
  monotone_program lv_interp sp_islat sp_lle sp_prog /\
  validate sp_arities sp_prog sp_plan = true /\ lat_plan_ok sp_islat sp_arities sp_plan = true.
Proof.
  split; [exact sp_eq|]. split; [exact sp_laws|]. split; [exact sp_shuffle_ok|]. split; [exact sp_arities_functional|].
  destruct sp_checks as [A [B C]]. split; [exact C|]. split; [exact sp_monotone|]. split; [exact A | exact B].
Qed.
(* ... and the model runs: 25 distances, the distance 0 -> 4 improved from 8 to 4, 20 pairs within distance 4 *)
Example c03_example_runs : exists rows, sp_result = Some (rows, 20%nat) /\ length rows = 25%nat /\ In [0; 4; 4]%Z rows /\ In [0; 0; 5]%Z rows.
Proof. exact sp_runs. Qed.

Print Assumptions c03_unique_key. Print Assumptions c03_sound. Print Assumptions c03_closed_at_exit.
Print Assumptions c03_least_fixed_point. Print Assumptions c03_sound_at_every_iteration. Print Assumptions c03_inputs_raised. Print Assumptions c03_shipped_lattices. Print Assumptions c03_lattice_in_universe.
Print Assumptions c03_example_hypotheses. Print Assumptions c03_example_runs.
Print Assumptions c03_composite_columns_are_lattices. Print Assumptions c03_composite_join_moves_every_component.

(* ================= through the PLANNER model (Plan/PlanModel.v compile_model, Plan/PlanLat*.v) =================
   The plan need not be dumped and checked per program: for every core program meeting wf_core and the decidable wf_lat (exact:
   c03_wf_lat_exact) and every SCC partition meeting sccs_ok, the plan the planner model computes passes the validator AND the
   lattice plan checks, so planner + lattice engine (serial and parallel models) compute the least fixed point / stratified model.
   Tied by gen/plan_lat.py (model plan = dumped plan on lattice programs; hypotheses evaluated on every real desugared program). *)
From Coq Require Import List ZArith Bool Arith Permutation.
From AV Require Import Engine.Core Engine.Eval Engine.Validate Engine.Naive Engine.InterfaceAgg Engine.Strat.
From AV Require Import LatEngine.LatSyntax LatEngine.LatEval LatEngine.LatPlan LatEngine.LatSem LatEngine.LatKeys LatEngine.LatMain.
From AV Require Import LatEngine.LatAggEval LatEngine.LatAggTrans LatEngine.LatAggInv LatEngine.LatAggSem LatEngine.LatAggMain.
From AV Require Import LatEngine.LatParModel LatEngine.LatParMain LatEngine.LatParAggModel LatEngine.LatParAggMain.
From AV Require Import LatEngine.LatVocab LatEngine.LatExample.
From AV Require Import Plan.PlanModel Plan.PlanWf Plan.PlanProofs Plan.PlanLatWf Plan.PlanLatProofs Plan.PlanLatMain.
Import ListNotations.
(* ================================================================ for Props/C03.v ================================================================ *)

(* the planner never indexes a lattice relation on its lattice column: the plan computed for a program meeting wf_lat passes the
   lattice index check of the C03 engine model - for EVERY partition handed to the planner (no hypothesis on sccs, none on arities) *)
Theorem c03_planner_lat_plan_ok : forall islat arities P sccs,
  wf_lat islat arities P = true -> no_agg P = true ->
  lat_plan_ok islat arities (compile_model arities P sccs) = true.
Proof. exact compile_model_lat_plan_ok. Qed.

(* least fixed point and one row per key, with the plan COMPUTED: every well-formed monotone lattice program, every ok partition *)
Theorem c03_planner_least_fixed_point :
  forall (V : Type) (I : linterp V) islat lle jm shuffle swap_oracle arities P sccs Rin fuel st,
  veqb_ok I -> (forall r, islat r = true -> lat_laws (lle r) (jm r)) ->
  (forall n l x, In x (shuffle n l) <-> In x l) ->
  arities_functional arities -> no_agg P = true -> monotone_program I islat lle P ->
  wf_core arities P = true -> wf_lat islat arities P = true -> sccs_ok P sccs = true ->
  LatMain.input_ok I islat lle arities Rin ->
  LatEval.run_plan I islat jm shuffle swap_oracle fuel (compile_model arities P sccs) Rin = Some st ->
  let F := dbof (l_rows st) in
  (directed I islat lle F /\ closedH I islat lle P F /\ dble I islat lle (dbof Rin) F /\
   forall J : db, directed I islat lle J -> closedH I islat lle P J -> dble I islat lle (dbof Rin) J -> dble I islat lle F J)
  /\ forall r, islat r = true -> NoDup (map tkey (l_rows st r)).
Proof. exact planner_lat_engine_least_fixed_point. Qed.

(* the same for every run of the parallel model (ascent_par!) of the computed plan *)
Theorem c03_planner_par_least_fixed_point :
  forall (V : Type) (I : linterp V) islat lle jm arities P sccs Rin st,
  veqb_ok I -> (forall r, islat r = true -> lat_laws (lle r) (jm r)) ->
  arities_functional arities -> no_agg P = true -> monotone_program I islat lle P ->
  wf_core arities P = true -> wf_lat islat arities P = true -> sccs_ok P sccs = true ->
  LatMain.input_ok I islat lle arities Rin ->
  par_lat_run_plan I islat jm (compile_model arities P sccs) Rin st ->
  let F := dbof (l_rows st) in
  (directed I islat lle F /\ closedH I islat lle P F /\ dble I islat lle (dbof Rin) F /\
   forall J : db, directed I islat lle J -> closedH I islat lle P J -> dble I islat lle (dbof Rin) J -> dble I islat lle F J)
  /\ forall r, islat r = true -> NoDup (map tkey (l_rows st r)).
Proof. exact planner_par_lat_engine_least_fixed_point. Qed.

(* parallel and serial runs of the computed plan end with the same rows *)
Theorem c03_planner_par_equals_serial :
  forall (V : Type) (I : linterp V) islat lle jm arities P sccs Rin shuffle swap_oracle fuel st_par st_ser,
  veqb_ok I -> (forall r, islat r = true -> lat_laws (lle r) (jm r)) ->
  arities_functional arities -> no_agg P = true -> monotone_program I islat lle P ->
  wf_core arities P = true -> wf_lat islat arities P = true -> sccs_ok P sccs = true ->
  LatMain.input_ok I islat lle arities Rin ->
  (forall n l x, In x (shuffle n l) <-> In x l) ->
  par_lat_run_plan I islat jm (compile_model arities P sccs) Rin st_par ->
  LatEval.run_plan I islat jm shuffle swap_oracle fuel (compile_model arities P sccs) Rin = Some st_ser ->
  (forall r t, In t (l_rows st_par r) <-> In t (l_rows st_ser r))
  /\ (forall r, islat r = true -> Permutation (l_rows st_par r) (l_rows st_ser r)).
Proof. exact planner_par_lat_equals_serial. Qed.

(* the purely syntactic condition (first clause of the body and the clause directly after it, instead of the planner's own
   simple-join test) is sufficient *)
Theorem c03_wf_lat_syntactic : forall islat arities P, wf_lat_syn islat arities P = true -> wf_lat islat arities P = true.
Proof. exact wf_lat_of_syn. Qed.

(* wf_lat is EXACT: on an ok partition the plan computed for a well-formed program passes the index check ONLY IF the program
   meets wf_lat (so the hypothesis cannot be weakened without changing the engine model) *)
Theorem c03_wf_lat_exact : forall islat arities P sccs,
  wf_core arities P = true -> sccs_ok P sccs = true ->
  alat_plan_ok islat arities (compile_model arities P sccs) = true -> wf_lat islat arities P = true.
Proof. exact wf_lat_exact. Qed.

(* non-vacuity: the shortest-path program of LatExample.v meets every hypothesis, the planner model computes exactly the plan the
   real macro dumped for it, and the run of the computed plan is the least fixed point *)
Example c03_planner_example :
  wf_core sp_arities sp_prog = true /\ wf_lat sp_islat sp_arities sp_prog = true /\ sccs_ok sp_prog sp_sccs = true
  /\ compile_model sp_arities sp_prog sp_sccs = sp_plan
  /\ exists st,
       LatEval.run_plan lv_interp sp_islat sp_jm lv_shuffle lv_swap 40 (compile_model sp_arities sp_prog sp_sccs) sp_input = Some st
       /\ length (l_rows st 1%nat) = 25%nat /\ In [0; 4; 4]%Z (l_rows st 1%nat)
       /\ (let F := dbof (l_rows st) in
           directed lv_interp sp_islat sp_lle F /\ closedH lv_interp sp_islat sp_lle sp_prog F
           /\ dble lv_interp sp_islat sp_lle (dbof sp_input) F
           /\ forall J : db, directed lv_interp sp_islat sp_lle J -> closedH lv_interp sp_islat sp_lle sp_prog J ->
                             dble lv_interp sp_islat sp_lle (dbof sp_input) J -> dble lv_interp sp_islat sp_lle F J)
       /\ forall r, sp_islat r = true -> NoDup (map tkey (l_rows st r)).
Proof.
  destruct sp_hyps as (H1 & H2 & _ & H4 & _).
  exact (conj H1 (conj H2 (conj H4 (conj sp_plan_computed sp_planned_run)))).
Qed.

(* the hypothesis is needed: a join on the lattice value makes the planner build an index on the lattice column; the plan is
   accepted by the validator and rejected by the lattice index check *)
Example c03_planner_wf_lat_needed :
  wf_core sp_arities sp_bad_prog = true /\ wf_lat sp_islat sp_arities sp_bad_prog = false
  /\ validate sp_arities sp_bad_prog (compile_model sp_arities sp_bad_prog [[0%nat]]) = true
  /\ lat_plan_ok sp_islat sp_arities (compile_model sp_arities sp_bad_prog [[0%nat]]) = false.
Proof. exact sp_bad. Qed.

Print Assumptions c03_planner_lat_plan_ok.
Print Assumptions c03_planner_least_fixed_point.
Print Assumptions c03_planner_par_least_fixed_point.
Print Assumptions c03_planner_par_equals_serial.
Print Assumptions c03_wf_lat_syntactic.
Print Assumptions c03_wf_lat_exact.
Print Assumptions c03_planner_example.
Print Assumptions c03_planner_wf_lat_needed.

(* ---- lattice relations under ascent_par!: the reliability of the key-index lookup as an explicit, modelled assumption
   (Engine/ParLatLookup.v; seed C03_par_key_index_try_get_spurious_miss).  The parallel head update looks the key up in new's key
   index twice: (1) outside the key mutex, (5) again under the mutex before it pushes a row.  Engine/ParLat.v (the machine of
   c02_lattice_* / the parallel engines above) takes both lookups as atomic and RELIABLE (DashMap::get waits for a writer).
   ParLatLookup.lrun is that machine with events that may carry a miss flag; u1 / u5 say which of the two lookups honours it
   (answers "absent" although the key is in the map, as a try_get that gives up on a write-locked shard does). *)
From AV Require Engine.ParLat.
From AV Require Engine.ParLatProofs.
From AV Require Engine.ParLatLookup.

(* no flagged event: exactly the machine of Engine/ParLat.v *)
Theorem c03_par_lookup_reliable_is_parlat : forall (K V : Type) keqb jm mx kfirst setidx dl tt u1 u5 sched (st : @ParLat.pstate K V),
  ParLatLookup.lrun keqb jm mx kfirst setidx dl tt u1 u5 st (map (fun j => (j, false)) sched)
  = ParLat.run_sched keqb jm mx kfirst setidx dl tt st sched.
Proof. intros K V keqb jm mx kfirst setidx dl tt u1 u5 sched st. exact (ParLatLookup.lrun_reliable keqb jm mx kfirst setidx dl tt u1 u5 sched st). Qed.

(* only the FIRST lookup unreliable (u5 = false), any events: one row per key in every reachable state, and after every finishing
   event list every row holds the least upper bound of the key's initial value and contributions (ParLatProofs.lubrows: one row
   per key, a key has a row iff it has a value, the row holds THE least upper bound) *)
Theorem c03_par_first_lookup_miss_one_row_per_key :
  forall (K V : Type) keqb, (forall a b : K, keqb a b = true <-> a = b) ->
  forall (le : V -> V -> Prop) jm, lat_laws le jm ->
  forall mx kfirst setidx dl tt u1 R0 nk0 ot0 ch0 work, ParLatProofs.init_ok keqb le dl tt R0 nk0 ot0 ch0 work ->
  forall evs, NoDup (map fst (ParLat.lrows (ParLatLookup.lrun keqb jm mx kfirst setidx dl tt u1 false (ParLat.par_init R0 nk0 ot0 ch0 work) evs))).
Proof. exact (@ParLatLookup.lookup_first_miss_one_row_per_key). Qed.

Theorem c03_par_first_lookup_miss_values_lub :
  forall (K V : Type) keqb, (forall a b : K, keqb a b = true <-> a = b) ->
  forall (le : V -> V -> Prop) jm, lat_laws le jm ->
  forall mx kfirst setidx dl tt u1 R0 nk0 ot0 ch0 work, ParLatProofs.init_ok keqb le dl tt R0 nk0 ot0 ch0 work ->
  forall evs, ParLat.finished (ParLatLookup.lrun keqb jm mx kfirst setidx dl tt u1 false (ParLat.par_init R0 nk0 ot0 ch0 work) evs) = true ->
  ParLatProofs.lubrows le R0 work (ParLat.lrows (ParLatLookup.lrun keqb jm mx kfirst setidx dl tt u1 false (ParLat.par_init R0 nk0 ot0 ch0 work) evs)).
Proof. exact (@ParLatLookup.lookup_first_miss_values_lub). Qed.

(* the RE-CHECK unreliable: "one row per key carrying the least upper bound" is refuted.  Closed witness: bit-mask sets on Z
   (join = bitwise or), input row (7,0), worker 0 derives (5,1) then (5,4), worker 1 derives (5,2) and both its lookups miss:
   the run finishes with the rows (5,1) and (5,6) for key 5 - two rows, neither holds the least upper bound 7; the key index
   answers the newer row, both row numbers are in new's other indices (dependent rules read a stale value next to the current one) *)
Theorem c03_par_recheck_miss_one_row_per_key_refuted : forall kfirst,
  let s := ParLatLookup.lzrun true true kfirst [(7, 0)]%Z [[(5, 1); (5, 4)]; [(5, 2)]]%Z ParLatLookup.miss_events in
  ParLat.finished s = true /\ ParLat.lrows s = [(7, 0); (5, 1); (5, 6)]%Z /\ ~ NoDup (map fst (ParLat.lrows s)) /\
  ParLat.klook Z.eqb 5%Z (ParLat.lnkey s) = Some 2%nat /\ ParLat.lother s = [2%nat; 1%nat] /\ ParLat.lheld s = [].
Proof. exact ParLatLookup.lookup_recheck_miss_refuted. Qed.

(* the same events with a reliable re-check: one row (5,7) *)
Example c03_par_first_lookup_miss_example : forall kfirst,
  let s := ParLatLookup.lzrun true false kfirst [(7, 0)]%Z [[(5, 1); (5, 4)]; [(5, 2)]]%Z
             (ParLatLookup.miss_events ++ repeat (0%nat, false) 4 ++ repeat (1%nat, false) 4) in
  ParLat.finished s = true /\ ParLat.lrows s = [(7, 0); (5, 7)]%Z /\ ParLat.lheld s = [].
Proof. exact ParLatLookup.ex_first_miss_only. Qed.

Print Assumptions c03_par_lookup_reliable_is_parlat.
Print Assumptions c03_par_first_lookup_miss_one_row_per_key.
Print Assumptions c03_par_first_lookup_miss_values_lub.
Print Assumptions c03_par_recheck_miss_one_row_per_key_refuted.
Print Assumptions c03_par_first_lookup_miss_example.

(* ---------------------------------------------------------------- lexicographic tuple lattices as lattice columns
   (std tuples with Dual / Reverse / Option components at every position, a nested tuple, and Dual / Option / OrdLattice around a
   tuple; LatEngine/LatVocabLex.v).  tuple.rs decides join_mut through Ord::cmp of the tuple - hence of every component type -
   while the order of the property is PartialOrd.  In the engine model their join_mut is C16's mirror `jm (denote t)` on codes
   (lat3_jm); it satisfies the lattice hypothesis of the theorems above for "both codes are in range and the decoded values are
   elements of the shipped type with dec a <= dec b in the type's PartialOrd" *)
From AV Require Import LatEngine.LatVocabLex.
From AV Require Import LatEngine.LatVocabLexLaws.

Theorem c03_lex_tuple_columns_are_lattices :
  lat_laws (code_le (T := Z * Z) (ok_le (denote t_lexdu)) p2 RK2) (lat3_jm 20) /\
  lat_laws (code_le (T := Z * Z) (ok_le (denote t_lexud)) p2 RK2) (lat3_jm 21) /\
  lat_laws (code_le (T := Z * Z) (ok_le (denote t_lexdd)) p2 RK2) (lat3_jm 22) /\
  lat_laws (code_le (T := Z * (Z * Z)) (ok_le (denote t_lexudu)) p3 RK3) (lat3_jm 23) /\
  lat_laws (code_le (T := Z * (Z * Z)) (ok_le (denote t_lexdud)) p3 RK3) (lat3_jm 24) /\
  lat_laws (code_le (T := Z * Z) (ok_le (denote t_lexru)) p2 RK2) (lat3_jm 25) /\
  lat_laws (code_le (T := option Z * Z) (ok_le (denote t_lexod)) po2 RK2) (lat3_jm 26) /\
  lat_laws (code_le (T := Z * Z) (ok_le (denote t_dlexuu)) p2 RK2) (lat3_jm 27) /\
  lat_laws (code_le (T := option (Z * Z)) (ok_le (denote t_olexdu)) op2 RKO) (lat3_jm 28) /\
  lat_laws (code_le (T := (Z * Z) * Z) (ok_le (denote t_lexnest)) n3 RK3) (lat3_jm 29) /\
  lat_laws (code_le (T := Z * Z) (ok_le (denote t_ordlexdu)) p2 RK2) (lat3_jm 30).
Proof.
  exact (conj lexdu_codes_lattice (conj lexud_codes_lattice (conj lexdd_codes_lattice (conj lexudu_codes_lattice (conj lexdud_codes_lattice
        (conj lexru_codes_lattice (conj lexod_codes_lattice (conj dlexuu_codes_lattice (conj olexdu_codes_lattice (conj lexnest_codes_lattice
        ordlexdu_codes_lattice)))))))))).
Qed.
(* (Dual(5), 1) v (Dual(3), 0) = (Dual(3), 0): the lower cost wins whatever the tie-breaker; equal costs: the larger tie-breaker;
   (u32, Dual<u32>): equal first components, the smaller second one is the higher value and stays; Option<(Dual<u32>, u32)>: None is
   the bottom; Dual<(u32, u32)>: the lexicographically smaller pair wins *)
Example c03_lex_join_examples :
  lat3_jm 20 (5 * 1024 + 1) (3 * 1024 + 0) = (3 * 1024 + 0, true) /\ lat3_jm 20 (3 * 1024 + 1) (3 * 1024 + 7) = (3 * 1024 + 7, true) /\
  lat3_jm 21 (3 * 1024 + 1) (3 * 1024 + 7) = (3 * 1024 + 1, false) /\ lat3_jm 28 0 5 = (5, true) /\
  lat3_jm 27 (1 * 1024 + 3) (1 * 1024 + 2) = (1 * 1024 + 2, true).
Proof. vm_compute. auto. Qed.
(* what the above rests on, shown on a VARIANT of the model (not the shipped code): if Dual's Ord::cmp were the order of T instead of
   its reverse - partial_cmp, the operators and Dual's own join / meet unchanged, so Dual<u32> columns behave as before - the tuple
   (Dual<u32>, u32) is no lattice: join_mut of (Dual(5), 0) with the larger (Dual(3), 0) keeps (Dual(5), 0) and reports "unchanged" *)
Theorem c03_tuple_column_over_unflipped_dual_cmp_refuted :
  exists a b : carrier bad_lexdu,
    wf bad_lexdu a /\ wf bad_lexdu b /\ le bad_lexdu a b /\
    fst (jm bad_lexdu a b) = a /\ snd (jm bad_lexdu a b) = false /\ ~ le bad_lexdu b (fst (jm bad_lexdu a b)) /\
    jv bad_lexdu a b = b /\
    jm (DualLatCmpUnflipped (denote u32)) (fst a) (fst b) = (fst b, true).
Proof. exact tuple_join_mut_needs_component_cmp_agreement_refuted. Qed.

Print Assumptions c03_lex_tuple_columns_are_lattices.
Print Assumptions c03_lex_join_examples.
Print Assumptions c03_tuple_column_over_unflipped_dual_cmp_refuted.

(* ================= the per-index LATTICE engine (LatEngine/LatIndexed*.v) =================
   Every physical index of a lattice relation keeps its own content (key -> row numbers; the key index key -> one row number); the head update looks the
   key up in new / delta / total, joins in place and on a change re-inserts the row number into every index of `new` under the keys of the DERIVED tuple,
   removing nothing; reads go through the item's own index, rows read at their current value, no re-test.  Under the decidable xplan_ok (no item indexes a
   lattice column) it refines the view engine, so the lattice theorems transfer; outside it the faithful model REPRODUCES the recorded defect
   lattice_value_column_index_stale (known class = alat_plan_ok false).  Tied to the real index fields of lattice programs by gen/lat_indexed_tie.py. *)
From Coq Require Import List ZArith Bool Permutation.
From AV Require Import Engine.Core Engine.Eval Engine.Validate Engine.Naive Engine.Vocab.
From AV Require Import Engine.Strat Engine.StratFixed Engine.InterfaceAgg.
From AV Require Import LatEngine.LatSyntax LatEngine.LatEval LatEngine.LatPlan LatEngine.LatSem LatEngine.LatBase LatEngine.LatKeys.
From AV Require Import LatEngine.LatMain LatEngine.LatVocab LatEngine.LatExample.
From AV Require Import LatEngine.LatAggEval LatEngine.LatAggTrans LatEngine.LatAggInv LatEngine.LatAggSem LatEngine.LatAggMain.
From AV Require Import LatEngine.LatAggExample.
From AV Require Import LatEngine.LatIndexedEval LatEngine.LatIndexedStore LatEngine.LatIndexedMain LatEngine.LatIndexedFinding.
Import ListNotations.
Theorem c03_indexed_least_fixed_point : forall (V : Type) (I : linterp V) islat lle jm shuffle swap_oracle arities P pl Rin fuel,
  veqb_ok I -> (forall r, islat r = true -> lat_laws (lle r) (jm r)) ->
  (forall n l x, In x (shuffle n l) <-> In x l) ->
  arities_functional arities -> no_agg P = true -> monotone_program I islat lle P ->
  validate arities P pl = true -> lat_plan_ok islat arities pl = true ->
  LatMain.input_ok I islat lle arities Rin ->
  forall (vagg : nat -> list (list V) -> list V) (ashuffle : nat -> list nat -> list nat), (forall n l x, In x (ashuffle n l) -> In x l) ->
  forall ds : list xdecl, xplan_ok islat arities ds pl = true -> (forall r, islat r = true -> In r (map fst arities)) ->
  forall xst : xlstate,
  xrun_plan I vagg islat jm shuffle ashuffle swap_oracle (decls_of ds) fuel pl Rin = Some xst ->
  let F := dbof (l_rows (xl_s xst)) in
  (directed I islat lle F /\ closedH I islat lle P F /\ dble I islat lle (dbof Rin) F /\
   forall J : db, directed I islat lle J -> closedH I islat lle P J -> dble I islat lle (dbof Rin) J -> dble I islat lle F J)
  /\ forall r, islat r = true -> NoDup (map tkey (l_rows (xl_s xst) r)).
Proof. exact @lat_indexed_run_least_fixed_point. Qed.

Print Assumptions c03_indexed_least_fixed_point.
