(* C05 — relations are sets: a tuple is inserted exactly once, inputs are never lost (serial evaluation).
   Property theorems only; proofs in Engine/{Strata,SemiNaive,StrataAgg,SemiNaiveAgg,Main}.v. *)
From Coq Require Import List ZArith Bool.
From AV Require Import Engine.Core Engine.Sem Engine.Eval Engine.Validate Engine.Naive Engine.Interface Engine.InterfaceAgg Engine.Main Engine.MainAgg Engine.SemiNaiveAgg.
From AV Require Import Engine.ParStep Engine.InterfacePar Engine.MainPar.
From AV Require Import Engine.Strat Engine.StratFixed Engine.EvalSpecAgg Engine.ParProofsAgg.
From AV Require LatEngine.LatSyntax.
From AV Require LatEngine.LatEval.
From AV Require LatEngine.LatKeys.
From AV Require LatEngine.LatSem.
From AV Require Engine.ParLat.
From AV Require Engine.ParLatProofs.
From AV Require LatEngine.LatPlan.
From AV Require LatEngine.LatMain.
From AV Require LatEngine.LatParModel.
From AV Require LatEngine.LatParMain.
Import ListNotations.

(* every input row is still there, unmodified and in place; evaluation appends only tuples that were absent, each once *)
Theorem c05_inputs_kept_rows_added_once : forall (I : interp) swap arities P pl fuel F0 st,
  arities_functional arities -> wf_facts arities F0 = true -> no_agg P = true ->
  validate arities P pl = true ->
  run_plan I swap fuel pl (init_state F0) = Some st ->
  exists added, rows st = F0 ++ added /\ NoDup added /\ (forall f, In f added -> ~ In f F0).
Proof. intros I swap arities P pl fuel F0 st H1 H2 H3 H4 H5. exact (proj2 (run_plan_correct_full I swap arities P pl fuel F0 st H1 H2 H3 H4 H5)). Qed.

(* with a duplicate-free input the number of rows equals the number of distinct tuples, aggregates included *)
Theorem c05_rows_are_a_set : forall (I : interp) swap arities P pl fuel F0 st,
  arities_functional arities -> wf_facts arities F0 = true -> NoDup F0 -> agg_perm_invariant I ->
  validate arities P pl = true ->
  run_plan I swap fuel pl (init_state F0) = Some st ->
  NoDup (rows st) /\ exists added, rows st = F0 ++ added.
Proof.
  intros I swap arities P pl fuel F0 st H1 H2 H3 H4 H5 H6.
  exact (proj2 (proj2 (proj2 (run_plan_strat_correct_full I swap arities P pl fuel F0 st H1 H2 H3 H4 H5 H6)))).
Qed.

(* parallel evaluation: for EVERY distribution of the derived facts over the workers and EVERY interleaving of
   their atomic steps, in every iteration of every SCC: inputs kept in place, each new tuple appended exactly once
   (exactly one insert_if_not_present succeeds per tuple, however many workers derive it at the same time) *)
Theorem c05_parallel_rows_added_once : forall (I : interp) swap arities P pl F0 st,
  arities_functional arities -> wf_facts arities F0 = true -> no_agg P = true ->
  validate arities P pl = true ->
  par_run_plan I swap pl (init_state F0) st ->
  exists added, rows st = F0 ++ added /\ NoDup added /\ (forall f, In f added -> ~ In f F0).
Proof. intros I swap arities P pl F0 st H1 H2 H3 H4 H5. exact (proj2 (par_run_correct_full I swap arities P pl F0 st H1 H2 H3 H4 H5)). Qed.

(* ... and with aggregation / negation: every parallel run on duplicate-free input leaves duplicate-free rows, inputs in place *)
Theorem c05_parallel_rows_are_a_set : forall (I : interp) swap arities P pl F0 st,
  arities_functional arities -> wf_facts arities F0 = true -> NoDup F0 -> agg_perm_invariant I ->
  validate arities P pl = true ->
  par_run_plan I swap pl (init_state F0) st ->
  NoDup (rows st) /\ exists added, rows st = F0 ++ added.
Proof.
  intros I swap arities P pl F0 st H1 H2 H3 H4 H5 H6.
  exact (proj2 (proj2 (proj2 (par_run_strat_correct I swap (eval_variant_spec_agg I swap) arities P pl F0 st H1 H2 H3 H4 H5 H6)))).
Qed.

(* "never creates a second row for an existing lattice key", serial: after any run of a validated plan of the lattice engine
   model (LatEngine/LatEval.v) no two rows of a lattice relation share their key - every program, every join_mut (no lattice
   law, no monotonicity needed), every iteration order, given at most one input row per key *)
Theorem c05_lattice_one_row_per_key : forall (V : Type) (I : LatSyntax.linterp V) islat jm shuffle swap_oracle arities P pl Rin fuel st,
  LatSyntax.veqb_ok I -> no_agg P = true -> validate arities P pl = true ->
  (forall r, islat r = true -> NoDup (map LatSyntax.tkey (Rin r))) ->
  LatEval.run_plan I islat jm shuffle swap_oracle fuel pl Rin = Some st ->
  forall r, islat r = true -> NoDup (map LatSyntax.tkey (LatEval.l_rows st r)).
Proof.
  intros V I islat jm shuffle swap_oracle arities P pl Rin fuel st H1 H2 H3 H4 H5.
  exact (LatKeys.lat_run_unique_key_all I H1 islat jm shuffle swap_oracle arities P H2 pl H3 fuel Rin st H4 H5).
Qed.

(* ... and under ascent_par!, "concurrently running workers deriving the same lattice key at the same time": in EVERY reachable
   state of one parallel iteration of the lattice head update (Engine/ParLat.v: any lattice, any assignment of keys to key
   mutexes, any distribution of the contributions over workers, any schedule of atomic steps, finished or not) there is one row
   per key; rows present before keep their position and key *)
Theorem c05_parallel_lattice_one_row_per_key : forall (K V : Type) (keqb : K -> K -> bool), (forall a b, keqb a b = true <-> a = b) ->
  forall (le : V -> V -> Prop) (jm : V -> V -> V * bool), LatSem.lat_laws le jm ->
  forall mx kfirst dl tt R0 nk0 ot0 ch0 work, ParLatProofs.init_ok keqb le dl tt R0 nk0 ot0 ch0 work ->
  forall sched,
    let s := ParLat.run_sched keqb jm mx kfirst true dl tt (ParLat.par_init R0 nk0 ot0 ch0 work) sched in
    NoDup (map fst (ParLat.lrows s))
    /\ forall i k v0, nth_error R0 i = Some (k, v0) -> exists c, nth_error (ParLat.lrows s) i = Some (k, c) /\ le v0 c.
Proof.
  intros K V keqb Hk le jm Hl mx kfirst dl tt R0 nk0 ot0 ch0 work Hi sched. split.
  - exact (ParLatProofs.parlat_one_row_per_key keqb Hk le jm Hl mx kfirst true dl tt R0 nk0 ot0 ch0 work Hi sched).
  - exact (ParLatProofs.parlat_rows_in_place keqb Hk le jm Hl mx kfirst true dl tt R0 nk0 ot0 ch0 work Hi sched).
Qed.

(* ... and for a WHOLE ascent_par! run over lattice relations (every SCC, every iteration, any number of workers, one global
   schedule of all atomic head-update steps, rule bodies reading any value a row has had so far): one row per key at the end, and
   the input rows are still there, in place, with values that only went up (LatEngine/LatParMain.v; same hypotheses as C02 / C03) *)
Theorem c05_parallel_lattice_run_one_row_per_key :
  forall (V : Type) (I : LatSyntax.linterp V) islat lle jm arities P pl Rin st,
  LatSyntax.veqb_ok I -> (forall r, islat r = true -> LatSem.lat_laws (lle r) (jm r)) ->
  arities_functional arities -> no_agg P = true -> LatSem.monotone_program I islat lle P ->
  validate arities P pl = true -> LatPlan.lat_plan_ok islat arities pl = true ->
  LatMain.input_ok I islat lle arities Rin ->
  LatParModel.par_lat_run_plan I islat jm pl Rin st ->
  forall r, islat r = true -> NoDup (map LatSyntax.tkey (LatEval.l_rows st r)).
Proof.
  intros V I islat lle jm arities P pl Rin st H1 H2 H3 H4 H5 H6 H7 H8 H9.
  exact (LatParMain.par_lat_run_unique_key I H1 islat lle jm H2 arities H3 P H4 H5 pl H6 H7 Rin H8 st H9).
Qed.

(* ================= program values in ANY state =================
   The theorems above start from a fresh program value (init_state F0).  The property quantifies over every program value:
   one left by run_timeout returning false (the indices of the interrupted SCC are gone: Engine/Timeout.v TOut) and then
   resumed; one that completed a run and whose relation fields the caller then pushed to / replaced / truncated / reordered
   (the stored indices are stale).  Engine/HistRows.v: a history is any list of run() / run_timeout(any clock) / caller
   mutations (any function on the rows); [hist_obs] lists, for every call, the rows it found and the rows it left. *)
From AV Require Import Engine.Timeout Engine.HistRows Engine.Vocab Engine.Examples.

(* whatever the stored indices hold when a call starts, it computes the same thing: a stale or dropped index cannot matter *)
Theorem c05_any_state_stored_indices_irrelevant : forall (I : interp) swap fuel pl steps st1 st2,
  rows st1 = rows st2 -> hist_obs I swap fuel pl steps st1 = hist_obs I swap fuel pl steps st2.
Proof. intros I swap fuel pl. exact (hist_rows_only I swap fuel pl). Qed.

(* every call of every history - interrupted or not, resumed or not, whatever the caller did to the rows in between, caller
   duplicates included - keeps the rows it finds in place and appends only tuples that were absent, each once *)
Theorem c05_any_state_rows_added_once : forall (I : interp) swap arities P pl fuel steps st obs,
  arities_functional arities -> no_agg P = true -> validate arities P pl = true ->
  wf_facts arities (rows st) = true ->
  (forall g, In (HMut g) steps -> forall F, wf_facts arities F = true -> wf_facts arities (g F) = true) ->
  hist_obs I swap fuel pl steps st = Some obs ->
  Forall (fun o => exists added, snd o = fst (fst o) ++ added /\ NoDup added /\ (forall f, In f added -> ~ In f (fst (fst o)))) obs.
Proof.
  intros I swap arities P pl fuel steps st obs H1 H2 H3 H4 H5 H6.
  exact (hist_added_once I swap arities P pl fuel H1 H2 H3 steps st obs H4 H5 H6).
Qed.

(* ... and with aggregation / negation: as long as the caller's mutations keep the rows duplicate free, the rows are
   duplicate free after every call of the history, and every call keeps the rows it found as a prefix *)
Theorem c05_any_state_rows_are_a_set : forall (I : interp) swap arities P pl fuel steps st obs,
  arities_functional arities -> agg_perm_invariant I -> validate arities P pl = true ->
  wf_facts arities (rows st) = true -> NoDup (rows st) ->
  (forall g, In (HMut g) steps -> forall F, wf_facts arities F = true /\ NoDup F -> wf_facts arities (g F) = true /\ NoDup (g F)) ->
  hist_obs I swap fuel pl steps st = Some obs ->
  Forall (fun o => NoDup (snd o) /\ exists added, snd o = fst (fst o) ++ added) obs.
Proof.
  intros I swap arities P pl fuel steps st obs H1 H2 H3 H4 H5 H6 H7.
  exact (hist_rows_are_a_set I swap arities P pl fuel H1 H2 H3 steps st obs H4 H5 H6 H7).
Qed.

(* non-vacuity, transitive closure of a 4-cycle with a tail (Engine/Examples.v, plan dumped by the real macro): run_timeout
   interrupted inside the recursive SCC (15 rows), resumed by run() (25); the caller replaces edge by 2 rows (22 rows in
   all); run_timeout interrupted after the first SCC (23), run() adds nothing; the caller truncates path to 3 rows and
   reverses edge (5 rows); run() (7).  (rows found, flag, rows left) of the five calls: *)
Example c05_any_state_example :
  option_map (map (fun o => (length (fst (fst o)), snd (fst o), length (snd o))))
    (hist_obs std_interp std_swap 30 tc_plan
       [HMut (m_set tc_input); HTimeout (fire_at 2); HRun; HMut (m_assign 0%nat [[5; 6]; [1; 2]]%Z); HTimeout (fire_at 1); HRun;
        HMut (m_keep 1%nat 3); HMut (m_rev 0%nat); HRun] (init_state []))
  = Some [(5, false, 15); (15, true, 25); (22, false, 23); (23, true, 23); (5, true, 7)]%nat.
Proof. vm_compute. reflexivity. Qed.

(* RESIDUE: the real DashMap entry operation / RwLock / Mutex are assumed atomic (C19 proves the one-winner property for every
   interleaving of the modelled atomic steps: Props/C19.v c19_cfi_concurrent_one_winner); lattice programs WITH aggregation are
   exercised through ascent_par! by the tie only. *)

Print Assumptions c05_inputs_kept_rows_added_once. Print Assumptions c05_rows_are_a_set. Print Assumptions c05_parallel_rows_added_once.
Print Assumptions c05_parallel_rows_are_a_set. Print Assumptions c05_lattice_one_row_per_key. Print Assumptions c05_parallel_lattice_one_row_per_key.
Print Assumptions c05_parallel_lattice_run_one_row_per_key.
Print Assumptions c05_any_state_stored_indices_irrelevant. Print Assumptions c05_any_state_rows_added_once. Print Assumptions c05_any_state_rows_are_a_set.
Print Assumptions c05_any_state_example.
